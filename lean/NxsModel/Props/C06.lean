/-
  C06 — the device description read by the client equals the device's configuration.
  Property theorems only (helper lemmas in Lemmas/).
  Names are byte strings on the wire.  The client decodes the whole name field as strict UTF-8 before
  cutting at the first NUL (`validUtf8`, the acceptance condition of CPython's decoder; by
  `validUtf8_iff_text` exactly "is the UTF-8 encoding of a text"), so the round trips carry the
  hypotheses "well-formed UTF-8" and "no NUL byte"; `chinfo_rt_text` states the same for a name
  given as a text (code points), where both hold by construction.
  `devinfo_after_connect` composes the codecs with the handshake model: the `Device` /
  `DeviceChannel` data the client holds after `connect()`.
  Exact bytes vs. meaning (second review R4-B-FA3): `chinfo_rt` / `chinfo_rt_text` state the bytes
  the device-side encoder of /repo emits today (no NUL terminator).  The property allows the name
  "with or without a trailing NUL terminator" — that side is `chinfo_trailing_nul` (decoding with a
  terminator / padding after the name).  An encoder that appends a terminator therefore breaks the
  correspondence with this model (reported as a broken obligation) but not the property: the
  independent oracle (harness/props/C06.py) judges a response by the values an independent decoder
  and the client read from it, not byte by byte.  One consequence it does report: a name of exactly
  65524 bytes fills the frame and leaves no room for a terminator.
-/
import NxsModel.Info
import NxsModel.Describe
import NxsModel.Spec.Wire
import NxsModel.Lemmas.Serial
import NxsModel.Lemmas.Info
namespace Nxs.C06
open Nxs Nxs.Spec Nxs.Info

def byte (n : Nat) : Byte := BitVec.ofNat 8 n
def b2n (b : Bool) : Nat := if b then 1 else 0

/-- the four little-endian bytes of a 32-bit two's-complement return code -/
def i32le (r : Int) : Bytes := leBytes 4 (r % 4294967296).toNat

/-- common info: every value 0..255 of the three one-byte fields arrives unchanged, and the
    response is the NxScope encoding (frame id 2, three bytes) -/
theorem cmninfo_rt (chmax flags rxp : Nat) (h1 : chmax ≤ 255) (h2 : flags ≤ 255) (h3 : rxp ≤ 255) :
    cmninfoEncode chmax flags rxp = .ok (wire 2 [byte chmax, byte flags, byte rxp]) ∧
    (Serial.frameDecode (wire 2 [byte chmax, byte flags, byte rxp])).bind cmninfoDecode
      = .ok (some (chmax, flags, rxp)) := Info.cmninfo_rt chmax flags rxp h1 h2 h3

/-- divider / ACK support follow from the flags byte -/
theorem flags_derived (flags : Nat) :
    divSupported flags = flags.testBit 0 ∧ ackSupported flags = flags.testBit 1 :=
  Info.flags_derived flags

/-- `validUtf8` is not an arbitrary predicate: a byte string passes exactly when it is the UTF-8
    encoding of some text (a sequence of Unicode scalar values) -/
theorem validUtf8_iff_text (bs : Bytes) : validUtf8 bs = true ↔ ∃ text, utf8Encode text = .ok bs :=
  Info.validUtf8_iff_encoding bs

/-- channel info: enable state, the whole 8-bit type byte, dimension, divider, metadata length and
    the name (well-formed UTF-8 without NUL that fits) arrive unchanged; the response is the NxScope
    encoding (frame id 3) -/
theorem chinfo_rt (en : Bool) (ty vdim div mlen : Nat) (name : Bytes)
    (ht : ty ≤ 255) (hv : vdim ≤ 255) (hd : div ≤ 255) (hm : mlen ≤ 255)
    (hnul : ∀ b ∈ name, b ≠ 0) (hutf : validUtf8 name = true) (hfit : name.length ≤ 65524) :
    chinfoEncode ⟨en, ty, vdim, div, mlen, name⟩
      = .ok (wire 3 ([byte (b2n en), byte ty, byte vdim, byte div, byte mlen] ++ name)) ∧
    (Serial.frameDecode (wire 3 ([byte (b2n en), byte ty, byte vdim, byte div, byte mlen] ++ name))).bind
        chinfoDecode = .ok (some ⟨en, ty, vdim, div, mlen, name⟩) :=
  Info.chinfo_rt en ty vdim div mlen name ht hv hd hm hnul hutf hfit

/-- the same with the name given as a text, as the device holds it: every text of scalar values
    without U+0000 (ASCII or not) can be encoded, and if its encoding fits in a frame the client reads
    the same fields and a name whose encoding is that of the text -/
theorem chinfo_rt_text (en : Bool) (ty vdim div mlen : Nat) (text : List Nat)
    (ht : ty ≤ 255) (hv : vdim ≤ 255) (hd : div ≤ 255) (hm : mlen ≤ 255)
    (hsc : ∀ c ∈ text, isScalar c = true) (hnul : ∀ c ∈ text, c ≠ 0) :
    ∃ name, utf8Encode text = .ok name ∧ (name.length ≤ 65524 →
      ((chinfoEncodeText en ty vdim div mlen text).bind Serial.frameDecode).bind chinfoDecode
        = .ok (some ⟨en, ty, vdim, div, mlen, name⟩)) :=
  Info.chinfo_rt_text en ty vdim div mlen text ht hv hd hm hsc hnul

/-- a device may terminate / pad the name with NUL bytes: same fields -/
theorem chinfo_trailing_nul (en ty vdim div mlen : Byte) (name : Bytes) (k : Nat)
    (hnul : ∀ b ∈ name, b ≠ 0) (hutf : validUtf8 name = true) :
    chinfoDecode ⟨3, [en, ty, vdim, div, mlen] ++ name ++ List.replicate k 0⟩
      = .ok (some ⟨en ≠ 0, ty.toNat, vdim.toNat, div.toNat, mlen.toNat, name⟩) :=
  Info.chinfo_trailing_nul en ty vdim div mlen name k hnul hutf

/-- more generally the name ends at the first NUL whatever well-formed bytes follow it … -/
theorem chinfo_nul_then_rest (en ty vdim div mlen : Byte) (name rest : Bytes)
    (hnul : ∀ b ∈ name, b ≠ 0) (hutf : validUtf8 name = true) (hrest : validUtf8 rest = true) :
    chinfoDecode ⟨3, [en, ty, vdim, div, mlen] ++ (name ++ 0 :: rest)⟩
      = .ok (some ⟨en ≠ 0, ty.toNat, vdim.toNat, div.toNat, mlen.toNat, name⟩) :=
  Info.chinfo_nul_then_rest en ty vdim div mlen name rest hnul hutf hrest

/-- … and a name field that is not well-formed UTF-8 — wherever the bad bytes are, also after a
    NUL — is refused with `UnicodeDecodeError` (outside the property's quantifier: not a text) -/
theorem chinfo_invalid_utf8 (en ty vdim div mlen : Byte) (field : Bytes) (h : validUtf8 field = false) :
    chinfoDecode ⟨3, [en, ty, vdim, div, mlen] ++ field⟩ = .error .unicodeError :=
  Info.chinfo_invalid_utf8 en ty vdim div mlen field h

/-- on the text level the cut at the first NUL byte is the cut at the first U+0000
    (`.decode().split("\x00")[0]`): for a field that encodes `text` the name the client keeps
    encodes `text` up to its first U+0000 -/
theorem name_is_text_before_nul (text : List Nat) (field : Bytes) (h : utf8Encode text = .ok field) :
    utf8Encode (text.takeWhile (· ≠ 0)) = .ok (cstr field) := Info.cstr_utf8Encode text field h

/-- derived attributes: data type = low five bits, critical = top bit, reserved = bits 5,6 -/
theorem type_derived (ty : Nat) (ht : ty ≤ 255) :
    dtypeOf ty = ty % 32 ∧ criticalOf ty = ty.testBit 7 ∧ typeResOf ty = (ty / 32 % 4) * 32 ∧
    isValidOf ty = (ty % 32 != 0) := Info.type_derived_lt ty (by omega)

/-- ACK: success exactly when the return code is 0, the code is preserved otherwise -/
theorem ack_rt (r : Int) (hlo : -2147483648 ≤ r) (hhi : r ≤ 2147483647) :
    ackEncode r = .ok (wire 4 (i32le r)) ∧
    (Serial.frameDecode (wire 4 (i32le r))).bind ackDecode
      = .ok (some (if r = 0 then (true, 0) else (false, r))) := Info.ack_rt r hlo hhi

/-- frames of another kind are not mistaken for these responses -/
theorem wrong_kind (fid : Nat) (d : Bytes) :
    (fid ≠ 2 → cmninfoDecode ⟨fid, d⟩ = .ok none) ∧ (fid ≠ 3 → chinfoDecode ⟨fid, d⟩ = .ok none) ∧
    (fid ≠ 4 → ackDecode ⟨fid, d⟩ = .ok none) := Info.wrong_kind fid d

open Nxs.Describe Nxs.Handshake in
/-- **the description after `connect()`**.  For every device configuration within the quantifier
    (channel count, flags, rx padding ≤ 255; per channel one-byte fields and a name that is
    well-formed UTF-8 without NUL and fits) and a link that gives the conforming answer to every
    request (`Resp.ok`, whatever the length of the script): the handshake ends connected, and what
    the client has then built from the answers — each answer being the device's encoder output read
    by `frame_decode` and the client's decoder, collected as `_devinfo_get` does — is the
    configuration: `Device.data` = (channel count, flags, rx padding) with divider / ACK support =
    flag bits 0 / 1, and channel `i` holds id `i` and the configured enable state, type byte,
    dimension, divider, metadata length and name of channel `i`.
    (`Handshake.DevDesc` itself carries only chmax/flags/rxpadding; the per-channel part and the
    bytes of the answers are supplied by `Describe.lean`.) -/
theorem devinfo_after_connect (cfg : DevCfg) (h : CfgOk cfg) (script : List Resp)
    (hs : ∀ r ∈ script, r = Resp.ok) :
    (connect cfg.desc script .ok).outcome = .connected cfg.chans.length cfg.flags cfg.rxpadding ∧
    describe cfg (connect cfg.desc script .ok).sent
      = .ok ⟨cfg.chans.length, cfg.flags, cfg.rxpadding, cfg.flags.testBit 0, cfg.flags.testBit 1,
          (cfg.chans.zipIdx 0).map fun p => ⟨p.2, toInfo p.1⟩⟩ := by
  obtain ⟨h1, h2⟩ := connect_allOk cfg.desc script hs
  refine ⟨h1, ?_⟩
  rw [h2, describe_requests cfg h 0, (Info.flags_derived cfg.flags).1, (Info.flags_derived cfg.flags).2,
    clientView_eq_zipIdx]

/-- the requests of that handshake: stop, common info, the padding trigger write iff the device asks
    for an rx padding, then every channel once, in order -/
theorem requests_after_connect (cfg : Describe.DevCfg) (script : List Handshake.Resp)
    (hs : ∀ r ∈ script, r = Handshake.Resp.ok) :
    (Handshake.connect cfg.desc script .ok).sent
      = [.stop, .cmninfo] ++ (if cfg.rxpadding > 0 then [.padding cfg.rxpadding] else [])
          ++ (List.range' 0 cfg.chans.length).map Handshake.Req.chinfo := by
  rw [(Describe.connect_allOk cfg.desc script hs).2]
  unfold Describe.infoRequests
  by_cases hp : cfg.rxpadding > 0
  · have : cfg.desc.rxpadding > 0 ∧ 0 ≠ cfg.desc.rxpadding := ⟨hp, by show 0 ≠ cfg.rxpadding; omega⟩
    rw [if_pos this, if_pos hp]; rfl
  · have : ¬ (cfg.desc.rxpadding > 0 ∧ 0 ≠ cfg.desc.rxpadding) := fun h => hp h.1
    rw [if_neg this, if_neg hp]; rfl

/-! ### non-vacuity of the hypotheses and sample evaluations -/

example : chinfoEncode ⟨true, 0x8a, 3, 200, 1, [0xc3, 0xa9]⟩
    = .ok (wire 3 [1, 0x8a, 3, 200, 1, 0xc3, 0xa9]) := by decide +kernel
example : ackDecode ⟨4, [0xfe, 0xff, 0xff, 0xff]⟩ = .ok (some (false, -2)) := by decide +kernel
-- `chinfo_rt`, `chinfo_trailing_nul`, `chinfo_nul_then_rest`: a name with 2-, 3- and 4-byte sequences
example : (∀ b ∈ ([0xc3, 0xa9, 0xe2, 0x82, 0xac, 0xf0, 0x9f, 0x99, 0x82, 0x20] : Bytes), b ≠ 0) ∧
    validUtf8 [0xc3, 0xa9, 0xe2, 0x82, 0xac, 0xf0, 0x9f, 0x99, 0x82, 0x20] = true := by decide +kernel
-- `chinfo_invalid_utf8`: invalid lead byte, stray continuation, truncated, overlong, surrogate,
-- above U+10FFFF, and bad bytes after the NUL
example : [[0xff], [0x80], [0xc3], [0xe2, 0x82], [0xc0, 0xaf], [0xe0, 0x80, 0xaf], [0xf0, 0x80, 0x80, 0xaf],
    [0xed, 0xa0, 0x80], [0xf4, 0x90, 0x80, 0x80], [0xf5, 0x80, 0x80, 0x80], [0x61, 0x00, 0xff]].map validUtf8
    = List.replicate 11 false := by decide +kernel
example : chinfoDecode ⟨3, [1, 2, 3, 4, 5, 0x61, 0x00, 0x62, 0x00, 0xff]⟩ = .error .unicodeError := by
  decide +kernel
example : chinfoDecode ⟨3, [1, 2, 3, 4, 5, 0x20, 0x61, 0x20, 0x00, 0x62]⟩
    = .ok (some ⟨true, 2, 3, 4, 5, [0x20, 0x61, 0x20]⟩) := by decide +kernel
-- `chinfo_rt_text`: "é€🙂 " ; a lone surrogate is not a text
example : (∀ c ∈ [0xe9, 0x20ac, 0x1f642, 0x20], isScalar c = true) ∧ (∀ c ∈ [0xe9, 0x20ac, 0x1f642, 0x20], c ≠ 0)
    ∧ utf8Encode [0xe9, 0x20ac, 0x1f642, 0x20]
      = .ok [0xc3, 0xa9, 0xe2, 0x82, 0xac, 0xf0, 0x9f, 0x99, 0x82, 0x20] := by decide +kernel
example : utf8Encode [0x61, 0xd800] = .error .unicodeError := by decide +kernel
-- `devinfo_after_connect`: a configuration satisfying `CfgOk`, and the model's answer on it
example : Describe.CfgOk ⟨0xe7, 9, [⟨true, 0x8a, 3, 200, 1, [0xc3, 0xa9]⟩, ⟨false, 2, 0, 0, 255, []⟩]⟩ :=
  ⟨by decide, by decide, by decide, by
    intro ch hch
    simp only [List.mem_cons, List.not_mem_nil, or_false] at hch
    rcases hch with rfl | rfl <;> exact ⟨by decide, by decide, by decide, by decide, by decide, by decide +kernel, by decide⟩⟩
example : Describe.connectDescribe ⟨0xe7, 9, [⟨true, 0x8a, 3, 200, 1, [0xc3, 0xa9]⟩]⟩
    = (.connected 1 0xe7 9, .ok ⟨1, 0xe7, 9, true, true, [⟨0, ⟨true, 0x8a, 3, 200, 1, [0xc3, 0xa9]⟩⟩]⟩) := by
  decide +kernel

end Nxs.C06
