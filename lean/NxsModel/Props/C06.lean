/-
  C06 — the device description read by the client equals the device's configuration.
  Property theorems only (helper lemmas in Lemmas/).
  Names are byte strings on the wire.  The client decodes the whole name field as strict UTF-8 before
  cutting at the first NUL (`validUtf8`, the acceptance condition of CPython's decoder; by
  `validUtf8_iff_text` exactly "is the UTF-8 encoding of a text"), so the round trips carry the
  hypotheses "well-formed UTF-8" and "no NUL byte"; `chinfo_rt_text` states the same for a name
  given as a text (code points), where both hold by construction.
  `devinfo_after_connect` composes the codecs with the handshake model: the `Device` /
  `DeviceChannel` data the client holds after `connect()`.
  Exact bytes vs. meaning (second review R4-B-FA3): `chinfo_rt` / `chinfo_rt_text` state the bytes
  the device-side encoder of /repo emits today (no NUL terminator).  The property allows the name
  "with or without a trailing NUL terminator" — that side is `chinfo_trailing_nul` (decoding with a
  terminator / padding after the name).  An encoder that appends a terminator therefore breaks the
  correspondence with this model (reported as a broken obligation) but not the property: the
  independent oracle (harness/props/C06.py) judges a response by the values an independent decoder
  and the client read from it, not byte by byte.  One consequence it does report: a name of exactly
  65524 bytes fills the frame and leaves no room for a terminator.
-/
import NxsModel.Info
import NxsModel.Describe
import NxsModel.Spec.Wire
import NxsModel.Lemmas.Serial
import NxsModel.Lemmas.Info
import NxsModel.Lemmas.R7Info
namespace Nxs.C06
open Nxs Nxs.Spec Nxs.Info

def byte (n : Nat) : Byte := BitVec.ofNat 8 n
def b2n (b : Bool) : Nat := if b then 1 else 0

/-- the four little-endian bytes of a 32-bit two's-complement return code -/
def i32le (r : Int) : Bytes := leBytes 4 (r % 4294967296).toNat

/-- common info: every value 0..255 of the three one-byte fields arrives unchanged, and the
    response is the NxScope encoding (frame id 2, three bytes) -/
theorem cmninfo_rt (chmax flags rxp : Nat) (h1 : chmax ≤ 255) (h2 : flags ≤ 255) (h3 : rxp ≤ 255) :
    cmninfoEncode chmax flags rxp = .ok (wire 2 [byte chmax, byte flags, byte rxp]) ∧
    (Serial.frameDecode (wire 2 [byte chmax, byte flags, byte rxp])).bind cmninfoDecode
      = .ok (some (chmax, flags, rxp)) := Info.cmninfo_rt chmax flags rxp h1 h2 h3

/-- divider / ACK support follow from the flags byte -/
theorem flags_derived (flags : Nat) :
    divSupported flags = flags.testBit 0 ∧ ackSupported flags = flags.testBit 1 :=
  Info.flags_derived flags

/-- `validUtf8` is not an arbitrary predicate: a byte string passes exactly when it is the UTF-8
    encoding of some text (a sequence of Unicode scalar values) -/
theorem validUtf8_iff_text (bs : Bytes) : validUtf8 bs = true ↔ ∃ text, utf8Encode text = .ok bs :=
  Info.validUtf8_iff_encoding bs

/-- channel info: enable state, the whole 8-bit type byte, dimension, divider, metadata length and
    the name (well-formed UTF-8 without NUL that fits) arrive unchanged; the response is the NxScope
    encoding (frame id 3) -/
theorem chinfo_rt (en : Bool) (ty vdim div mlen : Nat) (name : Bytes)
    (ht : ty ≤ 255) (hv : vdim ≤ 255) (hd : div ≤ 255) (hm : mlen ≤ 255)
    (hnul : ∀ b ∈ name, b ≠ 0) (hutf : validUtf8 name = true) (hfit : name.length ≤ 65524) :
    chinfoEncode ⟨en, ty, vdim, div, mlen, name⟩
      = .ok (wire 3 ([byte (b2n en), byte ty, byte vdim, byte div, byte mlen] ++ name)) ∧
    (Serial.frameDecode (wire 3 ([byte (b2n en), byte ty, byte vdim, byte div, byte mlen] ++ name))).bind
        chinfoDecode = .ok (some ⟨en, ty, vdim, div, mlen, name⟩) :=
  Info.chinfo_rt en ty vdim div mlen name ht hv hd hm hnul hutf hfit

/-- the same with the name given as a text, as the device holds it: every text of scalar values
    without U+0000 (ASCII or not) can be encoded, and if its encoding fits in a frame the client reads
    the same fields and a name whose encoding is that of the text -/
theorem chinfo_rt_text (en : Bool) (ty vdim div mlen : Nat) (text : List Nat)
    (ht : ty ≤ 255) (hv : vdim ≤ 255) (hd : div ≤ 255) (hm : mlen ≤ 255)
    (hsc : ∀ c ∈ text, isScalar c = true) (hnul : ∀ c ∈ text, c ≠ 0) :
    ∃ name, utf8Encode text = .ok name ∧ (name.length ≤ 65524 →
      ((chinfoEncodeText en ty vdim div mlen text).bind Serial.frameDecode).bind chinfoDecode
        = .ok (some ⟨en, ty, vdim, div, mlen, name⟩)) :=
  Info.chinfo_rt_text en ty vdim div mlen text ht hv hd hm hsc hnul

/-- a device may terminate / pad the name with NUL bytes: same fields -/
theorem chinfo_trailing_nul (en ty vdim div mlen : Byte) (name : Bytes) (k : Nat)
    (hnul : ∀ b ∈ name, b ≠ 0) (hutf : validUtf8 name = true) :
    chinfoDecode ⟨3, [en, ty, vdim, div, mlen] ++ name ++ List.replicate k 0⟩
      = .ok (some ⟨en ≠ 0, ty.toNat, vdim.toNat, div.toNat, mlen.toNat, name⟩) :=
  Info.chinfo_trailing_nul en ty vdim div mlen name k hnul hutf

/-- more generally the name ends at the first NUL whatever well-formed bytes follow it … -/
theorem chinfo_nul_then_rest (en ty vdim div mlen : Byte) (name rest : Bytes)
    (hnul : ∀ b ∈ name, b ≠ 0) (hutf : validUtf8 name = true) (hrest : validUtf8 rest = true) :
    chinfoDecode ⟨3, [en, ty, vdim, div, mlen] ++ (name ++ 0 :: rest)⟩
      = .ok (some ⟨en ≠ 0, ty.toNat, vdim.toNat, div.toNat, mlen.toNat, name⟩) :=
  Info.chinfo_nul_then_rest en ty vdim div mlen name rest hnul hutf hrest

/-- … and a name field that is not well-formed UTF-8 — wherever the bad bytes are, also after a
    NUL — is refused with `UnicodeDecodeError` (outside the property's quantifier: not a text) -/
theorem chinfo_invalid_utf8 (en ty vdim div mlen : Byte) (field : Bytes) (h : validUtf8 field = false) :
    chinfoDecode ⟨3, [en, ty, vdim, div, mlen] ++ field⟩ = .error .unicodeError :=
  Info.chinfo_invalid_utf8 en ty vdim div mlen field h

/-- on the text level the cut at the first NUL byte is the cut at the first U+0000
    (`.decode().split("\x00")[0]`): for a field that encodes `text` the name the client keeps
    encodes `text` up to its first U+0000 -/
theorem name_is_text_before_nul (text : List Nat) (field : Bytes) (h : utf8Encode text = .ok field) :
    utf8Encode (text.takeWhile (· ≠ 0)) = .ok (cstr field) := Info.cstr_utf8Encode text field h

/-- derived attributes: data type = low five bits, critical = top bit, reserved = bits 5,6 -/
theorem type_derived (ty : Nat) (ht : ty ≤ 255) :
    dtypeOf ty = ty % 32 ∧ criticalOf ty = ty.testBit 7 ∧ typeResOf ty = (ty / 32 % 4) * 32 ∧
    isValidOf ty = (ty % 32 != 0) := Info.type_derived_lt ty (by omega)

/-- ACK: success exactly when the return code is 0, the code is preserved otherwise -/
theorem ack_rt (r : Int) (hlo : -2147483648 ≤ r) (hhi : r ≤ 2147483647) :
    ackEncode r = .ok (wire 4 (i32le r)) ∧
    (Serial.frameDecode (wire 4 (i32le r))).bind ackDecode
      = .ok (some (if r = 0 then (true, 0) else (false, r))) := Info.ack_rt r hlo hhi

/-- frames of another kind are not mistaken for these responses -/
theorem wrong_kind (fid : Nat) (d : Bytes) :
    (fid ≠ 2 → cmninfoDecode ⟨fid, d⟩ = .ok none) ∧ (fid ≠ 3 → chinfoDecode ⟨fid, d⟩ = .ok none) ∧
    (fid ≠ 4 → ackDecode ⟨fid, d⟩ = .ok none) := Info.wrong_kind fid d

open Nxs.Describe Nxs.Handshake in
/-- **the description after `connect()`**.  For every device configuration within the quantifier
    (channel count, flags, rx padding ≤ 255; per channel one-byte fields and a name that is
    well-formed UTF-8 without NUL and fits) and a link that gives the conforming answer to every
    request (`Resp.ok`, whatever the length of the script): the handshake ends connected, and what
    the client has then built from the answers — each answer being the device's encoder output read
    by `frame_decode` and the client's decoder, collected as `_devinfo_get` does — is the
    configuration: `Device.data` = (channel count, flags, rx padding) with divider / ACK support =
    flag bits 0 / 1, and channel `i` holds id `i` and the configured enable state, type byte,
    dimension, divider, metadata length and name of channel `i`.
    (`Handshake.DevDesc` itself carries only chmax/flags/rxpadding; the per-channel part and the
    bytes of the answers are supplied by `Describe.lean`.) -/
theorem devinfo_after_connect (cfg : DevCfg) (h : CfgOk cfg) (script : List Resp)
    (hs : ∀ r ∈ script, r = Resp.ok) :
    (connect cfg.desc script .ok).outcome = .connected cfg.chans.length cfg.flags cfg.rxpadding ∧
    describe cfg (connect cfg.desc script .ok).sent
      = .ok ⟨cfg.chans.length, cfg.flags, cfg.rxpadding, cfg.flags.testBit 0, cfg.flags.testBit 1,
          (cfg.chans.zipIdx 0).map fun p => ⟨p.2, toInfo p.1⟩⟩ := by
  obtain ⟨h1, h2⟩ := connect_allOk cfg.desc script hs
  refine ⟨h1, ?_⟩
  rw [h2, describe_requests cfg h 0, (Info.flags_derived cfg.flags).1, (Info.flags_derived cfg.flags).2,
    clientView_eq_zipIdx]

/-- the requests of that handshake: stop, common info, the padding trigger write iff the device asks
    for an rx padding, then every channel once, in order -/
theorem requests_after_connect (cfg : Describe.DevCfg) (script : List Handshake.Resp)
    (hs : ∀ r ∈ script, r = Handshake.Resp.ok) :
    (Handshake.connect cfg.desc script .ok).sent
      = [.stop, .cmninfo] ++ (if cfg.rxpadding > 0 then [.padding cfg.rxpadding] else [])
          ++ (List.range' 0 cfg.chans.length).map Handshake.Req.chinfo := by
  rw [(Describe.connect_allOk cfg.desc script hs).2]
  unfold Describe.infoRequests
  by_cases hp : cfg.rxpadding > 0
  · have : cfg.desc.rxpadding > 0 ∧ 0 ≠ cfg.desc.rxpadding := ⟨hp, by show 0 ≠ cfg.rxpadding; omega⟩
    rw [if_pos this, if_pos hp]; rfl
  · have : ¬ (cfg.desc.rxpadding > 0 ∧ 0 ≠ cfg.desc.rxpadding) := fun h => hp h.1
    rw [if_neg this, if_neg hp]; rfl

/-! ### non-vacuity of the hypotheses and sample evaluations -/

example : chinfoEncode ⟨true, 0x8a, 3, 200, 1, [0xc3, 0xa9]⟩
    = .ok (wire 3 [1, 0x8a, 3, 200, 1, 0xc3, 0xa9]) := by decide +kernel
example : ackDecode ⟨4, [0xfe, 0xff, 0xff, 0xff]⟩ = .ok (some (false, -2)) := by decide +kernel
-- `chinfo_rt`, `chinfo_trailing_nul`, `chinfo_nul_then_rest`: a name with 2-, 3- and 4-byte sequences
example : (∀ b ∈ ([0xc3, 0xa9, 0xe2, 0x82, 0xac, 0xf0, 0x9f, 0x99, 0x82, 0x20] : Bytes), b ≠ 0) ∧
    validUtf8 [0xc3, 0xa9, 0xe2, 0x82, 0xac, 0xf0, 0x9f, 0x99, 0x82, 0x20] = true := by decide +kernel
-- `chinfo_invalid_utf8`: invalid lead byte, stray continuation, truncated, overlong, surrogate,
-- above U+10FFFF, and bad bytes after the NUL
example : [[0xff], [0x80], [0xc3], [0xe2, 0x82], [0xc0, 0xaf], [0xe0, 0x80, 0xaf], [0xf0, 0x80, 0x80, 0xaf],
    [0xed, 0xa0, 0x80], [0xf4, 0x90, 0x80, 0x80], [0xf5, 0x80, 0x80, 0x80], [0x61, 0x00, 0xff]].map validUtf8
    = List.replicate 11 false := by decide +kernel
example : chinfoDecode ⟨3, [1, 2, 3, 4, 5, 0x61, 0x00, 0x62, 0x00, 0xff]⟩ = .error .unicodeError := by
  decide +kernel
example : chinfoDecode ⟨3, [1, 2, 3, 4, 5, 0x20, 0x61, 0x20, 0x00, 0x62]⟩
    = .ok (some ⟨true, 2, 3, 4, 5, [0x20, 0x61, 0x20]⟩) := by decide +kernel
-- `chinfo_rt_text`: "é€🙂 " ; a lone surrogate is not a text
example : (∀ c ∈ [0xe9, 0x20ac, 0x1f642, 0x20], isScalar c = true) ∧ (∀ c ∈ [0xe9, 0x20ac, 0x1f642, 0x20], c ≠ 0)
    ∧ utf8Encode [0xe9, 0x20ac, 0x1f642, 0x20]
      = .ok [0xc3, 0xa9, 0xe2, 0x82, 0xac, 0xf0, 0x9f, 0x99, 0x82, 0x20] := by decide +kernel
example : utf8Encode [0x61, 0xd800] = .error .unicodeError := by decide +kernel
-- `devinfo_after_connect`: a configuration satisfying `CfgOk`, and the model's answer on it
example : Describe.CfgOk ⟨0xe7, 9, [⟨true, 0x8a, 3, 200, 1, [0xc3, 0xa9]⟩, ⟨false, 2, 0, 0, 255, []⟩]⟩ :=
  ⟨by decide, by decide, by decide, by
    intro ch hch
    simp only [List.mem_cons, List.not_mem_nil, or_false] at hch
    rcases hch with rfl | rfl <;> exact ⟨by decide, by decide, by decide, by decide, by decide, by decide +kernel, by decide⟩⟩
example : Describe.connectDescribe ⟨0xe7, 9, [⟨true, 0x8a, 3, 200, 1, [0xc3, 0xa9]⟩]⟩
    = (.connected 1 0xe7 9, .ok ⟨1, 0xe7, 9, true, true, [⟨0, ⟨true, 0x8a, 3, 200, 1, [0xc3, 0xa9]⟩⟩]⟩) := by
  decide +kernel

/-! ## Round 7 additions

  * `chinfo_any_frame_bounded`, `cmninfo_any_frame_bounded` — whatever frame a device sends (ANY id, ANY payload,
    lawful or not): if the client's decoder accepts it, every numeric field of the description is 0..255, the name
    is well-formed UTF-8 without NUL and shorter than the payload, and the frame has the right id and minimum size;
  * `description_determines_configuration` — the configuration → description map of `connect()` is injective on
    the property's quantifier: two different configurations never look alike to the client;
  * `chinfo_response_injective`, `ack_codes_distinct` — the same for single responses: two lawful channel-info
    responses decoding alike carry the same configuration; two return codes are never confused;
  * `description_forgets_before_last_cmninfo` — the collecting discipline of `_devinfo_get` (section 5: "late or
    repeated common-info answer … K/O only"): whatever requests were answered before the last common-info
    exchange (an earlier common info, part of the channel list, a channel asked twice, channels the device does
    not have), the description built is the configuration;
  * `description_needs_every_channel_once` — (sharpness) asking a channel twice is NOT harmless: `Device.__init__`
    refuses the collection (`assert len(channels) == chmax`). -/

/-- round 7: **bounds on everything the client can ever learn about a channel** — for ANY frame (any id, any
    payload, from any device): if `frame_chinfo_decode` returns a description, the frame is a CHINFO frame of at
    least 5 bytes, type / dimension / divider / metadata length are 0..255, and the name is well-formed UTF-8,
    NUL-free and at most payload − 5 bytes -/
theorem chinfo_any_frame_bounded (fr : Serial.Frame) (ci : ChanInfo) (h : chinfoDecode fr = .ok (some ci)) :
    fr.fid = 3 ∧ 5 ≤ fr.data.length ∧ ci.type ≤ 255 ∧ ci.vdim ≤ 255 ∧ ci.div ≤ 255 ∧ ci.mlen ≤ 255 ∧
    validUtf8 ci.name = true ∧ (∀ b ∈ ci.name, b ≠ 0) ∧ ci.name.length + 5 ≤ fr.data.length ∧
    dtypeOf ci.type ≤ 31 := by
  obtain ⟨a, b, c, d, e, s, rfl, hv, rfl⟩ := Info.chinfoDecode_some_shape fr ci h
  obtain ⟨h1, h2, h3⟩ := Info.cstr_props s hv
  have hb := b.isLt; have hc := c.isLt; have hd := d.isLt; have he := e.isLt
  refine ⟨rfl, by simp, by simp only; omega, by simp only; omega, by simp only; omega, by simp only; omega,
    h1, h2, by simp; omega, ?_⟩
  rw [(Info.type_derived_lt b.toNat hb).1]; omega

/-- round 7: the same for the device-level description: channel count, flags and rx padding are 0..255 whatever
    the device sent -/
theorem cmninfo_any_frame_bounded (fr : Serial.Frame) (chmax flags rxp : Nat)
    (h : cmninfoDecode fr = .ok (some (chmax, flags, rxp))) :
    fr.fid = 2 ∧ 3 ≤ fr.data.length ∧ chmax ≤ 255 ∧ flags ≤ 255 ∧ rxp ≤ 255 := by
  obtain ⟨a, b, c, rest, rfl, ht⟩ := Info.cmninfoDecode_some_shape fr _ h
  simp only [Prod.mk.injEq] at ht
  obtain ⟨rfl, rfl, rfl⟩ := ht
  have ha := a.isLt; have hb := b.isLt; have hc := c.isLt
  exact ⟨rfl, by simp, by omega, by omega, by omega⟩

example : chinfoDecode ⟨3, [7, 0xff, 0xff, 0xff, 0xff, 0x61, 0x00, 0x62]⟩ = .ok (some ⟨true, 255, 255, 255, 255, [0x61]⟩) := by
  decide +kernel

open Nxs.Describe Nxs.Handshake in
/-- round 7: **the description determines the configuration.**  Two configurations within the quantifier whose
    `connect()` leaves the client with the same description are the same configuration (channel count, flags, rx
    padding, and per channel enable state, type byte, dimension, divider, metadata length and name) -/
theorem description_determines_configuration (c1 c2 : DevCfg) (h1 : CfgOk c1) (h2 : CfgOk c2)
    (h : (connectDescribe c1).2 = (connectDescribe c2).2) : c1 = c2 := by
  have e1 : (connectDescribe c1).2 = describe c1 (connect c1.desc [] .ok).sent := rfl
  have e2 : (connectDescribe c2).2 = describe c2 (connect c2.desc [] .ok).sent := rfl
  rw [e1, e2, (connect_allOk c1.desc [] (by simp)).2, (connect_allOk c2.desc [] (by simp)).2,
    describe_requests c1 h1 0, describe_requests c2 h2 0] at h
  have h' := Except.ok.inj h
  simp only [ClientDev.mk.injEq] at h'
  obtain ⟨_, hf, hr, _, _, hc⟩ := h'
  have hch := clientView_inj c1.chans c2.chans 0 h1.chans h2.chans hc
  obtain ⟨f1, r1, ch1⟩ := c1
  obtain ⟨f2, r2, ch2⟩ := c2
  simp only at hf hr hch
  subst hf hr hch
  rfl

/-- round 7: two lawful channel-info responses (as the device-side encoder emits them) that the client reads alike
    carry the same configuration -/
theorem chinfo_response_injective (a b : ChanCfg) (ha : Describe.ChanOk a) (hb : Describe.ChanOk b)
    (h : ((chinfoEncode a).bind Serial.frameDecode).bind chinfoDecode
      = ((chinfoEncode b).bind Serial.frameDecode).bind chinfoDecode) : a = b := by
  rw [Describe.chan_encode_decode a ha, Describe.chan_encode_decode b hb] at h
  exact Describe.toInfo_inj a b ha hb (Option.some.inj (Except.ok.inj h))

/-- round 7: two different 32-bit return codes are never read alike -/
theorem ack_codes_distinct (r r' : Int) (hlo : -2147483648 ≤ r) (hhi : r ≤ 2147483647)
    (hlo' : -2147483648 ≤ r') (hhi' : r' ≤ 2147483647)
    (h : (Serial.frameDecode (wire 4 (i32le r))).bind ackDecode
      = (Serial.frameDecode (wire 4 (i32le r'))).bind ackDecode) : r = r' := by
  rw [(ack_rt r hlo hhi).2, (ack_rt r' hlo' hhi').2] at h
  have h' := Option.some.inj (Except.ok.inj h)
  by_cases h0 : r = 0 <;> by_cases h0' : r' = 0
  · rw [h0, h0']
  · rw [if_pos h0, if_neg h0'] at h'; cases h'
  · rw [if_neg h0, if_pos h0'] at h'; cases h'
  · rw [if_neg h0, if_neg h0'] at h'; exact (Prod.mk.inj h').2

open Nxs.Describe Nxs.Handshake in
/-- round 7: **whatever was collected before the last common-info exchange is forgotten.**  For every
    configuration within the quantifier and ANY list `pre` of earlier requests answered by the device (a first
    common-info exchange whose answer came late, part of the channel list, channels asked twice, channels the
    device does not have, …) followed by the requests of one complete `_devinfo_get` pass: no decoder raises
    and the description is exactly the configuration -/
theorem description_forgets_before_last_cmninfo (cfg : DevCfg) (h : CfgOk cfg) (pre : List Req) (padding : Nat) :
    describe cfg (pre ++ infoRequests cfg.desc padding)
      = .ok ⟨cfg.chans.length, cfg.flags, cfg.rxpadding, cfg.flags.testBit 0, cfg.flags.testBit 1,
          (cfg.chans.zipIdx 0).map fun p => ⟨p.2, toInfo p.1⟩⟩ := by
  have e := describe_requests cfg h padding
  rw [(Info.flags_derived cfg.flags).1, (Info.flags_derived cfg.flags).2, clientView_eq_zipIdx] at e
  rw [← e]
  unfold describe
  obtain ⟨st', hst⟩ := absorbAll_total cfg h pre {}
  rw [absorbAll_append, hst, ok_bind, absorbAll_append, show absorbAll cfg {} [Req.stop] = .ok {} from rfl, ok_bind,
    absorbAll_info_reset cfg h padding st' {}]

open Nxs.Describe Nxs.Handshake in
/-- a first pass cut short (common info + channel 0), then a complete pass -/
example : describe ⟨3, 0, [⟨true, 0x8a, 3, 200, 1, [0x61]⟩, ⟨false, 2, 1, 0, 0, []⟩]⟩
    [.stop, .cmninfo, .chinfo 0, .cmninfo, .chinfo 0, .chinfo 1]
    = .ok ⟨2, 3, 0, true, true, [⟨0, ⟨true, 0x8a, 3, 200, 1, [0x61]⟩⟩, ⟨1, ⟨false, 2, 1, 0, 0, []⟩⟩]⟩ := by
  decide +kernel

open Nxs.Describe Nxs.Handshake in
/-- round 7 (sharpness of the above): AFTER the last common-info exchange every channel must be read exactly once —
    if a channel answer is read twice (one extra read of channel 0 of a device that has one), `Device.__init__`
    refuses the collection -/
theorem description_needs_every_channel_once (cfg : DevCfg) (h : CfgOk cfg) (ch : ChanCfg) (rest : List ChanCfg)
    (hc : cfg.chans = ch :: rest) (padding : Nat) :
    describe cfg (infoRequests cfg.desc padding ++ [.chinfo 0]) = .error .assertion := by
  have e := describe_requests cfg h padding
  unfold describe at e ⊢
  rw [absorbAll_append, show absorbAll cfg {} [Req.stop] = .ok {} from rfl, ok_bind] at e
  rw [absorbAll_append]
  cases hx : absorbAll cfg {} (infoRequests cfg.desc padding) with
  | error er => rw [hx] at e; cases e
  | ok st =>
    rw [hx, ok_bind] at e
    rw [ok_bind]
    have hi : cfg.chans[0]? = some ch := by rw [hc]; rfl
    have hst : st.cmn = some (cfg.chans.length, cfg.flags, cfg.rxpadding) ∧ st.chans.length = cfg.chans.length := by
      unfold mkDevice at e
      cases hcm : st.cmn with
      | none => rw [hcm] at e; cases e
      | some t =>
        obtain ⟨n, fl, rxp⟩ := t
        rw [hcm] at e
        simp only at e
        by_cases hl : st.chans.length = n
        · rw [if_pos hl] at e
          have := Except.ok.inj e
          simp only [ClientDev.mk.injEq] at this
          obtain ⟨rfl, rfl, rfl, _, _, _⟩ := this
          exact ⟨rfl, hl⟩
        · rw [if_neg hl] at e; cases e
    simp only [absorbAll, absorb_chinfo cfg st 0 ch hi (h.chans ch (by rw [hc]; simp)), ok_bind]
    unfold mkDevice
    simp only [hst.1]
    rw [if_neg (by simp [hst.2])]

end Nxs.C06
