/-
  C02 — only length-consistent, CRC-valid frames are ever accepted.
  Property theorems only.  `Spec.Accept` (Spec/Accept.lean) is the hand-written acceptance
  predicate; `crc16xmodem` the textbook CRC.
-/
import NxsModel.Lemmas.Accept
import NxsModel.Lemmas.CrcDetect
namespace Nxs.C02
open Nxs Nxs.Spec

/-- client decoder: a byte string is accepted as frame (fid, payload) iff the predicate holds:
    0x55, known id, 6 ≤ declared length ≤ bytes supplied, CRC over exactly the declared length,
    payload exactly the bytes between header and CRC -/
theorem accept_iff (d : Bytes) (fid : Nat) (pl : Bytes) :
    Serial.frameDecode d = .ok ⟨fid, pl⟩ ↔ Accept d fid pl :=
  Serial.frameDecode_accept d fid pl

/-- the device-side dispatcher validates exactly like the client decoder on the bytes from the
    first start byte on -/
theorem dispatch_eq_decode (d : Bytes) :
    Dispatch.recvHandle d =
      match Serial.hdrFind d with
      | none => .ignored
      | some i =>
        match Serial.frameDecode (d.drop i) with
        | .ok fr => Dispatch.cbHandle fr.fid fr.data
        | .error _ => .ignored :=
  Dispatch.recvHandle_eq d

/-- dispatcher: the byte string causes a reaction iff, cropped to its first start byte, it meets
    the acceptance predicate; the reaction is the callback selected by the id with exactly the
    accepted payload (or the assertion error for ids / payload lengths that are not requests) -/
theorem dispatch_iff (d : Bytes) (r : Dispatch.Disp) (hr : r ≠ .ignored) :
    Dispatch.recvHandle d = r ↔
      ∃ i fid pl, Serial.hdrFind d = some i ∧ Accept (d.drop i) fid pl ∧ r = Dispatch.cbHandle fid pl := by
  rw [dispatch_eq_decode]
  cases hf : Serial.hdrFind d with
  | none =>
    constructor
    · intro h; exact absurd h.symm hr
    · rintro ⟨i, _, _, h, _⟩; cases h
  | some i =>
    show (match Serial.frameDecode (d.drop i) with
      | .ok fr => Dispatch.cbHandle fr.fid fr.data
      | .error _ => Dispatch.Disp.ignored) = r ↔ _
    cases hd : Serial.frameDecode (d.drop i) with
    | error e =>
      constructor
      · intro h; exact absurd h.symm hr
      · rintro ⟨j, fid, pl, hj, ha, _⟩
        cases hj
        have := (accept_iff (d.drop i) fid pl).mpr ha
        rw [hd] at this; cases this
    | ok fr =>
      show Dispatch.cbHandle fr.fid fr.data = r ↔ _
      constructor
      · intro h
        exact ⟨i, fr.fid, fr.data, rfl, (accept_iff _ _ _).mp hd, h.symm⟩
      · rintro ⟨j, fid, pl, hj, ha, hr'⟩
        cases hj
        have := (accept_iff (d.drop i) fid pl).mpr ha
        rw [hd] at this
        cases this
        exact hr'.symm

/-- nothing is dispatched from a byte string without a start byte -/
theorem no_sof_ignored (d : Bytes) (h : Serial.hdrFind d = none) : Dispatch.recvHandle d = .ignored := by
  rw [dispatch_eq_decode, h]

/-- the callback fired carries exactly the accepted payload, and which callback is determined by the id -/
theorem fired_payload (fid : Nat) (pl : Bytes) (cb : Nat) (p : Bytes)
    (h : Dispatch.cbHandle fid pl = .fired cb p) : p = pl := by
  unfold Dispatch.cbHandle at h
  cases hfind : Gen.Recv.cbTable.find? (fun r => r.1 = fid) with
  | none => rw [hfind] at h; cases h
  | some row =>
    obtain ⟨a, cb', isEq, k⟩ := row
    rw [hfind] at h
    simp only at h
    by_cases hc : (if isEq = true then pl.length = k else pl.length ≠ k)
    · rw [if_pos hc] at h; cases h; rfl
    · rw [if_neg hc] at h; cases h


/-! ### error detection: corrupted valid frames are never accepted

`w` is a valid frame that is exactly as long as it declares (≤ 4095 bytes), `e` an error pattern of
the same length (`xorBytes w e` is the corrupted frame) that leaves the two length bytes intact.
`weight` = number of flipped bits, `firstSet/lastSet` = positions of the first / last flipped bit
(Spec/Bits.lean).  The CRC facts are `detect_single_double`, `detect_odd`, `detect_burst`
(Lemmas/CrcDetect.lean): linearity of the register, trivial kernel of the zero-input step, parity,
and the order of x modulo the generator (32767 > 8·4095 — the reason for the 4095-byte bound). -/

attribute [local irreducible] crc16xmodem

theorem flen_xor (w e : Bytes) (hl : e.length = w.length) (h3 : 3 ≤ w.length)
    (h1 : e.getD 1 0 = 0) (h2 : e.getD 2 0 = 0) : flen (xorBytes w e) = flen w := by
  match w, e with
  | a :: b :: c :: w', x :: y :: z :: e' =>
    simp at h1 h2
    subst h1 h2
    simp [flen, xorBytes]
  | [], _ | [_], _ | [_, _], _ => simp at h3
  | _ :: _ :: _ :: _, [] | _ :: _ :: _ :: _, [_] | _ :: _ :: _ :: _, [_, _] => simp at hl

/-- the client decoder never accepts a valid frame corrupted by an error of one of the classes -/
theorem corrupted_rejected (w e : Bytes) (fid : Nat) (pl : Bytes)
    (hw : Serial.frameDecode w = .ok ⟨fid, pl⟩) (hexact : w.length = flen w) (hlen : w.length ≤ 4095)
    (hl : e.length = w.length) (h1 : e.getD 1 0 = 0) (h2 : e.getD 2 0 = 0)
    (hclass : weight e = 1 ∨ weight e = 2 ∨ weight e % 2 = 1 ∨
      (weight e ≠ 0 ∧ lastSet e - firstSet e < 16)) :
    ∀ fid' pl', Serial.frameDecode (xorBytes w e) ≠ .ok ⟨fid', pl'⟩ := by
  intro fid' pl' hacc
  obtain ⟨_, _, _, _, h5, h6, h7, _⟩ := (Serial.frameDecode_accept w fid pl).mp hw
  obtain ⟨_, _, _, _, _, _, g7, _⟩ := (Serial.frameDecode_accept _ fid' pl').mp hacc
  have hcw : crc16xmodem w = 0 := by
    rw [← hexact, List.take_length] at h7; exact h7
  have hxl : (xorBytes w e).length = w.length := by simp [xorBytes, hl]
  rw [flen_xor w e hl (by omega) h1 h2, ← hexact, ← hxl, List.take_length] at g7
  rcases hclass with h | h | h | ⟨h, h'⟩
  · exact detect_single_double w e hcw hl hlen (Or.inl h) g7
  · exact detect_single_double w e hcw hl hlen (Or.inr h) g7
  · exact detect_odd w e hcw hl h g7
  · exact detect_burst w e hcw hl h h' g7

/-- one or two bit flips -/
theorem reject_single_double (w e : Bytes) (fid : Nat) (pl : Bytes)
    (hw : Serial.frameDecode w = .ok ⟨fid, pl⟩) (hexact : w.length = flen w) (hlen : w.length ≤ 4095)
    (hl : e.length = w.length) (h1 : e.getD 1 0 = 0) (h2 : e.getD 2 0 = 0)
    (he : weight e = 1 ∨ weight e = 2) :
    ∀ fid' pl', Serial.frameDecode (xorBytes w e) ≠ .ok ⟨fid', pl'⟩ :=
  corrupted_rejected w e fid pl hw hexact hlen hl h1 h2 (by rcases he with h | h <;> simp [h])

/-- any odd number of bit flips -/
theorem reject_odd (w e : Bytes) (fid : Nat) (pl : Bytes)
    (hw : Serial.frameDecode w = .ok ⟨fid, pl⟩) (hexact : w.length = flen w) (hlen : w.length ≤ 4095)
    (hl : e.length = w.length) (h1 : e.getD 1 0 = 0) (h2 : e.getD 2 0 = 0)
    (he : weight e % 2 = 1) :
    ∀ fid' pl', Serial.frameDecode (xorBytes w e) ≠ .ok ⟨fid', pl'⟩ :=
  corrupted_rejected w e fid pl hw hexact hlen hl h1 h2 (Or.inr (Or.inr (Or.inl he)))

/-- any error burst of up to 16 bits -/
theorem reject_burst (w e : Bytes) (fid : Nat) (pl : Bytes)
    (hw : Serial.frameDecode w = .ok ⟨fid, pl⟩) (hexact : w.length = flen w) (hlen : w.length ≤ 4095)
    (hl : e.length = w.length) (h1 : e.getD 1 0 = 0) (h2 : e.getD 2 0 = 0)
    (he : weight e ≠ 0) (hb : lastSet e - firstSet e < 16) :
    ∀ fid' pl', Serial.frameDecode (xorBytes w e) ≠ .ok ⟨fid', pl'⟩ :=
  corrupted_rejected w e fid pl hw hexact hlen hl h1 h2 (Or.inr (Or.inr (Or.inr ⟨he, hb⟩)))

/-- the dispatcher ignores such a corrupted request when its start byte is still the first 0x55 of
    the write (if the start byte itself was hit the dispatcher looks at the bytes from the next 0x55
    on — another byte string, to which `dispatch_iff` applies) -/
theorem dispatcher_ignores_corrupted (w e : Bytes) (fid : Nat) (pl : Bytes)
    (hw : Serial.frameDecode w = .ok ⟨fid, pl⟩) (hexact : w.length = flen w) (hlen : w.length ≤ 4095)
    (hl : e.length = w.length) (h1 : e.getD 1 0 = 0) (h2 : e.getD 2 0 = 0)
    (hclass : weight e = 1 ∨ weight e = 2 ∨ weight e % 2 = 1 ∨
      (weight e ≠ 0 ∧ lastSet e - firstSet e < 16))
    (hsof : Serial.hdrFind (xorBytes w e) = some 0) :
    Dispatch.recvHandle (xorBytes w e) = .ignored := by
  rw [dispatch_eq_decode, hsof]
  show (match Serial.frameDecode ((xorBytes w e).drop 0) with
    | .ok fr => Dispatch.cbHandle fr.fid fr.data
    | .error _ => Dispatch.Disp.ignored) = _
  rw [List.drop_zero]
  cases hd : Serial.frameDecode (xorBytes w e) with
  | error _ => rfl
  | ok fr => exact absurd hd (corrupted_rejected w e fid pl hw hexact hlen hl h1 h2 hclass fr.fid fr.data)

/-- non-vacuity: an accepted frame and a rejected near-miss -/
example : Accept [0x55, 0x07, 0x00, 0x05, 0x01, 0x88, 0x9c] 5 [0x01] := by
  refine ⟨by decide, by decide, by decide, by decide, by decide, by decide, by decide +kernel, by decide⟩
example : Dispatch.recvHandle [0x00, 0x55, 0x07, 0x00, 0x05, 0x01, 0x88, 0x9c, 0x00] = .fired 4 [0x01] := by
  decide +kernel
example : Dispatch.recvHandle [0x55, 0x00, 0x00, 0x02, 0x00, 0x00] = .ignored := by decide +kernel

end Nxs.C02
