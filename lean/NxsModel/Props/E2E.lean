/-
  E2E — end-to-end theorems across component boundaries.  Each theorem is a composition of the
  property theorems C01 … C18 (the compositions are carried out in Lemmas/Compose.lean; this file
  restates the results with their full statements and shows that their hypotheses are satisfiable).

    request_reaches_callback     client builder → write padding → device dispatcher → callback
                                 (C05 ∘ C17 ∘ C02 ∘ C01), `request_understood`: … → callback decoder
    stream_pipeline              device encoder → any chunking of the link → client reassembly →
                                 client decoder (C15 ∘ C01 ∘ C03), `_serial_port`: link = C18's pipe
    description_roundtrip_*      request (as above) → device answer → any chunking → client decoder
                                 (C05 ∘ C17 ∘ C02 ∘ C06 ∘ C01 ∘ C03); `device_describes_*`: the
                                 same with the simulated device as the answering machine (∘ C14)
    fanout_pipeline              stream_pipeline → subscriber queues (∘ C08)
    §5                           the theorems of §1–3 are the `Serial.codec` instances of theorems that
                                 hold for EVERY lawful frame codec (stated in Props/C20.lean, proved in
                                 Lemmas/Generic.lean): derived here from the generic ones

  Hypotheses are exactly those of the component theorems:
    * C05's ranges on channel numbers / counts / divider values (`ClientReq.Valid`);
    * C15's on the batches (`Representable`, at least one sample that carries data or metadata,
      `LayoutAgrees`, the payload fits a frame — without the last one `frame_create` refuses the
      frame, C15 `refuses_oversize`, finding F17);
    * C06's on the configuration (one-byte fields, name without NUL that fits a frame);
    * C18's on the history (no `drop_all`, everything sent has been delivered and read);
    * C08's on the subscription (channel exists and is enabled when subscribing, the frames carry
      only channels the client knows).
-/
import NxsModel.Lemmas.Compose
import NxsModel.Lemmas.Generic
namespace Nxs.E2E
open Nxs Nxs.Spec Nxs.Spec.StreamWire Nxs.Stream Nxs.Gen.Ids Nxs.Compose
open Nxs.Pad (ClientReq)

/-! ## 1. every client request fires exactly the matching device callback -/

/-- For every request the client can build (`ClientReq`: start b · cmninfo · chinfo c · enable /
    divider in single form `(c, v)` or vector form, `n` channels) under C05's hypotheses
    (`ClientReq.Valid`: c ≤ 255 · c < n ≤ 255 · |vs| = n, 1 ≤ n ≤ 255 · divider values ≤ 255), and
    every write padding `pad`: the builder succeeds, and the device-side dispatcher fed with what
    the interface writes (`data_align pad` of the builder's output) fires exactly the matching
    callback (`ClientReq.cb`: cmninfo 0, chinfo 1, enable 2, div 3, start 4) with exactly the
    NxScope payload (`ClientReq.payload`, C05's hand-written `[b] · [] · [c] · specSingle · specVec`). -/
theorem request_reaches_callback (r : ClientReq) (hr : r.Valid) (pad : Nat) :
    ∃ f, r.build = .ok f ∧ Dispatch.recvHandle (Pad.dataAlign pad f) = .fired r.cb r.payload :=
  Compose.request_reaches_callback r hr pad

/-- … and the decoder that callback runs on that payload returns what the caller asked for: the
    start flag; for single form the current vector with entry `c` replaced; for vector form the
    vector itself (whichever of ALL / BULK the client chose) (`ClientReq.Understood`). -/
theorem request_understood (r : ClientReq) (hr : r.Valid) : r.Understood :=
  Compose.request_understood r hr

/-- the seven instances, written out -/
theorem start_reaches_callback (pad : Nat) (b : Bool) :
    ∃ f, Requests.frameStart b = .ok f ∧
      Dispatch.recvHandle (Pad.dataAlign pad f) = .fired 4 [C05.byte (C05.b2n b)] :=
  Compose.start_reaches_callback pad b

theorem cmninfo_reaches_callback (pad : Nat) :
    ∃ f, Requests.frameCmninfo = .ok f ∧ Dispatch.recvHandle (Pad.dataAlign pad f) = .fired 0 [] :=
  Compose.cmninfo_reaches_callback pad

theorem chinfo_reaches_callback (pad c : Nat) (hc : c ≤ 255) :
    ∃ f, Requests.frameChinfo c = .ok f ∧
      Dispatch.recvHandle (Pad.dataAlign pad f) = .fired 1 [C05.byte c] :=
  Compose.chinfo_reaches_callback pad c hc

theorem enable_single_reaches_callback (pad n c : Nat) (v : Bool) (hc : c < n) (hn : n ≤ 255) :
    ∃ f, Requests.frameEnable (.single c v) n = .ok f ∧
      Dispatch.recvHandle (Pad.dataAlign pad f) = .fired 2 (C05.specSingle c (C05.b2n v)) :=
  Compose.enable_single_reaches_callback pad n c v hc hn

theorem enable_vec_reaches_callback (pad n : Nat) (vs : List Bool) (hl : vs.length = n) (h1 : 1 ≤ n)
    (hn : n ≤ 255) :
    ∃ f, Requests.frameEnable (.vec vs) n = .ok f ∧
      Dispatch.recvHandle (Pad.dataAlign pad f) = .fired 2 (C05.specVec (vs.map C05.b2n)) :=
  Compose.enable_vec_reaches_callback pad n vs hl h1 hn

theorem div_single_reaches_callback (pad n c v : Nat) (hc : c < n) (hn : n ≤ 255) (hv : v ≤ 255) :
    ∃ f, Requests.frameDiv (.single c v) n = .ok f ∧
      Dispatch.recvHandle (Pad.dataAlign pad f) = .fired 3 (C05.specSingle c v) :=
  Compose.div_single_reaches_callback pad n c v hc hn hv

theorem div_vec_reaches_callback (pad n : Nat) (vs : List Nat) (hl : vs.length = n) (h1 : 1 ≤ n)
    (hn : n ≤ 255) (hv : ∀ v ∈ vs, v ≤ 255) :
    ∃ f, Requests.frameDiv (.vec (vs.map Int.ofNat)) n = .ok f ∧
      Dispatch.recvHandle (Pad.dataAlign pad f) = .fired 3 (C05.specVec vs) :=
  Compose.div_vec_reaches_callback pad n vs hl h1 hn hv

/-! ## 2. the stream: device encoder → link → reassembly → client decoder -/

/-- The device encodes the batches `bs` (frame `fᵢ` for batch `bᵢ`), the bytes `f₁ ++ … ++ fₙ`
    travel over a link that cuts them into arbitrary reads (`chunks`, empty reads included), the
    client receive path reassembles and `frame_stream_decode` decodes: the client obtains, frame by
    frame, exactly `expected user bᵢ = .ok (some (0, (bᵢ.filter carries).map (decodedForm user)))` —
    every sample that carries data or metadata complete, once, in device order; nothing else.
    Hypotheses (C15's, per batch): representable samples, at least one that carries something,
    the client's layout agrees, the payload fits a frame. -/
theorem stream_pipeline (user : List UserType) (L : List Chan) (bs : List (List Sample)) (fs : List Bytes)
    (chunks : List Bytes)
    (hrep : ∀ b ∈ bs, ∀ s ∈ b, Representable user s) (hL : ∀ b ∈ bs, LayoutAgrees L b)
    (hne : ∀ b ∈ bs, ∃ s ∈ b, carries s = true)
    (hfit : ∀ b ∈ bs, ∀ p, Stream.streamDataEncode user b = .ok (some p) → p.length ≤ 65529)
    (hfs : bs.map (Stream.frameStreamEncode user) = fs.map fun f => .ok (some f))
    (hch : chunks.flatten = fs.flatten) :
    (Reasm.run Serial.codec chunks).map (Stream.frameStreamDecode L user)
      = bs.map fun b => .ok (some (0, (b.filter carries).map (decodedForm user))) :=
  Compose.stream_pipeline user L bs fs chunks hrep hL hne hfit hfs hch

/-- The same with the frames existentially: under the hypotheses the device *does* emit one frame per
    batch (the encoder is total there), and every chunking of their concatenation is decoded to the
    batches. -/
theorem stream_pipeline_total (user : List UserType) (L : List Chan) (bs : List (List Sample))
    (hrep : ∀ b ∈ bs, ∀ s ∈ b, Representable user s) (hL : ∀ b ∈ bs, LayoutAgrees L b)
    (hne : ∀ b ∈ bs, ∃ s ∈ b, carries s = true)
    (hfit : ∀ b ∈ bs, ∀ p, Stream.streamDataEncode user b = .ok (some p) → p.length ≤ 65529) :
    ∃ fs : List Bytes, bs.map (Stream.frameStreamEncode user) = fs.map (fun f => .ok (some f)) ∧
      ∀ chunks : List Bytes, chunks.flatten = fs.flatten →
        (Reasm.run Serial.codec chunks).map (Stream.frameStreamDecode L user)
          = bs.map fun b => .ok (some (0, (b.filter carries).map (decodedForm user))) :=
  Compose.stream_pipeline_total user L bs hrep hL hne hfit

/-- The link is the serial-port interface over the FIFO model of C18: for every history `ops` (OS
    deliveries of any sizes, reads, idle reads, port errors, writes — no `drop_all`) in which the
    device sent exactly the frames and everything sent has been delivered and read, the client
    receive path run on the results of its `read()` calls decodes exactly the batches. -/
theorem stream_pipeline_serial_port (user : List UserType) (L : List Chan) (bs : List (List Sample))
    (fs : List Bytes) (pt : Pipe.Port) (p : Nat) (ops : List Pipe.Op)
    (hrep : ∀ b ∈ bs, ∀ s ∈ b, Representable user s) (hL : ∀ b ∈ bs, LayoutAgrees L b)
    (hne : ∀ b ∈ bs, ∃ s ∈ b, carries s = true)
    (hfit : ∀ b ∈ bs, ∀ p, Stream.streamDataEncode user b = .ok (some p) → p.length ≤ 65529)
    (hfs : bs.map (Stream.frameStreamEncode user) = fs.map fun f => .ok (some f))
    (hsent : Pipe.peerSent ops = fs.flatten)
    (hnd : Pipe.Op.dropAll ∉ ops)
    (hf : (Pipe.run pt (Pipe.init p) ops).1.rxFlight = [])
    (hw : (Pipe.run pt (Pipe.init p) ops).1.rxWaiting = []) :
    (Reasm.run Serial.codec (Pipe.readChunks (Pipe.run pt (Pipe.init p) ops).2)).map
        (Stream.frameStreamDecode L user)
      = bs.map fun b => .ok (some (0, (b.filter carries).map (decodedForm user))) :=
  Compose.stream_pipeline_serial_port user L bs fs pt p ops hrep hL hne hfit hfs hsent hnd hf hw

/-! ## 3. what the client learns is the device's configuration -/

/-- Common info, the whole exchange: the client's request is built, written with any padding,
    fires the `cmninfo` callback; the device's answer for `(chmax, flags, rxpadding)` (one-byte
    values, C06) — split into arbitrary reads and reassembled — decodes on the client to exactly
    these three values, and nothing else is delivered. -/
theorem description_roundtrip_cmninfo (pad chmax flags rxp : Nat) (h1 : chmax ≤ 255) (h2 : flags ≤ 255)
    (h3 : rxp ≤ 255) :
    ∃ req ans, Requests.frameCmninfo = .ok req ∧
      Dispatch.recvHandle (Pad.dataAlign pad req) = .fired 0 [] ∧
      Info.cmninfoEncode chmax flags rxp = .ok ans ∧
      ∀ chunks : List Bytes, chunks.flatten = ans →
        (Reasm.run Serial.codec chunks).map Info.cmninfoDecode = [.ok (some (chmax, flags, rxp))] :=
  Compose.description_roundtrip_cmninfo pad chmax flags rxp h1 h2 h3

/-- Channel info: the request for channel `c` fires the `chinfo` callback with the channel number;
    the device's answer for a configuration `⟨en, type, vdim, div, mlen, name⟩` (C06's hypotheses)
    decodes on the client, under any chunking, to exactly that configuration. -/
theorem description_roundtrip_chinfo (pad c : Nat) (hc : c ≤ 255) (en : Bool) (ty vdim div mlen : Nat)
    (name : Bytes) (ht : ty ≤ 255) (hv : vdim ≤ 255) (hd : div ≤ 255) (hm : mlen ≤ 255)
    (hnul : ∀ b ∈ name, b ≠ 0) (hutf : Info.validUtf8 name = true) (hfit : name.length ≤ 65524) :
    ∃ req ans, Requests.frameChinfo c = .ok req ∧
      Dispatch.recvHandle (Pad.dataAlign pad req) = .fired 1 [BitVec.ofNat 8 c] ∧
      Info.chinfoEncode ⟨en, ty, vdim, div, mlen, name⟩ = .ok ans ∧
      ∀ chunks : List Bytes, chunks.flatten = ans →
        (Reasm.run Serial.codec chunks).map Info.chinfoDecode
          = [.ok (some ⟨en, ty, vdim, div, mlen, name⟩)] :=
  Compose.description_roundtrip_chinfo pad c hc en ty vdim div mlen name ht hv hd hm hnul hutf hfit

/-- both in one statement -/
theorem description_roundtrip (pad : Nat) :
    (∀ chmax flags rxp : Nat, chmax ≤ 255 → flags ≤ 255 → rxp ≤ 255 →
      ∃ req ans, Requests.frameCmninfo = .ok req ∧
        Dispatch.recvHandle (Pad.dataAlign pad req) = .fired 0 [] ∧
        Info.cmninfoEncode chmax flags rxp = .ok ans ∧
        ∀ chunks : List Bytes, chunks.flatten = ans →
          (Reasm.run Serial.codec chunks).map Info.cmninfoDecode = [.ok (some (chmax, flags, rxp))]) ∧
    (∀ (c : Nat) (en : Bool) (ty vdim div mlen : Nat) (name : Bytes), c ≤ 255 → ty ≤ 255 → vdim ≤ 255 →
      div ≤ 255 → mlen ≤ 255 → (∀ b ∈ name, b ≠ 0) → Info.validUtf8 name = true → name.length ≤ 65524 →
      ∃ req ans, Requests.frameChinfo c = .ok req ∧
        Dispatch.recvHandle (Pad.dataAlign pad req) = .fired 1 [BitVec.ofNat 8 c] ∧
        Info.chinfoEncode ⟨en, ty, vdim, div, mlen, name⟩ = .ok ans ∧
        ∀ chunks : List Bytes, chunks.flatten = ans →
          (Reasm.run Serial.codec chunks).map Info.chinfoDecode
            = [.ok (some ⟨en, ty, vdim, div, mlen, name⟩)]) :=
  ⟨fun chmax flags rxp h1 h2 h3 => description_roundtrip_cmninfo pad chmax flags rxp h1 h2 h3,
   fun c en ty vdim div mlen name hc ht hv hd hm hnul hutf hfit =>
     description_roundtrip_chinfo pad c hc en ty vdim div mlen name ht hv hd hm hnul hutf hfit⟩

/-- Machine level (C14): the simulated device with channel objects `cs` in state `i` (description fits
    the info frames: `DevOk`; receive thread alive, queues empty), whatever its write padding.  The
    client writes the request it built, the device's receive thread runs once, the client reads: the
    read returns one frame which, under any chunking, decodes to the device's channel count, flags
    and rx padding. -/
theorem device_describes_cmninfo (cs : List Dummy.Chan) (i : Dummy.Inst) (hd : C14.DevOk cs i)
    (halive : i.recvThr = .alive) (hq : i.qwrite = []) (hqr : i.qread = []) :
    ∃ req ans, Requests.frameCmninfo = .ok req ∧
      (Dummy.run cs i [.write req, .recvStep, .read]).2.2 = [.none, .none, .bytes ans] ∧
      ∀ chunks : List Bytes, chunks.flatten = ans →
        (Reasm.run Serial.codec chunks).map Info.cmninfoDecode
          = [.ok (some (cs.length, i.flags, i.rxp))] :=
  Compose.device_describes_cmninfo cs i hd halive hq hqr

/-- … and the request for channel `c` is answered with the description of the device's channel
    object number `c`, which the client decodes to exactly that object's fields (name without NUL;
    `ch.div.toNat` is `ch.div`, `DevOk` has `0 ≤ ch.div ≤ 255`). -/
theorem device_describes_chinfo (cs : List Dummy.Chan) (i : Dummy.Inst) (c : Nat) (ch : Dummy.Chan)
    (hd : C14.DevOk cs i) (hch : cs[c]? = some ch) (hnul : ∀ b ∈ ch.name, b ≠ 0)
    (hutf : Info.validUtf8 ch.name = true) (halive : i.recvThr = .alive) (hq : i.qwrite = []) (hqr : i.qread = []) :
    ∃ req ans, Requests.frameChinfo c = .ok req ∧
      (Dummy.run cs i [.write req, .recvStep, .read]).2.2 = [.none, .none, .bytes ans] ∧
      ∀ chunks : List Bytes, chunks.flatten = ans →
        (Reasm.run Serial.codec chunks).map Info.chinfoDecode
          = [.ok (some ⟨ch.en, ch.type, ch.vdim, ch.div.toNat, ch.mlen, ch.name⟩)] :=
  Compose.device_describes_chinfo cs i c ch hd hch hnul hutf halive hq hqr

/-! ## 4. … and on to the subscribers -/

/-- Identification of samples: `number 0 ss` gives the `j`-th sample of a sequence the value `j`
    (and keeps its channel) — a sample *is* its position in the device's output. -/
theorem number_spec (k j : Nat) (ss : List Sample) :
    (number k ss)[j]? = ss[j]?.map fun s => ⟨s.chan, k + j⟩ :=
  Compose.number_getElem? k j ss

/-- The client's decoded stream frames (theorem 2's left-hand side) are handed to the fan-out
    (`frameOps 0`: one `Op.frame` per decoded frame, samples numbered consecutively across frames).
    A queue subscribed to channel `c` (existing, enabled at that moment) right after any history
    `pre` receives exactly the positions of the `c`-samples among the samples the device put on the
    wire (`bs.flatten.filter carries`), ascending — each once, in device order, whatever the
    chunking of the link.  (`hdead`: C08's hypothesis that no undecodable frame has ended the client's
    stream thread during `pre` — R-C08-2.) -/
theorem fanout_pipeline (user : List UserType) (L : List Chan) (bs : List (List Sample)) (fs : List Bytes)
    (chunks : List Bytes) (n c : Nat) (pre : List Fanout.Op)
    (hrep : ∀ b ∈ bs, ∀ s ∈ b, Representable user s) (hL : ∀ b ∈ bs, LayoutAgrees L b)
    (hne : ∀ b ∈ bs, ∃ s ∈ b, carries s = true)
    (hfit : ∀ b ∈ bs, ∀ p, Stream.streamDataEncode user b = .ok (some p) → p.length ≤ 65529)
    (hfs : bs.map (Stream.frameStreamEncode user) = fs.map fun f => .ok (some f))
    (hch : chunks.flatten = fs.flatten)
    (hc : c < n) (hen : (Fanout.run (Fanout.St.init n) pre).enabled.getD c false = true)
    (hdead : (Fanout.run (Fanout.St.init n) pre).dead = false)
    (hchan : ∀ b ∈ bs, ∀ s ∈ b, s.chan < n) :
    Fanout.received
        (Fanout.run (Fanout.St.init n)
          (pre ++ [.sub c] ++
            frameOps 0 ((Reasm.run Serial.codec chunks).map (Stream.frameStreamDecode L user))))
        (Fanout.run (Fanout.St.init n) pre).nextQ
      = ((number 0 (bs.flatten.filter carries)).filter (·.chan = c)).map (·.val) :=
  Compose.fanout_pipeline user L bs fs chunks n c pre hrep hL hne hfit hfs hch hc hen hdead hchan

/-! ## 5. §1–3 as instances of the codec-generic theorems (C20)

  `Props/C20.lean` proves (i) request → callback, (ii) device answer → client decoder, (iii) stream
  pipeline for every `LawfulCodec c` over the builders of `Generic.lean`.  At `c = Serial.codec` those
  builders are the ones used above (`Generic.serial_*`), `frameWith Serial.codec` is `wire`
  (`Generic.serial_frameWith_eq_wire`), and the statements of §1–3 follow — nothing is proved twice
  about the framing. -/

/-- §1 from the generic theorem -/
theorem request_reaches_callback_from_generic (r : ClientReq) (hr : r.Valid) (pad : Nat) :
    ∃ f, r.build = .ok f ∧ Dispatch.recvHandle (Pad.dataAlign pad f) = .fired r.cb r.payload :=
  Generic.serial_request_reaches_callback r hr pad

/-- §2 from the generic theorem — and without the 65529-byte hypothesis: that the frames were created
    (`hfs`) already says the payloads fit -/
theorem stream_pipeline_from_generic (user : List UserType) (L : List Chan) (bs : List (List Sample))
    (fs : List Bytes) (chunks : List Bytes)
    (hrep : ∀ b ∈ bs, ∀ s ∈ b, Representable user s) (hL : ∀ b ∈ bs, LayoutAgrees L b)
    (hne : ∀ b ∈ bs, ∃ s ∈ b, carries s = true)
    (hfs : bs.map (Stream.frameStreamEncode user) = fs.map fun f => .ok (some f))
    (hch : chunks.flatten = fs.flatten) :
    (Reasm.run Serial.codec chunks).map (Stream.frameStreamDecode L user)
      = bs.map fun b => .ok (some (0, (b.filter carries).map (decodedForm user))) := by
  have hfs' : bs.map (Generic.frameStreamEncode Serial.codec user) = fs.map fun f => .ok (some f) := by
    rw [← hfs]
    exact List.map_congr_left fun b _ => (Generic.serial_frameStreamEncode user b).symm
  exact Generic.stream_pipeline Serial.codec_lawful user L bs fs chunks hrep hL hne hfs' hch

/-- §3 (common info) from the generic theorems -/
theorem description_roundtrip_cmninfo_from_generic (pad chmax flags rxp : Nat) (h1 : chmax ≤ 255)
    (h2 : flags ≤ 255) (h3 : rxp ≤ 255) :
    ∃ req ans, Requests.frameCmninfo = .ok req ∧
      Dispatch.recvHandle (Pad.dataAlign pad req) = .fired 0 [] ∧
      Info.cmninfoEncode chmax flags rxp = .ok ans ∧
      ∀ chunks : List Bytes, chunks.flatten = ans →
        (Reasm.run Serial.codec chunks).map Info.cmninfoDecode = [.ok (some (chmax, flags, rxp))] := by
  obtain ⟨req, hreq, hdisp⟩ := request_reaches_callback_from_generic .cmninfo trivial pad
  have hans : Generic.cmninfoEncode Serial.codec chmax flags rxp
      = .ok (wire 2 [BitVec.ofNat 8 chmax, BitVec.ofNat 8 flags, BitVec.ofNat 8 rxp]) := by
    unfold Generic.cmninfoEncode
    rw [Info.cmninfoData_eq chmax flags rxp h1 h2 h3, ok_bind]
    exact Generic.serial_frameWith_eq_wire 2 _ (by simp) (by omega)
  refine ⟨req, _, hreq, hdisp, by rw [Generic.serial_cmninfoEncode]; exact hans, fun chunks hch => ?_⟩
  obtain ⟨fr, hrun, hdec⟩ := Generic.cmninfo_response Serial.codec_lawful chmax flags rxp h1 h2 h3 _ hans [] []
    (Generic.validFrames_nil _) (Generic.validFrames_nil _) chunks (by simp [Generic.wireOfFrames, hch])
  rw [hrun]
  simp [hdec]

/-! ## non-vacuity -/

/-- theorem 1: a valid vector request, and the concrete run through builder, padding and dispatcher -/
example : (ClientReq.enVec 3 [true, false, true]).Valid := ⟨rfl, by omega, by omega⟩
example : (ClientReq.divVec 2 [200, 200]).Valid := ⟨rfl, by omega, by omega, by decide⟩
example : (Requests.frameEnable (.vec [true, false, true]) 3).map
    (fun f => Dispatch.recvHandle (Pad.dataAlign 4 f)) = .ok (.fired 2 [1, 0, 1, 0, 1]) := by decide +kernel
example : (ClientReq.enVec 3 [true, false, true]).payload = [1, 0, 1, 0, 1] := by decide +kernel

/-- theorem 2: two batches (one sample without data is left out; a text is NUL-padded) -/
def exUser : List UserType := []
def exLayout : List Chan := [⟨tyB8, 1, 1⟩, ⟨tyINT64, 1, 0⟩, ⟨tyCHAR, 4, 0⟩]
def exB1 : List Sample :=
  [⟨2, tyCHAR, 4, 0, [.text [0x68, 0x69]], []⟩, ⟨0, tyB8, 1, 1, [], []⟩, ⟨0, tyB8, 1, 1, [.fixed (-384) 8], [5]⟩]
def exB2 : List Sample := [⟨1, tyINT64, 1, 0, [.int (-2)], []⟩, ⟨0, tyB8, 1, 1, [.fixed 256 8], [6]⟩]
def exF1 : Bytes := [0x55, 0x10, 0x00, 0x01, 0x00, 0x02, 0x68, 0x69, 0x00, 0x00, 0x00, 0x80, 0xfe, 0x05, 0x33, 0x93]
def exF2 : Bytes :=
  [0x55, 0x14, 0x00, 0x01, 0x00, 0x01, 0xfe, 0xff, 0xff, 0xff, 0xff, 0xff, 0xff, 0xff, 0x00, 0x00, 0x01, 0x06,
   0xb5, 0x8c]

theorem ex_frames : [exB1, exB2].map (Stream.frameStreamEncode exUser) = [exF1, exF2].map fun f => .ok (some f) := by
  decide +kernel

/-- all hypotheses of `stream_pipeline` hold for the example -/
theorem ex_hyps :
    (∀ b ∈ [exB1, exB2], ∀ s ∈ b, Representable exUser s) ∧ (∀ b ∈ [exB1, exB2], LayoutAgrees exLayout b) ∧
    (∀ b ∈ [exB1, exB2], ∃ s ∈ b, carries s = true) ∧
    (∀ b ∈ [exB1, exB2], ∀ p, Stream.streamDataEncode exUser b = .ok (some p) → p.length ≤ 65529) := by
  refine ⟨by decide +kernel, ?_, by decide +kernel, ?_⟩
  · intro b hb
    simp only [List.mem_cons, List.not_mem_nil, or_false] at hb
    rcases hb with rfl | rfl <;> (unfold LayoutAgrees; decide +kernel)
  · intro b hb p hp
    simp only [List.mem_cons, List.not_mem_nil, or_false] at hb
    rcases hb with rfl | rfl
    · have h : Stream.streamDataEncode exUser exB1 = .ok (some (exF1.drop 4 |>.take 10)) := by decide +kernel
      rw [h] at hp; cases hp; decide
    · have h : Stream.streamDataEncode exUser exB2 = .ok (some (exF2.drop 4 |>.take 14)) := by decide +kernel
      rw [h] at hp; cases hp; decide

/-- so the theorem applies to every chunking; one chunking evaluated by the kernel: byte-wise and
    mid-frame splits, empty reads, the second frame's start byte arriving with the first frame's tail -/
example : ∀ chunks : List Bytes, chunks.flatten = [exF1, exF2].flatten →
    (Reasm.run Serial.codec chunks).map (Stream.frameStreamDecode exLayout exUser) =
      [exB1, exB2].map fun b => .ok (some (0, (b.filter carries).map (decodedForm exUser))) :=
  fun chunks h => stream_pipeline exUser exLayout _ _ chunks ex_hyps.1 ex_hyps.2.1 ex_hyps.2.2.1 ex_hyps.2.2.2
    ex_frames h

example :
    (Reasm.run Serial.codec [[0x55], [], [0x10, 0x00, 0x01, 0x00, 0x02, 0x68], [0x69, 0x00, 0x00, 0x00, 0x80],
        [], [0xfe, 0x05, 0x33, 0x93, 0x55], [0x14, 0x00], [0x01, 0x00, 0x01, 0xfe, 0xff, 0xff, 0xff, 0xff, 0xff,
        0xff, 0xff, 0x00, 0x00, 0x01, 0x06, 0xb5], [], [0x8c]]).map (Stream.frameStreamDecode exLayout exUser) =
      [.ok (some (0, [⟨2, dtCHAR, 4, 0, [.text [0x68, 0x69, 0, 0]], []⟩, ⟨0, dtNUM, 1, 1, [.fixed (-384) 8], [5]⟩])),
       .ok (some (0, [⟨1, dtNUM, 1, 0, [.int (-2)], []⟩, ⟨0, dtNUM, 1, 1, [.fixed 256 8], [6]⟩]))] := by
  decide +kernel

/-- … and over the serial-port pipe: a history whose hypotheses hold -/
example :
    let ops : List Pipe.Op := [.peerSend exF1, .osDeliver 3, .read, .read, .readError, .peerSend exF2, .osDeliver 20,
      .read, .osDeliver 100, .read]
    Pipe.peerSent ops = [exF1, exF2].flatten ∧ Pipe.Op.dropAll ∉ ops ∧
      (Pipe.run Pipe.Port.real (Pipe.init 0) ops).1.rxFlight = [] ∧
      (Pipe.run Pipe.Port.real (Pipe.init 0) ops).1.rxWaiting = [] := by decide +kernel

/-- theorem 3: the default simulated device (11 channels, flags 3, rx padding 16) with its receive
    thread running meets `DevOk`; channel 1's name has no NUL -/
def exInst : Dummy.Inst := { Dummy.newInst (List.range 11) 3 16 100 16 with recvThr := .alive }

theorem ex_devOk : C14.DevOk Dummy.defaultObjs exInst :=
  ⟨by decide, by decide, by decide, by decide, by
    intro c hc
    have : ∀ c ∈ Dummy.defaultObjs, c.type ≤ 255 ∧ c.vdim ≤ 255 ∧ 0 ≤ c.div ∧ c.div ≤ 255 ∧ c.mlen ≤ 255 ∧
        c.name.length ≤ 65524 := by decide
    obtain ⟨a, b, c', d, e, f⟩ := this c hc
    exact ⟨a, b, c', d, e, f⟩⟩

example : ∃ req ans, Requests.frameChinfo 1 = .ok req ∧
    (Dummy.run Dummy.defaultObjs exInst [.write req, .recvStep, .read]).2.2 = [.none, .none, .bytes ans] ∧
    ∀ chunks : List Bytes, chunks.flatten = ans →
      (Reasm.run Serial.codec chunks).map Info.chinfoDecode
        = [.ok (some ⟨false, 10, 1, 0, 0, [0x63, 0x68, 0x61, 0x6e, 0x31]⟩)] :=
  device_describes_chinfo Dummy.defaultObjs exInst 1 (Dummy.defaultObjs[1]'(by decide)) ex_devOk (by decide) (by decide)
    (by decide +kernel) rfl rfl rfl

example : ∃ req ans, Requests.frameCmninfo = .ok req ∧
    (Dummy.run Dummy.defaultObjs exInst [.write req, .recvStep, .read]).2.2 = [.none, .none, .bytes ans] ∧
    ∀ chunks : List Bytes, chunks.flatten = ans →
      (Reasm.run Serial.codec chunks).map Info.cmninfoDecode = [.ok (some (11, 3, 16))] :=
  device_describes_cmninfo Dummy.defaultObjs exInst ex_devOk rfl rfl rfl

/-- theorem 4: three channels, all enabled, a queue on channel 0 subscribed after an unrelated
    subscription: it receives positions 1 and 3 of the four samples on the wire
    (wire order: chan 2, chan 0 | chan 1, chan 0) -/
example :
    Fanout.received
      (Fanout.run (Fanout.St.init 3)
        ([.setEnabled [true, true, true], .sub 2] ++ [.sub 0] ++
          frameOps 0 ((Reasm.run Serial.codec [exF1 ++ exF2.take 7, [], exF2.drop 7]).map
            (Stream.frameStreamDecode exLayout exUser))))
      (Fanout.run (Fanout.St.init 3) [.setEnabled [true, true, true], .sub 2]).nextQ = [1, 3] := by
  decide +kernel

example : ((number 0 ([exB1, exB2].flatten.filter carries)).filter (·.chan = 0)).map (·.val) = [1, 3] := by
  decide +kernel

example : (Fanout.run (Fanout.St.init 3) [.setEnabled [true, true, true], .sub 2]).enabled.getD 0 false = true ∧
    (Fanout.run (Fanout.St.init 3) [.setEnabled [true, true, true], .sub 2]).dead = false ∧
    ∀ b ∈ [exB1, exB2], ∀ s ∈ b, s.chan < 3 := by decide +kernel

end Nxs.E2E
