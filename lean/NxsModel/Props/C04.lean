/-
  C04 — stream samples decode to exactly the values the device put on the wire.
  Property theorems only (helper lemmas in Lemmas/Stream.lean, Lemmas/StructRT.lean).

  The specification of a stream payload is `Spec/StreamWire.lean` (`wireSample`, `wireOf`):
  channel id byte ++ little-endian data values ++ metadata, per sample, one after the other.
  Values are compared at representation level (`SVal`): integers as integers, IEEE floats as bit
  patterns, fixed-point as `.fixed raw frac` (= raw / 2^frac), char data as the bytes of the text;
  the conversion to Python objects is the harness' value glue (DESIGN.md section 5/C04).

  What is NOT proved here and is checked by the correspondence run only: that the Python value the client
  returns for a fixed-point sample is the quotient raw / 2^frac — i.e. that the code DIVIDES by the scale
  (`x / decode.scale`, not `//`, not `round`).  In the model `.fixed raw frac` *means* raw / 2^frac; the value
  glue (`streamglue.canon_value`) accepts the real decoder's float only if it equals
  `float(Fraction(raw, 2**frac))` with raw re-read from the wire bytes by the harness' own type table.

  The type table itself is pinned: `table_is_standard` says that the table regenerated from
  `iparse.dsfmt_get` is the hand-written table of the 18 standard types of `Spec/StreamWire.lean` (ids,
  signedness, width, kind, fraction bits), which is the one the specification `wireSample` reads.

  COVERAGE LIMITS (round-4 review A8) — inside the property's quantifier, outside theorems and check:
  * user-defined formats: the model's `Code` has the 13 struct letters `B b H h I i Q q f d ? c s`.  The real
    code hands the format string to `struct` and so also decodes `l L` (as `i I`), `e` (half float), `x` (pad
    byte, no value), `p` (Pascal string) and blanks between items ("2l", "L", "e", "hxxb", "4p", "h h" decode on
    /repo); the driver answers `bad-op` for them, the generators never produce them: "user-defined types per their
    format" is proved and checked for formats over the 13 letters only.
  * a layout is a LIST indexed by the channel id on the wire (`layout[chan]`), as `Device.channel_get` indexes
    its channel list: devices whose channel list is not in id order are not covered.  On /repo
    `Device(2, …, [DeviceChannel(5, …), DeviceChannel(3, …)])` decodes wire ids 0, 1 to samples carrying
    `chan = 5` and `chan = 3` (the `chan` field of the list entry, not the id on the wire); every device the
    harness builds has `channels[i].chan = i`.
  * glue: for char bytes that are not valid UTF-8 only "a `str`, no exception, sample structure" is judged
    (`t~len`); metadata elements are compared as `int(m)`.
  * the numeric codes of the data KIND of a sample (`EParseDataType`: NONE / NUM / CHAR / COMPLEX) are matched
    by name by the glue and not judged by the oracle: no property mentions them.
-/
import NxsModel.Stream
import NxsModel.Spec.StreamWire
import NxsModel.Spec.Wire
import NxsModel.Lemmas.Stream
import NxsModel.Lemmas.Serial
import NxsModel.Lemmas.R7Stream
namespace Nxs.C04
open Nxs Nxs.Stream Nxs.Spec Nxs.Spec.StreamWire Nxs.Gen.Ids

/-- the type table the code uses (regenerated from `iparse.dsfmt_get` on every run) is the hand-written table
    of NONE + the 18 standard NxScope types: a changed signedness, width, fraction, kind or id of any row
    (e.g. INT32 `"i"` → `"I"`) makes this false -/
theorem table_is_standard : Gen.Types.table = Spec.StreamWire.standardTable :=
  Stream.table_is_standard

/-- every payload that is well-formed for the layout — any number of samples, any channel order,
    every type / dimension / metadata length / channel id — decodes to its flags byte and exactly
    its samples, in wire order; success with exactly `ss` includes "consumed exactly to its end" -/
theorem decode_wire (layout : List Chan) (user : List UserType) (flags : Byte) (ss : List Sample)
    (body : Bytes) (hw : wireOf layout user ss = some body) :
    Stream.streamDecode layout user (flags :: body) = .ok (some (flags.toNat, ss)) :=
  streamDecode_wire layout user flags ss body hw

/-- the same on a STREAM frame, and from the serial wire frame when the payload fits a frame -/
theorem decode_wire_frame (layout : List Chan) (user : List UserType) (flags : Byte)
    (ss : List Sample) (body : Bytes) (hw : wireOf layout user ss = some body) :
    Stream.frameStreamDecode layout user ⟨1, flags :: body⟩ = .ok (some (flags.toNat, ss)) ∧
    ((flags :: body).length ≤ 65529 →
      (Serial.frameDecode (wire 1 (flags :: body))).bind (Stream.frameStreamDecode layout user) =
        .ok (some (flags.toNat, ss))) := by
  have h1 : Stream.frameStreamDecode layout user ⟨1, flags :: body⟩ = .ok (some (flags.toNat, ss)) := by
    unfold Stream.frameStreamDecode
    rw [if_neg (by simp [idSTREAM])]
    exact decode_wire layout user flags ss body hw
  refine ⟨h1, fun hfit => ?_⟩
  rw [Serial.frameDecode_wire 1 (flags :: body) hfit (by decide), ok_bind]
  exact h1

/-- CHAR / WCHAR: *every* byte string of the channel's length is the data of a well-formed sample —
    the content bytes (valid UTF-8 or not) play no role, so `decode_wire` applies to them -/
theorem chars_total (layout : List Chan) (user : List UserType) (chan ty vdim mlen : Nat)
    (m : List Int) (mb : Bytes) (hty : ty = tyCHAR ∨ ty = tyWCHAR)
    (hch : layout[chan]? = some ⟨ty, vdim, mlen⟩) (hc : chan ≤ 255) (hv : 1 ≤ vdim)
    (hm : encList encMeta (metaAtoms mlen) m = some mb) :
    ∀ bs : Bytes, bs.length = vdim →
      wireSample layout user ⟨chan, dtCHAR, vdim, mlen, [.text bs], m⟩ =
        some (byteOf chan :: (bs ++ mb)) := by
  intro bs hbs
  have hd : typeGet ty user = .ok ⟨1, [(1, .s)], false, 0, dtCHAR, false⟩ := by
    rcases hty with rfl | rfl <;> rfl
  unfold wireSample
  simp only [hch, hd]
  have hdim : dimOk ⟨1, [(1, .s)], false, 0, dtCHAR, false⟩ vdim = true := by
    simp [dimOk]; omega
  rw [if_pos ⟨hc, trivial, trivial, trivial, hdim⟩]
  have ha : dataAtoms ⟨1, [(1, .s)], false, 0, dtCHAR, false⟩ vdim = [⟨.s, vdim⟩] := by
    simp [dataAtoms]
  simp only [ha, hm]
  simp [encList, encData, kindOk, isText, encAtom, hbs]

/-- hence a frame with such a sample anywhere in it decodes, whatever the text bytes are, and the
    samples before and after it are unaffected -/
theorem chars_total_decode (layout : List Chan) (user : List UserType) (chan ty vdim mlen : Nat)
    (m : List Int) (mb : Bytes) (hty : ty = tyCHAR ∨ ty = tyWCHAR)
    (hch : layout[chan]? = some ⟨ty, vdim, mlen⟩) (hc : chan ≤ 255) (hv : 1 ≤ vdim)
    (hm : encList encMeta (metaAtoms mlen) m = some mb)
    (flags : Byte) (pre post : List Sample) (a c : Bytes)
    (ha : wireOf layout user pre = some a) (hp : wireOf layout user post = some c)
    (bs : Bytes) (hbs : bs.length = vdim) :
    Stream.streamDecode layout user (flags :: (a ++ ((byteOf chan :: (bs ++ mb)) ++ c))) =
      .ok (some (flags.toNat, pre ++ (⟨chan, dtCHAR, vdim, mlen, [.text bs], m⟩ :: post))) := by
  apply decode_wire
  apply wireOf_append ha
  exact wireOf_cons_of (chars_total layout user chan ty vdim mlen m mb hty hch hc hv hm bs hbs) hp

/-- the text conversion itself: for a CHAR type, `_stream_data_get` turns *any* byte string into text and never
    fails.  This holds because the code decodes with `errors="replace"` (`Gen.Types.decCharReplace`, read from
    the source on every run) … -/
theorem chars_never_fail (d : Dsfmt) (hd : d.dtype = dtCHAR) (bs : Bytes) :
    Stream.streamDataGet d [.bytes bs] = .ok [.text bs] := by
  unfold Stream.streamDataGet Stream.streamDataGetP
  rw [if_neg (fun h => by rw [hd] at h; exact absurd h.1 (by decide)), if_pos ⟨hd, rfl⟩]
  simp [Stream.charReplace]

example : (⟨1, [(1, .s)], false, 0, dtCHAR, false⟩ : Dsfmt).dtype = dtCHAR := rfl

/-- … and only because of that: the strict decoder (`bytes.decode()`, the code before F4) raises
    UnicodeDecodeError on the single byte ff — had the translator read `decCharReplace = false`,
    `chars_never_fail`, `chars_total_decode` and `decode_wire` would not check -/
theorem strict_decoder_fails :
    Stream.streamDataGetP false ⟨1, [(1, .s)], false, 0, dtCHAR, false⟩ [.bytes [0xff]] = .error .unicodeError ∧
    Stream.streamDataGetP true ⟨1, [(1, .s)], false, 0, dtCHAR, false⟩ [.bytes [0xff]] = .ok [.text [0xff]] := by
  decide

/-! ### fixed-point -/

/-- the six fixed-point rows of the type table: type id, signed?, bytes per value, fraction bits -/
def fixedRows : List (Nat × Bool × Nat × Nat) :=
  [(tyUB8, false, 2, 8), (tyB8, true, 2, 8), (tyUB16, false, 4, 16), (tyB16, true, 4, 16),
   (tyUB32, false, 8, 32), (tyB32, true, 8, 32)]

/-- the raw integers of a fixed-point vector, little-endian, one after the other -/
def encInts (signed : Bool) (size : Nat) : List Int → Option Bytes
  | [] => some []
  | r :: rs =>
    match encInt signed size r, encInts signed size rs with
    | some x, some y => some (x ++ y)
    | _, _ => none

theorem encList_fixed {d : Dsfmt} {k : Nat} {a : Atom} {signed : Bool} {size frac : Nat}
    (hk : ∀ r, kindOk d k a (.fixed r frac) = true)
    (he : ∀ r, encAtom a (.fixed r frac) = encInt signed size r) :
    ∀ (rs : List Int) (rb : Bytes), encInts signed size rs = some rb →
      encList (encData d k) (List.replicate rs.length a) (rs.map (SVal.fixed · frac)) = some rb := by
  intro rs
  induction rs with
  | nil => intro rb h; simpa [encInts, encList] using h
  | cons r rs ih =>
    intro rb h
    simp only [encInts] at h
    split at h
    next x y hx hy =>
      cases h
      simp only [List.length_cons, List.replicate_succ, List.map_cons]
      exact encList_cons_of (by simp [encData, hk, he, hx]) (ih y hy)
    next => cases h

/-- a fixed-point channel (UB8 / B8 / UB16 / B16 / UB32 / B32) with raw integers `rs` on the wire
    decodes to the values `.fixed r frac`, i.e. r / 2^frac, with frac = 8 / 8 / 16 / 16 / 32 / 32
    from the generated type table — for every raw value the type can hold -/
theorem fixed_value : ∀ row ∈ fixedRows,
    ∀ (layout : List Chan) (user : List UserType) (flags : Byte) (chan mlen : Nat) (rs : List Int)
      (rb : Bytes) (m : List Int) (mb : Bytes),
      layout[chan]? = some ⟨row.1, rs.length, mlen⟩ → chan ≤ 255 → 1 ≤ rs.length →
      encInts row.2.1 row.2.2.1 rs = some rb →
      encList encMeta (metaAtoms mlen) m = some mb →
      Stream.streamDecode layout user (flags :: byteOf chan :: (rb ++ mb)) =
        .ok (some (flags.toNat,
          [⟨chan, dtNUM, rs.length, mlen, rs.map (SVal.fixed · row.2.2.2), m⟩])) := by
  intro row hrow layout user flags chan mlen rs rb m mb hch hc hv hrb hm
  have key : ∀ (ty : Nat) (cd : Code) (signed : Bool) (size frac : Nat),
      typeGet ty user = .ok ⟨size, [(1, cd)], true, frac, dtNUM, false⟩ →
      cd ≠ .s → isIntCode cd = true → frac ≠ 0 → cd.size = size →
      (∀ r fr, encAtom ⟨cd, size⟩ (.fixed r fr) = encInt signed size r) →
      layout[chan]? = some ⟨ty, rs.length, mlen⟩ → encInts signed size rs = some rb →
      wireSample layout user ⟨chan, dtNUM, rs.length, mlen, rs.map (SVal.fixed · frac), m⟩ =
        some (byteOf chan :: (rb ++ mb)) := by
    intro ty cd signed size frac hd hcs hci hfr hsz he hch hrb
    unfold wireSample
    simp only [hch, hd]
    have hdim : dimOk ⟨size, [(1, cd)], true, frac, dtNUM, false⟩ rs.length = true := by
      simp [dimOk]; omega
    rw [if_pos ⟨hc, trivial, trivial, trivial, hdim⟩]
    have ha : dataAtoms ⟨size, [(1, cd)], true, frac, dtNUM, false⟩ rs.length =
        List.replicate rs.length ⟨cd, size⟩ := by
      cases cd <;> simp_all [dataAtoms]
    simp only [ha]
    rw [encList_fixed (signed := signed) (size := size) (fun r => by simp [kindOk, hci, isFixed, hfr])
      (fun r => he r frac) rs rb hrb, hm]
  have hw : wireSample layout user ⟨chan, dtNUM, rs.length, mlen, rs.map (SVal.fixed · row.2.2.2), m⟩ =
      some (byteOf chan :: (rb ++ mb)) := by
    simp only [fixedRows, List.mem_cons, List.not_mem_nil, or_false] at hrow
    rcases hrow with rfl | rfl | rfl | rfl | rfl | rfl
    · exact key tyUB8 .H false 2 8 rfl (by decide) rfl (by decide) rfl (fun _ _ => rfl) hch hrb
    · exact key tyB8 .h true 2 8 rfl (by decide) rfl (by decide) rfl (fun _ _ => rfl) hch hrb
    · exact key tyUB16 .I false 4 16 rfl (by decide) rfl (by decide) rfl (fun _ _ => rfl) hch hrb
    · exact key tyB16 .i true 4 16 rfl (by decide) rfl (by decide) rfl (fun _ _ => rfl) hch hrb
    · exact key tyUB32 .Q false 8 32 rfl (by decide) rfl (by decide) rfl (fun _ _ => rfl) hch hrb
    · exact key tyB32 .q true 8 32 rfl (by decide) rfl (by decide) rfl (fun _ _ => rfl) hch hrb
  have := decode_wire layout user flags [_] _ (wireOf_cons_of hw rfl)
  simpa using this

/-! ### metadata -/

/-- what `mlen` metadata bytes mean: 1/2/4/8 bytes one unsigned little-endian integer, any other
    number of bytes that many single-byte integers -/
def metaVals (mb : Bytes) : List Int :=
  if mb.length = 1 ∨ mb.length = 2 ∨ mb.length = 4 ∨ mb.length = 8 then [(leNat mb : Int)]
  else mb.map fun b => (b.toNat : Int)

theorem encInt_leNat (bs : Bytes) : encInt false bs.length (leNat bs) = some bs := by
  have h := leNat_lt bs
  have hc : ((256 : Int) ^ bs.length) = ((256 ^ bs.length : Nat) : Int) := by simp
  simp only [encInt, Bool.false_eq_true, if_false]
  rw [hc]
  have hr : (0 : Int) ≤ (leNat bs : Int) ∧ (leNat bs : Int) < ((256 ^ bs.length : Nat) : Int) := by
    constructor <;> omega
  rw [if_pos hr, Int.emod_eq_of_lt hr.1 hr.2]
  simp [leBytes_leNat]

theorem encList_bytes (bs : Bytes) :
    encList encMeta (List.replicate bs.length ⟨.B, 1⟩) (bs.map fun b => (b.toNat : Int)) = some bs := by
  induction bs with
  | nil => rfl
  | cons b bs ih =>
    simp only [List.length_cons, List.replicate_succ, List.map_cons]
    have h1 : encMeta ⟨.B, 1⟩ (b.toNat : Int) = some [b] := by
      have := encInt_leNat [b]
      simpa [encMeta, Code.size, leNat] using this
    exact encList_cons_of h1 ih

/-- every `mb` is the metadata encoding of `metaVals mb` … -/
theorem meta_wire (mb : Bytes) : encList encMeta (metaAtoms mb.length) (metaVals mb) = some mb := by
  have one : ∀ (cd : Code), cd.size = mb.length →
      encList encMeta [⟨cd, mb.length⟩] [(leNat mb : Int)] = some mb := by
    intro cd hcd
    have h1 : encMeta ⟨cd, mb.length⟩ (leNat mb : Int) = some mb := by
      simp only [encMeta, hcd]; exact encInt_leNat mb
    simpa using encList_cons_of (as := []) (vs := []) h1 rfl
  unfold metaAtoms metaVals
  by_cases h1 : mb.length = 1
  · simp only [h1, true_or, if_true]; rw [← h1]; exact one .B (by rw [h1]; rfl)
  by_cases h2 : mb.length = 2
  · simp only [h2, true_or, or_true, if_true]; rw [if_neg (by omega), ← h2]; exact one .H (by rw [h2]; rfl)
  by_cases h4 : mb.length = 4
  · simp only [h4, true_or, or_true, if_true]
    rw [if_neg (by omega), if_neg (by omega), ← h4]; exact one .I (by rw [h4]; rfl)
  by_cases h8 : mb.length = 8
  · simp only [h8, or_true, if_true]
    rw [if_neg (by omega), if_neg (by omega), if_neg (by omega), ← h8]; exact one .Q (by rw [h8]; rfl)
  rw [if_neg h1, if_neg h2, if_neg h4, if_neg h8, if_neg (by omega)]
  exact encList_bytes mb

/-- … and the decoder returns exactly that: metadata of length 1/2/4/8 as one unsigned integer
    (little-endian), any other length n as n single-byte integers (shown on a channel of the
    data-less type; for the other types it is part of `decode_wire`) -/
theorem meta_rule (layout : List Chan) (user : List UserType) (flags : Byte) (chan : Nat) (mb : Bytes)
    (hch : layout[chan]? = some ⟨tyNONE, 0, mb.length⟩) (hc : chan ≤ 255) :
    Stream.streamDecode layout user (flags :: byteOf chan :: mb) =
      .ok (some (flags.toNat, [⟨chan, dtNONE, 0, mb.length, [], metaVals mb⟩])) := by
  have hd : typeGet tyNONE user = .ok ⟨0, [], false, 0, dtNONE, false⟩ := rfl
  have hw : wireSample layout user ⟨chan, dtNONE, 0, mb.length, [], metaVals mb⟩ =
      some (byteOf chan :: mb) := by
    unfold wireSample
    simp only [hch, hd]
    rw [if_pos ⟨hc, trivial, trivial, trivial, by simp [dimOk]⟩]
    have ha : dataAtoms ⟨0, [], false, 0, dtNONE, false⟩ 0 = [] := by simp [dataAtoms]
    simp only [ha, meta_wire, encList, List.nil_append]
  have := decode_wire layout user flags [_] _ (wireOf_cons_of hw rfl)
  simpa using this

/-! ### non-vacuity: concrete well-formed payloads, checked by evaluation -/

/-- two channels (INT16 × 2 with 1 metadata byte, B16 × 1), three samples in mixed order -/
example :
    wireOf [⟨tyINT16, 2, 1⟩, ⟨tyB16, 1, 0⟩] []
      [⟨1, dtNUM, 1, 0, [.fixed (-65536) 16], []⟩, ⟨0, dtNUM, 2, 1, [.int (-2), .int 258], [7]⟩,
       ⟨1, dtNUM, 1, 0, [.fixed 98304 16], []⟩] =
      some [1, 0x00, 0x00, 0xff, 0xff, 0, 0xfe, 0xff, 0x02, 0x01, 7, 1, 0x00, 0x80, 0x01, 0x00] := by
  decide +kernel

example :
    Stream.streamDecode [⟨tyINT16, 2, 1⟩, ⟨tyB16, 1, 0⟩] []
      [9, 1, 0x00, 0x00, 0xff, 0xff, 0, 0xfe, 0xff, 0x02, 0x01, 7, 1, 0x00, 0x80, 0x01, 0x00] =
      .ok (some (9, [⟨1, dtNUM, 1, 0, [.fixed (-65536) 16], []⟩,
        ⟨0, dtNUM, 2, 1, [.int (-2), .int 258], [7]⟩, ⟨1, dtNUM, 1, 0, [.fixed 98304 16], []⟩])) := by
  decide +kernel

/-- a CHAR channel with bytes that are not UTF-8, a user COMPLEX type, 3-byte metadata -/
example :
    wireOf [⟨tyCHAR, 3, 3⟩, ⟨20, 7, 0⟩] [⟨20, [(1, .f), (2, .s), (1, .bool)], dtCOMPLEX⟩]
      [⟨0, dtCHAR, 3, 3, [.text [0xff, 0xfe, 0x41]], [1, 2, 255]⟩,
       ⟨1, dtCOMPLEX, 7, 0, [.f32 0x3f800000#32, .bytes [0x61, 0x62], .bool true], []⟩] =
      some [0, 0xff, 0xfe, 0x41, 1, 2, 255, 1, 0x00, 0x00, 0x80, 0x3f, 0x61, 0x62, 1] := by
  decide +kernel

/-! ### round 7: sizes, unique decodability, concatenation, irrelevant channels -/

/-- "consumed exactly to its end", quantitatively: a well-formed sample occupies exactly
    1 + (size of the type) × vdim + mlen bytes (`Stream.sampleSize`, computed from the layout alone), and the
    body of a well-formed payload is as long as the sum of the sizes of its samples — for every layout, type,
    dimension, metadata length and sample list -/
theorem payload_length (layout : List Chan) (user : List UserType) (ss : List Sample) (body : Bytes)
    (hw : wireOf layout user ss = some body) :
    body.length = (ss.map (fun s => Stream.sampleSize layout user s.chan)).sum ∧
    ∀ s b, wireSample layout user s = some b → b.length = Stream.sampleSize layout user s.chan :=
  ⟨Stream.wireOf_length hw, fun _ _ h => Stream.wireSample_length h⟩

/-- unique decodability of the stream format: a payload body is the encoding of AT MOST ONE sample list
    (for a fixed layout), and a well-formed sample is self-delimiting — bytes that start with it determine the
    sample and where it ends, whatever follows -/
theorem wire_unique (layout : List Chan) (user : List UserType) :
    (∀ (ss₁ ss₂ : List Sample) (body : Bytes), wireOf layout user ss₁ = some body →
      wireOf layout user ss₂ = some body → ss₁ = ss₂) ∧
    (∀ (s₁ s₂ : Sample) (b₁ b₂ r₁ r₂ : Bytes), wireSample layout user s₁ = some b₁ →
      wireSample layout user s₂ = some b₂ → b₁ ++ r₁ = b₂ ++ r₂ → s₁ = s₂ ∧ b₁ = b₂ ∧ r₁ = r₂) :=
  ⟨fun _ _ _ h₁ h₂ => Stream.wireOf_injective h₁ h₂,
   fun _ _ _ _ _ _ h₁ h₂ h => Stream.wireSample_self_delimiting h₁ h₂ h⟩

/-- the decoder is injective on well-formed payloads: two well-formed payloads with the same decoding are the
    same bytes (nothing on the wire is lost by decoding: flags byte, every value byte, every metadata byte) -/
theorem decode_injective (layout : List Chan) (user : List UserType) (f₁ f₂ : Byte) (ss₁ ss₂ : List Sample)
    (b₁ b₂ : Bytes) (h₁ : wireOf layout user ss₁ = some b₁) (h₂ : wireOf layout user ss₂ = some b₂)
    (h : Stream.streamDecode layout user (f₁ :: b₁) = Stream.streamDecode layout user (f₂ :: b₂)) :
    f₁ :: b₁ = f₂ :: b₂ := by
  rw [decode_wire layout user f₁ ss₁ b₁ h₁, decode_wire layout user f₂ ss₂ b₂ h₂] at h
  have h3 := Except.ok.inj h
  injection h3 with h4
  injection h4 with h5 h6
  subst h6
  rw [h₁] at h₂
  rw [BitVec.eq_of_toNat_eq h5, Option.some.inj h₂]

/-- compositionality: the decoding of two well-formed payload bodies one after the other is the concatenation
    of their decodings; conversely the payload of a concatenated sample list splits into the two payloads -/
theorem decode_concat (layout : List Chan) (user : List UserType) (flags : Byte) (ss₁ ss₂ : List Sample) :
    (∀ b₁ b₂, wireOf layout user ss₁ = some b₁ → wireOf layout user ss₂ = some b₂ →
      Stream.streamDecode layout user (flags :: (b₁ ++ b₂)) = .ok (some (flags.toNat, ss₁ ++ ss₂))) ∧
    (∀ b, wireOf layout user (ss₁ ++ ss₂) = some b →
      ∃ b₁ b₂, wireOf layout user ss₁ = some b₁ ∧ wireOf layout user ss₂ = some b₂ ∧ b = b₁ ++ b₂) :=
  ⟨fun _ _ h₁ h₂ => decode_wire layout user flags _ _ (wireOf_append h₁ h₂),
   fun _ h => Stream.wireOf_append_inv h⟩

/-- channels the payload does not mention are irrelevant: a client whose layout agrees with `layout` on the
    channels that occur in the samples (other channels added, removed, retyped) decodes the payload to the same
    result -/
theorem decode_layout_irrelevant (layout layout' : List Chan) (user : List UserType) (flags : Byte)
    (ss : List Sample) (body : Bytes) (hw : wireOf layout user ss = some body)
    (hag : ∀ s ∈ ss, layout[s.chan]? = layout'[s.chan]?) :
    Stream.streamDecode layout' user (flags :: body) = .ok (some (flags.toNat, ss)) := by
  apply decode_wire
  rw [← Stream.wireOf_layout_congr hag]
  exact hw

/-- non-vacuity: the three-sample payload above is 16 = 5 + 6 + 5 bytes; channel sizes 6 and 5 -/
example : Stream.sampleSize [⟨tyINT16, 2, 1⟩, ⟨tyB16, 1, 0⟩] [] 0 = 6 ∧
    Stream.sampleSize [⟨tyINT16, 2, 1⟩, ⟨tyB16, 1, 0⟩] [] 1 = 5 ∧
    Stream.sampleSize [⟨tyCHAR, 3, 3⟩, ⟨20, 7, 0⟩] [⟨20, [(1, .f), (2, .s), (1, .bool)], dtCOMPLEX⟩] 1 = 8 := by
  decide +kernel
/-- the same payload decodes under a layout with a third, unused channel added (`decode_layout_irrelevant`) -/
example :
    Stream.streamDecode [⟨tyINT16, 2, 1⟩, ⟨tyB16, 1, 0⟩, ⟨tyDOUBLE, 9, 200⟩] []
      [9, 1, 0x00, 0x00, 0xff, 0xff, 0, 0xfe, 0xff, 0x02, 0x01, 7, 1, 0x00, 0x80, 0x01, 0x00] =
      .ok (some (9, [⟨1, dtNUM, 1, 0, [.fixed (-65536) 16], []⟩,
        ⟨0, dtNUM, 2, 1, [.int (-2), .int 258], [7]⟩, ⟨1, dtNUM, 1, 0, [.fixed 98304 16], []⟩])) := by
  decide +kernel

/-! ### round 7: payloads OUTSIDE `wireOf` (section 5 "not proved": truncated, unknown channel) -/

/-- a payload whose last sample is cut short — well-formed samples `ss`, then a well-formed sample `s` of which only
    the first `k` bytes (channel byte included, `1 ≤ k <` its size) arrived — is REJECTED with `struct.error`:
    no sample list is returned, in particular not the samples in front, and never a sample with made-up values.
    For every layout, type, dimension, metadata length and cut position. -/
theorem decode_truncated_fails (layout : List Chan) (user : List UserType) (flags : Byte) (ss : List Sample)
    (body : Bytes) (s : Sample) (b : Bytes) (k : Nat) (hw : wireOf layout user ss = some body)
    (hs : wireSample layout user s = some b) (hk1 : 1 ≤ k) (hk : k < b.length) :
    Stream.streamDecode layout user (flags :: (body ++ b.take k)) = .error .structError := by
  have hne : b.take k ≠ [] := by
    intro h0
    have := congrArg List.length h0
    simp only [List.length_take, List.length_nil] at this
    omega
  show (Stream.decodeLoop layout user (body ++ b.take k).length (body ++ b.take k)).bind _ = _
  rw [Stream.decodeLoop_wire_then_error _ hw (Nat.le_refl _) hne (Stream.decodeOne_truncated k hs hk1 hk)]
  rfl

/-- a channel byte the layout does not know, behind any well-formed samples and followed by anything, makes the
    decoder fail with the `assert` of the channel lookup — nothing is returned -/
theorem decode_unknown_channel_fails (layout : List Chan) (user : List UserType) (flags cid : Byte)
    (ss : List Sample) (body r : Bytes) (hw : wireOf layout user ss = some body)
    (hc : layout[cid.toNat]? = none) :
    Stream.streamDecode layout user (flags :: (body ++ cid :: r)) = .error .assertion := by
  show (Stream.decodeLoop layout user (body ++ cid :: r).length (body ++ cid :: r)).bind _ = _
  rw [Stream.decodeLoop_wire_then_error _ hw (Nat.le_refl _) (by simp) (Stream.decodeOne_unknown cid r hc)]
  rfl

/-- non-vacuity: the 16-byte body above cut after 13 bytes (2 of the 5 bytes of the last sample), and with a
    sample of the unknown channel 7 appended (the real decoder: `struct.error`, `AssertionError`) -/
example :
    Stream.streamDecode [⟨tyINT16, 2, 1⟩, ⟨tyB16, 1, 0⟩] []
      [9, 1, 0x00, 0x00, 0xff, 0xff, 0, 0xfe, 0xff, 0x02, 0x01, 7, 1, 0x00] = .error .structError ∧
    Stream.streamDecode [⟨tyINT16, 2, 1⟩, ⟨tyB16, 1, 0⟩] []
      [9, 1, 0x00, 0x00, 0xff, 0xff, 7, 0x01, 0x02] = .error .assertion := by decide +kernel

end Nxs.C04
