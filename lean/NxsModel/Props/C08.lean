/-
  C08 — stream samples reach every subscriber exactly once and in device order.
  Property theorems only (helper lemmas in Lemmas/Fanout.lean)
  `Fanout.lean` is organised like the code (per channel: list of subscribed queues; a frame is
  fanned out channel by channel; an exception in the stream thread ends it).  The specification below
  is organised per queue and is as simple as possible: a queue is subscribed to at most one channel
  and, for every frame PROCESSED while it is subscribed and the channel is enabled, receives that
  frame's samples of the channel, in order; a frame the decoder rejects ends all delivery until the
  stream is restarted.

  WHAT IS PROVED, WHAT IS LEFT TO THE CORRESPONDENCE CHECK (K).
  * Proved, over all histories (op lists, see the linearisation paragraph in `Fanout.lean`):
    `queue_is_run` / `queue_is_run_en` (every queue holds exactly the specification's run),
    `run_since_subscription` (gap-free, duplicate-free, in order since the subscription, as long as
    the frames are well-formed for the device), `delivery_until_first_bad` and `dead_stops_delivery`
    (what a frame the decoder rejects does: R-C08-2), `no_leak`, `empty_frames_neutral`,
    `frame_split` (the enabled test is per sample: splitting a frame changes no queue content),
    `sub_negative_index`.
  * Proved, over all interleavings of the receive thread, the stream thread's loop iterations and the
    application's calls (`Fanout.Sys`): `sys_fan_is_run` + `sys_fifo` (the stream thread processes
    exactly a prefix of what the receive thread routed to `_q_stream`, in that order — Route ∘ Fanout),
    `iter_consumes` / `drain` (progress: a live stream thread consumes the oldest queued frame in its
    next iteration, hence `_q_stream.length` iterations empty the queue), `end_to_end_delivery` and
    `end_to_end_wire` ("every such sample is eventually delivered": once the queue has been drained —
    which `drain` guarantees after finitely many iterations — the subscriber has received exactly the
    channel's samples of the backlog and of every stream frame received since, in device order).
  * Left to K (harness/props/C08.py): that the real thread really iterates (fairness of the OS
    scheduler; `Worker`/C13 proves the loop calls its target again while no stop is requested and the
    target returns), that `queue.Queue` is FIFO and `Lock` excludes (CPython), that the hand-written
    `step`/`sysStep` agree with `_stream_thread`, `stream_sub`, `stream_unsub`, `stream_start`,
    `stream_stop` on generated histories (real thread under the virtual-time runtime, including frames
    that kill it, frames in flight at subscribe time, stop/start with a backlog, channels enabled at
    connect), and that a stalled stream thread is waited for by `stream_stop` (no second thread).
    K observes the linearisation on the library's own objects (method wrappers on the existing
    `_q_stream` and on `ch_is_enabled`, threads told apart by identity, not by name); sessions include
    bursts of more than 2000 frames (no bound on `_q_stream`: the model's queue is an unbounded list) and
    a device that streams a newly enabled channel before it acknowledges the request (the code holds
    the channels lock from the request to the update of `en_now`, so the stream thread's enabled-test
    waits and sees the new vector: in the op list the `setEnabled` precedes that frame).  Pre-emptive
    schedules (unsubscribe / subscribe while a frame is being delivered) are judged at the subscriber
    queues after `stream_unsub` returned.

  BEHAVIOURS OF THE CODE THAT ARE OUTSIDE THE MODEL (observations of the second review, R4-B-LOW;
  they are properties of /repo as it is, not defects of this verification, and no theorem speaks
  about them):
  * ALIASING OF DELIVERED GROUPS.  `_stream_thread` puts THE SAME Python list object
    (`samples[chan]`) on every subscriber queue of a channel.  The model's queues hold values
    (`List Nat`), so "queue A and queue B both received the group" is all that is stated.  A
    subscriber that mutates the list it took from its queue (`group.clear()`, `del group[0]`) changes
    what another subscriber of the same channel finds in the item it takes later.  The theorems
    (and the oracle, which reads each queue once at the end) describe what is PUT on the queues, not
    what remains of it after a consumer has mutated a shared item.
  * SUBSCRIPTIONS DO NOT SURVIVE A RECONNECT.  `NxscopeHandler.connect()` rebuilds the subscriber
    lists (`self._sub_q = [[] for _ in range(chmax)]`) whenever the handler was not connected.  A
    queue obtained from `stream_sub` before `disconnect()`; `connect()` is silently no longer
    subscribed and receives nothing afterwards (`stream_unsub` of it is a no-op).  Every theorem here
    is about ONE connection: `Spec.init` / `St.init` start with no queues, and "since the subscription"
    means a subscription made on the current connection.  Histories with a reconnect are C09's
    (lifecycle) business; C08's generators never reconnect a handler.
  * Text samples (CHAR, one atom) that are not valid UTF-8 are delivered with U+FFFD replacements
    (`decode(errors="replace")`): the model does not contain the replacement text (driver prints
    `t~<len>`, as for C04), the oracle accepts any `str` for such a sample.
-/
import NxsModel.Route
import NxsModel.Gen.CfgShape
import NxsModel.Fanout
import NxsModel.Lemmas.Fanout
namespace Nxs.C08
open Nxs Nxs.Fanout

/-- per-queue specification state: the channel the queue is currently subscribed to, what it got -/
structure QSpec where
  sub : Option Nat
  got : List Nat
  deriving DecidableEq, Repr

structure Spec where
  enabled : List Bool
  qs : List QSpec           -- index = queue id (order of subscription)
  dead : Bool := false      -- a frame the decoder rejects has been taken: nothing is processed any more
  deriving DecidableEq, Repr

def Spec.init (n : Nat) : Spec := ⟨List.replicate n false, [], false⟩
def Spec.initEn (en : List Bool) : Spec := ⟨en, [], false⟩

/-- what a processed frame does to one queue of the specification -/
def qFrame (en : List Bool) (ss : List Smp) (q : QSpec) : QSpec :=
  match q.sub with
  | some c => if en.getD c false then { q with got := q.got ++ (ss.filter (·.chan = c)).map (·.val) } else q
  | none => q

def specStep (s : Spec) : Op → Spec
  | .frame _ ss =>
    if s.dead then s
    else if ss.any (fun x => x.chan ≥ s.enabled.length) then { s with dead := true }
    else { s with qs := s.qs.map (qFrame s.enabled ss) }
  | .badFrame => { s with dead := true }
  | .sub ch => if ch < s.enabled.length then { s with qs := s.qs ++ [⟨some ch, []⟩] } else s
  | .subNeg k =>
    if k < s.enabled.length then { s with qs := s.qs ++ [⟨some (s.enabled.length - 1 - k), []⟩] } else s
  | .unsub k => { s with qs := s.qs.mapIdx fun i q => if i = k then { q with sub := none } else q }
  | .setEnabled v => if v.length = s.enabled.length then { s with enabled := v } else s
  | .restart => { s with dead := false }

def specRun (s : Spec) : List Op → Spec
  | [] => s
  | op :: r => specRun (specStep s op) r

/-! ### proofs

Spec-dependent helper lemmas (the specification is defined in this file, so they cannot live in
`Lemmas/Fanout.lean`).  The property theorems follow below under "property theorems". -/
section Proofs

theorem specStep_frame_dead {sp : Spec} (fl : Nat) (ss : List Smp) (hd : sp.dead = true) :
    specStep sp (.frame fl ss) = sp := by
  rw [specStep, if_pos hd]

theorem specStep_frame_bad {sp : Spec} (fl : Nat) (ss : List Smp) (hd : sp.dead = false)
    (h : ss.any (fun x => x.chan ≥ sp.enabled.length) = true) :
    specStep sp (.frame fl ss) = { sp with dead := true } := by
  rw [specStep, if_neg (by simp [hd]), if_pos h]

theorem specStep_frame_good {sp : Spec} (fl : Nat) (ss : List Smp) (hd : sp.dead = false)
    (h : ss.any (fun x => x.chan ≥ sp.enabled.length) = false) :
    specStep sp (.frame fl ss) = { sp with qs := sp.qs.map (qFrame sp.enabled ss) } := by
  rw [specStep, if_neg (by simp [hd]), if_neg (by simp [h])]

theorem qFrame_sub (en : List Bool) (ss : List Smp) (q : QSpec) : (qFrame en ss q).sub = q.sub := by
  unfold qFrame
  split
  · split <;> rfl
  · rfl

theorem qFrame_got (en : List Bool) (ss : List Smp) (q : QSpec) :
    (qFrame en ss q).got = q.got ++ (match q.sub with | some c => group en ss c | none => []) := by
  unfold qFrame
  split
  · rename_i c hc
    rw [group_eq]
    split <;> simp
  · simp

theorem qFrame_append (en : List Bool) (a b : List Smp) (q : QSpec) :
    qFrame en (a ++ b) q = qFrame en b (qFrame en a q) := by
  obtain ⟨sub, got⟩ := q
  cases sub with
  | none => rfl
  | some c =>
    simp only [qFrame]
    by_cases he : en.getD c false = true
    · simp only [he, if_true, List.filter_append, List.map_append, List.append_assoc]
    · simp only [he, Bool.false_eq_true, if_false]

theorem specRun_append (sp : Spec) (a b : List Op) : specRun sp (a ++ b) = specRun (specRun sp a) b := by
  induction a generalizing sp with
  | nil => rfl
  | cons op r ih => exact ih _

/-- the refinement invariant between the code-shaped model and the per-queue specification -/
structure Inv (n : Nat) (s : St) (sp : Spec) : Prop where
  en : s.enabled = sp.enabled
  enLen : s.enabled.length = n
  subsLen : s.subs.length = n
  nextQ : s.nextQ = sp.qs.length
  ids : s.queues.map (·.1) = List.range s.nextQ
  cnt : ∀ c, c < n → ∀ q,
    (s.subs.getD c []).count q = if sp.qs[q]?.bind (·.sub) = some c then 1 else 0
  rcv : ∀ q, received s q = (sp.qs[q]?.map (·.got)).getD []
  dead : s.dead = sp.dead

theorem inv_initEn (en : List Bool) : Inv en.length (St.initEn en) (Spec.initEn en) where
  en := rfl
  enLen := rfl
  subsLen := by simp [St.initEn]
  nextQ := rfl
  ids := rfl
  cnt := by
    intro c hc q
    simp [St.initEn, Spec.initEn, List.getD_eq_getElem?_getD, hc]
  rcv := by intro q; simp [received, St.initEn, Spec.initEn]
  dead := rfl

theorem inv_init (n : Nat) : Inv n (St.init n) (Spec.init n) where
  en := rfl
  enLen := by simp [St.init]
  subsLen := by simp [St.init]
  nextQ := rfl
  ids := rfl
  cnt := by
    intro c hc q
    simp [St.init, Spec.init, List.getD_eq_getElem?_getD, hc]
  rcv := by intro q; simp [received, St.init, Spec.init]
  dead := rfl

/-- the thread-death bit is independent of everything else -/
theorem inv_setDead {n : Nat} {s : St} {sp : Spec} (hI : Inv n s sp) (b : Bool) :
    Inv n { s with dead := b } { sp with dead := b } :=
  ⟨hI.en, hI.enLen, hI.subsLen, hI.nextQ, hI.ids, hI.cnt, hI.rcv, rfl⟩

theorem inv_frame_good {n : Nat} {s : St} {sp : Spec} (fl : Nat) {ss : List Smp} (hI : Inv n s sp) :
    Inv n { s with ovf := if fl % 2 = 1 then s.ovf + 1 else s.ovf,
                   queues := fanout s.enabled s.subs ss 0 s.enabled.length s.queues }
      { sp with qs := sp.qs.map (qFrame sp.enabled ss) } := by
  refine ⟨hI.en, hI.enLen, hI.subsLen, ?_, ?_, ?_, ?_, hI.dead⟩
  · show s.nextQ = (sp.qs.map _).length
    rw [List.length_map]; exact hI.nextQ
  · show (fanout _ _ _ _ _ _).map (·.1) = _
    rw [fanout_map_fst]; exact hI.ids
  · intro c hc q
    show (s.subs.getD c []).count q
      = if (sp.qs.map (qFrame sp.enabled ss))[q]?.bind QSpec.sub = some c then 1 else 0
    rw [hI.cnt c hc q, List.getElem?_map]
    cases sp.qs[q]? with
    | none => rfl
    | some qe => simp only [Option.map_some, Option.bind_some, qFrame_sub]
  · intro q
    show _ = ((sp.qs.map (qFrame sp.enabled ss))[q]?.map QSpec.got).getD []
    rw [List.getElem?_map]
    have hr := hI.rcv q
    have hcnt := fun c hc => hI.cnt c hc q
    rw [← hI.en]
    cases hq : sp.qs[q]? with
    | none =>
      rw [hq] at hr hcnt
      rw [received_fanout_of_nil s _ ss q rfl, hr]; rfl
      rw [extra_eq_nil]; rfl
      intro c' _ h2
      right
      rw [hI.enLen] at h2
      rw [hcnt c' (by omega)]; rfl
    | some qe =>
      rw [hq] at hr hcnt
      have hmem : q ∈ s.queues.map (·.1) := by
        rw [hI.ids, List.mem_range, hI.nextQ]
        exact (List.getElem?_eq_some_iff.mp hq).1
      rw [received_fanout_of_mem s _ ss q rfl hmem, hr]
      simp only [Option.map_some, Option.getD_some, qFrame_got]
      congr 1
      simp only [Option.bind_some] at hcnt
      cases hsub : qe.sub with
      | none =>
        simp only [hsub] at hcnt
        rw [extra_eq_nil]; rfl
        intro c' _ h2
        right
        rw [hI.enLen] at h2
        rw [hcnt c' (by omega)]; rfl
      | some c =>
        simp only [hsub] at hcnt
        rw [extra_flatten_unique _ _ _ _ _ _ c]
        · show (if 0 ≤ c ∧ c < 0 + s.enabled.length then group s.enabled ss c else []) = group s.enabled ss c
          by_cases hc : c < s.enabled.length
          · rw [if_pos ⟨Nat.zero_le _, by omega⟩]
          · rw [if_neg (by omega), group_eq]
            have : s.enabled.getD c false = false := by
              rw [List.getD_eq_getElem?_getD, List.getElem?_eq_none (by omega)]; rfl
            rw [this]; rfl
        · intro c' _ h2
          rw [hI.enLen] at h2
          rw [hcnt c' (by omega)]
          by_cases hcc : c' = c
          · subst hcc; simp
          · have : ¬ c = c' := fun x => hcc x.symm
            simp [hcc, this]

theorem inv_frame {n : Nat} {s s' : St} {sp : Spec} {fl : Nat} {ss : List Smp} (hI : Inv n s sp)
    (h : step s (.frame fl ss) = .ok s') : Inv n s' (specStep sp (.frame fl ss)) := by
  rcases step_frame_cases s fl ss with ⟨hd, h'⟩ | ⟨hd, hany, h'⟩ | ⟨hd, hany, h'⟩
  · rw [h'] at h; injection h with h; subst h
    rw [specStep_frame_dead fl ss (by rw [← hI.dead]; exact hd)]; exact hI
  · rw [h'] at h; injection h with h; subst h
    rw [specStep_frame_bad fl ss (by rw [← hI.dead]; exact hd) (by rw [← hI.en]; exact hany)]
    exact inv_setDead hI true
  · rw [h'] at h; injection h with h; subst h
    rw [specStep_frame_good fl ss (by rw [← hI.dead]; exact hd) (by rw [← hI.en]; exact hany)]
    exact inv_frame_good fl hI

theorem inv_subAt {n : Nat} {s : St} {sp : Spec} {ch : Nat} (hI : Inv n s sp) (hc : ch < s.subs.length) :
    Inv n (subAt s ch) { sp with qs := sp.qs ++ [⟨some ch, []⟩] } := by
  refine ⟨hI.en, hI.enLen, ?_, ?_, ?_, ?_, ?_, hI.dead⟩
  · show (s.subs.set _ _).length = n
    rw [List.length_set]; exact hI.subsLen
  · show s.nextQ + 1 = (sp.qs ++ [_]).length
    simp [hI.nextQ]
  · show (s.queues ++ [(s.nextQ, [])]).map Prod.fst = List.range (s.nextQ + 1)
    simp [List.range_succ, hI.ids]
  · intro c hcn q
    show ((s.subs.set ch (s.subs.getD ch [] ++ [s.nextQ])).getD c []).count q
      = if (sp.qs ++ [⟨some ch, []⟩])[q]?.bind QSpec.sub = some c then 1 else 0
    have hcnt := hI.cnt c hcn q
    have hnq := hI.nextQ
    have hget : (s.subs.set ch (s.subs.getD ch [] ++ [s.nextQ])).getD c []
        = if ch = c then s.subs.getD ch [] ++ [s.nextQ] else s.subs.getD c [] := by
      simp only [List.getD_eq_getElem?_getD, List.getElem?_set, hc, if_true]
      split <;> rfl
    rw [hget]
    rcases Nat.lt_trichotomy q sp.qs.length with hlt | heq | hgt
    · rw [List.getElem?_append_left hlt, ← hcnt]
      by_cases hcc : ch = c
      · subst hcc
        have : ¬ s.nextQ = q := by omega
        simp [List.count_append, this]
      · simp [hcc]
    · subst heq
      rw [List.getElem?_concat_length]
      rw [List.getElem?_eq_none (Nat.le_refl _)] at hcnt
      simp only [Option.bind_none, reduceCtorEq, if_false, List.getD_eq_getElem?_getD] at hcnt
      by_cases hcc : ch = c
      · subst hcc
        simp [List.count_append, hcnt, hnq]
      · simp [hcc, hcnt]
    · rw [List.getElem?_append_right (by omega)]
      rw [List.getElem?_eq_none (by omega)] at hcnt
      simp only [Option.bind_none, reduceCtorEq, if_false, List.getD_eq_getElem?_getD] at hcnt
      have h1 : ([({ sub := some ch, got := [] } : QSpec)])[q - sp.qs.length]? = none := by
        apply List.getElem?_eq_none; simp; omega
      rw [h1]
      by_cases hcc : ch = c
      · subst hcc
        have : ¬ s.nextQ = q := by omega
        simp [List.count_append, hcnt, this]
      · simp [hcc, hcnt]
  · intro q
    show _ = ((sp.qs ++ [⟨some ch, []⟩])[q]?.map QSpec.got).getD []
    rw [received_append_empty s _ s.nextQ q rfl, hI.rcv q]
    rcases Nat.lt_trichotomy q sp.qs.length with hlt | heq | hgt
    · rw [List.getElem?_append_left hlt]
    · subst heq
      rw [List.getElem?_concat_length, List.getElem?_eq_none (Nat.le_refl _)]; rfl
    · rw [List.getElem?_append_right (by omega), List.getElem?_eq_none (by omega)]
      have h1 : ([({ sub := some ch, got := [] } : QSpec)])[q - sp.qs.length]? = none := by
        apply List.getElem?_eq_none; simp; omega
      rw [h1]

theorem inv_sub {n : Nat} {s s' : St} {sp : Spec} {ch : Nat} (hI : Inv n s sp)
    (h : step s (.sub ch) = .ok s') : Inv n s' (specStep sp (.sub ch)) := by
  rw [step] at h
  by_cases hc : ch < s.subs.length
  · rw [if_pos hc] at h
    injection h with h; subst h
    have hc' : ch < sp.enabled.length := by rw [← hI.en, hI.enLen, ← hI.subsLen]; exact hc
    rw [specStep, if_pos hc']
    exact inv_subAt hI hc
  · rw [if_neg hc] at h; cases h

theorem inv_subNeg {n : Nat} {s s' : St} {sp : Spec} {k : Nat} (hI : Inv n s sp)
    (h : step s (.subNeg k) = .ok s') : Inv n s' (specStep sp (.subNeg k)) := by
  rw [step] at h
  by_cases hc : k < s.subs.length
  · rw [if_pos hc] at h
    injection h with h; subst h
    have hl : sp.enabled.length = s.subs.length := by rw [← hI.en, hI.enLen, ← hI.subsLen]
    rw [specStep, if_pos (by rw [hl]; exact hc), hl]
    exact inv_subAt hI (by omega)
  · rw [if_neg hc] at h; cases h

theorem inv_unsub {n : Nat} {s s' : St} {sp : Spec} {k : Nat} (hI : Inv n s sp)
    (h : step s (.unsub k) = .ok s') : Inv n s' (specStep sp (.unsub k)) := by
  rw [step] at h
  injection h with h; subst h
  have hsp : specStep sp (.unsub k)
      = { sp with qs := sp.qs.mapIdx fun i q => if i = k then { q with sub := none } else q } := rfl
  rw [hsp]
  refine ⟨hI.en, hI.enLen, ?_, ?_, hI.ids, ?_, ?_, hI.dead⟩
  · show (s.subs.map _).length = n
    rw [List.length_map]; exact hI.subsLen
  · show s.nextQ = (sp.qs.mapIdx _).length
    rw [List.length_mapIdx]; exact hI.nextQ
  · intro c hcn q
    show ((s.subs.map fun l => l.erase k).getD c []).count q
      = if (sp.qs.mapIdx _)[q]?.bind QSpec.sub = some c then 1 else 0
    have hcnt := hI.cnt c hcn q
    have hget : (s.subs.map fun l => l.erase k).getD c [] = (s.subs.getD c []).erase k := by
      simp only [List.getD_eq_getElem?_getD, List.getElem?_map]
      cases s.subs[c]? <;> rfl
    rw [hget, List.count_erase, hcnt, List.getElem?_mapIdx]
    cases sp.qs[q]? with
    | none => simp
    | some qe =>
      by_cases hqk : q = k
      · subst hqk; simp; split <;> rfl
      · have : ¬ k = q := fun x => hqk x.symm
        simp [hqk, this]
  · intro q
    show received s q = ((sp.qs.mapIdx _)[q]?.map QSpec.got).getD []
    rw [hI.rcv q, List.getElem?_mapIdx]
    cases sp.qs[q]? with
    | none => rfl
    | some qe =>
      by_cases hqk : q = k <;> simp [hqk]

theorem inv_setEnabled {n : Nat} {s s' : St} {sp : Spec} {v : List Bool} (hI : Inv n s sp)
    (h : step s (.setEnabled v) = .ok s') : Inv n s' (specStep sp (.setEnabled v)) := by
  rw [step] at h
  by_cases hc : v.length = s.enabled.length
  · rw [if_pos hc] at h
    injection h with h; subst h
    have hc' : v.length = sp.enabled.length := by rw [← hI.en]; exact hc
    have hsp : specStep sp (.setEnabled v) = { sp with enabled := v } := by
      rw [specStep, if_pos hc']
    rw [hsp]
    exact ⟨rfl, hc.trans hI.enLen, hI.subsLen, hI.nextQ, hI.ids, hI.cnt, hI.rcv, hI.dead⟩
  · rw [if_neg hc] at h; cases h

theorem inv_step_ok {n : Nat} {s s' : St} {sp : Spec} {op : Op} (hI : Inv n s sp)
    (h : step s op = .ok s') : Inv n s' (specStep sp op) := by
  cases op with
  | frame fl ss => exact inv_frame hI h
  | badFrame =>
    rw [step] at h; injection h with h; subst h
    exact inv_setDead hI true
  | sub ch => exact inv_sub hI h
  | subNeg k => exact inv_subNeg hI h
  | unsub k => exact inv_unsub hI h
  | setEnabled v => exact inv_setEnabled hI h
  | restart =>
    rw [step] at h; injection h with h; subst h
    exact ⟨hI.en, hI.enLen, hI.subsLen, hI.nextQ, hI.ids, hI.cnt, hI.rcv, rfl⟩

/-- the model call fails exactly when the specification ignores the op -/
theorem specStep_of_error {n : Nat} {s : St} {sp : Spec} {op : Op} {e : Err} (hI : Inv n s sp)
    (h : step s op = .error e) : specStep sp op = sp := by
  cases op with
  | frame fl ss =>
    obtain ⟨s', h'⟩ := step_frame_isOk s fl ss
    rw [h'] at h; cases h
  | badFrame => rw [step] at h; cases h
  | sub ch =>
    rw [step] at h
    by_cases hc : ch < s.subs.length
    · rw [if_pos hc] at h; cases h
    · have hc' : ¬ ch < sp.enabled.length := by rw [← hI.en, hI.enLen, ← hI.subsLen]; exact hc
      rw [specStep, if_neg hc']
  | subNeg k =>
    rw [step] at h
    by_cases hc : k < s.subs.length
    · rw [if_pos hc] at h; cases h
    · have hc' : ¬ k < sp.enabled.length := by rw [← hI.en, hI.enLen, ← hI.subsLen]; exact hc
      rw [specStep, if_neg hc']
  | unsub k => rw [step] at h; cases h
  | setEnabled v =>
    rw [step] at h
    by_cases hc : v.length = s.enabled.length
    · rw [if_pos hc] at h; cases h
    · have hc' : ¬ v.length = sp.enabled.length := by rw [← hI.en]; exact hc
      rw [specStep, if_neg hc']
  | restart => rw [step] at h; cases h

theorem inv_run {n : Nat} (ops : List Op) {s : St} {sp : Spec} (hI : Inv n s sp) :
    Inv n (run s ops) (specRun sp ops) := by
  induction ops generalizing s sp with
  | nil => exact hI
  | cons op r ih =>
    rw [run, specRun]
    cases h : step s op with
    | ok s' => exact ih (inv_step_ok hI h)
    | error e => rw [specStep_of_error hI h]; exact ih hI

theorem inv_reach (n : Nat) (ops : List Op) : Inv n (run (St.init n) ops) (specRun (Spec.init n) ops) :=
  inv_run ops (inv_init n)

theorem inv_reach_en (en : List Bool) (ops : List Op) :
    Inv en.length (run (St.initEn en) ops) (specRun (Spec.initEn en) ops) :=
  inv_run ops (inv_initEn en)

/-- specification only: a queue subscribed to an enabled channel `c` accumulates the `c`-samples of
    a run of well-formed frames, and the run leaves the stream thread alive -/
theorem spec_frames_aux (n c q : Nat) (post : List Op) (sp : Spec) (g : List Nat)
    (hlen : sp.enabled.length = n) (hen : sp.enabled.getD c false = true) (hd : sp.dead = false)
    (hq : sp.qs[q]? = some ⟨some c, g⟩)
    (hpost : ∀ op ∈ post, op.wfFrame n = true) :
    (specRun sp post).qs[q]? = some ⟨some c, g ++ post.flatMap (Op.samplesOf c)⟩ ∧
      (specRun sp post).dead = false := by
  induction post generalizing sp g with
  | nil => simpa [specRun] using ⟨hq, hd⟩
  | cons op r ih =>
    have hop := hpost op List.mem_cons_self
    cases op with
    | frame fl ss =>
      have hss : ∀ x ∈ ss, x.chan < sp.enabled.length := by
        rw [hlen]; simpa [Op.wfFrame] using hop
      rw [specRun, specStep_frame_good fl ss hd (any_ge_false_of_lt hss), List.flatMap_cons,
        ← List.append_assoc]
      apply ih
      · exact hlen
      · exact hen
      · exact hd
      · show (sp.qs.map _)[q]? = _
        rw [List.getElem?_map, hq]
        show some (if sp.enabled.getD c false = true then _ else _) = _
        rw [if_pos hen]; rfl
      · intro op hop; exact hpost op (List.mem_cons_of_mem _ hop)
    | _ => simp [Op.wfFrame] at hop

end Proofs

/-! ### property theorems — op lists (one op = one critical section, see `Fanout.lean`) -/

/-- every subscriber queue holds exactly what the per-queue specification says: for every history
    of frames (well-formed or not), subscriptions, unsubscriptions, enable changes and stream
    restarts, and every queue -/
theorem queue_is_run (n : Nat) (ops : List Op) (q : Nat) :
    received (run (St.init n) ops) q = ((specRun (Spec.init n) ops).qs[q]?.map (·.got)).getD [] :=
  (inv_reach n ops).rcv q

/-- the same after a connect to a device whose channels are already enabled as `en` says -/
theorem queue_is_run_en (en : List Bool) (ops : List Op) (q : Nat) :
    received (run (St.initEn en) ops) q = ((specRun (Spec.initEn en) ops).qs[q]?.map (·.got)).getD [] :=
  (inv_reach_en en ops).rcv q

/-- the code's subscriber lists and the specification's subscriptions agree: queue `q` is in the
    list of channel `c` exactly when the specification has it subscribed to `c` -/
theorem subs_agree (n : Nat) (ops : List Op) (c q : Nat) (hc : c < n) :
    q ∈ (run (St.init n) ops).subs.getD c [] ↔ ((specRun (Spec.init n) ops).qs[q]?.bind (·.sub)) = some c := by
  rw [← List.count_pos_iff, (inv_reach n ops).cnt c hc q]
  split <;> simp_all

theorem flatMap_congr_mem {α β : Type} {f g : α → List β} {l : List α} (h : ∀ a ∈ l, f a = g a) :
    l.flatMap f = l.flatMap g := by
  induction l with
  | nil => rfl
  | cons a r ih =>
    rw [List.flatMap_cons, List.flatMap_cons, h a List.mem_cons_self,
      ih (fun x hx => h x (List.mem_cons_of_mem _ hx))]

/-- core of the delivery theorems, from any state that refines a specification state: a queue
    subscribed now to an enabled channel `c`, while the stream thread is alive, receives exactly the
    `c`-samples, in order, of the well-formed frames processed next — and the thread stays alive -/
theorem since_subscription_core {n : Nat} {s : St} {sp : Spec} (hI : Inv n s sp) (c : Nat) (hc : c < n)
    (hen : s.enabled.getD c false = true) (hd : s.dead = false) (post : List Op)
    (hpost : ∀ op ∈ post, op.wfFrame n = true) :
    received (run s (.sub c :: post)) s.nextQ = post.flatMap (Op.samplesOf c) ∧
      (run s (.sub c :: post)).dead = false := by
  have hc' : c < sp.enabled.length := by rw [← hI.en, hI.enLen]; exact hc
  have hsp : specStep sp (.sub c) = { sp with qs := sp.qs ++ [⟨some c, []⟩] } := by
    rw [specStep, if_pos hc']
  have hI2 := inv_run (.sub c :: post) hI
  rw [specRun, hsp] at hI2
  have h := spec_frames_aux n c s.nextQ post { sp with qs := sp.qs ++ [⟨some c, []⟩] } []
    (by rw [← hI.enLen, hI.en]) (by rw [← hI.en]; exact hen) (by rw [← hI.dead]; exact hd)
    (by show (_ ++ [_])[s.nextQ]? = _
        rw [hI.nextQ]; exact List.getElem?_concat_length) hpost
  refine ⟨?_, by rw [hI2.dead]; exact h.2⟩
  rw [hI2.rcv, h.1]; rfl

/-- gap-free, duplicate-free, in order: a queue subscribed to channel `c` by the op after `pre`,
    never unsubscribed afterwards, while `c` stays enabled, the stream thread has not died during
    `pre`, and every later frame is well-formed for the device (the decoder accepts it: channel ids
    below `n`), has received exactly the samples of `c` of all later frames, in order.
    (Before round 3 this was stated without `hdead`; that was wrong for the code — R-C08-2: a frame the
    decoder rejects ends the stream thread — see `dead_stops_delivery`, `delivery_until_first_bad`.) -/
theorem run_since_subscription (n : Nat) (pre post : List Op) (c : Nat) (hc : c < n)
    (hen : ((specRun (Spec.init n) (pre ++ [.sub c])).enabled.getD c false) = true)
    (hdead : (run (St.init n) pre).dead = false)
    (hpost : ∀ op ∈ post, ∃ fl ss, op = .frame fl ss ∧ ∀ x ∈ ss, x.chan < n) :
    let q := (run (St.init n) pre).nextQ
    received (run (St.init n) (pre ++ [.sub c] ++ post)) q =
      post.flatMap fun op => match op with
        | .frame _ ss => (ss.filter (·.chan = c)).map (·.val)
        | _ => [] := by
  intro q
  have hI := inv_reach n pre
  have hen' : (run (St.init n) pre).enabled.getD c false = true := by
    rw [specRun_append] at hen
    rw [hI.en, ← hen]
    simp only [specRun, specStep]
    split <;> rfl
  have hwf : ∀ op ∈ post, op.wfFrame n = true := by
    intro op hop
    obtain ⟨fl, ss, rfl, hss⟩ := hpost op hop
    simpa [Op.wfFrame] using hss
  rw [List.append_assoc, run_append]
  have h := (since_subscription_core hI c hc hen' hdead post hwf).1
  rw [show ([Op.sub c] ++ post) = .sub c :: post from rfl, h]
  apply flatMap_congr_mem
  intro op hop
  obtain ⟨fl, ss, rfl, _⟩ := hpost op hop
  rfl

/-- the same from the state after a connect to a device with enable vector `en` (channels enabled at
    connect time are delivered without the client enabling them again) -/
theorem run_since_subscription_en (en : List Bool) (pre post : List Op) (c : Nat) (hc : c < en.length)
    (hen : (run (St.initEn en) pre).enabled.getD c false = true)
    (hdead : (run (St.initEn en) pre).dead = false)
    (hpost : ∀ op ∈ post, op.wfFrame en.length = true) :
    received (run (St.initEn en) (pre ++ [.sub c] ++ post)) (run (St.initEn en) pre).nextQ
      = post.flatMap (Op.samplesOf c) ∧
    (run (St.initEn en) (pre ++ [.sub c] ++ post)).dead = false := by
  rw [List.append_assoc, run_append]
  exact since_subscription_core (inv_reach_en en pre) c hc hen hdead post hpost

/-- ops other than `restart` cannot revive a dead stream thread, and while it is dead no queue
    content changes: after a frame the decoder rejects, NOTHING is delivered any more (to any queue,
    whatever is subscribed or enabled) until `stream_stop(); stream_start()` -/
theorem dead_stops_delivery (s : St) (post : List Op) (hd : s.dead = true)
    (hpost : ∀ op ∈ post, op ≠ .restart) :
    (run s post).dead = true ∧ ∀ q, received (run s post) q = received s q := by
  induction post generalizing s with
  | nil => exact ⟨hd, fun _ => rfl⟩
  | cons op r ih =>
    have hr : ∀ op ∈ r, op ≠ .restart := fun op hop => hpost op (List.mem_cons_of_mem _ hop)
    have key : (apply s op).dead = true ∧ ∀ q, received (apply s op) q = received s q := by
      unfold apply
      cases op with
      | frame fl ss => rw [step_frame_dead fl ss hd]; exact ⟨hd, fun _ => rfl⟩
      | badFrame => exact ⟨rfl, fun _ => rfl⟩
      | sub ch =>
        rw [step]
        by_cases hc : ch < s.subs.length
        · rw [if_pos hc]; exact ⟨hd, fun q => received_append_empty s _ s.nextQ q rfl⟩
        · rw [if_neg hc]; exact ⟨hd, fun _ => rfl⟩
      | subNeg k =>
        rw [step]
        by_cases hc : k < s.subs.length
        · rw [if_pos hc]; exact ⟨hd, fun q => received_append_empty s _ s.nextQ q rfl⟩
        · rw [if_neg hc]; exact ⟨hd, fun _ => rfl⟩
      | unsub k => exact ⟨hd, fun _ => rfl⟩
      | setEnabled v =>
        rw [step]
        by_cases hc : v.length = s.enabled.length
        · rw [if_pos hc]; exact ⟨hd, fun _ => rfl⟩
        · rw [if_neg hc]; exact ⟨hd, fun _ => rfl⟩
      | restart => exact absurd rfl (hpost _ List.mem_cons_self)
    rw [run_cons]
    obtain ⟨h1, h2⟩ := ih (apply s op) key.1 hr
    exact ⟨h1, fun q => by rw [h2 q, key.2 q]⟩

/-- delivery up to the first bad frame, and not beyond: a queue subscribed to the enabled channel
    `c` receives exactly the `c`-samples of the well-formed frames `good` that precede the first frame
    `bad` the decoder rejects; whatever follows (`rest`: more frames, subscriptions, enable changes —
    anything but a restart of the stream) adds nothing -/
theorem delivery_until_first_bad (en : List Bool) (pre good rest : List Op) (bad : Op) (c : Nat)
    (hc : c < en.length)
    (hen : (run (St.initEn en) pre).enabled.getD c false = true)
    (hdead : (run (St.initEn en) pre).dead = false)
    (hgood : ∀ op ∈ good, op.wfFrame en.length = true)
    (hbad : bad.kills en.length = true)
    (hrest : ∀ op ∈ rest, op ≠ .restart) :
    received (run (St.initEn en) (pre ++ [.sub c] ++ good ++ [bad] ++ rest)) (run (St.initEn en) pre).nextQ
      = good.flatMap (Op.samplesOf c) := by
  obtain ⟨h1, h2⟩ := run_since_subscription_en en pre good c hc hen hdead hgood
  have hI := inv_reach_en en (pre ++ [.sub c] ++ good)
  generalize hs : run (St.initEn en) (pre ++ [.sub c] ++ good) = s at h1 h2 hI
  have hb : (apply s bad).dead = true ∧ ∀ q, received (apply s bad) q = received s q := by
    unfold apply
    cases bad with
    | frame fl ss =>
      have : ss.any (fun x => x.chan ≥ s.enabled.length) = true := by
        rw [hI.enLen]; exact hbad
      rw [step_frame_bad fl ss h2 this]; exact ⟨rfl, fun _ => rfl⟩
    | badFrame => exact ⟨rfl, fun _ => rfl⟩
    | _ => simp [Op.kills] at hbad
  rw [List.append_assoc _ [bad] rest, run_append, hs, show [bad] ++ rest = bad :: rest from rfl,
    run_cons, (dead_stops_delivery _ rest hb.1 hrest).2, hb.2, h1]

/-- well-formed frames and application calls never end the stream thread -/
theorem alive_of_wf (s : St) (ops : List Op) (hd : s.dead = false)
    (hops : ∀ op ∈ ops, op.kills s.enabled.length = false) :
    (run s ops).dead = false ∧ (run s ops).enabled.length = s.enabled.length := by
  induction ops generalizing s with
  | nil => exact ⟨hd, rfl⟩
  | cons op r ih =>
    have key : (apply s op).dead = false ∧ (apply s op).enabled.length = s.enabled.length := by
      have hop := hops op List.mem_cons_self
      unfold apply
      cases op with
      | frame fl ss =>
        rw [step_frame_good fl ss hd (by simpa [Op.kills] using hop)]; exact ⟨hd, rfl⟩
      | badFrame => simp [Op.kills] at hop
      | sub ch =>
        rw [step]
        by_cases hc : ch < s.subs.length
        · rw [if_pos hc]; exact ⟨hd, rfl⟩
        · rw [if_neg hc]; exact ⟨hd, rfl⟩
      | subNeg k =>
        rw [step]
        by_cases hc : k < s.subs.length
        · rw [if_pos hc]; exact ⟨hd, rfl⟩
        · rw [if_neg hc]; exact ⟨hd, rfl⟩
      | unsub k => exact ⟨hd, rfl⟩
      | setEnabled v =>
        rw [step]
        by_cases hc : v.length = s.enabled.length
        · rw [if_pos hc]; exact ⟨hd, hc⟩
        · rw [if_neg hc]; exact ⟨hd, rfl⟩
      | restart => exact ⟨rfl, rfl⟩
    rw [run_cons]
    obtain ⟨h1, h2⟩ := ih (apply s op) key.1 (fun op hop => by
      rw [key.2]; exact hops op (List.mem_cons_of_mem _ hop))
    exact ⟨h1, h2.trans key.2⟩

/-- nothing is delivered for other channels, to unsubscribed queues, or for channels the client has
    not enabled: a frame leaves queue `q` untouched unless `q` is subscribed to an enabled channel
    of which the frame carries a sample (in particular: always, when `q` is subscribed nowhere) -/
theorem no_leak (s : St) (fl : Nat) (ss : List Smp) (s' : St) (q : Nat) (h : step s (.frame fl ss) = .ok s')
    (hq : ∀ c, q ∈ s.subs.getD c [] → (s.enabled.getD c false = false ∨ ∀ x ∈ ss, x.chan ≠ c)) :
    received s' q = received s q := by
  rcases step_frame_cases s fl ss with ⟨_, h'⟩ | ⟨_, _, h'⟩ | ⟨_, _, h'⟩
  · rw [h'] at h; injection h with h; subst h; rfl
  · rw [h'] at h; injection h with h; subst h; rfl
  · rw [h'] at h; injection h with h; subst h
    apply received_fanout_of_nil s _ ss q rfl
    rw [extra_eq_nil]; rfl
    intro c _ _
    by_cases hm : q ∈ s.subs.getD c []
    · exact Or.inl (group_isEmpty_of _ _ _ (hq c hm))
    · exact Or.inr (List.count_eq_zero.mpr hm)

/-- frames that carry no samples, only samples of channels nobody listens to, or the overflow flag do
    not disturb delivery: no error, queues and subscriptions unchanged, and the stream thread survives
    (it is dead afterwards only if it was dead before) -/
theorem empty_frames_neutral (s : St) (fl : Nat) (ss : List Smp)
    (hfor : ∀ x ∈ ss, x.chan < s.enabled.length ∧ (s.subs.getD x.chan [] = [] ∨ s.enabled.getD x.chan false = false)) :
    ∃ s', step s (.frame fl ss) = .ok s' ∧ s'.queues = s.queues ∧ s'.subs = s.subs ∧ s'.dead = s.dead := by
  rcases Bool.eq_false_or_eq_true s.dead with hd | hd
  · exact ⟨s, step_frame_dead fl ss hd, rfl, rfl, rfl⟩
  refine ⟨_, step_frame_of_lt s fl ss hd (fun x hx => (hfor x hx).1), ?_, rfl, rfl⟩
  apply fanout_eq_self
  intro c
  cases hg : (group s.enabled ss c).isEmpty with
  | true => exact Or.inl rfl
  | false =>
    obtain ⟨he, x, hx, rfl⟩ := exists_of_group_nonempty _ _ _ hg
    rcases (hfor x hx).2 with h | h
    · exact Or.inr h
    · rw [h] at he; cases he

/-- never an empty group -/
theorem groups_nonempty (n : Nat) (ops : List Op) :
    ∀ e ∈ (run (St.init n) ops).queues, ∀ g ∈ e.2, g ≠ [] :=
  groupsNonempty_run _ ops (groupsNonempty_init n)

/-- the enabled test is made per sample (before, and outside, the queue lock): an execution in which
    the enable vector changes between two samples of one frame is the history with the frame split
    there (see `Fanout.lean`).  Splitting a well-formed frame — here with nothing in between — changes
    no queue's content; with a `setEnabled` in between, the split history is the execution. -/
theorem frame_split (n : Nat) (pre post : List Op) (fl fl' : Nat) (a b : List Smp)
    (hab : ∀ x ∈ a ++ b, x.chan < n) (q : Nat) :
    received (run (St.init n) (pre ++ [.frame fl (a ++ b)] ++ post)) q
      = received (run (St.init n) (pre ++ [.frame fl a, .frame fl' b] ++ post)) q := by
  rw [queue_is_run, queue_is_run]
  have hlen : (specRun (Spec.init n) pre).enabled.length = n := by
    rw [← (inv_reach n pre).en]; exact (inv_reach n pre).enLen
  have : specRun (specRun (Spec.init n) pre) [.frame fl (a ++ b)]
      = specRun (specRun (Spec.init n) pre) [.frame fl a, .frame fl' b] := by
    generalize specRun (Spec.init n) pre = sp at hlen
    have ha : ∀ x ∈ a, x.chan < sp.enabled.length := fun x hx => by
      rw [hlen]; exact hab x (List.mem_append_left _ hx)
    have hb : ∀ x ∈ b, x.chan < sp.enabled.length := fun x hx => by
      rw [hlen]; exact hab x (List.mem_append_right _ hx)
    have hab' : ∀ x ∈ a ++ b, x.chan < sp.enabled.length := fun x hx => by rw [hlen]; exact hab x hx
    simp only [specRun]
    rcases Bool.eq_false_or_eq_true sp.dead with hd | hd
    · rw [specStep_frame_dead _ _ hd, specStep_frame_dead _ _ hd, specStep_frame_dead _ _ hd]
    · rw [specStep_frame_good _ _ hd (any_ge_false_of_lt hab'), specStep_frame_good _ _ hd (any_ge_false_of_lt ha),
        specStep_frame_good _ _ (by exact hd) (any_ge_false_of_lt (by exact hb))]
      congr 1
      rw [List.map_map]
      apply List.map_congr_left
      intro qe _
      exact qFrame_append _ _ _ _
  rw [List.append_assoc, specRun_append, specRun_append, this, ← specRun_append, ← specRun_append,
    ← List.append_assoc]

/-- Python's negative index: `stream_sub(-(k+1))` on a device with `n` channels IS
    `stream_sub(n-1-k)` for `k < n` and raises IndexError otherwise — the only place where an integer
    channel argument and the natural-number channel of `sub` differ -/
theorem sub_negative_index (s : St) (k : Nat) :
    step s (.subNeg k) = if k < s.subs.length then step s (.sub (s.subs.length - 1 - k)) else .error .indexError := by
  by_cases hk : k < s.subs.length
  · have h2 : s.subs.length - 1 - k < s.subs.length := by omega
    simp only [step, if_pos hk, if_pos h2]
  · simp only [step, if_neg hk]
/-- the single receive thread preserves FIFO order end to end: the stream queue holds exactly the
    STREAM frames, in arrival order, and the response queue everything else in arrival order (ACKs are
    dropped only while no device description is known) -/
theorem route_fifo (hasDev : Bool) (frs : List Serial.Frame) :
    (Route.queues hasDev frs).2 = frs.filter (fun f => f.fid = Gen.Ids.idSTREAM) ∧
    (Route.queues hasDev frs).1 =
      frs.filter (fun f => f.fid ≠ Gen.Ids.idSTREAM ∧ ¬ (hasDev = false ∧ f.fid = Gen.Ids.idACK)) := by
  have hne : Gen.Ids.idACK ≠ Gen.Ids.idSTREAM := by decide
  induction frs with
  | nil => simp [Route.queues]
  | cons fr r ih =>
    obtain ⟨ih1, ih2⟩ := ih
    have hq : Route.queues hasDev (fr :: r) =
        (match Route.dest hasDev fr with
          | .stream => ((Route.queues hasDev r).1, fr :: (Route.queues hasDev r).2)
          | .resp => (fr :: (Route.queues hasDev r).1, (Route.queues hasDev r).2)
          | .dropped => ((Route.queues hasDev r).1, (Route.queues hasDev r).2)) := rfl
    rw [hq]
    by_cases h1 : fr.fid = Gen.Ids.idSTREAM
    · have hd : Route.dest hasDev fr = .stream := by simp [Route.dest, h1]
      rw [hd]
      simp [h1, ih1, ih2]
    · by_cases h2 : hasDev = false ∧ fr.fid = Gen.Ids.idACK
      · have hd : Route.dest hasDev fr = .dropped := by simp [Route.dest, h2.1, h2.2, hne]
        rw [hd]
        obtain ⟨ha, hb⟩ := h2
        subst ha
        simp [hb, hne, ih1, ih2]
      · have hd : Route.dest hasDev fr = .resp := by
          unfold Route.dest
          rw [if_neg h1]
          have : (!hasDev && decide (fr.fid = Gen.Ids.idACK)) = false := by
            cases hasDev <;> simp_all
          rw [this]; rfl
        rw [hd]
        simp [List.filter_cons, h1, h2, ih1, ih2]


/-! ### property theorems — the three threads (`Fanout.Sys`): receive thread → `_q_stream` → stream
    thread, application calls in between, every interleaving -/

theorem sysRun_append (s : Sys) (a b : List Ev) : sysRun s (a ++ b) = sysRun (sysRun s a) b := by
  induction a generalizing s with
  | nil => rfl
  | cons e r ih => exact ih _

theorem sysOps_append (s : Sys) (a b : List Ev) : sysOps s (a ++ b) = sysOps s a ++ sysOps (sysRun s a) b := by
  induction a generalizing s with
  | nil => rfl
  | cons e r ih => simp only [List.cons_append, sysOps, sysRun, ih, List.append_assoc]

theorem sysStep_fan (s : Sys) (e : Ev) : (sysStep s e).fan = run s.fan (evOp s e).toList := by
  cases e with
  | iter =>
    unfold sysStep evOp
    cases ha : s.alive with
    | false => simp [run]
    | true =>
      cases hq : s.q.head? with
      | none => simp [run]
      | some f => simp [run_singleton]
  | start =>
    unfold sysStep evOp
    cases s.started <;> simp [run, run_singleton]
  | arrive f => rfl
  | stop => rfl
  | sub ch => simp [sysStep, evOp, run_singleton]
  | subNeg k => simp [sysStep, evOp, run_singleton]
  | unsub q => simp [sysStep, evOp, run_singleton]
  | setEnabled v => simp [sysStep, evOp, run_singleton]

/-- Route ∘ Fanout, part 1: whatever the interleaving of the receive thread, the stream thread's
    iterations and the application's calls, the fan-out state is the `run` of the op list `sysOps`
    (the calls, and the frames at the moment they are taken from `_q_stream`) — so every op-list
    theorem above (`queue_is_run`, `no_leak`, …) speaks about every interleaving -/
theorem sys_fan_is_run (s : Sys) (evs : List Ev) : (sysRun s evs).fan = run s.fan (sysOps s evs) := by
  induction evs generalizing s with
  | nil => rfl
  | cons e r ih => rw [sysRun, sysOps, run_append, ← sysStep_fan, ih]

/-- Route ∘ Fanout, part 2 (FIFO, no loss, no duplication between the two threads): at every moment
    the frames the stream thread has taken, followed by those still waiting in `_q_stream`, are
    exactly the frames that were waiting at the start followed by those the receive thread has put
    since — in the same order -/
theorem sys_fifo (s : Sys) (evs : List Ev) :
    sysConsumed s evs ++ (sysRun s evs).q = s.q ++ arrived evs := by
  induction evs generalizing s with
  | nil => simp [sysConsumed, sysRun, arrived]
  | cons e r ih =>
    rw [sysConsumed, sysRun, arrived, List.append_assoc, ih, ← List.append_assoc, ← List.append_assoc]
    congr 1
    cases e with
    | iter =>
      unfold sysStep evOp consumedBy evOp
      cases ha : s.alive with
      | false => simp [arrivedBy]
      | true =>
        cases hq : s.q with
        | nil => simp [arrivedBy]
        | cons f t => simp [arrivedBy]
    | arrive f => simp [sysStep, arrivedBy, consumedBy]
    | start => simp [sysStep, arrivedBy, consumedBy]
    | stop => simp [sysStep, arrivedBy, consumedBy]
    | sub ch => simp [sysStep, arrivedBy, consumedBy]
    | subNeg k => simp [sysStep, arrivedBy, consumedBy]
    | unsub q => simp [sysStep, arrivedBy, consumedBy]
    | setEnabled v => simp [sysStep, arrivedBy, consumedBy]

/-- a history in which only the receive thread and the stream thread act performs exactly the frames
    it consumes -/
theorem sysOps_eq_consumed (s : Sys) (evs : List Ev) (h : ∀ e ∈ evs, e = .iter ∨ ∃ f, e = .arrive f) :
    sysOps s evs = sysConsumed s evs := by
  induction evs generalizing s with
  | nil => rfl
  | cons e r ih =>
    rw [sysOps, sysConsumed, ih _ (fun e he => h e (List.mem_cons_of_mem _ he))]
    rcases h e List.mem_cons_self with rfl | ⟨f, rfl⟩
    · rfl
    · rfl

/-- progress (in the style of `Worker` / C13 `alive_while_started`, which proves that the loop calls
    its target again as long as no stop is requested and the target returns): while the stream is
    started and the thread has not died, ONE loop iteration takes the OLDEST waiting frame from
    `_q_stream` and processes it completely (decode, group, fan-out) — no frame waits behind a younger
    one, none is skipped -/
theorem iter_consumes (s : Sys) (f : Op) (r : List Op) (hs : s.started = true) (hd : s.fan.dead = false)
    (hq : s.q = f :: r) : sysStep s .iter = { s with q := r, fan := apply s.fan f } := by
  have ha : s.alive = true := by simp [Sys.alive, hs, hd]
  simp [sysStep, evOp, ha, hq]

/-- "every such sample is eventually delivered … as long as the stream is not stopped": a started,
    live stream thread empties `_q_stream` in `_q_stream.length` iterations when the waiting frames are
    well-formed, processing them in order; nothing else is needed (no new frame, no call) -/
theorem drain (s : Sys) (hs : s.started = true) (hd : s.fan.dead = false)
    (hwf : ∀ f ∈ s.q, f.wfFrame s.fan.enabled.length = true) :
    sysRun s (List.replicate s.q.length .iter) = { s with q := [], fan := run s.fan s.q } := by
  obtain ⟨fan, q, started⟩ := s
  simp only at hs hd hwf ⊢
  subst hs
  induction q generalizing fan with
  | nil => rfl
  | cons f r ih =>
    rw [List.length_cons, List.replicate_succ, sysRun, iter_consumes _ f r rfl hd rfl, run_cons]
    have hf := hwf f List.mem_cons_self
    have hk : f.kills fan.enabled.length = false := by
      cases f with
      | frame fl ss =>
        simp only [Op.wfFrame, List.all_eq_true, decide_eq_true_eq] at hf
        simp only [Op.kills]
        exact any_ge_false_of_lt hf
      | _ => simp [Op.wfFrame] at hf
    have h1 := alive_of_wf fan [f] hd (by simpa using hk)
    rw [run_singleton] at h1
    exact ih (apply fan f) h1.1 (fun g hg => by rw [h1.2]; exact hwf g (List.mem_cons_of_mem _ hg))

/-- END-TO-END DELIVERY.  After any history `pre` of the three threads, the application subscribes a
    new queue to a channel `c` that is enabled, while the stream thread has not died.  From then on
    only the receive thread and the stream thread act (`post`: arrivals and loop iterations in any
    interleaving), all frames concerned — the backlog still waiting in `_q_stream` at subscription time
    and the later arrivals — are well-formed, and at the end `_q_stream` is empty (which `drain`
    guarantees after finitely many iterations of a started stream).  Then the queue has received
    EXACTLY the `c`-samples of the backlog and of every stream frame received since, each once, in
    device order.  ("Since the subscription" therefore means "processed since": the backlog counts.) -/
theorem end_to_end_delivery (en : List Bool) (pre post : List Ev) (c : Nat) (hc : c < en.length)
    (hdead : (sysRun (Sys.init en) pre).fan.dead = false)
    (hen : (sysRun (Sys.init en) pre).fan.enabled.getD c false = true)
    (hpost : ∀ e ∈ post, e = .iter ∨ ∃ f, e = .arrive f)
    (hwf : ∀ f ∈ (sysRun (Sys.init en) pre).q ++ arrived post, f.wfFrame en.length = true)
    (hdrained : (sysRun (Sys.init en) (pre ++ [.sub c] ++ post)).q = []) :
    received (sysRun (Sys.init en) (pre ++ [.sub c] ++ post)).fan (sysRun (Sys.init en) pre).fan.nextQ
      = ((sysRun (Sys.init en) pre).q ++ arrived post).flatMap (Op.samplesOf c) := by
  have hI : Inv en.length (sysRun (Sys.init en) pre).fan
      (specRun (Spec.initEn en) (sysOps (Sys.init en) pre)) := by
    rw [sys_fan_is_run]; exact inv_reach_en en _
  rw [List.append_assoc, sysRun_append] at hdrained ⊢
  generalize sysRun (Sys.init en) pre = s0 at *
  have hfifo := sys_fifo (sysStep s0 (.sub c)) post
  rw [show [Ev.sub c] ++ post = .sub c :: post from rfl, sysRun] at hdrained ⊢
  rw [hdrained, List.append_nil] at hfifo
  rw [sys_fan_is_run, sysOps_eq_consumed _ _ hpost, hfifo, sysStep_fan]
  show received (run (run s0.fan [.sub c]) (s0.q ++ arrived post)) s0.fan.nextQ = _
  rw [← run_append]
  exact (since_subscription_core hI c hc hen hdead _ hwf).1

/-- END-TO-END, on the wire.  The same with the frames as the reassembly delivers them to the receive
    thread (`frs`, any frame ids): the receive thread routes the STREAM frames to `_q_stream`
    (`Route.queues`), the stream thread decodes them with the C04 decoder
    (`Stream.frameStreamDecode`); if every STREAM frame decodes, no backlog was waiting, and
    `_q_stream` has been drained, the new subscriber of `c` has received exactly the positions
    (`tagged_getElem?`: position in the concatenation of all decoded samples, i.e. in the device's
    output) of the `c`-samples, ascending: each sample of `c` the device sent, once, in device order -/
theorem end_to_end_wire (layout : List Stream.Chan) (user : List Stream.UserType) (en : List Bool)
    (hlen : layout.length = en.length) (hasDev : Bool) (frs : List Serial.Frame)
    (pre post : List Ev) (c : Nat) (hc : c < en.length)
    (hdead : (sysRun (Sys.init en) pre).fan.dead = false)
    (hen : (sysRun (Sys.init en) pre).fan.enabled.getD c false = true)
    (hq0 : (sysRun (Sys.init en) pre).q = [])
    (hpost : ∀ e ∈ post, e = .iter ∨ ∃ f, e = .arrive f)
    (harr : arrived post = arrivals layout user hasDev frs)
    (hdec : ∀ fr ∈ frs, fr.fid = Gen.Ids.idSTREAM → ∃ r, Stream.frameStreamDecode layout user fr = .ok r)
    (hdrained : (sysRun (Sys.init en) (pre ++ [.sub c] ++ post)).q = []) :
    received (sysRun (Sys.init en) (pre ++ [.sub c] ++ post)).fan (sysRun (Sys.init en) pre).fan.nextQ
      = ((tagged 0 (samplesOfFrames layout user (frs.filter (fun f => f.fid = Gen.Ids.idSTREAM)))).filter
          (·.chan = c)).map (·.val) := by
  have hroute : (Route.queues hasDev frs).2 = frs.filter (fun f => f.fid = Gen.Ids.idSTREAM) :=
    (route_fifo hasDev frs).1
  have hwf : ∀ f ∈ (sysRun (Sys.init en) pre).q ++ arrived post, f.wfFrame en.length = true := by
    rw [hq0, List.nil_append, harr, arrivals, hroute, ← hlen]
    apply opsOfFrames_wf
    intro fr hfr
    obtain ⟨h1, h2⟩ := List.mem_filter.mp hfr
    exact hdec fr h1 (by simpa using h2)
  rw [end_to_end_delivery en pre post c hc hdead hen hpost hwf hdrained, hq0, List.nil_append, harr,
    arrivals, hroute, flatMap_opsOfFrames]

/-- the fan-out code that `Fanout.lean` transcribes is present in the current source (regenerated
    facts): the stream thread groups the samples of enabled channels and puts each group on every queue
    of its channel under the queue lock; sub/unsub edit the subscriber lists under the same lock; the
    single receive thread routes stream frames to the stream queue in arrival order -/
theorem source_shape :
    Gen.CfgShape.fanoutShape = true ∧ Gen.CfgShape.subUnsubShape = true ∧
    Gen.CfgShape.recvRouteShape = true := by decide

/-! ### non-vacuity: the hypotheses of the theorems above are satisfiable, on concrete histories -/

example : received (run (St.init 3) [.sub 1, .sub 1, .sub 0, .setEnabled [true, true, false],
    .frame 0 [⟨1, 0⟩, ⟨0, 1⟩, ⟨1, 2⟩, ⟨2, 3⟩], .unsub 0, .frame 1 [⟨1, 4⟩], .frame 0 []]) 1 = [0, 2, 4] := by
  decide +kernel

/-- `run_since_subscription`: hypotheses hold for a 2-channel device, channel 0 enabled -/
example : (2 > 0) ∧ ((specRun (Spec.init 2) ([.setEnabled [true, true]] ++ [.sub 0])).enabled.getD 0 false) = true ∧
    (run (St.init 2) [.setEnabled [true, true]]).dead = false ∧
    (∀ op ∈ [Op.frame 0 [⟨0, 5⟩, ⟨1, 6⟩], .frame 1 []], ∃ fl ss, op = .frame fl ss ∧ ∀ x ∈ ss, x.chan < 2) := by
  refine ⟨by decide, by decide, by decide, ?_⟩
  intro op hop
  simp only [List.mem_cons, List.mem_nil_iff, or_false] at hop
  rcases hop with rfl | rfl
  · exact ⟨0, _, rfl, by decide⟩
  · exact ⟨1, _, rfl, by decide⟩

/-- `run_since_subscription_en`: a channel enabled at connect time, never enabled by the client -/
example : (run (St.initEn [true, false]) []).enabled.getD 0 false = true ∧
    (run (St.initEn [true, false]) []).dead = false ∧
    (∀ op ∈ [Op.frame 0 [⟨0, 5⟩, ⟨1, 6⟩]], op.wfFrame [true, false].length = true) ∧
    received (run (St.initEn [true, false]) ([] ++ [.sub 0] ++ [.frame 0 [⟨0, 5⟩, ⟨1, 6⟩]])) 0 = [5] := by
  decide +kernel

/-- R-C08-2, the reviewer's history: 2-channel device, frames ch0:1, ch7:2, ch0:3 leave the queue at [1]
    and the stream thread dead (`dead_stops_delivery`, `delivery_until_first_bad` with
    `good = [frame 0 [⟨0,1⟩]]`, `bad = frame 0 [⟨7,2⟩]`, `rest = [frame 0 [⟨0,3⟩]]`) -/
example : let s := run (St.initEn [true, true]) [.sub 0, .frame 0 [⟨0, 1⟩], .frame 0 [⟨7, 2⟩], .frame 0 [⟨0, 3⟩]]
    received s 0 = [1] ∧ s.dead = true := by decide +kernel

example : (run (St.initEn [true, true]) []).enabled.getD 0 false = true ∧
    (run (St.initEn [true, true]) []).dead = false ∧
    (∀ op ∈ [Op.frame 0 [⟨0, 1⟩]], op.wfFrame [true, true].length = true) ∧
    (Op.frame 0 [⟨7, 2⟩]).kills [true, true].length = true ∧ Op.badFrame.kills 2 = true ∧
    (∀ op ∈ [Op.frame 0 [⟨0, 3⟩]], op ≠ .restart) := by decide

/-- … and a restart of the stream revives delivery (`restart` is the only op `dead_stops_delivery` excludes) -/
example : received (run (St.initEn [true]) [.sub 0, .frame 0 [⟨0, 1⟩], .badFrame, .frame 0 [⟨0, 2⟩], .restart,
    .frame 0 [⟨0, 3⟩]]) 0 = [1, 3] := by decide +kernel

/-- `alive_of_wf`, `no_leak`, `empty_frames_neutral`, `frame_split`: hypotheses satisfiable -/
example : (St.initEn [true]).dead = false ∧
    (∀ op ∈ [Op.frame 1 [⟨0, 1⟩], .sub 0, .subNeg 0, .unsub 3, .setEnabled [false], .restart],
      op.kills (St.initEn [true]).enabled.length = false) := by decide

example : ∃ s', step (run (St.initEn [true, false]) [.sub 1]) (.frame 0 [⟨1, 9⟩, ⟨0, 8⟩]) = .ok s' ∧
    ∀ c, 0 ∈ (run (St.initEn [true, false]) [.sub 1]).subs.getD c [] →
      ((run (St.initEn [true, false]) [.sub 1]).enabled.getD c false = false ∨
        ∀ x ∈ [(⟨1, 9⟩ : Smp), ⟨0, 8⟩], x.chan ≠ c) := by
  refine ⟨_, rfl, ?_⟩
  intro c hc
  have : c = 1 := by
    match c with
    | 0 => simp [run, step, subAt, St.initEn] at hc
    | 1 => rfl
    | c + 2 => simp [run, step, subAt, St.initEn] at hc
  subst this
  exact Or.inl (by decide)

example : ∀ x ∈ [(⟨1, 9⟩ : Smp)],
    x.chan < (run (St.initEn [true, false]) [.sub 1]).enabled.length ∧
      ((run (St.initEn [true, false]) [.sub 1]).subs.getD x.chan [] = [] ∨
        (run (St.initEn [true, false]) [.sub 1]).enabled.getD x.chan false = false) := by decide

example : ∀ x ∈ [(⟨0, 1⟩ : Smp)] ++ [⟨1, 2⟩, ⟨0, 3⟩], x.chan < 2 := by decide

/-- `stream_sub(-1)` on a 3-channel device subscribes to channel 2; `stream_sub(-4)` raises -/
example : (run (St.init 3) [.subNeg 0]).subs = [[], [], [0]] ∧ step (St.init 3) (.subNeg 3) = .error .indexError := by
  decide

/-- `iter_consumes`, `drain`: a started, live stream with two well-formed frames waiting -/
example : let s : Sys := sysRun (Sys.init [true]) [.sub 0, .start, .arrive (.frame 0 [⟨0, 1⟩]), .arrive (.frame 1 [⟨0, 2⟩])]
    s.started = true ∧ s.fan.dead = false ∧ s.q = [.frame 0 [⟨0, 1⟩], .frame 1 [⟨0, 2⟩]] ∧
    (∀ f ∈ s.q, f.wfFrame s.fan.enabled.length = true) ∧
    received (sysRun s (List.replicate s.q.length .iter)).fan 0 = [1, 2] := by decide +kernel

/-- `end_to_end_delivery`: one frame is waiting in `_q_stream` when the queue subscribes (backlog), one
    arrives later; the stream was started before; both are delivered, in order, once -/
example : let pre : List Ev := [.start, .arrive (.frame 0 [⟨0, 7⟩])]
    let post : List Ev := [.iter, .arrive (.frame 0 [⟨0, 8⟩, ⟨0, 9⟩]), .iter, .iter]
    (sysRun (Sys.init [true]) pre).fan.dead = false ∧
    (sysRun (Sys.init [true]) pre).fan.enabled.getD 0 false = true ∧
    (∀ e ∈ post, e = .iter ∨ ∃ f, e = .arrive f) ∧
    (∀ f ∈ (sysRun (Sys.init [true]) pre).q ++ arrived post, f.wfFrame [true].length = true) ∧
    (sysRun (Sys.init [true]) (pre ++ [.sub 0] ++ post)).q = [] ∧
    received (sysRun (Sys.init [true]) (pre ++ [.sub 0] ++ post)).fan 0 = [7, 8, 9] := by
  refine ⟨by decide, by decide, ?_, by decide, by decide, by decide +kernel⟩
  intro e he
  simp only [List.mem_cons, List.mem_nil_iff, or_false] at he
  rcases he with rfl | rfl | rfl | rfl
  · exact Or.inl rfl
  · exact Or.inr ⟨_, rfl⟩
  · exact Or.inl rfl
  · exact Or.inl rfl

/-- `end_to_end_wire`: a device with two UINT8 channels (type 2, vdim 1, no metadata), channel 1 enabled;
    the reassembly delivers an ACK frame, a STREAM frame with samples (ch1: 42, ch0: 7), a STREAM frame
    with sample (ch1: 43); the STREAM frames decode; the subscriber of channel 1 gets positions 0 and 2 -/
def exLayout : List Stream.Chan := [⟨2, 1, 0⟩, ⟨2, 1, 0⟩]
def exFrs : List Serial.Frame :=
  [⟨Gen.Ids.idACK, [0, 0, 0, 0]⟩, ⟨Gen.Ids.idSTREAM, [0, 1, 42, 0, 7]⟩, ⟨Gen.Ids.idSTREAM, [0, 1, 43]⟩]

example : arrivals exLayout [] true exFrs = [.frame 0 [⟨1, 0⟩, ⟨0, 1⟩], .frame 0 [⟨1, 2⟩]] ∧
    (∀ fr ∈ exFrs, fr.fid = Gen.Ids.idSTREAM → ∃ r, Stream.frameStreamDecode exLayout [] fr = .ok r) ∧
    (samplesOfFrames exLayout [] (exFrs.filter (fun f => f.fid = Gen.Ids.idSTREAM))).map (·.data)
      = [[.int 42], [.int 7], [.int 43]] := by
  refine ⟨by decide +kernel, ?_, by decide +kernel⟩
  intro fr hfr hid
  simp only [exFrs, List.mem_cons, List.mem_nil_iff, or_false] at hfr
  rcases hfr with rfl | rfl | rfl
  · exact absurd hid (by decide)
  · exact exists_ok_of (by decide +kernel)
  · exact exists_ok_of (by decide +kernel)

example : let pre : List Ev := [.start]
    let post : List Ev := [.arrive (.frame 0 [⟨1, 0⟩, ⟨0, 1⟩]), .arrive (.frame 0 [⟨1, 2⟩]), .iter, .iter]
    arrived post = arrivals exLayout [] true exFrs ∧
    (sysRun (Sys.init [false, true]) pre).q = [] ∧
    (sysRun (Sys.init [false, true]) (pre ++ [.sub 1] ++ post)).q = [] ∧
    received (sysRun (Sys.init [false, true]) (pre ++ [.sub 1] ++ post)).fan 0 = [0, 2] := by
  decide +kernel

/-! ### Round 7 additions — what ONE queue sees of an arbitrary history (no hypothesis on the ops)

`specStep_at` / `specRun_at` follow a single queue of the specification through any op / any
history; with `queue_is_run` they give, for the code-shaped model and EVERY history (rejected
frames, restarts, enable changes, other subscribers coming and going): unsubscription is final
(`unsub_is_final`), queue contents only ever grow at the end (`received_prefix_mono`), and a queue
subscribed to `c` holds a subsequence of the `c`-samples processed since its subscription
(`received_sublist_since_sub`, `received_length_le`). -/

/-- one op, seen from queue `q` of the specification: the subscription stays or is dropped (dropped for
    sure by `unsub q`), the content grows at the end by nothing or by the op's samples of the
    channel the queue is subscribed to -/
theorem specStep_at (sp : Spec) (op : Op) (q : Nat) (e : QSpec) (h : sp.qs[q]? = some e) :
    ∃ sub' d, (specStep sp op).qs[q]? = some ⟨sub', e.got ++ d⟩ ∧ (sub' = e.sub ∨ sub' = none) ∧
      (op = .unsub q → sub' = none) ∧ (d = [] ∨ ∃ c, e.sub = some c ∧ d = op.samplesOf c) := by
  have same : sp.qs[q]? = some ⟨e.sub, e.got ++ []⟩ := by rw [h, List.append_nil]
  obtain ⟨hq, _⟩ := List.getElem?_eq_some_iff.mp h
  cases op with
  | frame fl ss =>
    rcases Bool.eq_false_or_eq_true sp.dead with hd | hd
    · rw [specStep_frame_dead fl ss hd]; exact ⟨_, _, same, .inl rfl, (fun h => by cases h), .inl rfl⟩
    · rcases Bool.eq_false_or_eq_true (ss.any (fun x => x.chan ≥ sp.enabled.length)) with hb | hb
      · rw [specStep_frame_bad fl ss hd hb]; exact ⟨_, _, same, .inl rfl, (fun h => by cases h), .inl rfl⟩
      · rw [specStep_frame_good fl ss hd hb]
        refine ⟨(qFrame sp.enabled ss e).sub,
          (match e.sub with | some c => group sp.enabled ss c | none => []), ?_,
          .inl (qFrame_sub _ _ _), (fun h => by cases h), ?_⟩
        · show (sp.qs.map _)[q]? = _
          rw [List.getElem?_map, h, Option.map_some, ← qFrame_got]
        · cases hs : e.sub with
          | none => exact .inl rfl
          | some c =>
            show group sp.enabled ss c = [] ∨ ∃ c', some c = some c' ∧ group sp.enabled ss c = Op.samplesOf c' (.frame fl ss)
            rw [group_eq]
            by_cases he : sp.enabled.getD c false = true
            · rw [if_pos he]; exact .inr ⟨c, rfl, rfl⟩
            · rw [if_neg he]; exact .inl rfl
  | badFrame => exact ⟨_, _, same, .inl rfl, (fun h => by cases h), .inl rfl⟩
  | sub ch =>
    by_cases hc : ch < sp.enabled.length
    · refine ⟨e.sub, [], ?_, .inl rfl, (fun h => by cases h), .inl rfl⟩
      simp only [specStep, if_pos hc]
      rw [List.getElem?_append_left hq, h, List.append_nil]
    · refine ⟨e.sub, [], ?_, .inl rfl, (fun h => by cases h), .inl rfl⟩
      simp only [specStep, if_neg hc]
      exact same
  | subNeg k =>
    by_cases hc : k < sp.enabled.length
    · refine ⟨e.sub, [], ?_, .inl rfl, (fun h => by cases h), .inl rfl⟩
      simp only [specStep, if_pos hc]
      rw [List.getElem?_append_left hq, h, List.append_nil]
    · refine ⟨e.sub, [], ?_, .inl rfl, (fun h => by cases h), .inl rfl⟩
      simp only [specStep, if_neg hc]
      exact same
  | unsub k =>
    by_cases hk : q = k
    · refine ⟨none, [], ?_, .inr rfl, fun _ => rfl, .inl rfl⟩
      simp only [specStep]
      rw [List.getElem?_mapIdx, h, Option.map_some, if_pos hk, List.append_nil]
    · refine ⟨e.sub, [], ?_, .inl rfl, (fun h => by injection h with h; exact absurd h.symm hk), .inl rfl⟩
      simp only [specStep]
      rw [List.getElem?_mapIdx, h, Option.map_some, if_neg hk, List.append_nil]
  | setEnabled v =>
    by_cases hc : v.length = sp.enabled.length
    · refine ⟨e.sub, [], ?_, .inl rfl, (fun h => by cases h), .inl rfl⟩
      simp only [specStep, if_pos hc]; exact same
    · refine ⟨e.sub, [], ?_, .inl rfl, (fun h => by cases h), .inl rfl⟩
      simp only [specStep, if_neg hc]; exact same
  | restart => exact ⟨_, _, same, .inl rfl, (fun h => by cases h), .inl rfl⟩

/-- a whole history, seen from queue `q` of the specification: its content grows at the end by a
    `d` that is empty if the queue is unsubscribed and otherwise a subsequence of the history's samples
    of the queue's channel -/
theorem specRun_at (sp : Spec) (post : List Op) (q : Nat) (e : QSpec) (h : sp.qs[q]? = some e) :
    ∃ sub' d, (specRun sp post).qs[q]? = some ⟨sub', e.got ++ d⟩ ∧ (sub' = e.sub ∨ sub' = none) ∧
      (e.sub = none → d = []) ∧ (∀ c, e.sub = some c → d.Sublist (post.flatMap (Op.samplesOf c))) := by
  induction post generalizing sp e with
  | nil =>
    exact ⟨e.sub, [], by rw [specRun, h, List.append_nil], .inl rfl, fun _ => rfl, fun _ _ => List.nil_sublist _⟩
  | cons op r ih =>
    obtain ⟨s1, d1, h1, hs1, _, hd1⟩ := specStep_at sp op q e h
    obtain ⟨s2, d2, h2, hs2, hn2, hsl2⟩ := ih (specStep sp op) ⟨s1, e.got ++ d1⟩ h1
    refine ⟨s2, d1 ++ d2, ?_, ?_, ?_, ?_⟩
    · rw [specRun, h2, List.append_assoc]
    · rcases hs2 with hs2 | hs2
      · rcases hs1 with hs1 | hs1
        · exact .inl (hs2.trans hs1)
        · exact .inr (hs2.trans hs1)
      · exact .inr hs2
    · intro hn
      have hs1' : s1 = none := by rcases hs1 with hs1 | hs1 <;> simp [hs1, hn]
      have hd1' : d1 = [] := by
        rcases hd1 with hd1 | ⟨c, hc, _⟩
        · exact hd1
        · rw [hn] at hc; cases hc
      rw [hd1', hn2 hs1', List.append_nil]
    · intro c hc
      rw [List.flatMap_cons]
      have hd2 : d2.Sublist (r.flatMap (Op.samplesOf c)) := by
        rcases hs1 with hs1 | hs1
        · exact hsl2 c (hs1.trans hc)
        · rw [hn2 hs1]; exact List.nil_sublist _
      rcases hd1 with hd1 | ⟨c', hc', hd1⟩
      · rw [hd1]; exact (List.nil_sublist _).append hd2
      · rw [hc] at hc'; injection hc' with hc'; subst hc'
        rw [hd1]; exact (List.Sublist.refl _).append hd2

/-- UNSUBSCRIPTION IS FINAL ("nothing is delivered to unsubscribed queues", for the whole future):
    once `stream_unsub` of an existing queue has taken effect, NO later history — more frames,
    re-subscriptions of the same channel by other queues, enable changes, restarts — adds anything
    to that queue (queue objects are never re-used by `stream_sub`).
    Quantifier: all `n`, all histories `pre`, `post`, every queue `q` existing after `pre`. -/
theorem unsub_is_final (n : Nat) (pre post : List Op) (q : Nat) (hq : q < (run (St.init n) pre).nextQ) :
    received (run (St.init n) (pre ++ [.unsub q] ++ post)) q = received (run (St.init n) pre) q := by
  rw [queue_is_run, queue_is_run, specRun_append, specRun_append]
  rw [(inv_reach n pre).nextQ] at hq
  generalize specRun (Spec.init n) pre = sp at hq
  have h : sp.qs[q]? = some sp.qs[q] := List.getElem?_eq_getElem hq
  obtain ⟨s1, d1, h1, _, hn1, hd1⟩ := specStep_at sp (.unsub q) q _ h
  have hs1 : s1 = none := hn1 rfl
  have hd1' : d1 = [] := by
    rcases hd1 with hd1 | ⟨c, _, hd1⟩
    · exact hd1
    · exact hd1
  subst hs1 hd1'
  obtain ⟨s2, d2, h2, _, hn2, _⟩ := specRun_at (specStep sp (.unsub q)) post q _ h1
  have hd2 : d2 = [] := hn2 rfl
  subst hd2
  show ((specRun (specStep sp (.unsub q)) post).qs[q]?.map (·.got)).getD [] = _
  rw [h2, h]
  simp

/-- QUEUES ONLY GROW AT THE END: whatever happens next (any ops), what a queue held before is a
    prefix of what it holds afterwards — nothing already delivered is removed, reordered or
    changed by later frames, subscriptions, unsubscriptions, enable changes, thread death or restart.
    Quantifier: all `n`, all histories `pre`, `post`, all queue ids `q`. -/
theorem received_prefix_mono (n : Nat) (pre post : List Op) (q : Nat) :
    received (run (St.init n) pre) q <+: received (run (St.init n) (pre ++ post)) q := by
  rw [queue_is_run, queue_is_run, specRun_append]
  generalize specRun (Spec.init n) pre = sp
  cases h : sp.qs[q]? with
  | none => exact List.nil_prefix
  | some e =>
    obtain ⟨s2, d2, h2, _, _, _⟩ := specRun_at sp post q e h
    rw [h2]
    exact ⟨d2, rfl⟩

/-- SAFETY OF DELIVERY FOR EVERY HISTORY: the queue created by `stream_sub(c)` after `pre` holds, after
    ANY later history `post` (no well-formedness, liveness or enabledness hypothesis: frames the
    decoder rejects, restarts, `unsub`, enable changes, other subscribers), a SUBSEQUENCE of the
    `c`-samples of the frames of `post`, in device order — never a sample of another channel, never
    a sample from before the subscription, never a sample twice or out of order.
    (`run_since_subscription` is the matching completeness statement under its hypotheses.)
    Quantifier: all `n`, all `c < n`, all histories `pre`, `post`. -/
theorem received_sublist_since_sub (n : Nat) (pre post : List Op) (c : Nat) (hc : c < n) :
    (received (run (St.init n) (pre ++ [.sub c] ++ post)) (run (St.init n) pre).nextQ).Sublist
      (post.flatMap (Op.samplesOf c)) := by
  have hI := inv_reach n pre
  rw [queue_is_run, specRun_append, specRun_append, hI.nextQ]
  have hlen : (specRun (Spec.init n) pre).enabled.length = n := by rw [← hI.en]; exact hI.enLen
  generalize specRun (Spec.init n) pre = sp at hlen
  have hsp : specRun sp [.sub c] = { sp with qs := sp.qs ++ [⟨some c, []⟩] } := by
    show specStep sp (.sub c) = _
    rw [specStep, if_pos (by rw [hlen]; exact hc)]
  have h1 : (specRun sp [.sub c]).qs[sp.qs.length]? = some ⟨some c, []⟩ := by
    rw [hsp]; exact List.getElem?_concat_length
  obtain ⟨s2, d2, h2, _, _, hsl⟩ := specRun_at _ post _ _ h1
  rw [h2]
  simpa using hsl c rfl

/-- length bound: the queue holds at most as many samples as the frames processed since its
    subscription carried for its channel.  Quantifier: as `received_sublist_since_sub`. -/
theorem received_length_le (n : Nat) (pre post : List Op) (c : Nat) (hc : c < n) :
    (received (run (St.init n) (pre ++ [.sub c] ++ post)) (run (St.init n) pre).nextQ).length
      ≤ (post.flatMap (Op.samplesOf c)).length :=
  (received_sublist_since_sub n pre post c hc).length_le

/-- instances: queue 0 (channel 1) is unsubscribed while queue 1 (same channel) stays: later
    frames reach queue 1 only (`unsub_is_final` with `pre = [sub 1, sub 1, setEnabled …, frame …]`);
    a history with a rejected frame, a restart and a disable/enable in `post` delivers a strict
    subsequence `[5, 9]` of the channel's samples `[5, 6, 7, 8, 9]` (`received_sublist_since_sub`) -/
example : (0 < (run (St.init 2) [.sub 1, .sub 1, .setEnabled [true, true], .frame 0 [⟨1, 4⟩]]).nextQ) ∧
    received (run (St.init 2) ([.sub 1, .sub 1, .setEnabled [true, true], .frame 0 [⟨1, 4⟩]] ++ [.unsub 0]
      ++ [.frame 0 [⟨1, 5⟩], .sub 1, .frame 0 [⟨1, 6⟩]])) 0 = [4] ∧
    received (run (St.init 2) ([.sub 1, .sub 1, .setEnabled [true, true], .frame 0 [⟨1, 4⟩]] ++ [.unsub 0]
      ++ [.frame 0 [⟨1, 5⟩], .sub 1, .frame 0 [⟨1, 6⟩]])) 1 = [4, 5, 6] := by decide +kernel

example : received (run (St.init 2) ([.setEnabled [true, true], .frame 0 [⟨0, 1⟩]] ++ [.sub 0] ++
      [.frame 0 [⟨0, 5⟩, ⟨1, 2⟩], .frame 0 [⟨0, 6⟩, ⟨9, 0⟩], .frame 0 [⟨0, 7⟩], .restart,
       .setEnabled [false, true], .frame 1 [⟨0, 8⟩], .setEnabled [true, true], .frame 0 [⟨0, 9⟩]]))
      (run (St.init 2) [.setEnabled [true, true], .frame 0 [⟨0, 1⟩]]).nextQ = [5, 9] ∧
    ([Op.frame 0 [⟨0, 5⟩, ⟨1, 2⟩], .frame 0 [⟨0, 6⟩, ⟨9, 0⟩], .frame 0 [⟨0, 7⟩], .restart,
       .setEnabled [false, true], .frame 1 [⟨0, 8⟩], .setEnabled [true, true], .frame 0 [⟨0, 9⟩]]).flatMap
      (Op.samplesOf 0) = [5, 6, 7, 8, 9] := by decide +kernel


/-! ### Round 7 additions — independence between subscribers -/

/-- what one op does to the specification entry `e` of queue `q`; depends on the rest of the state
    only through the enable vector and the `dead` bit -/
def qStep (en : List Bool) (dead : Bool) (op : Op) (q : Nat) (e : QSpec) : QSpec :=
  match op with
  | .frame _ ss => if dead then e else if ss.any (fun x => x.chan ≥ en.length) then e else qFrame en ss e
  | .unsub k => if q = k then { e with sub := none } else e
  | _ => e

theorem specStep_getElem (sp : Spec) (op : Op) (q : Nat) (e : QSpec) (h : sp.qs[q]? = some e) :
    (specStep sp op).qs[q]? = some (qStep sp.enabled sp.dead op q e) := by
  obtain ⟨hq, _⟩ := List.getElem?_eq_some_iff.mp h
  cases op with
  | frame fl ss =>
    rcases Bool.eq_false_or_eq_true sp.dead with hd | hd
    · rw [specStep_frame_dead fl ss hd, h]; simp [qStep, hd]
    · rcases Bool.eq_false_or_eq_true (ss.any (fun x => x.chan ≥ sp.enabled.length)) with hb | hb
      · rw [specStep_frame_bad fl ss hd hb]
        show sp.qs[q]? = _
        rw [h]; simp only [qStep, hd, hb, if_true, Bool.false_eq_true, if_false]
      · rw [specStep_frame_good fl ss hd hb]
        show (sp.qs.map _)[q]? = _
        rw [List.getElem?_map, h, Option.map_some]
        simp only [qStep, hd, hb, Bool.false_eq_true, if_false]
  | badFrame => exact h
  | sub ch =>
    simp only [specStep, qStep]
    split
    · rw [List.getElem?_append_left hq, h]
    · exact h
  | subNeg k =>
    simp only [specStep, qStep]
    split
    · rw [List.getElem?_append_left hq, h]
    · exact h
  | unsub k =>
    simp only [specStep, qStep]
    rw [List.getElem?_mapIdx, h, Option.map_some]
  | setEnabled v =>
    simp only [specStep, qStep]
    split <;> exact h
  | restart => exact h

/-- the enable vector and the `dead` bit evolve independently of the queues -/
theorem specStep_env (sp1 sp2 : Spec) (op : Op) (hen : sp1.enabled = sp2.enabled) (hd : sp1.dead = sp2.dead) :
    (specStep sp1 op).enabled = (specStep sp2 op).enabled ∧ (specStep sp1 op).dead = (specStep sp2 op).dead := by
  obtain ⟨en1, qs1, d1⟩ := sp1
  obtain ⟨en2, qs2, d2⟩ := sp2
  simp only at hen hd
  subst hen hd
  cases op <;> simp only [specStep] <;> (try split) <;> (try split) <;> simp_all

/-- two specification states with the same enable vector, the same `dead` bit and the same entry for
    queue `q` keep the same entry for `q` under every history -/
theorem specRun_congr_at (sp1 sp2 : Spec) (post : List Op) (q : Nat) (e : QSpec)
    (hen : sp1.enabled = sp2.enabled) (hd : sp1.dead = sp2.dead)
    (h1 : sp1.qs[q]? = some e) (h2 : sp2.qs[q]? = some e) :
    (specRun sp1 post).qs[q]? = (specRun sp2 post).qs[q]? := by
  induction post generalizing sp1 sp2 e with
  | nil => rw [specRun, specRun, h1, h2]
  | cons op r ih =>
    rw [specRun, specRun]
    have g1 := specStep_getElem sp1 op q e h1
    have g2 := specStep_getElem sp2 op q e h2
    rw [hen, hd] at g1
    obtain ⟨a, b⟩ := specStep_env sp1 sp2 op hen hd
    exact ih _ _ _ a b g1 g2

/-- application calls that concern OTHER queues: `stream_sub` (any channel, any index form, failing
    or not) and `stream_unsub` of a queue other than `q` -/
def foreignTo (q : Nat) : Op → Bool
  | .sub _ => true
  | .subNeg _ => true
  | .unsub k => k != q
  | _ => false

theorem specStep_foreign (sp : Spec) (op : Op) (q : Nat) (e : QSpec) (h : sp.qs[q]? = some e)
    (hf : foreignTo q op = true) :
    (specStep sp op).enabled = sp.enabled ∧ (specStep sp op).dead = sp.dead ∧ (specStep sp op).qs[q]? = some e := by
  have h3 := specStep_getElem sp op q e h
  cases op with
  | sub ch => exact ⟨by simp only [specStep]; split <;> rfl, by simp only [specStep]; split <;> rfl, h3⟩
  | subNeg k => exact ⟨by simp only [specStep]; split <;> rfl, by simp only [specStep]; split <;> rfl, h3⟩
  | unsub k =>
    have hk : ¬ q = k := by
      intro hqk; subst hqk; simp [foreignTo] at hf
    refine ⟨rfl, rfl, ?_⟩
    rw [h3, qStep, if_neg hk]
  | frame fl ss => cases hf
  | badFrame => cases hf
  | setEnabled v => cases hf
  | restart => cases hf

theorem specRun_foreign (sp : Spec) (xs : List Op) (q : Nat) (e : QSpec) (h : sp.qs[q]? = some e)
    (hxs : ∀ x ∈ xs, foreignTo q x = true) :
    (specRun sp xs).enabled = sp.enabled ∧ (specRun sp xs).dead = sp.dead ∧ (specRun sp xs).qs[q]? = some e := by
  induction xs generalizing sp with
  | nil => exact ⟨rfl, rfl, h⟩
  | cons x r ih =>
    obtain ⟨a, b, c⟩ := specStep_foreign sp x q e h (hxs x List.mem_cons_self)
    obtain ⟨a', b', c'⟩ := ih (specStep sp x) c (fun y hy => hxs y (List.mem_cons_of_mem _ hy))
    exact ⟨a'.trans a, b'.trans b, c'⟩

/-- INDEPENDENCE BETWEEN SUBSCRIBERS: what an existing queue `q` receives does not depend on other
    queues coming and going.  Inserting, anywhere in a history, any number of `stream_sub` calls
    (any channel — also `q`'s own —, negative or invalid indices) and `stream_unsub` calls of queues
    other than `q` changes nothing of what `q` holds at the end, whatever follows.
    Quantifier: all `n`, all histories `pre`, `post`, every queue `q` existing after `pre`, every list
    `xs` of such calls. -/
theorem other_subscribers_irrelevant (n : Nat) (pre xs post : List Op) (q : Nat)
    (hq : q < (run (St.init n) pre).nextQ) (hxs : ∀ x ∈ xs, foreignTo q x = true) :
    received (run (St.init n) (pre ++ xs ++ post)) q = received (run (St.init n) (pre ++ post)) q := by
  rw [queue_is_run, queue_is_run, List.append_assoc, specRun_append, specRun_append _ pre post,
    specRun_append]
  rw [(inv_reach n pre).nextQ] at hq
  generalize specRun (Spec.init n) pre = sp at hq
  have h : sp.qs[q]? = some sp.qs[q] := List.getElem?_eq_getElem hq
  obtain ⟨a, b, c⟩ := specRun_foreign sp xs q _ h hxs
  rw [specRun_congr_at (specRun sp xs) sp post q _ a b c h]

/-- instance: queue 0 listens to channel 0; two more subscribers of channel 0 and one of channel 1
    arrive, one of them leaves again, an invalid `stream_sub(7)` is attempted — queue 0 receives
    `[1, 2, 3]` with and without them -/
example : (0 < (run (St.init 2) [.setEnabled [true, true], .sub 0, .frame 0 [⟨0, 1⟩]]).nextQ) ∧
    (∀ x ∈ [Op.sub 0, .sub 1, .subNeg 1, .unsub 1, .sub 7], foreignTo 0 x = true) ∧
    received (run (St.init 2) ([.setEnabled [true, true], .sub 0, .frame 0 [⟨0, 1⟩]] ++
      [.sub 0, .sub 1, .subNeg 1, .unsub 1, .sub 7] ++ [.frame 0 [⟨0, 2⟩, ⟨1, 9⟩], .frame 1 [⟨0, 3⟩]])) 0 = [1, 2, 3] ∧
    received (run (St.init 2) ([.setEnabled [true, true], .sub 0, .frame 0 [⟨0, 1⟩]] ++
      [.frame 0 [⟨0, 2⟩, ⟨1, 9⟩], .frame 1 [⟨0, 3⟩]])) 0 = [1, 2, 3] := by decide +kernel


/-! ### Round 7 additions — the same from any reachable state, and for every interleaving of the three threads -/

/-- `unsub_is_final` from any state that refines a specification state -/
theorem unsub_is_final_inv {n : Nat} {s : St} {sp : Spec} (hI : Inv n s sp) (post : List Op) (q : Nat)
    (hq : q < s.nextQ) : received (run s (.unsub q :: post)) q = received s q := by
  rw [(inv_run (.unsub q :: post) hI).rcv q, hI.rcv q]
  rw [hI.nextQ] at hq
  have h : sp.qs[q]? = some sp.qs[q] := List.getElem?_eq_getElem hq
  obtain ⟨s1, d1, h1, _, hn1, hd1⟩ := specStep_at sp (.unsub q) q _ h
  have hs1 : s1 = none := hn1 rfl
  have hd1' : d1 = [] := by
    rcases hd1 with hd1 | ⟨c, _, hd1⟩
    · exact hd1
    · exact hd1
  subst hs1 hd1'
  obtain ⟨s2, d2, h2, _, hn2, _⟩ := specRun_at (specStep sp (.unsub q)) post q _ h1
  have hd2 : d2 = [] := hn2 rfl
  subst hd2
  show ((specRun (specStep sp (.unsub q)) post).qs[q]?.map (·.got)).getD [] = _
  rw [h2, h]
  simp

/-- `received_prefix_mono` from any state that refines a specification state -/
theorem received_prefix_mono_inv {n : Nat} {s : St} {sp : Spec} (hI : Inv n s sp) (post : List Op) (q : Nat) :
    received s q <+: received (run s post) q := by
  rw [(inv_run post hI).rcv q, hI.rcv q]
  cases h : sp.qs[q]? with
  | none => exact List.nil_prefix
  | some e =>
    obtain ⟨s2, d2, h2, _, _, _⟩ := specRun_at sp post q e h
    rw [h2]
    exact ⟨d2, rfl⟩

theorem sys_inv (en : List Bool) (evs : List Ev) :
    Inv en.length (sysRun (Sys.init en) evs).fan (specRun (Spec.initEn en) (sysOps (Sys.init en) evs)) := by
  rw [sys_fan_is_run]; exact inv_reach_en en _

/-- UNSUBSCRIPTION IS FINAL, THREE THREADS: after any history `pre` of receive thread, stream thread and
    application (device enable vector `en` at connect), once `stream_unsub(q)` of an existing queue has
    held the queue lock, no continuation `post` — frames still waiting in `_q_stream` or arriving later
    and processed in any interleaving, `stream_stop`/`stream_start`, other subscriptions, enable
    changes — puts anything on `q`.  Quantifier: all `en`, all event histories `pre`, `post`, all
    existing `q`. -/
theorem sys_unsub_is_final (en : List Bool) (pre post : List Ev) (q : Nat)
    (hq : q < (sysRun (Sys.init en) pre).fan.nextQ) :
    received (sysRun (Sys.init en) (pre ++ [.unsub q] ++ post)).fan q
      = received (sysRun (Sys.init en) pre).fan q := by
  have hI := sys_inv en pre
  rw [List.append_assoc, sysRun_append]
  generalize sysRun (Sys.init en) pre = s0 at *
  rw [show [Ev.unsub q] ++ post = .unsub q :: post from rfl, sysRun, sys_fan_is_run, sysStep_fan]
  show received (run (run s0.fan [.unsub q]) _) q = _
  rw [← run_append]
  exact unsub_is_final_inv hI _ q hq

/-- QUEUES ONLY GROW AT THE END, THREE THREADS: for every interleaving, what a queue held at some moment
    is a prefix of what it holds at any later moment.  Quantifier: all `en`, all event histories. -/
theorem sys_received_prefix_mono (en : List Bool) (pre post : List Ev) (q : Nat) :
    received (sysRun (Sys.init en) pre).fan q <+: received (sysRun (Sys.init en) (pre ++ post)).fan q := by
  have hI := sys_inv en pre
  rw [sysRun_append]
  generalize sysRun (Sys.init en) pre = s0 at *
  rw [sys_fan_is_run]
  exact received_prefix_mono_inv hI _ q

/-- instance (`sys_unsub_is_final`): a frame is still waiting in `_q_stream` when queue 0 is
    unsubscribed; it is processed afterwards and reaches queue 1 only -/
example : let pre : List Ev := [.start, .sub 0, .sub 0, .arrive (.frame 0 [⟨0, 1⟩]), .iter, .arrive (.frame 0 [⟨0, 2⟩])]
    let post : List Ev := [.iter, .stop, .arrive (.frame 0 [⟨0, 3⟩]), .start, .iter]
    (0 < (sysRun (Sys.init [true]) pre).fan.nextQ) ∧
    received (sysRun (Sys.init [true]) (pre ++ [.unsub 0] ++ post)).fan 0 = [1] ∧
    received (sysRun (Sys.init [true]) (pre ++ [.unsub 0] ++ post)).fan 1 = [1, 2, 3] := by decide +kernel


/-! ### Round 7 additions — every subscriber of a channel gets the same -/

theorem qspec_eta (e : QSpec) (c : Nat) (he : e.sub = some c) : e = ⟨some c, e.got ++ []⟩ := by
  cases e with
  | mk s g => simp only at he; rw [he, List.append_nil]

theorem qFrame_of_sub (en : List Bool) (ss : List Smp) (e : QSpec) (c : Nat) (he : e.sub = some c) :
    qFrame en ss e = ⟨some c, e.got ++ group en ss c⟩ := by
  have h1 := qFrame_sub en ss e
  have h2 := qFrame_got en ss e
  rw [he] at h1 h2
  cases hr : qFrame en ss e with
  | mk s g => rw [hr] at h1 h2; simp only at h1 h2; rw [h1, h2]

/-- what an op appends to a queue subscribed to `c` does not depend on the queue -/
theorem qStep_delta (en : List Bool) (dead : Bool) (op : Op) (c : Nat) :
    ∃ d, ∀ q e, e.sub = some c → op ≠ .unsub q → qStep en dead op q e = ⟨some c, e.got ++ d⟩ := by
  cases op with
  | frame fl ss =>
    by_cases h : dead = true
    · exact ⟨[], fun q e he _ => by simp only [qStep]; rw [if_pos h]; exact qspec_eta e c he⟩
    · by_cases hb : ss.any (fun x => x.chan ≥ en.length) = true
      · exact ⟨[], fun q e he _ => by simp only [qStep]; rw [if_neg h, if_pos hb]; exact qspec_eta e c he⟩
      · exact ⟨group en ss c, fun q e he _ => by
          simp only [qStep]; rw [if_neg h, if_neg hb]; exact qFrame_of_sub en ss e c he⟩
  | unsub k =>
    exact ⟨[], fun q e he hne => by
      have hk : ¬ q = k := fun hqk => hne (by rw [hqk])
      simp only [qStep]; rw [if_neg hk]; exact qspec_eta e c he⟩
  | badFrame => exact ⟨[], fun q e he _ => qspec_eta e c he⟩
  | sub ch => exact ⟨[], fun q e he _ => qspec_eta e c he⟩
  | subNeg k => exact ⟨[], fun q e he _ => qspec_eta e c he⟩
  | setEnabled v => exact ⟨[], fun q e he _ => qspec_eta e c he⟩
  | restart => exact ⟨[], fun q e he _ => qspec_eta e c he⟩

theorem specRun_delta (sp : Spec) (post : List Op) (c : Nat) :
    ∃ d, ∀ q e, sp.qs[q]? = some e → e.sub = some c → (∀ op ∈ post, op ≠ .unsub q) →
      (specRun sp post).qs[q]? = some ⟨some c, e.got ++ d⟩ := by
  induction post generalizing sp with
  | nil => exact ⟨[], fun q e h he _ => by rw [specRun, h, ← qspec_eta e c he]⟩
  | cons op r ih =>
    obtain ⟨d1, h1⟩ := qStep_delta sp.enabled sp.dead op c
    obtain ⟨d2, h2⟩ := ih (specStep sp op)
    refine ⟨d1 ++ d2, fun q e h he hno => ?_⟩
    have g := specStep_getElem sp op q e h
    rw [h1 q e he (hno op List.mem_cons_self)] at g
    rw [specRun, h2 q _ g rfl (fun o ho => hno o (List.mem_cons_of_mem _ ho)), List.append_assoc]

/-- EVERY SUBSCRIBER OF THE CHANNEL GETS THE SAME: over any history `post` whatsoever (rejected frames,
    restarts, the channel disabled and re-enabled, other queues subscribing and unsubscribing), all
    queues that are subscribed to channel `c` at its start and are not unsubscribed during it
    receive ONE AND THE SAME run `d` of samples, appended to what each held before — no subscriber
    of a channel is ever served differently from another ("to every subscriber of that channel").
    Quantifier: all `n`, all `c < n`, all histories `pre`, `post`; `d` is chosen before the queue. -/
theorem same_channel_same_delivery (n : Nat) (pre post : List Op) (c : Nat) (hc : c < n) :
    ∃ d, ∀ q, q ∈ (run (St.init n) pre).subs.getD c [] → (∀ op ∈ post, op ≠ .unsub q) →
      received (run (St.init n) (pre ++ post)) q = received (run (St.init n) pre) q ++ d := by
  obtain ⟨d, hd⟩ := specRun_delta (specRun (Spec.init n) pre) post c
  refine ⟨d, fun q hq hno => ?_⟩
  have hs := (subs_agree n pre c q hc).mp hq
  rw [queue_is_run, queue_is_run, specRun_append]
  cases h : (specRun (Spec.init n) pre).qs[q]? with
  | none => rw [h] at hs; cases hs
  | some e =>
    rw [h] at hs
    have he : e.sub = some c := hs
    rw [hd q e h he hno]
    rfl

/-- instance: queues 0 and 2 listen to channel 0 (queue 1 to channel 1); `post` contains a rejected
    frame, a restart, a disable / enable of channel 0 and an unsubscription of queue 1: queues 0 and 2
    both get `d = [5, 8]` appended -/
example : let pre : List Op := [.setEnabled [true, true], .sub 0, .sub 1, .frame 0 [⟨0, 1⟩], .sub 0]
    let post : List Op := [.frame 0 [⟨0, 5⟩, ⟨1, 6⟩], .unsub 1, .badFrame, .frame 0 [⟨0, 6⟩], .restart,
      .setEnabled [false, true], .frame 0 [⟨0, 7⟩], .setEnabled [true, true], .frame 1 [⟨0, 8⟩]]
    (run (St.init 2) pre).subs.getD 0 [] = [0, 2] ∧
    (∀ op ∈ post, op ≠ .unsub 0 ∧ op ≠ .unsub 2) ∧
    received (run (St.init 2) pre) 0 = [1] ∧ received (run (St.init 2) pre) 2 = [] ∧
    received (run (St.init 2) (pre ++ post)) 0 = [1] ++ [5, 8] ∧
    received (run (St.init 2) (pre ++ post)) 2 = [] ++ [5, 8] := by decide +kernel


/-! ### Round 7 additions — flags and empty frames do not disturb delivery, over whole histories -/

/-- the history with every frame's flags byte (overflow flag included) cleared -/
def clearFlags : Op → Op
  | .frame _ ss => .frame 0 ss
  | o => o

theorem specStep_clearFlags (sp : Spec) (op : Op) : specStep sp (clearFlags op) = specStep sp op := by
  cases op <;> rfl

theorem specRun_clearFlags (sp : Spec) (ops : List Op) : specRun sp (ops.map clearFlags) = specRun sp ops := by
  induction ops generalizing sp with
  | nil => rfl
  | cons op r ih => rw [List.map_cons, specRun, specRun, specStep_clearFlags, ih]

/-- THE FLAGS BYTE NEVER DISTURBS DELIVERY: setting or clearing the overflow flag (any flags value) on
    any frames of any history changes no queue's content and not whether the stream thread survives
    (`empty_frames_neutral` is about one frame without relevant samples; this is every frame, with
    samples, for the whole future).  Quantifier: all `n`, all histories, all queues. -/
theorem flags_irrelevant (n : Nat) (ops : List Op) (q : Nat) :
    received (run (St.init n) (ops.map clearFlags)) q = received (run (St.init n) ops) q ∧
    (run (St.init n) (ops.map clearFlags)).dead = (run (St.init n) ops).dead := by
  rw [queue_is_run, queue_is_run, (inv_reach n _).dead, (inv_reach n ops).dead, specRun_clearFlags]
  exact ⟨rfl, rfl⟩

theorem qFrame_nil (en : List Bool) (e : QSpec) : qFrame en [] e = e := by
  cases e with
  | mk s g =>
    cases s with
    | none => rfl
    | some c => simp [qFrame]

theorem specStep_empty_frame (sp : Spec) (fl : Nat) : specStep sp (.frame fl []) = sp := by
  rcases Bool.eq_false_or_eq_true sp.dead with hd | hd
  · exact specStep_frame_dead fl [] hd
  · rw [specStep_frame_good fl [] hd rfl]
    have : qFrame sp.enabled [] = id := funext (qFrame_nil _)
    rw [this, List.map_id]

def isEmptyFrame : Op → Bool
  | .frame _ [] => true
  | _ => false

theorem specRun_filter_empty (sp : Spec) (ops : List Op) :
    specRun sp (ops.filter (fun o => !isEmptyFrame o)) = specRun sp ops := by
  induction ops generalizing sp with
  | nil => rfl
  | cons op r ih =>
    cases op with
    | frame fl ss =>
      cases ss with
      | nil => rw [List.filter_cons_of_neg (by simp [isEmptyFrame]), specRun, specStep_empty_frame, ih]
      | cons x xs => rw [List.filter_cons_of_pos (by simp [isEmptyFrame]), specRun, specRun, ih]
    | badFrame => rw [List.filter_cons_of_pos (by simp [isEmptyFrame]), specRun, specRun, ih]
    | sub ch => rw [List.filter_cons_of_pos (by simp [isEmptyFrame]), specRun, specRun, ih]
    | subNeg k => rw [List.filter_cons_of_pos (by simp [isEmptyFrame]), specRun, specRun, ih]
    | unsub k => rw [List.filter_cons_of_pos (by simp [isEmptyFrame]), specRun, specRun, ih]
    | setEnabled v => rw [List.filter_cons_of_pos (by simp [isEmptyFrame]), specRun, specRun, ih]
    | restart => rw [List.filter_cons_of_pos (by simp [isEmptyFrame]), specRun, specRun, ih]

/-- FRAMES WITHOUT SAMPLES ARE INVISIBLE (F9 over whole histories): deleting every sample-less stream
    frame (with or without overflow flag) from any history changes no queue's content and not whether
    the stream thread is alive.  Quantifier: all `n`, all histories, all queues. -/
theorem empty_frames_removable (n : Nat) (ops : List Op) (q : Nat) :
    received (run (St.init n) (ops.filter (fun o => !isEmptyFrame o))) q = received (run (St.init n) ops) q ∧
    (run (St.init n) (ops.filter (fun o => !isEmptyFrame o))).dead = (run (St.init n) ops).dead := by
  rw [queue_is_run, queue_is_run, (inv_reach n _).dead, (inv_reach n ops).dead, specRun_filter_empty]
  exact ⟨rfl, rfl⟩

example : ([Op.setEnabled [true], .sub 0, .frame 1 [], .frame 1 [⟨0, 4⟩], .frame 0 [], .frame 3 [⟨0, 5⟩]].map clearFlags
      = [.setEnabled [true], .sub 0, .frame 0 [], .frame 0 [⟨0, 4⟩], .frame 0 [], .frame 0 [⟨0, 5⟩]]) ∧
    ([Op.setEnabled [true], .sub 0, .frame 1 [], .frame 1 [⟨0, 4⟩], .frame 0 [], .frame 3 [⟨0, 5⟩]].filter
      (fun o => !isEmptyFrame o) = [.setEnabled [true], .sub 0, .frame 1 [⟨0, 4⟩], .frame 3 [⟨0, 5⟩]]) ∧
    received (run (St.init 1) [.setEnabled [true], .sub 0, .frame 1 [], .frame 1 [⟨0, 4⟩], .frame 0 [],
      .frame 3 [⟨0, 5⟩]]) 0 = [4, 5] := by decide +kernel


/-! ### Round 7 additions — complete delivery while other queues subscribe / unsubscribe -/

theorem spec_delivery_mixed (n c q : Nat) (post : List Op) (sp : Spec) (g : List Nat)
    (hlen : sp.enabled.length = n) (hen : sp.enabled.getD c false = true) (hd : sp.dead = false)
    (hq : sp.qs[q]? = some ⟨some c, g⟩)
    (hpost : ∀ op ∈ post, op.wfFrame n = true ∨ foreignTo q op = true) :
    (specRun sp post).qs[q]? = some ⟨some c, g ++ post.flatMap (Op.samplesOf c)⟩ ∧
      (specRun sp post).dead = false := by
  induction post generalizing sp g with
  | nil => simp [specRun, hq, hd]
  | cons op r ih =>
    have hr : ∀ o ∈ r, o.wfFrame n = true ∨ foreignTo q o = true :=
      fun o ho => hpost o (List.mem_cons_of_mem _ ho)
    rw [specRun, List.flatMap_cons, ← List.append_assoc]
    rcases hpost op List.mem_cons_self with hw | hf
    · cases op with
      | frame fl ss =>
        have hb : ss.any (fun x => x.chan ≥ sp.enabled.length) = false := by
          rw [hlen]; apply any_ge_false_of_lt; simpa [Op.wfFrame] using hw
        have hstep := specStep_frame_good fl ss hd hb
        refine ih (specStep sp (.frame fl ss)) _ (by rw [hstep]; exact hlen) (by rw [hstep]; exact hen)
          (by rw [hstep]; exact hd) ?_ hr
        rw [specStep_getElem sp _ q _ hq]
        simp only [qStep]
        rw [if_neg (by simp [hd]), if_neg (by simp [hb]), qFrame_of_sub _ _ _ c rfl, group_eq, if_pos hen]
        rfl
      | badFrame => cases hw
      | sub ch => cases hw
      | subNeg k => cases hw
      | unsub k => cases hw
      | setEnabled v => cases hw
      | restart => cases hw
    · obtain ⟨a, b, c'⟩ := specStep_foreign sp op q _ hq hf
      have hs : Op.samplesOf c op = [] := by
        cases op <;> first | rfl | cases hf
      rw [hs, List.append_nil]
      exact ih _ g (by rw [a]; exact hlen) (by rw [a]; exact hen) (by rw [b]; exact hd) c' hr

/-- COMPLETE DELIVERY WHILE OTHERS SUBSCRIBE AND UNSUBSCRIBE ("subscribe / unsubscribe while
    streaming"): `run_since_subscription` with `post` allowed to interleave the well-formed frames with
    any `stream_sub` calls (any channel, negative or invalid index) and `stream_unsub` calls of OTHER
    queues: the new subscriber of the enabled channel `c` still receives exactly the `c`-samples of all
    frames of `post`, each once, in order, and the stream thread stays alive.
    Quantifier: all `n`, `c < n`, all histories `pre`, all such `post`. -/
theorem delivery_with_concurrent_subscribers (n : Nat) (pre post : List Op) (c : Nat) (hc : c < n)
    (hen : (run (St.init n) pre).enabled.getD c false = true)
    (hdead : (run (St.init n) pre).dead = false)
    (hpost : ∀ op ∈ post, op.wfFrame n = true ∨ foreignTo (run (St.init n) pre).nextQ op = true) :
    received (run (St.init n) (pre ++ [.sub c] ++ post)) (run (St.init n) pre).nextQ
      = post.flatMap (Op.samplesOf c) ∧
    (run (St.init n) (pre ++ [.sub c] ++ post)).dead = false := by
  have hI := inv_reach n pre
  rw [queue_is_run, (inv_reach n _).dead, specRun_append, specRun_append]
  rw [hI.nextQ] at hpost ⊢
  rw [hI.en] at hen
  rw [hI.dead] at hdead
  have hlen : (specRun (Spec.init n) pre).enabled.length = n := by rw [← hI.en]; exact hI.enLen
  generalize specRun (Spec.init n) pre = sp at hlen hen hdead hpost
  have hsp : specRun sp [.sub c] = { sp with qs := sp.qs ++ [⟨some c, []⟩] } := by
    show specStep sp (.sub c) = _
    rw [specStep, if_pos (by rw [hlen]; exact hc)]
  have h1 : (specRun sp [.sub c]).qs[sp.qs.length]? = some ⟨some c, []⟩ := by
    rw [hsp]; exact List.getElem?_concat_length
  obtain ⟨h2, h3⟩ := spec_delivery_mixed n c _ post (specRun sp [.sub c]) []
    (by rw [hsp]; exact hlen) (by rw [hsp]; exact hen) (by rw [hsp]; exact hdead) h1 hpost
  rw [h2, h3]
  simp

/-- instance: after queue 0 subscribed to channel 0, queue 1 subscribes to channel 0 and leaves again,
    queue 2 subscribes to channel 1, an invalid subscription is attempted — between the frames -/
example : let pre : List Op := [.setEnabled [true, true]]
    let post : List Op := [.frame 0 [⟨0, 1⟩, ⟨1, 2⟩], .sub 0, .frame 1 [⟨0, 3⟩], .unsub 1, .sub 1, .sub 9,
      .frame 0 [⟨1, 4⟩, ⟨0, 5⟩]]
    (run (St.init 2) pre).enabled.getD 0 false = true ∧ (run (St.init 2) pre).dead = false ∧
    (∀ op ∈ post, op.wfFrame 2 = true ∨ foreignTo (run (St.init 2) pre).nextQ op = true) ∧
    received (run (St.init 2) (pre ++ [.sub 0] ++ post)) 0 = [1, 3, 5] := by decide +kernel


/-! ### Round 7 additions — a channel the client has not enabled stays silent, over whole histories -/

theorem specStep_enabled_of_ne (sp : Spec) (op : Op) (h : ∀ v, op ≠ .setEnabled v) :
    (specStep sp op).enabled = sp.enabled := by
  cases op with
  | setEnabled v => exact absurd rfl (h v)
  | frame fl ss =>
    simp only [specStep]
    split
    · rfl
    · split <;> rfl
  | badFrame => rfl
  | sub ch => simp only [specStep]; split <;> rfl
  | subNeg k => simp only [specStep]; split <;> rfl
  | unsub k => rfl
  | restart => rfl

theorem qStep_disabled (en : List Bool) (dead : Bool) (op : Op) (q : Nat) (e : QSpec) (c : Nat)
    (hen : en.getD c false = false) (he : e.sub = some c ∨ e.sub = none) :
    (qStep en dead op q e).got = e.got ∧
      ((qStep en dead op q e).sub = some c ∨ (qStep en dead op q e).sub = none) := by
  have hqf : ∀ ss, qFrame en ss e = e := by
    intro ss
    unfold qFrame
    rcases he with he | he
    · rw [he]
      show (if en.getD c false = true then _ else e) = e
      rw [if_neg (by rw [hen]; exact Bool.false_ne_true)]
    · rw [he]
  cases op with
  | frame fl ss =>
    simp only [qStep]
    split
    · exact ⟨rfl, he⟩
    · split
      · exact ⟨rfl, he⟩
      · rw [hqf]; exact ⟨rfl, he⟩
  | unsub k =>
    simp only [qStep]
    split
    · exact ⟨rfl, .inr rfl⟩
    · exact ⟨rfl, he⟩
  | badFrame => exact ⟨rfl, he⟩
  | sub ch => exact ⟨rfl, he⟩
  | subNeg k => exact ⟨rfl, he⟩
  | setEnabled v => exact ⟨rfl, he⟩
  | restart => exact ⟨rfl, he⟩

theorem specRun_disabled (sp : Spec) (post : List Op) (q : Nat) (e : QSpec) (c : Nat)
    (hen : sp.enabled.getD c false = false) (h : sp.qs[q]? = some e)
    (he : e.sub = some c ∨ e.sub = none) (hpost : ∀ op ∈ post, ∀ v, op ≠ .setEnabled v) :
    (specRun sp post).qs[q]?.map (·.got) = some e.got := by
  induction post generalizing sp e with
  | nil => rw [specRun, h]; rfl
  | cons op r ih =>
    have g := specStep_getElem sp op q e h
    obtain ⟨a, b⟩ := qStep_disabled sp.enabled sp.dead op q e c hen he
    rw [specRun, ih (specStep sp op) _
      (by rw [specStep_enabled_of_ne sp op (hpost op List.mem_cons_self)]; exact hen) g b
      (fun o ho => hpost o (List.mem_cons_of_mem _ ho)), a]

/-- NOTHING FOR CHANNELS THE CLIENT HAS NOT ENABLED, over whole histories: a queue subscribed to a
    channel that is not enabled at that moment stays EMPTY for as long as no `channels_write` assigns
    the enable vector — whatever the device sends for that channel (a device that streams a channel the
    client believes disabled), whoever else subscribes, through thread death and restart.
    (`no_leak` is the one-frame statement.)  Quantifier: all `n`, `c < n`, all `pre`, all `post` without
    `setEnabled`. -/
theorem disabled_channel_silent (n : Nat) (pre post : List Op) (c : Nat) (hc : c < n)
    (hen : (run (St.init n) pre).enabled.getD c false = false)
    (hpost : ∀ op ∈ post, ∀ v, op ≠ .setEnabled v) :
    received (run (St.init n) (pre ++ [.sub c] ++ post)) (run (St.init n) pre).nextQ = [] := by
  have hI := inv_reach n pre
  rw [queue_is_run, specRun_append, specRun_append, hI.nextQ]
  rw [hI.en] at hen
  have hlen : (specRun (Spec.init n) pre).enabled.length = n := by rw [← hI.en]; exact hI.enLen
  generalize specRun (Spec.init n) pre = sp at hlen hen
  have hsp : specRun sp [.sub c] = { sp with qs := sp.qs ++ [⟨some c, []⟩] } := by
    show specStep sp (.sub c) = _
    rw [specStep, if_pos (by rw [hlen]; exact hc)]
  have h1 : (specRun sp [.sub c]).qs[sp.qs.length]? = some ⟨some c, []⟩ := by
    rw [hsp]; exact List.getElem?_concat_length
  rw [specRun_disabled (specRun sp [.sub c]) post _ _ c (by rw [hsp]; exact hen) h1 (.inl rfl) hpost]
  rfl

/-- instance: channel 1 of a 2-channel device is not enabled; the device streams it anyway -/
example : (run (St.init 2) [.setEnabled [true, false]]).enabled.getD 1 false = false ∧
    (∀ op ∈ [Op.frame 0 [⟨1, 1⟩, ⟨0, 2⟩], .sub 1, .frame 1 [⟨1, 3⟩], .badFrame, .restart, .frame 0 [⟨1, 4⟩]],
      ∀ v, op ≠ .setEnabled v) ∧
    received (run (St.init 2) ([.setEnabled [true, false]] ++ [.sub 1] ++
      [.frame 0 [⟨1, 1⟩, ⟨0, 2⟩], .sub 1, .frame 1 [⟨1, 3⟩], .badFrame, .restart, .frame 0 [⟨1, 4⟩]])) 0 = [] := by
  refine ⟨by decide, ?_, by decide +kernel⟩
  intro op hop v hv
  subst hv
  simp at hop


end Nxs.C08
