/-
  C08 — stream samples reach every subscriber exactly once and in device order.
  Property theorems only (helper lemmas in Lemmas/Fanout.lean)
  `Fanout.lean` is organised like the code (per channel: list of subscribed queues; a frame is
  fanned out channel by channel).  The specification below is organised per queue and is as simple
  as possible: a queue is subscribed to at most one channel and, for every frame processed while it
  is subscribed and the channel is enabled, receives that frame's samples of the channel, in order.
-/
import NxsModel.Route
import NxsModel.Gen.CfgShape
import NxsModel.Fanout
import NxsModel.Lemmas.Fanout
namespace Nxs.C08
open Nxs Nxs.Fanout

/-- per-queue specification state: the channel the queue is currently subscribed to, what it got -/
structure QSpec where
  sub : Option Nat
  got : List Nat
  deriving DecidableEq, Repr

structure Spec where
  enabled : List Bool
  qs : List QSpec           -- index = queue id (order of subscription)
  deriving DecidableEq, Repr

def Spec.init (n : Nat) : Spec := ⟨List.replicate n false, []⟩

def specStep (s : Spec) : Op → Spec
  | .frame _ ss =>
    if ss.any (fun x => x.chan ≥ s.enabled.length) then s
    else { s with qs := s.qs.map fun q =>
      match q.sub with
      | some c => if s.enabled.getD c false then { q with got := q.got ++ (ss.filter (·.chan = c)).map (·.val) } else q
      | none => q }
  | .sub ch => if ch < s.enabled.length then { s with qs := s.qs ++ [⟨some ch, []⟩] } else s
  | .unsub k => { s with qs := s.qs.mapIdx fun i q => if i = k then { q with sub := none } else q }
  | .setEnabled v => if v.length = s.enabled.length then { s with enabled := v } else s

def specRun (s : Spec) : List Op → Spec
  | [] => s
  | op :: r => specRun (specStep s op) r

/-! ### proofs

Spec-dependent helper lemmas (the specification is defined in this file, so they cannot live in
`Lemmas/Fanout.lean`).  The property theorems follow below under "property theorems". -/
section Proofs

/-- what a frame does to one queue of the specification -/
def qFrame (en : List Bool) (ss : List Smp) (q : QSpec) : QSpec :=
  match q.sub with
  | some c => if en.getD c false then { q with got := q.got ++ (ss.filter (·.chan = c)).map (·.val) } else q
  | none => q

theorem specStep_frame (sp : Spec) (fl : Nat) (ss : List Smp) :
    specStep sp (.frame fl ss) =
      if ss.any (fun x => x.chan ≥ sp.enabled.length) then sp
      else { sp with qs := sp.qs.map (qFrame sp.enabled ss) } := rfl

theorem qFrame_sub (en : List Bool) (ss : List Smp) (q : QSpec) : (qFrame en ss q).sub = q.sub := by
  unfold qFrame
  split
  · split <;> rfl
  · rfl

theorem qFrame_got (en : List Bool) (ss : List Smp) (q : QSpec) :
    (qFrame en ss q).got = q.got ++ (match q.sub with | some c => group en ss c | none => []) := by
  unfold qFrame
  split
  · rename_i c hc
    rw [group_eq]
    split <;> simp
  · simp

theorem specRun_append (sp : Spec) (a b : List Op) : specRun sp (a ++ b) = specRun (specRun sp a) b := by
  induction a generalizing sp with
  | nil => rfl
  | cons op r ih => exact ih _

/-- the refinement invariant between the code-shaped model and the per-queue specification -/
structure Inv (n : Nat) (s : St) (sp : Spec) : Prop where
  en : s.enabled = sp.enabled
  enLen : s.enabled.length = n
  subsLen : s.subs.length = n
  nextQ : s.nextQ = sp.qs.length
  ids : s.queues.map (·.1) = List.range s.nextQ
  cnt : ∀ c, c < n → ∀ q,
    (s.subs.getD c []).count q = if sp.qs[q]?.bind (·.sub) = some c then 1 else 0
  rcv : ∀ q, received s q = (sp.qs[q]?.map (·.got)).getD []

theorem inv_init (n : Nat) : Inv n (St.init n) (Spec.init n) where
  en := rfl
  enLen := by simp [St.init]
  subsLen := by simp [St.init]
  nextQ := rfl
  ids := rfl
  cnt := by
    intro c hc q
    simp [St.init, Spec.init, List.getD_eq_getElem?_getD, hc]
  rcv := by intro q; simp [received, St.init, Spec.init]

theorem inv_frame {n : Nat} {s s' : St} {sp : Spec} {fl : Nat} {ss : List Smp} (hI : Inv n s sp)
    (h : step s (.frame fl ss) = .ok s') : Inv n s' (specStep sp (.frame fl ss)) := by
  obtain ⟨hany, rfl⟩ := step_frame_ok h
  have hsp : specStep sp (.frame fl ss) = { sp with qs := sp.qs.map (qFrame sp.enabled ss) } := by
    rw [specStep_frame, ← hI.en, hany]; rfl
  rw [hsp]
  refine ⟨hI.en, hI.enLen, hI.subsLen, ?_, ?_, ?_, ?_⟩
  · show s.nextQ = (sp.qs.map _).length
    rw [List.length_map]; exact hI.nextQ
  · show (fanout _ _ _ _ _ _).map (·.1) = _
    rw [fanout_map_fst]; exact hI.ids
  · intro c hc q
    show (s.subs.getD c []).count q
      = if (sp.qs.map (qFrame sp.enabled ss))[q]?.bind QSpec.sub = some c then 1 else 0
    rw [hI.cnt c hc q, List.getElem?_map]
    cases sp.qs[q]? with
    | none => rfl
    | some qe => simp only [Option.map_some, Option.bind_some, qFrame_sub]
  · intro q
    show _ = ((sp.qs.map (qFrame sp.enabled ss))[q]?.map QSpec.got).getD []
    rw [List.getElem?_map]
    have hr := hI.rcv q
    have hcnt := fun c hc => hI.cnt c hc q
    rw [← hI.en]
    cases hq : sp.qs[q]? with
    | none =>
      rw [hq] at hr hcnt
      rw [received_fanout_of_nil s _ ss q rfl, hr]; rfl
      rw [extra_eq_nil]; rfl
      intro c' _ h2
      right
      rw [hI.enLen] at h2
      rw [hcnt c' (by omega)]; rfl
    | some qe =>
      rw [hq] at hr hcnt
      have hmem : q ∈ s.queues.map (·.1) := by
        rw [hI.ids, List.mem_range, hI.nextQ]
        exact (List.getElem?_eq_some_iff.mp hq).1
      rw [received_fanout_of_mem s _ ss q rfl hmem, hr]
      simp only [Option.map_some, Option.getD_some, qFrame_got]
      congr 1
      simp only [Option.bind_some] at hcnt
      cases hsub : qe.sub with
      | none =>
        simp only [hsub] at hcnt
        rw [extra_eq_nil]; rfl
        intro c' _ h2
        right
        rw [hI.enLen] at h2
        rw [hcnt c' (by omega)]; rfl
      | some c =>
        simp only [hsub] at hcnt
        rw [extra_flatten_unique _ _ _ _ _ _ c]
        · show (if 0 ≤ c ∧ c < 0 + s.enabled.length then group s.enabled ss c else []) = group s.enabled ss c
          by_cases hc : c < s.enabled.length
          · rw [if_pos ⟨Nat.zero_le _, by omega⟩]
          · rw [if_neg (by omega), group_eq]
            have : s.enabled.getD c false = false := by
              rw [List.getD_eq_getElem?_getD, List.getElem?_eq_none (by omega)]; rfl
            rw [this]; rfl
        · intro c' _ h2
          rw [hI.enLen] at h2
          rw [hcnt c' (by omega)]
          by_cases hcc : c' = c
          · subst hcc; simp
          · have : ¬ c = c' := fun x => hcc x.symm
            simp [hcc, this]

theorem inv_sub {n : Nat} {s s' : St} {sp : Spec} {ch : Nat} (hI : Inv n s sp)
    (h : step s (.sub ch) = .ok s') : Inv n s' (specStep sp (.sub ch)) := by
  rw [step] at h
  by_cases hc : ch < s.subs.length
  · rw [if_pos hc] at h
    injection h with h; subst h
    have hc' : ch < sp.enabled.length := by rw [← hI.en, hI.enLen, ← hI.subsLen]; exact hc
    have hsp : specStep sp (.sub ch) = { sp with qs := sp.qs ++ [⟨some ch, []⟩] } := by
      rw [specStep, if_pos hc']
    rw [hsp]
    refine ⟨hI.en, hI.enLen, ?_, ?_, ?_, ?_, ?_⟩
    · show (s.subs.set _ _).length = n
      rw [List.length_set]; exact hI.subsLen
    · show s.nextQ + 1 = (sp.qs ++ [_]).length
      simp [hI.nextQ]
    · show (s.queues ++ [(s.nextQ, [])]).map Prod.fst = List.range (s.nextQ + 1)
      simp [List.range_succ, hI.ids]
    · intro c hcn q
      show ((s.subs.set ch (s.subs.getD ch [] ++ [s.nextQ])).getD c []).count q
        = if (sp.qs ++ [⟨some ch, []⟩])[q]?.bind QSpec.sub = some c then 1 else 0
      have hcnt := hI.cnt c hcn q
      have hnq := hI.nextQ
      have hget : (s.subs.set ch (s.subs.getD ch [] ++ [s.nextQ])).getD c []
          = if ch = c then s.subs.getD ch [] ++ [s.nextQ] else s.subs.getD c [] := by
        simp only [List.getD_eq_getElem?_getD, List.getElem?_set, hc, if_true]
        split <;> rfl
      rw [hget]
      rcases Nat.lt_trichotomy q sp.qs.length with hlt | heq | hgt
      · rw [List.getElem?_append_left hlt, ← hcnt]
        by_cases hcc : ch = c
        · subst hcc
          have : ¬ s.nextQ = q := by omega
          simp [List.count_append, this]
        · simp [hcc]
      · subst heq
        rw [List.getElem?_concat_length]
        rw [List.getElem?_eq_none (Nat.le_refl _)] at hcnt
        simp only [Option.bind_none, reduceCtorEq, if_false, List.getD_eq_getElem?_getD] at hcnt
        by_cases hcc : ch = c
        · subst hcc
          simp [List.count_append, hcnt, hnq]
        · simp [hcc, hcnt]
      · rw [List.getElem?_append_right (by omega)]
        rw [List.getElem?_eq_none (by omega)] at hcnt
        simp only [Option.bind_none, reduceCtorEq, if_false, List.getD_eq_getElem?_getD] at hcnt
        have h1 : ([({ sub := some ch, got := [] } : QSpec)])[q - sp.qs.length]? = none := by
          apply List.getElem?_eq_none; simp; omega
        rw [h1]
        by_cases hcc : ch = c
        · subst hcc
          have : ¬ s.nextQ = q := by omega
          simp [List.count_append, hcnt, this]
        · simp [hcc, hcnt]
    · intro q
      show _ = ((sp.qs ++ [⟨some ch, []⟩])[q]?.map QSpec.got).getD []
      rw [received_append_empty s _ s.nextQ q rfl, hI.rcv q]
      rcases Nat.lt_trichotomy q sp.qs.length with hlt | heq | hgt
      · rw [List.getElem?_append_left hlt]
      · subst heq
        rw [List.getElem?_concat_length, List.getElem?_eq_none (Nat.le_refl _)]; rfl
      · rw [List.getElem?_append_right (by omega), List.getElem?_eq_none (by omega)]
        have h1 : ([({ sub := some ch, got := [] } : QSpec)])[q - sp.qs.length]? = none := by
          apply List.getElem?_eq_none; simp; omega
        rw [h1]
  · rw [if_neg hc] at h; cases h

theorem inv_unsub {n : Nat} {s s' : St} {sp : Spec} {k : Nat} (hI : Inv n s sp)
    (h : step s (.unsub k) = .ok s') : Inv n s' (specStep sp (.unsub k)) := by
  rw [step] at h
  injection h with h; subst h
  have hsp : specStep sp (.unsub k)
      = { sp with qs := sp.qs.mapIdx fun i q => if i = k then { q with sub := none } else q } := rfl
  rw [hsp]
  refine ⟨hI.en, hI.enLen, ?_, ?_, hI.ids, ?_, ?_⟩
  · show (s.subs.map _).length = n
    rw [List.length_map]; exact hI.subsLen
  · show s.nextQ = (sp.qs.mapIdx _).length
    rw [List.length_mapIdx]; exact hI.nextQ
  · intro c hcn q
    show ((s.subs.map fun l => l.erase k).getD c []).count q
      = if (sp.qs.mapIdx _)[q]?.bind QSpec.sub = some c then 1 else 0
    have hcnt := hI.cnt c hcn q
    have hget : (s.subs.map fun l => l.erase k).getD c [] = (s.subs.getD c []).erase k := by
      simp only [List.getD_eq_getElem?_getD, List.getElem?_map]
      cases s.subs[c]? <;> rfl
    rw [hget, List.count_erase, hcnt, List.getElem?_mapIdx]
    cases sp.qs[q]? with
    | none => simp
    | some qe =>
      by_cases hqk : q = k
      · subst hqk; simp; split <;> rfl
      · have : ¬ k = q := fun x => hqk x.symm
        simp [hqk, this]
  · intro q
    show received s q = ((sp.qs.mapIdx _)[q]?.map QSpec.got).getD []
    rw [hI.rcv q, List.getElem?_mapIdx]
    cases sp.qs[q]? with
    | none => rfl
    | some qe =>
      by_cases hqk : q = k <;> simp [hqk]

theorem inv_setEnabled {n : Nat} {s s' : St} {sp : Spec} {v : List Bool} (hI : Inv n s sp)
    (h : step s (.setEnabled v) = .ok s') : Inv n s' (specStep sp (.setEnabled v)) := by
  rw [step] at h
  by_cases hc : v.length = s.enabled.length
  · rw [if_pos hc] at h
    injection h with h; subst h
    have hc' : v.length = sp.enabled.length := by rw [← hI.en]; exact hc
    have hsp : specStep sp (.setEnabled v) = { sp with enabled := v } := by
      rw [specStep, if_pos hc']
    rw [hsp]
    exact ⟨rfl, hc.trans hI.enLen, hI.subsLen, hI.nextQ, hI.ids, hI.cnt, hI.rcv⟩
  · rw [if_neg hc] at h; cases h

theorem inv_step_ok {n : Nat} {s s' : St} {sp : Spec} {op : Op} (hI : Inv n s sp)
    (h : step s op = .ok s') : Inv n s' (specStep sp op) := by
  cases op with
  | frame fl ss => exact inv_frame hI h
  | sub ch => exact inv_sub hI h
  | unsub k => exact inv_unsub hI h
  | setEnabled v => exact inv_setEnabled hI h

/-- the model call fails exactly when the specification ignores the op -/
theorem specStep_of_error {n : Nat} {s : St} {sp : Spec} {op : Op} {e : Err} (hI : Inv n s sp)
    (h : step s op = .error e) : specStep sp op = sp := by
  cases op with
  | frame fl ss =>
    rw [step] at h
    by_cases hg : ss.any (fun x => x.chan ≥ s.enabled.length) = true
    · rw [specStep_frame, ← hI.en, if_pos hg]
    · rw [if_neg hg] at h; cases h
  | sub ch =>
    rw [step] at h
    by_cases hc : ch < s.subs.length
    · rw [if_pos hc] at h; cases h
    · have hc' : ¬ ch < sp.enabled.length := by rw [← hI.en, hI.enLen, ← hI.subsLen]; exact hc
      rw [specStep, if_neg hc']
  | unsub k => rw [step] at h; cases h
  | setEnabled v =>
    rw [step] at h
    by_cases hc : v.length = s.enabled.length
    · rw [if_pos hc] at h; cases h
    · have hc' : ¬ v.length = sp.enabled.length := by rw [← hI.en]; exact hc
      rw [specStep, if_neg hc']

theorem inv_run {n : Nat} (ops : List Op) {s : St} {sp : Spec} (hI : Inv n s sp) :
    Inv n (run s ops) (specRun sp ops) := by
  induction ops generalizing s sp with
  | nil => exact hI
  | cons op r ih =>
    rw [run, specRun]
    cases h : step s op with
    | ok s' => exact ih (inv_step_ok hI h)
    | error e => rw [specStep_of_error hI h]; exact ih hI

theorem inv_reach (n : Nat) (ops : List Op) : Inv n (run (St.init n) ops) (specRun (Spec.init n) ops) :=
  inv_run ops (inv_init n)

/-- specification only: a queue subscribed to an enabled channel `c` accumulates the `c`-samples of
    a run of well-formed frames -/
theorem spec_frames_aux (n c q : Nat) (F : Op → List Nat)
    (hF : ∀ fl ss, F (.frame fl ss) = (ss.filter (·.chan = c)).map (·.val))
    (post : List Op) (sp : Spec) (g : List Nat)
    (hlen : sp.enabled.length = n) (hen : sp.enabled.getD c false = true)
    (hq : sp.qs[q]? = some ⟨some c, g⟩)
    (hpost : ∀ op ∈ post, ∃ fl ss, op = .frame fl ss ∧ ∀ x ∈ ss, x.chan < n) :
    (specRun sp post).qs[q]? = some ⟨some c, g ++ post.flatMap F⟩ := by
  induction post generalizing sp g with
  | nil => simpa [specRun] using hq
  | cons op r ih =>
    obtain ⟨fl, ss, rfl, hss⟩ := hpost _ List.mem_cons_self
    have hany : ss.any (fun x => x.chan ≥ sp.enabled.length) = false := by
      rw [List.any_eq_false]
      intro x hx
      have := hss x hx
      simp only [decide_eq_true_eq]; omega
    have hsp : specStep sp (.frame fl ss) = { sp with qs := sp.qs.map (qFrame sp.enabled ss) } := by
      rw [specStep_frame, hany]; rfl
    rw [specRun, hsp, List.flatMap_cons, hF, ← List.append_assoc]
    apply ih
    · exact hlen
    · exact hen
    · show (sp.qs.map _)[q]? = _
      rw [List.getElem?_map, hq]
      show some (if sp.enabled.getD c false = true then _ else _) = _
      rw [if_pos hen]
    · intro op hop; exact hpost op (List.mem_cons_of_mem _ hop)

theorem spec_frames (n c q : Nat) (F : Op → List Nat)
    (hF : ∀ fl ss, F (.frame fl ss) = (ss.filter (·.chan = c)).map (·.val))
    (post : List Op) (sp : Spec)
    (hlen : sp.enabled.length = n) (hen : sp.enabled.getD c false = true)
    (hq : sp.qs[q]? = some ⟨some c, []⟩)
    (hpost : ∀ op ∈ post, ∃ fl ss, op = .frame fl ss ∧ ∀ x ∈ ss, x.chan < n) :
    ((specRun sp post).qs[q]?.map (·.got)).getD [] = post.flatMap F := by
  rw [spec_frames_aux n c q F hF post sp [] hlen hen hq hpost]; rfl

end Proofs

/-! ### property theorems -/

/-- every subscriber queue holds exactly what the per-queue specification says: for every history
    of frames, subscriptions, unsubscriptions and enable changes, and every queue -/
theorem queue_is_run (n : Nat) (ops : List Op) (q : Nat) :
    received (run (St.init n) ops) q = ((specRun (Spec.init n) ops).qs[q]?.map (·.got)).getD [] :=
  (inv_reach n ops).rcv q

/-- the code's subscriber lists and the specification's subscriptions agree: queue `q` is in the
    list of channel `c` exactly when the specification has it subscribed to `c` -/
theorem subs_agree (n : Nat) (ops : List Op) (c q : Nat) (hc : c < n) :
    q ∈ (run (St.init n) ops).subs.getD c [] ↔ ((specRun (Spec.init n) ops).qs[q]?.bind (·.sub)) = some c := by
  rw [← List.count_pos_iff, (inv_reach n ops).cnt c hc q]
  split <;> simp_all

/-- gap-free, duplicate-free, in order: a queue subscribed to channel `c` by the last op of `pre`,
    never unsubscribed afterwards, while `c` stays enabled and no call fails, has received exactly
    the samples of `c` of all later frames, in order -/
theorem run_since_subscription (n : Nat) (pre post : List Op) (c : Nat) (hc : c < n)
    (hen : ((specRun (Spec.init n) (pre ++ [.sub c])).enabled.getD c false) = true)
    (hpost : ∀ op ∈ post, ∃ fl ss, op = .frame fl ss ∧ ∀ x ∈ ss, x.chan < n) :
    let q := (run (St.init n) pre).nextQ
    received (run (St.init n) (pre ++ [.sub c] ++ post)) q =
      post.flatMap fun op => match op with
        | .frame _ ss => (ss.filter (·.chan = c)).map (·.val)
        | _ => [] := by
  intro q
  have hI := inv_reach n pre
  rw [queue_is_run, List.append_assoc, specRun_append, specRun_append]
  rw [specRun_append] at hen
  have hc' : c < (specRun (Spec.init n) pre).enabled.length := by rw [← hI.en, hI.enLen]; exact hc
  have hsp : specRun (specRun (Spec.init n) pre) [.sub c]
      = { specRun (Spec.init n) pre with qs := (specRun (Spec.init n) pre).qs ++ [⟨some c, []⟩] } := by
    rw [specRun, specRun, specStep, if_pos hc']
  rw [hsp] at hen ⊢
  refine spec_frames n c q _ ?hF post _ (by rw [← hI.en]; exact hI.enLen) hen
    (by show (_ ++ [_])[q]? = _
        rw [show q = (specRun (Spec.init n) pre).qs.length from hI.nextQ]
        exact List.getElem?_concat_length) hpost
  intro _ _; rfl

/-- nothing is delivered for other channels, to unsubscribed queues, or for channels the client has
    not enabled: a frame leaves queue `q` untouched unless `q` is subscribed to an enabled channel
    of which the frame carries a sample (in particular: always, when `q` is subscribed nowhere) -/
theorem no_leak (s : St) (fl : Nat) (ss : List Smp) (s' : St) (q : Nat) (h : step s (.frame fl ss) = .ok s')
    (hq : ∀ c, q ∈ s.subs.getD c [] → (s.enabled.getD c false = false ∨ ∀ x ∈ ss, x.chan ≠ c)) :
    received s' q = received s q := by
  obtain ⟨_, rfl⟩ := step_frame_ok h
  apply received_fanout_of_nil s _ ss q rfl
  rw [extra_eq_nil]; rfl
  intro c _ _
  by_cases hm : q ∈ s.subs.getD c []
  · exact Or.inl (group_isEmpty_of _ _ _ (hq c hm))
  · exact Or.inr (List.count_eq_zero.mpr hm)

/-- frames that carry no samples, only samples of channels nobody listens to, or the overflow flag do
    not disturb delivery: no error, queues unchanged -/
theorem empty_frames_neutral (s : St) (fl : Nat) (ss : List Smp)
    (hfor : ∀ x ∈ ss, x.chan < s.enabled.length ∧ (s.subs.getD x.chan [] = [] ∨ s.enabled.getD x.chan false = false)) :
    ∃ s', step s (.frame fl ss) = .ok s' ∧ s'.queues = s.queues ∧ s'.subs = s.subs := by
  refine ⟨_, step_frame_of_lt s fl ss (fun x hx => (hfor x hx).1), ?_, rfl⟩
  apply fanout_eq_self
  intro c
  cases hg : (group s.enabled ss c).isEmpty with
  | true => exact Or.inl rfl
  | false =>
    obtain ⟨he, x, hx, rfl⟩ := exists_of_group_nonempty _ _ _ hg
    rcases (hfor x hx).2 with h | h
    · exact Or.inr h
    · rw [h] at he; cases he

/-- never an empty group -/
theorem groups_nonempty (n : Nat) (ops : List Op) :
    ∀ e ∈ (run (St.init n) ops).queues, ∀ g ∈ e.2, g ≠ [] :=
  groupsNonempty_run _ ops (groupsNonempty_init n)

/-- the single receive thread preserves FIFO order end to end: the stream queue holds exactly the
    STREAM frames, in arrival order, and the response queue everything else in arrival order (ACKs are
    dropped only while no device description is known) -/
theorem route_fifo (hasDev : Bool) (frs : List Serial.Frame) :
    (Route.queues hasDev frs).2 = frs.filter (fun f => f.fid = Gen.Ids.idSTREAM) ∧
    (Route.queues hasDev frs).1 =
      frs.filter (fun f => f.fid ≠ Gen.Ids.idSTREAM ∧ ¬ (hasDev = false ∧ f.fid = Gen.Ids.idACK)) := by
  have hne : Gen.Ids.idACK ≠ Gen.Ids.idSTREAM := by decide
  induction frs with
  | nil => simp [Route.queues]
  | cons fr r ih =>
    obtain ⟨ih1, ih2⟩ := ih
    have hq : Route.queues hasDev (fr :: r) =
        (match Route.dest hasDev fr with
          | .stream => ((Route.queues hasDev r).1, fr :: (Route.queues hasDev r).2)
          | .resp => (fr :: (Route.queues hasDev r).1, (Route.queues hasDev r).2)
          | .dropped => ((Route.queues hasDev r).1, (Route.queues hasDev r).2)) := rfl
    rw [hq]
    by_cases h1 : fr.fid = Gen.Ids.idSTREAM
    · have hd : Route.dest hasDev fr = .stream := by simp [Route.dest, h1]
      rw [hd]
      simp [List.filter_cons, h1, ih1, ih2]
    · by_cases h2 : hasDev = false ∧ fr.fid = Gen.Ids.idACK
      · have hd : Route.dest hasDev fr = .dropped := by simp [Route.dest, h2.1, h2.2, hne]
        rw [hd]
        obtain ⟨ha, hb⟩ := h2
        subst ha
        simp [List.filter_cons, hb, hne, ih1, ih2]
      · have hd : Route.dest hasDev fr = .resp := by
          unfold Route.dest
          rw [if_neg h1]
          have : (!hasDev && decide (fr.fid = Gen.Ids.idACK)) = false := by
            cases hasDev <;> simp_all
          rw [this]; rfl
        rw [hd]
        simp [List.filter_cons, h1, h2, ih1, ih2]

/-- the fan-out code that `Fanout.lean` transcribes is present in the current source (regenerated
    facts): the stream thread groups the samples of enabled channels and puts each group on every queue
    of its channel under the queue lock; sub/unsub edit the subscriber lists under the same lock; the
    single receive thread routes stream frames to the stream queue in arrival order -/
theorem source_shape :
    Gen.CfgShape.fanoutShape = true ∧ Gen.CfgShape.subUnsubShape = true ∧
    Gen.CfgShape.recvRouteShape = true := by decide

example : received (run (St.init 3) [.sub 1, .sub 1, .sub 0, .setEnabled [true, true, false],
    .frame 0 [⟨1, 0⟩, ⟨0, 1⟩, ⟨1, 2⟩, ⟨2, 3⟩], .unsub 0, .frame 1 [⟨1, 4⟩], .frame 0 []]) 1 = [0, 2, 4] := by
  decide +kernel

end Nxs.C08
