/-
  C05 — every client request means at the device exactly what the caller asked for.
  Property theorems only (helper lemmas in Lemmas/).
  Spec encodings are written out by hand here from the NxScope protocol:
    start [b] · cmninfo [] · chinfo [c] · set single [0,c,v] · all [2,0,v] · bulk 1 :: 0 :: vs
-/
import NxsModel.Requests
import NxsModel.Spec.Wire
import NxsModel.Lemmas.Serial
import NxsModel.Lemmas.Requests
namespace Nxs.C05
open Nxs Nxs.Spec Nxs.Requests

def byte (n : Nat) : Byte := BitVec.ofNat 8 n
def b2n (b : Bool) : Nat := if b then 1 else 0

/-- NxScope set-request payloads -/
def specSingle (c v : Nat) : Bytes := [0, byte c, byte v]
def specAll (v : Nat) : Bytes := [2, 0, byte v]
def specBulk (vs : List Nat) : Bytes := 1 :: 0 :: vs.map byte

/-- the payload the protocol prescribes for a full-vector request: ALL when every entry is equal, else BULK -/
def specVec (vs : List Nat) : Bytes :=
  match vs with
  | [] => []
  | v :: _ => if allSame vs then specAll v else specBulk vs

/-! ### the bytes emitted are the NxScope encoding -/

theorem req_bytes_start (b : Bool) : frameStart b = .ok (wire 5 [byte (b2n b)]) := frameStart_eq b
theorem req_bytes_cmninfo : frameCmninfo = .ok (wire 2 []) := frameCmninfo_eq
theorem req_bytes_chinfo (c : Nat) (hc : c ≤ 255) : frameChinfo c = .ok (wire 3 [byte c]) := frameChinfo_eq c hc

theorem req_bytes_en_single (n c : Nat) (v : Bool) (hc : c < n) (hn : n ≤ 255) :
    frameEnable (.single c v) n = .ok (wire 6 (specSingle c (b2n v))) := frameEnable_single n c v hc hn

theorem req_bytes_en_vec (n : Nat) (vs : List Bool) (hl : vs.length = n) (h1 : 1 ≤ n) (hn : n ≤ 255) :
    frameEnable (.vec vs) n = .ok (wire 6 (specVec (vs.map b2n))) := by
  match vs, hl with
  | [], hl => simp at hl; omega
  | v :: vs, hl =>
    have hsv : specVec ((v :: vs).map b2n) = if allSame ((v :: vs).map b2n) then specAll (b2n v)
        else specBulk ((v :: vs).map b2n) := rfl
    rw [hsv, allSame_map b2n (fun a b h => by cases a <;> cases b <;> first | rfl | cases h)]
    by_cases hs : allSame (v :: vs) = true
    · rw [if_pos hs]; exact frameEnable_vec_all n v vs hl hs
    · rw [if_neg hs, specBulk, List.map_map]
      exact frameEnable_vec_bulk n (v :: vs) hl h1 hn ((Bool.not_eq_true _).mp hs)

theorem req_bytes_div_single (n c v : Nat) (hc : c < n) (hn : n ≤ 255) (hv : v ≤ 255) :
    frameDiv (.single c v) n = .ok (wire 7 (specSingle c v)) := frameDiv_single n c v hc hn hv

theorem req_bytes_div_vec (n : Nat) (vs : List Nat) (hl : vs.length = n) (h1 : 1 ≤ n) (hn : n ≤ 255)
    (hv : ∀ v ∈ vs, v ≤ 255) :
    frameDiv (.vec (vs.map Int.ofNat)) n = .ok (wire 7 (specVec vs)) := by
  match vs, hl, hv with
  | [], hl, _ => simp at hl; omega
  | v :: vs, hl, hv =>
    have hsv : specVec (v :: vs) = if allSame (v :: vs) then specAll v else specBulk (v :: vs) := rfl
    by_cases hs : allSame (v :: vs) = true
    · rw [hsv, if_pos hs]; exact frameDiv_vec_all n v vs hl (hv v (by simp)) hs
    · rw [hsv, if_neg hs]; exact frameDiv_vec_bulk n (v :: vs) hl h1 hn hv ((Bool.not_eq_true _).mp hs)

/-! ### the device-side decoder recovers exactly the intended channel, flag or 8-bit value -/

theorem dev_decode_start (b : Bool) : frameStartDecode [byte (b2n b)] = .ok b := frameStartDecode_bit b

theorem dev_decode_en_single (n c : Nat) (v : Bool) (cur : List Bool) (hcur : cur.length = n) (hc : c < n)
    (hn : n ≤ 255) : frameEnableDecode (specSingle c (b2n v)) n cur = .ok (cur.set c v) := enDecode_single n c v cur hcur hc hn

theorem dev_decode_en_all (n : Nat) (v : Bool) (cur : List Bool) :
    frameEnableDecode (specAll (b2n v)) n cur = .ok (List.replicate n v) := enDecode_all n v cur

theorem dev_decode_en_bulk (n : Nat) (vs cur : List Bool) (hl : vs.length = n) :
    frameEnableDecode (specBulk (vs.map b2n)) n cur = .ok vs := by
  rw [specBulk, List.map_map]; exact enDecode_bulk n vs cur hl

/-- dividers are 8-bit unsigned: every value 0..255 is recovered as itself -/
theorem dev_decode_div_single (n c v : Nat) (cur : List Int) (hcur : cur.length = n) (hc : c < n)
    (hn : n ≤ 255) (hv : v ≤ 255) : frameDivDecode (specSingle c v) n cur = .ok (cur.set c (v : Int)) := divDecode_single n c v cur hcur hc hn hv

theorem dev_decode_div_all (n v : Nat) (cur : List Int) (hv : v ≤ 255) :
    frameDivDecode (specAll v) n cur = .ok (List.replicate n (v : Int)) := divDecode_all n v cur hv

theorem dev_decode_div_bulk (n : Nat) (vs : List Nat) (cur : List Int) (hl : vs.length = n)
    (hv : ∀ v ∈ vs, v ≤ 255) : frameDivDecode (specBulk vs) n cur = .ok (vs.map Int.ofNat) := divDecode_bulk n vs cur hl hv

/-! ### whichever compact form the client picks, the device derives the intended state -/

/-- a full-vector enable request (sent as ALL or BULK) makes the device state equal the vector -/
theorem en_forms_agree (n : Nat) (vs cur : List Bool) (hl : vs.length = n) (h1 : 1 ≤ n) (hn : n ≤ 255) :
    ∃ payload, frameEnable (.vec vs) n = .ok (wire 6 payload) ∧
      frameEnableDecode payload n cur = .ok vs := by
  refine ⟨_, req_bytes_en_vec n vs hl h1 hn, ?_⟩
  match vs, hl with
  | [], hl => simp at hl; omega
  | v :: vs, hl =>
    have hsv : specVec ((v :: vs).map b2n) = if allSame ((v :: vs).map b2n) then specAll (b2n v)
        else specBulk ((v :: vs).map b2n) := rfl
    rw [hsv, allSame_map b2n (fun a b h => by cases a <;> cases b <;> first | rfl | cases h)]
    by_cases hs : allSame (v :: vs) = true
    · rw [if_pos hs, dev_decode_en_all, allSame_eq_replicate v vs hs, ← hl]; rfl
    · rw [if_neg hs]; exact dev_decode_en_bulk n (v :: vs) cur hl

/-- a single-channel enable request changes exactly that channel -/
theorem en_single_agrees (n c : Nat) (v : Bool) (cur : List Bool) (hcur : cur.length = n) (hc : c < n)
    (hn : n ≤ 255) :
    ∃ payload, frameEnable (.single c v) n = .ok (wire 6 payload) ∧
      frameEnableDecode payload n cur = .ok (cur.set c v) := 
  ⟨_, req_bytes_en_single n c v hc hn, dev_decode_en_single n c v cur hcur hc hn⟩

theorem div_forms_agree (n : Nat) (vs : List Nat) (cur : List Int) (hl : vs.length = n) (h1 : 1 ≤ n)
    (hn : n ≤ 255) (hv : ∀ v ∈ vs, v ≤ 255) :
    ∃ payload, frameDiv (.vec (vs.map Int.ofNat)) n = .ok (wire 7 payload) ∧
      frameDivDecode payload n cur = .ok (vs.map Int.ofNat) := by
  refine ⟨_, req_bytes_div_vec n vs hl h1 hn hv, ?_⟩
  match vs, hl, hv with
  | [], hl, _ => simp at hl; omega
  | v :: vs, hl, hv =>
    have hsv : specVec (v :: vs) = if allSame (v :: vs) then specAll v else specBulk (v :: vs) := rfl
    by_cases hs : allSame (v :: vs) = true
    · rw [hsv, if_pos hs, dev_decode_div_all n v cur (hv v (by simp)), allSame_eq_replicate v vs hs, ← hl]
      simp
    · rw [hsv, if_neg hs]; exact dev_decode_div_bulk n (v :: vs) cur hl hv

theorem div_single_agrees (n c v : Nat) (cur : List Int) (hcur : cur.length = n) (hc : c < n)
    (hn : n ≤ 255) (hv : v ≤ 255) :
    ∃ payload, frameDiv (.single c v) n = .ok (wire 7 payload) ∧
      frameDivDecode payload n cur = .ok (cur.set c (v : Int)) := 
  ⟨_, req_bytes_div_single n c v hc hn hv, dev_decode_div_single n c v cur hcur hc hn hv⟩

/-- non-vacuity -/
example : frameDiv (.single 3 200) 8 = .ok (wire 7 [0, 3, 200]) := by decide +kernel
example : frameDivDecode [0, 3, 200] 8 [0,0,0,0,0,0,0,0] = .ok [0,0,0,200,0,0,0,0] := by decide +kernel

end Nxs.C05
