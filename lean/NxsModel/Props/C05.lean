/-
  C05 — every client request means at the device exactly what the caller asked for.
  Property theorems only (helper lemmas in Lemmas/).
  Spec encodings are written out by hand here from the NxScope protocol:
    start [b] · cmninfo [] · chinfo [c] · set single [0,c,v] · all [2,0,v] · bulk 1 :: 0 :: vs
  Assumption (typing of the API, second review R4-B-LOW): an enable vector is a `list[bool]` of REAL
  bools — `Ask` / `SetReq Bool` / `List Bool` below cannot express anything else, and the
  correspondence cases pass real bools only.  `Parser.frame_enable` tests `enable[c] is True`, so a
  vector of ints is outside the statements: `frame_enable([1,0,1], 3)` emits the bulk request
  `01 00 00 00 00` (every channel OFF) while `[1,1,1]` emits ALL=1 (every channel ON); the meaning of
  an int-valued vector depends on the form that is picked.  Known behaviour of /repo, not covered.
  The device side of the histories (`devRun`) is what `intf/dummy.py::DummyDev._enable_cb/_div_cb` do
  (decode against the device's current vectors, store per channel); the check executes that file
  itself in the `sess dummy` sessions (real CommHandler against the real DummyDev).
-/
import NxsModel.Requests
import NxsModel.ReqSession
import NxsModel.Spec.Wire
import NxsModel.Lemmas.Serial
import NxsModel.Lemmas.Requests
import NxsModel.Pad
import NxsModel.Dispatch
namespace Nxs.C05
open Nxs Nxs.Spec Nxs.Requests

def byte (n : Nat) : Byte := BitVec.ofNat 8 n
def b2n (b : Bool) : Nat := if b then 1 else 0

/-- NxScope set-request payloads -/
def specSingle (c v : Nat) : Bytes := [0, byte c, byte v]
def specAll (v : Nat) : Bytes := [2, 0, byte v]
def specBulk (vs : List Nat) : Bytes := 1 :: 0 :: vs.map byte

/-- the payload the protocol prescribes for a full-vector request: ALL when every entry is equal, else BULK -/
def specVec (vs : List Nat) : Bytes :=
  match vs with
  | [] => []
  | v :: _ => if allSame vs then specAll v else specBulk vs

/-! ### the bytes emitted are the NxScope encoding -/

theorem req_bytes_start (b : Bool) : frameStart b = .ok (wire 5 [byte (b2n b)]) := frameStart_eq b
theorem req_bytes_cmninfo : frameCmninfo = .ok (wire 2 []) := frameCmninfo_eq
theorem req_bytes_chinfo (c : Nat) (hc : c ≤ 255) : frameChinfo c = .ok (wire 3 [byte c]) := frameChinfo_eq c hc

theorem req_bytes_en_single (n c : Nat) (v : Bool) (hc : c < n) (hn : n ≤ 255) :
    frameEnable (.single c v) n = .ok (wire 6 (specSingle c (b2n v))) := frameEnable_single n c v hc hn

theorem req_bytes_en_vec (n : Nat) (vs : List Bool) (hl : vs.length = n) (h1 : 1 ≤ n) (hn : n ≤ 255) :
    frameEnable (.vec vs) n = .ok (wire 6 (specVec (vs.map b2n))) := by
  match vs, hl with
  | [], hl => simp at hl; omega
  | v :: vs, hl =>
    have hsv : specVec ((v :: vs).map b2n) = if allSame ((v :: vs).map b2n) then specAll (b2n v)
        else specBulk ((v :: vs).map b2n) := rfl
    rw [hsv, allSame_map b2n (fun a b h => by cases a <;> cases b <;> first | rfl | cases h)]
    by_cases hs : allSame (v :: vs) = true
    · rw [if_pos hs]; exact frameEnable_vec_all n v vs hl hs
    · rw [if_neg hs, specBulk, List.map_map]
      exact frameEnable_vec_bulk n (v :: vs) hl h1 hn ((Bool.not_eq_true _).mp hs)

theorem req_bytes_div_single (n c v : Nat) (hc : c < n) (hn : n ≤ 255) (hv : v ≤ 255) :
    frameDiv (.single c v) n = .ok (wire 7 (specSingle c v)) := frameDiv_single n c v hc hn hv

theorem req_bytes_div_vec (n : Nat) (vs : List Nat) (hl : vs.length = n) (h1 : 1 ≤ n) (hn : n ≤ 255)
    (hv : ∀ v ∈ vs, v ≤ 255) :
    frameDiv (.vec (vs.map Int.ofNat)) n = .ok (wire 7 (specVec vs)) := by
  match vs, hl, hv with
  | [], hl, _ => simp at hl; omega
  | v :: vs, hl, hv =>
    have hsv : specVec (v :: vs) = if allSame (v :: vs) then specAll v else specBulk (v :: vs) := rfl
    by_cases hs : allSame (v :: vs) = true
    · rw [hsv, if_pos hs]; exact frameDiv_vec_all n v vs hl (hv v (by simp)) hs
    · rw [hsv, if_neg hs]; exact frameDiv_vec_bulk n (v :: vs) hl h1 hn hv ((Bool.not_eq_true _).mp hs)

/-! ### the device-side decoder recovers exactly the intended channel, flag or 8-bit value -/

theorem dev_decode_start (b : Bool) : frameStartDecode [byte (b2n b)] = .ok b := frameStartDecode_bit b

theorem dev_decode_en_single (n c : Nat) (v : Bool) (cur : List Bool) (hcur : cur.length = n) (hc : c < n)
    (hn : n ≤ 255) : frameEnableDecode (specSingle c (b2n v)) n cur = .ok (cur.set c v) := enDecode_single n c v cur hcur hc hn

theorem dev_decode_en_all (n : Nat) (v : Bool) (cur : List Bool) :
    frameEnableDecode (specAll (b2n v)) n cur = .ok (List.replicate n v) := enDecode_all n v cur

theorem dev_decode_en_bulk (n : Nat) (vs cur : List Bool) (hl : vs.length = n) :
    frameEnableDecode (specBulk (vs.map b2n)) n cur = .ok vs := by
  rw [specBulk, List.map_map]; exact enDecode_bulk n vs cur hl

/-- dividers are 8-bit unsigned: every value 0..255 is recovered as itself -/
theorem dev_decode_div_single (n c v : Nat) (cur : List Int) (hcur : cur.length = n) (hc : c < n)
    (hn : n ≤ 255) (hv : v ≤ 255) : frameDivDecode (specSingle c v) n cur = .ok (cur.set c (v : Int)) := divDecode_single n c v cur hcur hc hn hv

theorem dev_decode_div_all (n v : Nat) (cur : List Int) (hv : v ≤ 255) :
    frameDivDecode (specAll v) n cur = .ok (List.replicate n (v : Int)) := divDecode_all n v cur hv

theorem dev_decode_div_bulk (n : Nat) (vs : List Nat) (cur : List Int) (hl : vs.length = n)
    (hv : ∀ v ∈ vs, v ≤ 255) : frameDivDecode (specBulk vs) n cur = .ok (vs.map Int.ofNat) := divDecode_bulk n vs cur hl hv

/-! ### whichever compact form the client picks, the device derives the intended state -/

/-- a full-vector enable request (sent as ALL or BULK) makes the device state equal the vector -/
theorem en_forms_agree (n : Nat) (vs cur : List Bool) (hl : vs.length = n) (h1 : 1 ≤ n) (hn : n ≤ 255) :
    ∃ payload, frameEnable (.vec vs) n = .ok (wire 6 payload) ∧
      frameEnableDecode payload n cur = .ok vs := by
  refine ⟨_, req_bytes_en_vec n vs hl h1 hn, ?_⟩
  match vs, hl with
  | [], hl => simp at hl; omega
  | v :: vs, hl =>
    have hsv : specVec ((v :: vs).map b2n) = if allSame ((v :: vs).map b2n) then specAll (b2n v)
        else specBulk ((v :: vs).map b2n) := rfl
    rw [hsv, allSame_map b2n (fun a b h => by cases a <;> cases b <;> first | rfl | cases h)]
    by_cases hs : allSame (v :: vs) = true
    · rw [if_pos hs, dev_decode_en_all, allSame_eq_replicate v vs hs, ← hl]; rfl
    · rw [if_neg hs]; exact dev_decode_en_bulk n (v :: vs) cur hl

/-- a single-channel enable request changes exactly that channel -/
theorem en_single_agrees (n c : Nat) (v : Bool) (cur : List Bool) (hcur : cur.length = n) (hc : c < n)
    (hn : n ≤ 255) :
    ∃ payload, frameEnable (.single c v) n = .ok (wire 6 payload) ∧
      frameEnableDecode payload n cur = .ok (cur.set c v) := 
  ⟨_, req_bytes_en_single n c v hc hn, dev_decode_en_single n c v cur hcur hc hn⟩

theorem div_forms_agree (n : Nat) (vs : List Nat) (cur : List Int) (hl : vs.length = n) (h1 : 1 ≤ n)
    (hn : n ≤ 255) (hv : ∀ v ∈ vs, v ≤ 255) :
    ∃ payload, frameDiv (.vec (vs.map Int.ofNat)) n = .ok (wire 7 payload) ∧
      frameDivDecode payload n cur = .ok (vs.map Int.ofNat) := by
  refine ⟨_, req_bytes_div_vec n vs hl h1 hn hv, ?_⟩
  match vs, hl, hv with
  | [], hl, _ => simp at hl; omega
  | v :: vs, hl, hv =>
    have hsv : specVec (v :: vs) = if allSame (v :: vs) then specAll v else specBulk (v :: vs) := rfl
    by_cases hs : allSame (v :: vs) = true
    · rw [hsv, if_pos hs, dev_decode_div_all n v cur (hv v (by simp)), allSame_eq_replicate v vs hs, ← hl]
      simp
    · rw [hsv, if_neg hs]; exact dev_decode_div_bulk n (v :: vs) cur hl hv

theorem div_single_agrees (n c v : Nat) (cur : List Int) (hcur : cur.length = n) (hc : c < n)
    (hn : n ≤ 255) (hv : v ≤ 255) :
    ∃ payload, frameDiv (.single c v) n = .ok (wire 7 payload) ∧
      frameDivDecode payload n cur = .ok (cur.set c (v : Int)) := 
  ⟨_, req_bytes_div_single n c v hc hn hv, dev_decode_div_single n c v cur hcur hc hn hv⟩

/-! ### from the client's request BYTES through the frame layer and the dispatcher to the decoded value

  The `dev_decode_*` / `*_forms_agree` theorems above speak about the bare payload.  Here the whole
  device-side path is composed: the bytes the builder returned, written through the interface with ANY
  write padding `pad` (`Pad.dataAlign pad`, C17; `pad = 0` is the unpadded write), are handed to the
  device-side dispatcher `Dispatch.recvHandle` (`ParseRecv.recv_handle`, C02: header search, length and
  CRC validation, callback table); it fires exactly the matching callback (0 cmninfo · 1 chinfo · 2 enable ·
  3 div · 4 start) and the decoder that callback runs on the payload it was given returns what the caller
  asked for.  The common-info request has an empty payload (nothing to decode); for the channel-info
  request the device side has NO decoder function — the callback reads the channel id as payload byte 0
  (`intf/dummy.py::_chinfo_cb`: `data[0]`), so the statement is about that byte. -/

private theorem specVec_len (vs : List Nat) (h : vs ≠ []) :
    (specVec vs).length = 3 ∨ (specVec vs).length = vs.length + 2 := by
  cases vs with
  | nil => exact absurd rfl h
  | cons v vs =>
    have hsv : specVec (v :: vs) = if allSame (v :: vs) then specAll v else specBulk (v :: vs) := rfl
    rw [hsv]
    split
    · left; rfl
    · right; simp [specBulk]

private theorem en_vec_decodes (n : Nat) (vs cur : List Bool) (hl : vs.length = n) (h1 : 1 ≤ n) :
    frameEnableDecode (specVec (vs.map b2n)) n cur = .ok vs := by
  match vs, hl with
  | [], hl => simp at hl; omega
  | v :: vs, hl =>
    have hsv : specVec ((v :: vs).map b2n) = if allSame ((v :: vs).map b2n) then specAll (b2n v)
        else specBulk ((v :: vs).map b2n) := rfl
    rw [hsv, allSame_map b2n (fun a b h => by cases a <;> cases b <;> first | rfl | cases h)]
    by_cases hs : allSame (v :: vs) = true
    · rw [if_pos hs, dev_decode_en_all, allSame_eq_replicate v vs hs, ← hl]; rfl
    · rw [if_neg hs]; exact dev_decode_en_bulk n (v :: vs) cur hl

private theorem div_vec_decodes (n : Nat) (vs : List Nat) (cur : List Int) (hl : vs.length = n) (h1 : 1 ≤ n)
    (hv : ∀ v ∈ vs, v ≤ 255) : frameDivDecode (specVec vs) n cur = .ok (vs.map Int.ofNat) := by
  match vs, hl, hv with
  | [], hl, _ => simp at hl; omega
  | v :: vs, hl, hv =>
    have hsv : specVec (v :: vs) = if allSame (v :: vs) then specAll v else specBulk (v :: vs) := rfl
    by_cases hs : allSame (v :: vs) = true
    · rw [hsv, if_pos hs, dev_decode_div_all n v cur (hv v (by simp)), allSame_eq_replicate v vs hs, ← hl]
      simp
    · rw [hsv, if_neg hs]; exact dev_decode_div_bulk n (v :: vs) cur hl hv

theorem request_reaches_decoder_start (pad : Nat) (b : Bool) :
    ∃ f p, frameStart b = .ok f ∧ Dispatch.recvHandle (Pad.dataAlign pad f) = .fired 4 p ∧
      frameStartDecode p = .ok b :=
  ⟨_, _, req_bytes_start b, req_recvHandle_aligned pad 5 4 _ (by simp) (by omega) (req_cb_start _),
    dev_decode_start b⟩

theorem request_reaches_decoder_cmninfo (pad : Nat) :
    ∃ f, frameCmninfo = .ok f ∧ Dispatch.recvHandle (Pad.dataAlign pad f) = .fired 0 [] :=
  ⟨_, req_bytes_cmninfo, req_recvHandle_aligned pad 2 0 _ (by simp) (by omega) req_cb_cmninfo⟩

theorem request_reaches_decoder_chinfo (pad c : Nat) (hc : c ≤ 255) :
    ∃ f x, frameChinfo c = .ok f ∧ Dispatch.recvHandle (Pad.dataAlign pad f) = .fired 1 [x] ∧ x.toNat = c :=
  ⟨_, _, req_bytes_chinfo c hc, req_recvHandle_aligned pad 3 1 _ (by simp) (by omega) (req_cb_chinfo _),
    byte_toNat c hc⟩

theorem request_reaches_decoder_en_single (pad n c : Nat) (v : Bool) (cur : List Bool) (hcur : cur.length = n)
    (hc : c < n) (hn : n ≤ 255) :
    ∃ f p, frameEnable (.single c v) n = .ok f ∧ Dispatch.recvHandle (Pad.dataAlign pad f) = .fired 2 p ∧
      frameEnableDecode p n cur = .ok (cur.set c v) :=
  ⟨_, _, req_bytes_en_single n c v hc hn,
    req_recvHandle_aligned pad 6 2 _ (by simp [specSingle]) (by omega) (req_cb_enable _ (by simp [specSingle])),
    dev_decode_en_single n c v cur hcur hc hn⟩

theorem request_reaches_decoder_en_vec (pad n : Nat) (vs cur : List Bool) (hl : vs.length = n) (h1 : 1 ≤ n)
    (hn : n ≤ 255) :
    ∃ f p, frameEnable (.vec vs) n = .ok f ∧ Dispatch.recvHandle (Pad.dataAlign pad f) = .fired 2 p ∧
      frameEnableDecode p n cur = .ok vs := by
  have hne : vs.map b2n ≠ [] := by intro h; rw [List.map_eq_nil_iff] at h; subst h; simp at hl; omega
  have hlen := specVec_len (vs.map b2n) hne
  rw [List.length_map] at hlen
  refine ⟨_, _, req_bytes_en_vec n vs hl h1 hn,
    req_recvHandle_aligned pad 6 2 _ (by omega) (by omega) (req_cb_enable _ ?_), en_vec_decodes n vs cur hl h1⟩
  intro h; rw [h] at hlen; simp at hlen

theorem request_reaches_decoder_div_single (pad n c v : Nat) (cur : List Int) (hcur : cur.length = n)
    (hc : c < n) (hn : n ≤ 255) (hv : v ≤ 255) :
    ∃ f p, frameDiv (.single c v) n = .ok f ∧ Dispatch.recvHandle (Pad.dataAlign pad f) = .fired 3 p ∧
      frameDivDecode p n cur = .ok (cur.set c (v : Int)) :=
  ⟨_, _, req_bytes_div_single n c v hc hn hv,
    req_recvHandle_aligned pad 7 3 _ (by simp [specSingle]) (by omega) (req_cb_div _ (by simp [specSingle])),
    dev_decode_div_single n c v cur hcur hc hn hv⟩

theorem request_reaches_decoder_div_vec (pad n : Nat) (vs : List Nat) (cur : List Int) (hl : vs.length = n)
    (h1 : 1 ≤ n) (hn : n ≤ 255) (hv : ∀ v ∈ vs, v ≤ 255) :
    ∃ f p, frameDiv (.vec (vs.map Int.ofNat)) n = .ok f ∧
      Dispatch.recvHandle (Pad.dataAlign pad f) = .fired 3 p ∧
      frameDivDecode p n cur = .ok (vs.map Int.ofNat) := by
  have hne : vs ≠ [] := by intro h; subst h; simp at hl; omega
  have hlen := specVec_len vs hne
  refine ⟨_, _, req_bytes_div_vec n vs hl h1 hn hv,
    req_recvHandle_aligned pad 7 3 _ (by omega) (by omega) (req_cb_div _ ?_), div_vec_decodes n vs cur hl h1 hv⟩
  intro h; rw [h] at hlen; simp at hlen

/-! ### histories: one long-lived device, any sequence of requests in any mixture of forms

  `Requests.devRecv` is the device side as a whole (dispatcher → callback → decoder against the device's
  CURRENT vectors → per-channel writes, as `DummyDev._enable_cb/_div_cb` do on their one `Device` object).
  `Requests.session` lets the client build each request and the device receive it on that one state.  Whatever the
  sequence (single → bulk → single, single → all → single, …), after every request the device state is the
  state the caller asked for. -/

/-- the property's quantifier: channel id below the channel count, 8-bit dividers, full vectors -/
def Valid (n : Nat) : Ask → Prop
  | .enOne c _ => c < n
  | .enVec vs => vs.length = n
  | .divOne c v => c < n ∧ v ≤ 255
  | .divVec vs => vs.length = n ∧ ∀ v ∈ vs, v ≤ 255

/-- the state the caller intends (hand-written) -/
def intend (s : DevSt) : Ask → DevSt
  | .enOne c v => { s with en := s.en.set c v }
  | .enVec vs => { s with en := vs }
  | .divOne c v => { s with div := s.div.set c (v : Int) }
  | .divVec vs => { s with div := vs.map Int.ofNat }

/-- one request: the device's receive path ends in exactly the intended state, no error -/
theorem ask_reaches_device (n pad : Nat) (h1 : 1 ≤ n) (hn : n ≤ 255) (s : DevSt) (hen : s.en.length = n)
    (hdiv : s.div.length = n) (a : Ask) (ha : Valid n a) :
    ∃ f cb, a.build n = .ok f ∧ devRecv n s (Pad.dataAlign pad f) = (intend s a, .ok (some cb)) := by
  cases a with
  | enOne c v =>
    obtain ⟨f, p, hb, hd, hdec⟩ := request_reaches_decoder_en_single pad n c v s.en hen ha hn
    refine ⟨f, 2, hb, ?_⟩
    simp only [devRecv, hd, devApply, hdec, if_pos, Except.map, intend]
    rw [storeVec_full _ _ (by simp)]
  | enVec vs =>
    obtain ⟨f, p, hb, hd, hdec⟩ := request_reaches_decoder_en_vec pad n vs s.en ha h1 hn
    refine ⟨f, 2, hb, ?_⟩
    simp only [devRecv, hd, devApply, hdec, if_pos, Except.map, intend]
    rw [storeVec_full _ _ (by have : vs.length = n := ha; omega)]
  | divOne c v =>
    obtain ⟨f, p, hb, hd, hdec⟩ := request_reaches_decoder_div_single pad n c v s.div hdiv ha.1 hn ha.2
    refine ⟨f, 3, hb, ?_⟩
    simp only [devRecv, hd, devApply, hdec, Except.map, intend]
    rw [storeVec_full _ _ (by simp)]
    rfl
  | divVec vs =>
    obtain ⟨f, p, hb, hd, hdec⟩ := request_reaches_decoder_div_vec pad n vs s.div ha.1 h1 hn ha.2
    refine ⟨f, 3, hb, ?_⟩
    simp only [devRecv, hd, devApply, hdec, Except.map, intend]
    rw [storeVec_full _ _ (by have : vs.length = n := ha.1; simp; omega)]
    rfl

/-- the intended state keeps the vector lengths -/
theorem intend_lengths (n : Nat) (s : DevSt) (hen : s.en.length = n) (hdiv : s.div.length = n) (a : Ask)
    (ha : Valid n a) : (intend s a).en.length = n ∧ (intend s a).div.length = n := by
  cases a with
  | enOne c v => simp [intend, hen, hdiv]
  | enVec vs => exact ⟨ha, hdiv⟩
  | divOne c v => simp [intend, hen, hdiv]
  | divVec vs => exact ⟨hen, by simp [intend, ha.1]⟩

/-- any history of requests on one device object: the device ends in the state obtained by applying the
    callers' intentions one after the other — whichever compact form each request travelled in -/
theorem history_agrees (n pad : Nat) (h1 : 1 ≤ n) (hn : n ≤ 255) (asks : List Ask) :
    ∀ (s : DevSt), s.en.length = n → s.div.length = n → (∀ a ∈ asks, Valid n a) →
      session n pad s asks = .ok (asks.foldl intend s) := by
  induction asks with
  | nil => intro s _ _ _; rfl
  | cons a as ih =>
    intro s hen hdiv hv
    obtain ⟨f, cb, hb, hr⟩ := ask_reaches_device n pad h1 hn s hen hdiv a (hv a (by simp))
    obtain ⟨hen', hdiv'⟩ := intend_lengths n s hen hdiv a (hv a (by simp))
    simp only [session, hb, ok_bind, hr, List.foldl_cons]
    exact ih _ hen' hdiv' (fun b hb' => hv b (by simp [hb']))

/-- non-vacuity: the hypotheses of the `request_reaches_decoder_*` theorems at concrete points (upper half of the
    8-bit fields, write padding, a vector of non-zero unequal dividers) -/
example := request_reaches_decoder_chinfo 16 254 (by omega)
example := request_reaches_decoder_en_single 4 255 254 true (List.replicate 255 false) List.length_replicate (by omega) (by omega)
example := request_reaches_decoder_en_vec 4 3 [true, false, true] [false, false, false] rfl (by omega) (by omega)
example := request_reaches_decoder_div_single 16 255 200 255 (List.replicate 255 0) List.length_replicate (by omega) (by omega)
  (by omega)
example := request_reaches_decoder_div_vec 0 2 [7, 200] [0, 0] rfl (by omega) (by omega) (by decide)
example : session 2 0 ⟨[false, false], [0, 0]⟩ [.divVec [7, 200], .enOne 1 true] = .ok ⟨[false, true], [7, 200]⟩ :=
  history_agrees 2 0 (by omega) (by omega) _ _ rfl rfl (by
    intro a ha
    simp only [List.mem_cons, List.not_mem_nil, or_false] at ha
    rcases ha with rfl | rfl
    · exact ⟨rfl, by decide⟩
    · exact (by decide : 1 < 2))

/-- non-vacuity -/
example : Valid 3 (.divVec [200, 200, 7]) ∧ Valid 3 (.enOne 2 true) :=
  ⟨⟨rfl, by decide⟩, (by decide : 2 < 3)⟩
example : session 3 4 ⟨[true, false, false], [0, 9, 0]⟩
    [.enOne 1 true, .divVec [5, 6, 200], .enVec [false, true, true], .divOne 0 255, .enVec [true, true, true],
      .enOne 0 false] = .ok ⟨[false, true, true], [255, 6, 200]⟩ := by decide +kernel
example : (Requests.frameEnable (.vec [true, false, true]) 3).map
    (fun f => Dispatch.recvHandle (Pad.dataAlign 4 f)) = .ok (.fired 2 [1, 0, 1, 0, 1]) := by decide +kernel

/-- non-vacuity -/
example : frameDiv (.single 3 200) 8 = .ok (wire 7 [0, 3, 200]) := by decide +kernel
example : frameDivDecode [0, 3, 200] 8 [0,0,0,0,0,0,0,0] = .ok [0,0,0,200,0,0,0,0] := by decide +kernel

end Nxs.C05
