/-
  C05 — every client request means at the device exactly what the caller asked for.
  Property theorems only (helper lemmas in Lemmas/).
  Spec encodings are written out by hand here from the NxScope protocol:
    start [b] · cmninfo [] · chinfo [c] · set single [0,c,v] · all [2,0,v] · bulk 1 :: 0 :: vs
  Assumption (typing of the API, second review R4-B-LOW): an enable vector is a `list[bool]` of REAL
  bools — `Ask` / `SetReq Bool` / `List Bool` below cannot express anything else, and the
  correspondence cases pass real bools only.  `Parser.frame_enable` tests `enable[c] is True`, so a
  vector of ints is outside the statements: `frame_enable([1,0,1], 3)` emits the bulk request
  `01 00 00 00 00` (every channel OFF) while `[1,1,1]` emits ALL=1 (every channel ON); the meaning of
  an int-valued vector depends on the form that is picked.  Known behaviour of /repo, not covered.
  The device side of the histories (`devRun`) is what `intf/dummy.py::DummyDev._enable_cb/_div_cb` do
  (decode against the device's current vectors, store per channel); the check executes that file
  itself in the `sess dummy` sessions (real CommHandler against the real DummyDev).
-/
import NxsModel.Requests
import NxsModel.ReqSession
import NxsModel.Spec.Wire
import NxsModel.Lemmas.Serial
import NxsModel.Lemmas.Requests
import NxsModel.Pad
import NxsModel.Dispatch
import NxsModel.Lemmas.R7Built
namespace Nxs.C05
open Nxs Nxs.Spec Nxs.Requests

def byte (n : Nat) : Byte := BitVec.ofNat 8 n
def b2n (b : Bool) : Nat := if b then 1 else 0

/-- NxScope set-request payloads -/
def specSingle (c v : Nat) : Bytes := [0, byte c, byte v]
def specAll (v : Nat) : Bytes := [2, 0, byte v]
def specBulk (vs : List Nat) : Bytes := 1 :: 0 :: vs.map byte

/-- the payload the protocol prescribes for a full-vector request: ALL when every entry is equal, else BULK -/
def specVec (vs : List Nat) : Bytes :=
  match vs with
  | [] => []
  | v :: _ => if allSame vs then specAll v else specBulk vs

/-! ### the bytes emitted are the NxScope encoding -/

theorem req_bytes_start (b : Bool) : frameStart b = .ok (wire 5 [byte (b2n b)]) := frameStart_eq b
theorem req_bytes_cmninfo : frameCmninfo = .ok (wire 2 []) := frameCmninfo_eq
theorem req_bytes_chinfo (c : Nat) (hc : c ≤ 255) : frameChinfo c = .ok (wire 3 [byte c]) := frameChinfo_eq c hc

theorem req_bytes_en_single (n c : Nat) (v : Bool) (hc : c < n) (hn : n ≤ 255) :
    frameEnable (.single c v) n = .ok (wire 6 (specSingle c (b2n v))) := frameEnable_single n c v hc hn

theorem req_bytes_en_vec (n : Nat) (vs : List Bool) (hl : vs.length = n) (h1 : 1 ≤ n) (hn : n ≤ 255) :
    frameEnable (.vec vs) n = .ok (wire 6 (specVec (vs.map b2n))) := by
  match vs, hl with
  | [], hl => simp at hl; omega
  | v :: vs, hl =>
    have hsv : specVec ((v :: vs).map b2n) = if allSame ((v :: vs).map b2n) then specAll (b2n v)
        else specBulk ((v :: vs).map b2n) := rfl
    rw [hsv, allSame_map b2n (fun a b h => by cases a <;> cases b <;> first | rfl | cases h)]
    by_cases hs : allSame (v :: vs) = true
    · rw [if_pos hs]; exact frameEnable_vec_all n v vs hl hs
    · rw [if_neg hs, specBulk, List.map_map]
      exact frameEnable_vec_bulk n (v :: vs) hl h1 hn ((Bool.not_eq_true _).mp hs)

theorem req_bytes_div_single (n c v : Nat) (hc : c < n) (hn : n ≤ 255) (hv : v ≤ 255) :
    frameDiv (.single c v) n = .ok (wire 7 (specSingle c v)) := frameDiv_single n c v hc hn hv

theorem req_bytes_div_vec (n : Nat) (vs : List Nat) (hl : vs.length = n) (h1 : 1 ≤ n) (hn : n ≤ 255)
    (hv : ∀ v ∈ vs, v ≤ 255) :
    frameDiv (.vec (vs.map Int.ofNat)) n = .ok (wire 7 (specVec vs)) := by
  match vs, hl, hv with
  | [], hl, _ => simp at hl; omega
  | v :: vs, hl, hv =>
    have hsv : specVec (v :: vs) = if allSame (v :: vs) then specAll v else specBulk (v :: vs) := rfl
    by_cases hs : allSame (v :: vs) = true
    · rw [hsv, if_pos hs]; exact frameDiv_vec_all n v vs hl (hv v (by simp)) hs
    · rw [hsv, if_neg hs]; exact frameDiv_vec_bulk n (v :: vs) hl h1 hn hv ((Bool.not_eq_true _).mp hs)

/-! ### the device-side decoder recovers exactly the intended channel, flag or 8-bit value -/

theorem dev_decode_start (b : Bool) : frameStartDecode [byte (b2n b)] = .ok b := frameStartDecode_bit b

theorem dev_decode_en_single (n c : Nat) (v : Bool) (cur : List Bool) (hcur : cur.length = n) (hc : c < n)
    (hn : n ≤ 255) : frameEnableDecode (specSingle c (b2n v)) n cur = .ok (cur.set c v) := enDecode_single n c v cur hcur hc hn

theorem dev_decode_en_all (n : Nat) (v : Bool) (cur : List Bool) :
    frameEnableDecode (specAll (b2n v)) n cur = .ok (List.replicate n v) := enDecode_all n v cur

theorem dev_decode_en_bulk (n : Nat) (vs cur : List Bool) (hl : vs.length = n) :
    frameEnableDecode (specBulk (vs.map b2n)) n cur = .ok vs := by
  rw [specBulk, List.map_map]; exact enDecode_bulk n vs cur hl

/-- dividers are 8-bit unsigned: every value 0..255 is recovered as itself -/
theorem dev_decode_div_single (n c v : Nat) (cur : List Int) (hcur : cur.length = n) (hc : c < n)
    (hn : n ≤ 255) (hv : v ≤ 255) : frameDivDecode (specSingle c v) n cur = .ok (cur.set c (v : Int)) := divDecode_single n c v cur hcur hc hn hv

theorem dev_decode_div_all (n v : Nat) (cur : List Int) (hv : v ≤ 255) :
    frameDivDecode (specAll v) n cur = .ok (List.replicate n (v : Int)) := divDecode_all n v cur hv

theorem dev_decode_div_bulk (n : Nat) (vs : List Nat) (cur : List Int) (hl : vs.length = n)
    (hv : ∀ v ∈ vs, v ≤ 255) : frameDivDecode (specBulk vs) n cur = .ok (vs.map Int.ofNat) := divDecode_bulk n vs cur hl hv

/-! ### whichever compact form the client picks, the device derives the intended state -/

/-- a full-vector enable request (sent as ALL or BULK) makes the device state equal the vector -/
theorem en_forms_agree (n : Nat) (vs cur : List Bool) (hl : vs.length = n) (h1 : 1 ≤ n) (hn : n ≤ 255) :
    ∃ payload, frameEnable (.vec vs) n = .ok (wire 6 payload) ∧
      frameEnableDecode payload n cur = .ok vs := by
  refine ⟨_, req_bytes_en_vec n vs hl h1 hn, ?_⟩
  match vs, hl with
  | [], hl => simp at hl; omega
  | v :: vs, hl =>
    have hsv : specVec ((v :: vs).map b2n) = if allSame ((v :: vs).map b2n) then specAll (b2n v)
        else specBulk ((v :: vs).map b2n) := rfl
    rw [hsv, allSame_map b2n (fun a b h => by cases a <;> cases b <;> first | rfl | cases h)]
    by_cases hs : allSame (v :: vs) = true
    · rw [if_pos hs, dev_decode_en_all, allSame_eq_replicate v vs hs, ← hl]; rfl
    · rw [if_neg hs]; exact dev_decode_en_bulk n (v :: vs) cur hl

/-- a single-channel enable request changes exactly that channel -/
theorem en_single_agrees (n c : Nat) (v : Bool) (cur : List Bool) (hcur : cur.length = n) (hc : c < n)
    (hn : n ≤ 255) :
    ∃ payload, frameEnable (.single c v) n = .ok (wire 6 payload) ∧
      frameEnableDecode payload n cur = .ok (cur.set c v) := 
  ⟨_, req_bytes_en_single n c v hc hn, dev_decode_en_single n c v cur hcur hc hn⟩

theorem div_forms_agree (n : Nat) (vs : List Nat) (cur : List Int) (hl : vs.length = n) (h1 : 1 ≤ n)
    (hn : n ≤ 255) (hv : ∀ v ∈ vs, v ≤ 255) :
    ∃ payload, frameDiv (.vec (vs.map Int.ofNat)) n = .ok (wire 7 payload) ∧
      frameDivDecode payload n cur = .ok (vs.map Int.ofNat) := by
  refine ⟨_, req_bytes_div_vec n vs hl h1 hn hv, ?_⟩
  match vs, hl, hv with
  | [], hl, _ => simp at hl; omega
  | v :: vs, hl, hv =>
    have hsv : specVec (v :: vs) = if allSame (v :: vs) then specAll v else specBulk (v :: vs) := rfl
    by_cases hs : allSame (v :: vs) = true
    · rw [hsv, if_pos hs, dev_decode_div_all n v cur (hv v (by simp)), allSame_eq_replicate v vs hs, ← hl]
      simp
    · rw [hsv, if_neg hs]; exact dev_decode_div_bulk n (v :: vs) cur hl hv

theorem div_single_agrees (n c v : Nat) (cur : List Int) (hcur : cur.length = n) (hc : c < n)
    (hn : n ≤ 255) (hv : v ≤ 255) :
    ∃ payload, frameDiv (.single c v) n = .ok (wire 7 payload) ∧
      frameDivDecode payload n cur = .ok (cur.set c (v : Int)) := 
  ⟨_, req_bytes_div_single n c v hc hn hv, dev_decode_div_single n c v cur hcur hc hn hv⟩

/-! ### from the client's request BYTES through the frame layer and the dispatcher to the decoded value

  The `dev_decode_*` / `*_forms_agree` theorems above speak about the bare payload.  Here the whole
  device-side path is composed: the bytes the builder returned, written through the interface with ANY
  write padding `pad` (`Pad.dataAlign pad`, C17; `pad = 0` is the unpadded write), are handed to the
  device-side dispatcher `Dispatch.recvHandle` (`ParseRecv.recv_handle`, C02: header search, length and
  CRC validation, callback table); it fires exactly the matching callback (0 cmninfo · 1 chinfo · 2 enable ·
  3 div · 4 start) and the decoder that callback runs on the payload it was given returns what the caller
  asked for.  The common-info request has an empty payload (nothing to decode); for the channel-info
  request the device side has NO decoder function — the callback reads the channel id as payload byte 0
  (`intf/dummy.py::_chinfo_cb`: `data[0]`), so the statement is about that byte. -/

private theorem specVec_len (vs : List Nat) (h : vs ≠ []) :
    (specVec vs).length = 3 ∨ (specVec vs).length = vs.length + 2 := by
  cases vs with
  | nil => exact absurd rfl h
  | cons v vs =>
    have hsv : specVec (v :: vs) = if allSame (v :: vs) then specAll v else specBulk (v :: vs) := rfl
    rw [hsv]
    split
    · left; rfl
    · right; simp [specBulk]

private theorem en_vec_decodes (n : Nat) (vs cur : List Bool) (hl : vs.length = n) (h1 : 1 ≤ n) :
    frameEnableDecode (specVec (vs.map b2n)) n cur = .ok vs := by
  match vs, hl with
  | [], hl => simp at hl; omega
  | v :: vs, hl =>
    have hsv : specVec ((v :: vs).map b2n) = if allSame ((v :: vs).map b2n) then specAll (b2n v)
        else specBulk ((v :: vs).map b2n) := rfl
    rw [hsv, allSame_map b2n (fun a b h => by cases a <;> cases b <;> first | rfl | cases h)]
    by_cases hs : allSame (v :: vs) = true
    · rw [if_pos hs, dev_decode_en_all, allSame_eq_replicate v vs hs, ← hl]; rfl
    · rw [if_neg hs]; exact dev_decode_en_bulk n (v :: vs) cur hl

private theorem div_vec_decodes (n : Nat) (vs : List Nat) (cur : List Int) (hl : vs.length = n) (h1 : 1 ≤ n)
    (hv : ∀ v ∈ vs, v ≤ 255) : frameDivDecode (specVec vs) n cur = .ok (vs.map Int.ofNat) := by
  match vs, hl, hv with
  | [], hl, _ => simp at hl; omega
  | v :: vs, hl, hv =>
    have hsv : specVec (v :: vs) = if allSame (v :: vs) then specAll v else specBulk (v :: vs) := rfl
    by_cases hs : allSame (v :: vs) = true
    · rw [hsv, if_pos hs, dev_decode_div_all n v cur (hv v (by simp)), allSame_eq_replicate v vs hs, ← hl]
      simp
    · rw [hsv, if_neg hs]; exact dev_decode_div_bulk n (v :: vs) cur hl hv

theorem request_reaches_decoder_start (pad : Nat) (b : Bool) :
    ∃ f p, frameStart b = .ok f ∧ Dispatch.recvHandle (Pad.dataAlign pad f) = .fired 4 p ∧
      frameStartDecode p = .ok b :=
  ⟨_, _, req_bytes_start b, req_recvHandle_aligned pad 5 4 _ (by simp) (by omega) (req_cb_start _),
    dev_decode_start b⟩

theorem request_reaches_decoder_cmninfo (pad : Nat) :
    ∃ f, frameCmninfo = .ok f ∧ Dispatch.recvHandle (Pad.dataAlign pad f) = .fired 0 [] :=
  ⟨_, req_bytes_cmninfo, req_recvHandle_aligned pad 2 0 _ (by simp) (by omega) req_cb_cmninfo⟩

theorem request_reaches_decoder_chinfo (pad c : Nat) (hc : c ≤ 255) :
    ∃ f x, frameChinfo c = .ok f ∧ Dispatch.recvHandle (Pad.dataAlign pad f) = .fired 1 [x] ∧ x.toNat = c :=
  ⟨_, _, req_bytes_chinfo c hc, req_recvHandle_aligned pad 3 1 _ (by simp) (by omega) (req_cb_chinfo _),
    byte_toNat c hc⟩

theorem request_reaches_decoder_en_single (pad n c : Nat) (v : Bool) (cur : List Bool) (hcur : cur.length = n)
    (hc : c < n) (hn : n ≤ 255) :
    ∃ f p, frameEnable (.single c v) n = .ok f ∧ Dispatch.recvHandle (Pad.dataAlign pad f) = .fired 2 p ∧
      frameEnableDecode p n cur = .ok (cur.set c v) :=
  ⟨_, _, req_bytes_en_single n c v hc hn,
    req_recvHandle_aligned pad 6 2 _ (by simp [specSingle]) (by omega) (req_cb_enable _ (by simp [specSingle])),
    dev_decode_en_single n c v cur hcur hc hn⟩

theorem request_reaches_decoder_en_vec (pad n : Nat) (vs cur : List Bool) (hl : vs.length = n) (h1 : 1 ≤ n)
    (hn : n ≤ 255) :
    ∃ f p, frameEnable (.vec vs) n = .ok f ∧ Dispatch.recvHandle (Pad.dataAlign pad f) = .fired 2 p ∧
      frameEnableDecode p n cur = .ok vs := by
  have hne : vs.map b2n ≠ [] := by intro h; rw [List.map_eq_nil_iff] at h; subst h; simp at hl; omega
  have hlen := specVec_len (vs.map b2n) hne
  rw [List.length_map] at hlen
  refine ⟨_, _, req_bytes_en_vec n vs hl h1 hn,
    req_recvHandle_aligned pad 6 2 _ (by omega) (by omega) (req_cb_enable _ ?_), en_vec_decodes n vs cur hl h1⟩
  intro h; rw [h] at hlen; simp at hlen

theorem request_reaches_decoder_div_single (pad n c v : Nat) (cur : List Int) (hcur : cur.length = n)
    (hc : c < n) (hn : n ≤ 255) (hv : v ≤ 255) :
    ∃ f p, frameDiv (.single c v) n = .ok f ∧ Dispatch.recvHandle (Pad.dataAlign pad f) = .fired 3 p ∧
      frameDivDecode p n cur = .ok (cur.set c (v : Int)) :=
  ⟨_, _, req_bytes_div_single n c v hc hn hv,
    req_recvHandle_aligned pad 7 3 _ (by simp [specSingle]) (by omega) (req_cb_div _ (by simp [specSingle])),
    dev_decode_div_single n c v cur hcur hc hn hv⟩

theorem request_reaches_decoder_div_vec (pad n : Nat) (vs : List Nat) (cur : List Int) (hl : vs.length = n)
    (h1 : 1 ≤ n) (hn : n ≤ 255) (hv : ∀ v ∈ vs, v ≤ 255) :
    ∃ f p, frameDiv (.vec (vs.map Int.ofNat)) n = .ok f ∧
      Dispatch.recvHandle (Pad.dataAlign pad f) = .fired 3 p ∧
      frameDivDecode p n cur = .ok (vs.map Int.ofNat) := by
  have hne : vs ≠ [] := by intro h; subst h; simp at hl; omega
  have hlen := specVec_len vs hne
  refine ⟨_, _, req_bytes_div_vec n vs hl h1 hn hv,
    req_recvHandle_aligned pad 7 3 _ (by omega) (by omega) (req_cb_div _ ?_), div_vec_decodes n vs cur hl h1 hv⟩
  intro h; rw [h] at hlen; simp at hlen

/-! ### histories: one long-lived device, any sequence of requests in any mixture of forms

  `Requests.devRecv` is the device side as a whole (dispatcher → callback → decoder against the device's
  CURRENT vectors → per-channel writes, as `DummyDev._enable_cb/_div_cb` do on their one `Device` object).
  `Requests.session` lets the client build each request and the device receive it on that one state.  Whatever the
  sequence (single → bulk → single, single → all → single, …), after every request the device state is the
  state the caller asked for. -/

/-- the property's quantifier: channel id below the channel count, 8-bit dividers, full vectors -/
def Valid (n : Nat) : Ask → Prop
  | .enOne c _ => c < n
  | .enVec vs => vs.length = n
  | .divOne c v => c < n ∧ v ≤ 255
  | .divVec vs => vs.length = n ∧ ∀ v ∈ vs, v ≤ 255

/-- the state the caller intends (hand-written) -/
def intend (s : DevSt) : Ask → DevSt
  | .enOne c v => { s with en := s.en.set c v }
  | .enVec vs => { s with en := vs }
  | .divOne c v => { s with div := s.div.set c (v : Int) }
  | .divVec vs => { s with div := vs.map Int.ofNat }

/-- one request: the device's receive path ends in exactly the intended state, no error -/
theorem ask_reaches_device (n pad : Nat) (h1 : 1 ≤ n) (hn : n ≤ 255) (s : DevSt) (hen : s.en.length = n)
    (hdiv : s.div.length = n) (a : Ask) (ha : Valid n a) :
    ∃ f cb, a.build n = .ok f ∧ devRecv n s (Pad.dataAlign pad f) = (intend s a, .ok (some cb)) := by
  cases a with
  | enOne c v =>
    obtain ⟨f, p, hb, hd, hdec⟩ := request_reaches_decoder_en_single pad n c v s.en hen ha hn
    refine ⟨f, 2, hb, ?_⟩
    simp only [devRecv, hd, devApply, hdec, if_pos, Except.map, intend]
    rw [storeVec_full _ _ (by simp)]
  | enVec vs =>
    obtain ⟨f, p, hb, hd, hdec⟩ := request_reaches_decoder_en_vec pad n vs s.en ha h1 hn
    refine ⟨f, 2, hb, ?_⟩
    simp only [devRecv, hd, devApply, hdec, if_pos, Except.map, intend]
    rw [storeVec_full _ _ (by have : vs.length = n := ha; omega)]
  | divOne c v =>
    obtain ⟨f, p, hb, hd, hdec⟩ := request_reaches_decoder_div_single pad n c v s.div hdiv ha.1 hn ha.2
    refine ⟨f, 3, hb, ?_⟩
    simp only [devRecv, hd, devApply, hdec, Except.map, intend]
    rw [storeVec_full _ _ (by simp)]
    rfl
  | divVec vs =>
    obtain ⟨f, p, hb, hd, hdec⟩ := request_reaches_decoder_div_vec pad n vs s.div ha.1 h1 hn ha.2
    refine ⟨f, 3, hb, ?_⟩
    simp only [devRecv, hd, devApply, hdec, Except.map, intend]
    rw [storeVec_full _ _ (by have : vs.length = n := ha.1; simp; omega)]
    rfl

/-- the intended state keeps the vector lengths -/
theorem intend_lengths (n : Nat) (s : DevSt) (hen : s.en.length = n) (hdiv : s.div.length = n) (a : Ask)
    (ha : Valid n a) : (intend s a).en.length = n ∧ (intend s a).div.length = n := by
  cases a with
  | enOne c v => simp [intend, hen, hdiv]
  | enVec vs => exact ⟨ha, hdiv⟩
  | divOne c v => simp [intend, hen, hdiv]
  | divVec vs => exact ⟨hen, by simp [intend, ha.1]⟩

/-- any history of requests on one device object: the device ends in the state obtained by applying the
    callers' intentions one after the other — whichever compact form each request travelled in -/
theorem history_agrees (n pad : Nat) (h1 : 1 ≤ n) (hn : n ≤ 255) (asks : List Ask) :
    ∀ (s : DevSt), s.en.length = n → s.div.length = n → (∀ a ∈ asks, Valid n a) →
      session n pad s asks = .ok (asks.foldl intend s) := by
  induction asks with
  | nil => intro s _ _ _; rfl
  | cons a as ih =>
    intro s hen hdiv hv
    obtain ⟨f, cb, hb, hr⟩ := ask_reaches_device n pad h1 hn s hen hdiv a (hv a (by simp))
    obtain ⟨hen', hdiv'⟩ := intend_lengths n s hen hdiv a (hv a (by simp))
    simp only [session, hb, ok_bind, hr, List.foldl_cons]
    exact ih _ hen' hdiv' (fun b hb' => hv b (by simp [hb']))

/-- non-vacuity: the hypotheses of the `request_reaches_decoder_*` theorems at concrete points (upper half of the
    8-bit fields, write padding, a vector of non-zero unequal dividers) -/
example := request_reaches_decoder_chinfo 16 254 (by omega)
example := request_reaches_decoder_en_single 4 255 254 true (List.replicate 255 false) List.length_replicate (by omega) (by omega)
example := request_reaches_decoder_en_vec 4 3 [true, false, true] [false, false, false] rfl (by omega) (by omega)
example := request_reaches_decoder_div_single 16 255 200 255 (List.replicate 255 0) List.length_replicate (by omega) (by omega)
  (by omega)
example := request_reaches_decoder_div_vec 0 2 [7, 200] [0, 0] rfl (by omega) (by omega) (by decide)
example : session 2 0 ⟨[false, false], [0, 0]⟩ [.divVec [7, 200], .enOne 1 true] = .ok ⟨[false, true], [7, 200]⟩ :=
  history_agrees 2 0 (by omega) (by omega) _ _ rfl rfl (by
    intro a ha
    simp only [List.mem_cons, List.not_mem_nil, or_false] at ha
    rcases ha with rfl | rfl
    · exact ⟨rfl, by decide⟩
    · exact (by decide : 1 < 2))

/-- non-vacuity -/
example : Valid 3 (.divVec [200, 200, 7]) ∧ Valid 3 (.enOne 2 true) :=
  ⟨⟨rfl, by decide⟩, (by decide : 2 < 3)⟩
example : session 3 4 ⟨[true, false, false], [0, 9, 0]⟩
    [.enOne 1 true, .divVec [5, 6, 200], .enVec [false, true, true], .divOne 0 255, .enVec [true, true, true],
      .enOne 0 false] = .ok ⟨[false, true, true], [255, 6, 200]⟩ := by decide +kernel
example : (Requests.frameEnable (.vec [true, false, true]) 3).map
    (fun f => Dispatch.recvHandle (Pad.dataAlign 4 f)) = .ok (.fired 2 [1, 0, 1, 0, 1]) := by decide +kernel

/-- non-vacuity -/
example : frameDiv (.single 3 200) 8 = .ok (wire 7 [0, 3, 200]) := by decide +kernel
example : frameDivDecode [0, 3, 200] 8 [0,0,0,0,0,0,0,0] = .ok [0,0,0,200,0,0,0,0] := by decide +kernel

/-! ## Round 7 additions

  * `req_lengths` — length of every request (6 + payload): start 7, cmninfo 6, chinfo 7, single / ALL 9, BULK n + 8;
  * `ask_build_injective` — on the property's quantifier two different requests never produce the same bytes;
    `same_bytes_same_meaning` — (independently, through the device) equal bytes mean the same state change;
  * `single_equals_vector_en` / `_div` — a single-channel change and the full vector that differs from the device's
    current vector in that one channel end in the same device state (single vs bulk / all at the device);
  * `session_append` — sessions compose over concatenated histories (ANY asks, valid or not);
  * `session_padding_invisible` — for ANY asks (valid or not, e.g. a channel the device does not have) and any
    write padding the session ends exactly as the unpadded one: same state or same exception;
  * `en_div_independent` — enable and divider requests do not interfere at the device;
  * `sessionVar_padding_invisible`, `sessionVar_agrees` — the same with a write padding that CHANGES before every
    request. -/

/-- frame id and NxScope payload of what a caller asks -/
def fidOf : Ask → Nat
  | .enOne .. | .enVec .. => 6
  | .divOne .. | .divVec .. => 7
def payOf : Ask → Bytes
  | .enOne c v => specSingle c (b2n v)
  | .enVec vs => specVec (vs.map b2n)
  | .divOne c v => specSingle c v
  | .divVec vs => specVec vs

theorem ask_bytes (n : Nat) (h1 : 1 ≤ n) (hn : n ≤ 255) (a : Ask) (ha : Valid n a) :
    a.build n = .ok (wire (fidOf a) (payOf a)) := by
  cases a with
  | enOne c v => exact req_bytes_en_single n c v ha hn
  | enVec vs => exact req_bytes_en_vec n vs ha h1 hn
  | divOne c v => exact req_bytes_div_single n c v ha.1 hn ha.2
  | divVec vs => exact req_bytes_div_vec n vs ha.1 h1 hn ha.2

private theorem specVec_length_le (vs : List Nat) : (specVec vs).length ≤ vs.length + 2 ∨ (specVec vs).length = 3 := by
  cases vs with
  | nil => left; simp [specVec]
  | cons v vs => rcases specVec_len (v :: vs) (by simp) with h | h
                 · right; exact h
                 · left; omega

theorem payOf_length (n : Nat) (hn : n ≤ 255) (a : Ask) (ha : Valid n a) : (payOf a).length ≤ 65529 := by
  cases a with
  | enOne c v => simp [payOf, specSingle]
  | enVec vs =>
    have hl : vs.length = n := ha
    have := specVec_length_le (vs.map b2n); rw [List.length_map] at this
    simp only [payOf]; omega
  | divOne c v => simp [payOf, specSingle]
  | divVec vs =>
    have hl : vs.length = n := ha.1
    have := specVec_length_le vs
    simp only [payOf]; omega

/-- round 7: the length of every request: 6 bytes of frame + the payload -/
theorem req_lengths (n : Nat) (h1 : 1 ≤ n) (hn : n ≤ 255) :
    (∀ b f, frameStart b = .ok f → f.length = 7) ∧ (∀ f, frameCmninfo = .ok f → f.length = 6) ∧
    (∀ c f, c ≤ 255 → frameChinfo (c : Nat) = .ok f → f.length = 7) ∧
    (∀ a f, Valid n a → a.build n = .ok f →
      f.length = match a with
        | .enOne .. | .divOne .. => 9
        | .enVec vs => if allSame vs then 9 else n + 8
        | .divVec vs => if allSame vs then 9 else n + 8) := by
  refine ⟨fun b f h => ?_, fun f h => ?_, fun c f hc h => ?_, fun a f ha h => ?_⟩
  · rw [req_bytes_start] at h; rw [← Except.ok.inj h, Serial.wire_length]; rfl
  · rw [req_bytes_cmninfo] at h; rw [← Except.ok.inj h, Serial.wire_length]; rfl
  · rw [req_bytes_chinfo c hc] at h; rw [← Except.ok.inj h, Serial.wire_length]; rfl
  · rw [ask_bytes n h1 hn a ha] at h
    rw [← Except.ok.inj h, Serial.wire_length]
    cases a with
    | enOne c v => rfl
    | divOne c v => rfl
    | enVec vs =>
      have hl : vs.length = n := ha
      cases vs with
      | nil => simp at hl; omega
      | cons v r =>
        have hsv : specVec ((v :: r).map b2n) = if allSame ((v :: r).map b2n) then specAll (b2n v)
            else specBulk ((v :: r).map b2n) := rfl
        simp only [payOf]
        rw [hsv, allSame_map b2n (fun a b h => by cases a <;> cases b <;> first | rfl | cases h)]
        split
        · rfl
        · simp only [specBulk, List.length_cons, List.length_map] at hl ⊢; omega
    | divVec vs =>
      have hl : vs.length = n := ha.1
      cases vs with
      | nil => simp at hl; omega
      | cons v r =>
        have hsv : specVec (v :: r) = if allSame (v :: r) then specAll v else specBulk (v :: r) := rfl
        simp only [payOf]
        rw [hsv]
        split
        · rfl
        · simp only [specBulk, List.length_cons, List.length_map] at hl ⊢; omega

private theorem wire_inj (fid fid' : Nat) (p p' : Bytes) (hp : p.length ≤ 65529) (hp' : p'.length ≤ 65529)
    (hf : fid ≤ 8) (hf' : fid' ≤ 8) (h : wire fid p = wire fid' p') : fid = fid' ∧ p = p' := by
  have h1 := Serial.frameDecode_wire fid p hp hf
  rw [h, Serial.frameDecode_wire fid' p' hp' hf'] at h1
  have h3 := Except.ok.inj h1
  injection h3 with ha hb
  exact ⟨ha.symm, hb.symm⟩

private theorem byte_inj (a b : Nat) (ha : a ≤ 255) (hb : b ≤ 255) (h : byte a = byte b) : a = b := by
  have := congrArg BitVec.toNat h
  simp only [byte, BitVec.toNat_ofNat] at this
  omega

private theorem b2n_le (v : Bool) : b2n v ≤ 255 := by cases v <;> decide
private theorem b2n_inj (v w : Bool) (h : b2n v = b2n w) : v = w := by
  cases v <;> cases w <;> first | rfl | cases h

private theorem single_ne_vec (c v : Nat) (vs : List Nat) (h : specSingle c v = specVec vs) : False := by
  cases vs with
  | nil => simp [specSingle, specVec] at h
  | cons x r =>
    have hsv : specVec (x :: r) = if allSame (x :: r) then specAll x else specBulk (x :: r) := rfl
    rw [hsv] at h
    split at h
    · have := (List.cons.inj h).1; exact absurd this (by decide)
    · have := (List.cons.inj h).1; exact absurd this (by decide)

/-- round 7: **the request builders are injective on the property's quantifier** — two different valid requests to
    a device of `n` channels never produce the same bytes (so the bytes on the wire determine what was asked) -/
theorem ask_build_injective (n : Nat) (h1 : 1 ≤ n) (hn : n ≤ 255) (a b : Ask) (ha : Valid n a) (hb : Valid n b)
    (h : a.build n = b.build n) : a = b := by
  rw [ask_bytes n h1 hn a ha, ask_bytes n h1 hn b hb] at h
  obtain ⟨hf, hp⟩ := wire_inj _ _ _ _ (payOf_length n hn a ha) (payOf_length n hn b hb)
    (by cases a <;> simp [fidOf]) (by cases b <;> simp [fidOf]) (Except.ok.inj h)
  cases a with
  | enOne c v =>
    cases b with
    | enOne c' v' =>
      simp only [payOf, specSingle, List.cons.injEq, and_true, true_and] at hp
      have hc : c < n := ha
      have hc' : c' < n := hb
      rw [byte_inj c c' (by omega) (by omega) hp.1, b2n_inj v v' (byte_inj _ _ (b2n_le v) (b2n_le v') hp.2)]
    | enVec vs => exact (single_ne_vec _ _ _ hp).elim
    | divOne c' v' => cases hf
    | divVec vs => cases hf
  | enVec vs =>
    cases b with
    | enOne c' v' => exact (single_ne_vec _ _ _ hp.symm).elim
    | enVec vs' =>
      have e1 := en_vec_decodes n vs [] ha h1
      have e2 := en_vec_decodes n vs' [] hb h1
      simp only [payOf] at hp
      rw [hp, e2] at e1
      rw [Except.ok.inj e1]
    | divOne c' v' => cases hf
    | divVec vs' => cases hf
  | divOne c v =>
    cases b with
    | enOne c' v' => cases hf
    | enVec vs => cases hf
    | divOne c' v' =>
      simp only [payOf, specSingle, List.cons.injEq, and_true, true_and] at hp
      rw [byte_inj c c' (by have := ha.1; omega) (by have := hb.1; omega) hp.1, byte_inj v v' ha.2 hb.2 hp.2]
    | divVec vs => exact (single_ne_vec _ _ _ hp).elim
  | divVec vs =>
    cases b with
    | enOne c' v' => cases hf
    | enVec vs' => cases hf
    | divOne c' v' => exact (single_ne_vec _ _ _ hp.symm).elim
    | divVec vs' =>
      have e1 := div_vec_decodes n vs [] ha.1 h1 ha.2
      have e2 := div_vec_decodes n vs' [] hb.1 h1 hb.2
      simp only [payOf] at hp
      rw [hp, e2] at e1
      have := Except.ok.inj e1
      rw [List.map_inj_right (fun a b h => Int.ofNat.inj h) |>.mp this]

example : Valid 3 (.enVec [true, true, true]) ∧ Valid 3 (.enOne 0 true) ∧
    Ask.build 3 (.enVec [true, true, true]) ≠ Ask.build 3 (.enOne 0 true) := by
  refine ⟨rfl, (by decide : 0 < 3), fun h => ?_⟩
  have := ask_build_injective 3 (by omega) (by omega) (.enVec [true, true, true]) (.enOne 0 true) rfl (by decide : 0 < 3) h
  cases this

/-- round 7: equal request bytes mean the same state change at the device (proved through the device's receive
    path, independently of `ask_build_injective`) -/
theorem same_bytes_same_meaning (n : Nat) (h1 : 1 ≤ n) (hn : n ≤ 255) (s : DevSt) (hen : s.en.length = n)
    (hdiv : s.div.length = n) (a b : Ask) (ha : Valid n a) (hb : Valid n b) (h : a.build n = b.build n) :
    intend s a = intend s b := by
  obtain ⟨f, cb, hf, hr⟩ := ask_reaches_device n 0 h1 hn s hen hdiv a ha
  obtain ⟨f', cb', hf', hr'⟩ := ask_reaches_device n 0 h1 hn s hen hdiv b hb
  rw [h, hf'] at hf
  rw [← Except.ok.inj hf, hr'] at hr
  exact (congrArg Prod.fst hr).symm

/-- round 7: **single vs vector at the device** — changing one channel by a single request, or by sending the whole
    vector that differs from the device's current one in that channel (ALL or BULK form, the builder decides), ends in
    the same device state -/
theorem single_equals_vector_en (n pad : Nat) (h1 : 1 ≤ n) (hn : n ≤ 255) (s : DevSt) (hen : s.en.length = n)
    (hdiv : s.div.length = n) (c : Nat) (v : Bool) (hc : c < n) :
    session n pad s [.enOne c v] = session n pad s [.enVec (s.en.set c v)] ∧
    session n pad s [.enOne c v] = .ok { s with en := s.en.set c v } := by
  have e1 := history_agrees n pad h1 hn [.enOne c v] s hen hdiv (by
    intro a ha; simp only [List.mem_cons, List.not_mem_nil, or_false] at ha; subst ha; exact hc)
  have e2 := history_agrees n pad h1 hn [.enVec (s.en.set c v)] s hen hdiv (by
    intro a ha; simp only [List.mem_cons, List.not_mem_nil, or_false] at ha; subst ha
    show (s.en.set c v).length = n
    simp [hen])
  rw [e1, e2]
  exact ⟨rfl, rfl⟩

theorem single_equals_vector_div (n pad : Nat) (h1 : 1 ≤ n) (hn : n ≤ 255) (s : DevSt) (ds : List Nat)
    (hen : s.en.length = n) (hds : s.div = ds.map Int.ofNat) (hl : ds.length = n) (hv : ∀ x ∈ ds, x ≤ 255)
    (c v : Nat) (hc : c < n) (hv' : v ≤ 255) :
    session n pad s [.divOne c v] = session n pad s [.divVec (ds.set c v)] ∧
    session n pad s [.divOne c v] = .ok { s with div := s.div.set c (v : Int) } := by
  have hdiv : s.div.length = n := by rw [hds, List.length_map, hl]
  have e1 := history_agrees n pad h1 hn [.divOne c v] s hen hdiv (by
    intro a ha; simp only [List.mem_cons, List.not_mem_nil, or_false] at ha; subst ha; exact ⟨hc, hv'⟩)
  have e2 := history_agrees n pad h1 hn [.divVec (ds.set c v)] s hen hdiv (by
    intro a ha; simp only [List.mem_cons, List.not_mem_nil, or_false] at ha; subst ha
    refine ⟨by simp [hl], fun x hx => ?_⟩
    rcases List.mem_or_eq_of_mem_set hx with h | h
    · exact hv x h
    · omega)
  rw [e1, e2]
  refine ⟨?_, rfl⟩
  simp only [List.foldl_cons, List.foldl_nil, intend, hds, List.map_set]
  rfl

example : session 3 4 ⟨[true, false, true], [1, 2, 3]⟩ [.enOne 1 true] =
    session 3 4 ⟨[true, false, true], [1, 2, 3]⟩ [.enVec [true, true, true]] :=
  (single_equals_vector_en 3 4 (by omega) (by omega) _ rfl rfl 1 true (by omega)).1

/-- round 7: sessions compose over concatenated histories — for ANY asks, valid or not (an exception in the first
    part is the exception of the whole) -/
theorem session_append (n pad : Nat) (as bs : List Ask) : ∀ (s : DevSt),
    session n pad s (as ++ bs) = (session n pad s as).bind fun s' => session n pad s' bs := by
  induction as with
  | nil => intro s; rfl
  | cons a as ih =>
    intro s
    simp only [List.cons_append, session]
    cases hb : a.build n with
    | error e => rfl
    | ok f =>
      simp only [ok_bind]
      rcases hr : devRecv n s (Pad.dataAlign pad f) with ⟨s', r⟩
      cases r with
      | ok o => exact ih s'
      | error e => rfl

/-- round 7: **the write padding is invisible to a whole session, whatever is asked** — valid requests, requests
    the builder refuses (divider 300: both sessions stop with the builder's exception) and requests the device
    refuses (channel 200 of a 3-channel device: both stop with the device's exception) alike -/
theorem session_padding_invisible (n pad : Nat) (asks : List Ask) : ∀ (s : DevSt),
    session n pad s asks = session n 0 s asks := by
  induction asks with
  | nil => intro s; rfl
  | cons a as ih =>
    intro s
    simp only [session]
    cases hb : a.build n with
    | error e => rfl
    | ok f =>
      simp only [ok_bind]
      have hB := R7.ask_built n a f hb
      have e : devRecv n s (Pad.dataAlign pad f) = devRecv n s (Pad.dataAlign 0 f) := by
        unfold devRecv; rw [R7.built_align pad f hB, R7.built_align 0 f hB]
      rw [e]
      rcases devRecv n s (Pad.dataAlign 0 f) with ⟨s', r⟩
      cases r with
      | ok o => exact ih s'
      | error e => rfl

example : session 3 16 ⟨[false, false, false], [0, 0, 0]⟩ [.enOne 1 true, .enOne 200 true] = .error .indexError := by
  decide +kernel
example : session 3 16 ⟨[false, false, false], [0, 0, 0]⟩ [.divOne 1 300] = .error .valueError := by
  decide +kernel

/-- is it an enable request? -/
def isEn : Ask → Bool
  | .enOne .. | .enVec .. => true
  | .divOne .. | .divVec .. => false

private theorem intend_en_only (asks : List Ask) : ∀ (s s' : DevSt), s.en = s'.en →
    (asks.foldl intend s).en = ((asks.filter isEn).foldl intend s').en := by
  induction asks with
  | nil => intro s s' h; exact h
  | cons a as ih =>
    intro s s' h
    cases a with
    | enOne c v => exact ih _ _ (by simp [intend, h])
    | enVec vs => exact ih _ _ rfl
    | divOne c v => exact ih _ _ h
    | divVec vs => exact ih _ _ h

private theorem intend_div_only (asks : List Ask) : ∀ (s s' : DevSt), s.div = s'.div →
    (asks.foldl intend s).div = ((asks.filter fun a => !isEn a).foldl intend s').div := by
  induction asks with
  | nil => intro s s' h; exact h
  | cons a as ih =>
    intro s s' h
    cases a with
    | enOne c v => exact ih _ _ h
    | enVec vs => exact ih _ _ h
    | divOne c v => exact ih _ _ (by simp [intend, h])
    | divVec vs => exact ih _ _ rfl

/-- round 7: **enable and divider requests do not interfere at the device.**  After any mixed history of valid
    requests (any forms, any padding) the device's enable vector is the one the enable requests ALONE would have
    produced, and its divider vector the one the divider requests alone would have produced -/
theorem en_div_independent (n pad : Nat) (h1 : 1 ≤ n) (hn : n ≤ 255) (asks : List Ask) (s : DevSt)
    (hen : s.en.length = n) (hdiv : s.div.length = n) (hv : ∀ a ∈ asks, Valid n a) :
    (session n pad s asks).map (·.en) = (session n pad s (asks.filter isEn)).map (·.en) ∧
    (session n pad s asks).map (·.div) = (session n pad s (asks.filter fun a => !isEn a)).map (·.div) := by
  rw [history_agrees n pad h1 hn asks s hen hdiv hv,
    history_agrees n pad h1 hn _ s hen hdiv (fun a ha => hv a (List.mem_filter.mp ha).1),
    history_agrees n pad h1 hn _ s hen hdiv (fun a ha => hv a (List.mem_filter.mp ha).1)]
  exact ⟨congrArg Except.ok (intend_en_only asks s s rfl), congrArg Except.ok (intend_div_only asks s s rfl)⟩

example : (session 3 4 ⟨[true, false, false], [0, 9, 0]⟩
    [.enOne 1 true, .divVec [5, 6, 200], .enVec [false, true, true], .divOne 0 255]).map (·.en) =
    (session 3 4 ⟨[true, false, false], [0, 9, 0]⟩ [.enOne 1 true, .enVec [false, true, true]]).map (·.en) := by
  decide +kernel

/-- a session in which the interface's write padding may CHANGE before every request (`(padding, ask)` pairs; the
    client learns the padding from the device and may be re-configured) -/
def sessionVar (n : Nat) (s : DevSt) : List (Nat × Ask) → Except Err DevSt
  | [] => .ok s
  | x :: xs =>
    (x.2.build n).bind fun f =>
      match devRecv n s (Pad.dataAlign x.1 f) with
      | (s', .ok _) => sessionVar n s' xs
      | (_, .error e) => .error e

/-- round 7: whatever the padding is at each write and whatever is asked, the session ends as the unpadded one;
    for valid asks therefore in the state obtained by applying the callers' intentions one after the other -/
theorem sessionVar_padding_invisible (n : Nat) (xs : List (Nat × Ask)) : ∀ (s : DevSt),
    sessionVar n s xs = session n 0 s (xs.map (·.2)) := by
  induction xs with
  | nil => intro s; rfl
  | cons x xs ih =>
    intro s
    simp only [sessionVar, session, List.map_cons]
    cases hb : x.2.build n with
    | error e => rfl
    | ok f =>
      simp only [ok_bind]
      have hB := R7.ask_built n x.2 f hb
      have e : devRecv n s (Pad.dataAlign x.1 f) = devRecv n s (Pad.dataAlign 0 f) := by
        unfold devRecv; rw [R7.built_align x.1 f hB, R7.built_align 0 f hB]
      rw [e]
      rcases devRecv n s (Pad.dataAlign 0 f) with ⟨s', r⟩
      cases r with
      | ok o => exact ih s'
      | error e => rfl

theorem sessionVar_agrees (n : Nat) (h1 : 1 ≤ n) (hn : n ≤ 255) (xs : List (Nat × Ask)) (s : DevSt)
    (hen : s.en.length = n) (hdiv : s.div.length = n) (hv : ∀ x ∈ xs, Valid n x.2) :
    sessionVar n s xs = .ok ((xs.map (·.2)).foldl intend s) := by
  rw [sessionVar_padding_invisible]
  exact history_agrees n 0 h1 hn _ s hen hdiv (by
    intro a ha
    obtain ⟨x, hx, rfl⟩ := List.mem_map.mp ha
    exact hv x hx)

example : sessionVar 3 ⟨[true, false, false], [0, 9, 0]⟩
    [(0, .enOne 1 true), (16, .divVec [5, 6, 200]), (255, .enVec [false, true, true]), (3, .divOne 0 255)] =
    .ok ⟨[false, true, true], [255, 6, 200]⟩ := by decide +kernel

end Nxs.C05
