/-
  C13 — a worker runs until stopped, never after stop returns, and can be restarted.
  Property theorems only (model: `Worker.lean`; helper lemmas: `Lemmas/Worker.lean`).

  Every theorem is about `Reach c s`: `s` is reachable from the state after
  `ThreadCommon.__init__` by ANY number of steps, under ANY sequence of `thread_start` /
  `thread_stop` / `thread_is_alive` calls of the controller and ANY interleaving of the
  controller with the worker threads at the granularity of one source statement / test of
  `thread.py` per step (the programs are `Gen/Thread.lean`, regenerated from the source on
  every run), for each of the four callback configurations `c` (init / final given or not).

  Proof: the reachable set `R c` is computed inside Lean from the regenerated programs, the
  kernel checks (`decide +kernel`) that it contains the initial state, is closed under `step`
  and that all safety predicates hold on it (`Lemmas/WorkerCert??.lean`, one module per callback
  configuration); induction over `Reach` (`Lemmas/Worker.lean`) lifts this to all histories and
  schedules.  The statements below are these predicates, spelled out.

  Reading the monitor (see `Worker.lean`): the counters of a worker `w` describe the CURRENT run
  (`create-thread` starts a run with all of them zero); they saturate at 2, so `≤ 1` / `= 1`
  mean "never twice" / "exactly once".  Because the predicates hold in EVERY reachable state —
  in particular in the state right after each callback step — they are statements about the
  order of the callback calls, not just about final counts.

  EXCLUDED (outside the quantifier of every theorem below; none of it is modelled):
    * a call of `thread_stop()` made BY THE WORKER ITSELF — from inside one of its callbacks, or from a
      destructor (`__del__` → `disconnect()`) that the garbage collector happens to run on the worker
      thread.  `Thread.join()` on the current thread raises `RuntimeError("cannot join current thread")`;
      the handle is then NOT cleared and the flag stays set.  `/repo/src/nxslib/comm.py:459-466`
      (`CommHandler.disconnect`: "dirty fix for occasional RuntimeError in thread.thread_stop()") documents
      that this has been seen in practice and swallows the exception.  In the model the worker executes only
      `_thread_loop`, and its callbacks "do not touch the `ThreadCommon` object" (`Worker.lean`, ASSUMED);
    * a SECOND CONTROLLER: two threads calling start / stop / is_alive on the same object concurrently
      (e.g. `disconnect()` from the application thread racing a `__del__` on another thread).  `thread_stop`
      is not atomic (`is_alive()` … `join()` … `_thrd = None`): a second stop can find `_thrd` already `None`
      after its own aliveness test and raise `AttributeError`, and a start racing a stop can leave two
      workers.  The model has ONE controller, whose calls do not overlap (`Ctl` is a single program counter);
    * callbacks that raise (the worker thread dies without calling final) or never return (stop never
      returns: `join()` has no timeout — by design, see `stop_returns`);
    * which thread the controller is (its name, whether it is the main thread) is immaterial in the model;
      the check's scenarios include a controller that carries the worker's thread name.

  Partial (see DESIGN.md section 5/C13): `Thread.start/join/is_alive` and `Event` are assumed
  to behave as documented (listed at the top of `Worker.lean`); liveness ("keeps calling
  target") is proved as "alive, inside the loop, flag clear, and a target call is at most
  `loopProg.length` own steps away", not as a fairness statement about the OS scheduler.
-/
import NxsModel.Worker
import NxsModel.Lemmas.Worker
import NxsModel.WorkerCycles
import NxsModel.Lemmas.R7C13
namespace Nxs.C13
open Nxs.Worker Nxs.ThreadIR

/-- "with init called once before the first target call of that run": no worker ever has two
    init calls, and as soon as target (or final) has been called or the loop has returned, init
    has been called exactly once (exactly zero times if no init callback was given) -/
theorem init_once_before_target {c : Cfg} {s : State} (h : Reach c s) {w : Worker} (hw : w ∈ workers s) :
    w.nInit ≤ 1 ∧ (w.tgt = true ∨ w.nFin ≥ 1 ∨ w.st = .done → w.nInit = expected c.hasInit) := by
  have h1 := (safe_parts (reach_safe h)).1.1
  have := List.all_eq_true.mp h1 w hw
  simp only [okInitW, Bool.and_eq_true, Bool.or_eq_true, Bool.not_eq_true', decide_eq_true_eq,
    Bool.or_eq_false_iff, decide_eq_false_iff_not] at this
  refine ⟨this.1, fun hx => ?_⟩
  rcases this.2 with h2 | h2
  · rcases hx with hx | hx | hx
    · simp [hx] at h2
    · exact absurd hx h2.1.2
    · exact absurd hx h2.2
  · exact h2

/-- "and final once after the last": no worker ever has two final calls, target is never called
    after final, and a worker whose loop has returned has called final exactly once (exactly
    zero times if no final callback was given) -/
theorem final_once_after_last_target {c : Cfg} {s : State} (h : Reach c s) {w : Worker}
    (hw : w ∈ workers s) :
    w.nFin ≤ 1 ∧ w.tgtAfterFin = false ∧ (w.st = .done → w.nFin = expected c.hasFinal) := by
  have h1 := (safe_parts (reach_safe h)).1.2.1
  have := List.all_eq_true.mp h1 w hw
  simp only [okFinalW, Bool.and_eq_true, Bool.or_eq_true, Bool.not_eq_true', decide_eq_true_eq,
    decide_eq_false_iff_not] at this
  refine ⟨this.1.1, this.1.2, fun hx => ?_⟩
  rcases this.2 with h2 | h2
  · exact absurd hx h2
  · exact h2

/-- "keeps calling target until stop is requested" (the polling half): every target call is
    preceded, since the previous target call of the same run, by the worker's own test of the
    stop flag that found it clear -/
theorem target_only_after_clear_poll {c : Cfg} {s : State} (h : Reach c s) {w : Worker}
    (hw : w ∈ workers s) : w.tgtUnpolled = false := by
  have h1 := (safe_parts (reach_safe h)).1.2.2
  have := List.all_eq_true.mp h1 w hw
  simpa [okPolledW] using this

/-- "once stop has returned the target is neither running nor ever called again until the next
    start": whenever the last returned call of start/stop was not `start` (stop has returned, or
    nothing was ever started) and no start call is in progress, there is no handle and no worker
    thread at all — so no thread other than the controller can take a step, in particular no
    `target` step exists, and this stays so until the controller enters `thread_start` -/
theorem no_target_after_stop_returned {c : Cfg} {s : State} (h : Reach c s)
    (hs : s.started = false) (hn : inStart s = false) :
    s.cur = none ∧ s.others = [] ∧ live s = 0 ∧
    ∀ p ∈ stepL c s, p.1 = Who.ctl ∧ p.2.1 ≠ Ev.target := by
  have h1 := (safe_parts (reach_safe h)).2.1.1
  simp only [okStopped, hs, hn, Bool.or_self, Bool.false_or, Bool.and_eq_true, Option.isNone_iff_eq_none,
    List.isEmpty_iff] at h1
  obtain ⟨hc, ho⟩ := h1
  refine ⟨hc, ho, by simp [live, workers, hc, ho], ?_⟩
  intro p hp
  simp only [stepL, curStep, hc, ho, List.length_nil, List.range_zero, List.filterMap_nil,
    List.append_nil, Option.toList_none, List.map_nil, List.mem_map] at hp
  obtain ⟨q, hq, rfl⟩ := hp
  refine ⟨rfl, ?_⟩
  -- a controller step is never a target event
  unfold ctlStep at hq
  split at hq
  · simp only [List.map_cons, List.map_nil, List.mem_cons, List.not_mem_nil, or_false] at hq
    rcases hq with rfl | rfl | rfl <;> simp
  · split at hq
    · simp only [List.mem_cons, List.not_mem_nil, or_false] at hq; subst hq; simp
    · next i _ =>
      split at hq
      · simp at hq
      · next ev s' pc' hex =>
        simp only [List.mem_cons, List.not_mem_nil, or_false] at hq; subst hq
        intro ht
        simp only at ht
        subst ht
        unfold execCtl at hex
        split at hex <;> (try split at hex) <;> (try split at hex) <;> simp at hex
      · simp only [List.mem_cons, List.not_mem_nil, or_false] at hq; subst hq; simp
      · simp only [List.mem_cons, List.not_mem_nil, or_false] at hq; subst hq; simp

/-- "start on a running worker does nothing": while the controller believes the worker started,
    every step of a `thread_start` call leaves the flag, the handle, the workers and the
    controller's belief unchanged -/
theorem start_on_running_noop {c : Cfg} {s : State} (h : Reach c s) {pc : Nat}
    (hc : s.ctl = .run .start pc) (hs : s.started = true) :
    ∀ p ∈ ctlStep c s, p.2.flag = s.flag ∧ p.2.cur = s.cur ∧ p.2.others = s.others ∧
      p.2.started = s.started := by
  have h1 := (safe_parts (reach_safe h)).2.1.2.1
  simp only [okStartNoop, inStart, hc, hs, Bool.and_self, Bool.not_true, Bool.false_or,
    List.all_eq_true, sameShared, Bool.and_eq_true, decide_eq_true_eq] at h1
  intro p hp
  obtain ⟨⟨⟨a, b⟩, d⟩, e⟩ := h1 p hp
  exact ⟨a, b, d, by rw [hs]; exact e⟩

/-- "stop on a stopped worker does nothing": while the controller believes the worker stopped
    (or never started), every step of a `thread_stop` call leaves the flag, the handle, the
    workers and the controller's belief unchanged -/
theorem stop_on_stopped_noop {c : Cfg} {s : State} (h : Reach c s) {pc : Nat}
    (hc : s.ctl = .run .stop pc) (hs : s.started = false) :
    ∀ p ∈ ctlStep c s, p.2.flag = s.flag ∧ p.2.cur = s.cur ∧ p.2.others = s.others ∧
      p.2.started = s.started := by
  have h1 := (safe_parts (reach_safe h)).2.1.2.2.1
  simp only [okStopNoop, inStop, hc, hs, Bool.not_false, Bool.and_self, Bool.not_true, Bool.false_or,
    List.all_eq_true, sameShared, Bool.and_eq_true, decide_eq_true_eq] at h1
  intro p hp
  obtain ⟨⟨⟨a, b⟩, d⟩, e⟩ := h1 p hp
  exact ⟨a, b, d, by rw [hs]; exact e⟩

/-- "a stopped worker can be started again": from every reachable state in which the controller
    is idle and believes the worker stopped — after any number of earlier start/stop cycles — a
    `thread_start` call runs to its return and leaves a brand-new worker (all counters zero)
    alive, with the stop flag clear and no other worker; `alive_while_started` then applies to
    the new run under every schedule -/
theorem restartable {c : Cfg} {s : State} (h : Reach c s) (hi : s.ctl = .idle) (hs : s.started = false) :
    ∃ s', Steps c s s' ∧ Reach c s' ∧ s'.ctl = .idle ∧ s'.started = true ∧
      s'.cur = some freshRunning ∧ s'.flag = false ∧ s'.others = [] ∧ s'.err = false := by
  have h1 := (safe_parts (reach_safe h)).2.1.2.2.2
  simp only [okRestart, hi, hs, decide_true, Bool.not_false, Bool.and_self, Bool.not_true,
    Bool.false_or] at h1
  split at h1
  · next s' hr =>
    simp only [Bool.and_eq_true, decide_eq_true_eq, Bool.not_eq_true', List.isEmpty_iff] at h1
    obtain ⟨⟨⟨⟨⟨a, b⟩, d⟩, e⟩, f⟩, g⟩ := h1
    have hst := runCall_steps hr
    exact ⟨s', hst, hst.reach h, a, b, d, e, f, g⟩
  · cases h1

/-- "a started worker is alive and keeps calling target until stop is requested": whenever the
    controller believes the worker started and no `thread_stop` call is in progress, the handle
    refers to a worker that is alive, has not left its loop (final not called), the stop flag is
    clear, there is no other worker, and — running alone — the worker performs a target call
    within `loopProg.length` of its own steps (it cannot leave the loop while the flag is clear) -/
theorem alive_while_started {c : Cfg} {s : State} (h : Reach c s) (hs : s.started = true)
    (hn : inStop s = false) :
    ∃ w, s.cur = some w ∧ w.st = .running ∧ w.nFin = 0 ∧ s.flag = false ∧ s.others = [] ∧
      targetSoon c loopProg.length s = true := by
  have h1 := (safe_parts (reach_safe h)).2.2.1
  simp only [okAlive, hs, hn, Bool.not_false, Bool.and_self, Bool.not_true, Bool.false_or] at h1
  split at h1
  · next w hw =>
    simp only [Bool.and_eq_true, decide_eq_true_eq, Bool.not_eq_true', List.isEmpty_iff] at h1
    obtain ⟨⟨⟨⟨a, b⟩, d⟩, e⟩, f⟩ := h1
    exact ⟨w, hw, a, b, d, e, f⟩
  · cases h1

/-- at most one worker thread is alive at any time, and the controller never loses track of a
    live worker (`others`, the live workers no longer referred to by `_thrd`, is empty) -/
theorem single_worker {c : Cfg} {s : State} (h : Reach c s) : live s ≤ 1 ∧ s.others = [] := by
  have h1 := (safe_parts (reach_safe h)).2.2.2.1
  simpa [okSingle] using h1

/-- no call ever raises, and `thread_is_alive()` always returns exactly what the controller
    believes (true between the return of start and the call of stop, false otherwise) -/
theorem no_exception_and_is_alive_right {c : Cfg} {s : State} (h : Reach c s) :
    s.err = false ∧ s.aliveWrong = false := by
  have h1 := (safe_parts (reach_safe h)).2.2.2.2.1
  simpa [okNoErr] using h1

/-- no deadlock: while a call is in progress some thread can take a step -/
theorem no_deadlock {c : Cfg} {s : State} (h : Reach c s) (hc : s.ctl ≠ .idle) : step c s ≠ [] := by
  have h1 := (safe_parts (reach_safe h)).2.2.2.2.2.1
  simp only [okProgress, Bool.or_eq_true, decide_eq_true_eq, Bool.not_eq_true', List.isEmpty_eq_false_iff] at h1
  rcases h1 with h1 | h1
  · exact absurd h1 hc
  · exact h1

/-- a `thread_stop` call in progress can always be completed: scheduling the worker whenever the
    controller is blocked in `join` brings the call to its return (no fairness needed beyond
    "the worker gets to run while the controller waits for it") -/
theorem stop_returns {c : Cfg} {s : State} (h : Reach c s) (hc : inStop s = true) :
    ∃ s', Steps c s s' ∧ Reach c s' ∧ s'.ctl = .idle := by
  have h1 := (safe_parts (reach_safe h)).2.2.2.2.2.2
  simp only [okStopReturns, hc, Bool.not_true, Bool.false_or] at h1
  obtain ⟨s', hs, hi⟩ := finishStop_steps _ h1
  exact ⟨s', hs, hs.reach h, hi⟩

/-- `ReachC` is `Reach` with history counters carried along (same steps, same initial state): forgetting
    the counters gives a `Reach` state … -/
theorem reachC_is_reach {c : Cfg} {s : State} {g : Calls} (h : ReachC c s g) : Reach c s := h.reach

/-- … and every `Reach` state carries counters -/
theorem reach_has_calls {c : Cfg} {s : State} (h : Reach c s) : ∃ g, ReachC c s g := h.exists_calls

/-- "once stop has returned … final once after the last": in every reachable state `s` — any history,
    any schedule — in which a `thread_stop()` call made on a started worker returns (the controller's
    step `s → s'` is the return of that call), the `final` callback has been called EXACTLY once and the
    `init` callback EXACTLY once since the thread of that run was created (exactly zero times for a
    callback that was not given; `g` counts without saturation and is never reset except by
    `threading.Thread(...)`), and in the state `s'` in which the call has returned there is no handle and
    no worker thread, the controller is idle and believes the worker stopped.  (The per-worker monitor of
    the other theorems is forgotten with the terminated worker at `self._thrd = None`, before the return;
    hence the history counters of `ReachC`.) -/
theorem stop_returned_final_once {c : Cfg} {s : State} {g : Calls} (h : ReachC c s g)
    (hs : s.started = true) {v : Option Bool} {s' : State}
    (hr : (Who.ctl, Ev.ret .stop v, s') ∈ stepL c s) :
    g.nFin = expected c.hasFinal ∧ g.nInit = expected c.hasInit ∧
    s'.ctl = .idle ∧ s'.started = false ∧ s'.cur = none ∧ s'.others = [] ∧ live s' = 0 := by
  -- the return step is a controller step
  have hctl : (Ev.ret .stop v, s') ∈ ctlStep c s := by
    simp only [stepL, List.mem_append, List.mem_map, List.mem_filterMap] at hr
    rcases hr with (⟨p, hp, he⟩ | ⟨p, _, he⟩) | ⟨k, _, he⟩
    · cases he; exact hp
    · cases he
    · cases hk : otherStep c s k with
      | none => simp [hk] at he
      | some q => simp [hk] at he
  -- the counters
  have h1 := reachC_okStopRet h
  have hsr : stopReturns c s = true := by
    simp only [stopReturns, List.any_eq_true]
    exact ⟨_, hctl, rfl⟩
  simp only [okStopRet, hsr, hs, Bool.and_self, Bool.not_true, Bool.false_or, Bool.and_eq_true,
    Calls.sat] at h1
  have h1a := of_decide_eq_true h1.1
  have h1b := of_decide_eq_true h1.2
  have e1 := expected_le_one c.hasFinal
  have e2 := expected_le_one c.hasInit
  refine ⟨by omega, by omega, ?_⟩
  -- the state after the return
  have hr' : Reach c s' := Reach.step h.reach (ctlStep_mem_step hctl)
  have hshape : s'.ctl = .idle ∧ s'.started = false := by
    unfold ctlStep at hctl
    split at hctl
    · simp only [List.map_cons, List.map_nil, List.mem_cons, List.not_mem_nil, or_false,
        Prod.mk.injEq] at hctl
      rcases hctl with ⟨h0, _⟩ | ⟨h0, _⟩ | ⟨h0, _⟩ <;> cases h0
    · split at hctl
      · simp only [List.mem_cons, List.not_mem_nil, or_false, Prod.mk.injEq] at hctl
        cases hctl.1
      · split at hctl
        · simp at hctl
        · next ev s'' pc' hex =>
          simp only [List.mem_cons, List.not_mem_nil, or_false, Prod.mk.injEq] at hctl
          obtain ⟨h0, _⟩ := hctl
          subst h0
          unfold execCtl at hex
          split at hex <;> (try split at hex) <;> (try split at hex) <;> simp at hex
        · simp only [List.mem_cons, List.not_mem_nil, or_false, Prod.mk.injEq] at hctl
          obtain ⟨h0, h1⟩ := hctl
          cases h0
          subst h1
          simp [finishCall]
        · simp only [List.mem_cons, List.not_mem_nil, or_false, Prod.mk.injEq] at hctl
          cases hctl.1
  have hn : inStart s' = false := by simp [inStart, hshape.1]
  obtain ⟨a, b, d, _⟩ := no_target_after_stop_returned hr' hshape.2 hn
  exact ⟨hshape.1, hshape.2, a, b, d⟩

/-- the generated programs are well-formed control-flow graphs (no successor index outside) -/
theorem programs_wellformed : progsWf = true := by decide +kernel

/-! ### non-vacuity: the hypotheses of the theorems are met by reachable states
    (paths are successor indices from the initial state; all callbacks given) -/

/-- the worker state that `restartable` promises is the one `create-thread` + `start-thread` make -/
example : freshRunning = ⟨.running, 0, 0, 0, false, false, false, false⟩ := rfl

/-- start() returned and the worker has called init once and then target -/
example : ∃ s, Reach ⟨true, true⟩ s ∧ (fun s => s.started && decide (s.ctl = .idle) &&
    s.cur.any fun w => w.tgt && decide (w.nInit = 1)) s = true :=
  reach_of_path (is := [0, 0, 0, 0, 0, 0, 3, 3, 3, 3]) (by decide +kernel)

/-- a run that has ended: target was called, final exactly once, the loop has returned -/
example : ∃ s, Reach ⟨true, true⟩ s ∧ (fun s => s.cur.any fun w =>
    w.tgt && decide (w.nFin = 1) && decide (w.st = .done)) s = true :=
  reach_of_path (is := [0, 0, 0, 0, 0, 0, 1, 0, 1, 1, 1, 0, 1, 1, 1, 1, 1]) (by decide +kernel)

/-- stop() has returned after a run (flag still set, handle dropped): hypothesis of
    `no_target_after_stop_returned` and of `restartable` after a real run -/
example : ∃ s, Reach ⟨true, true⟩ s ∧ (fun s => !s.started && decide (s.ctl = .idle) && s.flag &&
    s.cur.isNone) s = true :=
  reach_of_path (is := [0, 0, 0, 0, 0, 0, 1, 0, 0, 0, 1, 1, 1, 1, 1, 1, 0, 0, 0]) (by decide +kernel)

/-- … and started again: the second run calls target with the flag clear -/
example : ∃ s, Reach ⟨true, true⟩ s ∧ (fun s => s.started && !s.flag &&
    s.cur.any fun w => w.tgt && decide (w.st = .running)) s = true :=
  reach_of_path (is := [0, 0, 0, 0, 0, 0, 1, 0, 0, 0, 1, 1, 1, 1, 1, 1, 0, 0, 0,
                        0, 0, 0, 0, 0, 0, 3, 3, 3, 3]) (by decide +kernel)

/-- a start call on a started worker is in progress (hypothesis of `start_on_running_noop`) -/
example : ∃ s, Reach ⟨true, true⟩ s ∧ (fun s => s.started && inStart s) s = true :=
  reach_of_path (is := [0, 0, 0, 0, 0, 0, 0]) (by decide +kernel)

/-- a stop call on a never-started worker is in progress (hypothesis of `stop_on_stopped_noop`) -/
example : ∃ s, Reach ⟨true, true⟩ s ∧ (fun s => !s.started && inStop s) s = true :=
  reach_of_path (is := [1]) (by decide +kernel)

/-- the controller is blocked in `join` while the worker is still alive (so `no_deadlock` and
    `stop_returns` talk about a state that exists) -/
example : ∃ s, Reach ⟨true, true⟩ s ∧ (fun s => inStop s && (ctlStep ⟨true, true⟩ s).isEmpty &&
    decide (live s = 1)) s = true :=
  reach_of_path (is := [0, 0, 0, 0, 0, 0, 1, 0, 0, 0, 0]) (by decide +kernel)

/-- a stop call on a started worker is about to return (hypotheses of `stop_returned_final_once`), for
    each of the four callback configurations -/
example : ∃ s g v s', ReachC ⟨true, true⟩ s g ∧ s.started = true ∧
    (Who.ctl, Ev.ret .stop v, s') ∈ stepL ⟨true, true⟩ s :=
  stop_return_exists (reach_of_path (is := [0, 0, 0, 0, 0, 0, 1, 0, 0, 0, 1, 1, 1, 1, 1, 1, 0, 0])
    (by decide +kernel))
example : ∃ s g v s', ReachC ⟨true, false⟩ s g ∧ s.started = true ∧
    (Who.ctl, Ev.ret .stop v, s') ∈ stepL ⟨true, false⟩ s :=
  stop_return_exists (reach_of_path (is := [0, 0, 0, 0, 0, 0, 1, 0, 0, 0, 1, 1, 1, 1, 1, 0, 0])
    (by decide +kernel))
example : ∃ s g v s', ReachC ⟨false, true⟩ s g ∧ s.started = true ∧
    (Who.ctl, Ev.ret .stop v, s') ∈ stepL ⟨false, true⟩ s :=
  stop_return_exists (reach_of_path (is := [0, 0, 0, 0, 0, 0, 1, 0, 0, 0, 1, 1, 1, 1, 1, 0, 0])
    (by decide +kernel))
example : ∃ s g v s', ReachC ⟨false, false⟩ s g ∧ s.started = true ∧
    (Who.ctl, Ev.ret .stop v, s') ∈ stepL ⟨false, false⟩ s :=
  stop_return_exists (reach_of_path (is := [0, 0, 0, 0, 0, 0, 1, 0, 0, 0, 1, 1, 1, 1, 0, 0])
    (by decide +kernel))

/-! ### non-vacuity for the other callback configurations (init and / or final absent): the hypotheses
    of the theorems above are met there too, and `expected` is then 0 for the absent callback -/

/-- init only: start() returned and the worker has called init once and then target -/
example : ∃ s, Reach ⟨true, false⟩ s ∧ (fun s => s.started && decide (s.ctl = .idle) &&
    s.cur.any fun w => w.tgt && decide (w.nInit = 1)) s = true :=
  reach_of_path (is := [0, 0, 0, 0, 0, 0, 3, 3, 3, 3]) (by decide +kernel)

/-- init only: a run that has ended without any final call (none was given) -/
example : ∃ s, Reach ⟨true, false⟩ s ∧ (fun s => s.cur.any fun w =>
    w.tgt && decide (w.nInit = 1) && decide (w.nFin = 0) && decide (w.st = .done)) s = true :=
  reach_of_path (is := [0, 0, 0, 0, 0, 0, 1, 0, 1, 1, 1, 0, 1, 1, 1, 1]) (by decide +kernel)

/-- final only: start() returned and the worker calls target without any init call -/
example : ∃ s, Reach ⟨false, true⟩ s ∧ (fun s => s.started && decide (s.ctl = .idle) &&
    s.cur.any fun w => w.tgt && decide (w.nInit = 0)) s = true :=
  reach_of_path (is := [0, 0, 0, 0, 0, 0, 3, 3, 3]) (by decide +kernel)

/-- final only: a run that has ended: target was called, final exactly once, the loop has returned -/
example : ∃ s, Reach ⟨false, true⟩ s ∧ (fun s => s.cur.any fun w =>
    w.tgt && decide (w.nInit = 0) && decide (w.nFin = 1) && decide (w.st = .done)) s = true :=
  reach_of_path (is := [0, 0, 0, 0, 0, 0, 1, 0, 1, 1, 0, 1, 1, 1, 1, 1]) (by decide +kernel)

/-- no init, no final: the worker calls target … -/
example : ∃ s, Reach ⟨false, false⟩ s ∧ (fun s => s.started && decide (s.ctl = .idle) &&
    s.cur.any fun w => w.tgt && decide (w.nInit = 0)) s = true :=
  reach_of_path (is := [0, 0, 0, 0, 0, 0, 3, 3, 3]) (by decide +kernel)

/-- … and its run ends with neither callback called -/
example : ∃ s, Reach ⟨false, false⟩ s ∧ (fun s => s.cur.any fun w =>
    w.tgt && decide (w.nInit = 0) && decide (w.nFin = 0) && decide (w.st = .done)) s = true :=
  reach_of_path (is := [0, 0, 0, 0, 0, 0, 1, 0, 1, 1, 0, 1, 1, 1, 1]) (by decide +kernel)

/-- stop() has returned after a run (hypothesis of `no_target_after_stop_returned` / `restartable`), and
    the controller is blocked in `join` on a live worker (`no_deadlock`, `stop_returns`), in the three
    other configurations -/
example : ∃ s, Reach ⟨true, false⟩ s ∧ (fun s => !s.started && decide (s.ctl = .idle) && s.flag &&
    s.cur.isNone) s = true :=
  reach_of_path (is := [0, 0, 0, 0, 0, 0, 1, 0, 0, 0, 1, 1, 1, 1, 1, 0, 0, 0]) (by decide +kernel)
example : ∃ s, Reach ⟨false, true⟩ s ∧ (fun s => !s.started && decide (s.ctl = .idle) && s.flag &&
    s.cur.isNone) s = true :=
  reach_of_path (is := [0, 0, 0, 0, 0, 0, 1, 0, 0, 0, 1, 1, 1, 1, 1, 0, 0, 0]) (by decide +kernel)
example : ∃ s, Reach ⟨false, false⟩ s ∧ (fun s => !s.started && decide (s.ctl = .idle) && s.flag &&
    s.cur.isNone) s = true :=
  reach_of_path (is := [0, 0, 0, 0, 0, 0, 1, 0, 0, 0, 1, 1, 1, 1, 0, 0, 0]) (by decide +kernel)
example : ∃ s, Reach ⟨true, false⟩ s ∧ (fun s => inStop s && (ctlStep ⟨true, false⟩ s).isEmpty &&
    decide (live s = 1)) s = true :=
  reach_of_path (is := [0, 0, 0, 0, 0, 0, 1, 0, 0, 0, 0]) (by decide +kernel)
example : ∃ s, Reach ⟨false, true⟩ s ∧ (fun s => inStop s && (ctlStep ⟨false, true⟩ s).isEmpty &&
    decide (live s = 1)) s = true :=
  reach_of_path (is := [0, 0, 0, 0, 0, 0, 1, 0, 0, 0, 0]) (by decide +kernel)
example : ∃ s, Reach ⟨false, false⟩ s ∧ (fun s => inStop s && (ctlStep ⟨false, false⟩ s).isEmpty &&
    decide (live s = 1)) s = true :=
  reach_of_path (is := [0, 0, 0, 0, 0, 0, 1, 0, 0, 0, 0]) (by decide +kernel)

/-- a start call on a started worker / a stop call on a never-started worker is in progress
    (`start_on_running_noop`, `stop_on_stopped_noop`) without any callback -/
example : ∃ s, Reach ⟨false, false⟩ s ∧ (fun s => s.started && inStart s) s = true :=
  reach_of_path (is := [0, 0, 0, 0, 0, 0, 0]) (by decide +kernel)
example : ∃ s, Reach ⟨false, false⟩ s ∧ (fun s => !s.started && inStop s) s = true :=
  reach_of_path (is := [1]) (by decide +kernel)

/-! ### Round 7: any number of start/stop cycles, on the observable trace

    `Run c s tr` (`WorkerCycles.lean`) is `Reach c s` together with the chronological list `tr` of the
    events of the run (`run_iff_reach`); `cnt e tr` is the number of occurrences of `e` in the WHOLE trace
    (unsaturated, never reset).  `cnt .new tr` = number of `threading.Thread(...)` creations = number of
    runs begun.  Proof: a trace monitor (`Mon`) is a pure fold over the trace; the product of the model with
    the monitor cut off at 2 has 116 states per callback configuration, certified by the kernel
    (`Lemmas/R7C13.lean: certM_??`); induction over `Run` lifts the per-run facts to totals over
    unboundedly many cycles (`run_counts`). -/

/-- a run with a trace is exactly a reachable state: every theorem above applies to the end state of a
    `Run`, and every reachable state is the end of some `Run` -/
theorem run_iff_reach {c : Cfg} {s : State} : (∃ tr, Run c s tr) ↔ Reach c s :=
  ⟨fun ⟨_, h⟩ => h.reach, fun h => h.exists_run⟩

/-- "init once per start, final once per stop", over ANY number of cycles and under any schedule: in
    every state of every run, with `N` = number of worker threads created so far, the total number of init
    calls lies between `N − 1` and `N` (times 1 if init was given, 0 if not), likewise final calls and
    loop exits: all runs but possibly the current one are complete, and no run ever calls init / final
    twice or exits twice -/
theorem callbacks_counted_any_cycles {c : Cfg} {s : State} {tr : List Ev} (h : Run c s tr) :
    expected c.hasInit * (cnt .new tr - 1) ≤ cnt .init tr ∧
    cnt .init tr ≤ expected c.hasInit * cnt .new tr ∧
    expected c.hasFinal * (cnt .new tr - 1) ≤ cnt .final tr ∧
    cnt .final tr ≤ expected c.hasFinal * cnt .new tr ∧
    cnt .new tr - 1 ≤ cnt .exit tr ∧ cnt .exit tr ≤ cnt .new tr := by
  have h1 := run_counts h
  have h2 := run_mon_facts h
  generalize monOf tr = m at h1 h2
  rcases m with ⟨ni, nf, ne, fr, st, bd⟩
  rcases c with ⟨_ | _, _ | _⟩ <;> cases fr <;> simp [expected] at h1 h2 ⊢ <;> omega

/-- whenever the worker is stopped (the last returned start/stop call was not `start`, no start call
    in progress) — after ANY number `N` of start/stop cycles — init has been called exactly `N` times,
    final exactly `N` times (0 for an absent callback) and exactly `N` worker loops have returned, where
    `N` is the number of worker threads ever created: every cycle contributed exactly one init, one
    final and one exit, none is outstanding -/
theorem stopped_counts_exact {c : Cfg} {s : State} {tr : List Ev} (h : Run c s tr)
    (hs : s.started = false) (hn : inStart s = false) :
    cnt .init tr = expected c.hasInit * cnt .new tr ∧
    cnt .final tr = expected c.hasFinal * cnt .new tr ∧
    cnt .exit tr = cnt .new tr := by
  have h1 := run_counts h
  have h2 := run_mon_facts h
  have hq : quiet s = true := by simp [quiet, hs, hn]
  have h3 := fun hf => h2.2.2.2.2.2 hf (Or.inl hq)
  have h4 := h2.2.2.2.2.1
  generalize monOf tr = m at h1 h3 h4
  rcases m with ⟨ni, nf, ne, fr, st, bd⟩
  rcases c with ⟨_ | _, _ | _⟩ <;> cases fr <;> simp [expected] at h1 h3 h4 ⊢ <;> omega

/-- a new worker thread is created only after the previous one is completely finished: at every
    `threading.Thread(...)` step that is not the first, every earlier run has called init once, final
    once (0 if absent) and its loop has returned -/
theorem new_only_after_previous_run_complete {c : Cfg} {s : State} {tr : List Ev} (h : Run c s tr)
    {p : Who × Ev × State} (hp : p ∈ stepL c s) (hnew : p.2.1 = Ev.new) :
    cnt .init tr = expected c.hasInit * cnt .new tr ∧
    cnt .final tr = expected c.hasFinal * cnt .new tr ∧
    cnt .exit tr = cnt .new tr := by
  have h1 := run_counts h
  have h2 := run_mon_facts h
  have h3 := fun hf => h2.2.2.2.2.2 hf (Or.inr ⟨p, hp, hnew⟩)
  have h4 := h2.2.2.2.2.1
  generalize monOf tr = m at h1 h3 h4
  rcases m with ⟨ni, nf, ne, fr, st, bd⟩
  rcases c with ⟨_ | _, _ | _⟩ <;> cases fr <;> simp [expected] at h1 h3 h4 ⊢ <;> omega

/-- "once stop has returned the target is neither running nor ever called again until the next start", on
    the trace and for every cycle: scanning the events of any run in order, from `__init__` resp. from each
    return of `thread_stop` up to the next entry into `thread_start` there is no init / target / final call,
    no thread creation, start or exit (`quietOk` is a function of the event list alone) -/
theorem no_activity_while_stopped {c : Cfg} {s : State} {tr : List Ev} (h : Run c s tr) :
    quietOk true tr = true := run_quietOk h

/-- `quietOk` unfolded at one position: if the prefix `a` of a run's trace ends the stopped phase
    (its last start/stop boundary event is a return of `thread_stop`, or there is none) then the next
    event is not a callback call -/
theorem quietOk_split (st : Bool) (a : List Ev) (e : Ev) (b : List Ev)
    (h : quietOk st (a ++ e :: b) = true) (hst : a.foldl nextStopped st = true) :
    e.isActivity = false := by
  induction a generalizing st with
  | nil =>
    simp only [List.nil_append, quietOk, List.foldl_nil] at h hst
    subst hst
    simp only [Bool.true_and, Bool.and_eq_true, Bool.not_eq_true'] at h
    exact h.1
  | cons x xs ih =>
    simp only [List.cons_append, quietOk, Bool.and_eq_true, List.foldl_cons] at h hst
    exact ih _ h.2 hst

/-- predicate of the next example -/
def r7ex1 : State × List Ev → Bool := fun q =>
        !q.1.started && !inStart q.1 && decide (q.1.ctl = .idle) && decide (cnt .new q.2 = 2) &&
    decide (cnt .init q.2 = 2) && decide (cnt .target q.2 = 2) && decide (cnt .final q.2 = 2)

/-- non-vacuity: two complete start/stop cycles with a target call in each (all callbacks given): the
    end state is stopped, two threads were created, init / target / final were called twice in all -/
example : ∃ s tr, Run ⟨true, true⟩ s tr ∧ r7ex1 (s, tr) = true :=
  run_of_path (is := [0,0,0,0,0,0,1,0,1,1,1,0,1,1,1,1,1,0,0,0,0,
                      0,0,0,0,0,0,1,0,1,1,1,0,1,1,1,1,1,0,0,0,0]) (by decide +kernel)

/-- predicate of the next example -/
def r7ex2 : State × List Ev → Bool := fun q =>
        decide (cnt .new q.2 = 1) && (stepL ⟨true, true⟩ q.1).any fun p => decide (p.2.1 = Ev.new)

/-- non-vacuity: the second `threading.Thread(...)` step (hypothesis of
    `new_only_after_previous_run_complete` with one earlier run) -/
example : ∃ s tr, Run ⟨true, true⟩ s tr ∧ r7ex2 (s, tr) = true :=
  run_of_path (is := [0,0,0,0,0,0,1,0,1,1,1,0,1,1,1,1,1,0,0,0,0, 0,0,0]) (by decide +kernel)

/-- predicate of the next example -/
def r7ex3 : State × List Ev → Bool := fun q =>
        q.1.started && decide (cnt .new q.2 = 2) && decide (cnt .init q.2 = 2) &&
    decide (cnt .final q.2 = 1) && decide (cnt .exit q.2 = 1)

/-- non-vacuity: mid-run (second worker running, has called init, not final): the bounds of
    `callbacks_counted_any_cycles` are strict there — 2 threads, 2 init calls, 1 final call -/
example : ∃ s tr, Run ⟨true, true⟩ s tr ∧ r7ex3 (s, tr) = true :=
  run_of_path (is := [0,0,0,0,0,0,1,0,1,1,1,0,1,1,1,1,1,0,0,0,0, 0,0,0,0,0,0,3,3]) (by decide +kernel)

/-- predicate of the next example -/
def r7ex4 : State × List Ev → Bool := fun q =>
        !q.1.started && !inStart q.1 && decide (cnt .new q.2 = 3) && decide (cnt .init q.2 = 0) &&
    decide (cnt .final q.2 = 0) && decide (cnt .exit q.2 = 3)

/-- non-vacuity without callbacks: three cycles, no init / final call at all, three exits -/
example : ∃ s tr, Run ⟨false, false⟩ s tr ∧ r7ex4 (s, tr) = true :=
  run_of_path (is := [0,0,0,0,0,0,1,0,0,0,1,1,1,1,0,0,0, 0,0,0,0,0,0,1,0,0,0,1,1,1,1,0,0,0,
                      0,0,0,0,0,0,1,0,0,0,1,1,1,1,0,0,0]) (by decide +kernel)

end Nxs.C13
