/-
  C14 — the simulated device answers like a conforming NxScope device.
  Property theorems only (helper lemmas in Lemmas/Dummy.lean, Lemmas/DummyHeap.lean).
  Model: `Dummy.lean` (one instance: its channel objects `cs` and its state `i`).  The reference device is written
  out by hand here from the NxScope protocol (`Req`, `refChans`, `refFlag`, `refAnswer`); `Spec.wire` is the
  hand-written frame.  The statements quantify over every state, hence over every history that leads to it.
-/
import NxsModel.Lemmas.Dummy
import NxsModel.Lemmas.DummyBatch
import NxsModel.Props.C02
import NxsModel.Props.C17
namespace Nxs.C14
open Nxs Nxs.Spec Nxs.Dummy

/-! ### the reference device -/

/-- well-formed requests, in single / all / bulk form -/
inductive Req where
  | cmninfo
  | chinfo (c : Nat)
  | start (b : Bool)
  | enSingle (c : Nat) (v : Bool)
  | enAll (v : Bool)
  | enBulk (vs : List Bool)
  | divSingle (c v : Nat)
  | divAll (v : Nat)
  | divBulk (vs : List Nat)
  deriving Repr

def Req.fid : Req → Nat
  | .cmninfo => 2 | .chinfo _ => 3 | .start _ => 5
  | .enSingle .. | .enAll _ | .enBulk _ => 6
  | .divSingle .. | .divAll _ | .divBulk _ => 7

/-- NxScope request payloads: set requests are `flags, channel, value…` with flags 0 = single, 1 = bulk, 2 = all -/
def Req.payload : Req → Bytes
  | .cmninfo => []
  | .chinfo c => [byte c]
  | .start b => [byte (b2n b)]
  | .enSingle c v => [0, byte c, byte (b2n v)]
  | .enAll v => [2, 0, byte (b2n v)]
  | .enBulk vs => 1 :: 0 :: vs.map fun v => byte (b2n v)
  | .divSingle c v => [0, byte c, byte v]
  | .divAll v => [2, 0, byte v]
  | .divBulk vs => 1 :: 0 :: vs.map byte

/-- the request addresses existing channels, carries one value per channel in bulk form, dividers are 8-bit -/
def Req.WF (n : Nat) : Req → Prop
  | .chinfo c => c < n
  | .enSingle c _ => c < n
  | .enBulk vs => vs.length = n
  | .divSingle c v => c < n ∧ v ≤ 255
  | .divAll v => v ≤ 255
  | .divBulk vs => vs.length = n ∧ ∀ v ∈ vs, v ≤ 255
  | _ => True

/-- enable vector of a conforming device after the request -/
def refEns (ens : List Bool) : Req → List Bool
  | .enSingle c v => ens.set c v
  | .enAll v => List.replicate ens.length v
  | .enBulk vs => vs
  | _ => ens

def refDivs (divs : List Int) : Req → List Int
  | .divSingle c v => divs.set c (v : Int)
  | .divAll v => List.replicate divs.length (v : Int)
  | .divBulk vs => vs.map Int.ofNat
  | _ => divs

def refFlag (started : Bool) : Req → Bool
  | .start b => b
  | _ => started

/-- channel objects of a conforming device after the request: only enable / divider of the addressed channels -/
def refChans (cs : List Chan) (r : Req) : List Chan :=
  match r with
  | .enSingle .. | .enAll _ | .enBulk _ => withEns cs (refEns (ensOf cs) r)
  | .divSingle .. | .divAll _ | .divBulk _ => withDivs cs (refDivs (divsOf cs) r)
  | _ => cs

/-- the ACK frame (return code 0) iff the device advertises ACK support (bit 1 of the flags byte) -/
def refAck (flags : Nat) : List Bytes := if flags.testBit 1 then [wire 4 [0, 0, 0, 0]] else []

/-- the response(s) of a conforming device with channel state `cs`, `chmax = cs.length` -/
def refAnswer (cs : List Chan) (flags rxp : Nat) : Req → List Bytes
  | .cmninfo => [wire 2 [byte cs.length, byte flags, byte rxp]]
  | .chinfo c =>
    match cs[c]? with
    | some ch => [wire 3 ([byte (b2n ch.en), byte ch.type, byte ch.vdim, byte ch.div.toNat, byte ch.mlen] ++ ch.name)]
    | none => []
  | _ => refAck flags

/-- a device definition whose description fits the info frames -/
structure DevOk (cs : List Chan) (i : Inst) : Prop where
  len : cs.length = i.chmax
  chmax : i.chmax ≤ 255
  flags : i.flags ≤ 255
  rxp : i.rxp ≤ 255
  chans : ∀ c ∈ cs, ChanOk c

theorem refEns_length (ens : List Bool) (r : Req) (h : r.WF ens.length) : (refEns ens r).length = ens.length := by
  cases r <;> simp_all [refEns, Req.WF]

theorem refDivs_length (ds : List Int) (r : Req) (h : r.WF ds.length) : (refDivs ds r).length = ds.length := by
  cases r <;> simp_all [refDivs, Req.WF]

theorem payload_length (n : Nat) (r : Req) (hn : n ≤ 255) (h : r.WF n) : r.payload.length ≤ 65529 := by
  cases r <;> simp_all [Req.payload, Req.WF] <;> omega

theorem ack_eq (flags : Nat) :
    (if Info.ackSupported flags then [wire 4 [0, 0, 0, 0]] else []) = refAck flags := by
  unfold refAck; rw [(Info.flags_derived flags).2]

/-- **the master equation**: one receive step on a well-formed request (followed by any padding) is one step of the
    reference device — state, stream flag, responses — and the receive thread lives on -/
theorem serves (cs : List Chan) (i : Inst) (r : Req) (z : Bytes) (rest : List Bytes) (hd : DevOk cs i)
    (hwf : r.WF cs.length) (halive : i.recvThr = .alive) (hq : i.qwrite = (wire r.fid r.payload ++ z) :: rest) :
    recvStep cs i = (refChans cs r, { i with qwrite := rest, flag := refFlag i.flag r,
                                             qread := i.qread ++ refAnswer cs i.flags i.rxp r }, none) := by
  have hlen := hd.len
  have hn : cs.length ≤ 255 := by rw [hlen]; exact hd.chmax
  have hel : (ensOf cs).length = cs.length := by simp [ensOf]
  have hdl : (divsOf cs).length = cs.length := by simp [divsOf]
  have hpl := payload_length cs.length r hn hwf
  cases r with
  | cmninfo =>
    rw [recvStep_cmninfo cs i z rest hd.chmax hd.flags hd.rxp halive hq]
    simp only [refChans, refFlag, refAnswer, hlen]
  | chinfo c =>
    have hc : c < cs.length := hwf
    have hch : cs[c]? = some cs[c] := List.getElem?_eq_getElem hc
    rw [recvStep_chinfo cs i c cs[c] z rest (by omega) hch (hd.chans _ (List.getElem_mem hc)) halive hq]
    simp only [refChans, refFlag, refAnswer, hch]
  | start b =>
    rw [recvStep_start cs i b z rest rfl halive hq, ack_eq]
    simp only [refChans, refFlag, refAnswer]
  | enSingle c v =>
    have hc : c < cs.length := hwf
    rw [recvStep_enable cs i _ z rest ((ensOf cs).set c v) rfl hpl (by simp [Req.payload])
      (by rw [← hlen]; exact Requests.enDecode_single cs.length c v (ensOf cs) hel hc hn) (by simp [ensOf]) halive hq, ack_eq]
    simp only [refChans, refFlag, refAnswer, refEns]
  | enAll v =>
    rw [recvStep_enable cs i _ z rest (List.replicate cs.length v) rfl hpl (by simp [Req.payload])
      (by rw [← hlen]; exact Requests.enDecode_all cs.length v (ensOf cs)) (by simp) halive hq, ack_eq]
    simp only [refChans, refFlag, refAnswer, refEns, hel]
  | enBulk vs =>
    have hv : vs.length = cs.length := hwf
    rw [recvStep_enable cs i _ z rest vs rfl hpl (by simp [Req.payload])
      (by rw [← hlen]; exact Requests.enDecode_bulk cs.length vs (ensOf cs) hv) hv halive hq, ack_eq]
    simp only [refChans, refFlag, refAnswer, refEns]
  | divSingle c v =>
    obtain ⟨hc, hv⟩ : c < cs.length ∧ v ≤ 255 := hwf
    rw [recvStep_div cs i _ z rest ((divsOf cs).set c (v : Int)) rfl hpl (by simp [Req.payload])
      (by rw [← hlen]; exact Requests.divDecode_single cs.length c v (divsOf cs) hdl hc hn hv) (by simp [divsOf]) halive hq, ack_eq]
    simp only [refChans, refFlag, refAnswer, refDivs]
  | divAll v =>
    have hv : v ≤ 255 := hwf
    rw [recvStep_div cs i _ z rest (List.replicate cs.length (v : Int)) rfl hpl (by simp [Req.payload])
      (by rw [← hlen]; exact Requests.divDecode_all cs.length v (divsOf cs) hv) (by simp) halive hq, ack_eq]
    simp only [refChans, refFlag, refAnswer, refDivs, hdl]
  | divBulk vs =>
    obtain ⟨hl, hv⟩ : vs.length = cs.length ∧ ∀ v ∈ vs, v ≤ 255 := hwf
    rw [recvStep_div cs i _ z rest (vs.map Int.ofNat) rfl hpl (by simp [Req.payload])
      (by rw [← hlen]; exact Requests.divDecode_bulk cs.length vs (divsOf cs) hl hv) (by simpa using hl) halive hq, ack_eq]
    simp only [refChans, refFlag, refAnswer, refDivs]

/-- **answers_conform**: the next response(s) are exactly those of a conforming device — its common info, the
    addressed channel's info, an ACK (code 0) after every set / start request iff ACK support is advertised —
    nothing else is queued and the receive thread does not die -/
theorem answers_conform (cs : List Chan) (i : Inst) (r : Req) (z : Bytes) (rest : List Bytes) (hd : DevOk cs i)
    (hwf : r.WF cs.length) (halive : i.recvThr = .alive) (hq : i.qwrite = (wire r.fid r.payload ++ z) :: rest) :
    (recvStep cs i).2.1.qread = i.qread ++ refAnswer cs i.flags i.rxp r ∧
    (recvStep cs i).2.2 = none ∧ (recvStep cs i).2.1.recvThr = .alive ∧ (recvStep cs i).2.1.qwrite = rest := by
  rw [serves cs i r z rest hd hwf halive hq]
  exact ⟨rfl, rfl, halive, rfl⟩

/-- the same through the interface's `write` with any write padding: what `write` queues is the frame plus zeros -/
theorem answers_conform_written (cs : List Chan) (i : Inst) (r : Req) (hd : DevOk cs i) (hwf : r.WF cs.length)
    (halive : i.recvThr = .alive) (hq : i.qwrite = []) :
    let s1 := step cs i (.write (wire r.fid r.payload))
    (recvStep s1.1 s1.2.1).2.1.qread = i.qread ++ refAnswer cs i.flags i.rxp r ∧ (recvStep s1.1 s1.2.1).2.2 = none := by
  obtain ⟨k, _, _, hk⟩ := Pad.dataAlign_spec i.wpad (wire r.fid r.payload)
  have h := answers_conform cs { i with qwrite := i.qwrite ++ [Pad.dataAlign i.wpad (wire r.fid r.payload)] } r
    (List.replicate k 0) [] ⟨hd.len, hd.chmax, hd.flags, hd.rxp, hd.chans⟩ hwf halive (by simp [hq, hk])
  exact ⟨h.1, h.2.1⟩

/-- **applies_exactly**: enable and divider requests change exactly the addressed channels' enable / divider —
    the vectors become the reference vectors, a start request changes only the stream flag, and nothing else of
    any channel object (type, dimension, name, generator state, call counter) changes -/
theorem applies_exactly (cs : List Chan) (i : Inst) (r : Req) (z : Bytes) (rest : List Bytes) (hd : DevOk cs i)
    (hwf : r.WF cs.length) (halive : i.recvThr = .alive) (hq : i.qwrite = (wire r.fid r.payload ++ z) :: rest) :
    ensOf (recvStep cs i).1 = refEns (ensOf cs) r ∧ divsOf (recvStep cs i).1 = refDivs (divsOf cs) r ∧
    (recvStep cs i).2.1.flag = refFlag i.flag r ∧
    (recvStep cs i).1.map Chan.frozen = cs.map Chan.frozen := by
  rw [serves cs i r z rest hd hwf halive hq]
  have hel : (ensOf cs).length = cs.length := by simp [ensOf]
  have hdl : (divsOf cs).length = cs.length := by simp [divsOf]
  have h1 := refEns_length (ensOf cs) r (by rw [hel]; exact hwf)
  have h2 := refDivs_length (divsOf cs) r (by rw [hdl]; exact hwf)
  rw [hel] at h1; rw [hdl] at h2
  refine ⟨?_, ?_, rfl, ?_⟩ <;> cases r <;>
    simp only [refChans, ensOf_withEns _ _ h1, divsOf_withEns _ _ h1, ensOf_withDivs _ _ h2, divsOf_withDivs _ _ h2,
      frozen_withEns _ _ h1, frozen_withDivs _ _ h2] <;> rfl

/-- single form: every other channel keeps its object unchanged -/
theorem single_touches_one (cs : List Chan) (c k : Nat) (v : Bool) (hk : k ≠ c) :
    (refChans cs (.enSingle c v))[k]? = cs[k]? := by
  simp only [refChans, refEns, withEns, List.getElem?_zipWith, ensOf, List.getElem?_set_ne (Ne.symm hk), List.getElem?_map]
  cases cs[k]? <;> simp

/-! ### junk -/

/-- **ignores_junk**: a write the NxScope receiver does not accept (C02: no start byte, bad header, inconsistent
    length, bad checksum) only leaves the request queue; channel state, stream flag, response queue and both
    threads are as before -/
theorem ignores_junk (cs : List Chan) (i : Inst) (d : Bytes) (rest : List Bytes)
    (hd : Dispatch.recvHandle d = .ignored) (halive : i.recvThr = .alive) (hq : i.qwrite = d :: rest) :
    recvStep cs i = (cs, { i with qwrite := rest }, none) := recvStep_ignored cs i d rest hd halive hq

/-- padding-only writes (C17) -/
theorem ignores_padding (cs : List Chan) (i : Inst) (k : Nat) (rest : List Bytes) (halive : i.recvThr = .alive)
    (hq : i.qwrite = List.replicate k 0 :: rest) : recvStep cs i = (cs, { i with qwrite := rest }, none) :=
  ignores_junk cs i _ rest (C17.padding_only_ignored k) halive hq

/-- noise without a start byte (C02) -/
theorem ignores_noise (cs : List Chan) (i : Inst) (d : Bytes) (rest : List Bytes) (hn : Serial.hdrFind d = none)
    (halive : i.recvThr = .alive) (hq : i.qwrite = d :: rest) : recvStep cs i = (cs, { i with qwrite := rest }, none) :=
  ignores_junk cs i d rest (C02.no_sof_ignored d hn) halive hq

/-- a valid request damaged by one or two bit flips, any odd number of flips or a burst of up to 16 bits, with
    start byte and length bytes intact (C02 error detection, frames up to 4095 bytes) -/
theorem ignores_corrupted (cs : List Chan) (i : Inst) (w e : Bytes) (fid : Nat) (pl : Bytes) (rest : List Bytes)
    (hw : Serial.frameDecode w = .ok ⟨fid, pl⟩) (hexact : w.length = flen w) (hlen : w.length ≤ 4095)
    (hl : e.length = w.length) (h1 : e.getD 1 0 = 0) (h2 : e.getD 2 0 = 0)
    (hclass : weight e = 1 ∨ weight e = 2 ∨ weight e % 2 = 1 ∨ (weight e ≠ 0 ∧ lastSet e - firstSet e < 16))
    (hsof : Serial.hdrFind (xorBytes w e) = some 0)
    (halive : i.recvThr = .alive) (hq : i.qwrite = xorBytes w e :: rest) :
    recvStep cs i = (cs, { i with qwrite := rest }, none) :=
  ignores_junk cs i _ rest (C02.dispatcher_ignores_corrupted w e fid pl hw hexact hlen hl h1 h2 hclass hsof) halive hq

/-- any number of ignorable writes, each followed by a receive step: the machine is where it was and still live -/
theorem ignores_junk_history (cs : List Chan) (i : Inst) (ds : List Bytes)
    (hds : ∀ d ∈ ds, Dispatch.recvHandle (Pad.dataAlign i.wpad d) = .ignored)
    (halive : i.recvThr = .alive) (hq : i.qwrite = []) :
    run cs i (ds.flatMap fun d => [.write d, .recvStep]) = (cs, i, (ds.flatMap fun _ => [Obs.none, Obs.none])) := by
  induction ds with
  | nil => rfl
  | cons d ds ih =>
    have h1 := recvStep_ignored cs { i with qwrite := i.qwrite ++ [Pad.dataAlign i.wpad d] } _ []
      (hds d (by simp)) halive (by simp [hq])
    have hi : ({ i with qwrite := [] } : Inst) = i := by rw [← hq]
    simp only [List.flatMap_cons, List.cons_append, List.nil_append, run, step]
    rw [h1]
    simp only [stepOutObs, hi]
    rw [ih (fun x hx => hds x (by simp [hx]))]

/-! ### streaming -/

/-- **stream_only_when_started**: while the stream is not started a stream-thread iteration produces nothing and
    changes nothing (no sample is taken, no generator advances) -/
theorem stream_only_when_started (cs : List Chan) (i : Inst) (h : i.flag = false) :
    streamStep cs i = (cs, i, none) := by
  unfold streamStep
  split
  · rfl
  · rw [if_pos (by simp [Gen.Dummy.streamWaitsStarted, h])]

/-- no frame of a whole history of stream steps either -/
theorem stream_only_when_started_history (cs : List Chan) (i : Inst) (n : Nat) (h : i.flag = false) :
    run cs i (List.replicate n .streamStep) = (cs, i, List.replicate n Obs.none) := by
  induction n with
  | zero => rfl
  | succ n ih =>
    simp only [List.replicate_succ, run, step]
    rw [stream_only_when_started cs i h]
    simp only [stepOutObs]
    rw [ih]

/-- **only_enabled**: every sample of a batch belongs to an enabled channel; the batch leaves the enable flags
    alone and does not touch the object of a disabled channel -/
theorem only_enabled (cs : List Chan) (n : Nat) :
    (∀ s ∈ (dataGet cs n).2, (ensOf cs)[s.chan]? = some true) ∧ ensOf (dataGet cs n).1 = ensOf cs ∧
    (∀ (c : Nat) (ch : Chan), cs[c]? = some ch → ch.en = false → (dataGet cs n).1[c]? = some ch) :=
  ⟨fun s hs => dataGet_enabled rfl cs n s hs, ensOf_dataGet rfl cs n,
   fun c ch hc hen => by rw [(dataGet_chan rfl cs n c ch hc).1, chanIter_disabled ch n hen]⟩

/-- **per_channel_order**, one batch of `n` rounds: the samples of channel `c`, in the order they appear in the
    batch, are the outputs of its function for `n` successive calls (those that are not `None`), each once; its
    object is left in the state after these `n` calls -/
theorem per_channel_order (cs : List Chan) (n c : Nat) (ch : Chan) (hc : cs[c]? = some ch) (hen : ch.en = true) :
    (dataGet cs n).2.filter (fun s => s.chan = c)
      = (ch.outputs n).filterMap (fun o => o.map fun dm => mkSample ch c dm.1 dm.2) ∧
    (dataGet cs n).1[c]? = some (chanIter ch n) := by
  obtain ⟨h1, h2⟩ := dataGet_chan rfl cs n c ch hc
  exact ⟨by rw [h2, chanSamples_outputs ch c n hen], h1⟩

/-- … across batches: `n` rounds then `m` rounds give channel `c` the outputs of `n + m` successive calls — no
    loss, no repetition between frames.  (Requests in between change enable / divider only: `applies_exactly`;
    `start()` puts the function back to its first output: C16 `restart_resets`.) -/
theorem per_channel_order_batches (cs : List Chan) (n m c : Nat) (ch : Chan) (hc : cs[c]? = some ch) :
    (dataGet cs n).2.filter (fun s => s.chan = c) ++ (dataGet (dataGet cs n).1 m).2.filter (fun s => s.chan = c)
      = (dataGet cs (n + m)).2.filter (fun s => s.chan = c) := by
  obtain ⟨h1, h2⟩ := dataGet_chan rfl cs n c ch hc
  rw [h2, (dataGet_chan rfl _ m c _ h1).2, (dataGet_chan rfl cs (n + m) c ch hc).2, chanSamples_add]

/-- under `BatchFits`, a stream step while started queues exactly one frame, the NxScope STREAM frame whose payload
    is the encoding (C15) of the batch, or nothing when the batch has no sample; the stream thread dies only if
    the sample encoder itself raises (a value that does not fit the channel's declared type — C15's domain) -/
theorem stream_step_frame (cs : List Chan) (i : Inst) (halive : i.streamThr = .alive) (hflag : i.flag = true)
    (hfit : BatchFits cs i.snum) :
    streamStep cs i =
      match Stream.streamDataEncode [] (dataGet cs i.snum).2 with
      | .ok (some p) => ((dataGet cs i.snum).1, { i with qread := i.qread ++ [wire 1 p] }, none)
      | .ok none => ((dataGet cs i.snum).1, i, none)
      | .error e => ((dataGet cs i.snum).1, { i with streamThr := .dead }, some e) := by
  unfold streamStep
  rw [if_neg (by rw [halive]; simp), if_neg (by simp [hflag]), produce_eq]
  have hfit := hfit.fits
  unfold fitsPayload at hfit
  cases hd : Stream.streamDataEncode [] (dataGet cs i.snum).2 with
  | error e => rw [frameStreamEncode_err _ e hd]
  | ok o =>
    cases o with
    | none => rw [frameStreamEncode_none _ hd]
    | some p =>
      rw [hd] at hfit
      rw [frameStreamEncode_some _ p hd hfit]

/-- without `BatchFits` the statement is false: the batch is built (generators advance), `frame_create` refuses
    the frame (as C01 demands) and the exception ends the stream thread — finding F17 -/
theorem oversize_batch_kills (cs : List Chan) (i : Inst) (halive : i.streamThr = .alive) (hflag : i.flag = true)
    (hbig : ¬ BatchFits cs i.snum) :
    streamStep cs i = ((dataGet cs i.snum).1, { i with streamThr := .dead }, some .structError) := by
  unfold streamStep
  rw [if_neg (by rw [halive]; simp), if_neg (by simp [hflag]), produce_eq]
  cases hd : Stream.streamDataEncode [] (dataGet cs i.snum).2 with
  | error e => exact absurd ⟨by rw [hd]; trivial⟩ hbig
  | ok o =>
    cases o with
    | none => exact absurd ⟨by rw [hd]; trivial⟩ hbig
    | some p =>
      have hp : ¬ p.length ≤ 65529 := fun h => hbig ⟨by rw [hd]; exact h⟩
      rw [frameStreamEncode_oversize _ p hd (by omega)]

/-- `BatchFits` holds for the default device (`DUMMY_DEV_CHANNELS`) with every channel enabled and the default batch
    size `stream_snum = 100` (kernel evaluation of the whole batch, Lemmas/DummyBatch.lean) -/
example : BatchFits defaultAllEnabled Gen.Dummy.defaultSnum := default_fits
example : defaultAllEnabled.length = 11 ∧ Gen.Dummy.defaultSnum = 100 := by decide

/-- **F17**, the excluded point: four enabled 64-dimensional DOUBLE channels and the default batch size 100 — the
    batch (205 201 bytes) does not fit … -/
example : ¬ BatchFits f17Device 100 := f17_not_fits

/-- … so the stream step ends the device's stream thread with `struct.error` -/
example :
    let i : Inst := { newInst [0, 1, 2, 3] 3 0 100 0 with flag := true, streamThr := .alive }
    (streamStep f17Device i).2.2 = some .structError ∧ (streamStep f17Device i).2.1.streamThr = .dead := by
  intro i
  rw [oversize_batch_kills f17Device i rfl rfl f17_not_fits]
  exact ⟨rfl, rfl⟩

/-! ### non-vacuity -/

/-- the default device answers a channel-info request for channel 1 and an enable-all request -/
example :
    let cs := defaultObjs
    let i : Inst := { newInst (List.range 11) 3 16 100 0 with recvThr := .alive, qwrite := [wire 3 [1], wire 6 [2, 0, 1] ++ [0, 0, 0]] }
    (run cs i [.recvStep, .recvStep, .read, .read]).2.2 =
      [.none, .none, .bytes (wire 3 [0, 10, 1, 0, 0, 0x63, 0x68, 0x61, 0x6e, 0x31]), .bytes (wire 4 [0, 0, 0, 0])] ∧
    ensOf (run cs i [.recvStep, .recvStep]).1 = List.replicate 11 true := by decide +kernel

example : DevOk defaultObjs (newInst (List.range 11) 3 16 100 0) :=
  ⟨by decide, by decide, by decide, by decide, by
    intro c hc
    have : ∀ c ∈ defaultObjs, c.type ≤ 255 ∧ c.vdim ≤ 255 ∧ 0 ≤ c.div ∧ c.div ≤ 255 ∧ c.mlen ≤ 255 ∧ c.name.length ≤ 65524 := by
      decide
    obtain ⟨a, b, c', d, e, f⟩ := this c hc
    exact ⟨a, b, c', d, e, f⟩⟩

end Nxs.C14
