/-
  C14 — the simulated device answers like a conforming NxScope device.
  Property theorems only (helper lemmas in Lemmas/Dummy.lean, Lemmas/DummyHeap.lean).
  Model: `Dummy.lean` (one instance: its channel objects `cs` and its state `i`).  The reference device is written
  out by hand here from the NxScope protocol (`Req`, `refChans`, `refFlag`, `refAnswer`); `Spec.wire` is the
  hand-written frame.  The one-step statements (`serves`, `answers_conform`, `applies_exactly`, `ignores_*`) quantify
  over every state satisfying `DevOk`, a live receive thread and the request at the head of the queue; the history
  section (`step_conforms`, `history_conforms`, `devOk_run`, `alive_run`, `request_after_history`) CONCLUDES these
  hypotheses over every history of well-formed requests interleaved with padding / noise / damaged requests, receive
  steps, stream steps and reads, and shows the machine equal to the reference device (`refRun`) over the whole
  history; `stream_alive_run` / `stream_step_in_history` do the same for the stream thread under `FitsAlong`.
  Junk THROUGH THE INTERFACE: every real write is `Pad.dataAlign wpad` of the bytes handed to `write` (a client sets
  wpad = rxpadding, default 16), so what is queued for a damaged request is `damaged ++ zeros`.  `ignores_corrupted` /
  `ignores_noise` speak about an item that IS the damaged frame / the noise; `ignores_corrupted_padded` (any trailing
  bytes), `ignores_noise_padded`, `ignores_*_written` (through `write` with any write padding) conclude the same for what
  is really queued, and `JunkClass` / `history_conforms_classes` / `alive_run_classes` / `request_after_history_classes`
  restate the history theorems with the junk given by its CLASS (padding, noise without a start byte, a request damaged
  within C02's detection classes with start and length bytes intact) instead of by the hypothesis "the receiver ignores
  the padded bytes".
  Outside the quantifier (accepted): a CRC-valid frame that is not a request (ACK / STREAM id, common-info request
  with a payload) ends the receive thread (`Thr.dead` in the model); only the first frame of one write is handled.
  SCHEDULES are outside the quantifier: iterations of the two device threads are atomic in the model.
  `stream_only_when_started` says that an iteration which BEGINS while the stream is not started produces nothing; with
  real threads `_thread_stream` tests the start event and only then takes the device lock, while `_start_cb` clears the
  event outside that lock and queues the ACK under it — a stream thread descheduled between its test and the lock
  samples and queues a whole batch AFTER the client has read the ACK of its stop request (review finding G2; a legal OS
  schedule, reproduced by the reviewer on the unmodified DummyDev).  Not a statement of this file.
  Names are byte lists here (`DevOk`: at most 65 524 bytes); a Python `str` name that cannot be encoded as UTF-8 (a lone
  surrogate) makes the channel-info encoder raise inside the receive thread (review finding M2): not expressible.
-/
import NxsModel.Lemmas.Dummy
import NxsModel.Lemmas.DummyBatch
import NxsModel.Props.C02
import NxsModel.Props.C17
import NxsModel.Lemmas.DummyPad
namespace Nxs.C14
open Nxs Nxs.Spec Nxs.Dummy

/-! ### the reference device -/

/-- well-formed requests, in single / all / bulk form -/
inductive Req where
  | cmninfo
  | chinfo (c : Nat)
  | start (b : Bool)
  | enSingle (c : Nat) (v : Bool)
  | enAll (v : Bool)
  | enBulk (vs : List Bool)
  | divSingle (c v : Nat)
  | divAll (v : Nat)
  | divBulk (vs : List Nat)
  deriving Repr

def Req.fid : Req → Nat
  | .cmninfo => 2 | .chinfo _ => 3 | .start _ => 5
  | .enSingle .. | .enAll _ | .enBulk _ => 6
  | .divSingle .. | .divAll _ | .divBulk _ => 7

/-- NxScope request payloads: set requests are `flags, channel, value…` with flags 0 = single, 1 = bulk, 2 = all -/
def Req.payload : Req → Bytes
  | .cmninfo => []
  | .chinfo c => [byte c]
  | .start b => [byte (b2n b)]
  | .enSingle c v => [0, byte c, byte (b2n v)]
  | .enAll v => [2, 0, byte (b2n v)]
  | .enBulk vs => 1 :: 0 :: vs.map fun v => byte (b2n v)
  | .divSingle c v => [0, byte c, byte v]
  | .divAll v => [2, 0, byte v]
  | .divBulk vs => 1 :: 0 :: vs.map byte

/-- the request addresses existing channels, carries one value per channel in bulk form, dividers are 8-bit -/
def Req.WF (n : Nat) : Req → Prop
  | .chinfo c => c < n
  | .enSingle c _ => c < n
  | .enBulk vs => vs.length = n
  | .divSingle c v => c < n ∧ v ≤ 255
  | .divAll v => v ≤ 255
  | .divBulk vs => vs.length = n ∧ ∀ v ∈ vs, v ≤ 255
  | _ => True

/-- enable vector of a conforming device after the request -/
def refEns (ens : List Bool) : Req → List Bool
  | .enSingle c v => ens.set c v
  | .enAll v => List.replicate ens.length v
  | .enBulk vs => vs
  | _ => ens

def refDivs (divs : List Int) : Req → List Int
  | .divSingle c v => divs.set c (v : Int)
  | .divAll v => List.replicate divs.length (v : Int)
  | .divBulk vs => vs.map Int.ofNat
  | _ => divs

def refFlag (started : Bool) : Req → Bool
  | .start b => b
  | _ => started

/-- channel objects of a conforming device after the request: only enable / divider of the addressed channels -/
def refChans (cs : List Chan) (r : Req) : List Chan :=
  match r with
  | .enSingle .. | .enAll _ | .enBulk _ => withEns cs (refEns (ensOf cs) r)
  | .divSingle .. | .divAll _ | .divBulk _ => withDivs cs (refDivs (divsOf cs) r)
  | _ => cs

/-- the ACK frame (return code 0) iff the device advertises ACK support (bit 1 of the flags byte) -/
def refAck (flags : Nat) : List Bytes := if flags.testBit 1 then [wire 4 [0, 0, 0, 0]] else []

/-- the response(s) of a conforming device with channel state `cs`, `chmax = cs.length` -/
def refAnswer (cs : List Chan) (flags rxp : Nat) : Req → List Bytes
  | .cmninfo => [wire 2 [byte cs.length, byte flags, byte rxp]]
  | .chinfo c =>
    match cs[c]? with
    | some ch => [wire 3 ([byte (b2n ch.en), byte ch.type, byte ch.vdim, byte ch.div.toNat, byte ch.mlen] ++ ch.name)]
    | none => []
  | _ => refAck flags

/-- a device definition whose description fits the info frames -/
structure DevOk (cs : List Chan) (i : Inst) : Prop where
  len : cs.length = i.chmax
  chmax : i.chmax ≤ 255
  flags : i.flags ≤ 255
  rxp : i.rxp ≤ 255
  chans : ∀ c ∈ cs, ChanOk c

theorem refEns_length (ens : List Bool) (r : Req) (h : r.WF ens.length) : (refEns ens r).length = ens.length := by
  cases r <;> simp_all [refEns, Req.WF]

theorem refDivs_length (ds : List Int) (r : Req) (h : r.WF ds.length) : (refDivs ds r).length = ds.length := by
  cases r <;> simp_all [refDivs, Req.WF]

theorem payload_length (n : Nat) (r : Req) (hn : n ≤ 255) (h : r.WF n) : r.payload.length ≤ 65529 := by
  cases r <;> simp_all [Req.payload, Req.WF] <;> omega

theorem ack_eq (flags : Nat) :
    (if Info.ackSupported flags then [wire 4 [0, 0, 0, 0]] else []) = refAck flags := by
  unfold refAck; rw [(Info.flags_derived flags).2]

/-- **the master equation**: one receive step on a well-formed request (followed by any padding) is one step of the
    reference device — state, stream flag, responses — and the receive thread lives on -/
theorem serves (cs : List Chan) (i : Inst) (r : Req) (z : Bytes) (rest : List Bytes) (hd : DevOk cs i)
    (hwf : r.WF cs.length) (halive : i.recvThr = .alive) (hq : i.qwrite = (wire r.fid r.payload ++ z) :: rest) :
    recvStep cs i = (refChans cs r, { i with qwrite := rest, flag := refFlag i.flag r,
                                             qread := i.qread ++ refAnswer cs i.flags i.rxp r }, none) := by
  have hlen := hd.len
  have hn : cs.length ≤ 255 := by rw [hlen]; exact hd.chmax
  have hel : (ensOf cs).length = cs.length := by simp [ensOf]
  have hdl : (divsOf cs).length = cs.length := by simp [divsOf]
  have hpl := payload_length cs.length r hn hwf
  cases r with
  | cmninfo =>
    rw [recvStep_cmninfo cs i z rest hd.chmax hd.flags hd.rxp halive hq]
    simp only [refChans, refFlag, refAnswer, hlen]
  | chinfo c =>
    have hc : c < cs.length := hwf
    have hch : cs[c]? = some cs[c] := List.getElem?_eq_getElem hc
    rw [recvStep_chinfo cs i c cs[c] z rest (by omega) hch (hd.chans _ (List.getElem_mem hc)) halive hq]
    simp only [refChans, refFlag, refAnswer, hch]
  | start b =>
    rw [recvStep_start cs i b z rest rfl halive hq, ack_eq]
    simp only [refChans, refFlag, refAnswer]
  | enSingle c v =>
    have hc : c < cs.length := hwf
    rw [recvStep_enable cs i _ z rest ((ensOf cs).set c v) rfl hpl (by simp [Req.payload])
      (by rw [← hlen]; exact Requests.enDecode_single cs.length c v (ensOf cs) hel hc hn) (by simp [ensOf]) halive hq, ack_eq]
    simp only [refChans, refFlag, refAnswer, refEns]
  | enAll v =>
    rw [recvStep_enable cs i _ z rest (List.replicate cs.length v) rfl hpl (by simp [Req.payload])
      (by rw [← hlen]; exact Requests.enDecode_all cs.length v (ensOf cs)) (by simp) halive hq, ack_eq]
    simp only [refChans, refFlag, refAnswer, refEns, hel]
  | enBulk vs =>
    have hv : vs.length = cs.length := hwf
    rw [recvStep_enable cs i _ z rest vs rfl hpl (by simp [Req.payload])
      (by rw [← hlen]; exact Requests.enDecode_bulk cs.length vs (ensOf cs) hv) hv halive hq, ack_eq]
    simp only [refChans, refFlag, refAnswer, refEns]
  | divSingle c v =>
    obtain ⟨hc, hv⟩ : c < cs.length ∧ v ≤ 255 := hwf
    rw [recvStep_div cs i _ z rest ((divsOf cs).set c (v : Int)) rfl hpl (by simp [Req.payload])
      (by rw [← hlen]; exact Requests.divDecode_single cs.length c v (divsOf cs) hdl hc hn hv) (by simp [divsOf]) halive hq, ack_eq]
    simp only [refChans, refFlag, refAnswer, refDivs]
  | divAll v =>
    have hv : v ≤ 255 := hwf
    rw [recvStep_div cs i _ z rest (List.replicate cs.length (v : Int)) rfl hpl (by simp [Req.payload])
      (by rw [← hlen]; exact Requests.divDecode_all cs.length v (divsOf cs) hv) (by simp) halive hq, ack_eq]
    simp only [refChans, refFlag, refAnswer, refDivs, hdl]
  | divBulk vs =>
    obtain ⟨hl, hv⟩ : vs.length = cs.length ∧ ∀ v ∈ vs, v ≤ 255 := hwf
    rw [recvStep_div cs i _ z rest (vs.map Int.ofNat) rfl hpl (by simp [Req.payload])
      (by rw [← hlen]; exact Requests.divDecode_bulk cs.length vs (divsOf cs) hl hv) (by simpa using hl) halive hq, ack_eq]
    simp only [refChans, refFlag, refAnswer, refDivs]

/-- **answers_conform**: the next response(s) are exactly those of a conforming device — its common info, the
    addressed channel's info, an ACK (code 0) after every set / start request iff ACK support is advertised —
    nothing else is queued and the receive thread does not die -/
theorem answers_conform (cs : List Chan) (i : Inst) (r : Req) (z : Bytes) (rest : List Bytes) (hd : DevOk cs i)
    (hwf : r.WF cs.length) (halive : i.recvThr = .alive) (hq : i.qwrite = (wire r.fid r.payload ++ z) :: rest) :
    (recvStep cs i).2.1.qread = i.qread ++ refAnswer cs i.flags i.rxp r ∧
    (recvStep cs i).2.2 = none ∧ (recvStep cs i).2.1.recvThr = .alive ∧ (recvStep cs i).2.1.qwrite = rest := by
  rw [serves cs i r z rest hd hwf halive hq]
  exact ⟨rfl, rfl, halive, rfl⟩

/-- the same through the interface's `write` with any write padding: what `write` queues is the frame plus zeros -/
theorem answers_conform_written (cs : List Chan) (i : Inst) (r : Req) (hd : DevOk cs i) (hwf : r.WF cs.length)
    (halive : i.recvThr = .alive) (hq : i.qwrite = []) :
    let s1 := step cs i (.write (wire r.fid r.payload))
    (recvStep s1.1 s1.2.1).2.1.qread = i.qread ++ refAnswer cs i.flags i.rxp r ∧ (recvStep s1.1 s1.2.1).2.2 = none := by
  obtain ⟨k, _, _, hk⟩ := Pad.dataAlign_spec i.wpad (wire r.fid r.payload)
  have h := answers_conform cs { i with qwrite := i.qwrite ++ [Pad.dataAlign i.wpad (wire r.fid r.payload)] } r
    (List.replicate k 0) [] ⟨hd.len, hd.chmax, hd.flags, hd.rxp, hd.chans⟩ hwf halive (by simp [hq, hk])
  exact ⟨h.1, h.2.1⟩

/-- **applies_exactly**: enable and divider requests change exactly the addressed channels' enable / divider —
    the vectors become the reference vectors, a start request changes only the stream flag, and nothing else of
    any channel object (type, dimension, name, generator state, call counter) changes -/
theorem applies_exactly (cs : List Chan) (i : Inst) (r : Req) (z : Bytes) (rest : List Bytes) (hd : DevOk cs i)
    (hwf : r.WF cs.length) (halive : i.recvThr = .alive) (hq : i.qwrite = (wire r.fid r.payload ++ z) :: rest) :
    ensOf (recvStep cs i).1 = refEns (ensOf cs) r ∧ divsOf (recvStep cs i).1 = refDivs (divsOf cs) r ∧
    (recvStep cs i).2.1.flag = refFlag i.flag r ∧
    (recvStep cs i).1.map Chan.frozen = cs.map Chan.frozen := by
  rw [serves cs i r z rest hd hwf halive hq]
  have hel : (ensOf cs).length = cs.length := by simp [ensOf]
  have hdl : (divsOf cs).length = cs.length := by simp [divsOf]
  have h1 := refEns_length (ensOf cs) r (by rw [hel]; exact hwf)
  have h2 := refDivs_length (divsOf cs) r (by rw [hdl]; exact hwf)
  rw [hel] at h1; rw [hdl] at h2
  refine ⟨?_, ?_, rfl, ?_⟩ <;> cases r <;>
    simp only [refChans, ensOf_withEns _ _ h1, divsOf_withEns _ _ h1, ensOf_withDivs _ _ h2, divsOf_withDivs _ _ h2,
      frozen_withEns _ _ h1, frozen_withDivs _ _ h2] <;> rfl

/-- single form: every other channel keeps its object unchanged -/
theorem single_touches_one (cs : List Chan) (c k : Nat) (v : Bool) (hk : k ≠ c) :
    (refChans cs (.enSingle c v))[k]? = cs[k]? := by
  simp only [refChans, refEns, withEns, List.getElem?_zipWith, ensOf, List.getElem?_set_ne (Ne.symm hk), List.getElem?_map]
  cases cs[k]? <;> simp

/-! ### the raw bytes of set requests: any channel byte in ALL / BULK form, any non-zero byte for "enabled" -/

/-- enable, ALL form `02 <any byte> <value>`: the channel byte is ignored, every non-zero value byte means enabled — the
    device behaves as for the canonical request `enAll (x ≠ 0)` -/
theorem serves_enable_all_raw (cs : List Chan) (i : Inst) (chb x : Byte) (z : Bytes) (rest : List Bytes) (hd : DevOk cs i)
    (halive : i.recvThr = .alive) (hq : i.qwrite = (wire 6 [2, chb, x] ++ z) :: rest) :
    recvStep cs i = (refChans cs (.enAll (decide (x ≠ 0))),
      { i with qwrite := rest, qread := i.qread ++ refAck i.flags }, none) := by
  rw [recvStep_enable cs i [2, chb, x] z rest (List.replicate cs.length (decide (x ≠ 0))) rfl (by simp) (by simp)
    (by rw [← hd.len]; exact Requests.frameEnableDecode_all chb x cs.length (ensOf cs)) (by simp) halive hq, ack_eq]
  simp only [refChans, refEns, ensOf, List.length_map]

/-- enable, BULK form `01 <any byte> <one byte per channel>`: channel `k` is enabled iff byte `k` is non-zero -/
theorem serves_enable_bulk_raw (cs : List Chan) (i : Inst) (chb : Byte) (bs z : Bytes) (rest : List Bytes) (hd : DevOk cs i)
    (hl : bs.length = cs.length) (halive : i.recvThr = .alive) (hq : i.qwrite = (wire 6 (1 :: chb :: bs) ++ z) :: rest) :
    recvStep cs i = (refChans cs (.enBulk (bs.map fun b => decide (b ≠ 0))),
      { i with qwrite := rest, qread := i.qread ++ refAck i.flags }, none) := by
  have hn : cs.length ≤ 255 := by rw [hd.len]; exact hd.chmax
  rw [recvStep_enable cs i (1 :: chb :: bs) z rest (bs.map fun b => decide (b ≠ 0)) rfl (by simp; omega) (by simp)
    (by rw [← hd.len]; exact Requests.frameEnableDecode_bulk chb bs cs.length (ensOf cs) hl) (by simpa using hl) halive hq, ack_eq]
  simp only [refChans, refEns]

/-- enable, SINGLE form `00 <channel> <value>`: any non-zero value byte enables the addressed channel -/
theorem serves_enable_single_raw (cs : List Chan) (i : Inst) (c : Nat) (x : Byte) (z : Bytes) (rest : List Bytes)
    (hd : DevOk cs i) (hc : c < cs.length) (halive : i.recvThr = .alive)
    (hq : i.qwrite = (wire 6 [0, byte c, x] ++ z) :: rest) :
    recvStep cs i = (refChans cs (.enSingle c (decide (x ≠ 0))),
      { i with qwrite := rest, qread := i.qread ++ refAck i.flags }, none) := by
  have hn : cs.length ≤ 255 := by rw [hd.len]; exact hd.chmax
  have hcn : (byte c).toNat = c := by simp [byte]; omega
  rw [recvStep_enable cs i [0, byte c, x] z rest ((ensOf cs).set c (decide (x ≠ 0))) rfl (by simp) (by simp)
    (by
      rw [← hd.len, Requests.frameEnableDecode_single, hcn]
      unfold Requests.setAt
      rw [if_pos (by simp [ensOf]; exact hc)]) (by simp [ensOf]) halive hq, ack_eq]
  simp only [refChans, refEns]

/-- divider, ALL form with any channel byte -/
theorem serves_div_all_raw (cs : List Chan) (i : Inst) (chb x : Byte) (z : Bytes) (rest : List Bytes) (hd : DevOk cs i)
    (halive : i.recvThr = .alive) (hq : i.qwrite = (wire 7 [2, chb, x] ++ z) :: rest) :
    recvStep cs i = (refChans cs (.divAll x.toNat),
      { i with qwrite := rest, qread := i.qread ++ refAck i.flags }, none) := by
  rw [recvStep_div cs i [2, chb, x] z rest (List.replicate cs.length (x.toNat : Int)) rfl (by simp) (by simp)
    (by rw [← hd.len]; exact Requests.frameDivDecode_all chb x cs.length (divsOf cs)) (by simp) halive hq, ack_eq]
  simp only [refChans, refDivs, divsOf, List.length_map]

/-- divider, BULK form with any channel byte -/
theorem serves_div_bulk_raw (cs : List Chan) (i : Inst) (chb : Byte) (bs z : Bytes) (rest : List Bytes) (hd : DevOk cs i)
    (hl : bs.length = cs.length) (halive : i.recvThr = .alive) (hq : i.qwrite = (wire 7 (1 :: chb :: bs) ++ z) :: rest) :
    recvStep cs i = (refChans cs (.divBulk (bs.map fun b => b.toNat)),
      { i with qwrite := rest, qread := i.qread ++ refAck i.flags }, none) := by
  have hn : cs.length ≤ 255 := by rw [hd.len]; exact hd.chmax
  rw [recvStep_div cs i (1 :: chb :: bs) z rest (bs.map fun b => (b.toNat : Int)) rfl (by simp; omega) (by simp)
    (by rw [← hd.len]; exact Requests.frameDivDecode_bulk chb bs cs.length (divsOf cs) hl) (by simpa using hl) halive hq, ack_eq]
  simp only [refChans, refDivs, List.map_map]
  rfl

/-! ### junk -/

/-- **ignores_junk**: a write the NxScope receiver does not accept (C02: no start byte, bad header, inconsistent
    length, bad checksum) only leaves the request queue; channel state, stream flag, response queue and both
    threads are as before -/
theorem ignores_junk (cs : List Chan) (i : Inst) (d : Bytes) (rest : List Bytes)
    (hd : Dispatch.recvHandle d = .ignored) (halive : i.recvThr = .alive) (hq : i.qwrite = d :: rest) :
    recvStep cs i = (cs, { i with qwrite := rest }, none) := recvStep_ignored cs i d rest hd halive hq

/-- padding-only writes (C17) -/
theorem ignores_padding (cs : List Chan) (i : Inst) (k : Nat) (rest : List Bytes) (halive : i.recvThr = .alive)
    (hq : i.qwrite = List.replicate k 0 :: rest) : recvStep cs i = (cs, { i with qwrite := rest }, none) :=
  ignores_junk cs i _ rest (C17.padding_only_ignored k) halive hq

/-- noise without a start byte (C02) -/
theorem ignores_noise (cs : List Chan) (i : Inst) (d : Bytes) (rest : List Bytes) (hn : Serial.hdrFind d = none)
    (halive : i.recvThr = .alive) (hq : i.qwrite = d :: rest) : recvStep cs i = (cs, { i with qwrite := rest }, none) :=
  ignores_junk cs i d rest (C02.no_sof_ignored d hn) halive hq

/-- a valid request damaged by one or two bit flips, any odd number of flips or a burst of up to 16 bits, with
    start byte and length bytes intact (C02 error detection, frames up to 4095 bytes) -/
theorem ignores_corrupted (cs : List Chan) (i : Inst) (w e : Bytes) (fid : Nat) (pl : Bytes) (rest : List Bytes)
    (hw : Serial.frameDecode w = .ok ⟨fid, pl⟩) (hexact : w.length = flen w) (hlen : w.length ≤ 4095)
    (hl : e.length = w.length) (h1 : e.getD 1 0 = 0) (h2 : e.getD 2 0 = 0)
    (hclass : weight e = 1 ∨ weight e = 2 ∨ weight e % 2 = 1 ∨ (weight e ≠ 0 ∧ lastSet e - firstSet e < 16))
    (hsof : Serial.hdrFind (xorBytes w e) = some 0)
    (halive : i.recvThr = .alive) (hq : i.qwrite = xorBytes w e :: rest) :
    recvStep cs i = (cs, { i with qwrite := rest }, none) :=
  ignores_junk cs i _ rest (C02.dispatcher_ignores_corrupted w e fid pl hw hexact hlen hl h1 h2 hclass hsof) halive hq

/-- any number of ignorable writes, each followed by a receive step: the machine is where it was and still live -/
theorem ignores_junk_history (cs : List Chan) (i : Inst) (ds : List Bytes)
    (hds : ∀ d ∈ ds, Dispatch.recvHandle (Pad.dataAlign i.wpad d) = .ignored)
    (halive : i.recvThr = .alive) (hq : i.qwrite = []) :
    run cs i (ds.flatMap fun d => [.write d, .recvStep]) = (cs, i, (ds.flatMap fun _ => [Obs.none, Obs.none])) := by
  induction ds with
  | nil => rfl
  | cons d ds ih =>
    have h1 := recvStep_ignored cs { i with qwrite := i.qwrite ++ [Pad.dataAlign i.wpad d] } _ []
      (hds d (by simp)) halive (by simp [hq])
    have hi : ({ i with qwrite := [] } : Inst) = i := by rw [← hq]
    simp only [List.flatMap_cons, List.cons_append, List.nil_append, run, step]
    rw [h1]
    simp only [stepOutObs, hi]
    rw [ih (fun x hx => hds x (by simp [hx]))]

/-! ### streaming -/

/-- **stream_only_when_started**: while the stream is not started a stream-thread iteration produces nothing and
    changes nothing (no sample is taken, no generator advances) -/
theorem stream_only_when_started (cs : List Chan) (i : Inst) (h : i.flag = false) :
    streamStep cs i = (cs, i, none) := by
  unfold streamStep
  split
  · rfl
  · rw [if_pos (by simp [Gen.Dummy.streamWaitsStarted, h])]

/-- no frame of a whole history of stream steps either -/
theorem stream_only_when_started_history (cs : List Chan) (i : Inst) (n : Nat) (h : i.flag = false) :
    run cs i (List.replicate n .streamStep) = (cs, i, List.replicate n Obs.none) := by
  induction n with
  | zero => rfl
  | succ n ih =>
    simp only [List.replicate_succ, run, step]
    rw [stream_only_when_started cs i h]
    simp only [stepOutObs]
    rw [ih]

/-- **only_enabled**: every sample of a batch belongs to an enabled channel; the batch leaves the enable flags
    alone and does not touch the object of a disabled channel -/
theorem only_enabled (cs : List Chan) (n : Nat) :
    (∀ s ∈ (dataGet cs n).2, (ensOf cs)[s.chan]? = some true) ∧ ensOf (dataGet cs n).1 = ensOf cs ∧
    (∀ (c : Nat) (ch : Chan), cs[c]? = some ch → ch.en = false → (dataGet cs n).1[c]? = some ch) :=
  ⟨fun s hs => dataGet_enabled rfl cs n s hs, ensOf_dataGet rfl cs n,
   fun c ch hc hen => by rw [(dataGet_chan rfl cs n c ch hc).1, chanIter_disabled ch n hen]⟩

/-- **per_channel_order**, one batch of `n` rounds: the samples of channel `c`, in the order they appear in the
    batch, are the outputs of its function for `n` successive calls (those that are not `None`), each once; its
    object is left in the state after these `n` calls -/
theorem per_channel_order (cs : List Chan) (n c : Nat) (ch : Chan) (hc : cs[c]? = some ch) (hen : ch.en = true) :
    (dataGet cs n).2.filter (fun s => s.chan = c)
      = (ch.outputs n).filterMap (fun o => o.map fun dm => mkSample ch c dm.1 dm.2) ∧
    (dataGet cs n).1[c]? = some (chanIter ch n) := by
  obtain ⟨h1, h2⟩ := dataGet_chan rfl cs n c ch hc
  exact ⟨by rw [h2, chanSamples_outputs ch c n hen], h1⟩

/-- … across batches: `n` rounds then `m` rounds give channel `c` the outputs of `n + m` successive calls — no
    loss, no repetition between frames.  (Requests in between change enable / divider only: `applies_exactly`;
    `start()` puts the function back to its first output: C16 `restart_resets`.) -/
theorem per_channel_order_batches (cs : List Chan) (n m c : Nat) (ch : Chan) (hc : cs[c]? = some ch) :
    (dataGet cs n).2.filter (fun s => s.chan = c) ++ (dataGet (dataGet cs n).1 m).2.filter (fun s => s.chan = c)
      = (dataGet cs (n + m)).2.filter (fun s => s.chan = c) := by
  obtain ⟨h1, h2⟩ := dataGet_chan rfl cs n c ch hc
  rw [h2, (dataGet_chan rfl _ m c _ h1).2, (dataGet_chan rfl cs (n + m) c ch hc).2, chanSamples_add]

/-- **per_channel_order for a function of the call index** (`get(cntr) -> (cntr,) * vdim`, kind 11): in a batch of `n`
    rounds channel `c` yields the call indices `calls, calls + 1, …, calls + n - 1`, each once, in order — the counter
    `DeviceChannel.data_get` passes advances by one per call -/
theorem per_channel_order_callidx (cs : List Chan) (n c : Nat) (ch : Chan) (hc : cs[c]? = some ch) (hen : ch.en = true)
    (hg : ch.gen = some 11) :
    (dataGet cs n).2.filter (fun s => s.chan = c)
      = (List.range n).map fun j => mkSample ch c (List.replicate ch.vdim (PyVal.int ((ch.calls + j : Nat) : Int))) [] := by
  rw [(per_channel_order cs n c ch hc hen).1, outputs_callidx ch hg n, List.filterMap_map]
  rw [← List.filterMap_eq_map]
  rfl

/-- **… and for the sparse function** (kind 12: `None` unless `cntr % 3 == 0`): the batch carries exactly the call indices
    in `[calls, calls + n)` that are multiples of 3, in order — so the counter advances on EVERY call, also on those
    that yield no sample (seeded C14-r3m2 advanced it only when a sample was produced: the function stalls after its
    first `None`) -/
theorem per_channel_order_sparse (cs : List Chan) (n c : Nat) (ch : Chan) (hc : cs[c]? = some ch) (hen : ch.en = true)
    (hg : ch.gen = some 12) :
    (dataGet cs n).2.filter (fun s => s.chan = c)
      = (List.range n).filterMap fun j =>
          if (ch.calls + j) % 3 = 0 then some (mkSample ch c (List.replicate ch.vdim (PyVal.int ((ch.calls + j : Nat) : Int))) [])
          else none := by
  rw [(per_channel_order cs n c ch hc hen).1, outputs_sparse ch hg n, List.filterMap_map]
  congr 1
  funext j
  simp only [Function.comp]
  split <;> rfl

/-- the call counter of an enabled channel with a function attached after a batch of `n` rounds: `n` more calls -/
theorem calls_after_batch (cs : List Chan) (n c : Nat) (ch : Chan) (k : Nat) (hc : cs[c]? = some ch) (hen : ch.en = true)
    (hg : ch.gen = some k) : ((dataGet cs n).1[c]?).map (·.calls) = some (ch.calls + n) := by
  rw [(per_channel_order cs n c ch hc hen).2, Option.map_some, chanIter_calls ch n k hen hg]

/-- under `BatchFits`, a stream step while started queues exactly one frame, the NxScope STREAM frame whose payload
    is the encoding (C15) of the batch, or nothing when the batch has no sample; the stream thread dies only if
    the sample encoder itself raises (a value that does not fit the channel's declared type — C15's domain) -/
theorem stream_step_frame (cs : List Chan) (i : Inst) (halive : i.streamThr = .alive) (hflag : i.flag = true)
    (hfit : BatchFits cs i.snum) :
    streamStep cs i =
      match Stream.streamDataEncode [] (dataGet cs i.snum).2 with
      | .ok (some p) => ((dataGet cs i.snum).1, { i with qread := i.qread ++ [wire 1 p] }, none)
      | .ok none => ((dataGet cs i.snum).1, i, none)
      | .error e => ((dataGet cs i.snum).1, { i with streamThr := .dead }, some e) := by
  unfold streamStep
  rw [if_neg (by rw [halive]; simp), if_neg (by simp [hflag]), produce_eq]
  have hfit := hfit.fits
  unfold fitsPayload at hfit
  cases hd : Stream.streamDataEncode [] (dataGet cs i.snum).2 with
  | error e => rw [frameStreamEncode_err _ e hd]
  | ok o =>
    cases o with
    | none => rw [frameStreamEncode_none _ hd]
    | some p =>
      rw [hd] at hfit
      rw [frameStreamEncode_some _ p hd hfit]

/-- without `BatchFits` the statement is false: the batch is built (generators advance), `frame_create` refuses
    the frame (as C01 demands) and the exception ends the stream thread — finding F17 -/
theorem oversize_batch_kills (cs : List Chan) (i : Inst) (halive : i.streamThr = .alive) (hflag : i.flag = true)
    (hbig : ¬ BatchFits cs i.snum) :
    streamStep cs i = ((dataGet cs i.snum).1, { i with streamThr := .dead }, some .structError) := by
  unfold streamStep
  rw [if_neg (by rw [halive]; simp), if_neg (by simp [hflag]), produce_eq]
  cases hd : Stream.streamDataEncode [] (dataGet cs i.snum).2 with
  | error e => exact absurd ⟨by rw [hd]; trivial⟩ hbig
  | ok o =>
    cases o with
    | none => exact absurd ⟨by rw [hd]; trivial⟩ hbig
    | some p =>
      have hp : ¬ p.length ≤ 65529 := fun h => hbig ⟨by rw [hd]; exact h⟩
      rw [frameStreamEncode_oversize _ p hd (by omega)]

/-- `BatchFits` holds for the default device (`DUMMY_DEV_CHANNELS`) with every channel enabled and the default batch
    size `stream_snum = 100` (kernel evaluation of the whole batch, Lemmas/DummyBatch.lean) -/
example : BatchFits defaultAllEnabled Gen.Dummy.defaultSnum := default_fits
example : defaultAllEnabled.length = 11 ∧ Gen.Dummy.defaultSnum = 100 := by decide

/-- **F17**, the excluded point: four enabled 64-dimensional DOUBLE channels and the default batch size 100 — the
    batch (205 201 bytes) does not fit … -/
example : ¬ BatchFits f17Device 100 := f17_not_fits

/-- … so the stream step ends the device's stream thread with `struct.error` -/
example :
    let i : Inst := { newInst [0, 1, 2, 3] 3 0 100 0 with flag := true, streamThr := .alive }
    (streamStep f17Device i).2.2 = some .structError ∧ (streamStep f17Device i).2.1.streamThr = .dead := by
  intro i
  rw [oversize_batch_kills f17Device i rfl rfl f17_not_fits]
  exact ⟨rfl, rfl⟩

/-! ### histories: the machine is the reference device over every history of requests, junk and stream steps -/

/-- an item of a history on a started device -/
inductive HOp where
  | req (r : Req)        -- write of a well-formed request (the interface adds its write padding)
  | junk (d : Bytes)     -- write of something the NxScope receiver does not accept: padding, noise, a damaged request
  | recv                 -- one iteration of the device's receive thread
  | stream               -- one iteration of the device's stream thread
  | read                 -- `read()`
  deriving Repr

/-- the op of the machine -/
def HOp.op : HOp → Op
  | .req r => .write (wire r.fid r.payload)
  | .junk d => .write d
  | .recv => .recvStep
  | .stream => .streamStep
  | .read => .read

/-- requests are well formed for a device with `n` channels; junk is what the receiver ignores (`ignores_padding`,
    `ignores_noise`, `ignores_corrupted` give the three classes of the property) -/
def HOp.WF (n wpad : Nat) : HOp → Prop
  | .req r => r.WF n
  | .junk d => Dispatch.recvHandle (Pad.dataAlign wpad d) = .ignored
  | _ => True

/-- one step of the REFERENCE device.  Its state: channel objects, the instance (stream flag, response queue, the
    byte queue of writes not yet taken) and `pend`, the same queue seen by the protocol: `some r` for a request,
    `none` for a write to be ignored.  A receive step takes the oldest write: a request is applied to exactly the
    addressed channels (`refChans`, `refFlag`) and answered with exactly `refAnswer`; junk is dropped.  Stream steps and
    reads are those of the machine (their content is the subject of the stream theorems below). -/
def refStep (cs : List Chan) (i : Inst) (pend : List (Option Req)) : HOp → List Chan × Inst × List (Option Req) × Obs
  | .req r => (cs, { i with qwrite := i.qwrite ++ [Pad.dataAlign i.wpad (wire r.fid r.payload)] }, pend ++ [some r], .none)
  | .junk d => (cs, { i with qwrite := i.qwrite ++ [Pad.dataAlign i.wpad d] }, pend ++ [none], .none)
  | .recv =>
    match pend with
    | [] => (cs, i, [], .none)
    | none :: ps => (cs, { i with qwrite := i.qwrite.drop 1 }, ps, .none)
    | some r :: ps =>
      (refChans cs r, { i with qwrite := i.qwrite.drop 1, flag := refFlag i.flag r,
                               qread := i.qread ++ refAnswer cs i.flags i.rxp r }, ps, .none)
  | .stream => ((streamStep cs i).1, (streamStep cs i).2.1, pend, stepOutObs (streamStep cs i).2.2)
  | .read =>
    match i.qread with
    | [] => (cs, i, pend, .bytes [])
    | f :: r => (cs, { i with qread := r }, pend, .bytes f)

def refRun (cs : List Chan) (i : Inst) (pend : List (Option Req)) : List HOp → List Chan × Inst × List (Option Req) × List Obs
  | [] => (cs, i, pend, [])
  | x :: rest =>
    let s := refStep cs i pend x
    let t := refRun s.1 s.2.1 s.2.2.1 rest
    (t.1, t.2.1, t.2.2.1, s.2.2.2 :: t.2.2.2)

/-- the byte queue and the protocol's view of it agree: item by item, a well-formed request followed by padding, or
    bytes the receiver ignores -/
inductive Pend (n : Nat) : List Bytes → List (Option Req) → Prop
  | nil : Pend n [] []
  | req {d ds ps} (r : Req) (z : Bytes) : r.WF n → d = wire r.fid r.payload ++ z → Pend n ds ps → Pend n (d :: ds) (some r :: ps)
  | junk {d ds ps} : Dispatch.recvHandle d = .ignored → Pend n ds ps → Pend n (d :: ds) (none :: ps)

theorem Pend.snoc_req {n : Nat} {ds : List Bytes} {ps : List (Option Req)} (h : Pend n ds ps) (r : Req) (z : Bytes)
    (hr : r.WF n) : Pend n (ds ++ [wire r.fid r.payload ++ z]) (ps ++ [some r]) := by
  induction h with
  | nil => exact .req r z hr rfl .nil
  | req r' z' h1 h2 _ ih => exact .req r' z' h1 h2 ih
  | junk h1 _ ih => exact .junk h1 ih

theorem Pend.snoc_junk {n : Nat} {ds : List Bytes} {ps : List (Option Req)} (h : Pend n ds ps) (d : Bytes)
    (hd : Dispatch.recvHandle d = .ignored) : Pend n (ds ++ [d]) (ps ++ [none]) := by
  induction h with
  | nil => exact .junk hd .nil
  | req r' z' h1 h2 _ ih => exact .req r' z' h1 h2 ih
  | junk h1 _ ih => exact .junk h1 ih

/-- the values a well-formed divider request stores are 8-bit -/
theorem refDivs_range (cs : List Chan) (r : Req) (hc : ∀ c ∈ cs, ChanOk c) (hwf : r.WF cs.length) :
    ∀ v ∈ refDivs (divsOf cs) r, 0 ≤ v ∧ v ≤ 255 := by
  have hcur : ∀ v ∈ divsOf cs, 0 ≤ v ∧ v ≤ 255 := by
    intro v hv
    obtain ⟨c, hc', rfl⟩ := List.mem_map.mp hv
    exact ⟨(hc c hc').div0, (hc c hc').div⟩
  intro v hv
  cases r with
  | divSingle c x =>
    obtain ⟨_, hx⟩ : c < cs.length ∧ x ≤ 255 := hwf
    rcases List.mem_or_eq_of_mem_set hv with h | h
    · exact hcur v h
    · subst h; omega
  | divAll x =>
    have hx : x ≤ 255 := hwf
    have := (List.mem_replicate.mp hv).2
    subst this; omega
  | divBulk vs =>
    obtain ⟨_, hx⟩ : vs.length = cs.length ∧ ∀ v ∈ vs, v ≤ 255 := hwf
    obtain ⟨x, hx', rfl⟩ := List.mem_map.mp hv
    have := hx x hx'
    simp only [Int.ofNat_eq_natCast]
    omega
  | _ => exact hcur v hv

theorem refChans_length (cs : List Chan) (r : Req) (hwf : r.WF cs.length) : (refChans cs r).length = cs.length := by
  have hel : (ensOf cs).length = cs.length := by simp [ensOf]
  have hdl : (divsOf cs).length = cs.length := by simp [divsOf]
  have h1 := refEns_length (ensOf cs) r (by rw [hel]; exact hwf)
  have h2 := refDivs_length (divsOf cs) r (by rw [hdl]; exact hwf)
  rw [hel] at h1; rw [hdl] at h2
  cases r <;> simp only [refChans] <;> first | rfl | exact withEns_length _ _ h1 | exact withDivs_length _ _ h2

/-- **DevOk is preserved by serving a request**: the description still fits the info frames -/
theorem devOk_refChans (cs : List Chan) (i i' : Inst) (r : Req) (hd : DevOk cs i) (hwf : r.WF cs.length)
    (h1 : i'.chmax = i.chmax) (h2 : i'.flags = i.flags) (h3 : i'.rxp = i.rxp) : DevOk (refChans cs r) i' := by
  refine ⟨by rw [refChans_length cs r hwf, h1]; exact hd.len, by rw [h1]; exact hd.chmax, by rw [h2]; exact hd.flags,
    by rw [h3]; exact hd.rxp, ?_⟩
  cases r with
  | enSingle c v => exact chanOk_withEns _ _ hd.chans
  | enAll v => exact chanOk_withEns _ _ hd.chans
  | enBulk vs => exact chanOk_withEns _ _ hd.chans
  | divSingle c v => exact chanOk_withDivs _ _ hd.chans (refDivs_range cs _ hd.chans hwf)
  | divAll v => exact chanOk_withDivs _ _ hd.chans (refDivs_range cs _ hd.chans hwf)
  | divBulk vs => exact chanOk_withDivs _ _ hd.chans (refDivs_range cs _ hd.chans hwf)
  | _ => exact hd.chans

/-- **DevOk is preserved by a stream step** (whatever it does: nothing, a batch, a batch that ends the thread) -/
theorem devOk_streamStep (cs : List Chan) (i : Inst) (hd : DevOk cs i) :
    DevOk (streamStep cs i).1 (streamStep cs i).2.1 ∧ (streamStep cs i).2.1.recvThr = i.recvThr ∧
    (streamStep cs i).2.1.qwrite = i.qwrite ∧ (streamStep cs i).2.1.wpad = i.wpad ∧ (streamStep cs i).1.length = cs.length := by
  unfold streamStep
  split
  · exact ⟨hd, rfl, rfl, rfl, rfl⟩
  · split
    · exact ⟨hd, rfl, rfl, rfl, rfl⟩
    · rw [produce_eq]
      have hl := dataGet_length rfl cs i.snum
      have hc := chanOk_dataGet rfl cs i.snum hd.chans
      split <;>
        exact ⟨⟨by rw [hl]; exact hd.len, hd.chmax, hd.flags, hd.rxp, hc⟩, rfl, rfl, rfl, hl⟩

/-- the invariant of a history: the description fits, the receive thread lives, the queue of writes is what the
    protocol thinks it is -/
structure Inv (cs : List Chan) (i : Inst) (pend : List (Option Req)) : Prop where
  dev : DevOk cs i
  alive : i.recvThr = .alive
  pend : Pend cs.length i.qwrite pend

/-- **one step of a history**: the machine does what the reference device does, and the invariant — `DevOk`, the
    receive thread alive, the request at the head of the queue being what was written — is preserved.  These are the
    hypotheses of `serves` / `answers_conform` / `applies_exactly`, here CONCLUDED. -/
theorem step_conforms (cs : List Chan) (i : Inst) (pend : List (Option Req)) (x : HOp) (hinv : Inv cs i pend)
    (hx : x.WF cs.length i.wpad) :
    step cs i x.op = ((refStep cs i pend x).1, (refStep cs i pend x).2.1, (refStep cs i pend x).2.2.2) ∧
    Inv (refStep cs i pend x).1 (refStep cs i pend x).2.1 (refStep cs i pend x).2.2.1 ∧
    (refStep cs i pend x).1.length = cs.length ∧ (refStep cs i pend x).2.1.wpad = i.wpad := by
  obtain ⟨hd, ha, hp⟩ := hinv
  cases x with
  | req r =>
    obtain ⟨k, _, _, hk⟩ := Pad.dataAlign_spec i.wpad (wire r.fid r.payload)
    refine ⟨rfl, ⟨⟨hd.len, hd.chmax, hd.flags, hd.rxp, hd.chans⟩, ha, ?_⟩, rfl, rfl⟩
    show Pend cs.length (i.qwrite ++ [Pad.dataAlign i.wpad (wire r.fid r.payload)]) (pend ++ [some r])
    rw [hk]
    exact hp.snoc_req r _ hx
  | junk d =>
    refine ⟨rfl, ⟨⟨hd.len, hd.chmax, hd.flags, hd.rxp, hd.chans⟩, ha, ?_⟩, rfl, rfl⟩
    exact hp.snoc_junk _ hx
  | recv =>
    generalize hq : i.qwrite = q at hp
    cases hp with
    | nil =>
      have hs : recvStep cs i = (cs, i, none) := by
        unfold recvStep
        rw [if_neg (by rw [ha]; simp), hq]
      refine ⟨?_, ⟨hd, ha, ?_⟩, rfl, rfl⟩
      · simp only [HOp.op, step, hs, refStep, stepOutObs]
      · show Pend cs.length i.qwrite []
        rw [hq]; exact .nil
    | req r z hr hdz hrest =>
      rename_i d ds ps
      have hq' : i.qwrite = (wire r.fid r.payload ++ z) :: ds := by rw [hq, hdz]
      have hs := serves cs i r z ds hd hr ha hq'
      have hdrop : i.qwrite.drop 1 = ds := by rw [hq]; rfl
      refine ⟨?_, ⟨?_, ha, ?_⟩, refChans_length cs r hr, rfl⟩
      · simp only [HOp.op, step, hs, refStep, stepOutObs, hdrop]
      · exact devOk_refChans cs i _ r hd hr rfl rfl rfl
      · show Pend (refChans cs r).length (i.qwrite.drop 1) ps
        rw [hdrop, refChans_length cs r hr]; exact hrest
    | junk hj hrest =>
      rename_i d ds ps
      have hs := ignores_junk cs i d ds hj ha hq
      have hdrop : i.qwrite.drop 1 = ds := by rw [hq]; rfl
      refine ⟨?_, ⟨⟨hd.len, hd.chmax, hd.flags, hd.rxp, hd.chans⟩, ha, ?_⟩, rfl, rfl⟩
      · simp only [HOp.op, step, hs, refStep, stepOutObs, hdrop]
      · show Pend cs.length (i.qwrite.drop 1) ps
        rw [hdrop]; exact hrest
  | stream =>
    obtain ⟨h1, h2, h3, h4, h5⟩ := devOk_streamStep cs i hd
    refine ⟨rfl, ⟨h1, ?_, ?_⟩, h5, h4⟩
    · show (streamStep cs i).2.1.recvThr = .alive
      rw [h2]; exact ha
    · show Pend (streamStep cs i).1.length (streamStep cs i).2.1.qwrite pend
      rw [h3, h5]; exact hp
  | read =>
    cases hr : i.qread with
    | nil =>
      simp only [HOp.op, step, refStep, hr, true_and, and_true]
      exact ⟨hd, ha, hp⟩
    | cons f r =>
      simp only [HOp.op, step, refStep, hr, true_and, and_true]
      exact ⟨⟨hd.len, hd.chmax, hd.flags, hd.rxp, hd.chans⟩, ha, hp⟩

/-- **history_conforms**: over every history of well-formed requests interleaved with padding / noise / damaged
    requests, receive steps, stream steps and reads, the machine IS the reference device: same channel state, same
    stream flag, same response queue, same observations — so every well-formed request of the history is answered, in
    order, by exactly the conforming response(s) and applied to exactly the addressed channels (`refStep`), and the
    invariant holds at the end (so the history can be continued). -/
theorem history_conforms (cs : List Chan) (i : Inst) (pend : List (Option Req)) (h : List HOp) (hinv : Inv cs i pend)
    (hwf : ∀ x ∈ h, x.WF cs.length i.wpad) :
    run cs i (h.map HOp.op) = ((refRun cs i pend h).1, (refRun cs i pend h).2.1, (refRun cs i pend h).2.2.2) ∧
    Inv (refRun cs i pend h).1 (refRun cs i pend h).2.1 (refRun cs i pend h).2.2.1 ∧
    (refRun cs i pend h).1.length = cs.length ∧ (refRun cs i pend h).2.1.wpad = i.wpad := by
  induction h generalizing cs i pend with
  | nil => exact ⟨rfl, hinv, rfl, rfl⟩
  | cons x rest ih =>
    obtain ⟨h1, h2, h3, h4⟩ := step_conforms cs i pend x hinv (hwf x (by simp))
    obtain ⟨i1, i2, i3, i4⟩ := ih _ _ _ h2 (fun y hy => by rw [h3, h4]; exact hwf y (by simp [hy]))
    refine ⟨?_, i2, i3.trans h3, i4.trans h4⟩
    simp only [List.map_cons, run, h1, i1, refRun]

/-- a started device with nothing queued satisfies the invariant -/
theorem Inv.start (cs : List Chan) (i : Inst) (hd : DevOk cs i) (ha : i.recvThr = .alive) (hq : i.qwrite = []) : Inv cs i [] :=
  ⟨hd, ha, by rw [hq]; exact .nil⟩

/-- **devOk_run**: the description fits the info frames after every such history -/
theorem devOk_run (cs : List Chan) (i : Inst) (h : List HOp) (hd : DevOk cs i) (ha : i.recvThr = .alive) (hq : i.qwrite = [])
    (hwf : ∀ x ∈ h, x.WF cs.length i.wpad) :
    DevOk (run cs i (h.map HOp.op)).1 (run cs i (h.map HOp.op)).2.1 := by
  obtain ⟨h1, h2, _⟩ := history_conforms cs i [] h (Inv.start cs i hd ha hq) hwf
  rw [h1]; exact h2.dev

/-- **alive_run**: the receive thread survives every such history — padding, noise and damaged requests included,
    whatever the stream thread does (no `BatchFits` needed for this thread) -/
theorem alive_run (cs : List Chan) (i : Inst) (h : List HOp) (hd : DevOk cs i) (ha : i.recvThr = .alive) (hq : i.qwrite = [])
    (hwf : ∀ x ∈ h, x.WF cs.length i.wpad) :
    (run cs i (h.map HOp.op)).2.1.recvThr = .alive := by
  obtain ⟨h1, h2, _⟩ := history_conforms cs i [] h (Inv.start cs i hd ha hq) hwf
  rw [h1]; exact h2.alive

/-- **every request of a history is served**: after ANY such history whose writes have all been taken, a well-formed
    request that is written and taken by the receive thread is answered by exactly the conforming response(s), appended
    to what was still unread, and applied to exactly the addressed channels; the receive thread lives on, nothing is
    left queued -/
theorem request_after_history (cs : List Chan) (i : Inst) (h : List HOp) (r : Req) (hd : DevOk cs i) (ha : i.recvThr = .alive)
    (hq : i.qwrite = []) (hwf : ∀ x ∈ h, x.WF cs.length i.wpad) (hr : r.WF cs.length)
    (hdrain : (refRun cs i [] h).2.2.1 = []) :
    let s := run cs i (h.map HOp.op)
    let t := run s.1 s.2.1 [.write (wire r.fid r.payload), .recvStep]
    t.1 = refChans s.1 r ∧ t.2.1.flag = refFlag s.2.1.flag r ∧
    t.2.1.qread = s.2.1.qread ++ refAnswer s.1 s.2.1.flags s.2.1.rxp r ∧
    t.2.1.recvThr = .alive ∧ t.2.1.qwrite = [] ∧ t.2.2 = [.none, .none] := by
  obtain ⟨h1, h2, h3, h4⟩ := history_conforms cs i [] h (Inv.start cs i hd ha hq) hwf
  intro s t
  have hs : s = ((refRun cs i [] h).1, (refRun cs i [] h).2.1, (refRun cs i [] h).2.2.2) := h1
  have hinv : Inv s.1 s.2.1 [] := by
    have := h2
    rw [hdrain] at this
    rw [hs]; exact this
  have hqs : s.2.1.qwrite = [] := by
    have := hinv.pend
    generalize s.2.1.qwrite = q at this
    cases this; rfl
  have hlen : s.1.length = cs.length := by rw [hs]; exact h3
  have hr' : r.WF s.1.length := by rw [hlen]; exact hr
  obtain ⟨g1, g2, _⟩ := history_conforms s.1 s.2.1 [] [.req r, .recv] hinv (by
    intro x hx
    simp only [List.mem_cons, List.not_mem_nil, or_false] at hx
    rcases hx with rfl | rfl
    · exact hr'
    · trivial)
  have ht : t = _ := g1
  rw [ht]
  simp only [refRun, refStep, List.nil_append, hqs, List.drop_one, List.tail_cons]
  refine ⟨?_, ?_, ?_, ?_, ?_, ?_⟩ <;> first | rfl | trivial | exact hinv.alive

/-! ### the stream thread over histories -/

/-- the batch encodes and fits one frame payload -/
def encOk : Except Err (Option Bytes) → Prop
  | .ok (some p) => p.length ≤ 65529
  | .ok none => True
  | .error _ => False

instance (r : Except Err (Option Bytes)) : Decidable (encOk r) := by
  unfold encOk; split <;> infer_instance

/-- while the stream is started, the batch the stream thread would build now fits one frame (`BatchFits`) and the
    sample encoder accepts every value (each generator value fits its channel's declared type — C15's domain) -/
def StreamFits (cs : List Chan) (i : Inst) : Prop :=
  i.flag = true → encOk (Stream.streamDataEncode [] (dataGet cs i.snum).2)

instance (cs : List Chan) (i : Inst) : Decidable (StreamFits cs i) := by unfold StreamFits; infer_instance

/-- `StreamFits` at every stream step the history reaches -/
def FitsAlong (cs : List Chan) (i : Inst) : List Op → Prop
  | [] => True
  | op :: rest => (op = .streamStep → StreamFits cs i) ∧ FitsAlong (step cs i op).1 (step cs i op).2.1 rest

instance decFitsAlong : (cs : List Chan) → (i : Inst) → (ops : List Op) → Decidable (FitsAlong cs i ops)
  | _, _, [] => isTrue trivial
  | cs, i, op :: rest =>
    have := decFitsAlong (step cs i op).1 (step cs i op).2.1 rest
    by unfold FitsAlong; exact inferInstance

theorem StreamFits.batchFits {cs : List Chan} {i : Inst} (h : StreamFits cs i) (hf : i.flag = true) : BatchFits cs i.snum := by
  have := h hf
  refine ⟨?_⟩
  unfold fitsPayload
  unfold encOk at this
  split <;> simp_all

/-- one op (any op but `stop()`) keeps the stream thread alive, provided the batch fits when the op is a stream step -/
theorem stream_alive_step (cs : List Chan) (i : Inst) (op : Op) (hs : i.streamThr = .alive) (hop : op ≠ .stop)
    (hf : op = .streamStep → StreamFits cs i) : (step cs i op).2.1.streamThr = .alive := by
  cases op with
  | write d => exact hs
  | recvStep => show (recvStep cs i).2.1.streamThr = .alive; rw [recvStep_streamThr]; exact hs
  | read =>
    simp only [step]
    split <;> exact hs
  | start => simp [step, start, hs]
  | stop => exact absurd rfl hop
  | streamStep =>
    show (streamStep cs i).2.1.streamThr = .alive
    unfold streamStep
    rw [if_neg (by rw [hs]; simp)]
    split
    · exact hs
    · rename_i hfl
      have hflag : i.flag = true := by
        cases hb : i.flag with
        | true => rfl
        | false => simp [Gen.Dummy.streamWaitsStarted, hb] at hfl
      have hok := hf rfl hflag
      rw [produce_eq]
      unfold encOk at hok
      cases hd : Stream.streamDataEncode [] (dataGet cs i.snum).2 with
      | error e => rw [hd] at hok; exact hok.elim
      | ok o =>
        cases o with
        | none => rw [frameStreamEncode_none _ hd]; exact hs
        | some p =>
          rw [hd] at hok
          rw [frameStreamEncode_some _ p hd hok]; exact hs

/-- **stream_alive_run**: over every history without `stop()` — requests, junk, reads, `start()`, stream steps — the
    stream thread stays alive as long as every batch it builds fits (`FitsAlong`: `BatchFits` and encodable values at
    each stream step reached while started).  Without it the thread dies: `oversize_batch_kills` (finding F17). -/
theorem stream_alive_run (cs : List Chan) (i : Inst) (ops : List Op) (hs : i.streamThr = .alive)
    (hno : ∀ op ∈ ops, op ≠ .stop) (hf : FitsAlong cs i ops) : (run cs i ops).2.1.streamThr = .alive := by
  induction ops generalizing cs i with
  | nil => exact hs
  | cons op rest ih =>
    obtain ⟨f1, f2⟩ := hf
    have h1 := stream_alive_step cs i op hs (hno op (by simp)) f1
    exact ih _ _ h1 (fun o ho => hno o (by simp [ho])) f2

/-- … and then every stream step taken while started queues exactly one STREAM frame carrying the whole batch (or
    nothing when the batch is empty) — `stream_step_frame` applies at every step of the history -/
theorem stream_step_in_history (cs : List Chan) (i : Inst) (pre : List Op) (hs : i.streamThr = .alive)
    (hno : ∀ op ∈ pre, op ≠ .stop) (hf : FitsAlong cs i (pre ++ [.streamStep]))
    (hflag : (run cs i pre).2.1.flag = true) :
    let s := run cs i pre
    streamStep s.1 s.2.1 =
      match Stream.streamDataEncode [] (dataGet s.1 s.2.1.snum).2 with
      | .ok (some p) => ((dataGet s.1 s.2.1.snum).1, { s.2.1 with qread := s.2.1.qread ++ [wire 1 p] }, none)
      | .ok none => ((dataGet s.1 s.2.1.snum).1, s.2.1, none)
      | .error e => ((dataGet s.1 s.2.1.snum).1, { s.2.1 with streamThr := .dead }, some e) := by
  intro s
  have hfits : FitsAlong cs i pre ∧ StreamFits s.1 s.2.1 := by
    clear hflag hs hno
    induction pre generalizing cs i with
    | nil => exact ⟨trivial, hf.1 rfl⟩
    | cons op rest ih =>
      obtain ⟨f1, f2⟩ := hf
      obtain ⟨g1, g2⟩ := ih _ _ f2
      exact ⟨⟨f1, g1⟩, g2⟩
  have halive := stream_alive_run cs i pre hs hno hfits.1
  exact stream_step_frame s.1 s.2.1 halive hflag (hfits.2.batchFits hflag)

/-- the syntactic shapes the translator reads from `intf/dummy.py` / `dev.py` and the model transcribes: constructor,
    callbacks (value `i` of the decoded vector goes to channel `i`; channel info of `data[0]`), the stream loop (rounds
    outside, channels in order inside, `None` results skipped), positional `channel_get`, `Device.reset` → every channel →
    the attached function, `data_get` handing the call counter to the function and incrementing it on every call -/
theorem source_shapes :
    Gen.Dummy.ctorShape = true ∧ Gen.Dummy.appliesEnable = true ∧ Gen.Dummy.appliesDiv = true ∧ Gen.Dummy.startCbShape = true ∧
    Gen.Dummy.infoCbShape = true ∧ Gen.Dummy.streamLoopShape = true ∧ Gen.Dummy.channelGetPositional = true ∧
    Gen.Dummy.devResetShape = true ∧ Gen.Dummy.streamWaitsStarted = true ∧ Gen.Dummy.streamOnlyEnabled = true := by decide

/-! ### non-vacuity -/

/-- the default device answers a channel-info request for channel 1 and an enable-all request -/
example :
    let cs := defaultObjs
    let i : Inst := { newInst (List.range 11) 3 16 100 0 with recvThr := .alive, qwrite := [wire 3 [1], wire 6 [2, 0, 1] ++ [0, 0, 0]] }
    (run cs i [.recvStep, .recvStep, .read, .read]).2.2 =
      [.none, .none, .bytes (wire 3 [0, 10, 1, 0, 0, 0x63, 0x68, 0x61, 0x6e, 0x31]), .bytes (wire 4 [0, 0, 0, 0])] ∧
    ensOf (run cs i [.recvStep, .recvStep]).1 = List.replicate 11 true := by decide +kernel

example : DevOk defaultObjs (newInst (List.range 11) 3 16 100 0) :=
  ⟨by decide, by decide, by decide, by decide, by
    intro c hc
    have : ∀ c ∈ defaultObjs, c.type ≤ 255 ∧ c.vdim ≤ 255 ∧ 0 ≤ c.div ∧ c.div ≤ 255 ∧ c.mlen ≤ 255 ∧ c.name.length ≤ 65524 := by
      decide
    obtain ⟨a, b, c', d, e, f⟩ := this c hc
    exact ⟨a, b, c', d, e, f⟩⟩

/-! ### non-vacuity of the history theorems -/

/-- the started default device satisfies the invariant … -/
example : Inv defaultObjs { newInst (List.range 11) 3 16 100 16 with recvThr := .alive, streamThr := .alive } [] :=
  Inv.start _ _ ⟨by decide, by decide, by decide, by decide, by
    intro c hc
    have : ∀ c ∈ defaultObjs, c.type ≤ 255 ∧ c.vdim ≤ 255 ∧ 0 ≤ c.div ∧ c.div ≤ 255 ∧ c.mlen ≤ 255 ∧ c.name.length ≤ 65524 := by
      decide
    obtain ⟨a, b, c', d, e, f⟩ := this c hc
    exact ⟨a, b, c', d, e, f⟩⟩ rfl rfl

/-- … and this history — enable all, 20 bytes of padding, noise without a start byte, channel info of channel 1, a start
    request, steps and reads in between — satisfies the hypothesis of `history_conforms` on it (write padding 16) -/
example : ∀ x ∈ [HOp.req (.enAll true), .junk (List.replicate 20 0), .recv, .junk [1, 2, 3], .recv, .recv, .read, .req (.chinfo 1), .recv,
    .read, .req (.start true), .recv, .stream, .read, .read], x.WF 11 16 := by
  intro x hx
  simp only [List.mem_cons, List.not_mem_nil, or_false] at hx
  rcases hx with rfl | rfl | rfl | rfl | rfl | rfl | rfl | rfl | rfl | rfl | rfl | rfl | rfl | rfl | rfl
  case inr.inl =>
    show Dispatch.recvHandle (Pad.dataAlign 16 (List.replicate 20 0)) = .ignored
    rw [show Pad.dataAlign 16 (List.replicate 20 (0 : Byte)) = List.replicate 32 0 by decide]
    exact C17.padding_only_ignored 32
  case inr.inr.inr.inl => exact C02.no_sof_ignored _ (by decide)
  case inr.inr.inr.inr.inr.inr.inr.inl => show (1 : Nat) < 11; omega
  all_goals trivial

/-- `FitsAlong` is satisfiable: a started two-channel device (triangle wave as FLOAT, sparse call-index function as INT32),
    batches of 3 rounds, along a history with two stream steps, a read and a receive step -/
example :
    let cs : List Chan := [⟨true, 10, 1, 0, 0, [], some 2, 0, 1, 0⟩, ⟨true, 7, 1, 0, 0, [], some 12, 0, 1, 0⟩]
    let i : Inst := { newInst [0, 1] 3 0 3 0 with recvThr := .alive, streamThr := .alive, flag := true }
    FitsAlong cs i [.streamStep, .read, .recvStep, .streamStep] := by decide +kernel

/-- `request_after_history`'s hypothesis "all writes taken" holds e.g. after request / junk each followed by receive steps -/
example (cs : List Chan) (i : Inst) (r : Req) (d : Bytes) :
    (refRun cs i [] [.req r, .recv, .junk d, .stream, .recv]).2.2.1 = [] := rfl

/-- raw bytes: enable-all with channel byte 7 and value byte 0xff, divider-all with channel byte 9 — the default device
    enables every channel, sets every divider to 5 and acknowledges both -/
example :
    let cs := defaultObjs
    let i : Inst := { newInst (List.range 11) 3 16 100 0 with recvThr := .alive, qwrite := [wire 6 [2, 7, 0xff], wire 7 [2, 9, 5]] }
    (run cs i [.recvStep, .recvStep, .read, .read]).2.2 =
      [.none, .none, .bytes (wire 4 [0, 0, 0, 0]), .bytes (wire 4 [0, 0, 0, 0])] ∧
    ensOf (run cs i [.recvStep, .recvStep]).1 = List.replicate 11 true ∧
    divsOf (run cs i [.recvStep, .recvStep]).1 = List.replicate 11 5 := by decide +kernel

/-- the sparse function of the call index in a batch of 7 rounds: call indices 0, 3, 6 (as INT32 samples of channel 0),
    call counter 7 afterwards; the dense one: 0 … 6 -/
example :
    let sp : Chan := ⟨true, 7, 1, 0, 0, [], some 12, 0, 1, 0⟩
    let de : Chan := ⟨true, 7, 1, 0, 0, [], some 11, 0, 1, 0⟩
    ((dataGet [sp, de] 7).2.filter fun s => s.chan = 0).map (·.data) = [[.int 0], [.int 3], [.int 6]] ∧
    ((dataGet [sp, de] 7).2.filter fun s => s.chan = 1).map (·.data) = [[.int 0], [.int 1], [.int 2], [.int 3], [.int 4], [.int 5], [.int 6]] ∧
    (dataGet [sp, de] 7).1.map (·.calls) = [7, 7] := by decide +kernel

/-! ### junk written through a padded interface

  `ignores_noise` / `ignores_corrupted` speak about a queued item that IS the noise / the damaged frame, but every write
  goes through `Pad.dataAlign i.wpad` (zeros appended up to a multiple of the write padding).  This section concludes
  the same for what is really queued: the damaged frame / the noise followed by padding, for every write padding
  (helper lemmas: Lemmas/DummyPad.lean). -/

/-- a CRC-damaged request followed by ANY trailing bytes `z` (so: by any padding) is ignored: the length field is
    intact, the dispatcher judges exactly the damaged frame (hypotheses of `ignores_corrupted`) -/
theorem ignores_corrupted_padded (cs : List Chan) (i : Inst) (w e : Bytes) (fid : Nat) (pl z : Bytes) (rest : List Bytes)
    (hw : Serial.frameDecode w = .ok ⟨fid, pl⟩) (hexact : w.length = flen w) (hlen : w.length ≤ 4095)
    (hl : e.length = w.length) (h1 : e.getD 1 0 = 0) (h2 : e.getD 2 0 = 0)
    (hclass : weight e = 1 ∨ weight e = 2 ∨ weight e % 2 = 1 ∨ (weight e ≠ 0 ∧ lastSet e - firstSet e < 16))
    (hsof : Serial.hdrFind (xorBytes w e) = some 0)
    (halive : i.recvThr = .alive) (hq : i.qwrite = (xorBytes w e ++ z) :: rest) :
    recvStep cs i = (cs, { i with qwrite := rest }, none) :=
  ignores_junk cs i _ rest (Pad.recvHandle_corrupted_append w e fid pl hw hexact hlen hl h1 h2 hclass hsof z) halive hq

/-- noise without a start byte followed by any number of padding zeros is ignored -/
theorem ignores_noise_padded (cs : List Chan) (i : Inst) (d : Bytes) (k : Nat) (rest : List Bytes)
    (hn : Serial.hdrFind d = none) (halive : i.recvThr = .alive) (hq : i.qwrite = (d ++ List.replicate k 0) :: rest) :
    recvStep cs i = (cs, { i with qwrite := rest }, none) :=
  ignores_junk cs i _ rest (Pad.recvHandle_noise_append_zeros d k hn) halive hq

/-- a write the receiver ignores AFTER the interface's padding, then a receive step: nothing happened -/
theorem ignores_junk_written (cs : List Chan) (i : Inst) (d : Bytes)
    (hd : Dispatch.recvHandle (Pad.dataAlign i.wpad d) = .ignored) (halive : i.recvThr = .alive) (hq : i.qwrite = []) :
    run cs i [.write d, .recvStep] = (cs, i, [.none, .none]) := by
  have h := ignores_junk_history cs i [d] (fun x hx => by rw [List.mem_singleton.mp hx]; exact hd) halive hq
  simpa using h

/-- **a CRC-damaged request written through the interface** — whatever its write padding `i.wpad` — and taken by the
    receive thread changes nothing: channel objects, instance (stream flag, both queues, both threads) as before, nothing
    to observe -/
theorem ignores_corrupted_written (cs : List Chan) (i : Inst) (w e : Bytes) (fid : Nat) (pl : Bytes)
    (hw : Serial.frameDecode w = .ok ⟨fid, pl⟩) (hexact : w.length = flen w) (hlen : w.length ≤ 4095)
    (hl : e.length = w.length) (h1 : e.getD 1 0 = 0) (h2 : e.getD 2 0 = 0)
    (hclass : weight e = 1 ∨ weight e = 2 ∨ weight e % 2 = 1 ∨ (weight e ≠ 0 ∧ lastSet e - firstSet e < 16))
    (hsof : Serial.hdrFind (xorBytes w e) = some 0)
    (halive : i.recvThr = .alive) (hq : i.qwrite = []) :
    run cs i [.write (xorBytes w e), .recvStep] = (cs, i, [.none, .none]) :=
  ignores_junk_written cs i _ (Pad.recvHandle_corrupted_dataAlign i.wpad w e fid pl hw hexact hlen hl h1 h2 hclass hsof)
    halive hq

/-- the same for noise without a start byte -/
theorem ignores_noise_written (cs : List Chan) (i : Inst) (d : Bytes) (hn : Serial.hdrFind d = none)
    (halive : i.recvThr = .alive) (hq : i.qwrite = []) :
    run cs i [.write d, .recvStep] = (cs, i, [.none, .none]) :=
  ignores_junk_written cs i d (Pad.recvHandle_noise_dataAlign i.wpad d hn) halive hq

/-- … and for a padding-only write -/
theorem ignores_padding_written (cs : List Chan) (i : Inst) (k : Nat) (halive : i.recvThr = .alive) (hq : i.qwrite = []) :
    run cs i [.write (List.replicate k 0), .recvStep] = (cs, i, [.none, .none]) :=
  ignores_junk_written cs i _ (Pad.recvHandle_zeros_dataAlign i.wpad k) halive hq

/-- the three classes of junk of the property text, as a predicate on the bytes HANDED TO `write` (before the interface
    pads them): padding only, noise without a start byte, a valid request (exactly as long as it declares, ≤ 4095 bytes)
    damaged by one or two bit flips, an odd number of flips or a burst of up to 16 bits, with the start byte and the
    length bytes intact -/
inductive JunkClass : Bytes → Prop
  | padding (k : Nat) : JunkClass (List.replicate k 0)
  | noise (d : Bytes) (h : Serial.hdrFind d = none) : JunkClass d
  | corrupted (w e : Bytes) (fid : Nat) (pl : Bytes)
      (hw : Serial.frameDecode w = .ok ⟨fid, pl⟩) (hexact : w.length = flen w) (hlen : w.length ≤ 4095)
      (hl : e.length = w.length) (h1 : e.getD 1 0 = 0) (h2 : e.getD 2 0 = 0)
      (hclass : weight e = 1 ∨ weight e = 2 ∨ weight e % 2 = 1 ∨ (weight e ≠ 0 ∧ lastSet e - firstSet e < 16))
      (hsof : Serial.hdrFind (xorBytes w e) = some 0) : JunkClass (xorBytes w e)

/-- junk of the three classes is ignored by the receiver after ANY write padding -/
theorem JunkClass.ignored {d : Bytes} (h : JunkClass d) (wpad : Nat) :
    Dispatch.recvHandle (Pad.dataAlign wpad d) = .ignored := by
  cases h with
  | padding k => exact Pad.recvHandle_zeros_dataAlign wpad k
  | noise _ hn => exact Pad.recvHandle_noise_dataAlign wpad d hn
  | corrupted w e fid pl hw hexact hlen hl h1 h2 hclass hsof =>
    exact Pad.recvHandle_corrupted_dataAlign wpad w e fid pl hw hexact hlen hl h1 h2 hclass hsof

/-- … i.e. it is a well-formed junk item of a history, for every channel count and every write padding -/
theorem JunkClass.wf {d : Bytes} (h : JunkClass d) : ∀ n wpad, HOp.WF n wpad (.junk d) :=
  fun _ wpad => h.ignored wpad

/-- well-formedness of a history item by CLASS, without reference to the write padding: requests are well formed for a
    device with `n` channels, junk is of one of the three classes -/
def HOp.WFc (n : Nat) : HOp → Prop
  | .req r => r.WF n
  | .junk d => JunkClass d
  | _ => True

theorem HOp.WFc.wf {n : Nat} {x : HOp} (h : x.WFc n) (wpad : Nat) : x.WF n wpad := by
  cases x with
  | req r => exact h
  | junk d => exact JunkClass.wf h n wpad
  | recv => trivial
  | stream => trivial
  | read => trivial

/-- **history_conforms for the three junk classes, every write padding**: the statement of `history_conforms` with the
    junk of the history given by its class (padding / noise / damaged request, as handed to `write`) — no hypothesis
    mentions the write padding, the conclusion holds for whatever `i.wpad` is -/
theorem history_conforms_classes (cs : List Chan) (i : Inst) (pend : List (Option Req)) (h : List HOp) (hinv : Inv cs i pend)
    (hwf : ∀ x ∈ h, x.WFc cs.length) :
    run cs i (h.map HOp.op) = ((refRun cs i pend h).1, (refRun cs i pend h).2.1, (refRun cs i pend h).2.2.2) ∧
    Inv (refRun cs i pend h).1 (refRun cs i pend h).2.1 (refRun cs i pend h).2.2.1 ∧
    (refRun cs i pend h).1.length = cs.length ∧ (refRun cs i pend h).2.1.wpad = i.wpad :=
  history_conforms cs i pend h hinv (fun x hx => (hwf x hx).wf i.wpad)

/-- the description fits the info frames after every such history -/
theorem devOk_run_classes (cs : List Chan) (i : Inst) (h : List HOp) (hd : DevOk cs i) (ha : i.recvThr = .alive)
    (hq : i.qwrite = []) (hwf : ∀ x ∈ h, x.WFc cs.length) :
    DevOk (run cs i (h.map HOp.op)).1 (run cs i (h.map HOp.op)).2.1 :=
  devOk_run cs i h hd ha hq (fun x hx => (hwf x hx).wf i.wpad)

/-- **alive_run for the three junk classes**: the receive thread survives every history of well-formed requests,
    padding-only writes, noise without a start byte and CRC-damaged requests written through ANY write padding,
    interleaved with receive steps, stream steps and reads -/
theorem alive_run_classes (cs : List Chan) (i : Inst) (h : List HOp) (hd : DevOk cs i) (ha : i.recvThr = .alive)
    (hq : i.qwrite = []) (hwf : ∀ x ∈ h, x.WFc cs.length) :
    (run cs i (h.map HOp.op)).2.1.recvThr = .alive :=
  alive_run cs i h hd ha hq (fun x hx => (hwf x hx).wf i.wpad)

/-- `request_after_history` for the three junk classes, every write padding -/
theorem request_after_history_classes (cs : List Chan) (i : Inst) (h : List HOp) (r : Req) (hd : DevOk cs i)
    (ha : i.recvThr = .alive) (hq : i.qwrite = []) (hwf : ∀ x ∈ h, x.WFc cs.length) (hr : r.WF cs.length)
    (hdrain : (refRun cs i [] h).2.2.1 = []) :
    let s := run cs i (h.map HOp.op)
    let t := run s.1 s.2.1 [.write (wire r.fid r.payload), .recvStep]
    t.1 = refChans s.1 r ∧ t.2.1.flag = refFlag s.2.1.flag r ∧
    t.2.1.qread = s.2.1.qread ++ refAnswer s.1 s.2.1.flags s.2.1.rxp r ∧
    t.2.1.recvThr = .alive ∧ t.2.1.qwrite = [] ∧ t.2.2 = [.none, .none] :=
  request_after_history cs i h r hd ha hq (fun x hx => (hwf x hx).wf i.wpad) hr hdrain

/-! #### non-vacuity -/

/-- the start request `55 07 00 05 01 88 9c` with one flipped payload bit is of the class `corrupted`: all hypotheses of
    `ignores_corrupted_padded` / `ignores_corrupted_written` hold together (the frame of the examples of Props/C02) -/
example : JunkClass (xorBytes [0x55, 0x07, 0x00, 0x05, 0x01, 0x88, 0x9c] [0, 0, 0, 0, 0x01, 0, 0]) :=
  .corrupted _ _ 5 [0x01] (by decide +kernel) (by decide) (by decide) (by decide) (by decide) (by decide)
    (Or.inl (by decide +kernel)) (by decide +kernel)

/-- what an interface with write padding 16 queues for it: the damaged frame and 9 zeros — not the damaged frame itself,
    so `ignores_corrupted` does not apply to it; `ignores_corrupted_padded` (z = 9 zeros) does -/
example : Pad.dataAlign 16 (xorBytes [0x55, 0x07, 0x00, 0x05, 0x01, 0x88, 0x9c] [0, 0, 0, 0, 0x01, 0, 0]) =
    xorBytes [0x55, 0x07, 0x00, 0x05, 0x01, 0x88, 0x9c] [0, 0, 0, 0, 0x01, 0, 0] ++ List.replicate 9 0 := by decide +kernel

/-- the hypotheses of `ignores_corrupted_padded` on the default device: receive thread alive, the padded damaged frame
    at the head of the queue -/
example :
    let i : Inst := { newInst (List.range 11) 3 16 100 16 with
      recvThr := .alive
      qwrite := [xorBytes [0x55, 0x07, 0x00, 0x05, 0x01, 0x88, 0x9c] [0, 0, 0, 0, 0x01, 0, 0] ++ List.replicate 9 0] }
    i.recvThr = .alive ∧
    i.qwrite = (xorBytes [0x55, 0x07, 0x00, 0x05, 0x01, 0x88, 0x9c] [0, 0, 0, 0, 0x01, 0, 0] ++ List.replicate 9 0) :: [] ∧
    recvStep defaultObjs i = (defaultObjs, { i with qwrite := [] }, none) := by decide +kernel

/-- a history on the default device with write padding 16 — enable all, the damaged start request, 20 bytes of padding,
    noise, a channel-info request, receive steps, a stream step and reads in between — satisfies the hypothesis of
    `history_conforms_classes` … -/
example : ∀ x ∈ [HOp.req (.enAll true), .junk (xorBytes [0x55, 0x07, 0x00, 0x05, 0x01, 0x88, 0x9c] [0, 0, 0, 0, 0x01, 0, 0]),
    .recv, .recv, .junk (List.replicate 20 0), .junk [1, 2, 3], .recv, .req (.chinfo 1), .recv, .recv, .stream, .read, .read],
    x.WFc 11 := by
  intro x hx
  simp only [List.mem_cons, List.not_mem_nil, or_false] at hx
  rcases hx with rfl | rfl | rfl | rfl | rfl | rfl | rfl | rfl | rfl | rfl | rfl | rfl | rfl
  case inr.inl =>
    exact .corrupted _ _ 5 [0x01] (by decide +kernel) (by decide) (by decide) (by decide) (by decide) (by decide)
      (Or.inl (by decide +kernel)) (by decide +kernel)
  case inr.inr.inr.inr.inl => exact .padding 20
  case inr.inr.inr.inr.inr.inl => exact .noise _ (by decide)
  case inr.inr.inr.inr.inr.inr.inr.inl => show (1 : Nat) < 11; omega
  all_goals trivial

/-- … and on the machine: the damaged start request written through write padding 16 is taken and dropped — the stream
    is NOT started, nothing but the ACK of the enable request and the channel info is ever queued, the receive thread is
    alive at the end -/
example :
    let i : Inst := { newInst (List.range 11) 3 16 100 16 with recvThr := .alive, streamThr := .alive }
    let h := [HOp.req (.enAll true), .junk (xorBytes [0x55, 0x07, 0x00, 0x05, 0x01, 0x88, 0x9c] [0, 0, 0, 0, 0x01, 0, 0]),
      .recv, .recv, .junk (List.replicate 20 0), .junk [1, 2, 3], .recv, .req (.chinfo 1), .recv, .recv, .recv, .stream, .read,
      .read, .read]
    (run defaultObjs i (h.map HOp.op)).2.2 =
      [.none, .none, .none, .none, .none, .none, .none, .none, .none, .none, .none, .none, .bytes (wire 4 [0, 0, 0, 0]),
       .bytes (wire 3 [1, 10, 1, 0, 0, 0x63, 0x68, 0x61, 0x6e, 0x31]), .bytes []] ∧
    (run defaultObjs i (h.map HOp.op)).2.1.flag = false ∧ (run defaultObjs i (h.map HOp.op)).2.1.recvThr = .alive ∧
    (run defaultObjs i (h.map HOp.op)).2.1.qwrite = [] := by decide +kernel

/-! ## Round 7 — truncated requests, over-long declared lengths, a second request in the same write

  Section 5 left "damage in the length bytes and truncated requests" to `ignores_junk`'s hypothesis and K / O.  With
  `C02.truncated_rejected` / `C02.overlong_rejected` / `C02.dispatch_first_frame_only` (round 7) they become theorems
  about the device.  Stated for the bytes AS QUEUED (like `ignores_corrupted`) and, through the interface, for write
  padding 0: zero padding behind a truncated request can complete it (if the cut-off tail was zeros the padded write IS
  the request again), so "for every write padding" is false for this class and is not claimed. -/

/-- every proper prefix of a valid request (every request, every cut point, the empty write included) is ignored by the
    dispatcher -/
theorem truncated_ignored (w : Bytes) (fid : Nat) (pl : Bytes) (n : Nat)
    (hw : Serial.frameDecode w = .ok ⟨fid, pl⟩) (hexact : w.length = flen w) (hn : n < w.length) :
    Dispatch.recvHandle (w.take n) = .ignored := by
  obtain ⟨g4, g0, _⟩ := (C02.accept_iff _ fid pl).mp hw
  rw [C02.dispatch_eq_decode]
  match n, w, g4 with
  | 0, _, _ => rfl
  | n + 1, a :: t, _ =>
    simp at g0
    subst g0
    have hsof : Serial.hdrFind ((85#8 :: t).take (n + 1)) = some 0 := by
      simp [Serial.hdrFind, Gen.Frame.sof, List.findIdx_cons]
    rw [hsof]
    show (match Serial.frameDecode (((85#8 :: t).take (n + 1)).drop 0) with
      | .ok fr => Dispatch.cbHandle fr.fid fr.data
      | .error _ => Dispatch.Disp.ignored) = _
    rw [List.drop_zero]
    cases hd : Serial.frameDecode ((85#8 :: t).take (n + 1)) with
    | error _ => rfl
    | ok fr => exact absurd hd (C02.truncated_rejected _ fid pl (n + 1) hw hexact hn fr.fid fr.data)

/-- a write that starts with the start byte and DECLARES more bytes than it has (a grown length field, or a request cut
    anywhere behind its length bytes) is ignored: the dispatcher never reads beyond the write -/
theorem overlong_ignored (t : Bytes) (h : (0x55 :: t : Bytes).length < flen (0x55 :: t)) :
    Dispatch.recvHandle (0x55 :: t) = .ignored := by
  rw [C02.dispatch_eq_decode]
  have hsof : Serial.hdrFind (0x55 :: t : Bytes) = some 0 := by
    simp [Serial.hdrFind, Gen.Frame.sof, List.findIdx_cons]
  rw [hsof]
  show (match Serial.frameDecode ((0x55 :: t : Bytes).drop 0) with
    | .ok fr => Dispatch.cbHandle fr.fid fr.data
    | .error _ => Dispatch.Disp.ignored) = _
  rw [List.drop_zero]
  cases hd : Serial.frameDecode (0x55 :: t : Bytes) with
  | error _ => rfl
  | ok fr => exact absurd hd (C02.overlong_rejected _ h fr.fid fr.data)

/-- **a truncated request in the queue changes nothing**: channel state, stream flag, response queue, both threads as
    before, nothing to observe — every request, every cut point -/
theorem ignores_truncated (cs : List Chan) (i : Inst) (w : Bytes) (fid : Nat) (pl : Bytes) (n : Nat) (rest : List Bytes)
    (hw : Serial.frameDecode w = .ok ⟨fid, pl⟩) (hexact : w.length = flen w) (hn : n < w.length)
    (halive : i.recvThr = .alive) (hq : i.qwrite = w.take n :: rest) :
    recvStep cs i = (cs, { i with qwrite := rest }, none) :=
  ignores_junk cs i _ rest (truncated_ignored w fid pl n hw hexact hn) halive hq

/-- **a request whose length field grew** (or any write at the start byte that declares more than it carries) in the queue
    changes nothing -/
theorem ignores_overlong (cs : List Chan) (i : Inst) (t : Bytes) (rest : List Bytes)
    (h : (0x55 :: t : Bytes).length < flen (0x55 :: t))
    (halive : i.recvThr = .alive) (hq : i.qwrite = (0x55 :: t) :: rest) :
    recvStep cs i = (cs, { i with qwrite := rest }, none) :=
  ignores_junk cs i _ rest (overlong_ignored t h) halive hq

/-- any number of truncated requests and over-long writes written through an interface WITHOUT write padding, each followed
    by a receive step, in any order: the machine is where it was and still live -/
theorem ignores_truncated_history (cs : List Chan) (i : Inst) (ds : List Bytes) (hpad : i.wpad = 0)
    (hds : ∀ d ∈ ds, (∃ w fid pl n, Serial.frameDecode w = .ok ⟨fid, pl⟩ ∧ w.length = flen w ∧ n < w.length ∧ d = w.take n) ∨
      (∃ t, d = 0x55 :: t ∧ d.length < flen d))
    (halive : i.recvThr = .alive) (hq : i.qwrite = []) :
    run cs i (ds.flatMap fun d => [.write d, .recvStep]) = (cs, i, (ds.flatMap fun _ => [Obs.none, Obs.none])) := by
  apply ignores_junk_history cs i ds _ halive hq
  intro d hd
  rw [hpad, C17.align_noop_when_aligned 0 d (Or.inl rfl)]
  rcases hds d hd with ⟨w, fid, pl, n, hw, he, hn, rfl⟩ | ⟨t, rfl, hl⟩
  · exact truncated_ignored w fid pl n hw he hn
  · exact overlong_ignored t hl

/-- **only the first request of a write is served** (modelled, now proved for every pair): a write that carries a valid
    request followed by ANY bytes — a second valid request included — is dispatched exactly like the first request alone -/
theorem first_request_only (w₁ w₂ : Bytes) (fid : Nat) (pl : Bytes) (hw : Serial.frameDecode w₁ = .ok ⟨fid, pl⟩) :
    Dispatch.recvHandle (w₁ ++ w₂) = Dispatch.recvHandle w₁ := by
  rw [C02.dispatch_first_frame_only w₁ w₂ fid pl hw]
  have := C02.dispatch_first_frame_only w₁ [] fid pl hw
  rw [List.append_nil] at this
  exact this.symm

/-- non-vacuity (round 7): START(True) cut after 5 of its 7 bytes; the same request with its length field grown to 9 -/
example : Serial.frameDecode [0x55, 0x07, 0x00, 0x05, 0x01, 0x88, 0x9c] = .ok ⟨5, [0x01]⟩ ∧
    ([0x55, 0x07, 0x00, 0x05, 0x01, 0x88, 0x9c] : Bytes).length = flen [0x55, 0x07, 0x00, 0x05, 0x01, 0x88, 0x9c] ∧
    Dispatch.recvHandle (([0x55, 0x07, 0x00, 0x05, 0x01, 0x88, 0x9c] : Bytes).take 5) = .ignored ∧
    ([0x55, 0x09, 0x00, 0x05, 0x01, 0x88, 0x9c] : Bytes).length < flen [0x55, 0x09, 0x00, 0x05, 0x01, 0x88, 0x9c] ∧
    Dispatch.recvHandle [0x55, 0x09, 0x00, 0x05, 0x01, 0x88, 0x9c] = .ignored := by decide +kernel

/-- the junk classes of round 7, as handed to `write`: the three of `JunkClass`, every proper prefix of a valid request, and
    every write at the start byte that declares more bytes than it carries (e.g. a request whose length field grew) -/
inductive JunkClass7 : Bytes → Prop
  | base {d : Bytes} (h : JunkClass d) : JunkClass7 d
  | truncated (w : Bytes) (fid : Nat) (pl : Bytes) (n : Nat) (hw : Serial.frameDecode w = .ok ⟨fid, pl⟩)
      (hexact : w.length = flen w) (hn : n < w.length) : JunkClass7 (w.take n)
  | overlong (t : Bytes) (h : (0x55 :: t : Bytes).length < flen (0x55 :: t)) : JunkClass7 (0x55 :: t)

/-- junk of the five classes is ignored by the receiver behind an interface without write padding -/
theorem JunkClass7.ignored0 {d : Bytes} (h : JunkClass7 d) : Dispatch.recvHandle (Pad.dataAlign 0 d) = .ignored := by
  cases h with
  | base h => exact h.ignored 0
  | truncated w fid pl n hw hexact hn =>
    rw [C17.align_noop_when_aligned 0 _ (Or.inl rfl)]; exact truncated_ignored w fid pl n hw hexact hn
  | overlong t h =>
    rw [C17.align_noop_when_aligned 0 _ (Or.inl rfl)]; exact overlong_ignored t h

def HOp.WFc7 (n : Nat) : HOp → Prop
  | .req r => r.WF n
  | .junk d => JunkClass7 d
  | _ => True

theorem HOp.WFc7.wf {n : Nat} {x : HOp} (h : x.WFc7 n) : x.WF n 0 := by
  cases x with
  | req r => exact h
  | junk d => exact JunkClass7.ignored0 h
  | recv => trivial
  | stream => trivial
  | read => trivial

/-- **refinement for the five junk classes** (device without write padding): for ANY history of well-formed requests in
    single / all / bulk form interleaved with padding-only writes, noise, CRC-damaged requests, TRUNCATED requests and
    writes with an over-long declared length, receive steps, stream steps and reads, the machine IS the reference device
    (state, stream flag, every response), and the invariant is kept -/
theorem history_conforms_classes7 (cs : List Chan) (i : Inst) (pend : List (Option Req)) (h : List HOp) (hinv : Inv cs i pend)
    (hpad : i.wpad = 0) (hwf : ∀ x ∈ h, x.WFc7 cs.length) :
    run cs i (h.map HOp.op) = ((refRun cs i pend h).1, (refRun cs i pend h).2.1, (refRun cs i pend h).2.2.2) ∧
    Inv (refRun cs i pend h).1 (refRun cs i pend h).2.1 (refRun cs i pend h).2.2.1 ∧
    (refRun cs i pend h).1.length = cs.length ∧ (refRun cs i pend h).2.1.wpad = i.wpad :=
  history_conforms cs i pend h hinv (fun x hx => by rw [hpad]; exact (hwf x hx).wf)

/-- … and the receive thread survives every such history -/
theorem alive_run_classes7 (cs : List Chan) (i : Inst) (h : List HOp) (hd : DevOk cs i) (ha : i.recvThr = .alive)
    (hq : i.qwrite = []) (hpad : i.wpad = 0) (hwf : ∀ x ∈ h, x.WFc7 cs.length) :
    (run cs i (h.map HOp.op)).2.1.recvThr = .alive :=
  alive_run cs i h hd ha hq (fun x hx => by rw [hpad]; exact (hwf x hx).wf)

/-- non-vacuity: a history with one junk item of each new class is well formed -/
example : ∀ x ∈ ([.junk (([0x55, 0x07, 0x00, 0x05, 0x01, 0x88, 0x9c] : Bytes).take 5), .recv,
    .junk [0x55, 0x09, 0x00, 0x05, 0x01, 0x88, 0x9c], .recv, .junk (List.replicate 3 0), .recv] : List HOp), x.WFc7 11 := by
  intro x hx
  simp only [List.mem_cons, List.not_mem_nil, or_false] at hx
  rcases hx with rfl | rfl | rfl | rfl | rfl | rfl
  · exact JunkClass7.truncated _ 5 [0x01] 5 (by decide +kernel) (by decide) (by decide)
  · trivial
  · exact JunkClass7.overlong _ (by decide)
  · trivial
  · exact JunkClass7.base (JunkClass.padding 3)
  · trivial

end Nxs.C14
