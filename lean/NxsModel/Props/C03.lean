/-
  C03 — frame reassembly is a function of the bytes received, not of how reads split them.
  Property theorems only (helper lemmas in Lemmas/Reasm.lean, Lemmas/ReasmRun.lean,
  Lemmas/SerialLawful.lean).

  `Reasm.run c chunks` is the model of the client receive path (`CommHandler._read_hdr`,
  `_read_frame`, `_recv_thread`) fed with the scripted reads `chunks` (an element `[]` is an empty
  read; an exhausted script answers empty reads); `Reasm.scan c d` is the specification: one
  left-to-right pass over the byte string `d` that skips to the next start byte, emits a complete
  decodable frame and continues after it, waits (stops) when the header or the declared length is
  not complete yet, and otherwise advances one byte.  Everything is proved for every codec that
  honours the frame interface (`LawfulCodec`), and instantiated for the serial codec.

  Accepted reading of the statement — "modulo awaited bytes".  The property text says the scan
  "accepts a complete valid frame and continues after it, and otherwise advances one byte", and that
  "a valid frame that follows line noise or a cut-off frame is not lost".  The frames delivered are a
  function of the bytes received SO FAR, and a length-prefixed stream forces one more case: at a start
  byte whose header decodes and declares `flen` bytes of which fewer have arrived, no receiver can tell
  a frame in transit from noise that looks like a header, so `scan` (like the code) WAITS there.  What
  is proved about that wait (section "modulo awaited bytes" below):
    * `scan_resume`, `delivered_monotone`: `scan (d ++ e) = scan d ++ scan (scanRest d ++ e)` — nothing
      delivered is ever retracted, and the only state that carries over is `scanRest d`, the candidate
      being waited on, a suffix of `d` (`rest_is_waiting_suffix`);
    * `stalled_until`: until the declared length has arrived nothing further is delivered (e.g.
      `55 28 00 02 aa bb` + three valid frames delivers nothing while fewer than 0x28 bytes are in;
      `55 ff ff 07` + 100 valid frames delivers none of them while fewer than 65535 bytes are in);
    * `delivery_delay_bounded`: as soon as the declared length has arrived the scan gets past the
      candidate — it delivers the window if it decodes, and otherwise advances ONE byte, so every byte
      behind the bogus start byte is examined again.  A bogus header therefore delays delivery by at
      most its declared length (`serial_delivery_delay`: 65535 bytes at the very most for the serial
      codec; `serial_rest_lt`: never more than 65534 bytes are held back) and loses nothing:
    * `valid_frame_not_lost`: a valid frame `f` anywhere in a stream, `pre ++ f ++ rest`, is delivered,
      right after the frames of `pre`, provided the candidates inside what the scan of `pre` was still
      waiting on (`scanRest pre`, a suffix of `pre`; empty in the common case: `valid_frame_after_consumed`)
      are each covered by the stream and rejected.  Both provisos are necessary: an uncovered candidate
      is `stalled_until`, and a window that decodes IS a frame (and then swallows the start of `f`).

  The reading on the reviewer's example (REVIEW R4-A-A7).  Received: the first 10 bytes of a 40-byte
  frame, `55 28 00 01` + 6 payload bytes, then the valid frame `55 07 00 05 01 88 9c`, then idle reads.
  The literal text ("otherwise advances one byte", "a valid frame that follows … a cut-off frame is not
  lost") would deliver `(5, 01)` at once.  `scan`, the oracle `ref_scan` and the code deliver NOTHING,
  under every chunking, while fewer than the declared 0x28 = 40 bytes are in (`stalled_until`; 17 bytes,
  38 bytes: nothing), because the header at offset 0 decodes and its frame may still be in transit.
  With the 40th byte the window is checked, rejected, the scan advances ONE byte and every frame behind
  the cut-off one comes out, none lost (`delivery_delay_bounded`, `valid_frame_not_lost`).  So the
  clauses "equals the scan" and "is not lost" are proved for the scan WITH the wait; what is
  unconditional is chunking independence (`run_eq_scan`, `chunking_independent`).  The example is the
  regression corpus `harness/corpus/C03/f4_awaited_bytes.txt` (model, code and oracle agree on it) and
  is listed under `assumptions` in `harness/props/C03.py` (copied into evidence/C03.json).
-/
import NxsModel.Gen.Comm
import NxsModel.Route
import NxsModel.Lemmas.ReasmRun
import NxsModel.Lemmas.SerialLawful
import NxsModel.Lemmas.R7Reasm
namespace Nxs.C03
open Nxs
open Nxs.Serial (Hdr Frame)

/-- main refinement theorem: the frames the client extracts are the left-to-right scan of the
    concatenation of the reads — for every split into reads, empty reads anywhere included -/
theorem run_eq_scan (c : Codec) (hc : LawfulCodec c) (chunks : List Bytes) :
    Reasm.run c chunks = Reasm.scan c chunks.flatten :=
  Reasm.run_eq_scan hc chunks

/-- two chunkings of the same byte sequence deliver the same frames -/
theorem chunking_independent (c : Codec) (hc : LawfulCodec c) (cs₁ cs₂ : List Bytes)
    (h : cs₁.flatten = cs₂.flatten) : Reasm.run c cs₁ = Reasm.run c cs₂ := by
  rw [run_eq_scan c hc, run_eq_scan c hc, h]

/-- back-to-back valid frames (each decodes, and its header declares exactly its length), followed
    by anything, are emitted once each and in order, and the scan continues after the last one -/
theorem back_to_back_then (c : Codec) (hc : LawfulCodec c) (fs : List (Bytes × Frame)) (rest : Bytes)
    (hfs : ∀ p ∈ fs, c.frameDecode p.1 = .ok p.2 ∧ ∃ h, c.hdrDecode p.1 = .ok h ∧ h.flen = p.1.length) :
    Reasm.scan c ((fs.map (·.1)).flatten ++ rest) = fs.map (·.2) ++ Reasm.scan c rest := by
  induction fs with
  | nil => rfl
  | cons p fs ih =>
    obtain ⟨hf, h, hh, hl⟩ := hfs p (by simp)
    have ih' := ih (fun q hq => hfs q (by simp [hq]))
    simp only [List.map_cons, List.flatten_cons, List.append_assoc, List.cons_append]
    rw [Reasm.scan_valid_frame hc p.1 _ p.2 h hf hh hl, ih']

/-- back-to-back valid frames are delivered exactly once each and in order -/
theorem back_to_back (c : Codec) (hc : LawfulCodec c) (fs : List (Bytes × Frame))
    (hfs : ∀ p ∈ fs, c.frameDecode p.1 = .ok p.2 ∧ ∃ h, c.hdrDecode p.1 = .ok h ∧ h.flen = p.1.length) :
    Reasm.scan c (fs.map (·.1)).flatten = fs.map (·.2) := by
  have := back_to_back_then c hc fs [] hfs
  rw [List.append_nil] at this
  rw [this, Reasm.scan_nosof hc [] (by simp), List.append_nil]

/-- … under every chunking of their concatenation -/
theorem back_to_back_run (c : Codec) (hc : LawfulCodec c) (fs : List (Bytes × Frame)) (chunks : List Bytes)
    (hfs : ∀ p ∈ fs, c.frameDecode p.1 = .ok p.2 ∧ ∃ h, c.hdrDecode p.1 = .ok h ∧ h.flen = p.1.length)
    (hch : chunks.flatten = (fs.map (·.1)).flatten) :
    Reasm.run c chunks = fs.map (·.2) := by
  rw [run_eq_scan c hc, hch, back_to_back c hc fs hfs]

/-- nothing that is not a valid frame is delivered: every delivered frame is the decoding of a
    window of the stream (for the serial codec, by C02 `accept_iff`, the window meets the acceptance
    predicate: 0x55, known id, consistent length, CRC over exactly the declared length) -/
theorem only_valid (c : Codec) (hc : LawfulCodec c) (d : Bytes) (fr : Frame) (h : fr ∈ Reasm.scan c d) :
    ∃ pre post w, d = pre ++ w ++ post ∧ c.frameDecode w = .ok fr :=
  Reasm.mem_scan hc (d.length + 1) d (by omega) h

/-- the same for the receive machine under any chunking -/
theorem only_valid_run (c : Codec) (hc : LawfulCodec c) (chunks : List Bytes) (fr : Frame)
    (h : fr ∈ Reasm.run c chunks) :
    ∃ pre post w, chunks.flatten = pre ++ w ++ post ∧ c.frameDecode w = .ok fr := by
  rw [run_eq_scan c hc] at h
  exact only_valid c hc _ fr h

/-- resynchronisation 1: a valid frame behind line noise that contains no start byte is delivered,
    and scanning continues right after it -/
theorem resync (c : Codec) (hc : LawfulCodec c) (noise f rest : Bytes) (fr : Frame)
    (hf : c.frameDecode f = .ok fr) (hh : ∃ h, c.hdrDecode f = .ok h ∧ h.flen = f.length)
    (hn : ∀ b ∈ noise, b ≠ c.sof) :
    Reasm.scan c (noise ++ f ++ rest) = fr :: Reasm.scan c rest := by
  obtain ⟨h, hh, hl⟩ := hh
  rw [List.append_assoc, Reasm.scan_skip hc noise _ hn, Reasm.scan_valid_frame hc f rest fr h hf hh hl]

/-- resynchronisation, general form: if every position `k` inside the junk in front of the frame is
    *examined and rejected* — i.e. whenever the bytes from `k` on start with a decodable header, the
    declared length `flen` is covered by the bytes that follow (`flen ≤` what is left of the whole
    stream, so the receiver does not wait) and that window of `flen` bytes does not decode — then the
    valid frame behind the junk is delivered and scanning continues right after it.
    Covers: arbitrary noise incl. start bytes, frames with a bad CRC, frames cut short (their header
    declares more bytes than were sent; the window then reaches into the following bytes and fails
    the footer check), several of those in a row.  The two side conditions are necessary for an
    online receiver: with fewer than `flen` bytes after a decodable header it must wait
    (`cutoff_waits`), and a window that happens to decode is, by definition, a frame. -/
theorem resync_rejected (c : Codec) (hc : LawfulCodec c) (junk f rest : Bytes) (fr : Frame)
    (hf : c.frameDecode f = .ok fr) (hh : ∃ h, c.hdrDecode f = .ok h ∧ h.flen = f.length)
    (hn : ∀ k, k < junk.length → ∀ h, c.hdrDecode ((junk ++ f ++ rest).drop k) = .ok h →
      h.flen ≤ (junk ++ f ++ rest).length - k ∧
        ∀ fr', c.frameDecode (((junk ++ f ++ rest).drop k).take h.flen) ≠ .ok fr') :
    Reasm.scan c (junk ++ f ++ rest) = fr :: Reasm.scan c rest := by
  obtain ⟨h, hh, hl⟩ := hh
  have hlen := Reasm.hdrDecode_ok_length hc hh
  rw [List.append_assoc] at hn ⊢
  rw [Reasm.scan_reject_prefix hc junk (f ++ rest) (by simp; omega) hn,
    Reasm.scan_valid_frame hc f rest fr h hf hh hl]

/-- resynchronisation 2: arbitrary noise (start bytes included) in which no position starts a
    decodable header does not hide the valid frame behind it.  (`(noise ++ f).drop k` is the
    stream from position `k` on; the header decoder looks at its first `hdrLen` bytes only.) -/
theorem resync_no_header (c : Codec) (hc : LawfulCodec c) (noise f rest : Bytes) (fr : Frame)
    (hf : c.frameDecode f = .ok fr) (hh : ∃ h, c.hdrDecode f = .ok h ∧ h.flen = f.length)
    (hn : ∀ k, k < noise.length → ∀ h, c.hdrDecode ((noise ++ f).drop k) ≠ .ok h) :
    Reasm.scan c (noise ++ f ++ rest) = fr :: Reasm.scan c rest := by
  apply resync_rejected c hc noise f rest fr hf hh
  intro k hk h hd
  exfalso
  obtain ⟨h0, hh0, _⟩ := hh
  have hlen := Reasm.hdrDecode_ok_length hc hh0
  apply hn k hk h
  have e : (noise ++ f ++ rest).drop k = (noise ++ f).drop k ++ rest :=
    List.drop_append_of_le_length (by simp; omega)
  rw [e, Reasm.hdrDecode_append hc _ (by simp; omega)] at hd
  exact hd

/-- resynchronisation 3, cut-off frame: `cut` is the beginning of a frame whose transmission was
    cut short (possibly even inside its header), directly followed by a valid frame `f` and `rest`.
    Read in context, the candidate at position 0 has header `h`; if at least `h.flen` bytes have
    arrived in total (the cut-off frame is "followed by enough further bytes") and that window does
    not decode (footer check fails — for the serial codec this is C02's CRC guarantee, it cannot be
    a theorem for every byte string because 16 check bits can coincide), and no later position of
    `cut` starts a decodable header, then `f` is delivered and scanning continues after it.
    (If later positions of `cut` do start decodable headers, `resync_rejected` applies position by
    position.) -/
theorem resync_cutoff (c : Codec) (hc : LawfulCodec c) (cut f rest : Bytes) (fr : Frame) (h₀ : Hdr)
    (hf : c.frameDecode f = .ok fr) (hh : ∃ h, c.hdrDecode f = .ok h ∧ h.flen = f.length)
    (hcut : c.hdrDecode (cut ++ f ++ rest) = .ok h₀)
    (henough : h₀.flen ≤ (cut ++ f ++ rest).length)
    (hbad : ∀ fr', c.frameDecode ((cut ++ f ++ rest).take h₀.flen) ≠ .ok fr')
    (hlater : ∀ k, 1 ≤ k → k < cut.length → ∀ h, c.hdrDecode ((cut ++ f).drop k) ≠ .ok h) :
    Reasm.scan c (cut ++ f ++ rest) = fr :: Reasm.scan c rest := by
  apply resync_rejected c hc cut f rest fr hf hh
  intro k hk h hd
  cases k with
  | zero =>
    rw [List.drop_zero] at hd ⊢
    rw [hcut] at hd
    cases hd
    exact ⟨by omega, hbad⟩
  | succ k =>
    exfalso
    obtain ⟨h0, hh0, _⟩ := hh
    have hlen := Reasm.hdrDecode_ok_length hc hh0
    apply hlater (k + 1) (by omega) hk h
    have e : (cut ++ f ++ rest).drop (k + 1) = (cut ++ f).drop (k + 1) ++ rest :=
      List.drop_append_of_le_length (by simp; omega)
    rw [e, Reasm.hdrDecode_append hc _ (by simp; omega)] at hd
    exact hd

/-- the unavoidable other half of the cut-off case: after a decodable header, until `flen` bytes
    have arrived nothing is delivered (the receiver cannot know the frame was cut) -/
theorem cutoff_waits (c : Codec) (hc : LawfulCodec c) (d : Bytes) (h : Hdr)
    (hd : c.hdrDecode d = .ok h) (hl : d.length < h.flen) : Reasm.scan c d = [] :=
  Reasm.scan_wait hc d h hd hl

/-- frames built by `frame_create` (ids the decoder knows) are valid frames in the above sense, so
    all the corollaries apply to them: e.g. behind start-byte-free noise -/
theorem created_delivered (c : Codec) (hc : LawfulCodec c) (fid : Nat) (p f noise rest : Bytes)
    (hcr : c.frameCreate fid (some p) = .ok f) (hid : fid ≤ 8) (hn : ∀ b ∈ noise, b ≠ c.sof) :
    Reasm.scan c (noise ++ f ++ rest) = ⟨fid, p⟩ :: Reasm.scan c rest := by
  obtain ⟨h1, h2⟩ := hc.frameCreate_decode fid p f hcr hid
  exact resync c hc noise f rest _ h1 h2 hn

/-! ### modulo awaited bytes: resumption, bounded delay, nothing lost -/

/-- resumption: the frames delivered for `d ++ e` are the frames delivered for `d` followed by the scan
    of (what the scan of `d` was still waiting on) ++ `e` -/
theorem scan_resume (c : Codec) (hc : LawfulCodec c) (d e : Bytes) :
    Reasm.scan c (d ++ e) = Reasm.scan c d ++ Reasm.scan c (Reasm.scanRest c d ++ e) :=
  Reasm.scan_resume hc d e

/-- what is delivered is never retracted: receiving more bytes only appends frames -/
theorem delivered_monotone (c : Codec) (hc : LawfulCodec c) (d e : Bytes) :
    ∃ more, Reasm.scan c (d ++ e) = Reasm.scan c d ++ more :=
  ⟨_, Reasm.scan_resume hc d e⟩

/-- the state carried over is a suffix of the received bytes on which a receiver can only wait: empty,
    or a start byte followed by less than a header, or by a decodable header that declares more bytes
    than have arrived -/
theorem rest_is_waiting_suffix (c : Codec) (hc : LawfulCodec c) (d : Bytes) :
    (∃ k, Reasm.scanRest c d = d.drop k) ∧
    (Reasm.scanRest c d = [] ∨ ((Reasm.scanRest c d).head? = some c.sof ∧
      ((Reasm.scanRest c d).length < c.hdrLen ∨
        ∃ h, c.hdrDecode (Reasm.scanRest c d) = .ok h ∧ (Reasm.scanRest c d).length < h.flen))) :=
  ⟨Reasm.scanRest_suffix hc d, Reasm.scanRest_waiting hc d⟩

/-- the same for the receive machine: a script of reads continued by further reads -/
theorem run_resume (c : Codec) (hc : LawfulCodec c) (cs₁ cs₂ : List Bytes) :
    Reasm.run c (cs₁ ++ cs₂) =
      Reasm.run c cs₁ ++ Reasm.scan c (Reasm.scanRest c cs₁.flatten ++ cs₂.flatten) :=
  Reasm.run_resume hc cs₁ cs₂

/-- the wait: the scan of `d` stopped on a decodable header declaring `h.flen` bytes; as long as fewer
    than that have arrived (counted from the candidate's start byte) nothing further is delivered,
    whatever the additional bytes `e` are — valid frames included -/
theorem stalled_until (c : Codec) (hc : LawfulCodec c) (d e : Bytes) (h : Hdr)
    (hw : c.hdrDecode (Reasm.scanRest c d) = .ok h)
    (hl : (Reasm.scanRest c d ++ e).length < h.flen) :
    Reasm.scan c (d ++ e) = Reasm.scan c d := by
  have hlen := Reasm.hdrDecode_ok_length hc hw
  rw [Reasm.scan_resume hc d e,
    Reasm.scan_wait hc _ h (by rw [Reasm.hdrDecode_append hc _ hlen]; exact hw) hl, List.append_nil]

/-- the delay is bounded by the declared length: the scan of `d` stopped on a decodable header
    declaring `h.flen` bytes; for EVERY continuation `e` that brings the bytes received from the
    candidate's start byte on to at least `h.flen`, the scan of `d ++ e` gets past the candidate: the
    window is delivered if it decodes, and otherwise exactly one byte is dropped and everything behind
    the bogus start byte is scanned again (so no later frame is skipped) -/
theorem delivery_delay_bounded (c : Codec) (hc : LawfulCodec c) (d e : Bytes) (h : Hdr)
    (hw : c.hdrDecode (Reasm.scanRest c d) = .ok h)
    (hl : h.flen ≤ (Reasm.scanRest c d ++ e).length) :
    Reasm.scan c (d ++ e) = Reasm.scan c d ++
      (match c.frameDecode ((Reasm.scanRest c d ++ e).take h.flen) with
       | .ok fr => fr :: Reasm.scan c ((Reasm.scanRest c d ++ e).drop h.flen)
       | .error _ => Reasm.scan c ((Reasm.scanRest c d ++ e).drop 1)) := by
  have hlen := Reasm.hdrDecode_ok_length hc hw
  have hw' : c.hdrDecode (Reasm.scanRest c d ++ e) = .ok h := by
    rw [Reasm.hdrDecode_append hc _ hlen]; exact hw
  rw [Reasm.scan_resume hc d e]
  congr 1
  cases hfd : c.frameDecode ((Reasm.scanRest c d ++ e).take h.flen) with
  | ok fr => exact Reasm.scan_frame hc _ h fr hw' hl hfd
  | error er => exact Reasm.scan_badframe hc _ h er hw' hl hfd

/-- nothing is lost behind whatever precedes a valid frame: `f` (valid, for `fr`) is delivered right
    after the frames of `pre`, and scanning continues after it, provided every candidate inside the
    bytes the scan of `pre` was still waiting on (`scanRest c pre`, a suffix of `pre`) is examined and
    rejected: its declared length is covered by the stream and its window does not decode.
    (`resync_rejected` is the special case in which nothing of `pre` is consumed before.) -/
theorem valid_frame_not_lost (c : Codec) (hc : LawfulCodec c) (pre f rest : Bytes) (fr : Frame)
    (hf : c.frameDecode f = .ok fr) (hh : ∃ h, c.hdrDecode f = .ok h ∧ h.flen = f.length)
    (hn : ∀ k, k < (Reasm.scanRest c pre).length →
      ∀ h, c.hdrDecode ((Reasm.scanRest c pre ++ f ++ rest).drop k) = .ok h →
        h.flen ≤ (Reasm.scanRest c pre ++ f ++ rest).length - k ∧
          ∀ fr', c.frameDecode (((Reasm.scanRest c pre ++ f ++ rest).drop k).take h.flen) ≠ .ok fr') :
    Reasm.scan c (pre ++ f ++ rest) = Reasm.scan c pre ++ fr :: Reasm.scan c rest := by
  rw [List.append_assoc, Reasm.scan_resume hc pre (f ++ rest), ← List.append_assoc,
    resync_rejected c hc (Reasm.scanRest c pre) f rest fr hf hh hn]

/-- the common case: the scan of what precedes the frame is not waiting on anything -/
theorem valid_frame_after_consumed (c : Codec) (hc : LawfulCodec c) (pre f rest : Bytes) (fr : Frame)
    (hf : c.frameDecode f = .ok fr) (hh : ∃ h, c.hdrDecode f = .ok h ∧ h.flen = f.length)
    (hpre : Reasm.scanRest c pre = []) :
    Reasm.scan c (pre ++ f ++ rest) = Reasm.scan c pre ++ fr :: Reasm.scan c rest := by
  apply valid_frame_not_lost c hc pre f rest fr hf hh
  intro k hk
  rw [hpre] at hk
  simp at hk

/-! ### routing of the delivered frames (`_recv_thread`, with C08 `route_fifo`) -/

/-- the two client queues after the receive thread processed the reads `chunks`: the stream queue holds
    the STREAM frames of the scan in order, the response queue the other frames in order minus the ACK
    frames that arrived while no device was known, and together they hold — up to the interleaving of
    the two queues — exactly `run`'s frames minus those dropped ACKs: nothing invented, lost or
    duplicated between reassembly and the queues -/
theorem routed_queues (c : Codec) (hc : LawfulCodec c) (hasDev : Bool) (chunks : List Bytes) :
    (Route.queues hasDev (Reasm.run c chunks)).2 =
      (Reasm.scan c chunks.flatten).filter (fun f => decide (f.fid = Gen.Ids.idSTREAM)) ∧
    (Route.queues hasDev (Reasm.run c chunks)).1 =
      (Reasm.scan c chunks.flatten).filter
        (fun f => !decide (f.fid = Gen.Ids.idSTREAM) && !(!hasDev && decide (f.fid = Gen.Ids.idACK))) ∧
    ((Route.queues hasDev (Reasm.run c chunks)).1 ++ (Route.queues hasDev (Reasm.run c chunks)).2).Perm
      ((Reasm.run c chunks).filter (fun f => !(!hasDev && decide (f.fid = Gen.Ids.idACK)))) := by
  obtain ⟨h2, h1⟩ := Reasm.queues_eq_filter hasDev (Reasm.run c chunks)
  refine ⟨?_, ?_, Reasm.queues_perm hasDev _⟩
  · rw [h2, run_eq_scan c hc]
  · rw [h1, run_eq_scan c hc]; rfl

/-! ### the serial codec -/

theorem serial_run_eq_scan (chunks : List Bytes) :
    Reasm.run Serial.codec chunks = Reasm.scan Serial.codec chunks.flatten :=
  run_eq_scan _ Serial.codec_lawful chunks

theorem serial_chunking_independent (cs₁ cs₂ : List Bytes) (h : cs₁.flatten = cs₂.flatten) :
    Reasm.run Serial.codec cs₁ = Reasm.run Serial.codec cs₂ :=
  chunking_independent _ Serial.codec_lawful cs₁ cs₂ h

theorem serial_back_to_back (fs : List (Bytes × Frame)) (chunks : List Bytes)
    (hfs : ∀ p ∈ fs, Serial.frameDecode p.1 = .ok p.2 ∧ ∃ h, Serial.hdrDecode p.1 = .ok h ∧ h.flen = p.1.length)
    (hch : chunks.flatten = (fs.map (·.1)).flatten) :
    Reasm.run Serial.codec chunks = fs.map (·.2) :=
  back_to_back_run _ Serial.codec_lawful fs chunks hfs hch

/-- every frame delivered, under any chunking, is a window of the stream that meets C02's
    acceptance predicate -/
theorem serial_only_valid (chunks : List Bytes) (fr : Frame) (h : fr ∈ Reasm.run Serial.codec chunks) :
    ∃ pre post w, chunks.flatten = pre ++ w ++ post ∧ Spec.Accept w fr.fid fr.data := by
  obtain ⟨pre, post, w, h1, h2⟩ := only_valid_run _ Serial.codec_lawful chunks fr h
  exact ⟨pre, post, w, h1, (Serial.frameDecode_accept w fr.fid fr.data).mp h2⟩

/-- wire frames (C01: `frame_create fid p = wire fid p`) behind noise without 0x55, under any chunking -/
theorem serial_resync (noise rest : Bytes) (fid : Nat) (p : Bytes) (chunks : List Bytes)
    (hp : p.length ≤ 65529) (hid : fid ≤ 8) (hn : ∀ b ∈ noise, b ≠ 0x55)
    (hch : chunks.flatten = noise ++ Spec.wire fid p ++ rest) :
    Reasm.run Serial.codec chunks = ⟨fid, p⟩ :: Reasm.scan Serial.codec rest := by
  rw [serial_run_eq_scan, hch]
  exact created_delivered _ Serial.codec_lawful fid p _ noise rest
    (Serial.frameCreate_eq fid p hp (by omega)) hid hn

theorem serial_resync_rejected (junk f rest : Bytes) (fr : Frame)
    (hf : Serial.frameDecode f = .ok fr) (hh : ∃ h, Serial.hdrDecode f = .ok h ∧ h.flen = f.length)
    (hn : ∀ k, k < junk.length → ∀ h, Serial.hdrDecode ((junk ++ f ++ rest).drop k) = .ok h →
      h.flen ≤ (junk ++ f ++ rest).length - k ∧
        ∀ fr', Serial.frameDecode (((junk ++ f ++ rest).drop k).take h.flen) ≠ .ok fr') :
    Reasm.scan Serial.codec (junk ++ f ++ rest) = fr :: Reasm.scan Serial.codec rest :=
  resync_rejected _ Serial.codec_lawful junk f rest fr hf hh hn

/-- the serial length field is 16 bit: no header declares more than 65535 bytes -/
theorem serial_hdr_flen_le (d : Bytes) (h : Hdr) (hd : Serial.hdrDecode d = .ok h) : h.flen ≤ 65535 := by
  match d with
  | [] | [_] | [_, _] | [_, _, _] =>
    rw [Serial.hdrDecode_short _ (by simp)] at hd; cases hd
  | a :: b :: c :: e :: rest =>
    rw [Serial.hdrDecode_cons] at hd
    by_cases ha : a ≠ 0x55
    · rw [if_pos ha] at hd; cases hd
    · rw [if_neg ha] at hd
      by_cases he : ¬ e.toNat ≤ 8
      · rw [if_pos he] at hd; cases hd
      · rw [if_neg he] at hd
        cases hd
        have := b.isLt; have := c.isLt
        show b.toNat + 256 * c.toNat ≤ 65535
        omega

/-- the serial receiver never holds back more than 65534 bytes -/
theorem serial_rest_lt (d : Bytes) : (Reasm.scanRest Serial.codec d).length < 65535 := by
  rcases Reasm.scanRest_waiting Serial.codec_lawful d with h | ⟨_, h | ⟨h, hd, hl⟩⟩
  · rw [h]; simp
  · have : Serial.codec.hdrLen = 4 := rfl
    omega
  · have := serial_hdr_flen_le _ h hd
    omega

/-- quantitative form for the serial codec: whatever header the scan of `d` is waiting on, once 65535
    bytes have arrived counted from its start byte (in particular after any 65535 further bytes) the
    scan is past it — the window delivered if it decodes, one byte dropped otherwise -/
theorem serial_delivery_delay (d e : Bytes) (h : Hdr)
    (hw : Serial.hdrDecode (Reasm.scanRest Serial.codec d) = .ok h)
    (hl : 65535 ≤ (Reasm.scanRest Serial.codec d ++ e).length) :
    Reasm.scan Serial.codec (d ++ e) = Reasm.scan Serial.codec d ++
      (match Serial.frameDecode ((Reasm.scanRest Serial.codec d ++ e).take h.flen) with
       | .ok fr => fr :: Reasm.scan Serial.codec ((Reasm.scanRest Serial.codec d ++ e).drop h.flen)
       | .error _ => Reasm.scan Serial.codec ((Reasm.scanRest Serial.codec d ++ e).drop 1)) :=
  delivery_delay_bounded _ Serial.codec_lawful d e h hw (by have := serial_hdr_flen_le _ h hw; omega)

theorem serial_valid_frame_not_lost (pre f rest : Bytes) (fr : Frame)
    (hf : Serial.frameDecode f = .ok fr) (hh : ∃ h, Serial.hdrDecode f = .ok h ∧ h.flen = f.length)
    (hn : ∀ k, k < (Reasm.scanRest Serial.codec pre).length →
      ∀ h, Serial.hdrDecode ((Reasm.scanRest Serial.codec pre ++ f ++ rest).drop k) = .ok h →
        h.flen ≤ (Reasm.scanRest Serial.codec pre ++ f ++ rest).length - k ∧
          ∀ fr', Serial.frameDecode (((Reasm.scanRest Serial.codec pre ++ f ++ rest).drop k).take h.flen) ≠ .ok fr') :
    Reasm.scan Serial.codec (pre ++ f ++ rest) =
      Reasm.scan Serial.codec pre ++ fr :: Reasm.scan Serial.codec rest :=
  valid_frame_not_lost _ Serial.codec_lawful pre f rest fr hf hh hn

/-! ### non-vacuity -/

/-- the valid 7-byte frame used in the examples below -/
def exFrame : Bytes := [0x55, 0x07, 0x00, 0x05, 0x01, 0x88, 0x9c]

/-- `55 28 00 02 aa bb` (a header that decodes: id 2, declared length 0x28 = 40) followed by three valid
    frames, 27 bytes in all: nothing is delivered, the scan waits on the whole string
    (hypotheses of `stalled_until` with `d` = these bytes, `e = []`) … -/
def exBogus40 : Bytes := [0x55, 0x28, 0x00, 0x02, 0xaa, 0xbb] ++ exFrame ++ exFrame ++ exFrame

example : Reasm.scan Serial.codec exBogus40 = [] ∧ Reasm.scanRest Serial.codec exBogus40 = exBogus40 ∧
    Serial.hdrDecode (Reasm.scanRest Serial.codec exBogus40) = .ok ⟨2, 40⟩ ∧
    (Reasm.scanRest Serial.codec exBogus40 ++ []).length < 40 := by decide +kernel

/-- … and once 40 bytes are in (two more frames: 41 bytes; hypotheses of `delivery_delay_bounded` and of
    `valid_frame_not_lost` hold) the window is rejected, one byte is dropped, and all five frames behind
    the bogus header are delivered: none was lost, they were delayed by 14 bytes -/
example : 40 ≤ (Reasm.scanRest Serial.codec exBogus40 ++ (exFrame ++ exFrame)).length ∧
    Reasm.scan Serial.codec (exBogus40 ++ (exFrame ++ exFrame)) =
      [⟨5, [0x01]⟩, ⟨5, [0x01]⟩, ⟨5, [0x01]⟩, ⟨5, [0x01]⟩, ⟨5, [0x01]⟩] := by decide +kernel

/-- the same through the receive machine, byte by byte with idle reads -/
example : Reasm.run Serial.codec ((exBogus40 ++ exFrame ++ exFrame).map (fun b => [b]) ++ [[]]) =
    [⟨5, [0x01]⟩, ⟨5, [0x01]⟩, ⟨5, [0x01]⟩, ⟨5, [0x01]⟩, ⟨5, [0x01]⟩] := by decide +kernel

/-- `55 ff ff 07` (decodes: id 7, declared length 65535) followed by 100 valid frames (704 bytes):
    none of them is delivered yet, the scan waits on the whole string … -/
def exBogus65535 : Bytes := [0x55, 0xff, 0xff, 0x07] ++ (List.replicate 100 exFrame).flatten

example : Reasm.scan Serial.codec exBogus65535 = [] ∧
    Reasm.scanRest Serial.codec exBogus65535 = exBogus65535 ∧
    Serial.hdrDecode (Reasm.scanRest Serial.codec exBogus65535) = .ok ⟨7, 65535⟩ ∧
    exBogus65535.length = 704 := by decide +kernel

/-- hypotheses of `valid_frame_not_lost` / `valid_frame_after_consumed`: noise, a frame with a bad CRC and
    a valid frame in front — the scan of that prefix consumed everything (`scanRest = []`) and delivered
    the valid one; a cut-off frame in front — the scan waits on it (`scanRest` = the cut-off frame), and
    its one candidate is covered by `exFrame ++ exFrame` and rejected -/
example : Reasm.scanRest Serial.codec
    ([0x00, 0x55, 0x13, 0xaa] ++ [0x55, 0x07, 0x00, 0x05, 0x01, 0x88, 0x9d] ++ exFrame) = [] ∧
    Reasm.scan Serial.codec ([0x00, 0x55, 0x13, 0xaa] ++ [0x55, 0x07, 0x00, 0x05, 0x01, 0x88, 0x9d] ++ exFrame) =
      [⟨5, [0x01]⟩] := by decide +kernel

example : Reasm.scanRest Serial.codec (exFrame ++ [0x55, 0x0a, 0x00, 0x04, 0x00]) = [0x55, 0x0a, 0x00, 0x04, 0x00] ∧
    Reasm.scan Serial.codec (exFrame ++ [0x55, 0x0a, 0x00, 0x04, 0x00] ++ exFrame ++ exFrame) =
      [⟨5, [0x01]⟩, ⟨5, [0x01]⟩, ⟨5, [0x01]⟩] := by decide +kernel

/-- routing: with no device known the ACK is dropped, the STREAM frame goes to the stream queue -/
example : Route.queues false (Reasm.run Serial.codec
    [[0x55, 0x07, 0x00, 0x01, 0x00, 0x54, 0x79], [0x55, 0x0a, 0x00, 0x04, 0x00, 0x00, 0x00, 0x00, 0xf9, 0x92], exFrame]) =
    ([⟨5, [0x01]⟩], [⟨1, [0x00]⟩]) := by decide +kernel


/-- noise + two frames, the start byte of the first frame arriving as the last of a 4-byte read
    (the input of the historical defect F2): both frames are delivered, by the machine and by the scan -/
example : Reasm.run Serial.codec
    [[0x00, 0x00, 0x00, 0x55],
     [0x07, 0x00, 0x05, 0x01, 0x88, 0x9c, 0x55, 0x0a, 0x00, 0x04, 0xfe, 0xff, 0xff, 0xff, 0x16, 0xe9]]
    = [⟨5, [0x01]⟩, ⟨4, [0xfe, 0xff, 0xff, 0xff]⟩] := by decide +kernel

example : Reasm.scan Serial.codec
    [0x00, 0x00, 0x00, 0x55, 0x07, 0x00, 0x05, 0x01, 0x88, 0x9c,
     0x55, 0x0a, 0x00, 0x04, 0xfe, 0xff, 0xff, 0xff, 0x16, 0xe9]
    = [⟨5, [0x01]⟩, ⟨4, [0xfe, 0xff, 0xff, 0xff]⟩] := by decide +kernel

/-- byte-wise delivery with empty reads in between, a cut-off frame (header declares 7 bytes, 3 sent)
    in front: the frame behind it is still delivered -/
example : Reasm.run Serial.codec
    [[0x55], [], [0x07], [0x00], [], [], [0x55, 0x07, 0x00], [0x05, 0x01], [], [0x88], [0x9c], []]
    = [⟨5, [0x01]⟩] := by decide +kernel

/-- a frame with a bad CRC is not delivered; the good one behind it is -/
example : Reasm.run Serial.codec
    [[0x55, 0x07, 0x00, 0x05, 0x01, 0x88], [0x9d, 0x55, 0x07, 0x00, 0x05, 0x01, 0x88, 0x9c]]
    = [⟨5, [0x01]⟩] := by decide +kernel

/-- the hypotheses of `back_to_back`/`resync` are satisfiable -/
example : Serial.frameDecode [0x55, 0x07, 0x00, 0x05, 0x01, 0x88, 0x9c] = .ok ⟨5, [0x01]⟩ ∧
    ∃ h, Serial.hdrDecode [0x55, 0x07, 0x00, 0x05, 0x01, 0x88, 0x9c] = .ok h ∧
      h.flen = [0x55, 0x07, 0x00, 0x05, 0x01, 0x88, (0x9c : Byte)].length :=
  ⟨by decide +kernel, ⟨5, 7⟩, by decide +kernel, rfl⟩

/-- the statements of `_read_hdr` / `_read_frame` that `Reasm.lean` transcribes are present in the
    current source (facts regenerated by the translator on every run): an empty read stores the buffer
    and returns, a start byte with fewer than `hdr_len` bytes behind it is kept, a bad header drops one
    byte, no start byte drops the buffer, and `_read_frame` accumulates / decodes / keeps the remainder -/
theorem recv_loop_shape :
    Gen.Comm.hdrReturnsOnEmptyRead = true ∧ Gen.Comm.hdrKeepsShortCandidate = true ∧
    Gen.Comm.hdrDropsOneOnBadHeader = true ∧ Gen.Comm.hdrDropsAllWithoutSof = true ∧
    Gen.Comm.readFrameShape = true := by decide

/-! ### round 7: disjoint windows ("exactly once"), byte budget, the carry-over as a streaming state -/

/-- "each delivered exactly once, nothing that is not a valid frame": for EVERY byte string the delivered
    frames are the decodings of pairwise DISJOINT windows of the stream, in stream order —
    `d = gap₁ ++ w₁ ++ … ++ gapₙ ++ wₙ ++ tail`, `frameDecode wᵢ = .ok (the i-th delivered frame)`
    (`Reasm.Windows`, Lemmas/R7Reasm.lean).  Strengthens `only_valid` (one window per frame, possibly
    overlapping): no byte of the stream is part of two delivered frames, so no frame is delivered twice. -/
theorem delivered_disjoint_windows (c : Codec) (hc : LawfulCodec c) (d : Bytes) :
    Reasm.Windows c d (Reasm.scan c d) :=
  Reasm.scan_windows hc d

/-- the same for the receive machine under any chunking, empty reads included -/
theorem delivered_disjoint_windows_run (c : Codec) (hc : LawfulCodec c) (chunks : List Bytes) :
    Reasm.Windows c chunks.flatten (Reasm.run c chunks) := by
  rw [run_eq_scan c hc]; exact Reasm.scan_windows hc _

/-- byte budget: the payloads of all delivered frames plus the framing overhead (header + footer) of each
    fit in the bytes received — the receiver cannot deliver more than it was sent -/
theorem delivered_byte_budget (c : Codec) (hc : LawfulCodec c) (chunks : List Bytes) :
    ((Reasm.run c chunks).map (fun fr => fr.data.length + c.hdrLen + c.footLen)).sum ≤ chunks.flatten.length :=
  (delivered_disjoint_windows_run c hc chunks).budget hc

/-- hence at most `received bytes / (header + footer)` frames are delivered -/
theorem delivered_count_bound (c : Codec) (hc : LawfulCodec c) (chunks : List Bytes) :
    (Reasm.run c chunks).length * (c.hdrLen + c.footLen) ≤ chunks.flatten.length :=
  (delivered_disjoint_windows_run c hc chunks).count_le hc

/-- serial codec: 6 bytes of framing per delivered frame -/
theorem serial_byte_budget (chunks : List Bytes) :
    ((Reasm.run Serial.codec chunks).map (fun fr => fr.data.length + 6)).sum ≤ chunks.flatten.length := by
  have := delivered_byte_budget _ Serial.codec_lawful chunks
  have e : (fun fr : Frame => fr.data.length + Serial.codec.hdrLen + Serial.codec.footLen) =
      (fun fr : Frame => fr.data.length + 6) := by
    funext fr
    show fr.data.length + 4 + 2 = fr.data.length + 6
    rfl
  rw [e] at this
  exact this

/-- the carry-over is a streaming state: what is held back after `d ++ e` is computed from what was held back
    after `d` and the new bytes `e` alone (with `scan_resume`: the pair (held back, delivered) is a fold) -/
theorem rest_resume (c : Codec) (hc : LawfulCodec c) (d e : Bytes) :
    Reasm.scanRest c (d ++ e) = Reasm.scanRest c (Reasm.scanRest c d ++ e) :=
  Reasm.scanRest_resume hc d e

/-- what is held back is stable: scanning it again delivers nothing and holds back the same bytes -/
theorem rest_stable (c : Codec) (hc : LawfulCodec c) (d : Bytes) :
    Reasm.scan c (Reasm.scanRest c d) = [] ∧ Reasm.scanRest c (Reasm.scanRest c d) = Reasm.scanRest c d :=
  ⟨Reasm.scan_scanRest hc d, Reasm.scanRest_idem hc d⟩

/-- compositionality over reads: the receive machine delivers, for every script of reads, what the incremental
    receiver `Reasm.scanFold` delivers — per read: scan (held back ++ read), append the frames, hold back
    `scanRest` — and that receiver ends holding back `scanRest` of the concatenation -/
theorem incremental_receiver (c : Codec) (hc : LawfulCodec c) (chunks : List Bytes) :
    Reasm.run c chunks = (Reasm.scanFold c chunks).2 ∧
      (Reasm.scanFold c chunks).1 = Reasm.scanRest c chunks.flatten := by
  rw [Reasm.scanFold_eq hc, run_eq_scan c hc]
  exact ⟨rfl, rfl⟩

/-- non-vacuity: noise, a frame, a cut-off header; then the rest of that second frame in a later read -/
example : Reasm.scanFold Serial.codec [[0x00, 0x13] ++ exFrame ++ [0x55, 0x07], [0x00, 0x05, 0x01, 0x88], [], [0x9c, 0xaa]] =
    ([], [⟨5, [0x01]⟩, ⟨5, [0x01]⟩]) := by decide +kernel
example : Reasm.scanFold Serial.codec [[0x00, 0x13] ++ exFrame ++ [0x55, 0x07], [0x00, 0x05]] =
    ([0x55, 0x07, 0x00, 0x05], [⟨5, [0x01]⟩]) := by decide +kernel
/-- two delivered frames = two disjoint windows with a gap in front of each (budget: 2·(1 + 6) ≤ 17) -/
example : Reasm.Windows Serial.codec ([0x00, 0x55] ++ exFrame ++ [0xaa] ++ exFrame) [⟨5, [0x01]⟩, ⟨5, [0x01]⟩] :=
  Reasm.Windows.cons [0x00, 0x55] exFrame _ _ _ (by decide +kernel)
    (Reasm.Windows.cons [0xaa] exFrame [] _ _ (by decide +kernel) (Reasm.Windows.nil []))

/-- cross-layer (C01 ∘ C03): ANY sequence of frames emitted by `frame_create` (ids 0..8, payloads that fit),
    each preceded by arbitrary line noise without a start byte and followed by such noise at the end, cut into
    reads in ANY way (empty reads included), is delivered by the receive machine as exactly the (id, payload)
    pairs that were framed — each once, in order, nothing else -/
theorem created_stream_delivered (items : List (Bytes × Nat × Bytes)) (tail : Bytes) (chunks : List Bytes)
    (hit : ∀ x ∈ items, (∀ b ∈ x.1, b ≠ 0x55) ∧ x.2.1 ≤ 8 ∧ x.2.2.length ≤ 65529)
    (ht : ∀ b ∈ tail, b ≠ 0x55)
    (hch : chunks.flatten = (items.map (fun x => x.1 ++ Spec.wire x.2.1 x.2.2)).flatten ++ tail) :
    Reasm.run Serial.codec chunks = items.map (fun x => (⟨x.2.1, x.2.2⟩ : Frame)) := by
  rw [serial_run_eq_scan, hch]
  clear hch
  induction items with
  | nil => exact Reasm.scan_nosof Serial.codec_lawful tail ht
  | cons x xs ih =>
    obtain ⟨h1, h2, h3⟩ := hit x (by simp)
    have ih' := ih (fun y hy => hit y (by simp [hy]))
    simp only [List.map_cons, List.flatten_cons, List.append_assoc]
    rw [← List.append_assoc x.1]
    rw [created_delivered _ Serial.codec_lawful x.2.1 x.2.2 _ x.1 _
      (Serial.frameCreate_eq x.2.1 x.2.2 h3 (by omega)) h2 h1, ih']

example : Reasm.run Serial.codec [[0x00, 0x55, 0x07], [], [0x00, 0x05, 0x01, 0x88, 0x9c, 0xaa, 0x55, 0x06, 0x00], [0x02, 0x5b, 0x9c, 0x01]] =
    [⟨5, [0x01]⟩, ⟨2, []⟩] := by decide +kernel

/-- bound on the carry-over buffer of the receive MACHINE (not of the specification): whenever the link is quiet
    and an invocation of the receive-thread body delivers nothing and leaves `_prev_read` unchanged — the state
    in which `Reasm.runLoop` stops, with the fuel it uses — `_prev_read` is shorter than a header or is a
    decodable header still waiting for its declared length -/
theorem machine_at_rest (c : Codec) (hc : LawfulCodec c) (buf : Bytes)
    (hq : Reasm.readFrame c (Reasm.fuelFor buf []) buf [] = (none, buf, [])) :
    buf.length < c.hdrLen ∨ ∃ h, c.hdrDecode buf = .ok h ∧ buf.length < h.flen :=
  Reasm.quiescent_buffer hc (buf.length + Reasm.scriptSize [] + 1) buf hq

/-- serial codec: at rest the client holds back fewer than 65535 bytes -/
theorem serial_machine_at_rest (buf : Bytes)
    (hq : Reasm.readFrame Serial.codec (Reasm.fuelFor buf []) buf [] = (none, buf, [])) :
    buf.length < 65535 := by
  rcases machine_at_rest _ Serial.codec_lawful buf hq with h | ⟨h, hd, hl⟩
  · have : Serial.codec.hdrLen = 4 := rfl
    omega
  · have := serial_hdr_flen_le _ h hd
    omega

/-- non-vacuity: a cut-off frame (10 bytes declared, 5 there) is a state of rest; a complete frame is not -/
example : Reasm.readFrame Serial.codec (Reasm.fuelFor [0x55, 0x0a, 0x00, 0x04, 0x00] []) [0x55, 0x0a, 0x00, 0x04, 0x00] [] =
    (none, [0x55, 0x0a, 0x00, 0x04, 0x00], []) := by decide +kernel
example : Reasm.readFrame Serial.codec (Reasm.fuelFor exFrame []) exFrame [] = (some ⟨5, [0x01]⟩, [], []) := by
  decide +kernel

/-- full accounting of the received bytes: the stream is `gap₁ ++ w₁ ++ … ++ gapₙ ++ wₙ ++ junk ++ scanRest d` with
    `wᵢ` decoding to the i-th delivered frame (`Reasm.WindowsR`) — every byte is in exactly ONE delivered frame, or was
    dropped, or is still held back; hence payloads + framing of everything delivered + the bytes held back never
    exceed the bytes received, under any chunking -/
theorem received_bytes_accounted (c : Codec) (hc : LawfulCodec c) (chunks : List Bytes) :
    Reasm.WindowsR c chunks.flatten (Reasm.run c chunks) (Reasm.scanRest c chunks.flatten) ∧
    ((Reasm.run c chunks).map (fun fr => fr.data.length + c.hdrLen + c.footLen)).sum +
      (Reasm.scanRest c chunks.flatten).length ≤ chunks.flatten.length := by
  rw [run_eq_scan c hc]
  exact ⟨Reasm.scan_windowsR hc _, (Reasm.scan_windowsR hc _).budget hc⟩

/-- non-vacuity: 2 dropped bytes, a delivered frame (7), 1 dropped byte, 4 held back: 14 bytes -/
example : Reasm.scan Serial.codec ([0x00, 0x13] ++ exFrame ++ [0xaa] ++ [0x55, 0x07, 0x00, 0x05]) = [⟨5, [0x01]⟩] ∧
    Reasm.scanRest Serial.codec ([0x00, 0x13] ++ exFrame ++ [0xaa] ++ [0x55, 0x07, 0x00, 0x05]) = [0x55, 0x07, 0x00, 0x05] := by
  decide +kernel

end Nxs.C03
