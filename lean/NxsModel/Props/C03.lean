/-
  C03 — frame reassembly is a function of the bytes received, not of how reads split them.
  Property theorems only (helper lemmas in Lemmas/Reasm.lean, Lemmas/ReasmRun.lean,
  Lemmas/SerialLawful.lean).

  `Reasm.run c chunks` is the model of the client receive path (`CommHandler._read_hdr`,
  `_read_frame`, `_recv_thread`) fed with the scripted reads `chunks` (an element `[]` is an empty
  read; an exhausted script answers empty reads); `Reasm.scan c d` is the specification: one
  left-to-right pass over the byte string `d` that skips to the next start byte, emits a complete
  decodable frame and continues after it, waits (stops) when the header or the declared length is
  not complete yet, and otherwise advances one byte.  Everything is proved for every codec that
  honours the frame interface (`LawfulCodec`), and instantiated for the serial codec.
-/
import NxsModel.Gen.Comm
import NxsModel.Lemmas.ReasmRun
import NxsModel.Lemmas.SerialLawful
namespace Nxs.C03
open Nxs
open Nxs.Serial (Hdr Frame)

/-- main refinement theorem: the frames the client extracts are the left-to-right scan of the
    concatenation of the reads — for every split into reads, empty reads anywhere included -/
theorem run_eq_scan (c : Codec) (hc : LawfulCodec c) (chunks : List Bytes) :
    Reasm.run c chunks = Reasm.scan c chunks.flatten :=
  Reasm.run_eq_scan hc chunks

/-- two chunkings of the same byte sequence deliver the same frames -/
theorem chunking_independent (c : Codec) (hc : LawfulCodec c) (cs₁ cs₂ : List Bytes)
    (h : cs₁.flatten = cs₂.flatten) : Reasm.run c cs₁ = Reasm.run c cs₂ := by
  rw [run_eq_scan c hc, run_eq_scan c hc, h]

/-- back-to-back valid frames (each decodes, and its header declares exactly its length), followed
    by anything, are emitted once each and in order, and the scan continues after the last one -/
theorem back_to_back_then (c : Codec) (hc : LawfulCodec c) (fs : List (Bytes × Frame)) (rest : Bytes)
    (hfs : ∀ p ∈ fs, c.frameDecode p.1 = .ok p.2 ∧ ∃ h, c.hdrDecode p.1 = .ok h ∧ h.flen = p.1.length) :
    Reasm.scan c ((fs.map (·.1)).flatten ++ rest) = fs.map (·.2) ++ Reasm.scan c rest := by
  induction fs with
  | nil => rfl
  | cons p fs ih =>
    obtain ⟨hf, h, hh, hl⟩ := hfs p (by simp)
    have ih' := ih (fun q hq => hfs q (by simp [hq]))
    simp only [List.map_cons, List.flatten_cons, List.append_assoc, List.cons_append]
    rw [Reasm.scan_valid_frame hc p.1 _ p.2 h hf hh hl, ih']

/-- back-to-back valid frames are delivered exactly once each and in order -/
theorem back_to_back (c : Codec) (hc : LawfulCodec c) (fs : List (Bytes × Frame))
    (hfs : ∀ p ∈ fs, c.frameDecode p.1 = .ok p.2 ∧ ∃ h, c.hdrDecode p.1 = .ok h ∧ h.flen = p.1.length) :
    Reasm.scan c (fs.map (·.1)).flatten = fs.map (·.2) := by
  have := back_to_back_then c hc fs [] hfs
  rw [List.append_nil] at this
  rw [this, Reasm.scan_nosof hc [] (by simp), List.append_nil]

/-- … under every chunking of their concatenation -/
theorem back_to_back_run (c : Codec) (hc : LawfulCodec c) (fs : List (Bytes × Frame)) (chunks : List Bytes)
    (hfs : ∀ p ∈ fs, c.frameDecode p.1 = .ok p.2 ∧ ∃ h, c.hdrDecode p.1 = .ok h ∧ h.flen = p.1.length)
    (hch : chunks.flatten = (fs.map (·.1)).flatten) :
    Reasm.run c chunks = fs.map (·.2) := by
  rw [run_eq_scan c hc, hch, back_to_back c hc fs hfs]

/-- nothing that is not a valid frame is delivered: every delivered frame is the decoding of a
    window of the stream (for the serial codec, by C02 `accept_iff`, the window meets the acceptance
    predicate: 0x55, known id, consistent length, CRC over exactly the declared length) -/
theorem only_valid (c : Codec) (hc : LawfulCodec c) (d : Bytes) (fr : Frame) (h : fr ∈ Reasm.scan c d) :
    ∃ pre post w, d = pre ++ w ++ post ∧ c.frameDecode w = .ok fr :=
  Reasm.mem_scan hc (d.length + 1) d (by omega) h

/-- the same for the receive machine under any chunking -/
theorem only_valid_run (c : Codec) (hc : LawfulCodec c) (chunks : List Bytes) (fr : Frame)
    (h : fr ∈ Reasm.run c chunks) :
    ∃ pre post w, chunks.flatten = pre ++ w ++ post ∧ c.frameDecode w = .ok fr := by
  rw [run_eq_scan c hc] at h
  exact only_valid c hc _ fr h

/-- resynchronisation 1: a valid frame behind line noise that contains no start byte is delivered,
    and scanning continues right after it -/
theorem resync (c : Codec) (hc : LawfulCodec c) (noise f rest : Bytes) (fr : Frame)
    (hf : c.frameDecode f = .ok fr) (hh : ∃ h, c.hdrDecode f = .ok h ∧ h.flen = f.length)
    (hn : ∀ b ∈ noise, b ≠ c.sof) :
    Reasm.scan c (noise ++ f ++ rest) = fr :: Reasm.scan c rest := by
  obtain ⟨h, hh, hl⟩ := hh
  rw [List.append_assoc, Reasm.scan_skip hc noise _ hn, Reasm.scan_valid_frame hc f rest fr h hf hh hl]

/-- resynchronisation, general form: if every position `k` inside the junk in front of the frame is
    *examined and rejected* — i.e. whenever the bytes from `k` on start with a decodable header, the
    declared length `flen` is covered by the bytes that follow (`flen ≤` what is left of the whole
    stream, so the receiver does not wait) and that window of `flen` bytes does not decode — then the
    valid frame behind the junk is delivered and scanning continues right after it.
    Covers: arbitrary noise incl. start bytes, frames with a bad CRC, frames cut short (their header
    declares more bytes than were sent; the window then reaches into the following bytes and fails
    the footer check), several of those in a row.  The two side conditions are necessary for an
    online receiver: with fewer than `flen` bytes after a decodable header it must wait
    (`cutoff_waits`), and a window that happens to decode is, by definition, a frame. -/
theorem resync_rejected (c : Codec) (hc : LawfulCodec c) (junk f rest : Bytes) (fr : Frame)
    (hf : c.frameDecode f = .ok fr) (hh : ∃ h, c.hdrDecode f = .ok h ∧ h.flen = f.length)
    (hn : ∀ k, k < junk.length → ∀ h, c.hdrDecode ((junk ++ f ++ rest).drop k) = .ok h →
      h.flen ≤ (junk ++ f ++ rest).length - k ∧
        ∀ fr', c.frameDecode (((junk ++ f ++ rest).drop k).take h.flen) ≠ .ok fr') :
    Reasm.scan c (junk ++ f ++ rest) = fr :: Reasm.scan c rest := by
  obtain ⟨h, hh, hl⟩ := hh
  have hlen := Reasm.hdrDecode_ok_length hc hh
  rw [List.append_assoc] at hn ⊢
  rw [Reasm.scan_reject_prefix hc junk (f ++ rest) (by simp; omega) hn,
    Reasm.scan_valid_frame hc f rest fr h hf hh hl]

/-- resynchronisation 2: arbitrary noise (start bytes included) in which no position starts a
    decodable header does not hide the valid frame behind it.  (`(noise ++ f).drop k` is the
    stream from position `k` on; the header decoder looks at its first `hdrLen` bytes only.) -/
theorem resync_no_header (c : Codec) (hc : LawfulCodec c) (noise f rest : Bytes) (fr : Frame)
    (hf : c.frameDecode f = .ok fr) (hh : ∃ h, c.hdrDecode f = .ok h ∧ h.flen = f.length)
    (hn : ∀ k, k < noise.length → ∀ h, c.hdrDecode ((noise ++ f).drop k) ≠ .ok h) :
    Reasm.scan c (noise ++ f ++ rest) = fr :: Reasm.scan c rest := by
  apply resync_rejected c hc noise f rest fr hf hh
  intro k hk h hd
  exfalso
  obtain ⟨h0, hh0, _⟩ := hh
  have hlen := Reasm.hdrDecode_ok_length hc hh0
  apply hn k hk h
  have e : (noise ++ f ++ rest).drop k = (noise ++ f).drop k ++ rest :=
    List.drop_append_of_le_length (by simp; omega)
  rw [e, Reasm.hdrDecode_append hc _ (by simp; omega)] at hd
  exact hd

/-- resynchronisation 3, cut-off frame: `cut` is the beginning of a frame whose transmission was
    cut short (possibly even inside its header), directly followed by a valid frame `f` and `rest`.
    Read in context, the candidate at position 0 has header `h`; if at least `h.flen` bytes have
    arrived in total (the cut-off frame is "followed by enough further bytes") and that window does
    not decode (footer check fails — for the serial codec this is C02's CRC guarantee, it cannot be
    a theorem for every byte string because 16 check bits can coincide), and no later position of
    `cut` starts a decodable header, then `f` is delivered and scanning continues after it.
    (If later positions of `cut` do start decodable headers, `resync_rejected` applies position by
    position.) -/
theorem resync_cutoff (c : Codec) (hc : LawfulCodec c) (cut f rest : Bytes) (fr : Frame) (h₀ : Hdr)
    (hf : c.frameDecode f = .ok fr) (hh : ∃ h, c.hdrDecode f = .ok h ∧ h.flen = f.length)
    (hcut : c.hdrDecode (cut ++ f ++ rest) = .ok h₀)
    (henough : h₀.flen ≤ (cut ++ f ++ rest).length)
    (hbad : ∀ fr', c.frameDecode ((cut ++ f ++ rest).take h₀.flen) ≠ .ok fr')
    (hlater : ∀ k, 1 ≤ k → k < cut.length → ∀ h, c.hdrDecode ((cut ++ f).drop k) ≠ .ok h) :
    Reasm.scan c (cut ++ f ++ rest) = fr :: Reasm.scan c rest := by
  apply resync_rejected c hc cut f rest fr hf hh
  intro k hk h hd
  cases k with
  | zero =>
    rw [List.drop_zero] at hd ⊢
    rw [hcut] at hd
    cases hd
    exact ⟨by omega, hbad⟩
  | succ k =>
    exfalso
    obtain ⟨h0, hh0, _⟩ := hh
    have hlen := Reasm.hdrDecode_ok_length hc hh0
    apply hlater (k + 1) (by omega) hk h
    have e : (cut ++ f ++ rest).drop (k + 1) = (cut ++ f).drop (k + 1) ++ rest :=
      List.drop_append_of_le_length (by simp; omega)
    rw [e, Reasm.hdrDecode_append hc _ (by simp; omega)] at hd
    exact hd

/-- the unavoidable other half of the cut-off case: after a decodable header, until `flen` bytes
    have arrived nothing is delivered (the receiver cannot know the frame was cut) -/
theorem cutoff_waits (c : Codec) (hc : LawfulCodec c) (d : Bytes) (h : Hdr)
    (hd : c.hdrDecode d = .ok h) (hl : d.length < h.flen) : Reasm.scan c d = [] :=
  Reasm.scan_wait hc d h hd hl

/-- frames built by `frame_create` (ids the decoder knows) are valid frames in the above sense, so
    all the corollaries apply to them: e.g. behind start-byte-free noise -/
theorem created_delivered (c : Codec) (hc : LawfulCodec c) (fid : Nat) (p f noise rest : Bytes)
    (hcr : c.frameCreate fid (some p) = .ok f) (hid : fid ≤ 8) (hn : ∀ b ∈ noise, b ≠ c.sof) :
    Reasm.scan c (noise ++ f ++ rest) = ⟨fid, p⟩ :: Reasm.scan c rest := by
  obtain ⟨h1, h2⟩ := hc.frameCreate_decode fid p f hcr hid
  exact resync c hc noise f rest _ h1 h2 hn

/-! ### the serial codec -/

theorem serial_run_eq_scan (chunks : List Bytes) :
    Reasm.run Serial.codec chunks = Reasm.scan Serial.codec chunks.flatten :=
  run_eq_scan _ Serial.codec_lawful chunks

theorem serial_chunking_independent (cs₁ cs₂ : List Bytes) (h : cs₁.flatten = cs₂.flatten) :
    Reasm.run Serial.codec cs₁ = Reasm.run Serial.codec cs₂ :=
  chunking_independent _ Serial.codec_lawful cs₁ cs₂ h

theorem serial_back_to_back (fs : List (Bytes × Frame)) (chunks : List Bytes)
    (hfs : ∀ p ∈ fs, Serial.frameDecode p.1 = .ok p.2 ∧ ∃ h, Serial.hdrDecode p.1 = .ok h ∧ h.flen = p.1.length)
    (hch : chunks.flatten = (fs.map (·.1)).flatten) :
    Reasm.run Serial.codec chunks = fs.map (·.2) :=
  back_to_back_run _ Serial.codec_lawful fs chunks hfs hch

/-- every frame delivered, under any chunking, is a window of the stream that meets C02's
    acceptance predicate -/
theorem serial_only_valid (chunks : List Bytes) (fr : Frame) (h : fr ∈ Reasm.run Serial.codec chunks) :
    ∃ pre post w, chunks.flatten = pre ++ w ++ post ∧ Spec.Accept w fr.fid fr.data := by
  obtain ⟨pre, post, w, h1, h2⟩ := only_valid_run _ Serial.codec_lawful chunks fr h
  exact ⟨pre, post, w, h1, (Serial.frameDecode_accept w fr.fid fr.data).mp h2⟩

/-- wire frames (C01: `frame_create fid p = wire fid p`) behind noise without 0x55, under any chunking -/
theorem serial_resync (noise rest : Bytes) (fid : Nat) (p : Bytes) (chunks : List Bytes)
    (hp : p.length ≤ 65529) (hid : fid ≤ 8) (hn : ∀ b ∈ noise, b ≠ 0x55)
    (hch : chunks.flatten = noise ++ Spec.wire fid p ++ rest) :
    Reasm.run Serial.codec chunks = ⟨fid, p⟩ :: Reasm.scan Serial.codec rest := by
  rw [serial_run_eq_scan, hch]
  exact created_delivered _ Serial.codec_lawful fid p _ noise rest
    (Serial.frameCreate_eq fid p hp (by omega)) hid hn

theorem serial_resync_rejected (junk f rest : Bytes) (fr : Frame)
    (hf : Serial.frameDecode f = .ok fr) (hh : ∃ h, Serial.hdrDecode f = .ok h ∧ h.flen = f.length)
    (hn : ∀ k, k < junk.length → ∀ h, Serial.hdrDecode ((junk ++ f ++ rest).drop k) = .ok h →
      h.flen ≤ (junk ++ f ++ rest).length - k ∧
        ∀ fr', Serial.frameDecode (((junk ++ f ++ rest).drop k).take h.flen) ≠ .ok fr') :
    Reasm.scan Serial.codec (junk ++ f ++ rest) = fr :: Reasm.scan Serial.codec rest :=
  resync_rejected _ Serial.codec_lawful junk f rest fr hf hh hn

/-! ### non-vacuity -/

/-- noise + two frames, the start byte of the first frame arriving as the last of a 4-byte read
    (the input of the historical defect F2): both frames are delivered, by the machine and by the scan -/
example : Reasm.run Serial.codec
    [[0x00, 0x00, 0x00, 0x55],
     [0x07, 0x00, 0x05, 0x01, 0x88, 0x9c, 0x55, 0x0a, 0x00, 0x04, 0xfe, 0xff, 0xff, 0xff, 0x16, 0xe9]]
    = [⟨5, [0x01]⟩, ⟨4, [0xfe, 0xff, 0xff, 0xff]⟩] := by decide +kernel

example : Reasm.scan Serial.codec
    [0x00, 0x00, 0x00, 0x55, 0x07, 0x00, 0x05, 0x01, 0x88, 0x9c,
     0x55, 0x0a, 0x00, 0x04, 0xfe, 0xff, 0xff, 0xff, 0x16, 0xe9]
    = [⟨5, [0x01]⟩, ⟨4, [0xfe, 0xff, 0xff, 0xff]⟩] := by decide +kernel

/-- byte-wise delivery with empty reads in between, a cut-off frame (header declares 7 bytes, 3 sent)
    in front: the frame behind it is still delivered -/
example : Reasm.run Serial.codec
    [[0x55], [], [0x07], [0x00], [], [], [0x55, 0x07, 0x00], [0x05, 0x01], [], [0x88], [0x9c], []]
    = [⟨5, [0x01]⟩] := by decide +kernel

/-- a frame with a bad CRC is not delivered; the good one behind it is -/
example : Reasm.run Serial.codec
    [[0x55, 0x07, 0x00, 0x05, 0x01, 0x88], [0x9d, 0x55, 0x07, 0x00, 0x05, 0x01, 0x88, 0x9c]]
    = [⟨5, [0x01]⟩] := by decide +kernel

/-- the hypotheses of `back_to_back`/`resync` are satisfiable -/
example : Serial.frameDecode [0x55, 0x07, 0x00, 0x05, 0x01, 0x88, 0x9c] = .ok ⟨5, [0x01]⟩ ∧
    ∃ h, Serial.hdrDecode [0x55, 0x07, 0x00, 0x05, 0x01, 0x88, 0x9c] = .ok h ∧
      h.flen = [0x55, 0x07, 0x00, 0x05, 0x01, 0x88, (0x9c : Byte)].length :=
  ⟨by decide +kernel, ⟨5, 7⟩, by decide +kernel, rfl⟩

/-- the statements of `_read_hdr` / `_read_frame` that `Reasm.lean` transcribes are present in the
    current source (facts regenerated by the translator on every run): an empty read stores the buffer
    and returns, a start byte with fewer than `hdr_len` bytes behind it is kept, a bad header drops one
    byte, no start byte drops the buffer, and `_read_frame` accumulates / decodes / keeps the remainder -/
theorem recv_loop_shape :
    Gen.Comm.hdrReturnsOnEmptyRead = true ∧ Gen.Comm.hdrKeepsShortCandidate = true ∧
    Gen.Comm.hdrDropsOneOnBadHeader = true ∧ Gen.Comm.hdrDropsAllWithoutSof = true ∧
    Gen.Comm.readFrameShape = true := by decide

end Nxs.C03
