/-
  C16 — simulated devices are independent of each other and restart cleanly.
  Property theorems only (helper lemmas in Lemmas/DummyHeap.lean).  Model: `Dummy.lean` — a heap of channel
  objects, instances hold addresses; `Built` = the worlds that can exist (module state, `DummyDev()` /
  `DummyDev(channels=<separately built list>)`, any op of any instance).
-/
import NxsModel.Lemmas.DummyHeap
import NxsModel.Spec.Wire
namespace Nxs.C16
open Nxs Nxs.Dummy

/-- **separation.**  With the per-instance copy of the default channel list (`Gen.Dummy.defaultCopied`, read from
    the constructor by the translator), instances built from the defaults or from separately built lists are well
    formed and pairwise share no channel object; this is an invariant of every op of every instance (`Built.step`). -/
theorem separation (hc : Gen.Dummy.defaultCopied = true) {w : World} (hb : Built w) : w.Sep := hb.sep hc

/-- separation, spelled out: no address of instance `j` is an address of instance `k` -/
theorem separation_disjoint (hc : Gen.Dummy.defaultCopied = true) {w : World} (hb : Built w) (j k : Nat) (ij ik : Inst)
    (hjk : j ≠ k) (hj : w.insts[j]? = some ij) (hk : w.insts[k]? = some ik) : ∀ a ∈ ij.addrs, a ∉ ik.addrs :=
  (hb.sep hc).disj j k ij ik hjk hj hk

/-- the copy is what the constructor does now -/
example : Gen.Dummy.defaultCopied = true := rfl

/-- stated for the aliasing constructor the separation is false: two default instances are the same objects -/
theorem aliasing_shares (hc : Gen.Dummy.defaultCopied = false) (w : World) (f1 r1 s1 p1 f2 r2 s2 p2 : Nat) :
    let w2 := (w.newDefault f1 r1 s1 p1).newDefault f2 r2 s2 p2
    ∃ a b, w2.insts[w.insts.length]? = some a ∧ w2.insts[w.insts.length + 1]? = some b ∧ a.addrs = b.addrs :=
  aliasing hc w f1 r1 s1 p1 f2 r2 s2 p2

/-- **frame rule**, one op: an op on instance `k` leaves instance `j` (stream flag, queues, thread state) and
    every channel object of `j` (enable, divider, generator state, call counter) exactly as they were -/
theorem frame_rule (w : World) (hs : w.Sep) (j k : Nat) (hjk : j ≠ k) (op : Op) (ij : Inst) (hj : w.insts[j]? = some ij) :
    (w.step k op).1.insts[j]? = some ij ∧ gather (w.step k op).1.heap ij.addrs = gather w.heap ij.addrs :=
  w.step_frame j k op ij hjk hj (fun ik hk => hs.disj k j ik ij (Ne.symm hjk) hk hj)

/-- frame rule over histories: any history on `k` -/
theorem frame_rule_history (w : World) (hs : w.Sep) (j k : Nat) (hjk : j ≠ k) (ops : List Op) (ij : Inst)
    (hj : w.insts[j]? = some ij) :
    (w.runOn k ops).1.insts[j]? = some ij ∧ gather (w.runOn k ops).1.heap ij.addrs = gather w.heap ij.addrs :=
  (w.runOn_frame j k ops ij hjk hs hj).2

/-- **every observation of B is unchanged**: whatever history `opsA` instance `k` went through, every later history
    `opsB` on instance `j` (requests, stream steps, reads, start / stop) observes exactly what it observes without
    `opsA` — responses, stream frames, sample sequences, thread deaths -/
theorem frame_rule_observations (w : World) (hs : w.Sep) (j k : Nat) (hjk : j ≠ k) (opsA opsB : List Op) (ij : Inst)
    (hj : w.insts[j]? = some ij) :
    ((w.runOn k opsA).1.runOn j opsB).2 = (w.runOn j opsB).2 := by
  obtain ⟨hs', hj', hg⟩ := w.runOn_frame j k opsA ij hjk hs hj
  rw [World.runOn_local _ j opsB ij hj' (hs'.ok j ij hj'), World.runOn_local w j opsB ij hj (hs.ok j ij hj), hg]

/-- separation + frame rule for the worlds that exist -/
theorem independent (hc : Gen.Dummy.defaultCopied = true) {w : World} (hb : Built w) (j k : Nat) (hjk : j ≠ k)
    (opsA opsB : List Op) (ij : Inst) (hj : w.insts[j]? = some ij) :
    ((w.runOn k opsA).1.runOn j opsB).2 = (w.runOn j opsB).2 :=
  frame_rule_observations w (hb.sep hc) j k hjk opsA opsB ij hj

theorem run_append (cs : List Chan) (i : Inst) (a b : List Op) :
    (run cs i (a ++ b)).1 = (run (run cs i a).1 (run cs i a).2.1 b).1 ∧
    (run cs i (a ++ b)).2.1 = (run (run cs i a).1 (run cs i a).2.1 b).2.1 := by
  induction a generalizing cs i with
  | nil => exact ⟨rfl, rfl⟩
  | cons op a ih => exact ih (step cs i op).1 (step cs i op).2.1

/-- **restart resets**: after any history, `stop(); start()` leaves the function of every channel of the instance
    in its reset state: counters 0, ChannelFunc2's direction +1 … -/
theorem restart_resets (cs : List Chan) (i : Inst) (ops : List Op) :
    ∀ c ∈ (run cs i (ops ++ [.stop, .start])).1, c.GenFresh := by
  rw [(run_append cs i ops [.stop, .start]).1]
  generalize (run cs i ops).1 = cs1
  generalize (run cs i ops).2.1 = i1
  exact start_fresh rfl (stop cs1 i1).1 (stop cs1 i1).2.1

/-- … so every deterministic channel begins its sequence again: its next `n` outputs are those of a newly
    created function -/
theorem restart_sequence (cs : List Chan) (i : Inst) (ops : List Op) (n : Nat) :
    ∀ c ∈ (run cs i (ops ++ [.stop, .start])).1,
      c.outputs n = ({ c with cntr := 0, sign := 1, calls := 0 } : Chan).outputs n :=
  fun c hc => GenFresh.outputs (restart_resets cs i ops c hc) n

/-- what the reset state is, per function -/
theorem reset_state (c : Chan) :
    c.GenFresh ↔ ((c.gen = some 1 ∨ c.gen = some 6 ∨ c.gen = some 7 ∨ c.gen = some 9 ∨ c.gen = some 10 → c.cntr = 0) ∧
      (c.gen = some 2 → c.cntr = 0 ∧ c.sign = 1)) := GenFresh_iff c

/-! ### non-vacuity -/

/-- two default devices: copies at addresses 11‥21 and 22‥32, none of the module-level objects 0‥10 -/
example : ((World.init.newDefault 3 16 100 16).newDefault 3 16 100 16).insts.map Inst.addrs =
    [[11, 12, 13, 14, 15, 16, 17, 18, 19, 20, 21], [22, 23, 24, 25, 26, 27, 28, 29, 30, 31, 32]] := by decide +kernel

example : Built ((World.init.newDefault 3 16 100 16).newDefault 3 16 100 16) := (Built.init.newDefault ..).newDefault ..

/-- enabling channel 1 of device 0 (request `55 09 00 06 00 01 01 crc`) does not enable channel 1 of device 1 -/
example :
    let w := (World.init.newDefault 3 16 100 0).newDefault 3 16 100 0
    let w' := (w.runOn 0 [.start, .write (Spec.wire 6 [0, 1, 1]), .recvStep]).1
    (w'.insts.map fun i => ensOf (gather w'.heap i.addrs)) =
      [[false, true, false, false, false, false, false, false, false, false, false],
       [false, false, false, false, false, false, false, false, false, false, false]] := by decide +kernel

/-- ChannelFunc2 after 3 samples, then stop / start: counter and direction are back -/
example :
    let c : Chan := ⟨true, 10, 1, 0, 0, [], some 2, 0, 1, 0⟩
    let i : Inst := { newInst [0] 3 0 3 0 with flag := true }
    ((run [c] i [.start, .streamStep]).1.map fun c => (c.cntr, c.sign)) = [(3, 1)] ∧
    ((run [c] i [.start, .streamStep, .stop, .start]).1.map fun c => (c.cntr, c.sign)) = [(0, 1)] := by decide +kernel

end Nxs.C16
