/-
  C16 — simulated devices are independent of each other and restart cleanly.
  Property theorems only (helper lemmas in Lemmas/DummyHeap.lean).  Model: `Dummy.lean` — a heap of channel
  objects, instances hold addresses; `Built` = the worlds that can exist (module state, `DummyDev()` /
  `DummyDev(channels=<separately built list>)`, any op of any instance — in ANY order: constructions may follow ops).
  A default device created AFTER other instances were driven: `World.newDefault` copies the module-level default objects
  as they are THEN (`w.heap.take nDefault`); `default_objects_pristine` shows that in every `Built` world these are still
  the objects the module was imported with (no instance owns one of them: `default_objects_unowned`), so the late device
  is the pristine default device (`late_default_is_fresh`) and lets a client observe exactly what the first default device
  ever created would (`late_default_observes_like_first`).  The check constructs instances late (op `n` of
  Driver/Dummy.lean) in about a third of its histories.
-/
import NxsModel.Lemmas.DummyHeap
import NxsModel.Lemmas.R7DummyHeap
import NxsModel.Spec.Wire
namespace Nxs.C16
open Nxs Nxs.Dummy

/-- **separation.**  With the per-instance copy of the default channel list (`Gen.Dummy.defaultCopied`, read from
    the constructor by the translator), instances built from the defaults or from separately built lists are well
    formed and pairwise share no channel object; this is an invariant of every op of every instance (`Built.step`). -/
theorem separation (hc : Gen.Dummy.defaultCopied = true) {w : World} (hb : Built w) : w.Sep := hb.sep hc

/-- separation, spelled out: no address of instance `j` is an address of instance `k` -/
theorem separation_disjoint (hc : Gen.Dummy.defaultCopied = true) {w : World} (hb : Built w) (j k : Nat) (ij ik : Inst)
    (hjk : j ≠ k) (hj : w.insts[j]? = some ij) (hk : w.insts[k]? = some ik) : ∀ a ∈ ij.addrs, a ∉ ik.addrs :=
  (hb.sep hc).disj j k ij ik hjk hj hk

/-- the copy is what the constructor does now -/
example : Gen.Dummy.defaultCopied = true := rfl

/-- stated for the aliasing constructor the separation is false: two default instances are the same objects -/
theorem aliasing_shares (hc : Gen.Dummy.defaultCopied = false) (w : World) (f1 r1 s1 p1 f2 r2 s2 p2 : Nat) :
    let w2 := (w.newDefault f1 r1 s1 p1).newDefault f2 r2 s2 p2
    ∃ a b, w2.insts[w.insts.length]? = some a ∧ w2.insts[w.insts.length + 1]? = some b ∧ a.addrs = b.addrs :=
  aliasing hc w f1 r1 s1 p1 f2 r2 s2 p2

/-- **frame rule**, one op: an op on instance `k` leaves instance `j` (stream flag, queues, thread state) and
    every channel object of `j` (enable, divider, generator state, call counter) exactly as they were -/
theorem frame_rule (w : World) (hs : w.Sep) (j k : Nat) (hjk : j ≠ k) (op : Op) (ij : Inst) (hj : w.insts[j]? = some ij) :
    (w.step k op).1.insts[j]? = some ij ∧ gather (w.step k op).1.heap ij.addrs = gather w.heap ij.addrs :=
  w.step_frame j k op ij hjk hj (fun ik hk => hs.disj k j ik ij (Ne.symm hjk) hk hj)

/-- frame rule over histories: any history on `k` -/
theorem frame_rule_history (w : World) (hs : w.Sep) (j k : Nat) (hjk : j ≠ k) (ops : List Op) (ij : Inst)
    (hj : w.insts[j]? = some ij) :
    (w.runOn k ops).1.insts[j]? = some ij ∧ gather (w.runOn k ops).1.heap ij.addrs = gather w.heap ij.addrs :=
  (w.runOn_frame j k ops ij hjk hs hj).2

/-- **every observation of B is unchanged**: whatever history `opsA` instance `k` went through, every later history
    `opsB` on instance `j` (requests, stream steps, reads, start / stop) observes exactly what it observes without
    `opsA` — responses, stream frames, sample sequences, thread deaths -/
theorem frame_rule_observations (w : World) (hs : w.Sep) (j k : Nat) (hjk : j ≠ k) (opsA opsB : List Op) (ij : Inst)
    (hj : w.insts[j]? = some ij) :
    ((w.runOn k opsA).1.runOn j opsB).2 = (w.runOn j opsB).2 := by
  obtain ⟨hs', hj', hg⟩ := w.runOn_frame j k opsA ij hjk hs hj
  rw [World.runOn_local _ j opsB ij hj' (hs'.ok j ij hj'), World.runOn_local w j opsB ij hj (hs.ok j ij hj), hg]

/-- separation + frame rule for the worlds that exist -/
theorem independent (hc : Gen.Dummy.defaultCopied = true) {w : World} (hb : Built w) (j k : Nat) (hjk : j ≠ k)
    (opsA opsB : List Op) (ij : Inst) (hj : w.insts[j]? = some ij) :
    ((w.runOn k opsA).1.runOn j opsB).2 = (w.runOn j opsB).2 :=
  frame_rule_observations w (hb.sep hc) j k hjk opsA opsB ij hj

/-- **independence over interleaved histories**: in ANY interleaving of ops on any number of instances (requests, stream
    steps, reads, start / stop — `h` is a list of (instance, op) pairs), what instance `j` lets a client observe is exactly
    what it lets it observe when only its own ops are run and every other instance is never touched -/
theorem independent_interleaved (hc : Gen.Dummy.defaultCopied = true) {w : World} (hb : Built w) (j : Nat)
    (h : List (Nat × Op)) (ij : Inst) (hj : w.insts[j]? = some ij) :
    w.obsFor j h = (w.runOn j (projOps j h)).2 := by
  have hs := hb.sep hc
  rw [World.obsFor_local w hs j h ij hj, World.runOn_local w j (projOps j h) ij hj (hs.ok j ij hj)]

/-- `obsFor` is what it says: the observations of the interleaved run at the positions that address `j` -/
theorem obsFor_spec (w : World) (j : Nat) (h : List (Nat × Op)) :
    w.obsFor j h = ((h.zip (w.run h).2).filter fun p => p.1.1 = j).map (·.2) := by
  induction h generalizing w with
  | nil => rfl
  | cons p rest ih =>
    obtain ⟨k, op⟩ := p
    by_cases hk : k = j
    · simp only [World.obsFor, hk, if_true, World.run, List.zip_cons_cons, List.filter_cons, decide_true, List.map_cons]
      rw [ih]
    · simp only [World.obsFor, if_neg hk, World.run, List.zip_cons_cons, List.filter_cons, hk, decide_false]
      rw [ih]
      rfl

theorem run_append (cs : List Chan) (i : Inst) (a b : List Op) :
    (run cs i (a ++ b)).1 = (run (run cs i a).1 (run cs i a).2.1 b).1 ∧
    (run cs i (a ++ b)).2.1 = (run (run cs i a).1 (run cs i a).2.1 b).2.1 := by
  induction a generalizing cs i with
  | nil => exact ⟨rfl, rfl⟩
  | cons op a ih => exact ih (step cs i op).1 (step cs i op).2.1

/-- **restart resets**: after any history, `stop(); start()` leaves every channel object of the instance in its
    reset state: the function's counters 0, ChannelFunc2's direction +1, and the call counter that
    `DeviceChannel.data_get` hands to `func.get()` 0 (see `reset_state`) -/
theorem restart_resets (cs : List Chan) (i : Inst) (ops : List Op) :
    ∀ c ∈ (run cs i (ops ++ [.stop, .start])).1, c.GenFresh := by
  rw [(run_append cs i ops [.stop, .start]).1]
  generalize (run cs i ops).1 = cs1
  generalize (run cs i ops).2.1 = i1
  exact start_fresh rfl (stop cs1 i1).1 (stop cs1 i1).2.1

/-- what the reset state is, per function — and for every channel object the call counter is 0 -/
theorem reset_state (c : Chan) :
    c.GenFresh ↔ ((c.gen = some 1 ∨ c.gen = some 6 ∨ c.gen = some 7 ∨ c.gen = some 9 ∨ c.gen = some 10 → c.cntr = 0) ∧
      (c.gen = some 2 → c.cntr = 0 ∧ c.sign = 1) ∧ c.calls = 0) := GenFresh_iff rfl c

/-- **the call counter restarts** (finding F19): after any history, `stop(); start()` leaves the counter passed to
    `IDeviceChannelFunc.get(cntr)` at 0 for every channel of the instance.  `Gen.Dummy.resetZeroesCalls` is read by the
    translator from `DeviceChannel.reset`; before the repair it was `false` and this theorem did not check. -/
theorem restart_calls_zero (cs : List Chan) (i : Inst) (ops : List Op) :
    ∀ c ∈ (run cs i (ops ++ [.stop, .start])).1, c.calls = 0 :=
  fun c hc => ((reset_state c).mp (restart_resets cs i ops c hc)).2.2

/-- … so every deterministic channel begins its sequence again: its next `n` outputs are those of a newly
    created channel object (function state initial, call counter 0).  `outputs` depends on the call counter through
    the functions that read their argument (kinds 11, 12), so this is a statement about the counter as well. -/
theorem restart_sequence (cs : List Chan) (i : Inst) (ops : List Op) (n : Nat) :
    ∀ c ∈ (run cs i (ops ++ [.stop, .start])).1,
      c.outputs n = ({ c with cntr := 0, sign := 1, calls := 0 } : Chan).outputs n :=
  fun c hc => GenFresh.outputs rfl (restart_resets cs i ops c hc) n

/-- a function of the call index (`get(cntr) -> (cntr,) * vdim`, kind 11) begins again at 0 after a restart:
    its next `n` outputs are `0, 1, …, n - 1`, whatever happened before -/
theorem restart_callidx (cs : List Chan) (i : Inst) (ops : List Op) (n : Nat) :
    ∀ c ∈ (run cs i (ops ++ [.stop, .start])).1, c.gen = some 11 →
      c.outputs n = (List.range n).map fun (j : Nat) => some (List.replicate c.vdim (PyVal.int (j : Int)), []) := by
  intro c hc hg
  rw [outputs_callidx c hg n, restart_calls_zero cs i ops c hc]
  simp

/-- the sparse function of the call index (kind 12: `None` unless `cntr % 3 == 0`) begins again as well: after a
    restart call `j` yields the value `j` iff `j % 3 = 0` -/
theorem restart_sparse (cs : List Chan) (i : Inst) (ops : List Op) (n : Nat) :
    ∀ c ∈ (run cs i (ops ++ [.stop, .start])).1, c.gen = some 12 →
      c.outputs n = (List.range n).map fun (j : Nat) =>
        if j % 3 = 0 then some (List.replicate c.vdim (PyVal.int (j : Int)), []) else none := by
  intro c hc hg
  rw [outputs_sparse c hg n, restart_calls_zero cs i ops c hc]
  simp

/-- the syntactic shapes the restart clause rests on, read by the translator: `start()` resets the device before starting
    the threads, `Device.reset` resets every channel, `DeviceChannel.reset` resets the attached function AND zeroes the call
    counter, `data_get` passes that counter to the function and increments it on every call; `stop()` drops one item of each
    queue -/
theorem source_shapes :
    Gen.Dummy.startResets = true ∧ Gen.Dummy.devResetShape = true ∧ Gen.Dummy.resetZeroesCalls = true ∧
    Gen.Dummy.stopDrainsOne = true ∧ Gen.Dummy.ctorShape = true := by decide

/-! ### non-vacuity -/

/-- two default devices: copies at addresses 11‥21 and 22‥32, none of the module-level objects 0‥10 -/
example : ((World.init.newDefault 3 16 100 16).newDefault 3 16 100 16).insts.map Inst.addrs =
    [[11, 12, 13, 14, 15, 16, 17, 18, 19, 20, 21], [22, 23, 24, 25, 26, 27, 28, 29, 30, 31, 32]] := by decide +kernel

example : Built ((World.init.newDefault 3 16 100 16).newDefault 3 16 100 16) := (Built.init.newDefault ..).newDefault ..

/-- enabling channel 1 of device 0 (request `55 09 00 06 00 01 01 crc`) does not enable channel 1 of device 1 -/
example :
    let w := (World.init.newDefault 3 16 100 0).newDefault 3 16 100 0
    let w' := (w.runOn 0 [.start, .write (Spec.wire 6 [0, 1, 1]), .recvStep]).1
    (w'.insts.map fun i => ensOf (gather w'.heap i.addrs)) =
      [[false, true, false, false, false, false, false, false, false, false, false],
       [false, false, false, false, false, false, false, false, false, false, false]] := by decide +kernel

/-- ChannelFunc2 after 3 samples, then stop / start: counter and direction are back -/
example :
    let c : Chan := ⟨true, 10, 1, 0, 0, [], some 2, 0, 1, 0⟩
    let i : Inst := { newInst [0] 3 0 3 0 with flag := true }
    ((run [c] i [.start, .streamStep]).1.map fun c => (c.cntr, c.sign)) = [(3, 1)] ∧
    ((run [c] i [.start, .streamStep, .stop, .start]).1.map fun c => (c.cntr, c.sign)) = [(0, 1)] := by decide +kernel

/-- F19's input: a channel whose function returns its argument; three samples (0, 1, 2), then stop / start: the call
    counter is 0 again and the next batch is 0, 1, 2 again (the pre-fix code went on with 3, 4, 5) -/
example :
    let c : Chan := ⟨true, 7, 1, 0, 0, [], some 11, 0, 1, 0⟩
    let i : Inst := { newInst [0] 3 0 3 0 with flag := true }
    ((run [c] i [.start, .streamStep]).1.map fun c => c.calls) = [3] ∧
    ((run [c] i [.start, .streamStep, .stop, .start]).1.map fun c => c.calls) = [0] ∧
    (run [c] i [.start, .streamStep, .read, .stop, .start, .streamStep, .read]).2.2 =
      [.none, .none, .bytes (Spec.wire 1 [0, 0, 0, 0, 0, 0, 0, 1, 0, 0, 0, 0, 2, 0, 0, 0]), .none, .none, .none,
       .bytes (Spec.wire 1 [0, 0, 0, 0, 0, 0, 0, 1, 0, 0, 0, 0, 2, 0, 0, 0])] := by decide +kernel

example : Built (((World.init.newDefault 3 16 2 0).newDefault 3 16 2 0).newDefault 1 0 1 0) :=
  ((Built.init.newDefault ..).newDefault ..).newDefault ..

/-- three default devices, an interleaved history: device 1's observations are those of its own ops alone -/
example :
    let w := ((World.init.newDefault 3 16 2 0).newDefault 3 16 2 0).newDefault 1 0 1 0
    let h : List (Nat × Op) := [(0, .start), (1, .start), (0, .write (Spec.wire 6 [2, 0, 1])), (1, .write (Spec.wire 3 [1])), (0, .recvStep),
      (2, .start), (1, .recvStep), (0, .read), (1, .read), (2, .write (Spec.wire 2 [])), (2, .recvStep), (1, .read), (2, .read)]
    projOps 1 h = [.start, .write (Spec.wire 3 [1]), .recvStep, .read, .read] ∧
    w.obsFor 1 h = (w.runOn 1 (projOps 1 h)).2 ∧
    w.obsFor 1 h = [.none, .none, .none, .bytes (Spec.wire 3 [0, 10, 1, 0, 0, 0x63, 0x68, 0x61, 0x6e, 0x31]), .bytes []] := by
  decide +kernel

/-! ### a default device created late starts from the pristine defaults

  `World.newDefault` copies the CURRENT state of the module-level default objects (`w.heap.take nDefault`).  That these
  are still as at import time in every world that can exist — no instance holds them, no op writes them — is the
  invariant `Pristine` (Lemmas/DummyHeap.lean, `Built.pristine`). -/

/-- **the module-level default objects are never modified**: in every world that can exist they are as at import time -/
theorem default_objects_pristine (hc : Gen.Dummy.defaultCopied = true) {w : World} (hb : Built w) :
    w.heap.take nDefault = defaultObjs := (hb.pristine hc).2.1

/-- … and no instance holds one of them -/
theorem default_objects_unowned (hc : Gen.Dummy.defaultCopied = true) {w : World} (hb : Built w) (k : Nat) (i : Inst)
    (hk : w.insts[k]? = some i) : ∀ a ∈ i.addrs, nDefault ≤ a := (hb.pristine hc).2.2 k i hk

/-- **a default device created late is fresh**: whatever instances exist and whatever they were driven through, the
    instance `DummyDev()` creates now is the new last one, in the constructor's initial state, at fresh addresses, and
    its channel objects are exactly the import-time defaults -/
theorem late_default_is_fresh (hc : Gen.Dummy.defaultCopied = true) {w : World} (hb : Built w) (flags rxp snum wpad : Nat) :
    let w' := w.newDefault flags rxp snum wpad
    w'.insts[w.insts.length]? = some (newInst (freshAddrs w.heap nDefault) flags rxp snum wpad) ∧
    gather w'.heap (freshAddrs w.heap nDefault) = defaultObjs := by
  intro w'
  have hw : w' = ⟨w.heap ++ defaultObjs, w.insts ++ [newInst (freshAddrs w.heap nDefault) flags rxp snum wpad]⟩ :=
    newDefault_pristine hc w (hb.pristine hc) flags rxp snum wpad
  rw [hw]
  exact ⟨by simp, gather_fresh w.heap defaultObjs⟩

/-- what a client observes on a default device created late: the history on the import-time defaults -/
theorem late_default_observes (hc : Gen.Dummy.defaultCopied = true) {w : World} (hb : Built w) (flags rxp snum wpad : Nat)
    (ops : List Op) :
    ((w.newDefault flags rxp snum wpad).runOn w.insts.length ops).2 =
      (run defaultObjs (newInst (freshAddrs w.heap nDefault) flags rxp snum wpad) ops).2.2 := by
  obtain ⟨h1, h2⟩ := late_default_is_fresh hc hb flags rxp snum wpad
  have hs := (Built.newDefault flags rxp snum wpad hb).sep hc
  rw [World.runOn_local _ _ ops _ h1 (hs.ok _ _ h1)]
  show (run (gather _ (freshAddrs w.heap nDefault)) _ ops).2.2 = _
  rw [h2]

/-- **a default device created late behaves like the first one ever created**: whatever happened to other instances
    before (`Built w`: any number of devices, any ops on them), every history `ops` on a default device created now
    lets a client observe exactly what the same history lets it observe on the first default device created after
    import — responses, stream frames, sample sequences, thread deaths -/
theorem late_default_observes_like_first (hc : Gen.Dummy.defaultCopied = true) {w : World} (hb : Built w)
    (flags rxp snum wpad : Nat) (ops : List Op) :
    ((w.newDefault flags rxp snum wpad).runOn w.insts.length ops).2 =
      ((World.init.newDefault flags rxp snum wpad).runOn 0 ops).2 := by
  have h0 := late_default_observes hc Built.init flags rxp snum wpad ops
  have h0' : ((World.init.newDefault flags rxp snum wpad).runOn 0 ops).2 =
      (run defaultObjs (newInst (freshAddrs World.init.heap nDefault) flags rxp snum wpad) ops).2.2 := h0
  rw [late_default_observes hc hb flags rxp snum wpad ops, h0']
  exact run_addrs_congr defaultObjs _ _ flags rxp snum wpad ops
    ((freshAddrs_length _ _).trans (freshAddrs_length _ _).symm)

/-! #### non-vacuity -/

/-- a world that exists: default device 0 started, enable-all written and received -/
example : Built ((World.init.newDefault 3 16 100 0).runOn 0 [.start, .write (Spec.wire 6 [2, 0, 1]), .recvStep]).1 :=
  (Built.init.newDefault ..).runOn ..

/-- … every channel of device 0 is enabled; a default device created now sits at addresses 22‥32, its channel objects
    are the import-time defaults (all disabled), device 0 keeps its enabled ones -/
example :
    let w := ((World.init.newDefault 3 16 100 0).runOn 0 [.start, .write (Spec.wire 6 [2, 0, 1]), .recvStep]).1
    let w' := w.newDefault 3 16 100 0
    (w.insts.map fun i => ensOf (gather w.heap i.addrs)) = [List.replicate 11 true] ∧
    w'.insts[w.insts.length]? = some (newInst [22, 23, 24, 25, 26, 27, 28, 29, 30, 31, 32] 3 16 100 0) ∧
    gather w'.heap (freshAddrs w.heap nDefault) = defaultObjs ∧
    (w'.insts.map fun i => ensOf (gather w'.heap i.addrs)) = [List.replicate 11 true, List.replicate 11 false] := by
  decide +kernel

/-- … and a channel-info request for channel 1 on the late device is answered "disabled", as on the first device -/
example :
    let w := ((World.init.newDefault 3 16 100 0).runOn 0 [.start, .write (Spec.wire 6 [2, 0, 1]), .recvStep]).1
    let ops : List Op := [.start, .write (Spec.wire 3 [1]), .recvStep, .read]
    ((w.newDefault 3 16 100 0).runOn w.insts.length ops).2 = ((World.init.newDefault 3 16 100 0).runOn 0 ops).2 ∧
    ((w.newDefault 3 16 100 0).runOn w.insts.length ops).2 =
      [.none, .none, .none, .bytes (Spec.wire 3 [0, 10, 1, 0, 0, 0x63, 0x68, 0x61, 0x6e, 0x31])] := by
  decide +kernel


/-! ## Round 7 — states (not only observations) are independent; N instances; custom devices created late -/

/-- **independence of STATE over interleaved histories** (any number of instances): after ANY interleaving `h`, instance
    `j` (stream flag, queues, thread state) and every one of its channel objects (enable, divider, generator state, call
    counter) are exactly what its own ops `projOps j h`, run alone from the same world, leave — "configuring, starting or
    streaming one leaves the other's channel state, stream state and sample sequences untouched", for the state itself
    rather than for what a client happens to read of it (`independent_interleaved`) -/
theorem independent_interleaved_state (hc : Gen.Dummy.defaultCopied = true) {w : World} (hb : Built w) (j : Nat)
    (h : List (Nat × Op)) (ij : Inst) (hj : w.insts[j]? = some ij) :
    (w.run h).1.insts[j]? = (w.runOn j (projOps j h)).1.insts[j]? ∧
    gather (w.run h).1.heap ij.addrs = gather (w.runOn j (projOps j h)).1.heap ij.addrs := by
  have hs := hb.sep hc
  obtain ⟨a1, a2⟩ := World.run_local_state w hs j h ij hj
  obtain ⟨b1, b2⟩ := World.run_local_state w hs j ((projOps j h).map fun op => (j, op)) ij hj
  rw [projOps_map_self] at b1 b2
  exact ⟨a1.trans b1.symm, a2.trans b2.symm⟩

/-- **an instance nobody addresses is untouched**: if no op of the interleaving addresses `j`, instance `j` and all its
    channel objects are exactly as before — whatever the other N − 1 instances went through -/
theorem untouched_instance_unchanged (hc : Gen.Dummy.defaultCopied = true) {w : World} (hb : Built w) (j : Nat)
    (h : List (Nat × Op)) (hnone : ∀ p ∈ h, p.1 ≠ j) (ij : Inst) (hj : w.insts[j]? = some ij) :
    (w.run h).1.insts[j]? = some ij ∧ gather (w.run h).1.heap ij.addrs = gather w.heap ij.addrs := by
  have hp : projOps j h = [] := by
    unfold projOps
    rw [List.filterMap_eq_nil_iff]
    intro p hp
    simp [hnone p hp]
  have := World.run_local_state w (hb.sep hc) j h ij hj
  rw [hp] at this
  exact this

/-- **the remaining sample sequence of every channel is independent**: after any interleaving, the next `n` outputs of
    every channel object of `j` are those it has after `j`'s own ops alone (sample sequences of B untouched by A) -/
theorem independent_sequences (hc : Gen.Dummy.defaultCopied = true) {w : World} (hb : Built w) (j : Nat)
    (h : List (Nat × Op)) (ij : Inst) (hj : w.insts[j]? = some ij) (n : Nat) :
    (gather (w.run h).1.heap ij.addrs).map (·.outputs n) =
      (gather (w.runOn j (projOps j h)).1.heap ij.addrs).map (·.outputs n) := by
  rw [(independent_interleaved_state hc hb j h ij hj).2]

/-- **a custom device created late is fresh** (the case section 5 left to `separation` + K/O): whatever instances exist
    and whatever they were driven through, `DummyDev(channels=<separately built non-empty list>)` created now is the new
    last instance, in the constructor's initial state, and its channel objects are exactly the list it was given -/
theorem late_custom_is_fresh (w : World) (c : Chan) (cs : List Chan) (flags rxp snum wpad : Nat) :
    let w' := w.newCustom (c :: cs) flags rxp snum wpad
    w'.insts[w.insts.length]? = some (newInst (freshAddrs w.heap (c :: cs).length) flags rxp snum wpad) ∧
    gather w'.heap (freshAddrs w.heap (c :: cs).length) = c :: cs := by
  intro w'
  have hw : w' = ⟨w.heap ++ (c :: cs), w.insts ++ [newInst (freshAddrs w.heap (c :: cs).length) flags rxp snum wpad]⟩ := rfl
  rw [hw]
  exact ⟨by simp, gather_fresh w.heap (c :: cs)⟩

/-- what a client observes on a custom device created late: the history on the list it was built from -/
theorem late_custom_observes (hc : Gen.Dummy.defaultCopied = true) {w : World} (hb : Built w) (c : Chan) (cs : List Chan)
    (flags rxp snum wpad : Nat) (ops : List Op) :
    ((w.newCustom (c :: cs) flags rxp snum wpad).runOn w.insts.length ops).2 =
      (run (c :: cs) (newInst (freshAddrs w.heap (c :: cs).length) flags rxp snum wpad) ops).2.2 := by
  obtain ⟨h1, h2⟩ := late_custom_is_fresh w c cs flags rxp snum wpad
  have hs := (Built.newCustom (c :: cs) flags rxp snum wpad hb).sep hc
  rw [World.runOn_local _ _ ops _ h1 (hs.ok _ _ h1)]
  show (run (gather _ (freshAddrs w.heap (c :: cs).length)) _ ops).2.2 = _
  rw [h2]

/-- **a custom device created late behaves like the same device created first**: every history on it lets a client observe
    exactly what it would on that device created right after import, before any other instance existed -/
theorem late_custom_observes_like_first (hc : Gen.Dummy.defaultCopied = true) {w : World} (hb : Built w) (c : Chan)
    (cs : List Chan) (flags rxp snum wpad : Nat) (ops : List Op) :
    ((w.newCustom (c :: cs) flags rxp snum wpad).runOn w.insts.length ops).2 =
      ((World.init.newCustom (c :: cs) flags rxp snum wpad).runOn 0 ops).2 := by
  have h0 : ((World.init.newCustom (c :: cs) flags rxp snum wpad).runOn 0 ops).2 =
      (run (c :: cs) (newInst (freshAddrs World.init.heap (c :: cs).length) flags rxp snum wpad) ops).2.2 :=
    late_custom_observes hc Built.init c cs flags rxp snum wpad ops
  rw [late_custom_observes hc hb c cs flags rxp snum wpad ops, h0]
  exact run_addrs_congr (c :: cs) _ _ flags rxp snum wpad ops
    ((freshAddrs_length _ _).trans (freshAddrs_length _ _).symm)

/-- **restart is idempotent and history-free on the generator state**: the generator state (function counters,
    direction, call counter) after `stop; start` is a fixed point of `reset` — a second, third, … restart, with any
    number of samples drawn in between, lands in a `GenFresh` state again (instance of `restart_resets` with the
    history `ops ++ [stop, start] ++ ops'`), stated for any number `m` of restart cycles -/
theorem restart_cycles (cs : List Chan) (i : Inst) (cycles : List (List Op)) :
    ∀ c ∈ (run cs i ((cycles.map fun ops => ops ++ [.stop, .start]).flatten ++ [.stop, .start])).1, c.GenFresh :=
  restart_resets cs i _

/-- non-vacuity (round 7): three devices (default, custom, default); the custom one is created AFTER device 0 was driven;
    an interleaving in which device 1 is never addressed leaves it unchanged, and device 0's state is that of its own ops -/
example :
    let w := (((World.init.newDefault 3 16 2 0).runOn 0 [.start, .write (Spec.wire 6 [2, 0, 1]), .recvStep]).1.newCustom
      [⟨true, 7, 1, 0, 0, [], some 11, 0, 1, 0⟩] 3 0 2 0).newDefault 1 0 1 0
    let h : List (Nat × Op) := [(0, .streamStep), (2, .start), (0, .read), (2, .write (Spec.wire 2 [])), (2, .recvStep), (0, .stop)]
    (∀ p ∈ h, p.1 ≠ 1) ∧ w.insts.length = 3 ∧
    (w.run h).1.insts[1]? = w.insts[1]? ∧
    (w.run h).1.insts[0]? = (w.runOn 0 (projOps 0 h)).1.insts[0]? := by
  decide +kernel

example : Built ((((World.init.newDefault 3 16 2 0).runOn 0 [.start, .write (Spec.wire 6 [2, 0, 1]), .recvStep]).1.newCustom
      [⟨true, 7, 1, 0, 0, [], some 11, 0, 1, 0⟩] 3 0 2 0).newDefault 1 0 1 0) :=
  (((Built.init.newDefault ..).runOn ..).newCustom ..).newDefault ..

/-- … and the late custom device observes like the same device created first -/
example :
    let w := ((World.init.newDefault 3 16 2 0).runOn 0 [.start, .write (Spec.wire 6 [2, 0, 1]), .recvStep]).1
    let cs : List Chan := [⟨true, 7, 1, 0, 0, [], some 11, 0, 1, 0⟩]
    let ops : List Op := [.start, .write (Spec.wire 3 [0]), .recvStep, .read]
    ((w.newCustom cs 3 0 2 0).runOn w.insts.length ops).2 = ((World.init.newCustom cs 3 0 2 0).runOn 0 ops).2 ∧
    ((w.newCustom cs 3 0 2 0).runOn w.insts.length ops).2.length = 4 := by
  decide +kernel

/-- **the sequence after a restart is history-free**: take ANY two histories on ANY two instances (the same instance
    twice, two default devices, a default and a custom one), each followed by `stop(); start()`.  Two channel objects with
    the same generator function and dimension then produce the same next `n` outputs, for every `n` — whatever number of
    samples either had drawn before, whatever their enable flags and dividers are.  (Deterministic generators; the random
    ones carry the placeholder value, see section 5.) -/
theorem restart_history_free (cs cs' : List Chan) (i i' : Inst) (ops ops' : List Op) (n : Nat) :
    ∀ c ∈ (run cs i (ops ++ [.stop, .start])).1, ∀ d ∈ (run cs' i' (ops' ++ [.stop, .start])).1,
      c.gen = d.gen → c.vdim = d.vdim → c.outputs n = d.outputs n := by
  intro c hc d hd hg hv
  have fc := (reset_state c).mp (restart_resets cs i ops c hc)
  have fd := (reset_state d).mp (restart_resets cs' i' ops' d hd)
  apply SameGen.outputs
  refine ⟨hg, hv, fc.2.2.trans fd.2.2.symm, fun hk => ?_, fun hk => ?_⟩
  · rw [fc.1 hk, fd.1 (by rw [← hg]; exact hk)]
  · obtain ⟨a, b⟩ := fc.2.1 hk
    obtain ⟨a', b'⟩ := fd.2.1 (by rw [← hg]; exact hk)
    exact ⟨a.trans a'.symm, b.trans b'.symm⟩

/-- non-vacuity: the triangle wave (ChannelFunc2) restarted after 3 samples and after 7 samples (two batches, the second
    cut short by a disable) continues identically -/
example :
    let c : Chan := ⟨true, 10, 1, 0, 0, [], some 2, 0, 1, 0⟩
    let i : Inst := { newInst [0] 3 0 3 0 with flag := true }
    let i' : Inst := { newInst [0] 3 0 7 0 with flag := true }
    ((run [c] i [.start, .streamStep]).1.map fun c => (c.cntr, c.sign)) = [(3, 1)] ∧
    ((run [c] i' [.start, .streamStep]).1.map fun c => (c.cntr, c.sign)) = [(7, 1)] ∧
    ((run [c] i ([.start, .streamStep] ++ [.stop, .start])).1.map fun c => c.outputs 4) =
      ((run [c] i' ([.start, .streamStep] ++ [.stop, .start])).1.map fun c => c.outputs 4) := by decide +kernel

end Nxs.C16
