/-
  C11 — a rejected or unacknowledged request never advances the client's view.
  Property theorems only (helper lemmas in Lemmas/Config.lean).
  Per request the device acknowledges, rejects with a non-zero code, applies but loses the ACK, or
  loses the request (`Config.Outcome`); the device advertises ACK support.
-/
import NxsModel.Gen.CfgShape
import NxsModel.Config
import NxsModel.Lemmas.Config
namespace Nxs.C11
open Nxs Nxs.Config

/-- a device the client can be connected to: 0..255 channels, 8-bit dividers -/
def WFDev (d : Device) : Prop :=
  d.en.length ≤ 255 ∧ d.div.length = d.en.length ∧ ∀ v ∈ d.div, 0 ≤ v ∧ v ≤ 255

def after (d0 : Device) (flags : Nat) (ops : List Op) : Client × Device × List StepOut :=
  run (Client.init d0 flags) d0 ops

/-- a write returns within two ACK timeouts (tenths of a second), whatever the device does -/
theorem bounded (c : Client) (d : Device) (oDiv oEn : Outcome) :
    (channelsWrite c d oDiv oEn).2.2.time ≤ 20 :=
  channelsWrite_time c d oDiv oEn

/-- if the enable request is not positively acknowledged, what the client reports for the enable
    state (`ch_is_enabled` and its copy of the description) stays as it was -/
theorem failed_keeps_view_en (c : Client) (d : Device) (oDiv oEn : Outcome) (ha : c.ackSupported = true)
    (hf : oEn ≠ .ack) :
    (channelsWrite c d oDiv oEn).1.enNow = c.enNow ∧ (channelsWrite c d oDiv oEn).1.copyEn = c.copyEn :=
  channelsWrite_failed_en c d oDiv oEn ha hf

theorem failed_keeps_view_div (c : Client) (d : Device) (oDiv oEn : Outcome) (ha : c.ackSupported = true)
    (hf : oDiv ≠ .ack) :
    (channelsWrite c d oDiv oEn).1.divNow = c.divNow ∧ (channelsWrite c d oDiv oEn).1.copyDiv = c.copyDiv :=
  channelsWrite_failed_div c d oDiv oEn ha hf

/-- after ANY history of acknowledged, rejected, lost and half-lost requests, the client's report
    is the last state the device acknowledged: its copy always equals the acknowledged vector, and
    whenever no request is pending in doubt the device holds exactly that state -/
theorem view_is_last_acked (d0 : Device) (flags : Nat) (ops : List Op) (hd : WFDev d0)
    (ha : Info.ackSupported flags = true) :
    let r := after d0 flags ops
    r.1.copyEn = r.1.enNow ∧ r.1.copyDiv = r.1.divNow ∧
    (r.1.enResync = false → r.2.1.en = r.1.enNow) ∧
    (Info.divSupported flags = true → r.1.divResync = false → r.2.1.div = r.1.divNow) :=
  c11_view d0 flags ops hd ha

/-- … and a later write that the device acknowledges brings device and client to the requested state -/
theorem later_write_converges (d0 : Device) (flags : Nat) (ops : List Op) (hd : WFDev d0)
    (ha : Info.ackSupported flags = true) :
    let r := after d0 flags (ops ++ [.write .ack .ack])
    r.2.1.en = r.1.enNew ∧ r.1.enNow = r.1.enNew ∧ r.1.copyEn = r.1.enNew ∧
    (Info.divSupported flags = true →
      r.2.1.div = r.1.divNew ∧ r.1.divNow = r.1.divNew ∧ r.1.copyDiv = r.1.divNew) :=
  c11_converges d0 flags ops hd ha

/-- the write path that `Config.lean` transcribes is present in the current source (regenerated facts):
    a failed ACK only sets the doubt flag and returns; a positive ACK clears it and advances the state;
    with the doubt flag set the full vector is sent; ACK timeouts as in `Gen.Comm` -/
theorem source_shape :
    Gen.CfgShape.enableWriteShape = true ∧ Gen.CfgShape.divWriteShape = true ∧
    Gen.CfgShape.channelsWriteShape = true ∧ Gen.CfgShape.reportShape = true ∧
    Gen.Comm.getAckShape = true := by decide

/-- non-vacuity: the historical defect (applied, ACK lost, then a single-channel change) converges -/
example : (after ⟨[false, false, false], [0, 0, 0]⟩ 3
    [.enable [0, 1], .write .ack .appliedAckLost, .disable [1], .write .ack .ack]).2.1.en = [true, false, false] := by
  decide +kernel

/-- non-vacuity of the zero-channel case: a device without channels is well formed … -/
example : WFDev ⟨[], []⟩ := by simp [WFDev]

/-- … and a history with writes on it (whatever the device would answer) ends in the empty state, with
    no request in doubt -/
example : (after ⟨[], []⟩ 3 [.enableAll, .write .lost (.nack 1), .write .ack .ack]).2.1 = ⟨[], []⟩ ∧
    (after ⟨[], []⟩ 3 [.enableAll, .write .lost (.nack 1), .write .ack .ack]).1.enResync = false ∧
    (after ⟨[], []⟩ 3 [.enableAll, .write .lost (.nack 1), .write .ack .ack]).1.divResync = false := by
  decide +kernel

end Nxs.C11
