/-
  C11 — a rejected or unacknowledged request never advances the client's view.
  Property theorems only (helper lemmas in Lemmas/Config.lean).
  Per request the device acknowledges, rejects with a non-zero code, applies but loses the ACK, or
  loses the request (`Config.Outcome`); the device advertises ACK support.
  A rejection carries a non-zero code: `.nack 0` is not a rejection on the wire (an ACK frame with code 0 IS the
  positive acknowledgement).  The configuration machine (`Config.ackSeen`) treats every `.nack r` as a failed
  request, so its theorems below are about rejections proper (r ≠ 0; the drivers do not accept `n0`); the start /
  stop model (`Lifecycle.startAck`) follows the code for r = 0 too and its theorems carry `r ≠ 0` explicitly.

  Second half (start / stop requests, whole sessions): `Lifecycle.lean` — sessions on the high-level handler
  (`afterA`) and on a bare `CommHandler` (`afterC`) in which every stream start/stop, divider and enable request is
  answered as an `Ans` record says.
-/
import NxsModel.Gen.CfgShape
import NxsModel.Config
import NxsModel.Lemmas.Config
import NxsModel.Lemmas.R7Config
import NxsModel.Lifecycle
import NxsModel.Lemmas.Lifecycle
namespace Nxs.C11
open Nxs Nxs.Config Nxs.Lifecycle

/-- a device the client can be connected to: 0..255 channels, 8-bit dividers -/
def WFDev (d : Device) : Prop :=
  d.en.length ≤ 255 ∧ d.div.length = d.en.length ∧ ∀ v ∈ d.div, 0 ≤ v ∧ v ≤ 255

def after (d0 : Device) (flags : Nat) (ops : List Op) : Client × Device × List StepOut :=
  run (Client.init d0 flags) d0 ops

/-- a write returns within two ACK timeouts (tenths of a second), whatever the device does -/
theorem bounded (c : Client) (d : Device) (oDiv oEn : Outcome) :
    (channelsWrite c d oDiv oEn).2.2.time ≤ 20 :=
  channelsWrite_time c d oDiv oEn

/-- if the enable request is not positively acknowledged, what the client reports for the enable
    state (`ch_is_enabled` and its copy of the description) stays as it was -/
theorem failed_keeps_view_en (c : Client) (d : Device) (oDiv oEn : Outcome) (ha : c.ackSupported = true)
    (hf : oEn ≠ .ack) :
    (channelsWrite c d oDiv oEn).1.enNow = c.enNow ∧ (channelsWrite c d oDiv oEn).1.copyEn = c.copyEn :=
  channelsWrite_failed_en c d oDiv oEn ha hf

theorem failed_keeps_view_div (c : Client) (d : Device) (oDiv oEn : Outcome) (ha : c.ackSupported = true)
    (hf : oDiv ≠ .ack) :
    (channelsWrite c d oDiv oEn).1.divNow = c.divNow ∧ (channelsWrite c d oDiv oEn).1.copyDiv = c.copyDiv :=
  channelsWrite_failed_div c d oDiv oEn ha hf

/-- after ANY history of acknowledged, rejected, lost and half-lost requests, the client's report
    is the last state the device acknowledged: its copy always equals the acknowledged vector, and
    whenever no request is pending in doubt the device holds exactly that state -/
theorem view_is_last_acked (d0 : Device) (flags : Nat) (ops : List Op) (hd : WFDev d0)
    (ha : Info.ackSupported flags = true) :
    let r := after d0 flags ops
    r.1.copyEn = r.1.enNow ∧ r.1.copyDiv = r.1.divNow ∧
    (r.1.enResync = false → r.2.1.en = r.1.enNow) ∧
    (Info.divSupported flags = true → r.1.divResync = false → r.2.1.div = r.1.divNow) :=
  c11_view d0 flags ops hd ha

/-- … and a later write that the device acknowledges brings device and client to the requested state -/
theorem later_write_converges (d0 : Device) (flags : Nat) (ops : List Op) (hd : WFDev d0)
    (ha : Info.ackSupported flags = true) :
    let r := after d0 flags (ops ++ [.write .ack .ack])
    r.2.1.en = r.1.enNew ∧ r.1.enNow = r.1.enNew ∧ r.1.copyEn = r.1.enNew ∧
    (Info.divSupported flags = true →
      r.2.1.div = r.1.divNew ∧ r.1.divNow = r.1.divNew ∧ r.1.copyDiv = r.1.divNew) :=
  c11_converges d0 flags ops hd ha

/-! ### start / stop requests -/

/-- a session on the high-level handler / on a bare `CommHandler`, the device answering as the history says -/
def afterA (d0 : Device) (started : Bool) (flags : Nat) (desc : Desc) (hist : List (Call × Ans)) : World :=
  (runA (World.fresh d0 started flags desc) hist).1
def afterC (d0 : Device) (started : Bool) (flags : Nat) (desc : Desc) (hist : List (CommCall × Ans)) : World :=
  (commRun (World.fresh d0 started flags desc) hist).1

/-- `CommHandler.stream_start()` / `stream_stop()` return within one ACK timeout (1 s), whatever the device does
    with the request and in whatever state the handler is; so do the high-level `stream_stop()` (one request) and
    `stream_start()` (a configuration write, then one request: three ACK timeouts) -/
theorem startStop_bounded (w : World) (a : Ans) :
    (commStep w .streamStart a).1.time ≤ w.time + Gen.Comm.ackTimeoutStart ∧
    (commStep w .streamStop a).1.time ≤ w.time + Gen.Comm.ackTimeoutStop ∧
    (step w .streamStop a).1.time ≤ w.time + Gen.Comm.ackTimeoutStop ∧
    (step w .streamStart a).1.time ≤ w.time + 20 + Gen.Comm.ackTimeoutStart := by
  refine ⟨(commStartReq_time w true a.st).2, (commStartReq_time w false a.st).2, (streamStop_time w a).2, ?_⟩
  rw [step_streamStart]
  split
  · show w.time ≤ w.time + 20 + Gen.Comm.ackTimeoutStart
    omega
  · have hw := doWrite_time w a
    generalize doWrite w a = r at *
    obtain ⟨w1, res⟩ := r
    dsimp only at hw
    have h10 : Gen.Comm.ackTimeoutStart = 10 := by decide
    cases res with
    | ok =>
      have hs := commStartReq_time w1 true a.st
      show (commStartReq w1 true a.st).1.time ≤ _
      omega
    | raised e => show w1.time ≤ _; omega
    | ack s code => show w1.time ≤ _; omega

/-- the value `CommHandler.stream_start()` / `stream_stop()` return is the acknowledgement state: on a connected
    handler in front of a device with ACK support it is positive exactly for an acknowledged request; a rejection
    returns its (non-zero) code, a lost request or lost ACK returns failure after the timeout; without a known
    device or without ACK support the call reports success at once (there is nothing to wait for).  The device
    starts / stops streaming exactly when it applied the request -/
theorem startStop_returns_ack_state (w : World) (a : Ans) (start : Bool) :
    let call : CommCall := if start then .streamStart else .streamStop
    (commStep w call a).1.devStarted = (if applies a.st then start else w.devStarted) ∧
    (w.hasDev = false ∨ Info.ackSupported w.flags = false → (commStep w call a).2 = .ack true 0) ∧
    (w.hasDev = true → Info.ackSupported w.flags = true →
      (a.st = .ack → (commStep w call a).2 = .ack true 0) ∧
      (∀ code, a.st = .nack code → code ≠ 0 → (commStep w call a).2 = .ack false code) ∧
      (a.st = .lost ∨ a.st = .appliedAckLost → (commStep w call a).2 = .ack false (-1))) := by
  intro call
  have hs := commStartReq_spec w start a.st
  have e : commStep w call a = ((commStartReq w start a.st).1, .ack (commStartReq w start a.st).2.1 (commStartReq w start a.st).2.2) := by
    cases start <;> rfl
  rw [e]
  refine ⟨hs.1, fun h => ?_, fun h1 h2 => ⟨fun h => ?_, fun code h hne => ?_, fun h => ?_⟩⟩
  · show Res.ack (commStartReq w start a.st).2.1 (commStartReq w start a.st).2.2 = _
    rw [hs.2.1 h]
  · show Res.ack (commStartReq w start a.st).2.1 (commStartReq w start a.st).2.2 = _
    rw [(hs.2.2 h1 h2).1 h]
  · show Res.ack (commStartReq w start a.st).2.1 (commStartReq w start a.st).2.2 = _
    rw [(hs.2.2 h1 h2).2.1 code h hne]
  · show Res.ack (commStartReq w start a.st).2.1 (commStartReq w start a.st).2.2 = _
    rw [(hs.2.2 h1 h2).2.2 h]

/-- a start / stop request, whatever its outcome, never touches the channel state the client reports (acknowledged
    vectors, requested vectors, the copy in the device description), the device's channel configuration or the
    reported description: at the low level the world changes only in the frame log, the device's stream flag and the
    clock; the high-level `stream_stop()` likewise; the high-level `stream_start()` changes the channel state
    exactly as its `channels_write()` does -/
theorem startStop_keeps_view (w : World) (a : Ans) :
    ((commStep w .streamStart a).1.cli = w.cli ∧ (commStep w .streamStart a).1.dev = w.dev ∧
      (commStep w .streamStart a).1.reported = w.reported) ∧
    ((commStep w .streamStop a).1.cli = w.cli ∧ (commStep w .streamStop a).1.dev = w.dev ∧
      (commStep w .streamStop a).1.reported = w.reported) ∧
    ((step w .streamStop a).1.cli = w.cli ∧ (step w .streamStop a).1.dev = w.dev ∧
      (step w .streamStop a).1.reported = w.reported) ∧
    ((step w .streamStart a).1.cli = w.cli ∧ (step w .streamStart a).1.dev = w.dev ∨
     (step w .streamStart a).1.cli = (doWrite w a).1.cli ∧ (step w .streamStart a).1.dev = (doWrite w a).1.dev) := by
  refine ⟨⟨rfl, rfl, rfl⟩, ⟨rfl, rfl, rfl⟩, ?_, ?_⟩
  · show (streamStop w a).cli = w.cli ∧ (streamStop w a).dev = w.dev ∧ (streamStop w a).reported = w.reported
    cases hs : w.streamStarted with
    | false => rw [streamStop_idle w a hs]; exact ⟨rfl, rfl, rfl⟩
    | true => rw [streamStop_active w a hs]; exact ⟨rfl, rfl, rfl⟩
  · rw [step_streamStart]
    split
    · exact Or.inl ⟨rfl, rfl⟩
    · refine Or.inr ?_
      generalize doWrite w a = r
      obtain ⟨w1, res⟩ := r
      cases res <;> exact ⟨rfl, rfl⟩

/-! ### whole sessions: configuration, start / stop, disconnect / reconnect, any answers -/

/-- every call of a session returns within a bounded time of waiting for the device -/
theorem session_call_bounded (w : World) (c : Call) (cc : CommCall) (a : Ans) :
    (step w c a).1.time ≤ w.time + 38 ∧ (commStep w cc a).1.time ≤ w.time + 20 :=
  ⟨step_bounded w c a, commStep_bounded w cc a⟩

/-- after ANY session on the high-level handler (writes, wrappers with writenow, stream start / stop, disconnects and
    reconnects; every request acknowledged, rejected, lost or half-lost) a connected handler reports the last
    state the device acknowledged: its copy of the description equals the acknowledged vectors, and whenever no
    request is pending in doubt the device holds exactly that state -/
theorem session_view_is_last_acked (d0 : Device) (started : Bool) (flags : Nat) (desc : Desc)
    (hist : List (Call × Ans)) (hd : WFDev d0) (ha : Info.ackSupported flags = true)
    (hcon : (afterA d0 started flags desc hist).connected = true) :
    let w := afterA d0 started flags desc hist
    ∃ c, w.cli = some c ∧ c.copyEn = c.enNow ∧ c.copyDiv = c.divNow ∧
      (c.enResync = false → w.dev.en = c.enNow) ∧ (c.divResync = false → w.dev.div = c.divNow) :=
  c11_life_view d0 started flags desc hist hd ha hcon

/-- … and a later write that the device acknowledges does not raise and brings device and client to the requested state -/
theorem session_later_write_converges (d0 : Device) (started : Bool) (flags : Nat) (desc : Desc)
    (hist : List (Call × Ans)) (hd : WFDev d0) (ha : Info.ackSupported flags = true)
    (hcon : (afterA d0 started flags desc hist).connected = true) :
    let r := step (afterA d0 started flags desc hist) .channelsWrite
    r.2 = .ok ∧
    ∃ c, r.1.cli = some c ∧ r.1.dev.en = c.enNew ∧ c.enNow = c.enNew ∧ c.copyEn = c.enNew ∧
      (Info.divSupported flags = true → r.1.dev.div = c.divNew ∧ c.divNow = c.divNew ∧ c.copyDiv = c.divNew) :=
  c11_life_converges d0 started flags desc hist hd ha hcon

/-- the same for sessions on a bare `CommHandler` -/
theorem comm_session_view_is_last_acked (d0 : Device) (started : Bool) (flags : Nat) (desc : Desc)
    (hist : List (CommCall × Ans)) (hd : WFDev d0) (ha : Info.ackSupported flags = true)
    (hcon : (afterC d0 started flags desc hist).commStarted = true) :
    let w := afterC d0 started flags desc hist
    ∃ c, w.cli = some c ∧ c.copyEn = c.enNow ∧ c.copyDiv = c.divNow ∧
      (c.enResync = false → w.dev.en = c.enNow) ∧ (c.divResync = false → w.dev.div = c.divNow) :=
  c11_comm_view d0 started flags desc hist hd ha hcon

theorem comm_session_later_write_converges (d0 : Device) (started : Bool) (flags : Nat) (desc : Desc)
    (hist : List (CommCall × Ans)) (hd : WFDev d0) (ha : Info.ackSupported flags = true)
    (hcon : (afterC d0 started flags desc hist).commStarted = true) :
    let r := commStep (afterC d0 started flags desc hist) .channelsWrite
    r.2 = .ok ∧
    ∃ c, r.1.cli = some c ∧ r.1.dev.en = c.enNew ∧ c.enNow = c.enNew ∧ c.copyEn = c.enNew ∧
      (Info.divSupported flags = true → r.1.dev.div = c.divNew ∧ c.divNow = c.divNew ∧ c.copyDiv = c.divNew) :=
  c11_comm_converges d0 started flags desc hist hd ha hcon

/-- the write path that `Config.lean` transcribes is present in the current source (regenerated facts):
    a failed ACK only sets the doubt flag and returns; a positive ACK clears it and advances the state;
    with the doubt flag set the full vector is sent; ACK timeouts as in `Gen.Comm` -/
theorem source_shape :
    Gen.CfgShape.enableWriteShape = true ∧ Gen.CfgShape.divWriteShape = true ∧
    Gen.CfgShape.channelsWriteShape = true ∧ Gen.CfgShape.reportShape = true ∧
    Gen.Comm.getAckShape = true := by decide

/-- non-vacuity: the historical defect (applied, ACK lost, then a single-channel change) converges -/
example : (after ⟨[false, false, false], [0, 0, 0]⟩ 3
    [.enable [0, 1], .write .ack .appliedAckLost, .disable [1], .write .ack .ack]).2.1.en = [true, false, false] := by
  decide +kernel

/-- non-vacuity of the zero-channel case: a device without channels is well formed … -/
example : WFDev ⟨[], []⟩ := by simp [WFDev]

/-- … and a history with writes on it (whatever the device would answer) ends in the empty state, with
    no request in doubt -/
example : (after ⟨[], []⟩ 3 [.enableAll, .write .lost (.nack 1), .write .ack .ack]).2.1 = ⟨[], []⟩ ∧
    (after ⟨[], []⟩ 3 [.enableAll, .write .lost (.nack 1), .write .ack .ack]).1.enResync = false ∧
    (after ⟨[], []⟩ 3 [.enableAll, .write .lost (.nack 1), .write .ack .ack]).1.divResync = false := by
  decide +kernel

/-- non-vacuity of the start / stop theorems: a connected handler on an ACK device, a rejected stop: the call returns
    the code, the device keeps streaming, nothing else changes, no time passes; a lost one costs the timeout -/
example :
    let w := afterC ⟨[true, false], [0, 0]⟩ false 3 (Desc.plain 2) [(.connect, {}), (.streamStart, {})]
    w.hasDev = true ∧ Info.ackSupported w.flags = true ∧
    (commStep w .streamStop ⟨.nack (-2147483648), .ack, .ack⟩).2 = .ack false (-2147483648) ∧
    (commStep w .streamStop ⟨.nack (-2147483648), .ack, .ack⟩).1.devStarted = true ∧
    (commStep w .streamStop ⟨.nack 65536, .ack, .ack⟩).1.time = w.time ∧
    (commStep w .streamStop ⟨.lost, .ack, .ack⟩).2 = .ack false (-1) ∧
    (commStep w .streamStop ⟨.lost, .ack, .ack⟩).1.time = w.time + 10 ∧
    (commStep w .streamStop ⟨.appliedAckLost, .ack, .ack⟩).1.devStarted = false := by decide +kernel

/-- non-vacuity of the session theorems: a connected state after a session with a rejected stop, a disconnect whose
    disable-all the device lost, a reconnect and a half-lost single-channel enable; the acknowledged write converges -/
example :
    let hist : List (Call × Ans) :=
      [(.connect, {}), (.chEnable [1] true, {}), (.streamStart, ⟨.nack 3, .ack, .ack⟩), (.streamStop, ⟨.lost, .ack, .ack⟩),
       (.disconnect, ⟨.ack, .ack, .lost⟩), (.connect, {}), (.chEnable [-1] true, ⟨.ack, .ack, .appliedAckLost⟩),
       (.chDisable [2] false, {}), (.chEnable [0] false, {})]
    (afterA ⟨[false, false, false], [0, 0, 0]⟩ false 3 (Desc.plain 3) hist).connected = true ∧
    (afterA ⟨[false, false, false], [0, 0, 0]⟩ false 3 (Desc.plain 3) hist).dev.en = [false, true, true] ∧
    (step (afterA ⟨[false, false, false], [0, 0, 0]⟩ false 3 (Desc.plain 3) hist) .channelsWrite).1.dev.en
      = [true, true, false] := by decide +kernel

/-! ## Round 7 additions: the client's view as a fold over the ACCEPTED requests only

  `Config.cliSpec` (Lemmas/R7Config.lean) is the client side written without the device, the bytes and the frames; the
  theorems below hold for histories of any length with every request acknowledged, rejected (any code), applied with
  the ACK lost, or lost. -/

/-- REFINEMENT: after ANY history, whatever the device does with each request (and with or without ACK support), the
    client state is the fold of the device-free specification `cliSpec` — in particular the client's view does not
    depend on the device's state at all, only on the calls and on which requests were seen as acknowledged. -/
theorem client_is_fold (d0 : Device) (flags : Nat) (ops : List Op) (hd : WFDev d0) :
    (after d0 flags ops).1 = ops.foldl cliSpec (Client.init d0 flags) :=
  run_client (init_inv d0 flags hd) ops

/-- the enable state the client reports IS the vector that was requested when the LAST acknowledged enable request was
    sent: for every prefix `ops1`, an acknowledged enable request, and every suffix `ops2` in which no enable request is
    acknowledged (setter calls, rejected / lost / half-lost writes, in any number and order), `ch_is_enabled` and the
    description copy still report the requested vector of that moment.  Likewise for the dividers. -/
theorem view_is_last_accepted_request (d0 : Device) (flags : Nat) (ops1 ops2 : List Op) (o : Outcome) (hd : WFDev d0)
    (ha : Info.ackSupported flags = true) (hn : d0.en.length ≠ 0) :
    ((∀ op ∈ ops2, NoAckEn op) →
      (after d0 flags (ops1 ++ .write o .ack :: ops2)).1.enNow = (after d0 flags ops1).1.enNew ∧
      (after d0 flags (ops1 ++ .write o .ack :: ops2)).1.copyEn = (after d0 flags ops1).1.enNew) ∧
    (Info.divSupported flags = true → (∀ op ∈ ops2, NoAckDiv op) →
      (after d0 flags (ops1 ++ .write .ack o :: ops2)).1.divNow = (after d0 flags ops1).1.divNew ∧
      (after d0 flags (ops1 ++ .write .ack o :: ops2)).1.copyDiv = (after d0 flags ops1).1.divNew) := by
  have hf := foldl_fixed (Client.init d0 flags) ops1
  have hn1 : (ops1.foldl cliSpec (Client.init d0 flags)).n ≠ 0 := by rw [hf.1]; exact hn
  have ha1 : (ops1.foldl cliSpec (Client.init d0 flags)).ackSupported = true := hf.2.2.trans ha
  refine ⟨fun h2 => ?_, fun hs h2 => ?_⟩
  · rw [client_is_fold d0 flags _ hd, client_is_fold d0 flags ops1 hd, List.foldl_append, List.foldl_cons]
    have h := foldl_noackEn (cliSpec (ops1.foldl cliSpec (Client.init d0 flags)) (.write o .ack)) ops2
      ((cliSpec_fixed _ _).2.2.trans ha1) h2
    have hk := cliSpec_ackEn (ops1.foldl cliSpec (Client.init d0 flags)) o hn1
    exact ⟨h.1.trans hk.1, h.2.trans hk.2⟩
  · rw [client_is_fold d0 flags _ hd, client_is_fold d0 flags ops1 hd, List.foldl_append, List.foldl_cons]
    have h := foldl_noackDiv (cliSpec (ops1.foldl cliSpec (Client.init d0 flags)) (.write .ack o)) ops2
      ((cliSpec_fixed _ _).2.2.trans ha1) h2
    have hk := cliSpec_ackDiv (ops1.foldl cliSpec (Client.init d0 flags)) o hn1 (hf.2.1.trans hs)
    exact ⟨h.1.trans hk.1, h.2.trans hk.2⟩

/-- … and if no enable (divider) request of the history was ever acknowledged, the client still reports the state the
    device had at connect time. -/
theorem view_is_initial_if_never_accepted (d0 : Device) (flags : Nat) (ops : List Op) (hd : WFDev d0)
    (ha : Info.ackSupported flags = true) :
    ((∀ op ∈ ops, NoAckEn op) → (after d0 flags ops).1.enNow = d0.en ∧ (after d0 flags ops).1.copyEn = d0.en) ∧
    ((∀ op ∈ ops, NoAckDiv op) → (after d0 flags ops).1.divNow = d0.div ∧ (after d0 flags ops).1.copyDiv = d0.div) := by
  rw [client_is_fold d0 flags ops hd]
  exact ⟨fun h => foldl_noackEn _ ops ha h, fun h => foldl_noackDiv _ ops ha h⟩

/-- a request the device rejects or never receives changes NOTHING at the device: over any suffix of calls whose
    requests are all rejected or lost (any number, any order, any setter calls between) the device keeps the state it
    had — together with `view_is_last_accepted_request`: neither side advances. -/
theorem unapplied_requests_leave_device (d0 : Device) (flags : Nat) (ops1 ops2 : List Op)
    (h2 : ∀ op ∈ ops2, NoApply op) :
    (after d0 flags (ops1 ++ ops2)).2.1 = (after d0 flags ops1).2.1 := by
  unfold after
  rw [Config.run_append]
  exact run_noapply _ _ ops2 h2

/-- the F13 repair as a theorem over histories: from a failed enable (divider) request until the next acknowledged one,
    EVERY enable (divider) request the client builds is the full requested vector — never the single-channel form, which
    would leave a half-applied earlier request in place. -/
theorem doubt_forces_full_vector (d0 : Device) (flags : Nat) (ops1 ops2 : List Op) (a b : Outcome) (hd : WFDev d0)
    (ha : Info.ackSupported flags = true) (hn : d0.en.length ≠ 0) :
    (b ≠ .ack → (∀ op ∈ ops2, NoAckEn op) →
      enRequest (after d0 flags (ops1 ++ .write a b :: ops2)).1 =
        .vec (after d0 flags (ops1 ++ .write a b :: ops2)).1.enNew) ∧
    (Info.divSupported flags = true → a ≠ .ack → (∀ op ∈ ops2, NoAckDiv op) →
      divRequest (after d0 flags (ops1 ++ .write a b :: ops2)).1 =
        .vec (after d0 flags (ops1 ++ .write a b :: ops2)).1.divNew) := by
  have hf := foldl_fixed (Client.init d0 flags) ops1
  have hn1 : (ops1.foldl cliSpec (Client.init d0 flags)).n ≠ 0 := by rw [hf.1]; exact hn
  have ha1 : (ops1.foldl cliSpec (Client.init d0 flags)).ackSupported = true := hf.2.2.trans ha
  refine ⟨fun hb h2 => enRequest_vec _ ?_, fun hs hb h2 => divRequest_vec _ ?_⟩
  · rintro ⟨-, hr⟩
    rw [client_is_fold d0 flags _ hd, List.foldl_append, List.foldl_cons,
      foldl_keepDoubtEn _ ops2 ((cliSpec_fixed _ _).2.2.trans ha1) h2 (cliSpec_failEn _ a b hn1 ha1 hb)] at hr
    nomatch hr
  · rintro ⟨-, hr⟩
    rw [client_is_fold d0 flags _ hd, List.foldl_append, List.foldl_cons,
      foldl_keepDoubtDiv _ ops2 ((cliSpec_fixed _ _).2.2.trans ha1) h2
        (cliSpec_failDiv _ a b hn1 ha1 (hf.2.1.trans hs) hb)] at hr
    nomatch hr

/-- `later_write_converges` against the independent fold: after ANY history of acknowledged, rejected, lost and half-lost
    requests, a write the device acknowledges leaves device = client = the pointwise fold of the SETTER calls over the
    state at connect time (the writes and their outcomes erased from the history). -/
theorem later_write_converges_to_setter_fold (d0 : Device) (flags : Nat) (ops : List Op) (hd : WFDev d0)
    (ha : Info.ackSupported flags = true) :
    let r := after d0 flags (ops ++ [.write .ack .ack])
    let req := reqOf ((ops.filter notWrite).foldl cliSpec (Client.init d0 flags))
    r.2.1.en = req.1 ∧ r.1.enNow = req.1 ∧ r.1.copyEn = req.1 ∧
    (Info.divSupported flags = true → r.2.1.div = req.2 ∧ r.1.divNow = req.2 ∧ r.1.copyDiv = req.2) := by
  intro r req
  have hw := later_write_converges d0 flags ops hd ha
  have hr : reqOf r.1 = req := by
    show reqOf (after d0 flags (ops ++ [.write .ack .ack])).1 = _
    rw [client_is_fold d0 flags _ hd]
    have hf : (ops ++ [Op.write .ack .ack]).filter notWrite = ops.filter notWrite := by
      rw [List.filter_append]; simp [notWrite]
    show _ = reqOf ((ops.filter notWrite).foldl cliSpec (Client.init d0 flags))
    rw [← hf]
    exact foldl_req_erase _ _ _ rfl
  have h1 : r.1.enNew = req.1 := congrArg Prod.fst hr
  have h2 : r.1.divNew = req.2 := congrArg Prod.snd hr
  refine ⟨hw.1.trans h1, hw.2.1.trans h1, hw.2.2.1.trans h1, fun hs => ?_⟩
  obtain ⟨e1, e2, e3⟩ := hw.2.2.2 hs
  exact ⟨e1.trans h2, e2.trans h2, e3.trans h2⟩

/-- `bounded` over histories: the time a whole history waits for the device is at most two ACK time-outs per write, for
    every history, every state and every behaviour of the device (setter calls wait for nothing). -/
theorem history_time_bounded (c : Client) (d : Device) (ops : List Op) :
    totalTime (Config.run c d ops).2.2 ≤ 20 * nWrites ops :=
  run_time c d ops

/-- non-vacuity of the round-7 additions: a history with an accepted enable request followed by rejected / lost / half-lost
    ones and setter calls — the view stays at the accepted vector, the device moved only where a request was applied -/
example :
    let ops1 : List Op := [.enable [0, 1], .divider [2] 7]
    let ops2 : List Op := [.disable [1], .write (.nack 3) .lost, .enableAll, .write .lost .appliedAckLost, .divider [0] 9]
    (∀ op ∈ ops2, NoAckEn op) ∧ (∀ op ∈ ops2, NoAckDiv op) ∧
    (after ⟨[false, false, false], [0, 0, 0]⟩ 3 (ops1 ++ .write .ack .ack :: ops2)).1.enNow = [true, true, false] ∧
    (after ⟨[false, false, false], [0, 0, 0]⟩ 3 (ops1 ++ .write .ack .ack :: ops2)).1.divNow = [0, 0, 7] ∧
    (after ⟨[false, false, false], [0, 0, 0]⟩ 3 (ops1 ++ .write .ack .ack :: ops2)).2.1.en = [true, true, true] ∧
    (after ⟨[false, false, false], [0, 0, 0]⟩ 3 (ops1 ++ .write .ack .ack :: ops2)).1.enResync = true := by
  refine ⟨?_, ?_, ?_⟩
  · intro op h
    simp only [List.mem_cons, List.not_mem_nil, or_false] at h
    rcases h with rfl | rfl | rfl | rfl | rfl <;> first | trivial | (intro h; cases h)
  · intro op h
    simp only [List.mem_cons, List.not_mem_nil, or_false] at h
    rcases h with rfl | rfl | rfl | rfl | rfl <;> first | trivial | (intro h; cases h)
  · decide +kernel

example : (∀ op ∈ ([.write (.nack 1) .lost, .enable [0], .write .lost (.nack (-5))] : List Op), NoApply op) ∧
    totalTime (after ⟨[false], [0]⟩ 3 [.write (.nack 1) .lost, .enable [0], .write .lost (.nack (-5))]).2.2 = 20 ∧
    nWrites [.write (.nack 1) .lost, .enable [0], .write .lost (.nack (-5))] = 2 := by
  refine ⟨?_, by decide +kernel, rfl⟩
  intro op h
  simp only [List.mem_cons, List.not_mem_nil, or_false] at h
  rcases h with rfl | rfl | rfl <;> first | trivial | exact ⟨rfl, rfl⟩

/-- why the theorems above assume ACK support: on a device that does NOT advertise it, every request counts as
    acknowledged at once, so after every write the client reports the requested state — whatever became of the requests
    (the `example` below: both requests lost, client and device differ).  ∀ history, outcomes. -/
theorem without_ack_support_view_advances_blindly (d0 : Device) (flags : Nat) (ops : List Op) (a b : Outcome)
    (hd : WFDev d0) (ha : Info.ackSupported flags = false) (hn : d0.en.length ≠ 0) :
    let r := after d0 flags (ops ++ [.write a b])
    r.1.enNow = r.1.enNew ∧ r.1.copyEn = r.1.enNew ∧ r.1.enResync = false ∧
    (Info.divSupported flags = true → r.1.divNow = r.1.divNew ∧ r.1.copyDiv = r.1.divNew ∧ r.1.divResync = false) := by
  intro r
  have hr : r.1 = cliSpec (ops.foldl cliSpec (Client.init d0 flags)) (.write a b) := by
    show (after d0 flags (ops ++ [.write a b])).1 = _
    rw [client_is_fold d0 flags _ hd, List.foldl_append]; rfl
  have hf := foldl_fixed (Client.init d0 flags) ops
  generalize ops.foldl cliSpec (Client.init d0 flags) = c at hr hf
  have hn1 : c.n ≠ 0 := by rw [hf.1]; exact hn
  have hs : ∀ o, seen c o = true := by
    intro o; unfold seen; rw [hf.2.2]
    show (!Info.ackSupported flags || _) = true
    rw [ha]; rfl
  have hd2 : (Client.init d0 flags).divSupported = Info.divSupported flags := rfl
  rw [hr, cliSpec_write, if_neg hn1, hs a, hs b, hf.2.1, hd2]
  cases hds : Info.divSupported flags with
  | false => exact ⟨rfl, rfl, rfl, fun x => nomatch x⟩
  | true => exact ⟨rfl, rfl, rfl, fun _ => ⟨rfl, rfl, rfl⟩⟩

example : Info.ackSupported 1 = false ∧
    (after ⟨[false, false], [0, 0]⟩ 1 [.enable [0], .write .lost .lost]).1.enNow = [true, false] ∧
    (after ⟨[false, false], [0, 0]⟩ 1 [.enable [0], .write .lost .lost]).2.1.en = [false, false] := by decide +kernel

/-! ### start / stop requests over histories -/

/-- the stream state asked for by the APPLIED start / stop requests of a history (the last one wins; rejected and lost
    requests do not count) -/
def appliedStream (init : Bool) (hist : List (CommCall × Ans)) : Bool :=
  hist.foldl (fun s c => if applies c.2.st then decide (c.1 = .streamStart) else s) init

/-- over ANY history of low-level `stream_start()` / `stream_stop()` calls — each acknowledged, rejected with any code,
    applied with the ACK lost, or lost; from any world — the device streams exactly as the applied requests say
    (rejected / lost ones never count), the channel state the client reports, the device's channel configuration and
    the reported description are untouched, and the whole history waits at most one ACK time-out per call. -/
theorem startStop_history (w : World) (hist : List (CommCall × Ans))
    (h : ∀ c ∈ hist, c.1 = .streamStart ∨ c.1 = .streamStop) :
    (commRun w hist).1.devStarted = appliedStream w.devStarted hist ∧
    (commRun w hist).1.cli = w.cli ∧ (commRun w hist).1.dev = w.dev ∧ (commRun w hist).1.reported = w.reported ∧
    (commRun w hist).1.time ≤ w.time + 10 * hist.length := by
  induction hist generalizing w with
  | nil => exact ⟨rfl, rfl, rfl, rfl, Nat.le_refl _⟩
  | cons c r ih =>
    obtain ⟨call, a⟩ := c
    have hr : ∀ c ∈ r, c.1 = .streamStart ∨ c.1 = .streamStop := fun x hx => h x (List.mem_cons_of_mem _ hx)
    have key : ∀ s : Bool, call = (if s then CommCall.streamStart else .streamStop) →
        (commStep w call a).1 = (commStartReq w s a.st).1 := by
      intro s hs; subst hs; cases s <;> rfl
    have hc : ∃ s : Bool, call = (if s then CommCall.streamStart else .streamStop) ∧
        decide (call = .streamStart) = s := by
      rcases h (call, a) (List.mem_cons_self ..) with e | e
      · exact ⟨true, e, by rw [show call = .streamStart from e]; rfl⟩
      · exact ⟨false, e, by rw [show call = .streamStop from e]; rfl⟩
    obtain ⟨s, hs, hdec⟩ := hc
    rw [commRun_cons]
    dsimp only
    rw [key s hs]
    obtain ⟨i1, i2, i3, i4, i5⟩ := ih (commStartReq w s a.st).1 hr
    have ht := (commStartReq_time w s a.st).2
    refine ⟨?_, i2, i3, i4, ?_⟩
    · rw [i1]
      show appliedStream (if applies a.st then s else w.devStarted) r = _
      unfold appliedStream
      rw [List.foldl_cons]
      dsimp only
      rw [hdec]
    · rw [List.length_cons]; omega

example :
    let w := afterC ⟨[true, false], [0, 0]⟩ false 3 (Desc.plain 2) [(.connect, {})]
    let hist : List (CommCall × Ans) :=
      [(.streamStart, {}), (.streamStop, ⟨.nack 7, .ack, .ack⟩), (.streamStop, ⟨.lost, .ack, .ack⟩),
       (.streamStop, ⟨.appliedAckLost, .ack, .ack⟩), (.streamStart, ⟨.nack (-1), .ack, .ack⟩)]
    appliedStream w.devStarted hist = false ∧ (commRun w hist).1.devStarted = false ∧
    (commRun w hist).1.time = w.time + 20 := by decide +kernel

end Nxs.C11
