/-
  C06 — source pins.  Every function of /repo that the hand-written model behind `Props/C06.lean` transcribes is,
  textually (AST-normalised), the function the model was last validated against by the correspondence check
  (`harness/translate_pins.py`, snapshots in `harness/pins/`).  A change to one of them makes its generated fact
  `false`: this theorem stops checking and the check goes looking for an input on which the real code now breaks
  the property.
-/
import NxsModel.Gen.PinsC06
namespace Nxs.C06

theorem source_pins : Gen.PinsC06.all = true := by decide

end Nxs.C06
