/-
  C07 — buffered channel configuration reaches the device exactly at write time.
  Property theorems only (helper lemmas in Lemmas/Config.lean).
  Histories are arbitrary lists of `Config.Op`; the device reacts to the bytes the client emits.
-/
import NxsModel.Config
import NxsModel.Lemmas.Config
namespace Nxs.C07
open Nxs Nxs.Config

/-- a device the client can be connected to: 1..255 channels, 8-bit dividers -/
def WFDev (d : Device) : Prop :=
  1 ≤ d.en.length ∧ d.en.length ≤ 255 ∧ d.div.length = d.en.length ∧ ∀ v ∈ d.div, 0 ≤ v ∧ v ≤ 255

/-- every write of the history is acknowledged (device applies and answers ACK 0) -/
def AllAck : List Op → Prop
  | [] => True
  | .write a b :: r => a = .ack ∧ b = .ack ∧ AllAck r
  | _ :: r => AllAck r

def isWrite : Op → Bool
  | .write _ _ => true
  | _ => false

/-- state after running a history from a fresh connect to `d0` -/
def after (d0 : Device) (flags : Nat) (ops : List Op) : Client × Device × List StepOut :=
  run (Client.init d0 flags) d0 ops

/-- bridge to the per-op form used by the helper lemmas -/
private theorem AllAck.ops {ops : List Op} (h : AllAck ops) : ∀ op ∈ ops, AckOp op := by
  induction ops with
  | nil => intro _ hm; nomatch hm
  | cons op r ih =>
    have hr : AllAck r := by cases op <;> first | exact h | exact h.2.2
    intro op' hm
    rcases List.mem_cons.mp hm with rfl | hm
    · cases op' <;> first | trivial | exact ⟨h.1, h.2.1⟩
    · exact ih hr op' hm

/-- no call other than a write sends anything or changes anything at the device -/
theorem setters_silent (c : Client) (d : Device) (op : Op) (h : isWrite op = false) :
    (step c d op).2.1 = d ∧ (step c d op).2.2.sent = [] :=
  step_silent c d op (fun a b e => by rw [e] at h; exact Bool.noConfusion h)

/-- once a write has returned, the device's enable (and, with divider support, divider) state
    equals the state requested so far and equals what the client reports (`ch_is_enabled`,
    `ch_div_get`, and its copy of the device description) -/
theorem write_syncs (d0 : Device) (flags : Nat) (ops : List Op) (hd : WFDev d0) (ha : AllAck ops) :
    let r := after d0 flags (ops ++ [.write .ack .ack])
    r.2.1.en = r.1.enNew ∧ r.1.enNow = r.1.enNew ∧ r.1.copyEn = r.1.enNew ∧
    (Info.divSupported flags = true →
      r.2.1.div = r.1.divNew ∧ r.1.divNow = r.1.divNew ∧ r.1.copyDiv = r.1.divNew) ∧
    (Info.divSupported flags = false → r.2.1.div = d0.div) :=
  c07_write_syncs d0 flags ops hd ha.ops

/-- at every point of an acknowledged history the client's report equals the device's state -/
theorem reported_matches_device (d0 : Device) (flags : Nat) (ops : List Op) (hd : WFDev d0) (ha : AllAck ops) :
    let r := after d0 flags ops
    r.1.enNow = r.2.1.en ∧ r.1.copyEn = r.2.1.en ∧
    (Info.divSupported flags = true → r.1.divNow = r.2.1.div ∧ r.1.copyDiv = r.2.1.div) :=
  c07_reported d0 flags ops hd ha.ops

/-- writing again without new requests changes nothing (device and client state) -/
theorem write_idempotent (d0 : Device) (flags : Nat) (ops : List Op) (hd : WFDev d0) (ha : AllAck ops) :
    let r1 := after d0 flags (ops ++ [.write .ack .ack])
    let r2 := after d0 flags (ops ++ [.write .ack .ack, .write .ack .ack])
    r2.2.1 = r1.2.1 ∧ r2.1 = r1.1 :=
  c07_idempotent d0 flags ops hd ha.ops

/-- on a device that does not advertise divider support no divider request is ever sent
    (frame id byte 7 never appears), whatever the history and the outcomes -/
theorem no_div_without_support (d0 : Device) (flags : Nat) (ops : List Op) (hd : WFDev d0)
    (hs : Info.divSupported flags = false) :
    ∀ o ∈ (after d0 flags ops).2.2, ∀ f ∈ o.sent, f.getD 3 0 ≠ 7 :=
  c07_no_div d0 flags ops hd hs

/-- non-vacuity: a concrete history -/
example : (after ⟨[false, true, false], [0, 0, 200]⟩ 3
    [.enable [0], .divider [1, 2] 5, .write .ack .ack]).2.1 = ⟨[true, true, false], [0, 5, 5]⟩ := by
  decide +kernel

end Nxs.C07
