/-
  C07 — buffered channel configuration reaches the device exactly at write time.
  Property theorems only (helper lemmas in Lemmas/Config.lean, Lemmas/ConfigExt.lean).
  Histories are arbitrary lists of `Config.Op`; the device reacts to the bytes the client emits.

  How the dimensions of the property's quantifier are covered:
  * histories, channel counts (0..255), initial device state, the four flag combinations: universally quantified in
    every theorem (`ops`, `d0` with `WFDev`, `flags` — any natural number; only the divider and ACK bits are read).
  * every rx padding: `padding_invisible`, `write_syncs_padded`, `padded_request_same` — the device stands behind its
    request dispatcher and receives every write aligned to an arbitrary padding (`Config.runP`, `Config.devReact`);
    composition of C17 `aligned_same` with the dispatcher, the callback table and the C05 decoders.
  * stream already running at connect time: the histories start from `Client.init d0 flags`.  `connect_gives_init`
    states that this is exactly what a connect produces from a fresh handler, whether or not the device was left
    streaming, with the device's channel configuration untouched and its stream stopped (the stop request connect sends
    first; C09 `connect_stops_stream` is the same fact at the level of C09's histories).  From there on the device does
    not stream unless the client starts it.  Stream frames that arrive *during* the exchange (stream started by the
    client) travel to a separate queue in the receive thread and are outside the model: that dimension is covered by
    K/O only (mode letters `s`, `r`, `u` of the `cfgx run` cases: `s` stream frames in the pipe at connect time and one
    emitted while the stop request is processed, `r` a stream frame between every set request and its ACK, `u` the stream
    started at CommHandler level and > 64 frames unread before the first call).
  * NOT in any theorem, K/O only (mode extras of the `cfgx run` cases, harness/c07lib.py): a connect on a handler object
    that has already been through a session (`/R…`: `connect_gives_init` speaks of a FRESH world; the check compares the
    second session with `Client.init` of the device state at the second connect), channel type bytes (`/T…`: the model's
    `Device` has no types — UNDEF / critical channels are configured like any other), reserved bits of the flags byte.
  * the public wrappers `NxscopeHandler.ch_enable(chans, writenow=False)` …: `Config.Call` / `runCalls` — a setter
    followed, if `writenow` and the setter did not raise, by a write (`calls_silent`, `writenow_syncs`,
    `write_syncs_calls`, `reported_matches_device_calls`); that the wrappers are those two statements with the default
    `False` is a source pin (`PinsC07`) and K (wrappers called without the argument).
  * channel ids are Python indices: −n..−1 count from the end, `True`/`False` are 1/0 (`Config.normId`, `IOp`);
    `ids_nonneg_unchanged`: for ids ≥ 0 nothing differs from `Config.Op`.
-/
import NxsModel.Gen.CfgShape
import NxsModel.Config
import NxsModel.ConfigExt
import NxsModel.Lifecycle
import NxsModel.Lemmas.Lifecycle
import NxsModel.Lemmas.Config
import NxsModel.Lemmas.ConfigExt
import NxsModel.Lemmas.R7Config
import NxsModel.Lemmas.R7ConfigCalls
namespace Nxs.C07
open Nxs Nxs.Config

/-- a device the client can be connected to: 0..255 channels, 8-bit dividers -/
def WFDev (d : Device) : Prop :=
  d.en.length ≤ 255 ∧ d.div.length = d.en.length ∧ ∀ v ∈ d.div, 0 ≤ v ∧ v ≤ 255

/-- every write of the history is acknowledged (device applies and answers ACK 0) -/
def AllAck : List Op → Prop
  | [] => True
  | .write a b :: r => a = .ack ∧ b = .ack ∧ AllAck r
  | _ :: r => AllAck r

def isWrite : Op → Bool
  | .write _ _ => true
  | _ => false

/-- state after running a history from a fresh connect to `d0` -/
def after (d0 : Device) (flags : Nat) (ops : List Op) : Client × Device × List StepOut :=
  run (Client.init d0 flags) d0 ops

/-- bridge to the per-op form used by the helper lemmas -/
private theorem AllAck.ops {ops : List Op} (h : AllAck ops) : ∀ op ∈ ops, AckOp op := by
  induction ops with
  | nil => intro _ hm; nomatch hm
  | cons op r ih =>
    have hr : AllAck r := by cases op <;> first | exact h | exact h.2.2
    intro op' hm
    rcases List.mem_cons.mp hm with rfl | hm
    · cases op' <;> first | trivial | exact ⟨h.1, h.2.1⟩
    · exact ih hr op' hm

/-- no call other than a write sends anything or changes anything at the device.
    NOTE: over `Config.step` this is immediate from the definition (every setter branch returns `d` and an empty
    `sent`): the theorem restates the model.  Its content for the real code lies in the tie — the source pins of the
    setters and of the `NxscopeHandler` wrappers (`Props/PinsC07.lean`: each of them is textually the function whose
    only effect is on the requested vector, with `writenow` defaulting to `False`) and the correspondence check, which
    calls every setter and every wrapper (without its `writenow` argument) and compares the bytes written and the
    reference device's state after each call. -/
theorem setters_silent (c : Client) (d : Device) (op : Op) (h : isWrite op = false) :
    (step c d op).2.1 = d ∧ (step c d op).2.2.sent = [] :=
  step_silent c d op (fun a b e => by rw [e] at h; exact Bool.noConfusion h)

/-- once a write has returned, the device's enable (and, with divider support, divider) state
    equals the state requested so far and equals what the client reports (`ch_is_enabled`,
    `ch_div_get`, and its copy of the device description).
    NOTE on "the state requested so far": here it is the model's own buffered vector `enNew` / `divNew` (the transcription
    of `DCommChannelsData.en_new` / `div_new`), i.e. the theorem says device = buffer = reported.  That the buffer is the
    fold of the setter calls over the initial device state follows from the definitions of `step` on the non-write ops
    (each is the documented one-line effect on the vector, see `setters_silent` and `Config.step`), but there is no
    separate Lean statement with an independently defined fold; the independent fold is the oracle's (`emulate_setter`
    in harness/props/C07.py), which judges the real code on every line of the check. -/
theorem write_syncs (d0 : Device) (flags : Nat) (ops : List Op) (hd : WFDev d0) (ha : AllAck ops) :
    let r := after d0 flags (ops ++ [.write .ack .ack])
    r.2.1.en = r.1.enNew ∧ r.1.enNow = r.1.enNew ∧ r.1.copyEn = r.1.enNew ∧
    (Info.divSupported flags = true →
      r.2.1.div = r.1.divNew ∧ r.1.divNow = r.1.divNew ∧ r.1.copyDiv = r.1.divNew) ∧
    (Info.divSupported flags = false → r.2.1.div = d0.div) :=
  c07_write_syncs d0 flags ops hd ha.ops

/-- at every point of an acknowledged history the client's report equals the device's state -/
theorem reported_matches_device (d0 : Device) (flags : Nat) (ops : List Op) (hd : WFDev d0) (ha : AllAck ops) :
    let r := after d0 flags ops
    r.1.enNow = r.2.1.en ∧ r.1.copyEn = r.2.1.en ∧
    (Info.divSupported flags = true → r.1.divNow = r.2.1.div ∧ r.1.copyDiv = r.2.1.div) :=
  c07_reported d0 flags ops hd ha.ops

/-- writing again without new requests changes nothing (device and client state) -/
theorem write_idempotent (d0 : Device) (flags : Nat) (ops : List Op) (hd : WFDev d0) (ha : AllAck ops) :
    let r1 := after d0 flags (ops ++ [.write .ack .ack])
    let r2 := after d0 flags (ops ++ [.write .ack .ack, .write .ack .ack])
    r2.2.1 = r1.2.1 ∧ r2.1 = r1.1 :=
  c07_idempotent d0 flags ops hd ha.ops

/-- on a device that does not advertise divider support no divider request is ever sent
    (frame id byte 7 never appears), whatever the history and the outcomes -/
theorem no_div_without_support (d0 : Device) (flags : Nat) (ops : List Op) (hd : WFDev d0)
    (hs : Info.divSupported flags = false) :
    ∀ o ∈ (after d0 flags ops).2.2, ∀ f ∈ o.sent, f.getD 3 0 ≠ 7 :=
  c07_no_div d0 flags ops hd hs

/-- the statements of comm.py that `Config.lean` transcribes are present in the current source (facts
    regenerated by the translator on every run): the write path (diff, single-or-vector choice, doubt
    flag, state advance only on a positive ACK, all under the channels lock), `channels_write` (divider
    request only with divider support, then enable), the setters (requested vector only), the reports
    (`ch_is_enabled`/`ch_div_get` read the acknowledged vector) and the initialisation from the device -/
theorem source_shape :
    Gen.CfgShape.enableWriteShape = true ∧ Gen.CfgShape.divWriteShape = true ∧
    Gen.CfgShape.channelsWriteShape = true ∧ Gen.CfgShape.enableSetterShape = true ∧
    Gen.CfgShape.disableSetterShape = true ∧ Gen.CfgShape.dividerSetterShape = true ∧
    Gen.CfgShape.reportShape = true ∧ Gen.CfgShape.channelsInitShape = true := by decide

/-- non-vacuity: a concrete history -/
example : (after ⟨[false, true, false], [0, 0, 200]⟩ 3
    [.enable [0], .divider [1, 2] 5, .write .ack .ack]).2.1 = ⟨[true, true, false], [0, 5, 5]⟩ := by
  decide +kernel

/-- non-vacuity of the zero-channel case: a device without channels is well formed … -/
example : WFDev ⟨[], []⟩ := by simp [WFDev]

/-- … and a history with writes on it ends in the empty state: the writes send nothing and do not fail -/
example : (after ⟨[], []⟩ 3 [.enableAll, .write .ack .ack, .defaultCfg, .write .ack .ack]).2.1 = ⟨[], []⟩ ∧
    ((after ⟨[], []⟩ 3 [.enableAll, .write .ack .ack, .defaultCfg, .write .ack .ack]).2.2.map
      fun o => (o.sent, o.err)) = [([], none), ([], none), ([], none), ([], none)] := by
  decide +kernel

/-! ## C07 additions: rx padding, stream running at connect time, wrappers with `writenow`, Python ids -/

/-- all writes of a call history (plain writes and the writes of `writenow` calls) are acknowledged -/
def AllAckCalls (ks : List Call) : Prop := ∀ k ∈ ks, AckCall k

/-- a plain call -/
def plain (op : Op) : Call := { op := .plain op }

/-- state after running a call history (Python ids, `writenow` wrappers) from a fresh connect to `d0`, every write
    aligned to the rx padding `pad` and received by the device through its request dispatcher -/
def afterCalls (pad : Nat) (d0 : Device) (flags : Nat) (ks : List Call) : Client × Device × List StepOut :=
  runCalls pad (Client.init d0 flags) d0 ks

/-- the device reacts to a padded request exactly as to the unpadded one: at every point of every history, for the
    enable and the divider request the client would build there, and every padding, the device behind the dispatcher
    (`devReact` on the aligned bytes) ends in the state `Config`'s device reaches from the frame (`devApplyEn/Div`).
    C17 `aligned_same` ∘ dispatcher on a wire frame ∘ callback table ∘ C05 decoders. -/
theorem padded_request_same (d0 : Device) (flags : Nat) (ops : List Op) (hd : WFDev d0) (pad : Nat) :
    let r := after d0 flags ops
    (∀ f, Requests.frameEnable (enRequest r.1) r.1.n = .ok f →
      devReact r.2.1 (Pad.dataAlign pad f) = devApplyEn r.2.1 f) ∧
    (∀ f, Requests.frameDiv (divRequest r.1) r.1.n = .ok f →
      devReact r.2.1 (Pad.dataAlign pad f) = devApplyDiv r.2.1 f) := by
  intro r
  have hI : Inv r.1 r.2.1 :=
    (run_induct Inv (fun _ => True) ops (fun _ _ op _ hP => ⟨step_inv hP op, trivial⟩) _ _
      (init_inv d0 flags hd)).1
  exact ⟨fun f hf => devReact_enRequest hI pad f hf _, fun f hf => devReact_divRequest hI pad f hf _⟩

/-- rx padding is invisible: for every padding and every history (whatever the outcomes of the requests) the padded
    machine — writes aligned, device behind its dispatcher — goes through exactly the client and device states of the
    unpadded one, and writes the same frames, each aligned -/
theorem padding_invisible (pad : Nat) (d0 : Device) (flags : Nat) (ops : List Op) (hd : WFDev d0) :
    runP pad (Client.init d0 flags) d0 ops =
      ((after d0 flags ops).1, (after d0 flags ops).2.1, (after d0 flags ops).2.2.map (padOut pad)) :=
  runP_eq (init_inv d0 flags hd) pad ops

/-- `write_syncs` for every rx padding -/
theorem write_syncs_padded (pad : Nat) (d0 : Device) (flags : Nat) (ops : List Op) (hd : WFDev d0) (ha : AllAck ops) :
    let r := runP pad (Client.init d0 flags) d0 (ops ++ [.write .ack .ack])
    r.2.1.en = r.1.enNew ∧ r.1.enNow = r.1.enNew ∧ r.1.copyEn = r.1.enNew ∧
    (Info.divSupported flags = true →
      r.2.1.div = r.1.divNew ∧ r.1.divNow = r.1.divNew ∧ r.1.copyDiv = r.1.divNew) ∧
    (Info.divSupported flags = false → r.2.1.div = d0.div) := by
  intro r
  have hr : r = _ := padding_invisible pad d0 flags (ops ++ [.write .ack .ack]) hd
  rw [hr]
  exact write_syncs d0 flags ops hd ha

/-- "stream already running at connect time": a connect on a fresh handler in front of device `d0` — idle or left
    streaming by a previous session — yields exactly the state the C07 histories start from: the client initialised
    from `d0`, the device's channel configuration untouched, its stream stopped.
    NOTE: this is DEFINITIONAL (`⟨rfl, rfl, rfl⟩`): it unfolds the model's `connect` step (`Lifecycle.run`), whose tie to
    the code is the source pins + K, and it covers a FRESH handler only (`World.fresh`).  It says nothing about a connect
    after an earlier session on the same handler object, nor about stream frames present in the pipe at connect time:
    both are covered by K/O only (`/R…` reconnect lines — second session compared with `Client.init` of the device state
    at that moment — and mode `s` of the `cfgx run` cases). -/
theorem connect_gives_init (d0 : Device) (started : Bool) (flags : Nat) :
    let w := (Lifecycle.run (Lifecycle.World.fresh d0 started flags) [.connect]).1
    w.cli = some (Client.init d0 flags) ∧ w.dev = d0 ∧ w.devStarted = false :=
  Lifecycle.c07_connect_gives_init d0 started flags

/-- ids ≥ 0 mean in a call what they mean in `Config.Op` (so everything above is the special case of the call
    theorems below with non-negative ids, no `writenow`, padding 0) -/
theorem ids_nonneg_unchanged (c : Client) :
    (∀ cs, (IOp.enable (cs.map Int.ofNat)).toOp c = .enable cs) ∧
    (∀ cs, (IOp.disable (cs.map Int.ofNat)).toOp c = .disable cs) ∧
    (∀ cs v, (IOp.divider (cs.map Int.ofNat) v).toOp c = .divider cs v) ∧
    (∀ op, (IOp.plain op).toOp c = op) := toOp_nonneg c

/-- Python indices: `-k` (1 ≤ k ≤ len) is position `len - k`; below `-len` nothing is in range -/
theorem negative_id (len k : Nat) (h1 : 1 ≤ k) :
    (k ≤ len → normId len (-(k : Int)) = len - k) ∧ (len < k → ¬ normId len (-(k : Int)) < len) :=
  ⟨normId_neg len k h1, normId_out len k⟩

/-- a call without `writenow` that is not a write — whatever ids it names, valid or not — and a `writenow` call whose
    setter raises: nothing is written, the device is untouched (any state, any padding) -/
theorem calls_silent (pad : Nat) (c : Client) (d : Device) (k : Call)
    (hw : ∀ a b, k.op ≠ .plain (.write a b))
    (hn : k.now = none ∨ (step c d (k.op.toOp c)).2.2.err ≠ none) :
    (stepCall pad c d k).2.1 = d ∧ (stepCall pad c d k).2.2.sent = [] := by
  have hop : ∀ a b, k.op.toOp c ≠ .write a b := by
    intro a b h
    cases hk : k.op with
    | plain op => rw [hk] at h; exact hw a b (by rw [hk]; exact congrArg IOp.plain h)
    | enable cs => rw [hk] at h; nomatch h
    | disable cs => rw [hk] at h; nomatch h
    | divider cs v => rw [hk] at h; nomatch h
  have hs := stepP_setter pad c d _ hop
  have hsil := setters_silent c d (k.op.toOp c) (by
    cases h : k.op.toOp c with
    | write a b => exact absurd h (hop a b)
    | _ => rfl)
  rcases hn with hn | hn
  · rw [stepCall_plain pad c d k hn, hs]; exact hsil
  · cases he : (step c d (k.op.toOp c)).2.2.err with
    | none => exact absurd he hn
    | some e => rw [stepCall_raise pad c d k e (by rw [hs]; exact he), hs]; exact hsil

/-- at every point of an acknowledged call history (Python ids — negative ones included —, `writenow` calls, any
    padding) the client's report equals the device's state -/
theorem reported_matches_device_calls (pad : Nat) (d0 : Device) (flags : Nat) (ks : List Call) (hd : WFDev d0)
    (ha : AllAckCalls ks) :
    let r := afterCalls pad d0 flags ks
    r.1.enNow = r.2.1.en ∧ r.1.copyEn = r.2.1.en ∧
    (Info.divSupported flags = true → r.1.divNow = r.2.1.div ∧ r.1.copyDiv = r.2.1.div) := by
  intro r
  have hS := runCalls_ackState (init_ackState d0 flags hd) pad ks ha
  have h1 := hS.dEn hS.sEn
  have h2 := hS.dDiv hS.sDiv
  exact ⟨h1.symm, hS.inv.cpEn.trans h1.symm, fun _ => ⟨h2.symm, hS.inv.cpDiv.trans h2.symm⟩⟩

/-- `write_syncs` for call histories: once a write has returned, device = requested = reported -/
theorem write_syncs_calls (pad : Nat) (d0 : Device) (flags : Nat) (ks : List Call) (hd : WFDev d0)
    (ha : AllAckCalls ks) :
    let r := afterCalls pad d0 flags (ks ++ [plain (.write .ack .ack)])
    r.2.1.en = r.1.enNew ∧ r.1.enNow = r.1.enNew ∧ r.1.copyEn = r.1.enNew ∧
    (Info.divSupported flags = true →
      r.2.1.div = r.1.divNew ∧ r.1.divNow = r.1.divNew ∧ r.1.copyDiv = r.1.divNew) ∧
    (Info.divSupported flags = false → r.2.1.div = d0.div) := by
  intro r
  have hS := runCalls_ackState (init_ackState d0 flags hd) pad ks ha
  obtain ⟨s1, s2⟩ := runCalls_snoc pad (Client.init d0 flags) d0 ks (plain (.write .ack .ack))
  have hw := writeP_ack_result hS pad
  have hc : ∀ c d, stepCall pad c d (plain (.write .ack .ack)) = stepP pad c d (.write .ack .ack) :=
    fun c d => stepCall_plain pad c d _ rfl
  rw [hc] at s1 s2
  show (runCalls _ _ _ _).2.1.en = (runCalls _ _ _ _).1.enNew ∧ (runCalls _ _ _ _).1.enNow = (runCalls _ _ _ _).1.enNew ∧
    (runCalls _ _ _ _).1.copyEn = (runCalls _ _ _ _).1.enNew ∧
    (_ → (runCalls _ _ _ _).2.1.div = (runCalls _ _ _ _).1.divNew ∧ (runCalls _ _ _ _).1.divNow = (runCalls _ _ _ _).1.divNew ∧
      (runCalls _ _ _ _).1.copyDiv = (runCalls _ _ _ _).1.divNew) ∧ (_ → (runCalls _ _ _ _).2.1.div = d0.div)
  rw [s1, s2]
  exact ⟨hw.1, hw.2.1, hw.2.2.1, hw.2.2.2.1, hw.2.2.2.2.1⟩

/-- a wrapper called with `writenow=True` (acknowledged) whose setter does not raise IS a write: when it has
    returned, device = requested = reported, and it did not raise -/
theorem writenow_syncs (pad : Nat) (d0 : Device) (flags : Nat) (ks : List Call) (op : IOp) (hd : WFDev d0)
    (ha : AllAckCalls ks) (hw : ∀ a b, op ≠ .plain (.write a b))
    (hok : let s := afterCalls pad d0 flags ks; (step s.1 s.2.1 (op.toOp s.1)).2.2.err = none) :
    let r := afterCalls pad d0 flags (ks ++ [{ op := op, now := some (.ack, .ack) }])
    r.2.1.en = r.1.enNew ∧ r.1.enNow = r.1.enNew ∧ r.1.copyEn = r.1.enNew ∧
    (Info.divSupported flags = true →
      r.2.1.div = r.1.divNew ∧ r.1.divNow = r.1.divNew ∧ r.1.copyDiv = r.1.divNew) ∧
    (Info.divSupported flags = false → r.2.1.div = d0.div) := by
  intro r
  have hS := runCalls_ackState (init_ackState d0 flags hd) pad ks ha
  obtain ⟨s1, s2⟩ := runCalls_snoc pad (Client.init d0 flags) d0 ks { op := op, now := some (.ack, .ack) }
  have hres := writenow_result hS pad op hw hok
  show (runCalls _ _ _ _).2.1.en = (runCalls _ _ _ _).1.enNew ∧ (runCalls _ _ _ _).1.enNow = (runCalls _ _ _ _).1.enNew ∧
    (runCalls _ _ _ _).1.copyEn = (runCalls _ _ _ _).1.enNew ∧
    (_ → (runCalls _ _ _ _).2.1.div = (runCalls _ _ _ _).1.divNew ∧ (runCalls _ _ _ _).1.divNow = (runCalls _ _ _ _).1.divNew ∧
      (runCalls _ _ _ _).1.copyDiv = (runCalls _ _ _ _).1.divNew) ∧ (_ → (runCalls _ _ _ _).2.1.div = d0.div)
  rw [s1, s2]
  exact ⟨hres.1, hres.2.1, hres.2.2.1, hres.2.2.2.1, hres.2.2.2.2.1⟩

/-- writing again without new requests changes nothing — for call histories, every padding -/
theorem write_idempotent_calls (pad : Nat) (d0 : Device) (flags : Nat) (ks : List Call) (hd : WFDev d0)
    (ha : AllAckCalls ks) :
    let r1 := afterCalls pad d0 flags (ks ++ [plain (.write .ack .ack)])
    let r2 := afterCalls pad d0 flags ((ks ++ [plain (.write .ack .ack)]) ++ [plain (.write .ack .ack)])
    r2.2.1 = r1.2.1 ∧ r2.1 = r1.1 := by
  intro r1 r2
  have hS := runCalls_ackState (init_ackState d0 flags hd) pad ks ha
  obtain ⟨a1, a2⟩ := runCalls_snoc pad (Client.init d0 flags) d0 ks (plain (.write .ack .ack))
  obtain ⟨b1, b2⟩ := runCalls_snoc pad (Client.init d0 flags) d0 (ks ++ [plain (.write .ack .ack)])
    (plain (.write .ack .ack))
  have hi := writeP_idem hS pad
  show (runCalls _ _ _ _).2.1 = (runCalls _ _ _ _).2.1 ∧ (runCalls _ _ _ _).1 = (runCalls _ _ _ _).1
  rw [b1, b2, a1, a2]
  exact hi

/-- on a device that does not advertise divider support no divider request is ever written — call histories, every
    padding, whatever the outcomes -/
theorem no_div_without_support_calls (pad : Nat) (d0 : Device) (flags : Nat) (ks : List Call) (hd : WFDev d0)
    (hs : Info.divSupported flags = false) :
    ∀ o ∈ (afterCalls pad d0 flags ks).2.2, ∀ f ∈ o.sent, f.getD 3 0 ≠ 7 := by
  intro o ho f hf
  rw [runCalls_sent (init_inv d0 flags hd) pad ks hs o ho f hf]
  decide

/-- non-vacuity of the additions: padding 16, a device left streaming is irrelevant to the start state, a negative id
    and `True` as ids, a `writenow` call, a raising `writenow` call that writes nothing -/
example : (afterCalls 16 ⟨[false, true, false], [0, 0, 200]⟩ 3
    [{ op := .enable [-1] }, { op := .divider [1, -3] 5, now := some (.ack, .ack) }, { op := .enable [3], now := some (.ack, .ack) }]).2.1
      = ⟨[false, true, true], [5, 5, 200]⟩ := by
  decide +kernel

example : ((afterCalls 16 ⟨[false, true, false], [0, 0, 200]⟩ 3
    [{ op := .enable [-1] }, { op := .divider [1, -3] 5, now := some (.ack, .ack) }, { op := .enable [3], now := some (.ack, .ack) }]).2.2.map
      fun o => (o.sent.map List.length, o.err)) = [([], none), ([16, 16], none), ([], some .indexError)] := by
  decide +kernel

example : AllAckCalls [{ op := .enable [-1] }, { op := .divider [1, -3] 5, now := some (.ack, .ack) }, plain (.write .ack .ack)] := by
  intro k hk
  simp only [List.mem_cons, List.not_mem_nil, or_false] at hk
  rcases hk with rfl | rfl | rfl <;> refine ⟨?_, ?_⟩ <;> intro a b h <;> cases h <;> exact ⟨rfl, rfl⟩

example : WFDev ⟨[false, true, false], [0, 0, 200]⟩ := by simp [WFDev]

/-! ## Round 7 additions: an independent fold of the setter calls, all-channel calls, the frames of a write

  `Config.cliSpec` (Lemmas/R7Config.lean) is a specification of the client side written without `setMany`, without the
  device, the bytes and the frames: a setter assigns POINTWISE (`Config.assign`: position `i` gets the value iff `i` occurs
  in the id list before the first out-of-range id), a write moves requested → acknowledged per request iff the request is
  seen as acknowledged.  The theorems below tie the model to it for every history. -/

/-- pointwise meaning of `ch_enable(chans)` / `ch_divider(chans, v)` on any state: channel `i` of the requested vector gets
    the value iff `i` is named before the first out-of-range id (where Python raises `IndexError`, earlier assignments
    kept); every other channel keeps its requested value; the call raises iff some id is out of range.
    ∀ client state, id list, channel. -/
theorem setter_pointwise (c : Client) (d : Device) (cs : List Nat) (v : Int) (i : Nat) (hv : 0 ≤ v ∧ v ≤ 255) :
    ((step c d (.enable cs)).1.enNew[i]? =
      if i ∈ cs.takeWhile (fun k => decide (k < c.enNew.length)) then c.enNew[i]?.map (fun _ => true) else c.enNew[i]?) ∧
    ((step c d (.enable cs)).2.2.err = if ∀ k ∈ cs, k < c.enNew.length then none else some .indexError) ∧
    ((step c d (.divider cs v)).1.divNew[i]? =
      if i ∈ cs.takeWhile (fun k => decide (k < c.divNew.length)) then c.divNew[i]?.map (fun _ => v) else c.divNew[i]?) ∧
    ((step c d (.divider cs v)).2.2.err = if ∀ k ∈ cs, k < c.divNew.length then none else some .indexError) := by
  have hv' : ¬ (v < 0 ∨ v > 255) := by omega
  refine ⟨?_, ?_, ?_, ?_⟩
  · show (setMany c.enNew cs true).1[i]? = _
    rw [setMany_fst, assign_getElem?]
  · show (setMany c.enNew cs true).2 = _
    exact setMany_snd _ _ _
  · rw [step_divider, if_neg hv']
    show (setMany c.divNew cs v).1[i]? = _
    rw [setMany_fst, assign_getElem?]
  · rw [step_divider, if_neg hv']
    show (setMany c.divNew cs v).2 = _
    exact setMany_snd _ _ _

/-- REFINEMENT to the independent fold: after ANY history (any outcomes of the requests, any flags, any `WFDev` device)
    the client state of the model is the fold of `cliSpec` over the calls. -/
theorem client_is_fold (d0 : Device) (flags : Nat) (ops : List Op) (hd : WFDev d0) :
    (after d0 flags ops).1 = ops.foldl cliSpec (Client.init d0 flags) :=
  run_client (init_inv d0 flags hd) ops

/-- "the state requested so far" is a function of the SETTER calls alone: the requested vectors after any history are
    those of the history with every write erased — whatever the device answered, whatever the flags. -/
theorem requested_ignores_writes (d0 : Device) (flags flags' : Nat) (ops : List Op) (hd : WFDev d0) :
    reqOf (after d0 flags ops).1 = reqOf ((ops.filter notWrite).foldl cliSpec (Client.init d0 flags')) := by
  rw [client_is_fold d0 flags ops hd]
  exact foldl_req_erase _ _ ops rfl

/-- `write_syncs` against the independent fold (closes the NOTE of `write_syncs`): once a write has returned in an
    acknowledged history, the device's enable state (and, with divider support, divider state) is the pointwise fold of
    the setter calls over the initial device state. -/
theorem device_gets_setter_fold (d0 : Device) (flags : Nat) (ops : List Op) (hd : WFDev d0) (ha : AllAck ops) :
    let r := after d0 flags (ops ++ [.write .ack .ack])
    let req := reqOf ((ops.filter notWrite).foldl cliSpec (Client.init d0 flags))
    r.2.1.en = req.1 ∧ r.1.enNow = req.1 ∧ r.1.copyEn = req.1 ∧
    (Info.divSupported flags = true → r.2.1.div = req.2 ∧ r.1.divNow = req.2 ∧ r.1.copyDiv = req.2) := by
  intro r req
  have hw := write_syncs d0 flags ops hd ha
  have hr := requested_ignores_writes d0 flags flags (ops ++ [.write .ack .ack]) hd
  have hf : (ops ++ [Op.write .ack .ack]).filter notWrite = ops.filter notWrite := by
    rw [List.filter_append]; simp [notWrite]
  rw [hf] at hr
  have h1 : r.1.enNew = req.1 := congrArg Prod.fst hr
  have h2 : r.1.divNew = req.2 := congrArg Prod.snd hr
  refine ⟨hw.1.trans h1, hw.2.1.trans h1, hw.2.2.1.trans h1, fun hs => ?_⟩
  obtain ⟨e1, e2, e3⟩ := hw.2.2.2.1 hs
  exact ⟨e1.trans h2, e2.trans h2, e3.trans h2⟩

/-- the all-channel calls are the per-channel calls on every channel: `ch_enable_all()` = `ch_enable(range(n))`,
    `ch_disable_all()` = `ch_disable(range(n))` (neither raises), and `channels_default_cfg()` = `ch_disable_all()` followed
    by `ch_divider(range(n), 0)`; on any state. -/
theorem all_is_each (c : Client) (d : Device) :
    ((step c d .enableAll).1 = (step c d (.enable (List.range c.enNew.length))).1 ∧
      (step c d (.enable (List.range c.enNew.length))).2.2.err = none) ∧
    ((step c d .disableAll).1 = (step c d (.disable (List.range c.enNew.length))).1 ∧
      (step c d (.disable (List.range c.enNew.length))).2.2.err = none) ∧
    ((step c d .defaultCfg).1 =
        (step (step c d .disableAll).1 d (.divider (List.range c.divNew.length) 0)).1 ∧
      (step (step c d .disableAll).1 d (.divider (List.range c.divNew.length) 0)).2.2.err = none) := by
  have hr : ∀ n : Nat, ∀ k ∈ List.range n, k < n := fun n k hk => List.mem_range.mp hk
  refine ⟨⟨?_, ?_⟩, ⟨?_, ?_⟩, ⟨?_, ?_⟩⟩
  · show { c with enNew := List.replicate c.enNew.length true } =
      { c with enNew := (setMany c.enNew (List.range c.enNew.length) true).1 }
    rw [setMany_fst, assign_range, List.map_const']
  · show (setMany c.enNew (List.range c.enNew.length) true).2 = none
    rw [setMany_snd, if_pos (hr _)]
  · show { c with enNew := List.replicate c.enNew.length false } =
      { c with enNew := (setMany c.enNew (List.range c.enNew.length) false).1 }
    rw [setMany_fst, assign_range, List.map_const']
  · show (setMany c.enNew (List.range c.enNew.length) false).2 = none
    rw [setMany_snd, if_pos (hr _)]
  · rw [step_divider, if_neg (by omega)]
    show { c with enNew := List.replicate c.enNew.length false, divNew := List.replicate c.divNew.length 0 } =
      { c with enNew := List.replicate c.enNew.length false,
               divNew := (setMany c.divNew (List.range c.divNew.length) 0).1 }
    rw [setMany_fst, assign_range, List.map_const']
  · rw [step_divider, if_neg (by omega)]
    show (setMany c.divNew (List.range c.divNew.length) 0).2 = none
    rw [setMany_snd, if_pos (hr _)]

/-- the frames of a write, at every point of every history and whatever the device does with them: none on a device
    without channels; otherwise exactly one enable request (id 6), preceded by exactly one divider request (id 7) iff the
    device advertises divider support. -/
theorem write_frames_exact (d0 : Device) (flags : Nat) (ops : List Op) (a b : Outcome) (hd : WFDev d0) :
    let r := after d0 flags ops
    (step r.1 r.2.1 (.write a b)).2.2.sent.map (fun f => f.getD 3 0) =
      if d0.en.length = 0 then [] else if Info.divSupported flags then [7, 6] else [6] := by
  intro r
  have hI : Inv r.1 r.2.1 :=
    (run_induct Inv (fun _ => True) ops (fun _ _ op _ hP => ⟨step_inv hP op, trivial⟩) _ _
      (init_inv d0 flags hd)).1
  have hc : r.1 = ops.foldl cliSpec (Client.init d0 flags) := client_is_fold d0 flags ops hd
  have hf := foldl_fixed (Client.init d0 flags) ops
  have h1 : r.1.n = d0.en.length := by rw [hc]; exact hf.1
  have h2 : r.1.divSupported = Info.divSupported flags := by rw [hc]; exact hf.2.1
  have h := channelsWrite_ids hI a b
  rw [h1, h2] at h
  exact h

/-- a redundant write is NOT silent on the wire: after an acknowledged write the next write re-sends the full requested
    vectors (no channel differs, so the single-channel form is not chosen); `write_idempotent` says the device and the
    client do not change.  (So "the frames of a write are exactly the changed channels" is false of the model and of
    comm.py — `j == 1` is the only case with a single-channel request — and is not claimed by the property.) -/
theorem redundant_write_sends_full_vectors (d0 : Device) (flags : Nat) (ops : List Op) (hd : WFDev d0)
    (ha : AllAck ops) :
    let r := after d0 flags (ops ++ [.write .ack .ack])
    enRequest r.1 = .vec r.1.enNew ∧ (Info.divSupported flags = true → divRequest r.1 = .vec r.1.divNew) := by
  intro r
  have hw := write_syncs d0 flags ops hd ha
  refine ⟨enRequest_vec r.1 ?_, fun hs => divRequest_vec r.1 ?_⟩
  · rintro ⟨⟨k, hk⟩, -⟩
    rw [hw.2.1, diffIdx_self] at hk
    nomatch hk
  · rintro ⟨⟨k, hk⟩, -⟩
    rw [(hw.2.2.2.1 hs).2.1, diffIdx_self] at hk
    nomatch hk

/-- non-vacuity of the round-7 additions: the fold on a history with an out-of-range id (the ids before it are kept), a
    write in the middle, an all-channel call; the frames of a write with / without divider support -/
example : reqOf (([.enable [2, 7, 0], .write .ack .ack, .divider [1] 9, .disableAll, .enable [1]] : List Op).foldl cliSpec
    (Client.init ⟨[false, false, false], [0, 0, 200]⟩ 3)) = ([false, true, false], [0, 9, 200]) := by decide +kernel

example : (after ⟨[false, false, false], [0, 0, 200]⟩ 3
    [.enable [2, 7, 0], .write .ack .ack, .divider [1] 9, .disableAll, .enable [1], .write .ack .ack]).2.1
      = ⟨[false, true, false], [0, 9, 200]⟩ := by decide +kernel

example : ((step (Client.init ⟨[false, true], [0, 0]⟩ 3) ⟨[false, true], [0, 0]⟩ (.write .lost (.nack 2))).2.2.sent.map
    (fun f => f.getD 3 0)) = [7, 6] ∧
    ((step (Client.init ⟨[false, true], [0, 0]⟩ 2) ⟨[false, true], [0, 0]⟩ (.write .lost (.nack 2))).2.2.sent.map
    (fun f => f.getD 3 0)) = [6] := by decide +kernel

/-- REFINEMENT for the public calls: for every rx padding, after ANY call history (Python ids — negative ones included —,
    `writenow` wrappers, any outcomes of the requests) the client state is the fold of `callSpec`: the setter with its
    ids normalised, then — `writenow=True` and no id out of range / divider out of 0..255 — a write. -/
theorem calls_client_is_fold (pad : Nat) (d0 : Device) (flags : Nat) (ks : List Call) (hd : WFDev d0) :
    (afterCalls pad d0 flags ks).1 = ks.foldl callSpec (Client.init d0 flags) :=
  runCalls_client (init_inv d0 flags hd) pad ks

/-- `padding_invisible` for the public calls: two rx paddings lead every call history (any outcomes) through the same
    client and device states. -/
theorem calls_padding_invisible (pad pad' : Nat) (d0 : Device) (flags : Nat) (ks : List Call) (hd : WFDev d0) :
    (afterCalls pad d0 flags ks).1 = (afterCalls pad' d0 flags ks).1 ∧
    (afterCalls pad d0 flags ks).2.1 = (afterCalls pad' d0 flags ks).2.1 :=
  runCalls_pad (init_inv d0 flags hd) pad pad' ks

example : (([{ op := .enable [-1] }, { op := .divider [1, -3] 5, now := some (.ack, .ack) },
      { op := .enable [3], now := some (.ack, .ack) }] : List Call).foldl callSpec
    (Client.init ⟨[false, true, false], [0, 0, 200]⟩ 3)).enNow = [false, true, true] := by decide +kernel

end Nxs.C07
