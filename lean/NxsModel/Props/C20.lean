/-
  C20 — custom frame codecs plug in without changing client or device-side behaviour.
  Property theorems only (helper lemmas in Lemmas/Family.lean, Lemmas/Reasm*.lean, Lemmas/SerialLawful.lean).

  `LawfulCodec c` (Codec.lean) is what "honours the frame interface" means.  The client receive path
  (`Reasm.run c`, model of `_read_hdr/_read_frame/_recv_thread`) and the device-side dispatcher
  (`Dispatch.recvHandleWith c`, model of `recv_handle`) are written against the fields of `c` only,
  and every guarantee below is proved for EVERY lawful codec; the built-in serial codec and every
  valid member of the parameterised family (`Family.codec p`: any start byte, header of 3..8 bytes
  with the length (1..4 bytes, LE/BE), id and filler fields in any order behind the start byte, footer
  of 1..4 bytes: XOR / additive sum / CRC-32) are proved lawful, so the C03 / C02-dispatch / C17
  guarantees hold for them as one-line corollaries.

  "A complete client session" (requests, device description, stream delivery) under a custom codec:
  section "the complete client session" below.  The request / response builders are modelled against
  the codec object only (`Generic.lean`: payload from the message codecs of C05 / C06 / C15, framing
  from `c.frameCreate`; at `Serial.codec` they ARE the models used by C05 / C06 / C15 and `Props/E2E.lean`),
  and the three end-to-end guarantees of `Props/E2E.lean` §1–3 are proved for EVERY lawful codec:
    (i)   every client request, framed by the codec, written with any padding, fires the matching
          device-side callback with exactly the NxScope payload, which the device-side decoder
          understands as what the caller asked (`request_*_generic`);
    (ii)  every device response (common info, channel info, ACK) framed by the codec, received under
          any chunking and between any other valid frames, is delivered once and decodes on the client
          to the device's configuration (`*_response_generic`, `description_roundtrip_*_generic`);
    (iii) stream frames framed by the codec, any chunking → exactly the samples (`stream_pipeline_generic`).
  Not restated generically: the machine-level forms of E2E §3 (`device_describes_*`), because the simulated
  device of nxslib (`DummyDev`) constructs `ParseRecv(cb)` with the built-in codec — no codec can be
  plugged in there; and the Config / Handshake state machines (C07 / C09 / C11), whose transitions are
  functions of the DECODED frames delivered by (ii) — their correspondence under custom codecs is
  established by differential sessions in the check, not by a theorem.

  What the model abstracts from, and how it is tied (review pass 2, R4-E-M1): in `Codec` a frame id is a `Nat`, a
  payload a `List UInt8`, `footValidate : Bool`, a rejection an `Err`.  A Python codec class is free in the concrete
  TYPES it uses for these as long as the values are the same: the id of `DParseHdr` / `DParseFrame` only has to EQUAL
  the `EParseId` number (nxslib compares ids with `==` / `!=` only — rule R6 of the static scan behind
  `frame_uses_generic`; a codec may report the plain int read off the wire, or a member of its own IntEnum), payloads
  and created frames may be `bytes` or `bytearray`.  The check realises the family members in Python with each of
  these choices (harness/famcodec.py, `impl=` letters i n a m b) and compares reassembly, ROUTING of the reassembled
  frames to the control / stream queue (`Route.queues`, lines `fam <P> reasm route`), dispatch, builders and whole
  sessions for all of them.  Two results are NOT free, because nxslib itself tests them by identity: `foot_validate`
  must return a real `bool` (`recv_handle`: `foot_validate(...) is False`; an `int(ok)` result lets a corrupted request
  through on the device side while the same codec's `frame_decode` rejects it on the client side — existing behaviour
  of the code, outside the property: the interface says `-> bool`) and `err` must be the `EParseError` member
  (`hdr.err is not EParseError.NOERR`, pinned by rule R5).
-/
import NxsModel.Gen.FrameUse
import NxsModel.Lemmas.Family
import NxsModel.Lemmas.Generic
import NxsModel.Props.C03
namespace Nxs.C20
open Nxs
open Nxs.Serial (Hdr Frame)
open Nxs.Dispatch (Disp recvHandle recvHandleWith cbHandle)
open Nxs.Pad (ClientReq)
open Nxs.Generic (ValidFrames wireOfFrames)
open Nxs.Spec Nxs.Spec.StreamWire
open Nxs.Stream (Sample Chan UserType)

/-! ### who honours the interface -/

/-- the built-in serial codec honours the frame interface -/
theorem serial_lawful : LawfulCodec Serial.codec := Serial.codec_lawful

/-- every well-formed member of the parameterised family honours the frame interface — the whole
    family: every start byte, every header layout, every footer kind (XOR, sum of 1..4 bytes LE/BE,
    CRC-32 LE/BE) -/
theorem family_lawful (p : Family.Params) (hp : p.valid) : LawfulCodec (Family.codec p) :=
  Family.codec_lawful p hp

/-- `frame_create` of a family member refuses what does not fit its length field -/
theorem family_create_refuses (p : Family.Params) (fid : Nat) (pl : Bytes) (hfid : fid ≤ 255)
    (h : Family.fits p.fields (Family.hdrLen p + pl.length + p.foot.len) = false) :
    (Family.codec p).frameCreate fid (some pl) = .error .structError :=
  Family.create_refuses p fid pl hfid h

/-! ### device-side dispatch, for every lawful codec -/

/-- the dispatcher model used by C02 / C17 is the codec-generic one at the serial codec -/
theorem serial_dispatch_is_generic : recvHandle = recvHandleWith Serial.codec :=
  Dispatch.recvHandle_eq_with

/-- C02 `dispatch_eq_decode`, generalised: with any lawful codec the dispatcher validates exactly like
    that codec's `frame_decode` on the bytes from the first start byte on, and dispatches on the
    decoded (id, payload) through the same callback table -/
theorem dispatch_eq_decode (c : Codec) (hc : LawfulCodec c) (d : Bytes) :
    recvHandleWith c d =
      match c.hdrFind d with
      | none => .ignored
      | some i =>
        match c.frameDecode (d.drop i) with
        | .ok fr => cbHandle fr.fid fr.data
        | .error _ => .ignored :=
  Dispatch.recvHandleWith_eq hc d

/-- a request built by `frame_create` of the codec is dispatched on exactly (id, payload), whatever
    start-byte-free bytes precede it and whatever follows it -/
theorem created_dispatched (c : Codec) (hc : LawfulCodec c) (fid : Nat) (p f pre post : Bytes)
    (hcr : c.frameCreate fid (some p) = .ok f) (hid : fid ≤ 8) (hpre : ∀ b ∈ pre, b ≠ c.sof) :
    recvHandleWith c (pre ++ f ++ post) = cbHandle fid p :=
  Generic.created_dispatched hc fid p f pre post hcr hid hpre

/-- C17 `padded_same`, generalised.  NO side condition on the start byte is needed: the hypothesis
    that the receiver reacts to `w` at all already places the first start byte inside `w`, so the
    appended zeros (in fact any appended bytes) are behind the frame whatever the start byte is.
    (The start byte matters only for `padding_only_ignored` below.) -/
theorem padded_same_generic (c : Codec) (hc : LawfulCodec c) (w : Bytes) (k : Nat)
    (h : recvHandleWith c w ≠ .ignored) :
    recvHandleWith c (w ++ List.replicate k 0) = recvHandleWith c w :=
  Dispatch.recvHandleWith_append hc w _ h

/-- … hence through `data_align` for every padding value -/
theorem aligned_same_generic (c : Codec) (hc : LawfulCodec c) (pad : Nat) (w : Bytes)
    (h : recvHandleWith c w ≠ .ignored) :
    recvHandleWith c (Pad.dataAlign pad w) = recvHandleWith c w := by
  obtain ⟨k, _, _, hk⟩ := Pad.dataAlign_spec pad w
  rw [hk]
  exact padded_same_generic c hc w k h

/-- a write consisting only of padding triggers no reaction — for every lawful codec whose start
    byte is not 0x00 (with start byte 0x00 a run of zeros *is* a run of start bytes and whether it
    is ignored depends on the codec's header / footer rules, not on the interface laws) -/
theorem padding_only_ignored_generic (c : Codec) (hc : LawfulCodec c) (hsof : c.sof ≠ 0) (k : Nat) :
    recvHandleWith c (List.replicate k 0) = .ignored := by
  apply Dispatch.recvHandleWith_nosof hc
  intro x hx
  rw [(List.mem_replicate.mp hx).2]
  exact fun e => hsof e.symm

/-! ### the family: C03, C02-dispatch and C17 instances -/

/-- reassembly is a function of the bytes, not of the chunking, with every family codec -/
theorem family_run_eq_scan (p : Family.Params) (hp : p.valid) (chunks : List Bytes) :
    Reasm.run (Family.codec p) chunks = Reasm.scan (Family.codec p) chunks.flatten :=
  C03.run_eq_scan _ (family_lawful p hp) chunks

theorem family_chunking_independent (p : Family.Params) (hp : p.valid) (cs₁ cs₂ : List Bytes)
    (h : cs₁.flatten = cs₂.flatten) :
    Reasm.run (Family.codec p) cs₁ = Reasm.run (Family.codec p) cs₂ :=
  C03.chunking_independent _ (family_lawful p hp) cs₁ cs₂ h

/-- back-to-back valid frames of a family codec are delivered once each and in order, under every chunking -/
theorem family_back_to_back (p : Family.Params) (hp : p.valid) (fs : List (Bytes × Frame)) (chunks : List Bytes)
    (hfs : ∀ q ∈ fs, (Family.codec p).frameDecode q.1 = .ok q.2 ∧
      ∃ h, (Family.codec p).hdrDecode q.1 = .ok h ∧ h.flen = q.1.length)
    (hch : chunks.flatten = (fs.map (·.1)).flatten) :
    Reasm.run (Family.codec p) chunks = fs.map (·.2) :=
  C03.back_to_back_run _ (family_lawful p hp) fs chunks hfs hch

/-- a frame created by a family codec behind noise without its start byte is delivered, under every chunking -/
theorem family_resync (p : Family.Params) (hp : p.valid) (fid : Nat) (pl f noise rest : Bytes) (chunks : List Bytes)
    (hcr : (Family.codec p).frameCreate fid (some pl) = .ok f) (hid : fid ≤ 8)
    (hn : ∀ b ∈ noise, b ≠ p.sof) (hch : chunks.flatten = noise ++ f ++ rest) :
    Reasm.run (Family.codec p) chunks = ⟨fid, pl⟩ :: Reasm.scan (Family.codec p) rest := by
  rw [family_run_eq_scan p hp, hch]
  exact C03.created_delivered _ (family_lawful p hp) fid pl f noise rest hcr hid hn

/-- … and behind junk whose every header candidate is examined and rejected -/
theorem family_resync_rejected (p : Family.Params) (hp : p.valid) (junk f rest : Bytes) (fr : Frame)
    (hf : (Family.codec p).frameDecode f = .ok fr)
    (hh : ∃ h, (Family.codec p).hdrDecode f = .ok h ∧ h.flen = f.length)
    (hn : ∀ k, k < junk.length → ∀ h, (Family.codec p).hdrDecode ((junk ++ f ++ rest).drop k) = .ok h →
      h.flen ≤ (junk ++ f ++ rest).length - k ∧
        ∀ fr', (Family.codec p).frameDecode (((junk ++ f ++ rest).drop k).take h.flen) ≠ .ok fr') :
    Reasm.scan (Family.codec p) (junk ++ f ++ rest) = fr :: Reasm.scan (Family.codec p) rest :=
  C03.resync_rejected _ (family_lawful p hp) junk f rest fr hf hh hn

/-- only decodable windows of the stream are ever delivered -/
theorem family_only_valid (p : Family.Params) (hp : p.valid) (chunks : List Bytes) (fr : Frame)
    (h : fr ∈ Reasm.run (Family.codec p) chunks) :
    ∃ pre post w, chunks.flatten = pre ++ w ++ post ∧ (Family.codec p).frameDecode w = .ok fr :=
  C03.only_valid_run _ (family_lawful p hp) chunks fr h

theorem family_dispatch_eq_decode (p : Family.Params) (hp : p.valid) (d : Bytes) :
    recvHandleWith (Family.codec p) d =
      match findByte p.sof d with
      | none => .ignored
      | some i =>
        match Family.frameDecode p (d.drop i) with
        | .ok fr => cbHandle fr.fid fr.data
        | .error _ => .ignored :=
  dispatch_eq_decode _ (family_lawful p hp) d

theorem family_padded_same (p : Family.Params) (hp : p.valid) (w : Bytes) (k : Nat)
    (h : recvHandleWith (Family.codec p) w ≠ .ignored) :
    recvHandleWith (Family.codec p) (w ++ List.replicate k 0) = recvHandleWith (Family.codec p) w :=
  padded_same_generic _ (family_lawful p hp) w k h

/-- for the family a padding-only write is ignored whatever the start byte, 0x00 included: a header
    made of zeros declares length 0, below header + footer -/
theorem family_padding_only_ignored (p : Family.Params) (hp : p.valid) (k : Nat) :
    recvHandleWith (Family.codec p) (List.replicate k 0) = .ignored := by
  rw [family_dispatch_eq_decode p hp]
  cases findByte p.sof (List.replicate k 0) with
  | none => rfl
  | some i =>
    simp only [List.drop_replicate]
    obtain ⟨e, he⟩ := Family.frameDecode_zeros p (k - i)
    rw [he]

/-- a request created with a family codec, zero-padded, reaches the callback with exactly its payload -/
theorem family_created_dispatched (p : Family.Params) (hp : p.valid) (fid : Nat) (pl f : Bytes) (k : Nat)
    (hcr : (Family.codec p).frameCreate fid (some pl) = .ok f) (hid : fid ≤ 8) :
    recvHandleWith (Family.codec p) (f ++ List.replicate k 0) = cbHandle fid pl := by
  have := created_dispatched _ (family_lawful p hp) fid pl f [] (List.replicate k 0) hcr hid (by simp)
  simpa using this

/-! ### the complete client session, for every lawful codec -/

/-! #### (i) requests -/

/-- C05 for every codec: under C05's hypotheses the builder `Parser(frame=cls)` calls for a request
    (`ClientReq.buildWith c`: start · cmninfo · chinfo · enable / divider in single and vector form)
    frames exactly the NxScope payload of that request under its frame id with the codec's
    `frame_create` — it succeeds iff the codec can frame that payload, and with those bytes.
    `hn`: the codec treats the absent payload of `frame_cmninfo` (`None`) as empty. -/
theorem request_builder_generic (c : Codec) (hn : c.NoneEmpty) (r : ClientReq) (hr : r.Valid) :
    r.buildWith c = c.frameCreate r.fid (some r.payload) :=
  Generic.buildWith_eq c hn r hr

/-- E2E §1 for every lawful codec: whatever the builder returned, written through the interface with
    any write padding, makes `ParseRecv(cb, frame=cls).recv_handle` fire exactly the matching callback
    (cmninfo 0, chinfo 1, enable 2, div 3, start 4) with exactly the NxScope payload -/
theorem request_reaches_callback_generic (c : Codec) (hc : LawfulCodec c) (hn : c.NoneEmpty)
    (r : ClientReq) (hr : r.Valid) (pad : Nat) (f : Bytes) (hb : r.buildWith c = .ok f) :
    recvHandleWith c (Pad.dataAlign pad f) = .fired r.cb r.payload :=
  Generic.request_reaches_callback hc hn r hr pad f hb

/-- … also behind bytes that do not contain the codec's start byte and in front of anything -/
theorem request_reaches_callback_noise (c : Codec) (hc : LawfulCodec c) (hn : c.NoneEmpty)
    (r : ClientReq) (hr : r.Valid) (f pre post : Bytes) (hb : r.buildWith c = .ok f)
    (hpre : ∀ b ∈ pre, b ≠ c.sof) :
    recvHandleWith c (pre ++ f ++ post) = .fired r.cb r.payload := by
  rw [request_builder_generic c hn r hr] at hb
  rw [created_dispatched c hc r.fid r.payload f pre post hb (Generic.fid_le r) hpre]
  exact Generic.cb_of r hr

/-- … and the decoder that callback runs on the fired payload returns what the caller asked for
    (payload level, hence the same statement for every codec: `ClientReq.Understood`) -/
theorem request_understood_generic (r : ClientReq) (hr : r.Valid) : r.Understood :=
  Compose.request_understood r hr

/-! #### (ii) the device description and the acknowledgements -/

/-- common info: whatever `frame_cmninfo_encode` of `ParseRecv(cb, frame=cls)` returned for one-byte
    values is — between any other valid frames, under any chunking of the reads — delivered by the client
    receive path (`Parser(frame=cls)`) once, in place, as a frame that `frame_cmninfo_decode` decodes to
    exactly these three values -/
theorem cmninfo_response_generic (c : Codec) (hc : LawfulCodec c) (chmax flags rxp : Nat)
    (h1 : chmax ≤ 255) (h2 : flags ≤ 255) (h3 : rxp ≤ 255)
    (ans : Bytes) (he : Generic.cmninfoEncode c chmax flags rxp = .ok ans)
    (before after : List (Bytes × Frame)) (hb : ValidFrames c before) (ha : ValidFrames c after)
    (chunks : List Bytes) (hch : chunks.flatten = wireOfFrames before ++ ans ++ wireOfFrames after) :
    ∃ fr : Frame, Reasm.run c chunks = before.map (·.2) ++ fr :: after.map (·.2) ∧
      Info.cmninfoDecode fr = .ok (some (chmax, flags, rxp)) :=
  Generic.cmninfo_response hc chmax flags rxp h1 h2 h3 ans he before after hb ha chunks hch

/-- channel info: the same for a configuration `⟨en, type, vdim, div, mlen, name⟩` under C06's hypotheses -/
theorem chinfo_response_generic (c : Codec) (hc : LawfulCodec c) (en : Bool) (ty vdim div mlen : Nat)
    (name : Bytes) (ht : ty ≤ 255) (hv : vdim ≤ 255) (hd : div ≤ 255) (hm : mlen ≤ 255)
    (hnul : ∀ b ∈ name, b ≠ 0) (hutf : Info.validUtf8 name = true)
    (ans : Bytes) (he : Generic.chinfoEncode c ⟨en, ty, vdim, div, mlen, name⟩ = .ok ans)
    (before after : List (Bytes × Frame)) (hb : ValidFrames c before) (ha : ValidFrames c after)
    (chunks : List Bytes) (hch : chunks.flatten = wireOfFrames before ++ ans ++ wireOfFrames after) :
    ∃ fr : Frame, Reasm.run c chunks = before.map (·.2) ++ fr :: after.map (·.2) ∧
      Info.chinfoDecode fr = .ok (some ⟨en, ty, vdim, div, mlen, name⟩) :=
  Generic.chinfo_response hc en ty vdim div mlen name ht hv hd hm hnul hutf ans he before after hb ha chunks hch

/-- ACK: a 32-bit return code arrives as "success" exactly when it is 0, and unchanged otherwise -/
theorem ack_response_generic (c : Codec) (hc : LawfulCodec c) (r : Int) (hlo : -2147483648 ≤ r)
    (hhi : r ≤ 2147483647) (ans : Bytes) (he : Generic.ackEncode c r = .ok ans)
    (before after : List (Bytes × Frame)) (hb : ValidFrames c before) (ha : ValidFrames c after)
    (chunks : List Bytes) (hch : chunks.flatten = wireOfFrames before ++ ans ++ wireOfFrames after) :
    ∃ fr : Frame, Reasm.run c chunks = before.map (·.2) ++ fr :: after.map (·.2) ∧
      Info.ackDecode fr = .ok (some (if r = 0 then (true, 0) else (false, r))) :=
  Generic.ack_response hc r hlo hhi ans he before after hb ha chunks hch

/-- E2E §3 `description_roundtrip_cmninfo` for every lawful codec, the whole exchange: the request the
    client built, written with any padding, fires the `cmninfo` callback; the device's answer, split
    into arbitrary reads and reassembled, decodes to the device's three values and nothing else is delivered -/
theorem description_roundtrip_cmninfo_generic (c : Codec) (hc : LawfulCodec c) (hn : c.NoneEmpty)
    (pad chmax flags rxp : Nat) (h1 : chmax ≤ 255) (h2 : flags ≤ 255) (h3 : rxp ≤ 255) (req ans : Bytes)
    (hreq : Generic.frameCmninfo c = .ok req) (hans : Generic.cmninfoEncode c chmax flags rxp = .ok ans) :
    recvHandleWith c (Pad.dataAlign pad req) = .fired 0 [] ∧
    ∀ chunks : List Bytes, chunks.flatten = ans →
      (Reasm.run c chunks).map Info.cmninfoDecode = [.ok (some (chmax, flags, rxp))] := by
  refine ⟨request_reaches_callback_generic c hc hn .cmninfo trivial pad req hreq, fun chunks hch => ?_⟩
  obtain ⟨fr, hrun, hdec⟩ := cmninfo_response_generic c hc chmax flags rxp h1 h2 h3 ans hans [] []
    (Generic.validFrames_nil c) (Generic.validFrames_nil c) chunks (by simp [wireOfFrames, hch])
  rw [hrun]
  simp [hdec]

/-- E2E §3 `description_roundtrip_chinfo` for every lawful codec -/
theorem description_roundtrip_chinfo_generic (c : Codec) (hc : LawfulCodec c) (hn : c.NoneEmpty)
    (pad ch : Nat) (hch : ch ≤ 255) (en : Bool) (ty vdim div mlen : Nat) (name : Bytes)
    (ht : ty ≤ 255) (hv : vdim ≤ 255) (hd : div ≤ 255) (hm : mlen ≤ 255) (hnul : ∀ b ∈ name, b ≠ 0)
    (hutf : Info.validUtf8 name = true)
    (req ans : Bytes) (hreq : Generic.frameChinfo c ch = .ok req)
    (hans : Generic.chinfoEncode c ⟨en, ty, vdim, div, mlen, name⟩ = .ok ans) :
    recvHandleWith c (Pad.dataAlign pad req) = .fired 1 [BitVec.ofNat 8 ch] ∧
    ∀ chunks : List Bytes, chunks.flatten = ans →
      (Reasm.run c chunks).map Info.chinfoDecode = [.ok (some ⟨en, ty, vdim, div, mlen, name⟩)] := by
  refine ⟨request_reaches_callback_generic c hc hn (.chinfo ch) hch pad req hreq, fun chunks hc' => ?_⟩
  obtain ⟨fr, hrun, hdec⟩ := chinfo_response_generic c hc en ty vdim div mlen name ht hv hd hm hnul hutf ans hans [] []
    (Generic.validFrames_nil c) (Generic.validFrames_nil c) chunks (by simp [wireOfFrames, hc'])
  rw [hrun]
  simp [hdec]

/-! #### (iii) the stream -/

/-- E2E §2 `stream_pipeline` for every lawful codec: the device encodes the batches `bs` with
    `frame_stream_encode` of `ParseRecv(cb, frame=cls)` (frame `fᵢ` for batch `bᵢ`; that the codec could
    frame them is `hfs` — it replaces the 65529-byte bound of the built-in codec), the bytes
    `f₁ ++ … ++ fₙ` travel over a link that cuts them into arbitrary reads (`chunks`, empty reads
    included), the client receive path with `Parser(frame=cls)` reassembles and `frame_stream_decode`
    decodes: the client obtains, frame by frame, exactly the samples of `bᵢ` that carry data or metadata,
    complete, once, in device order; nothing else.  Hypotheses per batch as in C15. -/
theorem stream_pipeline_generic (c : Codec) (hc : LawfulCodec c) (user : List UserType) (L : List Chan)
    (bs : List (List Sample)) (fs : List Bytes) (chunks : List Bytes)
    (hrep : ∀ b ∈ bs, ∀ s ∈ b, Representable user s) (hL : ∀ b ∈ bs, LayoutAgrees L b)
    (hne : ∀ b ∈ bs, ∃ s ∈ b, carries s = true)
    (hfs : bs.map (Generic.frameStreamEncode c user) = fs.map fun f => .ok (some f))
    (hch : chunks.flatten = fs.flatten) :
    (Reasm.run c chunks).map (Stream.frameStreamDecode L user)
      = bs.map fun b => .ok (some (0, (b.filter carries).map (decodedForm user))) :=
  Generic.stream_pipeline hc user L bs fs chunks hrep hL hne hfs hch

/-! #### the built-in codec: the generic statements speak about the models of C05 / C06 / C15 / E2E -/

/-- with the built-in codec `frameWith` is the NxScope wire frame of C01 -/
theorem serial_frameWith_eq_wire (fid : Nat) (p : Bytes) (hp : p.length ≤ 65529) (hf : fid ≤ 255) :
    Generic.frameWith Serial.codec fid p = .ok (wire fid p) :=
  Generic.serial_frameWith_eq_wire fid p hp hf

/-- at `Serial.codec` the generic builders are the builders of `Requests.lean` / `Info.lean` /
    `Stream.lean` (the ones C05, C06, C15 and `Props/E2E.lean` are about), and the built-in codec meets
    both hypotheses of the generic theorems -/
theorem serial_instances :
    LawfulCodec Serial.codec ∧ Serial.codec.NoneEmpty ∧
    (∀ r : ClientReq, r.buildWith Serial.codec = r.build) ∧
    (∀ a b x : Int, Generic.cmninfoEncode Serial.codec a b x = Info.cmninfoEncode a b x) ∧
    (∀ cfg, Generic.chinfoEncode Serial.codec cfg = Info.chinfoEncode cfg) ∧
    (∀ r, Generic.ackEncode Serial.codec r = Info.ackEncode r) ∧
    (∀ user ss, Generic.frameStreamEncode Serial.codec user ss = Stream.frameStreamEncode user ss) ∧
    recvHandleWith Serial.codec = recvHandle :=
  ⟨serial_lawful, Generic.serial_noneEmpty, ClientReq.buildWith_serial,
   fun a b x => (Generic.serial_cmninfoEncode a b x).symm, fun cfg => (Generic.serial_chinfoEncode cfg).symm,
   fun r => (Generic.serial_ackEncode r).symm, fun u ss => (Generic.serial_frameStreamEncode u ss).symm,
   serial_dispatch_is_generic.symm⟩

/-- E2E §1 (`E2E.request_reaches_callback`, also the statement C17 ∘ C05 ∘ C02 of the built-in codec)
    IS the `Serial.codec` instance of `request_reaches_callback_generic` -/
theorem serial_request_reaches_callback (r : ClientReq) (hr : r.Valid) (pad : Nat) :
    ∃ f, r.build = .ok f ∧ recvHandle (Pad.dataAlign pad f) = .fired r.cb r.payload :=
  Generic.serial_request_reaches_callback r hr pad

/-! #### the family -/

/-- every family member treats the absent payload as empty -/
theorem family_noneEmpty (p : Family.Params) : (Family.codec p).NoneEmpty := Generic.family_noneEmpty p

/-- a valid family member frames every payload of up to 243 bytes (every request to a device of up to
    241 channels, common info, ACK, channel info with a name of up to 238 bytes) -/
theorem family_create_small (p : Family.Params) (hp : p.valid) (fid : Nat) (pl : Bytes) (hfid : fid ≤ 255)
    (hpl : pl.length ≤ 243) : ∃ f, (Family.codec p).frameCreate fid (some pl) = .ok f :=
  Generic.family_create_small p hp fid pl hfid hpl

/-- (i) for the family: every valid request whose payload fits the member's length field is built, and,
    written with any padding, fires the matching callback with the NxScope payload -/
theorem family_request_reaches_callback (p : Family.Params) (hp : p.valid) (r : ClientReq) (hr : r.Valid)
    (pad : Nat) (hfit : Family.fits p.fields (Family.hdrLen p + r.payload.length + p.foot.len) = true) :
    ∃ f, r.buildWith (Family.codec p) = .ok f ∧
      recvHandleWith (Family.codec p) (Pad.dataAlign pad f) = .fired r.cb r.payload := by
  obtain ⟨f, hf⟩ := Generic.family_create_ok p r.fid r.payload (by have := Generic.fid_le r; omega) hfit
  have hb : r.buildWith (Family.codec p) = .ok f := by
    rw [request_builder_generic _ (family_noneEmpty p) r hr]; exact hf
  exact ⟨f, hb, request_reaches_callback_generic _ (family_lawful p hp) (family_noneEmpty p) r hr pad f hb⟩

/-- (ii) for the family: the common-info answer always exists and is decoded to the device's values
    under every chunking -/
theorem family_description_cmninfo (p : Family.Params) (hp : p.valid) (chmax flags rxp : Nat)
    (h1 : chmax ≤ 255) (h2 : flags ≤ 255) (h3 : rxp ≤ 255) :
    ∃ ans, Generic.cmninfoEncode (Family.codec p) chmax flags rxp = .ok ans ∧
      ∀ chunks : List Bytes, chunks.flatten = ans →
        (Reasm.run (Family.codec p) chunks).map Info.cmninfoDecode = [.ok (some (chmax, flags, rxp))] := by
  obtain ⟨ans, hans⟩ := family_create_small p hp 2
    [BitVec.ofNat 8 chmax, BitVec.ofNat 8 flags, BitVec.ofNat 8 rxp] (by omega) (by simp)
  have he : Generic.cmninfoEncode (Family.codec p) chmax flags rxp = .ok ans := by
    unfold Generic.cmninfoEncode
    rw [Info.cmninfoData_eq chmax flags rxp h1 h2 h3, ok_bind]
    exact hans
  refine ⟨ans, he, fun chunks hch => ?_⟩
  obtain ⟨fr, hrun, hdec⟩ := cmninfo_response_generic _ (family_lawful p hp) chmax flags rxp h1 h2 h3 ans he [] []
    (Generic.validFrames_nil _) (Generic.validFrames_nil _) chunks (by simp [wireOfFrames, hch])
  rw [hrun]
  simp [hdec]

/-- (iii) for the family -/
theorem family_stream_pipeline (p : Family.Params) (hp : p.valid) (user : List UserType) (L : List Chan)
    (bs : List (List Sample)) (fs : List Bytes) (chunks : List Bytes)
    (hrep : ∀ b ∈ bs, ∀ s ∈ b, Representable user s) (hL : ∀ b ∈ bs, LayoutAgrees L b)
    (hne : ∀ b ∈ bs, ∃ s ∈ b, carries s = true)
    (hfs : bs.map (Generic.frameStreamEncode (Family.codec p) user) = fs.map fun f => .ok (some f))
    (hch : chunks.flatten = fs.flatten) :
    (Reasm.run (Family.codec p) chunks).map (Stream.frameStreamDecode L user)
      = bs.map fun b => .ok (some (0, (b.filter carries).map (decodedForm user))) :=
  stream_pipeline_generic _ (family_lawful p hp) user L bs fs chunks hrep hL hne hfs hch

/-! ### the code reaches the codec only through the codec object (regenerated every run) -/

/-- `comm.py`, `parse.py`, `parserecv.py`, `nxscope.py`, `intf/dummy.py` contain no frame literal (0x55,
    "<BHB", a 4 / 2 / 6 or any other size constant next to frame data, a `.find(` of the start marker)
    and no direct use of `SerialFrame` outside the default argument: every use is `self._frame.*` /
    `self._parse.frame.*` (table `Gen.FrameUse.uses`); decode results are used through their fields only, `err`
    only as `is (not) EParseError.NOERR` (R5), and no frame id is compared by identity (R6: `fid is EParseId.X`
    would tie the code to codecs that hand out `EParseId` members — the model's `fid : Nat` is compared by value) -/
theorem frame_uses_generic : Gen.FrameUse.noFrameLiterals = true := by decide

/-- every request / response builder (`_frame_set_single/_bulk/_all`, `frame_start`, `frame_cmninfo`,
    `frame_chinfo`; `frame_cmninfo_encode`, `frame_chinfo_encode`, `frame_stream_encode`, `frame_ack_encode`)
    goes through the codec member `frame_create` exactly once and returns that call's result (or `None`)
    straight to the caller — the shape `Generic.lean` transcribes: nothing is kept, cached or edited
    between the codec and the caller; and `frame_enable` / `frame_div` (table `Gen.FrameUse.wrappers`) do not
    touch the codec themselves: each of their branches (tuple, ALL, BULK) returns the unedited result of one of
    the `_frame_set_*` builders (`Generic.frameEnable` / `frameDiv`) -/
theorem builders_use_codec : Gen.FrameUse.buildersUseCodec = true := by decide

/-- `proto/iframe.py`: `ICommFrame` declares only the seven abstract members (no state, no `__new__`,
    nothing a codec class inherits), `DParseHdr` / `DParseFrame` are plain records of their fields,
    `EParseError` is NOERR / ERR / HDR / FOOT -/
theorem interface_shape : Gen.FrameUse.interfaceShape = true := by decide

/-- `_read_hdr` takes `hdr_len`, `hdr_find`, `hdr_decode` from the codec, `_read_frame` `frame_decode`,
    `recv_handle` `hdr_find`, `hdr_len`, `foot_len`, `hdr_decode`, `foot_validate` — the fields
    `Reasm.run c` / `recvHandleWith c` use -/
theorem receive_paths_use_codec : Gen.FrameUse.receiveUsesComplete = true := by decide

/-! ### non-vacuity -/

/-- start byte 0xAA, header S,L2be,I,F (5 bytes), CRC-32 little-endian footer -/
def exA : Family.Params := ⟨0xAA, [.len 2 true, .fid, .fill 0], .crc32 false⟩
/-- start byte 0x00 (!), header S,I,F7e,L1 (4 bytes), 3-byte big-endian sum -/
def exB : Family.Params := ⟨0x00, [.fid, .fill 0x7e, .len 1 false], .sum 3 true⟩
/-- minimal header S,L1,I (3 bytes), XOR footer -/
def exC : Family.Params := ⟨0x55, [.len 1 false, .fid], .xor⟩

example : exA.valid ∧ exB.valid ∧ exC.valid := by decide
/-- CRC-32 check value of "123456789" -/
example : Family.crc32 [0x31, 0x32, 0x33, 0x34, 0x35, 0x36, 0x37, 0x38, 0x39] = 0xCBF43926#32 := by decide +kernel
example : (Family.codec exA).frameCreate 5 (some [0x01]) =
    .ok [0xAA, 0x00, 0x0A, 0x05, 0x00, 0x01, 0x32, 0x81, 0x34, 0x17] := by decide +kernel
example : (Family.codec exC).frameCreate 2 none = .ok [0x55, 0x04, 0x02, 0x53] := by decide +kernel
example : recvHandleWith (Family.codec exC) [0x00, 0x55, 0x04, 0x02, 0x53, 0x00, 0x00] = .fired 0 [] := by
  decide +kernel
/-- split inside the header, an empty read, a damaged frame in front: the good frame is delivered -/
example : Reasm.run (Family.codec exC) [[0x55, 0x05], [], [0x05, 0x02, 0x54], [0x55, 0x05, 0x05], [0x01, 0x54]]
    = [⟨5, [0x01]⟩] := by decide +kernel
/-- the 1-byte length field refuses a 250-byte payload (3 + 250 + 1 = 254 fits, 252 bytes do not) -/
example : (Family.codec exC).frameCreate 1 (some (List.replicate 252 0)) = .error .structError := by
  decide +kernel
/-- not every parameter record is valid: two length fields, no id -/
example : ¬ (⟨0x55, [.len 1 false, .len 2 true], .xor⟩ : Family.Params).valid := by decide

/-! the session-level theorems: their hypotheses are satisfiable, with concrete runs -/

/-- (i) a valid vector request, built with codec exA (5-byte header, CRC-32), padded to 4, dispatched -/
example : (ClientReq.enVec 3 [true, false, true]).Valid := ⟨rfl, by omega, by omega⟩
example : (ClientReq.enVec 3 [true, false, true]).buildWith (Family.codec exA) =
    .ok [0xaa, 0x00, 0x0e, 0x06, 0x00, 0x01, 0x00, 0x01, 0x00, 0x01, 0x77, 0xa6, 0x0f, 0x60] := by decide +kernel
example : recvHandleWith (Family.codec exA) (Pad.dataAlign 4
    [0xaa, 0x00, 0x0e, 0x06, 0x00, 0x01, 0x00, 0x01, 0x00, 0x01, 0x77, 0xa6, 0x0f, 0x60]) = .fired 2 [1, 0, 1, 0, 1] := by
  decide +kernel
example : (ClientReq.enVec 3 [true, false, true]).payload = [1, 0, 1, 0, 1] := by decide +kernel
/-- the `fits` hypothesis of `family_request_reaches_callback`; and a request that does NOT fit a 1-byte
    length field (255 dividers: 3 + 257 + 1 bytes) -/
example : Family.fits exA.fields (Family.hdrLen exA + (ClientReq.enVec 3 [true, false, true]).payload.length
    + exA.foot.len) = true := by decide +kernel
example : Family.fits exC.fields (Family.hdrLen exC + 257 + exC.foot.len) = false := by decide +kernel
/-- a divider request with start byte 0x00 (codec exB), behind noise without the start byte -/
example : (ClientReq.divSingle 4 2 200).Valid := ⟨by omega, by omega, by omega⟩
example : (ClientReq.divSingle 4 2 200).buildWith (Family.codec exB) =
    .ok [0x00, 0x07, 0x7e, 0x0a, 0x00, 0x02, 0xc8, 0x00, 0x01, 0x59] := by decide +kernel
example : recvHandleWith (Family.codec exB) ([0x01, 0xff] ++ [0x00, 0x07, 0x7e, 0x0a, 0x00, 0x02, 0xc8, 0x00, 0x01, 0x59]
    ++ [0x00, 0x00]) = .fired 3 [0, 2, 200] := by decide +kernel
/-- both codec hypotheses hold for the built-in codec and for every family member -/
example : LawfulCodec (Family.codec exB) ∧ (Family.codec exB).NoneEmpty :=
  ⟨family_lawful exB (by decide), family_noneEmpty exB⟩

/-- (ii) answers of a device speaking exC (3-byte header, XOR footer): ACK(-22), common info, channel info -/
def exAck : Bytes := [0x55, 0x08, 0x04, 0xea, 0xff, 0xff, 0xff, 0x4c]
def exChinfo : Bytes := [0x55, 0x0b, 0x03, 0x01, 0x8a, 0x03, 0xc8, 0x01, 0x63, 0x68, 0x17]
example : Generic.ackEncode (Family.codec exC) (-22) = .ok exAck := by decide +kernel
example : Generic.chinfoEncode (Family.codec exC) ⟨true, 0x8a, 3, 200, 1, [0x63, 0x68]⟩ = .ok exChinfo := by
  decide +kernel
example : Generic.cmninfoEncode (Family.codec exB) 11 3 16 =
    .ok [0x00, 0x02, 0x7e, 0x0a, 0x0b, 0x03, 0x10, 0x00, 0x00, 0xa8] := by decide +kernel
/-- `ValidFrames` is inhabited by non-empty lists: the ACK frame above -/
theorem ex_valid : ValidFrames (Family.codec exC) [(exAck, ⟨4, [0xea, 0xff, 0xff, 0xff]⟩)] := by
  intro q hq
  rw [List.mem_singleton] at hq
  subst hq
  exact (family_lawful exC (by decide)).frameCreate_decode 4 [0xea, 0xff, 0xff, 0xff] exAck (by decide +kernel) (by omega)
/-- the channel-info answer between two ACK frames, read in pieces (split inside a header, empty read) -/
example : ∃ fr : Frame,
    Reasm.run (Family.codec exC) [exAck ++ exChinfo.take 2, [], exChinfo.drop 2 ++ exAck.take 5, exAck.drop 5] =
      [⟨4, [0xea, 0xff, 0xff, 0xff]⟩] ++ fr :: [⟨4, [0xea, 0xff, 0xff, 0xff]⟩] ∧
      Info.chinfoDecode fr = .ok (some ⟨true, 0x8a, 3, 200, 1, [0x63, 0x68]⟩) :=
  chinfo_response_generic _ (family_lawful exC (by decide)) true 0x8a 3 200 1 [0x63, 0x68] (by omega) (by omega)
    (by omega) (by omega) (by decide) (by decide +kernel) exChinfo (by decide +kernel) _ _ ex_valid ex_valid _
    (by decide +kernel)
example : (Reasm.run (Family.codec exC) [exAck ++ exChinfo.take 2, [], exChinfo.drop 2 ++ exAck.take 5,
    exAck.drop 5]).map Info.chinfoDecode =
      [.ok none, .ok (some ⟨true, 0x8a, 3, 200, 1, [0x63, 0x68]⟩), .ok none] := by decide +kernel

/-- (iii) one batch (an INT64 sample and a fixed-point sample with one metadata byte) streamed by a device
    speaking exC, read in three pieces -/
def exBatch : List Sample := [⟨1, Gen.Ids.tyINT64, 1, 0, [.int (-2)], []⟩, ⟨0, Gen.Ids.tyB8, 1, 1, [.fixed 256 8], [6]⟩]
def exStreamFrame : Bytes :=
  [0x55, 0x12, 0x01, 0x00, 0x01, 0xfe, 0xff, 0xff, 0xff, 0xff, 0xff, 0xff, 0xff, 0x00, 0x00, 0x01, 0x06, 0x41]
def exLayout : List Chan := [⟨Gen.Ids.tyB8, 1, 1⟩, ⟨Gen.Ids.tyINT64, 1, 0⟩]
theorem ex_stream_hyps :
    (∀ b ∈ [exBatch], ∀ s ∈ b, Representable [] s) ∧ (∀ b ∈ [exBatch], LayoutAgrees exLayout b) ∧
    (∀ b ∈ [exBatch], ∃ s ∈ b, carries s = true) ∧
    [exBatch].map (Generic.frameStreamEncode (Family.codec exC) []) = [exStreamFrame].map fun f => .ok (some f) := by
  refine ⟨by decide +kernel, ?_, by decide +kernel, by decide +kernel⟩
  intro b hb
  rw [List.mem_singleton] at hb
  subst hb
  unfold LayoutAgrees
  decide +kernel
example : ∀ chunks : List Bytes, chunks.flatten = [exStreamFrame].flatten →
    (Reasm.run (Family.codec exC) chunks).map (Stream.frameStreamDecode exLayout []) =
      [exBatch].map fun b => .ok (some (0, (b.filter carries).map (decodedForm []))) :=
  fun chunks h => stream_pipeline_generic _ (family_lawful exC (by decide)) [] exLayout _ _ chunks
    ex_stream_hyps.1 ex_stream_hyps.2.1 ex_stream_hyps.2.2.1 ex_stream_hyps.2.2.2 h


/-! ## Round 7 — algebra of EVERY lawful codec, and several codecs in one process -/

/-- **frame overhead is exactly header + footer**, every lawful codec: a created frame (id the decoder knows) is
    `hdrLen + |payload| + footLen` bytes long — no codec that honours the interface can pad, escape or compress -/
theorem create_length_generic (c : Codec) (hc : LawfulCodec c) (fid : Nat) (p f : Bytes)
    (h : c.frameCreate fid (some p) = .ok f) (hf : fid ≤ 8) : f.length = c.hdrLen + p.length + c.footLen := by
  obtain ⟨hd, h', hh, hfl⟩ := hc.frameCreate_decode fid p f h hf
  obtain ⟨h'', hh', h1, h2, _, h4⟩ := (hc.frameDecode_iff f ⟨fid, p⟩).mp hd
  rw [hh] at hh'
  cases hh'
  have hp : p = slice f c.hdrLen (h'.flen - c.footLen) := by injection h4
  have := congrArg List.length hp
  simp [slice] at this
  omega

/-- **create is injective**, every lawful codec: two (id, payload) pairs with ids ≤ 8 never share a frame -/
theorem create_injective_generic (c : Codec) (hc : LawfulCodec c) (fid fid' : Nat) (p p' f : Bytes)
    (h : c.frameCreate fid (some p) = .ok f) (h' : c.frameCreate fid' (some p') = .ok f)
    (hf : fid ≤ 8) (hf' : fid' ≤ 8) : fid = fid' ∧ p = p' := by
  have a := (hc.frameCreate_decode fid p f h hf).1
  have b := (hc.frameCreate_decode fid' p' f h' hf').1
  rw [a] at b
  have := Except.ok.inj b
  injection this with x y
  exact ⟨x, y⟩

/-- **decode ∘ create = id with anything behind**, every lawful codec: a created frame followed by ANY bytes (next frame,
    padding, noise) decodes to the same id and payload, and is dispatched as that request by the device side -/
theorem decode_create_append_generic (c : Codec) (hc : LawfulCodec c) (fid : Nat) (p f rest : Bytes)
    (h : c.frameCreate fid (some p) = .ok f) (hf : fid ≤ 8) :
    c.frameDecode (f ++ rest) = .ok ⟨fid, p⟩ ∧ recvHandleWith c (f ++ rest) = cbHandle fid p := by
  have hd := (hc.frameCreate_decode fid p f h hf).1
  have ha := Dispatch.frameDecode_append hc f rest _ hd
  refine ⟨ha, ?_⟩
  have := created_dispatched c hc fid p f [] rest h hf (by simp)
  simpa using this

/-- a byte string is accepted as at most one frame, every codec (acceptance is a function) — and for a lawful codec the
    accepted (id, payload) is determined by the first `flen` bytes alone -/
theorem accept_prefix_generic (c : Codec) (hc : LawfulCodec c) (d d' : Bytes) (fr : Frame) (h : Hdr)
    (hd : c.frameDecode d = .ok fr) (hh : c.hdrDecode d = .ok h) (hpre : d'.take h.flen = d.take h.flen) :
    c.frameDecode d' = .ok fr := by
  obtain ⟨h0, hh0, h1, h2, h3, h4⟩ := (hc.frameDecode_iff d fr).mp hd
  rw [hh] at hh0; cases hh0
  have hl0 : c.hdrLen ≤ d.length := by omega
  have hT : c.frameDecode (d.take h.flen) = .ok fr := by
    rw [hc.frameDecode_iff]
    refine ⟨h, ?_, h1, by simp; omega, ?_, ?_⟩
    · rw [hc.hdrDecode_prefix _ (by simp; omega), List.take_take, Nat.min_eq_left (by omega),
        ← hc.hdrDecode_prefix d hl0]
      exact hh
    · rw [List.take_take, Nat.min_self]; exact h3
    · rw [h4]; simp only [slice]; rw [List.take_take, Nat.min_eq_left (by omega)]
  have hl : (d.take h.flen).length = h.flen := by rw [List.length_take]; omega
  have hd' : d' = d.take h.flen ++ d'.drop h.flen := by rw [← hpre, List.take_append_drop]
  rw [hd']
  exact Dispatch.frameDecode_append hc _ _ _ hT

/-! ### several parsers with different codecs in one process

  `comm.py` keeps the unconsumed tail of its reads per `CommHandler`; the codec object belongs to the `Parser` it was
  built with.  `Proc` is a process with any number of receive paths: path `k` has codec `κ k` and its own carry-over
  buffer; an event `(k, chunk)` is one read of path `k`: it scans buffer ++ chunk with ITS codec (`Reasm.scan`), delivers the
  frames and keeps `Reasm.scanRest`.  There is no shared state in the model (the static scan `frame_uses_generic` shows
  the code has no frame constant outside the codec object either) — the product theorem says what that buys. -/

/-- one read of path `k` -/
def Proc.step (κ : Nat → Codec) (bufs : Nat → Bytes) (ev : Nat × Bytes) : (Nat → Bytes) × List Frame :=
  let d := bufs ev.1 ++ ev.2
  (fun j => if j = ev.1 then Reasm.scanRest (κ ev.1) d else bufs j, Reasm.scan (κ ev.1) d)

/-- the frames path `k` delivers during an interleaved history of reads -/
def Proc.framesFor (κ : Nat → Codec) (k : Nat) : (Nat → Bytes) → List (Nat × Bytes) → List Frame
  | _, [] => []
  | bufs, ev :: rest =>
    let r := Proc.step κ bufs ev
    (if ev.1 = k then r.2 else []) ++ Proc.framesFor κ k r.1 rest

/-- the bytes read by path `k`, in order -/
def Proc.bytesFor (k : Nat) (evs : List (Nat × Bytes)) : Bytes :=
  (evs.filterMap fun ev => if ev.1 = k then some ev.2 else none).flatten

theorem Proc.framesFor_spec (κ : Nat → Codec) (k : Nat) (hk : LawfulCodec (κ k)) (bufs : Nat → Bytes)
    (evs : List (Nat × Bytes)) (hw : Reasm.Waiting (κ k) (bufs k)) :
    Proc.framesFor κ k bufs evs = Reasm.scan (κ k) (bufs k ++ Proc.bytesFor k evs) := by
  induction evs generalizing bufs with
  | nil =>
    simp only [Proc.framesFor, Proc.bytesFor, List.filterMap_nil, List.flatten_nil, List.append_nil]
    exact (Reasm.scan_of_waiting hk hw).symm
  | cons ev rest ih =>
    obtain ⟨j, chunk⟩ := ev
    by_cases hj : j = k
    · subst hj
      have hb : Proc.bytesFor j ((j, chunk) :: rest) = chunk ++ Proc.bytesFor j rest := by
        simp [Proc.bytesFor]
      have hw' : Reasm.Waiting (κ j) ((Proc.step κ bufs (j, chunk)).1 j) := by
        simp only [Proc.step, if_true]
        exact Reasm.scanRest_waiting hk _
      have := ih (Proc.step κ bufs (j, chunk)).1 hw'
      simp only [Proc.framesFor, if_true]
      rw [this, hb, ← List.append_assoc, Reasm.scan_resume hk (bufs j ++ chunk)]
      simp [Proc.step]
    · have hb : Proc.bytesFor k ((j, chunk) :: rest) = Proc.bytesFor k rest := by
        simp [Proc.bytesFor, hj]
      have hsame : (Proc.step κ bufs (j, chunk)).1 k = bufs k := by
        simp only [Proc.step]
        rw [if_neg (fun e : k = j => hj e.symm)]
      have := ih (Proc.step κ bufs (j, chunk)).1 (by rw [hsame]; exact hw)
      simp only [Proc.framesFor, if_neg hj, List.nil_append]
      rw [this, hb, hsame]

/-- **product theorem — codecs sharing a process do not interfere**: in a process with any number of receive paths, each
    built with its own codec (lawful or NOT, except for the path looked at), under ANY interleaving of their reads and any
    chunking, path `k` delivers exactly the frames of the byte stream IT read, scanned with ITS codec — i.e. exactly what
    `Reasm.run (κ k)` delivers when path `k` is alone in the process (`C03.run_eq_scan`) -/
theorem codecs_do_not_interfere (κ : Nat → Codec) (k : Nat) (hk : LawfulCodec (κ k)) (evs : List (Nat × Bytes)) :
    Proc.framesFor κ k (fun _ => []) evs =
      Reasm.run (κ k) (evs.filterMap fun ev => if ev.1 = k then some ev.2 else none) := by
  rw [Proc.framesFor_spec κ k hk _ evs (Or.inl rfl), C03.run_eq_scan _ hk]
  rfl

/-- … in particular the built-in codec next to any family member, and any two family members -/
theorem family_codecs_do_not_interfere (p q : Family.Params) (hp : p.valid) (evs : List (Nat × Bytes)) :
    let κ : Nat → Codec := fun j => if j = 0 then Family.codec p else if j = 1 then Family.codec q else Serial.codec
    Proc.framesFor κ 0 (fun _ => []) evs =
      Reasm.run (Family.codec p) (evs.filterMap fun ev => if ev.1 = 0 then some ev.2 else none) := by
  intro κ
  exact codecs_do_not_interfere κ 0 (family_lawful p hp) evs

/-- non-vacuity (round 7): `exC` (XOR footer, 2-byte header behind 0x55) and `exA` (0xAA, CRC-32) in one process, reads
    interleaved and cut inside frames; path 0 delivers its two frames, path 1 its one -/
example :
    let κ : Nat → Codec := fun j => if j = 0 then Family.codec exC else Family.codec exA
    let evs : List (Nat × Bytes) := [(0, [0x55, 0x05]), (1, [0xAA, 0x00, 0x0A]), (0, [0x05, 0x01, 0x54, 0x55]),
      (1, [0x05, 0x00, 0x01, 0x32, 0x81, 0x34, 0x17]), (0, [0x04, 0x02, 0x53])]
    Proc.framesFor κ 0 (fun _ => []) evs = [⟨5, [0x01]⟩, ⟨2, []⟩] ∧
    Proc.framesFor κ 1 (fun _ => []) evs = [⟨5, [0x01]⟩] := by
  decide +kernel
example : (Family.codec exC).frameCreate 5 (some [0x01]) = .ok [0x55, 0x05, 0x05, 0x01, 0x54] ∧
    ([0x55, 0x05, 0x05, 0x01, 0x54] : Bytes).length = (Family.codec exC).hdrLen + 1 + (Family.codec exC).footLen := by
  decide +kernel

end Nxs.C20
