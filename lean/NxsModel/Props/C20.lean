/-
  C20 — custom frame codecs plug in without changing client or device-side behaviour.
  Property theorems only (helper lemmas in Lemmas/Family.lean, Lemmas/Reasm*.lean, Lemmas/SerialLawful.lean).

  `LawfulCodec c` (Codec.lean) is what "honours the frame interface" means.  The client receive path
  (`Reasm.run c`, model of `_read_hdr/_read_frame/_recv_thread`) and the device-side dispatcher
  (`Dispatch.recvHandleWith c`, model of `recv_handle`) are written against the fields of `c` only,
  and every guarantee below is proved for EVERY lawful codec; the built-in serial codec and every
  valid member of the parameterised family (`Family.codec p`: any start byte, header of 3..8 bytes
  with the length (1/2 bytes, LE/BE), id and filler fields in any order behind the start byte, footer
  of 1..4 bytes: XOR / additive sum / CRC-32) are proved lawful, so the C03 / C02-dispatch / C17
  guarantees hold for them as one-line corollaries.
-/
import NxsModel.Gen.FrameUse
import NxsModel.Lemmas.Family
import NxsModel.Props.C03
namespace Nxs.C20
open Nxs
open Nxs.Serial (Hdr Frame)
open Nxs.Dispatch (Disp recvHandle recvHandleWith cbHandle)

/-! ### who honours the interface -/

/-- the built-in serial codec honours the frame interface -/
theorem serial_lawful : LawfulCodec Serial.codec := Serial.codec_lawful

/-- every well-formed member of the parameterised family honours the frame interface — the whole
    family: every start byte, every header layout, every footer kind (XOR, sum of 1..4 bytes LE/BE,
    CRC-32 LE/BE) -/
theorem family_lawful (p : Family.Params) (hp : p.valid) : LawfulCodec (Family.codec p) :=
  Family.codec_lawful p hp

/-- `frame_create` of a family member refuses what does not fit its length field -/
theorem family_create_refuses (p : Family.Params) (fid : Nat) (pl : Bytes) (hfid : fid ≤ 255)
    (h : Family.fits p.fields (Family.hdrLen p + pl.length + p.foot.len) = false) :
    (Family.codec p).frameCreate fid (some pl) = .error .structError :=
  Family.create_refuses p fid pl hfid h

/-! ### device-side dispatch, for every lawful codec -/

/-- the dispatcher model used by C02 / C17 is the codec-generic one at the serial codec -/
theorem serial_dispatch_is_generic : recvHandle = recvHandleWith Serial.codec :=
  Dispatch.recvHandle_eq_with

/-- C02 `dispatch_eq_decode`, generalised: with any lawful codec the dispatcher validates exactly like
    that codec's `frame_decode` on the bytes from the first start byte on, and dispatches on the
    decoded (id, payload) through the same callback table -/
theorem dispatch_eq_decode (c : Codec) (hc : LawfulCodec c) (d : Bytes) :
    recvHandleWith c d =
      match c.hdrFind d with
      | none => .ignored
      | some i =>
        match c.frameDecode (d.drop i) with
        | .ok fr => cbHandle fr.fid fr.data
        | .error _ => .ignored :=
  Dispatch.recvHandleWith_eq hc d

/-- a request built by `frame_create` of the codec is dispatched on exactly (id, payload), whatever
    start-byte-free bytes precede it and whatever follows it -/
theorem created_dispatched (c : Codec) (hc : LawfulCodec c) (fid : Nat) (p f pre post : Bytes)
    (hcr : c.frameCreate fid (some p) = .ok f) (hid : fid ≤ 8) (hpre : ∀ b ∈ pre, b ≠ c.sof) :
    recvHandleWith c (pre ++ f ++ post) = cbHandle fid p := by
  obtain ⟨hdec, h, hh, _⟩ := hc.frameCreate_decode fid p f hcr hid
  have hf0 : c.hdrFind f = some 0 := Reasm.hdrFind_of_hdr hc hh
  rw [dispatch_eq_decode c hc, hc.hdrFind_eq, List.append_assoc,
    findByte_append_of_not_mem c.sof pre (f ++ post) hpre]
  have hf1 : findByte c.sof (f ++ post) = some 0 := by
    rw [hc.hdrFind_eq] at hf0
    cases f with
    | nil => simp [findByte] at hf0
    | cons x xs =>
      have := findByte_some hf0
      simp at this
      rw [List.cons_append, this, findByte_cons_self]
  rw [hf1]
  simp only [Option.map]
  have e : (pre ++ (f ++ post)).drop (0 + pre.length) = f ++ post := by simp
  rw [e, Dispatch.frameDecode_append hc f post _ hdec]

/-- C17 `padded_same`, generalised.  NO side condition on the start byte is needed: the hypothesis
    that the receiver reacts to `w` at all already places the first start byte inside `w`, so the
    appended zeros (in fact any appended bytes) are behind the frame whatever the start byte is.
    (The start byte matters only for `padding_only_ignored` below.) -/
theorem padded_same_generic (c : Codec) (hc : LawfulCodec c) (w : Bytes) (k : Nat)
    (h : recvHandleWith c w ≠ .ignored) :
    recvHandleWith c (w ++ List.replicate k 0) = recvHandleWith c w :=
  Dispatch.recvHandleWith_append hc w _ h

/-- … hence through `data_align` for every padding value -/
theorem aligned_same_generic (c : Codec) (hc : LawfulCodec c) (pad : Nat) (w : Bytes)
    (h : recvHandleWith c w ≠ .ignored) :
    recvHandleWith c (Pad.dataAlign pad w) = recvHandleWith c w := by
  obtain ⟨k, _, _, hk⟩ := Pad.dataAlign_spec pad w
  rw [hk]
  exact padded_same_generic c hc w k h

/-- a write consisting only of padding triggers no reaction — for every lawful codec whose start
    byte is not 0x00 (with start byte 0x00 a run of zeros *is* a run of start bytes and whether it
    is ignored depends on the codec's header / footer rules, not on the interface laws) -/
theorem padding_only_ignored_generic (c : Codec) (hc : LawfulCodec c) (hsof : c.sof ≠ 0) (k : Nat) :
    recvHandleWith c (List.replicate k 0) = .ignored := by
  apply Dispatch.recvHandleWith_nosof hc
  intro x hx
  rw [(List.mem_replicate.mp hx).2]
  exact fun e => hsof e.symm

/-! ### the family: C03, C02-dispatch and C17 instances -/

/-- reassembly is a function of the bytes, not of the chunking, with every family codec -/
theorem family_run_eq_scan (p : Family.Params) (hp : p.valid) (chunks : List Bytes) :
    Reasm.run (Family.codec p) chunks = Reasm.scan (Family.codec p) chunks.flatten :=
  C03.run_eq_scan _ (family_lawful p hp) chunks

theorem family_chunking_independent (p : Family.Params) (hp : p.valid) (cs₁ cs₂ : List Bytes)
    (h : cs₁.flatten = cs₂.flatten) :
    Reasm.run (Family.codec p) cs₁ = Reasm.run (Family.codec p) cs₂ :=
  C03.chunking_independent _ (family_lawful p hp) cs₁ cs₂ h

/-- back-to-back valid frames of a family codec are delivered once each and in order, under every chunking -/
theorem family_back_to_back (p : Family.Params) (hp : p.valid) (fs : List (Bytes × Frame)) (chunks : List Bytes)
    (hfs : ∀ q ∈ fs, (Family.codec p).frameDecode q.1 = .ok q.2 ∧
      ∃ h, (Family.codec p).hdrDecode q.1 = .ok h ∧ h.flen = q.1.length)
    (hch : chunks.flatten = (fs.map (·.1)).flatten) :
    Reasm.run (Family.codec p) chunks = fs.map (·.2) :=
  C03.back_to_back_run _ (family_lawful p hp) fs chunks hfs hch

/-- a frame created by a family codec behind noise without its start byte is delivered, under every chunking -/
theorem family_resync (p : Family.Params) (hp : p.valid) (fid : Nat) (pl f noise rest : Bytes) (chunks : List Bytes)
    (hcr : (Family.codec p).frameCreate fid (some pl) = .ok f) (hid : fid ≤ 8)
    (hn : ∀ b ∈ noise, b ≠ p.sof) (hch : chunks.flatten = noise ++ f ++ rest) :
    Reasm.run (Family.codec p) chunks = ⟨fid, pl⟩ :: Reasm.scan (Family.codec p) rest := by
  rw [family_run_eq_scan p hp, hch]
  exact C03.created_delivered _ (family_lawful p hp) fid pl f noise rest hcr hid hn

/-- … and behind junk whose every header candidate is examined and rejected -/
theorem family_resync_rejected (p : Family.Params) (hp : p.valid) (junk f rest : Bytes) (fr : Frame)
    (hf : (Family.codec p).frameDecode f = .ok fr)
    (hh : ∃ h, (Family.codec p).hdrDecode f = .ok h ∧ h.flen = f.length)
    (hn : ∀ k, k < junk.length → ∀ h, (Family.codec p).hdrDecode ((junk ++ f ++ rest).drop k) = .ok h →
      h.flen ≤ (junk ++ f ++ rest).length - k ∧
        ∀ fr', (Family.codec p).frameDecode (((junk ++ f ++ rest).drop k).take h.flen) ≠ .ok fr') :
    Reasm.scan (Family.codec p) (junk ++ f ++ rest) = fr :: Reasm.scan (Family.codec p) rest :=
  C03.resync_rejected _ (family_lawful p hp) junk f rest fr hf hh hn

/-- only decodable windows of the stream are ever delivered -/
theorem family_only_valid (p : Family.Params) (hp : p.valid) (chunks : List Bytes) (fr : Frame)
    (h : fr ∈ Reasm.run (Family.codec p) chunks) :
    ∃ pre post w, chunks.flatten = pre ++ w ++ post ∧ (Family.codec p).frameDecode w = .ok fr :=
  C03.only_valid_run _ (family_lawful p hp) chunks fr h

theorem family_dispatch_eq_decode (p : Family.Params) (hp : p.valid) (d : Bytes) :
    recvHandleWith (Family.codec p) d =
      match findByte p.sof d with
      | none => .ignored
      | some i =>
        match Family.frameDecode p (d.drop i) with
        | .ok fr => cbHandle fr.fid fr.data
        | .error _ => .ignored :=
  dispatch_eq_decode _ (family_lawful p hp) d

theorem family_padded_same (p : Family.Params) (hp : p.valid) (w : Bytes) (k : Nat)
    (h : recvHandleWith (Family.codec p) w ≠ .ignored) :
    recvHandleWith (Family.codec p) (w ++ List.replicate k 0) = recvHandleWith (Family.codec p) w :=
  padded_same_generic _ (family_lawful p hp) w k h

/-- for the family a padding-only write is ignored whatever the start byte, 0x00 included: a header
    made of zeros declares length 0, below header + footer -/
theorem family_padding_only_ignored (p : Family.Params) (hp : p.valid) (k : Nat) :
    recvHandleWith (Family.codec p) (List.replicate k 0) = .ignored := by
  rw [family_dispatch_eq_decode p hp]
  cases findByte p.sof (List.replicate k 0) with
  | none => rfl
  | some i =>
    simp only [List.drop_replicate]
    obtain ⟨e, he⟩ := Family.frameDecode_zeros p (k - i)
    rw [he]

/-- a request created with a family codec, zero-padded, reaches the callback with exactly its payload -/
theorem family_created_dispatched (p : Family.Params) (hp : p.valid) (fid : Nat) (pl f : Bytes) (k : Nat)
    (hcr : (Family.codec p).frameCreate fid (some pl) = .ok f) (hid : fid ≤ 8) :
    recvHandleWith (Family.codec p) (f ++ List.replicate k 0) = cbHandle fid pl := by
  have := created_dispatched _ (family_lawful p hp) fid pl f [] (List.replicate k 0) hcr hid (by simp)
  simpa using this

/-! ### the code reaches the codec only through the codec object (regenerated every run) -/

/-- `comm.py`, `parse.py`, `parserecv.py`, `nxscope.py`, `intf/dummy.py` contain no frame literal (0x55,
    "<BHB", a 4 / 2 / 6 or any other size constant next to frame data, a `.find(` of the start marker)
    and no direct use of `SerialFrame` outside the default argument: every use is `self._frame.*` /
    `self._parse.frame.*` (table `Gen.FrameUse.uses`) -/
theorem frame_uses_generic : Gen.FrameUse.noFrameLiterals = true := by decide

/-- `_read_hdr` takes `hdr_len`, `hdr_find`, `hdr_decode` from the codec, `_read_frame` `frame_decode`,
    `recv_handle` `hdr_find`, `hdr_len`, `foot_len`, `hdr_decode`, `foot_validate` — the fields
    `Reasm.run c` / `recvHandleWith c` use -/
theorem receive_paths_use_codec : Gen.FrameUse.receiveUsesComplete = true := by decide

/-! ### non-vacuity -/

/-- start byte 0xAA, header S,L2be,I,F (5 bytes), CRC-32 little-endian footer -/
def exA : Family.Params := ⟨0xAA, [.len 2 true, .fid, .fill 0], .crc32 false⟩
/-- start byte 0x00 (!), header S,I,F7e,L1 (4 bytes), 3-byte big-endian sum -/
def exB : Family.Params := ⟨0x00, [.fid, .fill 0x7e, .len 1 false], .sum 3 true⟩
/-- minimal header S,L1,I (3 bytes), XOR footer -/
def exC : Family.Params := ⟨0x55, [.len 1 false, .fid], .xor⟩

example : exA.valid ∧ exB.valid ∧ exC.valid := by decide
/-- CRC-32 check value of "123456789" -/
example : Family.crc32 [0x31, 0x32, 0x33, 0x34, 0x35, 0x36, 0x37, 0x38, 0x39] = 0xCBF43926#32 := by decide +kernel
example : (Family.codec exA).frameCreate 5 (some [0x01]) =
    .ok [0xAA, 0x00, 0x0A, 0x05, 0x00, 0x01, 0x32, 0x81, 0x34, 0x17] := by decide +kernel
example : (Family.codec exC).frameCreate 2 none = .ok [0x55, 0x04, 0x02, 0x53] := by decide +kernel
example : recvHandleWith (Family.codec exC) [0x00, 0x55, 0x04, 0x02, 0x53, 0x00, 0x00] = .fired 0 [] := by
  decide +kernel
/-- split inside the header, an empty read, a damaged frame in front: the good frame is delivered -/
example : Reasm.run (Family.codec exC) [[0x55, 0x05], [], [0x05, 0x02, 0x54], [0x55, 0x05, 0x05], [0x01, 0x54]]
    = [⟨5, [0x01]⟩] := by decide +kernel
/-- the 1-byte length field refuses a 250-byte payload (3 + 250 + 1 = 254 fits, 252 bytes do not) -/
example : (Family.codec exC).frameCreate 1 (some (List.replicate 252 0)) = .error .structError := by
  decide +kernel
/-- not every parameter record is valid: two length fields, no id -/
example : ¬ (⟨0x55, [.len 1 false, .len 2 true], .xor⟩ : Family.Params).valid := by decide

end Nxs.C20
