/-
  C09 — connect / stream / disconnect behave as a clean, repeatable life cycle.
  Property theorems only (helper lemmas in Lemmas/Lifecycle.lean).
  Histories are arbitrary lists of public calls of the high-level handler (`Lifecycle.Call`) or of a bare
  low-level handler (`Lifecycle.CommCall`), starting from a fresh handler in front of a device in any state (idle,
  or left streaming with channels enabled by a previous session) with any static description (`Lifecycle.Desc`).
  A `Desc` is ARBITRARY — any number of entries, any numbers, any bytes as names — and the model does with it what the
  code does: a channel name that is not valid UTF-8 makes connect raise UnicodeDecodeError (`Lifecycle.badNameIdx`,
  `connect_bad_name`: the handler stays switched off, nothing is left running), a name is reported up to its first
  NUL (`ChanDesc.decoded`).  Every theorem below holds for every `Desc` unless it carries the hypothesis `DescOk`
  (a description the client reads back unchanged: names valid UTF-8 without NUL): `state_machine_any_answers`,
  `comm_state_machine`, `reconnect_same_description`, `reconnect_same_description_any_answers`,
  `comm_reconnect_same_description` (their conclusion is "the reported description IS the device's"; the versions
  for every `Desc`, reporting the decoded names, are `state_machine_any_desc` / `comm_state_machine_any_desc`),
  `after_disconnect` (its device-side clause needs the connects of the history to succeed), `connect_ok` and
  `connect_twice` / `comm_connect_twice` (which need the first connect to return).
  `after` is a history in which the device acknowledges every request; `afterA` / `afterC` are histories in which
  every stream start/stop, divider and enable request is answered as an `Ans` record says (acknowledged, rejected
  with a code, applied with the ACK lost, lost).  Time counts the waiting for the device (ACK waits, draining
  polls), in tenths of a second; joining a library thread is bounded by one wait of that thread (C13) and not
  charged.
-/
import NxsModel.Gen.CfgShape
import NxsModel.Lifecycle
import NxsModel.Lemmas.Lifecycle
namespace Nxs.C09
open Nxs Nxs.Lifecycle Nxs.Config

/-- a device the client can be connected to: 0..255 channels, 8-bit dividers -/
def WFDev (d : Device) : Prop :=
  d.en.length ≤ 255 ∧ d.div.length = d.en.length ∧ ∀ v ∈ d.div, 0 ≤ v ∧ v ≤ 255

/-- the state after a history of calls on a fresh high-level handler, everything acknowledged -/
def after (d0 : Device) (started : Bool) (flags : Nat) (calls : List Call) (desc : Desc := Desc.plain d0.en.length) : World :=
  (run (World.fresh d0 started flags desc) calls).1

/-- the state after a history of calls on a fresh high-level handler, the device answering as the history says -/
def afterA (d0 : Device) (started : Bool) (flags : Nat) (desc : Desc) (hist : List (Call × Ans)) : World :=
  (runA (World.fresh d0 started flags desc) hist).1

/-- the state after a history of calls on a fresh bare low-level handler -/
def afterC (d0 : Device) (started : Bool) (flags : Nat) (desc : Desc) (hist : List (CommCall × Ans)) : World :=
  (commRun (World.fresh d0 started flags desc) hist).1

/-- the static description of the device: channel count, flags, rx padding, per channel type / dimension /
    metadata length / name -/
def description (d0 : Device) (flags : Nat) (desc : Desc) : Reported := ⟨d0.en.length, flags, desc.rxpadding, desc.chans⟩

/-- a static description the client can read back unchanged: one entry per channel, every field one byte, names
    valid UTF-8 (`Info.validUtf8`, the strict decoder's acceptance condition) without NUL -/
def DescOk (d0 : Device) (flags : Nat) (desc : Desc) : Prop :=
  desc.chans.length = d0.en.length ∧ flags < 256 ∧ desc.rxpadding < 256 ∧
  ∀ c ∈ desc.chans, c.type < 256 ∧ c.vdim < 256 ∧ c.mlen < 256 ∧ Info.validUtf8 c.name = true ∧ (0 : Byte) ∉ c.name

/-- in front of such a description no connect raises … -/
theorem DescOk.noBadName {d0 : Device} {flags : Nat} {desc : Desc} (hk : DescOk d0 flags desc) :
    badNameIdx d0.en.length desc = none :=
  badNameIdx_none fun c hc => (hk.2.2.2 c hc).2.2.2.1

/-- … and what a connect reports (names cut at the first NUL) is the description itself -/
theorem DescOk.reported {d0 : Device} {flags : Nat} {desc : Desc} (hk : DescOk d0 flags desc) :
    rep d0.en.length flags desc = description d0 flags desc :=
  rep_of_nonul fun c hc => (hk.2.2.2 c hc).2.2.2.2

/-! ### idempotence, both handler levels -/

/-- connect on a connected handler and disconnect on a disconnected one do nothing at all (no request, no time,
    no state change), whatever the device would answer -/
theorem connect_idem (w : World) (a : Ans) (h : w.connected = true) : step w .connect a = (w, .ok) :=
  step_connect_idem w a h
theorem disconnect_idem (w : World) (a : Ans) (h : w.connected = false) : step w .disconnect a = (w, .ok) :=
  step_disconnect_idem w a h

/-- the same for the low-level handler: `CommHandler.connect()` on a started handler and `disconnect()` on a stopped
    one do nothing at all — in particular a repeated connect does not re-initialise the buffered configuration -/
theorem comm_connect_idem (w : World) (a : Ans) (h : w.commStarted = true) : commStep w .connect a = (w, .ok) := by
  rw [commStep_connect, commConnectR_started w h]
theorem comm_disconnect_idem (w : World) (a : Ans) (h : w.commStarted = false) : commStep w .disconnect a = (w, .ok) := by
  rw [commStep_disconnect, commDisconnect_stopped w h]

/-- … so connecting twice is connecting once (when the first connect returns: a connect that raises because a
    channel name is not UTF-8 leaves the handler stopped, and a second connect tries — and raises — again, see
    `connect_bad_name` and the example at the end), and disconnecting twice is disconnecting once, from any state.
    [until review finding R4-C-M4 the model had no failing connect and `comm_connect_twice` / `connect_twice` were
    stated without the hypothesis `h`; without it they are false for a `Desc` with an undecodable name] -/
theorem comm_connect_twice (w : World) (a b : Ans) (h : (commStep w .connect a).2 = .ok) :
    commStep (commStep w .connect a).1 .connect b = ((commStep w .connect a).1, .ok) := by
  apply comm_connect_idem
  rw [commStep_connect] at h ⊢
  rcases commConnectR_cases w with e | ⟨k, -, -, e⟩
  · rw [e]
    cases hs : w.commStarted with
    | true => rw [commConnect_started w hs]; exact hs
    | false => rw [commConnect_stopped w hs]
  · rw [e] at h; exact nomatch h
theorem comm_disconnect_twice (w : World) (a b : Ans) :
    commStep (commStep w .disconnect a).1 .disconnect b = ((commStep w .disconnect a).1, .ok) := by
  apply comm_disconnect_idem
  rw [commStep_disconnect]
  cases h : w.commStarted with
  | false => rw [commDisconnect_stopped w h]; exact h
  | true => rw [commDisconnect_started w h]
theorem connect_twice (w : World) (a b : Ans) (h : (step w .connect a).2 = .ok) :
    step (step w .connect a).1 .connect b = ((step w .connect a).1, .ok) := by
  apply connect_idem
  rw [step_connect] at h ⊢
  cases hc : w.connected with
  | true => exact hc
  | false =>
    rw [hc] at h
    simp only [Bool.false_eq_true, ↓reduceIte] at h ⊢
    generalize commConnectR w = r at *
    obtain ⟨w1, res⟩ := r
    cases res with
    | ok => rfl
    | raised e => exact nomatch (h : Res.raised e = Res.ok)
    | ack s code => exact nomatch (h : Res.ack s code = Res.ok)

/-! ### the state machine -/

/-- the handler is a simple two-state machine: in every reachable state, "disconnected" means no
    receive thread, no stream thread, interface stopped, no device description, stream not started;
    "connected" means receive thread running, interface started, description present; the stream
    thread runs exactly while the stream is started, and the device streams exactly then -/
theorem state_machine (d0 : Device) (started : Bool) (flags : Nat) (desc : Desc) (calls : List Call) (hd : WFDev d0) :
    let w := after d0 started flags calls desc
    (w.connected = false → w.recvThr = false ∧ w.streamThr = false ∧ w.intf = false ∧ w.hasDev = false ∧
        w.commStarted = false ∧ w.streamStarted = false) ∧
    (w.connected = true → w.recvThr = true ∧ w.intf = true ∧ w.hasDev = true ∧ w.commStarted = true ∧
        w.streamThr = w.streamStarted ∧ w.devStarted = w.streamStarted) :=
  c09_state_machine d0 started flags desc calls hd

/-- the same two-state machine whatever the device answers (rejections, lost requests, lost ACKs): only the
    device-side clause (the device streams exactly while the stream is started) needs the acknowledgements;
    a disconnected handler reports no description, a connected one reports the device's static description -/
theorem state_machine_any_answers (d0 : Device) (started : Bool) (flags : Nat) (desc : Desc)
    (hist : List (Call × Ans)) (hd : WFDev d0) (hk : DescOk d0 flags desc) :
    let w := afterA d0 started flags desc hist
    (w.connected = false → w.recvThr = false ∧ w.streamThr = false ∧ w.intf = false ∧ w.hasDev = false ∧
        w.commStarted = false ∧ w.streamStarted = false ∧ w.reported = none) ∧
    (w.connected = true → w.recvThr = true ∧ w.intf = true ∧ w.hasDev = true ∧ w.commStarted = true ∧
        w.streamThr = w.streamStarted ∧ w.reported = some (description d0 flags desc)) :=
  hk.reported ▸ c09_state_machine_any d0 started flags desc hist hd

/-- the same for EVERY static description (any bytes as names): a connected handler reports the device's description
    with every name cut at its first NUL (and it is connected only if every name decodes: `connect_bad_name`) -/
theorem state_machine_any_desc (d0 : Device) (started : Bool) (flags : Nat) (desc : Desc)
    (hist : List (Call × Ans)) (hd : WFDev d0) :
    let w := afterA d0 started flags desc hist
    (w.connected = false → w.recvThr = false ∧ w.streamThr = false ∧ w.intf = false ∧ w.hasDev = false ∧
        w.commStarted = false ∧ w.streamStarted = false ∧ w.reported = none) ∧
    (w.connected = true → w.recvThr = true ∧ w.intf = true ∧ w.hasDev = true ∧ w.commStarted = true ∧
        w.streamThr = w.streamStarted ∧
        w.reported = some ⟨d0.en.length, flags, desc.rxpadding, desc.chans.map ChanDesc.decoded⟩) :=
  c09_state_machine_any d0 started flags desc hist hd

/-- the low-level handler alone: stopped means no receive thread, interface stopped, no description; started means
    receive thread and interface running and the device's static description reported; it never has a stream thread -/
theorem comm_state_machine (d0 : Device) (started : Bool) (flags : Nat) (desc : Desc)
    (hist : List (CommCall × Ans)) (hd : WFDev d0) (hk : DescOk d0 flags desc) :
    let w := afterC d0 started flags desc hist
    (w.commStarted = false → w.recvThr = false ∧ w.intf = false ∧ w.hasDev = false ∧ w.reported = none) ∧
    (w.commStarted = true → w.recvThr = true ∧ w.intf = true ∧ w.hasDev = true ∧
        w.reported = some (description d0 flags desc)) ∧
    w.streamThr = false :=
  hk.reported ▸ c09_comm_state_machine d0 started flags desc hist hd

/-- … for EVERY static description: started means the description is reported with every name cut at its first NUL -/
theorem comm_state_machine_any_desc (d0 : Device) (started : Bool) (flags : Nat) (desc : Desc)
    (hist : List (CommCall × Ans)) (hd : WFDev d0) :
    let w := afterC d0 started flags desc hist
    (w.commStarted = false → w.recvThr = false ∧ w.intf = false ∧ w.hasDev = false ∧ w.reported = none) ∧
    (w.commStarted = true → w.recvThr = true ∧ w.intf = true ∧ w.hasDev = true ∧
        w.reported = some ⟨d0.en.length, flags, desc.rxpadding, desc.chans.map ChanDesc.decoded⟩) ∧
    w.streamThr = false :=
  c09_comm_state_machine d0 started flags desc hist hd

/-! ### calls on a disconnected high-level handler -/

/-- calls made on the high-level handler while disconnected — every call other than connect —
    never reach the device (nothing written, device untouched), never start threads and never
    block (no virtual time passes); they return or raise immediately -/
theorem disconnected_is_inert (d0 : Device) (started : Bool) (flags : Nat) (desc : Desc) (calls : List Call) (c : Call)
    (hd : WFDev d0) (hc : c ≠ .connect) (hdis : (after d0 started flags calls desc).connected = false) :
    let w := after d0 started flags calls desc
    let w' := (step w c).1
    w'.log = w.log ∧ w'.dev = w.dev ∧ w'.devStarted = w.devStarted ∧ w'.time = w.time ∧
    w'.recvThr = false ∧ w'.streamThr = false ∧ w'.intf = false ∧ w'.connected = false :=
  c09_disconnected_is_inert d0 started flags desc calls c hd hc hdis

/-- … also after a history in which the device rejected or lost requests, and whatever it would answer now -/
theorem disconnected_is_inert_any_answers (d0 : Device) (started : Bool) (flags : Nat) (desc : Desc)
    (hist : List (Call × Ans)) (c : Call) (a : Ans) (hd : WFDev d0) (hc : c ≠ .connect)
    (hdis : (afterA d0 started flags desc hist).connected = false) :
    let w := afterA d0 started flags desc hist
    let w' := (step w c a).1
    w'.log = w.log ∧ w'.dev = w.dev ∧ w'.devStarted = w.devStarted ∧ w'.time = w.time ∧
    w'.recvThr = false ∧ w'.streamThr = false ∧ w'.intf = false ∧ w'.connected = false ∧ w'.reported = none :=
  c09_disconnected_is_inert_any d0 started flags desc hist c a hd hc hdis

/-! ### the description -/

/-- every reconnect reports the same static description — the device's: channel count, flags, rx padding and per
    channel type, dimension, metadata length and name — and re-reads the configuration state from the device -/
theorem reconnect_same_description (d0 : Device) (started : Bool) (flags : Nat) (desc : Desc) (calls : List Call)
    (hd : WFDev d0) (hk : DescOk d0 flags desc) :
    let w := after d0 started flags (calls ++ [.connect]) desc
    w.dev.en.length = d0.en.length ∧ w.flags = flags ∧
    (∃ c, w.cli = some c ∧ c.n = d0.en.length ∧ c.enNow = w.dev.en ∧ c.copyEn = w.dev.en ∧
      c.divSupported = Info.divSupported flags ∧ c.ackSupported = Info.ackSupported flags) ∧
    w.reported = some (description d0 flags desc) :=
  hk.reported ▸ c09_reconnect_same_description d0 started flags desc calls hd hk.noBadName

/-- … whatever the device answered during the history: the static description never depends on it -/
theorem reconnect_same_description_any_answers (d0 : Device) (started : Bool) (flags : Nat) (desc : Desc)
    (hist : List (Call × Ans)) (a : Ans) (hd : WFDev d0) (hk : DescOk d0 flags desc) :
    let w := afterA d0 started flags desc (hist ++ [(.connect, a)])
    w.connected = true ∧ w.reported = some (description d0 flags desc) ∧ w.dev.en.length = d0.en.length ∧
    w.flags = flags ∧ w.desc = desc :=
  hk.reported ▸ c09_reconnect_same_description_any d0 started flags desc hist a hd hk.noBadName

theorem comm_reconnect_same_description (d0 : Device) (started : Bool) (flags : Nat) (desc : Desc)
    (hist : List (CommCall × Ans)) (a : Ans) (hd : WFDev d0) (hk : DescOk d0 flags desc) :
    let w := afterC d0 started flags desc (hist ++ [(.connect, a)])
    w.commStarted = true ∧ w.reported = some (description d0 flags desc) :=
  hk.reported ▸ c09_comm_reconnect_same_description d0 started flags desc hist a hd hk.noBadName

/-! ### connect succeeds or fails cleanly -/

/-- in front of a description the client can decode, connect — after any history, whatever the device answered —
    returns and leaves the handler connected -/
theorem connect_ok (d0 : Device) (started : Bool) (flags : Nat) (desc : Desc) (hist : List (Call × Ans)) (a : Ans)
    (hd : WFDev d0) (hk : DescOk d0 flags desc) :
    let w := afterA d0 started flags desc hist
    (step w .connect a).2 = .ok ∧ (step w .connect a).1.connected = true :=
  c09_connect_ok d0 started flags desc hist a hd hk.noBadName

theorem comm_connect_ok (d0 : Device) (started : Bool) (flags : Nat) (desc : Desc) (hist : List (CommCall × Ans))
    (a : Ans) (hd : WFDev d0) (hk : DescOk d0 flags desc) :
    let w := afterC d0 started flags desc hist
    (commStep w .connect a).2 = .ok ∧ (commStep w .connect a).1.commStarted = true :=
  c09_comm_connect_ok d0 started flags desc hist a hd hk.noBadName

/-- the device's channel `k` has a name that is not valid UTF-8 (the first such channel): connect on a disconnected
    handler — after any history — raises UnicodeDecodeError and leaves nothing running: not connected, no receive
    thread, no stream thread, interface stopped, no description, low-level handler stopped, the buffered
    configuration and the device's configuration untouched; it returns within the two draining waits -/
theorem connect_bad_name (d0 : Device) (started : Bool) (flags : Nat) (desc : Desc) (hist : List (Call × Ans)) (a : Ans)
    (k : Nat) (hd : WFDev d0) (hb : badNameIdx d0.en.length desc = some k)
    (hdis : (afterA d0 started flags desc hist).connected = false) :
    let w := afterA d0 started flags desc hist
    let r := step w .connect a
    r.2 = .raised .unicodeError ∧ r.1.connected = false ∧ r.1.recvThr = false ∧ r.1.streamThr = false ∧
    r.1.intf = false ∧ r.1.hasDev = false ∧ r.1.reported = none ∧ r.1.commStarted = false ∧ r.1.cli = w.cli ∧
    r.1.dev = w.dev ∧ r.1.time ≤ w.time + 16 :=
  c09_connect_bad_name d0 started flags desc hist a k hd hb hdis

/-- the same for `CommHandler.connect()` on a stopped low-level handler -/
theorem comm_connect_bad_name (d0 : Device) (started : Bool) (flags : Nat) (desc : Desc) (hist : List (CommCall × Ans))
    (a : Ans) (k : Nat) (hd : WFDev d0) (hb : badNameIdx d0.en.length desc = some k)
    (hdis : (afterC d0 started flags desc hist).commStarted = false) :
    let w := afterC d0 started flags desc hist
    let r := commStep w .connect a
    r.2 = .raised .unicodeError ∧ r.1.connected = false ∧ r.1.recvThr = false ∧ r.1.streamThr = false ∧
    r.1.intf = false ∧ r.1.hasDev = false ∧ r.1.reported = none ∧ r.1.commStarted = false ∧ r.1.cli = w.cli ∧
    r.1.dev = w.dev ∧ r.1.time ≤ w.time + 16 :=
  c09_comm_connect_bad_name d0 started flags desc hist a k hd hb hdis

/-! ### after disconnect -/

/-- after disconnect: no description is reported, no library thread is left, the interface is
    stopped; and if the handler was ever connected the device has been told to stop streaming and
    to disable every channel (its state says so) -/
theorem after_disconnect (d0 : Device) (started : Bool) (flags : Nat) (desc : Desc) (calls : List Call) (hd : WFDev d0)
    (hk : DescOk d0 flags desc) :
    let w := after d0 started flags (calls ++ [.disconnect]) desc
    w.connected = false ∧ w.hasDev = false ∧ w.recvThr = false ∧ w.streamThr = false ∧ w.intf = false ∧
    (Call.connect ∈ calls → w.devStarted = false ∧ ∀ b ∈ w.dev.en, b = false) ∧ w.reported = none :=
  c09_after_disconnect d0 started flags desc calls hd hk.noBadName

/-- whatever the device answers — also when it rejects or ignores the stop and disable requests — disconnect
    completes and leaves the handler switched off: no description, no thread, interface stopped -/
theorem after_disconnect_any_answers (d0 : Device) (started : Bool) (flags : Nat) (desc : Desc)
    (hist : List (Call × Ans)) (a : Ans) (hd : WFDev d0) :
    let w := afterA d0 started flags desc (hist ++ [(.disconnect, a)])
    w.connected = false ∧ w.hasDev = false ∧ w.reported = none ∧ w.recvThr = false ∧ w.streamThr = false ∧
    w.intf = false ∧ w.streamStarted = false ∧ w.commStarted = false :=
  c09_after_disconnect_any d0 started flags desc hist a hd

/-- the low-level handler after `disconnect()`: description forgotten, receive thread stopped, interface stopped -/
theorem comm_after_disconnect (d0 : Device) (started : Bool) (flags : Nat) (desc : Desc)
    (hist : List (CommCall × Ans)) (a : Ans) (hd : WFDev d0) :
    let w := afterC d0 started flags desc (hist ++ [(.disconnect, a)])
    w.commStarted = false ∧ w.hasDev = false ∧ w.reported = none ∧ w.recvThr = false ∧ w.intf = false ∧
    w.streamThr = false :=
  c09_comm_after_disconnect d0 started flags desc hist a hd

/-- a session left streaming by somebody else is stopped by connect itself -/
theorem connect_stops_stream (d0 : Device) (flags : Nat) (desc : Desc) (hd : WFDev d0) :
    (after d0 true flags [.connect] desc).devStarted = false :=
  c09_connect_stops_stream d0 flags desc hd

/-! ### never block -/

/-- every public call returns after waiting for the device at most 3.8 s (high-level: one start/stop ACK wait, two
    configuration ACK waits, the draining polls of connect / disconnect) resp. 2 s (low-level), whatever the device
    answers and in whatever state the handler is -/
theorem call_bounded (w : World) (c : Call) (a : Ans) : (step w c a).1.time ≤ w.time + 38 := step_bounded w c a
theorem comm_call_bounded (w : World) (c : CommCall) (a : Ans) : (commStep w c a).1.time ≤ w.time + 20 :=
  commStep_bounded w c a

/-- the life-cycle methods that `Lifecycle.lean` transcribes are present in the current source
    (regenerated facts): connect (idempotence guard, comm.connect, fresh subscriber lists), disconnect
    (stop stream, disable all + write, comm.disconnect), stream_start/stop (flag guards, request, thread) -/
theorem source_shape :
    Gen.CfgShape.connectShape = true ∧ Gen.CfgShape.disconnectShape = true ∧
    Gen.CfgShape.streamStartStopShape = true ∧ Gen.CfgShape.channelsInitShape = true ∧
    Gen.Comm.startCleansUp = true := by decide

/-! ### non-vacuity -/

example : (after ⟨[false, true, false], [0, 5, 0]⟩ true 3
    [.streamStart, .connect, .connect, .chEnable [0] true, .streamStart, .sub 1, .disconnect]).dev
      = ⟨[false, false, false], [0, 5, 0]⟩ := by decide +kernel

/-- a description with different types, dimensions, metadata lengths, names and an rx padding is reported, and
    reported again after a reconnect during which the device rejected the stop and lost the disable request -/
example :
    let desc : Desc := ⟨[⟨10, 1, 0, [0x61]⟩, ⟨0x85, 3, 2, []⟩, ⟨18, 4, 1, [0xc3, 0xa9]⟩], 8⟩
    (afterA ⟨[false, true, false], [0, 5, 0]⟩ true 3 desc
      [(.connect, {}), (.streamStart, {}), (.disconnect, ⟨.nack 5, .ack, .lost⟩), (.connect, {})]).reported
      = some ⟨3, 3, 8, desc.chans⟩ := by decide +kernel

/-- that description is one the client reads back unchanged (`DescOk`): one byte per field, names valid UTF-8 (one of
    them not ASCII: "é") without NUL -/
example : DescOk ⟨[false, true, false], [0, 5, 0]⟩ 3
    ⟨[⟨10, 1, 0, [0x61]⟩, ⟨0x85, 3, 2, []⟩, ⟨18, 4, 1, [0xc3, 0xa9]⟩], 8⟩ := by
  refine ⟨rfl, by decide, by decide, ?_⟩
  intro c hc
  simp only [List.mem_cons, List.not_mem_nil, or_false] at hc
  rcases hc with rfl | rfl | rfl <;> decide

/-- a channel name that is not UTF-8 (review finding R4-C-M4): connect raises UnicodeDecodeError, the handler stays
    disconnected (the following disconnect is a no-op) … -/
example : (runA (World.fresh ⟨[false, true], [0, 0]⟩ false 3
      ⟨[⟨10, 1, 0, [0xff, 0xfe, 0x61, 0x62]⟩, ⟨10, 1, 0, [0x6f, 0x6b]⟩], 0⟩)
    [(.connect, {}), (.disconnect, {})]).2 = [.raised .unicodeError, .ok] := by decide +kernel

/-- … it is channel 0 whose name does not decode (hypothesis of `connect_bad_name`) … -/
example : badNameIdx 2 ⟨[⟨10, 1, 0, [0xff, 0xfe, 0x61, 0x62]⟩, ⟨10, 1, 0, [0x6f, 0x6b]⟩], 0⟩ = some 0 := by
  decide +kernel

/-- … nothing is left running, and a second connect raises again (why `connect_twice` assumes that the first connect
    returned); the stop request was sent all the same: the stream somebody left running is stopped -/
example :
    let desc : Desc := ⟨[⟨10, 1, 0, [0xff, 0xfe, 0x61, 0x62]⟩, ⟨10, 1, 0, [0x6f, 0x6b]⟩], 0⟩
    let r := runA (World.fresh ⟨[false, true], [0, 0]⟩ true 3 desc) [(.connect, {}), (.connect, {})]
    r.2 = [.raised .unicodeError, .raised .unicodeError] ∧ r.1.connected = false ∧ r.1.recvThr = false ∧
    r.1.intf = false ∧ r.1.hasDev = false ∧ r.1.reported = none ∧ r.1.devStarted = false ∧
    r.1.dev = ⟨[false, true], [0, 0]⟩ := by decide +kernel

/-- the same on a bare low-level handler -/
example : (commRun (World.fresh ⟨[false, true], [0, 0]⟩ false 3
      ⟨[⟨10, 1, 0, [0x6f, 0x6b]⟩, ⟨10, 1, 0, [0xc3]⟩], 0⟩)
    [(.connect, {}), (.channelsWrite, {}), (.disconnect, {})]).2
      = [.raised .unicodeError, .raised .assertion, .ok] := by decide +kernel

/-- a name with a NUL is reported up to the NUL (valid UTF-8, so connect succeeds; such a description is not
    `DescOk`: what is reported differs from the device's name field) -/
example : (afterA ⟨[false], [0]⟩ false 3 ⟨[⟨10, 1, 0, [0x61, 0x00, 0x62]⟩], 0⟩ [(.connect, {})]).reported
      = some ⟨1, 3, 0, [⟨10, 1, 0, [0x61]⟩]⟩ := by decide +kernel

/-- bad bytes after the NUL make connect raise as well (the whole field is decoded before it is cut) -/
example : (runA (World.fresh ⟨[false], [0]⟩ false 3 ⟨[⟨10, 1, 0, [0x61, 0x00, 0xff]⟩], 0⟩) [(.connect, {})]).2
      = [.raised .unicodeError] := by decide +kernel

/-- the low-level handler: a repeated connect keeps the buffered request, which the write then delivers -/
example : (afterC ⟨[false, false], [0, 0]⟩ false 3 (Desc.plain 2)
    [(.connect, {}), (.chEnable [0], {}), (.connect, {}), (.channelsWrite, {})]).dev.en = [true, false] := by
  decide +kernel

/-- non-vacuity of the zero-channel case: a device without channels is well formed … -/
example : WFDev ⟨[], []⟩ := by simp [WFDev]

/-- … and a full life cycle in front of it goes through: no call raises (in particular not the
    `ch_disable_all(True)` inside disconnect), the device ends in the empty state, the handler off -/
example : (run (World.fresh ⟨[], []⟩ true 3) [.connect, .streamStart, .chDisableAll true, .disconnect]).2
      = [.ok, .ok, .ok, .ok] ∧
    (after ⟨[], []⟩ true 3 [.connect, .streamStart, .chDisableAll true, .disconnect]).dev = ⟨[], []⟩ ∧
    (after ⟨[], []⟩ true 3 [.connect, .streamStart, .chDisableAll true, .disconnect]).connected = false ∧
    (after ⟨[], []⟩ true 3 [.connect, .streamStart, .chDisableAll true, .disconnect]).recvThr = false ∧
    (after ⟨[], []⟩ true 3 [.connect, .streamStart, .chDisableAll true, .disconnect]).hasDev = false := by
  decide +kernel

/-- a disconnected state is reachable after a history with failures (hypothesis of `disconnected_is_inert_any_answers`) -/
example : (afterA ⟨[true], [3]⟩ true 3 (Desc.plain 1)
    [(.connect, {}), (.streamStart, ⟨.lost, .nack 1, .appliedAckLost⟩), (.disconnect, ⟨.nack 7, .lost, .lost⟩)]).connected
      = false := by decide +kernel

end Nxs.C09
