/-
  C09 — connect / stream / disconnect behave as a clean, repeatable life cycle.
  Property theorems only (helper lemmas in Lemmas/Lifecycle.lean).
  Histories are arbitrary lists of public calls of the high-level handler (`Lifecycle.Call`),
  starting from a fresh handler in front of a device in any state (idle, or left streaming with
  channels enabled by a previous session); the device acknowledges every request.
-/
import NxsModel.Gen.CfgShape
import NxsModel.Lifecycle
import NxsModel.Lemmas.Lifecycle
namespace Nxs.C09
open Nxs Nxs.Lifecycle Nxs.Config

/-- a device the client can be connected to: 0..255 channels, 8-bit dividers -/
def WFDev (d : Device) : Prop :=
  d.en.length ≤ 255 ∧ d.div.length = d.en.length ∧ ∀ v ∈ d.div, 0 ≤ v ∧ v ≤ 255

/-- the state after a history of calls on a fresh handler -/
def after (d0 : Device) (started : Bool) (flags : Nat) (calls : List Call) : World :=
  (run (World.fresh d0 started flags) calls).1

/-- connect on a connected handler and disconnect on a disconnected one do nothing at all -/
theorem connect_idem (w : World) (h : w.connected = true) : step w .connect = (w, .ok) :=
  step_connect_idem w h
theorem disconnect_idem (w : World) (h : w.connected = false) : step w .disconnect = (w, .ok) :=
  step_disconnect_idem w h

/-- the handler is a simple two-state machine: in every reachable state, "disconnected" means no
    receive thread, no stream thread, interface stopped, no device description, stream not started;
    "connected" means receive thread running, interface started, description present; the stream
    thread runs exactly while the stream is started, and the device streams exactly then -/
theorem state_machine (d0 : Device) (started : Bool) (flags : Nat) (calls : List Call) (hd : WFDev d0) :
    let w := after d0 started flags calls
    (w.connected = false → w.recvThr = false ∧ w.streamThr = false ∧ w.intf = false ∧ w.hasDev = false ∧
        w.commStarted = false ∧ w.streamStarted = false) ∧
    (w.connected = true → w.recvThr = true ∧ w.intf = true ∧ w.hasDev = true ∧ w.commStarted = true ∧
        w.streamThr = w.streamStarted ∧ w.devStarted = w.streamStarted) :=
  c09_state_machine d0 started flags calls hd

/-- calls made on the high-level handler while disconnected — every call other than connect —
    never reach the device (nothing written, device untouched), never start threads and never
    block (no virtual time passes); they return or raise immediately -/
theorem disconnected_is_inert (d0 : Device) (started : Bool) (flags : Nat) (calls : List Call) (c : Call)
    (hd : WFDev d0) (hc : c ≠ .connect) (hdis : (after d0 started flags calls).connected = false) :
    let w := after d0 started flags calls
    let w' := (step w c).1
    w'.log = w.log ∧ w'.dev = w.dev ∧ w'.devStarted = w.devStarted ∧ w'.time = w.time ∧
    w'.recvThr = false ∧ w'.streamThr = false ∧ w'.intf = false ∧ w'.connected = false :=
  c09_disconnected_is_inert d0 started flags calls c hd hc hdis

/-- every reconnect reports the same static description (channel count and flags never change, and
    each connect re-reads the configuration state from the device) -/
theorem reconnect_same_description (d0 : Device) (started : Bool) (flags : Nat) (calls : List Call) (hd : WFDev d0) :
    let w := after d0 started flags (calls ++ [.connect])
    w.dev.en.length = d0.en.length ∧ w.flags = flags ∧
    ∃ c, w.cli = some c ∧ c.n = d0.en.length ∧ c.enNow = w.dev.en ∧ c.copyEn = w.dev.en ∧
      c.divSupported = Info.divSupported flags ∧ c.ackSupported = Info.ackSupported flags :=
  c09_reconnect_same_description d0 started flags calls hd

/-- after disconnect: no description is reported, no library thread is left, the interface is
    stopped; and if the handler was ever connected the device has been told to stop streaming and
    to disable every channel (its state says so) -/
theorem after_disconnect (d0 : Device) (started : Bool) (flags : Nat) (calls : List Call) (hd : WFDev d0) :
    let w := after d0 started flags (calls ++ [.disconnect])
    w.connected = false ∧ w.hasDev = false ∧ w.recvThr = false ∧ w.streamThr = false ∧ w.intf = false ∧
    (Call.connect ∈ calls → w.devStarted = false ∧ ∀ b ∈ w.dev.en, b = false) :=
  c09_after_disconnect d0 started flags calls hd

/-- a session left streaming by somebody else is stopped by connect itself -/
theorem connect_stops_stream (d0 : Device) (flags : Nat) (hd : WFDev d0) :
    (after d0 true flags [.connect]).devStarted = false :=
  c09_connect_stops_stream d0 flags hd

/-- the life-cycle methods that `Lifecycle.lean` transcribes are present in the current source
    (regenerated facts): connect (idempotence guard, comm.connect, fresh subscriber lists), disconnect
    (stop stream, disable all + write, comm.disconnect), stream_start/stop (flag guards, request, thread) -/
theorem source_shape :
    Gen.CfgShape.connectShape = true ∧ Gen.CfgShape.disconnectShape = true ∧
    Gen.CfgShape.streamStartStopShape = true ∧ Gen.CfgShape.channelsInitShape = true ∧
    Gen.Comm.startCleansUp = true := by decide

example : (after ⟨[false, true, false], [0, 5, 0]⟩ true 3
    [.streamStart, .connect, .connect, .chEnable [0] true, .streamStart, .sub 1, .disconnect]).dev
      = ⟨[false, false, false], [0, 5, 0]⟩ := by decide +kernel

/-- non-vacuity of the zero-channel case: a device without channels is well formed … -/
example : WFDev ⟨[], []⟩ := by simp [WFDev]

/-- … and a full life cycle in front of it goes through: no call raises (in particular not the
    `ch_disable_all(True)` inside disconnect), the device ends in the empty state, the handler off -/
example : (run (World.fresh ⟨[], []⟩ true 3) [.connect, .streamStart, .chDisableAll true, .disconnect]).2
      = [.ok, .ok, .ok, .ok] ∧
    (after ⟨[], []⟩ true 3 [.connect, .streamStart, .chDisableAll true, .disconnect]).dev = ⟨[], []⟩ ∧
    (after ⟨[], []⟩ true 3 [.connect, .streamStart, .chDisableAll true, .disconnect]).connected = false ∧
    (after ⟨[], []⟩ true 3 [.connect, .streamStart, .chDisableAll true, .disconnect]).recvThr = false ∧
    (after ⟨[], []⟩ true 3 [.connect, .streamStart, .chDisableAll true, .disconnect]).hasDev = false := by
  decide +kernel

end Nxs.C09
