/-
  C09 — connect / stream / disconnect behave as a clean, repeatable life cycle.
  Property theorems only (helper lemmas in Lemmas/Lifecycle.lean).
  Histories are arbitrary lists of public calls of the high-level handler (`Lifecycle.Call`) or of a bare
  low-level handler (`Lifecycle.CommCall`), starting from a fresh handler in front of a device in any state (idle,
  or left streaming with channels enabled by a previous session) with any static description (`Lifecycle.Desc`).
  A `Desc` is ARBITRARY — any number of entries, any numbers, any bytes as names — and the model does with it what the
  code does: a channel name that is not valid UTF-8 makes connect raise UnicodeDecodeError (`Lifecycle.badNameIdx`,
  `connect_bad_name`: the handler stays switched off, nothing is left running), a name is reported up to its first
  NUL (`ChanDesc.decoded`).  Every theorem below holds for every `Desc` unless it carries the hypothesis `DescOk`
  (a description the client reads back unchanged: names valid UTF-8 without NUL): `state_machine_any_answers`,
  `comm_state_machine`, `reconnect_same_description`, `reconnect_same_description_any_answers`,
  `comm_reconnect_same_description` (their conclusion is "the reported description IS the device's"; the versions
  for every `Desc`, reporting the decoded names, are `state_machine_any_desc` / `comm_state_machine_any_desc`),
  `after_disconnect` (its device-side clause needs the connects of the history to succeed), `connect_ok` and
  `connect_twice` / `comm_connect_twice` (which need the first connect to return).
  `after` is a history in which the device acknowledges every request; `afterA` / `afterC` are histories in which
  every stream start/stop, divider and enable request is answered as an `Ans` record says (acknowledged, rejected
  with a code, applied with the ACK lost, lost).  Time counts the waiting for the device (ACK waits, draining
  polls), in tenths of a second; joining a library thread is bounded by one wait of that thread (C13) and not
  charged.
-/
import NxsModel.Gen.CfgShape
import NxsModel.Lifecycle
import NxsModel.Lemmas.Lifecycle
import NxsModel.Lemmas.R7Lifecycle
namespace Nxs.C09
open Nxs Nxs.Lifecycle Nxs.Config

/-- a device the client can be connected to: 0..255 channels, 8-bit dividers -/
def WFDev (d : Device) : Prop :=
  d.en.length ≤ 255 ∧ d.div.length = d.en.length ∧ ∀ v ∈ d.div, 0 ≤ v ∧ v ≤ 255

/-- the state after a history of calls on a fresh high-level handler, everything acknowledged -/
def after (d0 : Device) (started : Bool) (flags : Nat) (calls : List Call) (desc : Desc := Desc.plain d0.en.length) : World :=
  (run (World.fresh d0 started flags desc) calls).1

/-- the state after a history of calls on a fresh high-level handler, the device answering as the history says -/
def afterA (d0 : Device) (started : Bool) (flags : Nat) (desc : Desc) (hist : List (Call × Ans)) : World :=
  (runA (World.fresh d0 started flags desc) hist).1

/-- the state after a history of calls on a fresh bare low-level handler -/
def afterC (d0 : Device) (started : Bool) (flags : Nat) (desc : Desc) (hist : List (CommCall × Ans)) : World :=
  (commRun (World.fresh d0 started flags desc) hist).1

/-- the static description of the device: channel count, flags, rx padding, per channel type / dimension /
    metadata length / name -/
def description (d0 : Device) (flags : Nat) (desc : Desc) : Reported := ⟨d0.en.length, flags, desc.rxpadding, desc.chans⟩

/-- a static description the client can read back unchanged: one entry per channel, every field one byte, names
    valid UTF-8 (`Info.validUtf8`, the strict decoder's acceptance condition) without NUL -/
def DescOk (d0 : Device) (flags : Nat) (desc : Desc) : Prop :=
  desc.chans.length = d0.en.length ∧ flags < 256 ∧ desc.rxpadding < 256 ∧
  ∀ c ∈ desc.chans, c.type < 256 ∧ c.vdim < 256 ∧ c.mlen < 256 ∧ Info.validUtf8 c.name = true ∧ (0 : Byte) ∉ c.name

/-- in front of such a description no connect raises … -/
theorem DescOk.noBadName {d0 : Device} {flags : Nat} {desc : Desc} (hk : DescOk d0 flags desc) :
    badNameIdx d0.en.length desc = none :=
  badNameIdx_none fun c hc => (hk.2.2.2 c hc).2.2.2.1

/-- … and what a connect reports (names cut at the first NUL) is the description itself -/
theorem DescOk.reported {d0 : Device} {flags : Nat} {desc : Desc} (hk : DescOk d0 flags desc) :
    rep d0.en.length flags desc = description d0 flags desc :=
  rep_of_nonul fun c hc => (hk.2.2.2 c hc).2.2.2.2

/-! ### idempotence, both handler levels -/

/-- connect on a connected handler and disconnect on a disconnected one do nothing at all (no request, no time,
    no state change), whatever the device would answer -/
theorem connect_idem (w : World) (a : Ans) (h : w.connected = true) : step w .connect a = (w, .ok) :=
  step_connect_idem w a h
theorem disconnect_idem (w : World) (a : Ans) (h : w.connected = false) : step w .disconnect a = (w, .ok) :=
  step_disconnect_idem w a h

/-- the same for the low-level handler: `CommHandler.connect()` on a started handler and `disconnect()` on a stopped
    one do nothing at all — in particular a repeated connect does not re-initialise the buffered configuration -/
theorem comm_connect_idem (w : World) (a : Ans) (h : w.commStarted = true) : commStep w .connect a = (w, .ok) := by
  rw [commStep_connect, commConnectR_started w h]
theorem comm_disconnect_idem (w : World) (a : Ans) (h : w.commStarted = false) : commStep w .disconnect a = (w, .ok) := by
  rw [commStep_disconnect, commDisconnect_stopped w h]

/-- … so connecting twice is connecting once (when the first connect returns: a connect that raises because a
    channel name is not UTF-8 leaves the handler stopped, and a second connect tries — and raises — again, see
    `connect_bad_name` and the example at the end), and disconnecting twice is disconnecting once, from any state.
    [until review finding R4-C-M4 the model had no failing connect and `comm_connect_twice` / `connect_twice` were
    stated without the hypothesis `h`; without it they are false for a `Desc` with an undecodable name] -/
theorem comm_connect_twice (w : World) (a b : Ans) (h : (commStep w .connect a).2 = .ok) :
    commStep (commStep w .connect a).1 .connect b = ((commStep w .connect a).1, .ok) := by
  apply comm_connect_idem
  rw [commStep_connect] at h ⊢
  rcases commConnectR_cases w with e | ⟨k, -, -, e⟩
  · rw [e]
    cases hs : w.commStarted with
    | true => rw [commConnect_started w hs]; exact hs
    | false => rw [commConnect_stopped w hs]
  · rw [e] at h; exact nomatch h
theorem comm_disconnect_twice (w : World) (a b : Ans) :
    commStep (commStep w .disconnect a).1 .disconnect b = ((commStep w .disconnect a).1, .ok) := by
  apply comm_disconnect_idem
  rw [commStep_disconnect]
  cases h : w.commStarted with
  | false => rw [commDisconnect_stopped w h]; exact h
  | true => rw [commDisconnect_started w h]
theorem connect_twice (w : World) (a b : Ans) (h : (step w .connect a).2 = .ok) :
    step (step w .connect a).1 .connect b = ((step w .connect a).1, .ok) := by
  apply connect_idem
  rw [step_connect] at h ⊢
  cases hc : w.connected with
  | true => exact hc
  | false =>
    rw [hc] at h
    simp only [Bool.false_eq_true, ↓reduceIte] at h ⊢
    generalize commConnectR w = r at *
    obtain ⟨w1, res⟩ := r
    cases res with
    | ok => rfl
    | raised e => exact nomatch (h : Res.raised e = Res.ok)
    | ack s code => exact nomatch (h : Res.ack s code = Res.ok)

/-! ### the state machine -/

/-- the handler is a simple two-state machine: in every reachable state, "disconnected" means no
    receive thread, no stream thread, interface stopped, no device description, stream not started;
    "connected" means receive thread running, interface started, description present; the stream
    thread runs exactly while the stream is started, and the device streams exactly then -/
theorem state_machine (d0 : Device) (started : Bool) (flags : Nat) (desc : Desc) (calls : List Call) (hd : WFDev d0) :
    let w := after d0 started flags calls desc
    (w.connected = false → w.recvThr = false ∧ w.streamThr = false ∧ w.intf = false ∧ w.hasDev = false ∧
        w.commStarted = false ∧ w.streamStarted = false) ∧
    (w.connected = true → w.recvThr = true ∧ w.intf = true ∧ w.hasDev = true ∧ w.commStarted = true ∧
        w.streamThr = w.streamStarted ∧ w.devStarted = w.streamStarted) :=
  c09_state_machine d0 started flags desc calls hd

/-- the same two-state machine whatever the device answers (rejections, lost requests, lost ACKs): only the
    device-side clause (the device streams exactly while the stream is started) needs the acknowledgements;
    a disconnected handler reports no description, a connected one reports the device's static description -/
theorem state_machine_any_answers (d0 : Device) (started : Bool) (flags : Nat) (desc : Desc)
    (hist : List (Call × Ans)) (hd : WFDev d0) (hk : DescOk d0 flags desc) :
    let w := afterA d0 started flags desc hist
    (w.connected = false → w.recvThr = false ∧ w.streamThr = false ∧ w.intf = false ∧ w.hasDev = false ∧
        w.commStarted = false ∧ w.streamStarted = false ∧ w.reported = none) ∧
    (w.connected = true → w.recvThr = true ∧ w.intf = true ∧ w.hasDev = true ∧ w.commStarted = true ∧
        w.streamThr = w.streamStarted ∧ w.reported = some (description d0 flags desc)) :=
  hk.reported ▸ c09_state_machine_any d0 started flags desc hist hd

/-- the same for EVERY static description (any bytes as names): a connected handler reports the device's description
    with every name cut at its first NUL (and it is connected only if every name decodes: `connect_bad_name`) -/
theorem state_machine_any_desc (d0 : Device) (started : Bool) (flags : Nat) (desc : Desc)
    (hist : List (Call × Ans)) (hd : WFDev d0) :
    let w := afterA d0 started flags desc hist
    (w.connected = false → w.recvThr = false ∧ w.streamThr = false ∧ w.intf = false ∧ w.hasDev = false ∧
        w.commStarted = false ∧ w.streamStarted = false ∧ w.reported = none) ∧
    (w.connected = true → w.recvThr = true ∧ w.intf = true ∧ w.hasDev = true ∧ w.commStarted = true ∧
        w.streamThr = w.streamStarted ∧
        w.reported = some ⟨d0.en.length, flags, desc.rxpadding, desc.chans.map ChanDesc.decoded⟩) :=
  c09_state_machine_any d0 started flags desc hist hd

/-- the low-level handler alone: stopped means no receive thread, interface stopped, no description; started means
    receive thread and interface running and the device's static description reported; it never has a stream thread -/
theorem comm_state_machine (d0 : Device) (started : Bool) (flags : Nat) (desc : Desc)
    (hist : List (CommCall × Ans)) (hd : WFDev d0) (hk : DescOk d0 flags desc) :
    let w := afterC d0 started flags desc hist
    (w.commStarted = false → w.recvThr = false ∧ w.intf = false ∧ w.hasDev = false ∧ w.reported = none) ∧
    (w.commStarted = true → w.recvThr = true ∧ w.intf = true ∧ w.hasDev = true ∧
        w.reported = some (description d0 flags desc)) ∧
    w.streamThr = false :=
  hk.reported ▸ c09_comm_state_machine d0 started flags desc hist hd

/-- … for EVERY static description: started means the description is reported with every name cut at its first NUL -/
theorem comm_state_machine_any_desc (d0 : Device) (started : Bool) (flags : Nat) (desc : Desc)
    (hist : List (CommCall × Ans)) (hd : WFDev d0) :
    let w := afterC d0 started flags desc hist
    (w.commStarted = false → w.recvThr = false ∧ w.intf = false ∧ w.hasDev = false ∧ w.reported = none) ∧
    (w.commStarted = true → w.recvThr = true ∧ w.intf = true ∧ w.hasDev = true ∧
        w.reported = some ⟨d0.en.length, flags, desc.rxpadding, desc.chans.map ChanDesc.decoded⟩) ∧
    w.streamThr = false :=
  c09_comm_state_machine d0 started flags desc hist hd

/-! ### calls on a disconnected high-level handler -/

/-- calls made on the high-level handler while disconnected — every call other than connect —
    never reach the device (nothing written, device untouched), never start threads and never
    block (no virtual time passes); they return or raise immediately -/
theorem disconnected_is_inert (d0 : Device) (started : Bool) (flags : Nat) (desc : Desc) (calls : List Call) (c : Call)
    (hd : WFDev d0) (hc : c ≠ .connect) (hdis : (after d0 started flags calls desc).connected = false) :
    let w := after d0 started flags calls desc
    let w' := (step w c).1
    w'.log = w.log ∧ w'.dev = w.dev ∧ w'.devStarted = w.devStarted ∧ w'.time = w.time ∧
    w'.recvThr = false ∧ w'.streamThr = false ∧ w'.intf = false ∧ w'.connected = false :=
  c09_disconnected_is_inert d0 started flags desc calls c hd hc hdis

/-- … also after a history in which the device rejected or lost requests, and whatever it would answer now -/
theorem disconnected_is_inert_any_answers (d0 : Device) (started : Bool) (flags : Nat) (desc : Desc)
    (hist : List (Call × Ans)) (c : Call) (a : Ans) (hd : WFDev d0) (hc : c ≠ .connect)
    (hdis : (afterA d0 started flags desc hist).connected = false) :
    let w := afterA d0 started flags desc hist
    let w' := (step w c a).1
    w'.log = w.log ∧ w'.dev = w.dev ∧ w'.devStarted = w.devStarted ∧ w'.time = w.time ∧
    w'.recvThr = false ∧ w'.streamThr = false ∧ w'.intf = false ∧ w'.connected = false ∧ w'.reported = none :=
  c09_disconnected_is_inert_any d0 started flags desc hist c a hd hc hdis

/-! ### the description -/

/-- every reconnect reports the same static description — the device's: channel count, flags, rx padding and per
    channel type, dimension, metadata length and name — and re-reads the configuration state from the device -/
theorem reconnect_same_description (d0 : Device) (started : Bool) (flags : Nat) (desc : Desc) (calls : List Call)
    (hd : WFDev d0) (hk : DescOk d0 flags desc) :
    let w := after d0 started flags (calls ++ [.connect]) desc
    w.dev.en.length = d0.en.length ∧ w.flags = flags ∧
    (∃ c, w.cli = some c ∧ c.n = d0.en.length ∧ c.enNow = w.dev.en ∧ c.copyEn = w.dev.en ∧
      c.divSupported = Info.divSupported flags ∧ c.ackSupported = Info.ackSupported flags) ∧
    w.reported = some (description d0 flags desc) :=
  hk.reported ▸ c09_reconnect_same_description d0 started flags desc calls hd hk.noBadName

/-- … whatever the device answered during the history: the static description never depends on it -/
theorem reconnect_same_description_any_answers (d0 : Device) (started : Bool) (flags : Nat) (desc : Desc)
    (hist : List (Call × Ans)) (a : Ans) (hd : WFDev d0) (hk : DescOk d0 flags desc) :
    let w := afterA d0 started flags desc (hist ++ [(.connect, a)])
    w.connected = true ∧ w.reported = some (description d0 flags desc) ∧ w.dev.en.length = d0.en.length ∧
    w.flags = flags ∧ w.desc = desc :=
  hk.reported ▸ c09_reconnect_same_description_any d0 started flags desc hist a hd hk.noBadName

theorem comm_reconnect_same_description (d0 : Device) (started : Bool) (flags : Nat) (desc : Desc)
    (hist : List (CommCall × Ans)) (a : Ans) (hd : WFDev d0) (hk : DescOk d0 flags desc) :
    let w := afterC d0 started flags desc (hist ++ [(.connect, a)])
    w.commStarted = true ∧ w.reported = some (description d0 flags desc) :=
  hk.reported ▸ c09_comm_reconnect_same_description d0 started flags desc hist a hd hk.noBadName

/-! ### connect succeeds or fails cleanly -/

/-- in front of a description the client can decode, connect — after any history, whatever the device answered —
    returns and leaves the handler connected -/
theorem connect_ok (d0 : Device) (started : Bool) (flags : Nat) (desc : Desc) (hist : List (Call × Ans)) (a : Ans)
    (hd : WFDev d0) (hk : DescOk d0 flags desc) :
    let w := afterA d0 started flags desc hist
    (step w .connect a).2 = .ok ∧ (step w .connect a).1.connected = true :=
  c09_connect_ok d0 started flags desc hist a hd hk.noBadName

theorem comm_connect_ok (d0 : Device) (started : Bool) (flags : Nat) (desc : Desc) (hist : List (CommCall × Ans))
    (a : Ans) (hd : WFDev d0) (hk : DescOk d0 flags desc) :
    let w := afterC d0 started flags desc hist
    (commStep w .connect a).2 = .ok ∧ (commStep w .connect a).1.commStarted = true :=
  c09_comm_connect_ok d0 started flags desc hist a hd hk.noBadName

/-- the device's channel `k` has a name that is not valid UTF-8 (the first such channel): connect on a disconnected
    handler — after any history — raises UnicodeDecodeError and leaves nothing running: not connected, no receive
    thread, no stream thread, interface stopped, no description, low-level handler stopped, the buffered
    configuration and the device's configuration untouched; it returns within the two draining waits -/
theorem connect_bad_name (d0 : Device) (started : Bool) (flags : Nat) (desc : Desc) (hist : List (Call × Ans)) (a : Ans)
    (k : Nat) (hd : WFDev d0) (hb : badNameIdx d0.en.length desc = some k)
    (hdis : (afterA d0 started flags desc hist).connected = false) :
    let w := afterA d0 started flags desc hist
    let r := step w .connect a
    r.2 = .raised .unicodeError ∧ r.1.connected = false ∧ r.1.recvThr = false ∧ r.1.streamThr = false ∧
    r.1.intf = false ∧ r.1.hasDev = false ∧ r.1.reported = none ∧ r.1.commStarted = false ∧ r.1.cli = w.cli ∧
    r.1.dev = w.dev ∧ r.1.time ≤ w.time + 16 :=
  c09_connect_bad_name d0 started flags desc hist a k hd hb hdis

/-- the same for `CommHandler.connect()` on a stopped low-level handler -/
theorem comm_connect_bad_name (d0 : Device) (started : Bool) (flags : Nat) (desc : Desc) (hist : List (CommCall × Ans))
    (a : Ans) (k : Nat) (hd : WFDev d0) (hb : badNameIdx d0.en.length desc = some k)
    (hdis : (afterC d0 started flags desc hist).commStarted = false) :
    let w := afterC d0 started flags desc hist
    let r := commStep w .connect a
    r.2 = .raised .unicodeError ∧ r.1.connected = false ∧ r.1.recvThr = false ∧ r.1.streamThr = false ∧
    r.1.intf = false ∧ r.1.hasDev = false ∧ r.1.reported = none ∧ r.1.commStarted = false ∧ r.1.cli = w.cli ∧
    r.1.dev = w.dev ∧ r.1.time ≤ w.time + 16 :=
  c09_comm_connect_bad_name d0 started flags desc hist a k hd hb hdis

/-! ### after disconnect -/

/-- after disconnect: no description is reported, no library thread is left, the interface is
    stopped; and if the handler was ever connected the device has been told to stop streaming and
    to disable every channel (its state says so) -/
theorem after_disconnect (d0 : Device) (started : Bool) (flags : Nat) (desc : Desc) (calls : List Call) (hd : WFDev d0)
    (hk : DescOk d0 flags desc) :
    let w := after d0 started flags (calls ++ [.disconnect]) desc
    w.connected = false ∧ w.hasDev = false ∧ w.recvThr = false ∧ w.streamThr = false ∧ w.intf = false ∧
    (Call.connect ∈ calls → w.devStarted = false ∧ ∀ b ∈ w.dev.en, b = false) ∧ w.reported = none :=
  c09_after_disconnect d0 started flags desc calls hd hk.noBadName

/-- whatever the device answers — also when it rejects or ignores the stop and disable requests — disconnect
    completes and leaves the handler switched off: no description, no thread, interface stopped -/
theorem after_disconnect_any_answers (d0 : Device) (started : Bool) (flags : Nat) (desc : Desc)
    (hist : List (Call × Ans)) (a : Ans) (hd : WFDev d0) :
    let w := afterA d0 started flags desc (hist ++ [(.disconnect, a)])
    w.connected = false ∧ w.hasDev = false ∧ w.reported = none ∧ w.recvThr = false ∧ w.streamThr = false ∧
    w.intf = false ∧ w.streamStarted = false ∧ w.commStarted = false :=
  c09_after_disconnect_any d0 started flags desc hist a hd

/-- the low-level handler after `disconnect()`: description forgotten, receive thread stopped, interface stopped -/
theorem comm_after_disconnect (d0 : Device) (started : Bool) (flags : Nat) (desc : Desc)
    (hist : List (CommCall × Ans)) (a : Ans) (hd : WFDev d0) :
    let w := afterC d0 started flags desc (hist ++ [(.disconnect, a)])
    w.commStarted = false ∧ w.hasDev = false ∧ w.reported = none ∧ w.recvThr = false ∧ w.intf = false ∧
    w.streamThr = false :=
  c09_comm_after_disconnect d0 started flags desc hist a hd

/-- a session left streaming by somebody else is stopped by connect itself -/
theorem connect_stops_stream (d0 : Device) (flags : Nat) (desc : Desc) (hd : WFDev d0) :
    (after d0 true flags [.connect] desc).devStarted = false :=
  c09_connect_stops_stream d0 flags desc hd

/-! ### never block -/

/-- every public call returns after waiting for the device at most 3.8 s (high-level: one start/stop ACK wait, two
    configuration ACK waits, the draining polls of connect / disconnect) resp. 2 s (low-level), whatever the device
    answers and in whatever state the handler is -/
theorem call_bounded (w : World) (c : Call) (a : Ans) : (step w c a).1.time ≤ w.time + 38 := step_bounded w c a
theorem comm_call_bounded (w : World) (c : CommCall) (a : Ans) : (commStep w c a).1.time ≤ w.time + 20 :=
  commStep_bounded w c a

/-- the life-cycle methods that `Lifecycle.lean` transcribes are present in the current source
    (regenerated facts): connect (idempotence guard, comm.connect, fresh subscriber lists), disconnect
    (stop stream, disable all + write, comm.disconnect), stream_start/stop (flag guards, request, thread) -/
theorem source_shape :
    Gen.CfgShape.connectShape = true ∧ Gen.CfgShape.disconnectShape = true ∧
    Gen.CfgShape.streamStartStopShape = true ∧ Gen.CfgShape.channelsInitShape = true ∧
    Gen.Comm.startCleansUp = true := by decide

/-! ### non-vacuity -/

example : (after ⟨[false, true, false], [0, 5, 0]⟩ true 3
    [.streamStart, .connect, .connect, .chEnable [0] true, .streamStart, .sub 1, .disconnect]).dev
      = ⟨[false, false, false], [0, 5, 0]⟩ := by decide +kernel

/-- a description with different types, dimensions, metadata lengths, names and an rx padding is reported, and
    reported again after a reconnect during which the device rejected the stop and lost the disable request -/
example :
    let desc : Desc := ⟨[⟨10, 1, 0, [0x61]⟩, ⟨0x85, 3, 2, []⟩, ⟨18, 4, 1, [0xc3, 0xa9]⟩], 8⟩
    (afterA ⟨[false, true, false], [0, 5, 0]⟩ true 3 desc
      [(.connect, {}), (.streamStart, {}), (.disconnect, ⟨.nack 5, .ack, .lost⟩), (.connect, {})]).reported
      = some ⟨3, 3, 8, desc.chans⟩ := by decide +kernel

/-- that description is one the client reads back unchanged (`DescOk`): one byte per field, names valid UTF-8 (one of
    them not ASCII: "é") without NUL -/
example : DescOk ⟨[false, true, false], [0, 5, 0]⟩ 3
    ⟨[⟨10, 1, 0, [0x61]⟩, ⟨0x85, 3, 2, []⟩, ⟨18, 4, 1, [0xc3, 0xa9]⟩], 8⟩ := by
  refine ⟨rfl, by decide, by decide, ?_⟩
  intro c hc
  simp only [List.mem_cons, List.not_mem_nil, or_false] at hc
  rcases hc with rfl | rfl | rfl <;> decide

/-- a channel name that is not UTF-8 (review finding R4-C-M4): connect raises UnicodeDecodeError, the handler stays
    disconnected (the following disconnect is a no-op) … -/
example : (runA (World.fresh ⟨[false, true], [0, 0]⟩ false 3
      ⟨[⟨10, 1, 0, [0xff, 0xfe, 0x61, 0x62]⟩, ⟨10, 1, 0, [0x6f, 0x6b]⟩], 0⟩)
    [(.connect, {}), (.disconnect, {})]).2 = [.raised .unicodeError, .ok] := by decide +kernel

/-- … it is channel 0 whose name does not decode (hypothesis of `connect_bad_name`) … -/
example : badNameIdx 2 ⟨[⟨10, 1, 0, [0xff, 0xfe, 0x61, 0x62]⟩, ⟨10, 1, 0, [0x6f, 0x6b]⟩], 0⟩ = some 0 := by
  decide +kernel

/-- … nothing is left running, and a second connect raises again (why `connect_twice` assumes that the first connect
    returned); the stop request was sent all the same: the stream somebody left running is stopped -/
example :
    let desc : Desc := ⟨[⟨10, 1, 0, [0xff, 0xfe, 0x61, 0x62]⟩, ⟨10, 1, 0, [0x6f, 0x6b]⟩], 0⟩
    let r := runA (World.fresh ⟨[false, true], [0, 0]⟩ true 3 desc) [(.connect, {}), (.connect, {})]
    r.2 = [.raised .unicodeError, .raised .unicodeError] ∧ r.1.connected = false ∧ r.1.recvThr = false ∧
    r.1.intf = false ∧ r.1.hasDev = false ∧ r.1.reported = none ∧ r.1.devStarted = false ∧
    r.1.dev = ⟨[false, true], [0, 0]⟩ := by decide +kernel

/-- the same on a bare low-level handler -/
example : (commRun (World.fresh ⟨[false, true], [0, 0]⟩ false 3
      ⟨[⟨10, 1, 0, [0x6f, 0x6b]⟩, ⟨10, 1, 0, [0xc3]⟩], 0⟩)
    [(.connect, {}), (.channelsWrite, {}), (.disconnect, {})]).2
      = [.raised .unicodeError, .raised .assertion, .ok] := by decide +kernel

/-- a name with a NUL is reported up to the NUL (valid UTF-8, so connect succeeds; such a description is not
    `DescOk`: what is reported differs from the device's name field) -/
example : (afterA ⟨[false], [0]⟩ false 3 ⟨[⟨10, 1, 0, [0x61, 0x00, 0x62]⟩], 0⟩ [(.connect, {})]).reported
      = some ⟨1, 3, 0, [⟨10, 1, 0, [0x61]⟩]⟩ := by decide +kernel

/-- bad bytes after the NUL make connect raise as well (the whole field is decoded before it is cut) -/
example : (runA (World.fresh ⟨[false], [0]⟩ false 3 ⟨[⟨10, 1, 0, [0x61, 0x00, 0xff]⟩], 0⟩) [(.connect, {})]).2
      = [.raised .unicodeError] := by decide +kernel

/-- the low-level handler: a repeated connect keeps the buffered request, which the write then delivers -/
example : (afterC ⟨[false, false], [0, 0]⟩ false 3 (Desc.plain 2)
    [(.connect, {}), (.chEnable [0], {}), (.connect, {}), (.channelsWrite, {})]).dev.en = [true, false] := by
  decide +kernel

/-- non-vacuity of the zero-channel case: a device without channels is well formed … -/
example : WFDev ⟨[], []⟩ := by simp [WFDev]

/-- … and a full life cycle in front of it goes through: no call raises (in particular not the
    `ch_disable_all(True)` inside disconnect), the device ends in the empty state, the handler off -/
example : (run (World.fresh ⟨[], []⟩ true 3) [.connect, .streamStart, .chDisableAll true, .disconnect]).2
      = [.ok, .ok, .ok, .ok] ∧
    (after ⟨[], []⟩ true 3 [.connect, .streamStart, .chDisableAll true, .disconnect]).dev = ⟨[], []⟩ ∧
    (after ⟨[], []⟩ true 3 [.connect, .streamStart, .chDisableAll true, .disconnect]).connected = false ∧
    (after ⟨[], []⟩ true 3 [.connect, .streamStart, .chDisableAll true, .disconnect]).recvThr = false ∧
    (after ⟨[], []⟩ true 3 [.connect, .streamStart, .chDisableAll true, .disconnect]).hasDev = false := by
  decide +kernel

/-- a disconnected state is reachable after a history with failures (hypothesis of `disconnected_is_inert_any_answers`) -/
example : (afterA ⟨[true], [3]⟩ true 3 (Desc.plain 1)
    [(.connect, {}), (.streamStart, ⟨.lost, .nack 1, .appliedAckLost⟩), (.disconnect, ⟨.nack 7, .lost, .lost⟩)]).connected
      = false := by decide +kernel

/-! ## Round 7 additions (helper lemmas in Lemmas/R7Lifecycle.lean)

  Whole histories instead of single calls: a bracketed session repairs what failed sessions left; histories without
  a connect on a disconnected handler are inert; redundant connect / disconnect calls can be dropped from a history
  without any other call noticing; the waiting time of a history; the reported description does not depend on the
  device's dynamic state or on the history. -/

/-- a reachable disconnected world is switched off (helper: the reachable-world invariant has two modes) -/
theorem off_of_disconnected (d0 : Device) (started : Bool) (flags : Nat) (desc : Desc) (hist : List (Call × Ans))
    (hd : WFDev d0) (hdis : (afterA d0 started flags desc hist).connected = false) :
    Off (afterA d0 started flags desc hist) := by
  rcases (reachA d0 started flags desc hd hist).mode with hoff | hon
  · exact hoff
  · exact absurd (hdis.symm.trans hon.1) (by decide)

/-- A WELL-BRACKETED SESSION RETURNS TO THE INITIAL OBSERVABLE STATE, WHATEVER HAPPENED BEFORE.  After ANY earlier
    history — including sessions in which the device rejected or lost the stop / disable requests, so that it was left
    streaming with channels enabled — that ends disconnected, a session `connect, <any calls>, disconnect` in which the
    device acknowledges leaves: handler disconnected, no receive / stream thread, interface stopped, low level
    stopped, no description, the device's stream stopped and every channel disabled.
    (for all devices, initial states, descriptions the client can decode, earlier histories with any answers, and
    all lists of calls between the connect and the disconnect — further connects / disconnects included) -/
theorem session_restores_initial (d0 : Device) (started : Bool) (flags : Nat) (desc : Desc)
    (before : List (Call × Ans)) (mid : List Call) (hd : WFDev d0) (hk : DescOk d0 flags desc)
    (hdis : (afterA d0 started flags desc before).connected = false) :
    let w := (run (afterA d0 started flags desc before) (.connect :: mid ++ [.disconnect])).1
    w.connected = false ∧ w.recvThr = false ∧ w.streamThr = false ∧ w.intf = false ∧ w.hasDev = false ∧
    w.commStarted = false ∧ w.streamStarted = false ∧ w.reported = none ∧
    w.devStarted = false ∧ (∀ b ∈ w.dev.en, b = false) ∧ w.dev.en.length = d0.en.length := by
  intro w
  have h0 := reachA d0 started flags desc hd before
  obtain ⟨hoff, h1, h2⟩ := r7_session h0 hdis hk.noBadName mid
  have f := hoff.facts
  have hl := (r7_reach_from h0 (fun hc => absurd (hdis.symm.trans hc) (by decide))
    (.connect :: mid ++ [.disconnect])).1.base.len
  exact ⟨hoff.1, f.1, f.2.1, f.2.2.1, f.2.2.2.1, f.2.2.2.2.1, f.2.2.2.2.2.1, f.2.2.2.2.2.2, h1, h2, hl⟩

/-- instance: a first session in which the device lost the stop and the enable request of disconnect leaves it
    streaming with channel 0 enabled; the next (acknowledged) session — with a redundant connect, a subscription,
    a stream start and an early disconnect in the middle — leaves it stopped with everything disabled -/
example :
    let before : List (Call × Ans) :=
      [(.connect, {}), (.chEnable [0] true, {}), (.streamStart, {}), (.disconnect, ⟨.lost, .ack, .lost⟩)]
    let w0 := afterA ⟨[false, true], [0, 5]⟩ false 3 (Desc.plain 2) before
    let w := (run w0 (.connect :: [.connect, .sub 1, .chEnable [-1] true, .streamStart, .disconnect, .connect]
                ++ [.disconnect])).1
    w0.connected = false ∧ w0.devStarted = true ∧ w0.dev.en = [true, true] ∧
    w.connected = false ∧ w.devStarted = false ∧ w.dev.en = [false, false] ∧ w.reported = none := by
  decide +kernel

/-- WHOLE HISTORIES ON A DISCONNECTED HANDLER ARE INERT.  On a disconnected handler (after any history, any answers)
    no sequence of calls that contains no connect — however long, whatever the device would answer — reaches the
    device (no frame written, device configuration and stream state untouched), starts a thread or waits; the handler
    stays disconnected without description.  (`disconnected_is_inert_any_answers` is the one-call case.) -/
theorem disconnected_history_is_inert (d0 : Device) (started : Bool) (flags : Nat) (desc : Desc)
    (hist more : List (Call × Ans)) (hd : WFDev d0) (hc : ∀ c ∈ more, c.1 ≠ .connect)
    (hdis : (afterA d0 started flags desc hist).connected = false) :
    let w := afterA d0 started flags desc hist
    let w' := afterA d0 started flags desc (hist ++ more)
    w'.log = w.log ∧ w'.dev = w.dev ∧ w'.devStarted = w.devStarted ∧ w'.time = w.time ∧
    w'.recvThr = false ∧ w'.streamThr = false ∧ w'.intf = false ∧ w'.connected = false ∧ w'.reported = none := by
  intro w w'
  have hoff := off_of_disconnected d0 started flags desc hist hd hdis
  have e : w' = (runA w more).1 := by
    show (runA _ (hist ++ more)).1 = _
    rw [runA_append]; rfl
  obtain ⟨o, l, dv, ds, t, -⟩ := r7_runA_off w more hc hoff
  rw [e]
  have f := o.facts
  exact ⟨l, dv, ds, t, f.1, f.2.1, f.2.2.1, o.1, f.2.2.2.2.2.2⟩

/-- instance: after a session, nine more calls (none a connect) with hostile answers: nothing written, no time -/
example :
    let hist : List (Call × Ans) := [(.connect, {}), (.streamStart, {}), (.disconnect, {})]
    let more : List (Call × Ans) :=
      [(.streamStart, ⟨.lost, .lost, .lost⟩), (.chEnable [0] true, ⟨.nack 3, .nack 3, .nack 3⟩), (.sub 0, {}),
       (.disconnect, {}), (.channelsWrite, {}), (.chDivider [1] 7 true, {}), (.streamStop, {}), (.unsub 0, {}),
       (.chDisableAll true, {})]
    let w := afterA ⟨[false, true], [0, 5]⟩ true 3 (Desc.plain 2) hist
    let w' := afterA ⟨[false, true], [0, 5]⟩ true 3 (Desc.plain 2) (hist ++ more)
    w.connected = false ∧ w'.log = w.log ∧ w'.time = w.time ∧ w'.dev = w.dev ∧ 6 ≤ w.log.length := by
  decide +kernel

/-- IDEMPOTENCE AS A RELATION BETWEEN HISTORIES (so far judged by the oracle only).  A connect issued while connected
    can be dropped from ANY history, from ANY starting world: the final world is the same and every other call
    returns the same result (the dropped call itself returned `.ok`) -/
theorem redundant_connect_dropped (W : World) (pre post : List (Call × Ans)) (a : Ans)
    (h : (runA W pre).1.connected = true) :
    (runA W (pre ++ (.connect, a) :: post)).1 = (runA W (pre ++ post)).1 ∧
    (runA W (pre ++ (.connect, a) :: post)).2 = (runA W pre).2 ++ Res.ok :: (runA (runA W pre).1 post).2 ∧
    (runA W (pre ++ post)).2 = (runA W pre).2 ++ (runA (runA W pre).1 post).2 :=
  r7_runA_drop W pre post (.connect, a) (connect_idem _ a h)

/-- … and a disconnect issued while disconnected -/
theorem redundant_disconnect_dropped (W : World) (pre post : List (Call × Ans)) (a : Ans)
    (h : (runA W pre).1.connected = false) :
    (runA W (pre ++ (.disconnect, a) :: post)).1 = (runA W (pre ++ post)).1 ∧
    (runA W (pre ++ (.disconnect, a) :: post)).2 = (runA W pre).2 ++ Res.ok :: (runA (runA W pre).1 post).2 ∧
    (runA W (pre ++ post)).2 = (runA W pre).2 ++ (runA (runA W pre).1 post).2 :=
  r7_runA_drop W pre post (.disconnect, a) (disconnect_idem _ a h)

/-- connect; connect = connect and disconnect; disconnect = disconnect INSIDE any history, from any starting world
    (the connect one when the first connect returns; a connect that raised raises again): the final world and the
    results of all later calls are the same -/
theorem connect_connect_in_history (W : World) (pre post : List (Call × Ans)) (a b : Ans)
    (h : (step (runA W pre).1 .connect a).2 = .ok) :
    (runA W (pre ++ (.connect, a) :: (.connect, b) :: post)).1 = (runA W (pre ++ (.connect, a) :: post)).1 ∧
    (runA W (pre ++ (.connect, a) :: (.connect, b) :: post)).2 =
      (runA W (pre ++ [(.connect, a)])).2 ++ Res.ok :: (runA (runA W (pre ++ [(.connect, a)])).1 post).2 := by
  have hs : (runA W (pre ++ [(.connect, a)])).1 = (step (runA W pre).1 .connect a).1 := runA_snoc W pre (.connect, a)
  have hi : step (runA W (pre ++ [(.connect, a)])).1 Call.connect b = ((runA W (pre ++ [(.connect, a)])).1, .ok) := by
    rw [hs]; exact connect_twice _ a b h
  have := r7_runA_drop W (pre ++ [(.connect, a)]) post (.connect, b) hi
  simp only [List.append_assoc, List.singleton_append] at this
  exact ⟨this.1, by simpa only [List.append_assoc, List.singleton_append] using this.2.1⟩

theorem disconnect_disconnect_in_history (W : World) (pre post : List (Call × Ans)) (a b : Ans)
    (h : (step (runA W pre).1 .disconnect a).2 = .ok) :
    (runA W (pre ++ (.disconnect, a) :: (.disconnect, b) :: post)).1 =
      (runA W (pre ++ (.disconnect, a) :: post)).1 := by
  have hs : (runA W (pre ++ [(.disconnect, a)])).1 = (step (runA W pre).1 .disconnect a).1 :=
    runA_snoc W pre (.disconnect, a)
  have hdis : (step (runA W pre).1 .disconnect a).1.connected = false := by
    rw [step_disconnect] at h ⊢
    cases hc : (runA W pre).1.connected with
    | false => simp only [Bool.false_eq_true, ↓reduceIte]; exact hc
    | true =>
      rw [hc] at h
      simp only [↓reduceIte] at h ⊢
      generalize (if (streamStop (runA W pre).1 a).hasDev = true then
        cfgCall (streamStop (runA W pre).1 a) .disableAll true a
        else (streamStop (runA W pre).1 a, Res.raised .assertion)) = r at *
      obtain ⟨w2, res⟩ := r
      cases res with
      | ok => rfl
      | raised e => exact nomatch (h : Res.raised e = Res.ok)
      | ack s code => exact nomatch (h : Res.ack s code = Res.ok)
  have hi : step (runA W (pre ++ [(.disconnect, a)])).1 Call.disconnect b =
      ((runA W (pre ++ [(.disconnect, a)])).1, .ok) := by
    rw [hs]; exact disconnect_idem _ b hdis
  have := r7_runA_drop W (pre ++ [(.disconnect, a)]) post (.disconnect, b) hi
  simp only [List.append_assoc, List.singleton_append] at this
  exact this.1

/-- instance: the doubled connect / doubled disconnect change neither the frames written nor any result seen by
    the other calls -/
example :
    let W := World.fresh ⟨[false, true], [0, 5]⟩ true 3
    let h1 : List (Call × Ans) := [(.connect, {}), (.connect, ⟨.lost, .lost, .lost⟩), (.chEnable [0] true, {}),
      (.streamStart, {}), (.disconnect, {}), (.disconnect, {}), (.channelsWrite, {})]
    let h2 : List (Call × Ans) := [(.connect, {}), (.chEnable [0] true, {}),
      (.streamStart, {}), (.disconnect, {}), (.channelsWrite, {})]
    (runA W h1).1.log = (runA W h2).1.log ∧ (runA W h1).1.time = (runA W h2).1.time ∧
    (runA W h1).2 = [.ok, .ok, .ok, .ok, .ok, .ok, .raised .assertion] ∧
    (runA W h2).2 = [.ok, .ok, .ok, .ok, .raised .assertion] := by decide +kernel

/-- NEVER BLOCK, OVER A WHOLE HISTORY: `k` public calls wait for the device at most `3.8 k` s (high level) resp.
    `2 k` s (low level) in total, from any world, whatever the device answers -/
theorem history_bounded (W : World) (hist : List (Call × Ans)) :
    (runA W hist).1.time ≤ W.time + 38 * hist.length := r7_runA_time W hist
theorem comm_history_bounded (W : World) (hist : List (CommCall × Ans)) :
    (commRun W hist).1.time ≤ W.time + 20 * hist.length := r7_commRun_time W hist

/-- instance: a history with two lost start requests and a lost divider request stays inside the bound (and the
    bound is not trivially loose: it is reached within a factor of 4) -/
example :
    let w := afterA ⟨[false, true], [0, 5]⟩ true 3 (Desc.plain 2)
      [(.connect, {}), (.streamStart, ⟨.lost, .lost, .lost⟩), (.streamStop, ⟨.lost, .ack, .ack⟩), (.disconnect, {})]
    w.time ≤ 38 * 4 ∧ 38 ≤ w.time := by decide +kernel

/-- THE REPORTED DESCRIPTION DEPENDS ON NOTHING DYNAMIC: two handlers in front of devices with the same static
    description (channel count, flags, `Desc`) — whatever the devices' enable / divider state, whether they were
    left streaming, whatever the two histories were and whatever the devices answered — report the SAME
    description after a connect -/
theorem reconnect_description_independent (d0 d0' : Device) (started started' : Bool) (flags : Nat) (desc : Desc)
    (hist hist' : List (Call × Ans)) (a a' : Ans) (hd : WFDev d0) (hd' : WFDev d0')
    (hl : d0'.en.length = d0.en.length) (hk : DescOk d0 flags desc) :
    (afterA d0 started flags desc (hist ++ [(.connect, a)])).reported =
      (afterA d0' started' flags desc (hist' ++ [(.connect, a')])).reported ∧
    (afterA d0 started flags desc (hist ++ [(.connect, a)])).reported = some (description d0 flags desc) := by
  have hk' : DescOk d0' flags desc := by
    unfold DescOk at hk ⊢; rw [hl]; exact hk
  have e1 := (reconnect_same_description_any_answers d0 started flags desc hist a hd hk).2.1
  have e2 := (reconnect_same_description_any_answers d0' started' flags desc hist' a' hd' hk').2.1
  have ed : description d0' flags desc = description d0 flags desc := by unfold description; rw [hl]
  exact ⟨e1.trans (ed ▸ e2).symm, e1⟩

example :
    (afterA ⟨[false, true], [0, 5]⟩ true 3 (Desc.plain 2)
      [(.connect, {}), (.streamStart, ⟨.lost, .nack 2, .lost⟩), (.disconnect, ⟨.nack 1, .lost, .lost⟩),
       (.connect, {})]).reported
    = (afterA ⟨[true, false], [200, 0]⟩ false 3 (Desc.plain 2) [(.sub 0, {}), (.connect, {})]).reported := by
  decide +kernel

/-- WHAT A CONNECT SENDS IS FIXED: on a disconnected handler — after any history, whatever the device answered — a
    connect in front of a decodable description writes exactly: the stream-stop request, the common-info request, the
    rx-padding bytes if the interface does not have that padding yet, one channel-info request per channel 0..n-1, in
    this order and nothing else; it waits exactly the two draining periods (1.6 s), returns, and the device's
    configuration is untouched -/
theorem connect_requests_fixed (d0 : Device) (started : Bool) (flags : Nat) (desc : Desc) (hist : List (Call × Ans))
    (a : Ans) (hd : WFDev d0) (hk : DescOk d0 flags desc)
    (hdis : (afterA d0 started flags desc hist).connected = false) :
    let w := afterA d0 started flags desc hist
    let r := step w .connect a
    r.1.log = w.log ++ okFrame (Requests.frameStart false) ++ okFrame Requests.frameCmninfo ++ padWrite w ++
      chinfoFrames 0 d0.en.length ∧
    r.1.time = w.time + 16 ∧ r.2 = .ok ∧ r.1.dev = w.dev ∧ r.1.devStarted = false := by
  intro w r
  have h := reachA d0 started flags desc hd hist
  have hoff := off_of_disconnected d0 started flags desc hist hd hdis
  have hs : w.commStarted = false := hoff.facts.2.2.2.2.1
  have e : r = _ := step_connect_ok w a hdis (h.base.badName.trans hk.noBadName)
  rw [commConnect_stopped w hs] at e
  have hl : w.dev.en.length = d0.en.length := h.base.len
  rw [e]
  refine ⟨?_, ?_, rfl, rfl, rfl⟩
  · show w.log ++ _ ++ _ ++ _ ++ chinfoFrames 0 w.dev.en.length = _
    rw [hl]
  · show w.time + drain + drain = _
    rw [drain_eq]

/-- instance: the second connect of a history writes stop, common info and two channel infos (4 frames), 1.6 s -/
example :
    let hist : List (Call × Ans) := [(.connect, {}), (.streamStart, {}), (.disconnect, ⟨.lost, .lost, .lost⟩)]
    let w := afterA ⟨[false, true], [0, 5]⟩ true 3 (Desc.plain 2) hist
    let r := step w .connect {}
    w.connected = false ∧ r.1.log.length = w.log.length + 4 ∧ r.1.time = w.time + 16 := by decide +kernel

end Nxs.C09
