/-
  C15 — what the simulated device streams decodes back to what its channels produced.
  Property theorems only (helper lemmas in Lemmas/Stream.lean, Lemmas/StructRT.lean).

  `Representable`, `decodedForm`, `carries`, `LayoutAgrees` are written out in
  `Spec/StreamWire.lean` (device side: `Sample.dtype` is the channel type id; the client sees the
  EParseDataType and NUL-padded text).  Values are at representation level (`SVal`).  A sample value is a
  Python object: for a fixed-point channel it is the float raw / 2^frac, so `Representable` demands
  `floatExact raw` (raw = ± m · 2^e with m < 2^53, `Stream.floatExact_iff`) — a 64-bit raw with more than 53
  significant bits (2^64 − 1, say) is not a value anybody can hand to the encoder; raws such as 2^62,
  (2^53 − 1) · 2^11 or −2^63 are.  The type table is pinned by `table_is_standard` (see Props/C04).
-/
import NxsModel.Stream
import NxsModel.Spec.StreamWire
import NxsModel.Spec.Wire
import NxsModel.Lemmas.Stream
import NxsModel.Lemmas.Serial
import NxsModel.Lemmas.R7Stream
namespace Nxs.C15
open Nxs Nxs.Stream Nxs.Spec Nxs.Spec.StreamWire Nxs.Gen.Ids

/-- the type table the code uses (regenerated from `iparse.dsfmt_get` on every run) is the hand-written table
    of NONE + the 18 standard NxScope types of `Spec/StreamWire.lean`, which `Representable`, `decodedForm` and
    `wireOf` read -/
theorem table_is_standard : Gen.Types.table = Spec.StreamWire.standardTable :=
  Stream.table_is_standard

/-- the encoder's output on representable samples is the flags byte 0 followed by exactly the
    NxScope payload (`wireOf`) of the samples that carry data or metadata, in the same order -/
theorem encode_is_wire (user : List UserType) (L : List Chan) (ss : List Sample)
    (hrep : ∀ s ∈ ss, Representable user s) (hL : LayoutAgrees L ss)
    (hne : ∃ s ∈ ss, carries s = true) :
    ∃ body, Stream.streamDataEncode user ss = .ok (some (0 :: body)) ∧
      wireOf L user ((ss.filter carries).map (decodedForm user)) = some body :=
  streamDataEncode_wire hrep hL hne

/-- every list of representable samples — all types, dimensions, metadata lengths, channel ids, any
    length and channel mix — is encoded without error, and the payload decodes on the client to the
    same samples (those that carry data or metadata), in the same order, with flags 0 -/
theorem stream_roundtrip (user : List UserType) (L : List Chan) (ss : List Sample)
    (hrep : ∀ s ∈ ss, Representable user s) (hL : LayoutAgrees L ss)
    (hne : ∃ s ∈ ss, carries s = true) :
    ∃ p, Stream.streamDataEncode user ss = .ok (some p) ∧
      Stream.streamDecode L user p =
        .ok (some (0, (ss.filter carries).map (decodedForm user))) := by
  obtain ⟨body, he, hw⟩ := streamDataEncode_wire hrep hL hne
  exact ⟨0 :: body, he, streamDecode_wire L user 0 _ body hw⟩

/-- if no sample carries data or metadata no frame is produced (whatever the samples are) -/
theorem none_when_empty (user : List UserType) (ss : List Sample)
    (h : ∀ s ∈ ss, carries s = false) : Stream.frameStreamEncode user ss = .ok none := by
  unfold Stream.frameStreamEncode
  rw [streamDataEncode_empty user h, ok_bind]

/-- a payload longer than 65529 bytes is refused with an error: never a frame (what C01 demands) -/
theorem refuses_oversize (user : List UserType) (ss : List Sample) (p : Bytes)
    (hp : Stream.streamDataEncode user ss = .ok (some p)) (hbig : p.length > 65529) :
    ∃ e, Stream.frameStreamEncode user ss = .error e := by
  obtain ⟨e, he⟩ := Serial.frameCreate_refuses idSTREAM p hbig
  refine ⟨e, ?_⟩
  unfold Stream.frameStreamEncode
  rw [hp, ok_bind]
  simp only [he]
  rfl

/-- the whole path when the payload fits a frame: `frame_stream_encode` emits the NxScope serial
    frame `wire 1 p`, `frame_decode` returns the STREAM frame, `frame_stream_decode` the samples -/
theorem frame_roundtrip (user : List UserType) (L : List Chan) (ss : List Sample)
    (hrep : ∀ s ∈ ss, Representable user s) (hL : LayoutAgrees L ss)
    (hne : ∃ s ∈ ss, carries s = true)
    (hfit : ∀ p, Stream.streamDataEncode user ss = .ok (some p) → p.length ≤ 65529) :
    ∃ f, Stream.frameStreamEncode user ss = .ok (some f) ∧
      (Serial.frameDecode f).bind (Stream.frameStreamDecode L user) =
        .ok (some (0, (ss.filter carries).map (decodedForm user))) := by
  obtain ⟨p, he, hd⟩ := stream_roundtrip user L ss hrep hL hne
  have hlen := hfit p he
  refine ⟨wire 1 p, ?_, ?_⟩
  · unfold Stream.frameStreamEncode
    rw [he, ok_bind]
    simp only [Serial.frameCreate_eq idSTREAM p hlen (by decide), ok_bind]
    rfl
  · rw [Serial.frameDecode_wire 1 p hlen (by decide), ok_bind]
    unfold Stream.frameStreamDecode
    rw [if_neg (by simp [idSTREAM])]
    exact hd

/-! ### non-vacuity: `Representable` holds for a data-carrying sample of every type -/

example : carries ⟨0, tyNONE, 0, 1, [], [7]⟩ = true ∧ Representable [] ⟨0, tyNONE, 0, 1, [], [7]⟩ := by decide +kernel
example : carries ⟨0, tyUINT8, 2, 0, [.int 0, .int 255], []⟩ = true ∧
    Representable [] ⟨0, tyUINT8, 2, 0, [.int 0, .int 255], []⟩ := by decide +kernel
example : Representable [] ⟨0, tyINT8, 2, 0, [.int (-128), .int 127], []⟩ := by decide +kernel
example : Representable [] ⟨0, tyUINT16, 1, 2, [.int 65535], [65535]⟩ := by decide +kernel
example : Representable [] ⟨0, tyINT16, 2, 0, [.int (-32768), .int 32767], []⟩ := by decide +kernel
example : Representable [] ⟨0, tyUINT32, 1, 4, [.int 4294967295], [4294967295]⟩ := by decide +kernel
example : Representable [] ⟨0, tyINT32, 2, 0, [.int (-2147483648), .int 2147483647], []⟩ := by decide +kernel
example : Representable [] ⟨0, tyUINT64, 1, 8, [.int 18446744073709551615], [18446744073709551615]⟩ := by
  decide +kernel
example : Representable [] ⟨0, tyINT64, 2, 0, [.int (-9223372036854775808), .int 9223372036854775807], []⟩ := by
  decide +kernel
example : Representable [] ⟨0, tyFLOAT, 2, 0, [.f32 0x3f800000#32, .f32 0x7fc00000#32], []⟩ := by decide +kernel
example : Representable [] ⟨0, tyDOUBLE, 1, 0, [.f64 0xfff0000000000000#64], []⟩ := by decide +kernel
example : Representable [] ⟨0, tyUB8, 2, 0, [.fixed 0 8, .fixed 65535 8], []⟩ := by decide +kernel
example : Representable [] ⟨0, tyB8, 2, 0, [.fixed (-32768) 8, .fixed 32767 8], []⟩ := by decide +kernel
example : Representable [] ⟨0, tyUB16, 1, 0, [.fixed 4294967295 16], []⟩ := by decide +kernel
example : Representable [] ⟨0, tyB16, 2, 0, [.fixed (-2147483648) 16, .fixed 98304 16], []⟩ := by decide +kernel
/-- 64-bit fixed point: (2^53 − 1) · 2^11 = 2^64 − 2^11 (the largest UB32 raw that is a float), 2^62, 2^53,
    (2^53 − 1) · 2^10 and −2^63 (the B32 extremes that are floats) -/
example : Representable [] ⟨0, tyUB32, 3, 0,
    [.fixed 18446744073709549568 32, .fixed 4611686018427387904 32, .fixed 9007199254740992 32], []⟩ := by
  decide +kernel
example : Representable [] ⟨0, tyB32, 3, 0,
    [.fixed (-9223372036854775808) 32, .fixed 9223372036854774784 32, .fixed (-9007199254740991) 32], []⟩ := by
  decide +kernel
/-- … whereas raws with more than 53 significant bits are not values a Python float can take: 2^64 − 1,
    2^53 + 1, 2^63 − 1, −(2^63 − 1) -/
example : ¬ Representable [] ⟨0, tyUB32, 1, 0, [.fixed 18446744073709551615 32], []⟩ := by decide +kernel
example : ¬ Representable [] ⟨0, tyUB32, 1, 0, [.fixed 9007199254740993 32], []⟩ := by decide +kernel
example : ¬ Representable [] ⟨0, tyB32, 1, 0, [.fixed 9223372036854775807 32], []⟩ := by decide +kernel
example : ¬ Representable [] ⟨0, tyB32, 1, 0, [.fixed (-9223372036854775807) 32], []⟩ := by decide +kernel
example : floatExact 0 = true ∧ floatExact (-1) = true ∧ floatExact 9007199254740992 = true ∧
    floatExact 9007199254740993 = false ∧ floatExact 18446744073709549568 = true ∧
    floatExact 18446744073709550592 = false := by decide +kernel
example : Representable [] ⟨0, tyCHAR, 5, 0, [.text [0x68, 0x69]], []⟩ := by decide +kernel
example : Representable [] ⟨0, tyWCHAR, 2, 3, [.text [0xc3, 0xa9]], [1, 2, 255]⟩ := by decide +kernel
/-- a user NUM type `hB` and a user COMPLEX type `f2s?` -/
example : Representable [⟨20, [(1, .h), (1, .B)], dtNUM⟩] ⟨3, 20, 3, 0, [.int (-2), .int 200], []⟩ := by
  decide +kernel
example : Representable [⟨21, [(1, .f), (2, .s), (1, .bool)], dtCOMPLEX⟩]
    ⟨3, 21, 7, 1, [.f32 0x3f800000#32, .bytes [0x61], .bool true], [9]⟩ := by decide +kernel
/-- channel id 254 (and 255) -/
example : Representable [] ⟨254, tyUINT8, 1, 0, [.int 1], []⟩ := by decide +kernel
example : Representable [] ⟨255, tyUINT8, 1, 0, [.int 1], []⟩ := by decide +kernel
/-- not representable: out of range, wrong fraction, half-empty sample, text too long, id 256 -/
example : ¬ Representable [] ⟨0, tyUINT8, 1, 0, [.int 256], []⟩ := by decide +kernel
example : ¬ Representable [] ⟨0, tyB8, 1, 0, [.fixed 1 16], []⟩ := by decide +kernel
example : ¬ Representable [] ⟨0, tyUINT8, 1, 1, [.int 1], []⟩ := by decide +kernel
example : ¬ Representable [] ⟨0, tyUINT8, 1, 1, [], [1]⟩ := by decide +kernel
example : ¬ Representable [] ⟨0, tyCHAR, 1, 0, [.text [0x68, 0x69]], []⟩ := by decide +kernel
example : ¬ Representable [] ⟨256, tyUINT8, 1, 0, [.int 1], []⟩ := by decide +kernel

/-- not values a Python object can take: text that is not UTF-8 (a `str` always encodes to well-formed UTF-8), a
    float32 signalling NaN (no double narrows to it), a float64 signalling NaN (the encoder's `x * 1.0` quiets it:
    NaNs are kept as a class) — whereas quiet NaNs with any payload and infinities are representable -/
example : ¬ Representable [] ⟨0, tyCHAR, 2, 0, [.text [0xff, 0xfe]], []⟩ := by decide +kernel
example : ¬ Representable [] ⟨0, tyCHAR, 3, 0, [.text [0xed, 0xa0, 0x80]], []⟩ := by decide +kernel
example : ¬ Representable [] ⟨0, tyFLOAT, 1, 0, [.f32 0x7f800001#32], []⟩ := by decide +kernel
example : ¬ Representable [] ⟨0, tyDOUBLE, 1, 0, [.f64 0x7ff0000000000001#64], []⟩ := by decide +kernel
example : Representable [] ⟨0, tyFLOAT, 3, 0, [.f32 0x7fc00001#32, .f32 0xffffffff#32, .f32 0xff800000#32], []⟩ := by
  decide +kernel
example : Representable [] ⟨0, tyDOUBLE, 2, 0, [.f64 0x7ff8000000000001#64, .f64 0xffffffffffffffff#64], []⟩ := by
  decide +kernel
example : Representable [] ⟨0, tyCHAR, 8, 0, [.text [0xf0, 0x9f, 0x99, 0x82, 0x00, 0x41]], []⟩ := by decide +kernel

/-- a concrete round trip: three channels, one empty sample left out, text padded -/
example :
    Stream.streamDataEncode []
      [⟨2, tyCHAR, 4, 0, [.text [0x68, 0x69]], []⟩, ⟨0, tyB8, 1, 1, [], []⟩,
       ⟨0, tyB8, 1, 1, [.fixed (-384) 8], [5]⟩, ⟨1, tyINT64, 1, 0, [.int (-2)], []⟩] =
      .ok (some [0, 2, 0x68, 0x69, 0, 0, 0, 0x80, 0xfe, 5, 1, 0xfe, 0xff, 0xff, 0xff, 0xff, 0xff, 0xff, 0xff]) := by
  decide +kernel

example :
    Stream.streamDecode [⟨tyB8, 1, 1⟩, ⟨tyINT64, 1, 0⟩, ⟨tyCHAR, 4, 0⟩] []
      [0, 2, 0x68, 0x69, 0, 0, 0, 0x80, 0xfe, 5, 1, 0xfe, 0xff, 0xff, 0xff, 0xff, 0xff, 0xff, 0xff] =
      .ok (some (0, [⟨2, dtCHAR, 4, 0, [.text [0x68, 0x69, 0, 0]], []⟩,
        ⟨0, dtNUM, 1, 1, [.fixed (-384) 8], [5]⟩, ⟨1, dtNUM, 1, 0, [.int (-2)], []⟩])) := by
  decide +kernel

/-! ### round 7: length of an encoded batch and the exact frame / refusal boundary, the encoder over concatenated
    batches, skipped samples are invisible, no two batches are confused on the wire -/

theorem decodedForm_chan_eq (user : List UserType) (s : Sample) : (decodedForm user s).chan = s.chan := by
  unfold decodedForm
  split <;> rfl

/-- the size of what the device emits, from the layout alone: the payload of a representable batch is the flags
    byte plus, per sample that carries data or metadata, 1 + (size of the type) × vdim + mlen bytes
    (`Stream.sampleSize`); samples that carry nothing contribute nothing -/
theorem encode_length (user : List UserType) (L : List Chan) (ss : List Sample)
    (hrep : ∀ s ∈ ss, Representable user s) (hL : LayoutAgrees L ss) (hne : ∃ s ∈ ss, carries s = true) :
    ∃ p, Stream.streamDataEncode user ss = .ok (some p) ∧
      p.length = 1 + ((ss.filter carries).map (fun s => Stream.sampleSize L user s.chan)).sum := by
  obtain ⟨body, he, hw⟩ := encode_is_wire user L ss hrep hL hne
  refine ⟨0 :: body, he, ?_⟩
  have := Stream.wireOf_length hw
  simp only [List.map_map, Function.comp_def, decodedForm_chan_eq] at this
  simp only [List.length_cons, this]
  omega

/-- the exact frame / refusal boundary of `frame_stream_encode` in terms of the layout: with
    `n = 1 + Σ sampleSize` (over the samples that carry something), a frame is emitted — and is exactly `n + 6`
    bytes long — when `n ≤ 65529`, and the call fails, emitting nothing, when `n > 65529` (finding F17) -/
theorem frame_emitted_iff_fits (user : List UserType) (L : List Chan) (ss : List Sample)
    (hrep : ∀ s ∈ ss, Representable user s) (hL : LayoutAgrees L ss) (hne : ∃ s ∈ ss, carries s = true) :
    (1 + ((ss.filter carries).map (fun s => Stream.sampleSize L user s.chan)).sum ≤ 65529 →
      ∃ f, Stream.frameStreamEncode user ss = .ok (some f) ∧
        f.length = 7 + ((ss.filter carries).map (fun s => Stream.sampleSize L user s.chan)).sum) ∧
    (1 + ((ss.filter carries).map (fun s => Stream.sampleSize L user s.chan)).sum > 65529 →
      ∃ e, Stream.frameStreamEncode user ss = .error e) := by
  obtain ⟨p, he, hl⟩ := encode_length user L ss hrep hL hne
  constructor
  · intro hfit
    refine ⟨wire 1 p, ?_, ?_⟩
    · unfold Stream.frameStreamEncode
      rw [he, ok_bind]
      simp only [Serial.frameCreate_eq idSTREAM p (by omega) (by decide), ok_bind]
      rfl
    · rw [Serial.wire_length, hl]; omega
  · intro hbig
    exact refuses_oversize user ss p he (by omega)

/-- the encoder over concatenated batches: the payload of `ss₁ ++ ss₂` is the flags byte followed by the sample
    bytes of `ss₁` and then those of `ss₂` — encoding is a homomorphism on the sample bytes, so the order on the
    wire is the order of the list and no sample's bytes depend on its neighbours -/
theorem encode_concat (user : List UserType) (L : List Chan) (ss₁ ss₂ : List Sample)
    (hrep₁ : ∀ s ∈ ss₁, Representable user s) (hrep₂ : ∀ s ∈ ss₂, Representable user s)
    (hL₁ : LayoutAgrees L ss₁) (hL₂ : LayoutAgrees L ss₂)
    (hne₁ : ∃ s ∈ ss₁, carries s = true) (hne₂ : ∃ s ∈ ss₂, carries s = true) :
    ∃ b₁ b₂, Stream.streamDataEncode user ss₁ = .ok (some (0 :: b₁)) ∧
      Stream.streamDataEncode user ss₂ = .ok (some (0 :: b₂)) ∧
      Stream.streamDataEncode user (ss₁ ++ ss₂) = .ok (some (0 :: (b₁ ++ b₂))) := by
  obtain ⟨b₁, he₁, hw₁⟩ := encode_is_wire user L ss₁ hrep₁ hL₁ hne₁
  obtain ⟨b₂, he₂, hw₂⟩ := encode_is_wire user L ss₂ hrep₂ hL₂ hne₂
  have hrep : ∀ s ∈ ss₁ ++ ss₂, Representable user s := by
    intro s hs
    rcases List.mem_append.mp hs with h | h
    · exact hrep₁ s h
    · exact hrep₂ s h
  have hL : LayoutAgrees L (ss₁ ++ ss₂) := by
    intro s hs
    rcases List.mem_append.mp hs with h | h
    · exact hL₁ s h
    · exact hL₂ s h
  obtain ⟨s₀, hs₀, hc₀⟩ := hne₁
  obtain ⟨b, he, hw⟩ := encode_is_wire user L (ss₁ ++ ss₂) hrep hL ⟨s₀, List.mem_append_left _ hs₀, hc₀⟩
  rw [List.filter_append, List.map_append, wireOf_append hw₁ hw₂] at hw
  refine ⟨b₁, b₂, he₁, he₂, ?_⟩
  rw [he, ← Option.some.inj hw]

/-- samples that carry neither data nor metadata are invisible: the encoder's output for a batch is its output
    for the batch with those samples removed, wherever they stand in the list -/
theorem skipped_invisible (user : List UserType) (L : List Chan) (ss : List Sample)
    (hrep : ∀ s ∈ ss, Representable user s) (hL : LayoutAgrees L ss) (hne : ∃ s ∈ ss, carries s = true) :
    Stream.streamDataEncode user ss = Stream.streamDataEncode user (ss.filter carries) := by
  obtain ⟨b, he, hw⟩ := encode_is_wire user L ss hrep hL hne
  have hrep' : ∀ s ∈ ss.filter carries, Representable user s := fun s hs => hrep s (List.mem_filter.mp hs).1
  have hL' : LayoutAgrees L (ss.filter carries) := fun s hs => hL s (List.mem_filter.mp hs).1
  obtain ⟨s₀, hs₀, hc₀⟩ := hne
  obtain ⟨b', he', hw'⟩ := encode_is_wire user L (ss.filter carries) hrep' hL'
    ⟨s₀, List.mem_filter.mpr ⟨hs₀, hc₀⟩, hc₀⟩
  rw [List.filter_filter] at hw'
  simp only [Bool.and_self] at hw'
  rw [hw] at hw'
  rw [he, he', Option.some.inj hw']

/-- no two batches are confused on the wire: representable batches with the same encoder output are seen by the
    client as the same samples (the encoder is injective up to skipped samples and NUL padding of text) -/
theorem encode_injective (user : List UserType) (L : List Chan) (ss ss' : List Sample)
    (hrep : ∀ s ∈ ss, Representable user s) (hL : LayoutAgrees L ss) (hne : ∃ s ∈ ss, carries s = true)
    (hrep' : ∀ s ∈ ss', Representable user s) (hL' : LayoutAgrees L ss') (hne' : ∃ s ∈ ss', carries s = true)
    (h : Stream.streamDataEncode user ss = Stream.streamDataEncode user ss') :
    (ss.filter carries).map (decodedForm user) = (ss'.filter carries).map (decodedForm user) := by
  obtain ⟨p, he, hd⟩ := stream_roundtrip user L ss hrep hL hne
  obtain ⟨p', he', hd'⟩ := stream_roundtrip user L ss' hrep' hL' hne'
  rw [he, he'] at h
  have hp : p = p' := Option.some.inj (Except.ok.inj h)
  rw [hp, hd'] at hd
  have h3 := Except.ok.inj hd
  injection h3 with h4
  injection h4 with _ h5
  exact h5.symm

/-- non-vacuity: the batch of the concrete round trip above under its layout — 19 = 1 + (5 + 4 + 9) bytes, the empty
    B8 sample contributing nothing -/
example :
    1 + (([⟨2, tyCHAR, 4, 0, [.text [0x68, 0x69]], []⟩, ⟨0, tyB8, 1, 1, [], []⟩,
       ⟨0, tyB8, 1, 1, [.fixed (-384) 8], [5]⟩, ⟨1, tyINT64, 1, 0, [.int (-2)], []⟩].filter carries).map
        (fun s => Stream.sampleSize [⟨tyB8, 1, 1⟩, ⟨tyINT64, 1, 0⟩, ⟨tyCHAR, 4, 0⟩] [] s.chan)).sum = 19 := by
  decide +kernel
example : (∀ s ∈ [(⟨2, tyCHAR, 4, 0, [.text [0x68, 0x69]], []⟩ : Sample), ⟨0, tyB8, 1, 1, [], []⟩,
       ⟨0, tyB8, 1, 1, [.fixed (-384) 8], [5]⟩, ⟨1, tyINT64, 1, 0, [.int (-2)], []⟩], Representable [] s) := by
  decide +kernel

end Nxs.C15
