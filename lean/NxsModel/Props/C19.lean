/-
  C19 — device and channel descriptions are read-only apart from enable and divider.
  Property theorems only (helper lemmas in Lemmas/).
  A record is its instance `__dict__` (Record.Dict); construction replays the generated
  `__init__`/`__post_init__` assignment orders; `args` are the constructor arguments.
-/
import NxsModel.Record
import NxsModel.Lemmas.Record
namespace Nxs.C19
open Nxs Nxs.Record

/-- construction always succeeds and ends with the record sealed -/
theorem chan_constructs (args : String → Int) (ty : Nat) :
    ∃ d, mkChan args ty = .ok d ∧ initDone d = true := Record.chan_constructs args ty

theorem dev_constructs (args : String → Int) (flags : Nat) :
    ∃ d, mkDev args flags = .ok d ∧ initDone d = true := Record.dev_constructs args flags

/-- every attribute other than `en` and `div` — identifying fields, derived attributes, the init
    marker, and names that are not fields at all — raises TypeError (and, `Except` returning no new
    state, leaves the record unchanged) -/
theorem chan_readonly (args : String → Int) (ty : Nat) (d : Dict) (name : String) (v : Int)
    (hd : mkChan args ty = .ok d) (hn : name ≠ "en" ∧ name ≠ "div") :
    setattr Gen.Record.chanAllow d name v = .error .typeError :=
  Record.chan_readonly args ty d name v hd hn

/-- `en` and `div` remain assignable, and assigning them changes nothing else -/
theorem chan_en_div_assignable (args : String → Int) (ty : Nat) (d : Dict) (name : String) (v : Int)
    (hd : mkChan args ty = .ok d) (hn : name = "en" ∨ name = "div") :
    ∃ d', setattr Gen.Record.chanAllow d name v = .ok d' ∧ d'.get? name = some v ∧
      ∀ k, k ≠ name → d'.get? k = d.get? k :=
  Record.chan_en_div_assignable args ty d name v hd hn

/-- every device-level attribute is read-only -/
theorem dev_readonly (args : String → Int) (flags : Nat) (d : Dict) (name : String) (v : Int)
    (hd : mkDev args flags = .ok d) :
    setattr Gen.Record.devAllow d name v = .error .typeError :=
  Record.dev_readonly args flags d name v hd

/-- the constructed channel record holds the constructor arguments and the derived attributes -/
theorem chan_fields (args : String → Int) (ty : Nat) (d : Dict) (hd : mkChan args ty = .ok d) :
    d.get? "chan" = some (args "chan") ∧ d.get? "_type" = some (ty : Int) ∧
    d.get? "vdim" = some (args "vdim") ∧ d.get? "name" = some (args "name") ∧
    d.get? "en" = some (args "en") ∧ d.get? "div" = some (args "div") ∧
    d.get? "mlen" = some (args "mlen") ∧
    d.get? "dtype" = some ((Info.dtypeOf ty : Nat) : Int) ∧
    d.get? "critical" = some (b2i (Info.criticalOf ty)) ∧
    d.get? "type_res" = some ((Info.typeResOf ty : Nat) : Int) ∧
    d.get? "is_valid" = some (b2i (Info.isValidOf ty)) ∧
    d.get? "is_numerical" = some (b2i (Info.isNumericalOf ty)) := Record.chan_fields args ty d hd

theorem dev_fields (args : String → Int) (flags : Nat) (d : Dict) (hd : mkDev args flags = .ok d) :
    d.get? "chmax" = some (args "chmax") ∧ d.get? "flags" = some (flags : Int) ∧
    d.get? "rxpadding" = some (args "rxpadding") ∧
    d.get? "div_supported" = some (b2i (Info.divSupported flags)) ∧
    d.get? "ack_supported" = some (b2i (Info.ackSupported flags)) := Record.dev_fields args flags d hd

example : (mkChan (fun _ => 7) 0x8a).bind (fun d => setattr Gen.Record.chanAllow d "chan" 9) = .error .typeError := by
  decide +kernel
example : ((mkChan (fun _ => 7) 0x8a).bind (fun d => setattr Gen.Record.chanAllow d "en" 1)).toOption.isSome = true := by
  decide +kernel

end Nxs.C19
