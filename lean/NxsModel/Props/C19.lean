/-
  C19 — device and channel descriptions are read-only apart from enable and divider.
  Property theorems only (helper lemmas in Lemmas/Record.lean).
  A record is its instance `__dict__` (Record.Dict); construction replays the generated
  `__init__`/`__post_init__` assignment orders; `args` are the constructor arguments (any Python
  values: `Record.Val`), `ty` / `flags` the type byte / device flags (unbounded naturals).

  Two groups of statements:
  * on a FRESH record (`mkChan … = .ok d`): construction seals, every name but en/div raises and
    changes nothing, en/div are assignable with a frame condition, the fields hold what was given;
    `setattr_ignores_value`: the assigned value plays no part in any of this;
  * over HISTORIES (`*_sealed_invariant`): for every list of assignment attempts (any names, any
    values, interleaved with copies of the record — the library's own en/div updates are such
    assignments) the record afterwards IS a freshly constructed record of the same identifying
    arguments, so the first group applies again at every point of every history.

  Not covered, on purpose (not "assigning to a field"): `del rec._initdone` (the classes define no
  `__delattr__`: deleting the marker falls back to the class default False and unseals the
  record), writes through `rec.__dict__` / `object.__setattr__`, and `setattr()` with a `str`
  subclass whose `__eq__` lies as the attribute name.
-/
import NxsModel.Record
import NxsModel.Lemmas.Record
namespace Nxs.C19
open Nxs Nxs.Record

/-- construction always succeeds and ends with the record sealed -/
theorem chan_constructs (args : String → Record.Val) (ty : Nat) :
    ∃ d, mkChan args ty = .ok d ∧ initDone d = true := Record.chan_constructs args ty

theorem dev_constructs (args : String → Record.Val) (flags : Nat) :
    ∃ d, mkDev args flags = .ok d ∧ initDone d = true := Record.dev_constructs args flags

/-- every attribute other than `en` and `div` — identifying fields, derived attributes, the init
    marker, and names that are not fields at all — raises TypeError (and, `Except` returning no new
    state, leaves the record unchanged), whatever the value -/
theorem chan_readonly (args : String → Record.Val) (ty : Nat) (d : Dict) (name : String) (v : Record.Val)
    (hd : mkChan args ty = .ok d) (hn : name ≠ "en" ∧ name ≠ "div") :
    setattr Gen.Record.chanAllow d name v = .error .typeError :=
  Record.chan_readonly args ty d name v hd hn

/-- `en` and `div` remain assignable, and assigning them changes nothing else -/
theorem chan_en_div_assignable (args : String → Record.Val) (ty : Nat) (d : Dict) (name : String) (v : Record.Val)
    (hd : mkChan args ty = .ok d) (hn : name = "en" ∨ name = "div") :
    ∃ d', setattr Gen.Record.chanAllow d name v = .ok d' ∧ d'.get? name = some v ∧
      ∀ k, k ≠ name → d'.get? k = d.get? k :=
  Record.chan_en_div_assignable args ty d name v hd hn

/-- every device-level attribute is read-only -/
theorem dev_readonly (args : String → Record.Val) (flags : Nat) (d : Dict) (name : String) (v : Record.Val)
    (hd : mkDev args flags = .ok d) :
    setattr Gen.Record.devAllow d name v = .error .typeError :=
  Record.dev_readonly args flags d name v hd

/-- the constructed channel record holds the constructor arguments and the derived attributes -/
theorem chan_fields (args : String → Record.Val) (ty : Nat) (d : Dict) (hd : mkChan args ty = .ok d) :
    d.get? "chan" = some (args "chan") ∧ d.get? "_type" = some (.int (ty : Int)) ∧
    d.get? "vdim" = some (args "vdim") ∧ d.get? "name" = some (args "name") ∧
    d.get? "en" = some (args "en") ∧ d.get? "div" = some (args "div") ∧
    d.get? "mlen" = some (args "mlen") ∧
    d.get? "dtype" = some (.int (Info.dtypeOf ty)) ∧
    d.get? "critical" = some (.bool (Info.criticalOf ty)) ∧
    d.get? "type_res" = some (.int (Info.typeResOf ty)) ∧
    d.get? "is_valid" = some (.bool (Info.isValidOf ty)) ∧
    d.get? "is_numerical" = some (.bool (Info.isNumericalOf ty)) := Record.chan_fields args ty d hd

theorem dev_fields (args : String → Record.Val) (flags : Nat) (d : Dict) (hd : mkDev args flags = .ok d) :
    d.get? "chmax" = some (args "chmax") ∧ d.get? "flags" = some (.int (flags : Int)) ∧
    d.get? "rxpadding" = some (args "rxpadding") ∧
    d.get? "div_supported" = some (.bool (Info.divSupported flags)) ∧
    d.get? "ack_supported" = some (.bool (Info.ackSupported flags)) := Record.dev_fields args flags d hd

/-- `__setattr__` never looks at the assigned value (on ANY record state, sealed or not, for any
    allow-list): whether it raises is the same for any two values `v`, `w` — `None`, `True`, an
    `int` of any size, a `str`, any other object —, and when it does not raise the record
    afterwards holds exactly the value given -/
theorem setattr_ignores_value (allow : List String) (d : Dict) (name : String) (v w : Record.Val) :
    ((setattr allow d name v).toOption.isSome = (setattr allow d name w).toOption.isSome) ∧
    (setattr allow d name v = .error .typeError ↔ setattr allow d name w = .error .typeError) ∧
    (∀ d', setattr allow d name v = .ok d' → d' = d.set name v) :=
  Record.setattr_ignores_value allow d name v w

/-- histories on a channel record.  For every record built by `mkChan` and every list `h` of steps
    (assignment attempts with any names and any values, and copies), the record afterwards
    * is exactly the record `mkChan` builds from the same arguments with en / div replaced by the
      last value assigned to them (so it is sealed, and `chan_readonly`, `chan_en_div_assignable`,
      `chan_fields` hold of it again),
    * is sealed, has the same attribute names in the same order,
    * holds the initial value of every attribute other than en / div (identifying fields, derived
      attributes, the marker; `none` for names that are no attribute),
    * holds in en / div the last value assigned to them (the constructor's if none was),
    and the steps that went through are exactly the copies and the assignments to en / div. -/
theorem chan_sealed_invariant (args : String → Record.Val) (ty : Nat) (d : Dict) (h : List Step)
    (hd : mkChan args ty = .ok d) :
    mkChan (argsAfter args h) ty = .ok (runHistory Gen.Record.chanAllow d h) ∧
    initDone (runHistory Gen.Record.chanAllow d h) = true ∧
    (runHistory Gen.Record.chanAllow d h).keys = d.keys ∧
    (∀ k, k ≠ "en" → k ≠ "div" → (runHistory Gen.Record.chanAllow d h).get? k = d.get? k) ∧
    (runHistory Gen.Record.chanAllow d h).get? "en" = some ((lastAssigned "en" h).getD (args "en")) ∧
    (runHistory Gen.Record.chanAllow d h).get? "div" = some ((lastAssigned "div" h).getD (args "div")) ∧
    (runTrace Gen.Record.chanAllow d h).map (·.1) =
      h.map (fun s => match s with | .assign k _ => decide (k = "en" ∨ k = "div") | .copy => true) := by
  rw [mkChan_inv hd, chan_history_closed, mkChan_eq, chan_trace_closed]
  refine ⟨rfl, initDone_chanClosed _ _, rfl, ?_, ?_, ?_, rfl⟩
  · intro k h1 h2
    have e1 : ¬ "en" = k := fun e => h1 e.symm
    have e2 : ¬ "div" = k := fun e => h2 e.symm
    simp [chanClosed, get?_cons, e1, e2, argsAfter]
  · simp [chanClosed, get?_cons, argsAfter_en]
  · simp [chanClosed, get?_cons, argsAfter_div]

/-- histories on a device record: no history changes it at all (same `__dict__`, hence sealed and
    every field at its initial value), and no assignment of any history goes through -/
theorem dev_sealed_invariant (args : String → Record.Val) (flags : Nat) (d : Dict) (h : List Step)
    (hd : mkDev args flags = .ok d) :
    runHistory Gen.Record.devAllow d h = d ∧ initDone (runHistory Gen.Record.devAllow d h) = true ∧
    (runTrace Gen.Record.devAllow d h).map (·.1) =
      h.map (fun s => match s with | .assign _ _ => false | .copy => true) := by
  rw [mkDev_inv hd, dev_history_closed, dev_trace_closed]
  exact ⟨rfl, initDone_devClosed _ _, rfl⟩

/-- the inductive invariant behind both, for ANY sealed record state and ANY allow-list that does
    not name the marker: no history unseals the record or changes an attribute outside the list -/
theorem sealed_invariant (allow : List String) (h : List Step) (d : Dict)
    (hd : initDone d = true) (hm : allow.contains "_initdone" = false) :
    initDone (runHistory allow d h) = true ∧
    (∀ k, allow.contains k = false → (runHistory allow d h).get? k = d.get? k) :=
  Record.history_sealed allow h d hd hm

/-! non-vacuity: the hypotheses are satisfiable, and the statements are about records that do change -/

def exArgs : String → Record.Val := fun k => if k = "name" then .str "ch" else if k = "en" then .bool false else 7

example : ∃ d, mkChan exArgs 0x8a = .ok d := ⟨_, mkChan_eq _ _⟩
example : ∃ d, mkDev exArgs 3 = .ok d := ⟨_, mkDev_eq _ _⟩
example : ∃ d, initDone d = true ∧ Gen.Record.chanAllow.contains "_initdone" = false :=
  ⟨chanClosed exArgs 0, initDone_chanClosed _ _, by decide⟩
example : (mkChan exArgs 0x8a).bind (fun d => setattr Gen.Record.chanAllow d "chan" 9) = .error .typeError := by
  decide +kernel
example : (mkChan exArgs 0x8a).bind (fun d => setattr Gen.Record.chanAllow d "vdim" .none) = .error .typeError := by
  decide +kernel
example : ((mkChan exArgs 0x8a).bind (fun d => setattr Gen.Record.chanAllow d "en" (.bool true))).toOption.isSome = true := by
  decide +kernel
/-- a history that tries to clear the marker, assigns en twice, copies, and tries an identifying field -/
def exHist : List Step :=
  [.assign "_initdone" (.bool false), .assign "en" (.bool true), .assign "chan" .none, .copy,
   .assign "en" (.other true 3), .assign "div" (.int (2 ^ 64)), .assign "dtype" (.str "x")]
example : (mkChan exArgs 0x8a).map (fun d => (runTrace Gen.Record.chanAllow d exHist).map (·.1)) =
    .ok [false, true, false, true, true, true, false] := by decide +kernel
example : (mkChan exArgs 0x8a).map (fun d => (runHistory Gen.Record.chanAllow d exHist).get? "en") =
    .ok (some (.other true 3)) := by decide +kernel
example : (mkChan exArgs 0x8a).map (fun d => (runHistory Gen.Record.chanAllow d exHist).get? "chan") =
    .ok (some 7) := by decide +kernel

end Nxs.C19
