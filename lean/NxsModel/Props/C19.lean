/-
  C19 — device and channel descriptions are read-only apart from enable and divider.
  Property theorems only (helper lemmas in Lemmas/Record.lean).
  A record is its instance `__dict__` (Record.Dict); construction replays the generated
  `__init__`/`__post_init__` assignment orders; `args` are the constructor arguments (any Python
  values: `Record.Val`), `ty` / `flags` the type byte / device flags (unbounded naturals).

  Two groups of statements:
  * on a FRESH record (`mkChan … = .ok d`): construction seals, every name but en/div raises and
    changes nothing, en/div are assignable with a frame condition, the fields hold what was given;
    `setattr_ignores_value`: the assigned value plays no part in any of this;
  * over HISTORIES (`*_sealed_invariant`): for every list of assignment attempts (any names, any
    values, interleaved with copies of the record — the library's own en/div updates are such
    assignments) the record afterwards IS a freshly constructed record of the same identifying
    arguments, so the first group applies again at every point of every history.

  Not covered, on purpose (not "assigning to a field"): `del rec._initdone` (the classes define no
  `__delattr__`: deleting the marker falls back to the class default False and unseals the
  record), writes through `rec.__dict__` / `object.__setattr__`, and `setattr()` with a `str`
  subclass whose `__eq__` lies as the attribute name.
-/
import NxsModel.Record
import NxsModel.Lemmas.Record
import NxsModel.DevRecords
import NxsModel.Lemmas.R7DevRecords
namespace Nxs.C19
open Nxs Nxs.Record

/-- construction always succeeds and ends with the record sealed -/
theorem chan_constructs (args : String → Record.Val) (ty : Nat) :
    ∃ d, mkChan args ty = .ok d ∧ initDone d = true := Record.chan_constructs args ty

theorem dev_constructs (args : String → Record.Val) (flags : Nat) :
    ∃ d, mkDev args flags = .ok d ∧ initDone d = true := Record.dev_constructs args flags

/-- every attribute other than `en` and `div` — identifying fields, derived attributes, the init
    marker, and names that are not fields at all — raises TypeError (and, `Except` returning no new
    state, leaves the record unchanged), whatever the value -/
theorem chan_readonly (args : String → Record.Val) (ty : Nat) (d : Dict) (name : String) (v : Record.Val)
    (hd : mkChan args ty = .ok d) (hn : name ≠ "en" ∧ name ≠ "div") :
    setattr Gen.Record.chanAllow d name v = .error .typeError :=
  Record.chan_readonly args ty d name v hd hn

/-- `en` and `div` remain assignable, and assigning them changes nothing else -/
theorem chan_en_div_assignable (args : String → Record.Val) (ty : Nat) (d : Dict) (name : String) (v : Record.Val)
    (hd : mkChan args ty = .ok d) (hn : name = "en" ∨ name = "div") :
    ∃ d', setattr Gen.Record.chanAllow d name v = .ok d' ∧ d'.get? name = some v ∧
      ∀ k, k ≠ name → d'.get? k = d.get? k :=
  Record.chan_en_div_assignable args ty d name v hd hn

/-- every device-level attribute is read-only -/
theorem dev_readonly (args : String → Record.Val) (flags : Nat) (d : Dict) (name : String) (v : Record.Val)
    (hd : mkDev args flags = .ok d) :
    setattr Gen.Record.devAllow d name v = .error .typeError :=
  Record.dev_readonly args flags d name v hd

/-- the constructed channel record holds the constructor arguments and the derived attributes -/
theorem chan_fields (args : String → Record.Val) (ty : Nat) (d : Dict) (hd : mkChan args ty = .ok d) :
    d.get? "chan" = some (args "chan") ∧ d.get? "_type" = some (.int (ty : Int)) ∧
    d.get? "vdim" = some (args "vdim") ∧ d.get? "name" = some (args "name") ∧
    d.get? "en" = some (args "en") ∧ d.get? "div" = some (args "div") ∧
    d.get? "mlen" = some (args "mlen") ∧
    d.get? "dtype" = some (.int (Info.dtypeOf ty)) ∧
    d.get? "critical" = some (.bool (Info.criticalOf ty)) ∧
    d.get? "type_res" = some (.int (Info.typeResOf ty)) ∧
    d.get? "is_valid" = some (.bool (Info.isValidOf ty)) ∧
    d.get? "is_numerical" = some (.bool (Info.isNumericalOf ty)) := Record.chan_fields args ty d hd

theorem dev_fields (args : String → Record.Val) (flags : Nat) (d : Dict) (hd : mkDev args flags = .ok d) :
    d.get? "chmax" = some (args "chmax") ∧ d.get? "flags" = some (.int (flags : Int)) ∧
    d.get? "rxpadding" = some (args "rxpadding") ∧
    d.get? "div_supported" = some (.bool (Info.divSupported flags)) ∧
    d.get? "ack_supported" = some (.bool (Info.ackSupported flags)) := Record.dev_fields args flags d hd

/-- `__setattr__` never looks at the assigned value (on ANY record state, sealed or not, for any
    allow-list): whether it raises is the same for any two values `v`, `w` — `None`, `True`, an
    `int` of any size, a `str`, any other object —, and when it does not raise the record
    afterwards holds exactly the value given -/
theorem setattr_ignores_value (allow : List String) (d : Dict) (name : String) (v w : Record.Val) :
    ((setattr allow d name v).toOption.isSome = (setattr allow d name w).toOption.isSome) ∧
    (setattr allow d name v = .error .typeError ↔ setattr allow d name w = .error .typeError) ∧
    (∀ d', setattr allow d name v = .ok d' → d' = d.set name v) :=
  Record.setattr_ignores_value allow d name v w

/-- histories on a channel record.  For every record built by `mkChan` and every list `h` of steps
    (assignment attempts with any names and any values, and copies), the record afterwards
    * is exactly the record `mkChan` builds from the same arguments with en / div replaced by the
      last value assigned to them (so it is sealed, and `chan_readonly`, `chan_en_div_assignable`,
      `chan_fields` hold of it again),
    * is sealed, has the same attribute names in the same order,
    * holds the initial value of every attribute other than en / div (identifying fields, derived
      attributes, the marker; `none` for names that are no attribute),
    * holds in en / div the last value assigned to them (the constructor's if none was),
    and the steps that went through are exactly the copies and the assignments to en / div. -/
theorem chan_sealed_invariant (args : String → Record.Val) (ty : Nat) (d : Dict) (h : List Step)
    (hd : mkChan args ty = .ok d) :
    mkChan (argsAfter args h) ty = .ok (runHistory Gen.Record.chanAllow d h) ∧
    initDone (runHistory Gen.Record.chanAllow d h) = true ∧
    (runHistory Gen.Record.chanAllow d h).keys = d.keys ∧
    (∀ k, k ≠ "en" → k ≠ "div" → (runHistory Gen.Record.chanAllow d h).get? k = d.get? k) ∧
    (runHistory Gen.Record.chanAllow d h).get? "en" = some ((lastAssigned "en" h).getD (args "en")) ∧
    (runHistory Gen.Record.chanAllow d h).get? "div" = some ((lastAssigned "div" h).getD (args "div")) ∧
    (runTrace Gen.Record.chanAllow d h).map (·.1) =
      h.map (fun s => match s with | .assign k _ => decide (k = "en" ∨ k = "div") | .copy => true) := by
  rw [mkChan_inv hd, chan_history_closed, mkChan_eq, chan_trace_closed]
  refine ⟨rfl, initDone_chanClosed _ _, rfl, ?_, ?_, ?_, rfl⟩
  · intro k h1 h2
    have e1 : ¬ "en" = k := fun e => h1 e.symm
    have e2 : ¬ "div" = k := fun e => h2 e.symm
    simp [chanClosed, get?_cons, e1, e2, argsAfter]
  · simp [chanClosed, get?_cons, argsAfter_en]
  · simp [chanClosed, get?_cons, argsAfter_div]

/-- histories on a device record: no history changes it at all (same `__dict__`, hence sealed and
    every field at its initial value), and no assignment of any history goes through -/
theorem dev_sealed_invariant (args : String → Record.Val) (flags : Nat) (d : Dict) (h : List Step)
    (hd : mkDev args flags = .ok d) :
    runHistory Gen.Record.devAllow d h = d ∧ initDone (runHistory Gen.Record.devAllow d h) = true ∧
    (runTrace Gen.Record.devAllow d h).map (·.1) =
      h.map (fun s => match s with | .assign _ _ => false | .copy => true) := by
  rw [mkDev_inv hd, dev_history_closed, dev_trace_closed]
  exact ⟨rfl, initDone_devClosed _ _, rfl⟩

/-- the inductive invariant behind both, for ANY sealed record state and ANY allow-list that does
    not name the marker: no history unseals the record or changes an attribute outside the list -/
theorem sealed_invariant (allow : List String) (h : List Step) (d : Dict)
    (hd : initDone d = true) (hm : allow.contains "_initdone" = false) :
    initDone (runHistory allow d h) = true ∧
    (∀ k, allow.contains k = false → (runHistory allow d h).get? k = d.get? k) :=
  Record.history_sealed allow h d hd hm

/-! non-vacuity: the hypotheses are satisfiable, and the statements are about records that do change -/

def exArgs : String → Record.Val := fun k => if k = "name" then .str "ch" else if k = "en" then .bool false else 7

example : ∃ d, mkChan exArgs 0x8a = .ok d := ⟨_, mkChan_eq _ _⟩
example : ∃ d, mkDev exArgs 3 = .ok d := ⟨_, mkDev_eq _ _⟩
example : ∃ d, initDone d = true ∧ Gen.Record.chanAllow.contains "_initdone" = false :=
  ⟨chanClosed exArgs 0, initDone_chanClosed _ _, by decide⟩
example : (mkChan exArgs 0x8a).bind (fun d => setattr Gen.Record.chanAllow d "chan" 9) = .error .typeError := by
  decide +kernel
example : (mkChan exArgs 0x8a).bind (fun d => setattr Gen.Record.chanAllow d "vdim" .none) = .error .typeError := by
  decide +kernel
example : ((mkChan exArgs 0x8a).bind (fun d => setattr Gen.Record.chanAllow d "en" (.bool true))).toOption.isSome = true := by
  decide +kernel
/-- a history that tries to clear the marker, assigns en twice, copies, and tries an identifying field -/
def exHist : List Step :=
  [.assign "_initdone" (.bool false), .assign "en" (.bool true), .assign "chan" .none, .copy,
   .assign "en" (.other true 3), .assign "div" (.int (2 ^ 64)), .assign "dtype" (.str "x")]
example : (mkChan exArgs 0x8a).map (fun d => (runTrace Gen.Record.chanAllow d exHist).map (·.1)) =
    .ok [false, true, false, true, true, true, false] := by decide +kernel
example : (mkChan exArgs 0x8a).map (fun d => (runHistory Gen.Record.chanAllow d exHist).get? "en") =
    .ok (some (.other true 3)) := by decide +kernel
example : (mkChan exArgs 0x8a).map (fun d => (runHistory Gen.Record.chanAllow d exHist).get? "chan") =
    .ok (some 7) := by decide +kernel

/-! ## Round 7 additions

  Record level:
  * `history_append` — histories compose; `history_determined_by_last` — a record after a history depends only on
    the last value assigned to en and to div (every rejected attempt, every copy, every overwritten value is
    invisible); `en_div_commute` — assigning en and div in either order gives the same record.
  Device level (NEW model `DevRecords.lean`: the records of one `Device` — `dev.data`, `channel_get(i).data` — with the
  library's own `en_channels_update` / `div_channels_update` loops going through the same `__setattr__` guard):
  * `library_update_ok` — on the records of a device, after ANY history, the library's update never raises (the guard
    lets exactly its two names through), stores exactly the vector given, leaves the other vector alone; a vector of
    the wrong length is refused by the assertion;
  * `device_history_invariant` — for every device (any channel count, any constructor arguments, any type bytes) and
    EVERY history of application assignments to any record (any channel index, any name, any value) interleaved with
    library updates: the device record is unchanged; there are as many channel records; every channel record is
    sealed, has its attribute names in construction order, and every attribute other than en / div holds the value
    construction gave it;
  * `channel_assignments_commute` — assignments to two different channels commute (any device state, any names). -/

/-- round 7: histories compose over concatenation (any state, any allow-list) -/
theorem history_append (allow : List String) (d : Dict) (h1 h2 : List Step) :
    runHistory allow d (h1 ++ h2) = runHistory allow (runHistory allow d h1) h2 := by
  unfold runHistory; rw [List.foldl_append]

/-- round 7: the record after a history depends only on the LAST value assigned to en and the LAST assigned to
    div — rejected attempts, copies and overwritten values leave no trace -/
theorem history_determined_by_last (args : String → Record.Val) (ty : Nat) (d : Dict) (h1 h2 : List Step)
    (hd : mkChan args ty = .ok d) (he : lastAssigned "en" h1 = lastAssigned "en" h2)
    (hv : lastAssigned "div" h1 = lastAssigned "div" h2) :
    runHistory Gen.Record.chanAllow d h1 = runHistory Gen.Record.chanAllow d h2 := by
  rw [mkChan_inv hd, chan_history_closed, chan_history_closed]
  apply chanClosed_congr
  rw [argsAfter_en, argsAfter_en, argsAfter_div, argsAfter_div, he, hv]
  refine ⟨?_, ?_, ?_, rfl, rfl, ?_⟩ <;>
    rw [argsAfter_ident _ _ _ (by decide) (by decide), argsAfter_ident _ _ _ (by decide) (by decide)]

/-- round 7: en and div are independent — assigning them in either order gives the same record -/
theorem en_div_commute (args : String → Record.Val) (ty : Nat) (d : Dict) (v w : Record.Val)
    (hd : mkChan args ty = .ok d) :
    runHistory Gen.Record.chanAllow d [.assign "en" v, .assign "div" w] =
      runHistory Gen.Record.chanAllow d [.assign "div" w, .assign "en" v] :=
  history_determined_by_last args ty d _ _ hd (by simp [lastAssigned]) (by simp [lastAssigned])

example : (mkChan exArgs 0x8a).map (fun d => runHistory Gen.Record.chanAllow d exHist) =
    (mkChan exArgs 0x8a).map (fun d => runHistory Gen.Record.chanAllow d
      [.assign "div" (.int (2 ^ 64)), .assign "en" (.other true 3)]) := by
  obtain ⟨d, hd⟩ : ∃ d, mkChan exArgs 0x8a = .ok d := ⟨_, mkChan_eq _ _⟩
  rw [hd]
  exact congrArg _ (history_determined_by_last exArgs 0x8a d _ _ hd (by decide) (by decide))

open Nxs.DevRecords

/-- round 7: **the library's own maintenance is never blocked and does nothing else.**  On the records of a device
    built from any arguments, after ANY history `h`: `en_channels_update(vs)` / `div_channels_update(vs)`
    (`field` = en / div) with a vector of the device's length returns without raising, the vector read back
    (`channels_en` / `channels_div`) is exactly `vs`, the other vector is as before; a vector of another length is
    refused (`assert`) -/
theorem library_update_ok (dargs : String → Record.Val) (flags : Nat) (cs : List ((String → Record.Val) × Nat))
    (d0 : Dev) (h : List DStep) (hd : mkDevRecords dargs flags cs = .ok d0) (field : String)
    (hf : field = "en" ∨ field = "div") (vs : List Record.Val) :
    (vs.length = cs.length → ∃ d', channelsUpdate field (runDev d0 h) vs = .ok d' ∧
      d'.chans.map (·.get? field) = vs.map some ∧ d'.data = d0.data ∧
      ∀ k, k ≠ field → d'.chans.map (·.get? k) = (runDev d0 h).chans.map (·.get? k)) ∧
    (vs.length ≠ cs.length → channelsUpdate field (runDev d0 h) vs = .error .assertion) := by
  have hi := run_inv dargs flags cs h d0 (mk_inv dargs flags cs d0 hd)
  have hl := shape_length cs _ hi.2
  have h0 := (mk_inv dargs flags cs d0 hd).1
  obtain ⟨l1, l2⟩ := lib_inv field hf dargs flags cs (runDev d0 h) vs hi
  refine ⟨fun hv => ?_, fun hv => l2 (by omega)⟩
  obtain ⟨d', e1, e2, e3, e4⟩ := l1 (by omega)
  exact ⟨d', e1, e3, by rw [e2.1, h0], e4⟩

/-- round 7: **induction over device histories.**  For every device built from any arguments and every history of
    steps — application assignments to ANY record of the device (any channel index, also out of range; any name; any
    value), and the library's en / div updates with vectors of any length — afterwards: the device record is the one
    construction built (no device-level field changed); there are as many channel records as before; and every
    channel record `j` is sealed, has its attribute names in construction order, and holds in every attribute other
    than en / div (identifying fields, derived attributes, the marker) exactly the value construction gave it. -/
theorem device_history_invariant (dargs : String → Record.Val) (flags : Nat)
    (cs : List ((String → Record.Val) × Nat)) (d0 : Dev) (h : List DStep)
    (hd : mkDevRecords dargs flags cs = .ok d0) :
    (runDev d0 h).data = d0.data ∧ (runDev d0 h).chans.length = d0.chans.length ∧
    ∀ (j : Nat) (r r0 : Dict), (runDev d0 h).chans[j]? = some r → d0.chans[j]? = some r0 →
      initDone r = true ∧ r.keys = r0.keys ∧ ∀ k, k ≠ "en" → k ≠ "div" → r.get? k = r0.get? k := by
  have h0 := mk_inv dargs flags cs d0 hd
  have hi := run_inv dargs flags cs h d0 h0
  refine ⟨by rw [hi.1, h0.1], by rw [shape_length cs _ hi.2, shape_length cs _ h0.2], ?_⟩
  intro j r r0 hr hr0
  obtain ⟨c, hc, hrc⟩ := shape_get cs _ j r hi.2 hr
  obtain ⟨c0, hc0, hrc0⟩ := shape_get cs _ j r0 h0.2 hr0
  rw [hc] at hc0; cases hc0
  obtain ⟨a1, a2, a3⟩ := recOf_fields c r hrc
  obtain ⟨_, b2, b3⟩ := recOf_fields c r0 hrc0
  exact ⟨a1, by rw [a2, b2], fun k k1 k2 => by rw [a3 k k1 k2, b3 k k1 k2]⟩

/-- round 7: assignments to the records of two different channels commute — on ANY device state, for any names
    and values (accepted or rejected) -/
theorem channel_assignments_commute (d : Dev) (i j : Nat) (hij : i ≠ j) (k k' : String) (v w : Record.Val) :
    runDev d [.chan i k v, .chan j k' w] = runDev d [.chan j k' w, .chan i k v] :=
  chan_steps_commute d i j hij k k' v w

/-- a two-channel device; an application tries identifying fields and the marker on both records and on the device
    record, the library updates en and div in between, one library vector has the wrong length -/
def exDev : Except Err Dev := mkDevRecords exArgs 3 [(exArgs, 0x8a), (exArgs, 2)]
def exDevHist : List DStep :=
  [.chan 0 "chan" (.int 9), .libEn [.bool true, .bool false], .dev "chmax" (.int 1), .chan 1 "_initdone" (.bool false),
   .libDiv [.int 5, .int 6], .chan 7 "en" (.bool true), .libEn [.bool false], .chan 1 "en" (.other true 4),
   .chan 0 "dtype" .none]
example : exDev.map (fun d => (channelsEn (runDev d exDevHist), channelsDiv (runDev d exDevHist))) =
    .ok ([some (.bool true), some (.other true 4)], [some (.int 5), some (.int 6)]) := by decide +kernel
example : exDev.map (fun d => ((runDev d exDevHist).chans.map (·.get? "chan"), (runDev d exDevHist).data.get? "chmax")) =
    .ok ([some 7, some 7], some 7) := by decide +kernel
example : ∃ d, exDev = .ok d := by
  unfold exDev mkDevRecords
  rw [mkDev_eq, mkChans_eq]
  exact ⟨_, rfl⟩

/-- which steps of a device history went through -/
def traceDev : Dev → List DStep → List Bool
  | _, [] => []
  | d, s :: r => (s.run d).2 :: traceDev (s.run d).1 r
/-- (the same history on the real `Device` gives TypeError, ok, TypeError, TypeError, ok, AttributeError,
    AssertionError, ok, TypeError) -/
example : exDev.map (fun d => traceDev d exDevHist) = .ok [false, true, false, false, true, false, false, true, false] := by
  decide +kernel

end Nxs.C19
