/-
  C18 — the serial-port interface is a transparent, non-blocking byte pipe.
  Property theorems only (helper lemmas in Lemmas/Pipe.lean; C03's `run_eq_scan` for the session part).

  The model (`NxsModel/Pipe.lean`) is the port interface of `intf/serial.py` + `intf/iintf.py` over a
  FIFO abstraction of the link: per direction a buffer of bytes in flight and a buffer of bytes waiting at
  the receiver; the OS moves arbitrary prefixes (`osDeliver k`), which generates every chunking.  A
  history is any list of client calls (`write`, `setPad`, `read`, `readError`, `dropAll`), sends / takes of
  the other end and OS steps.  `Port.real` carries what the translator read from the source: the size
  expression handed to `self._ser.read` and the poll count of `drop_all`.

  `Line.real` carries how the port is opened (data bits, parity, stop bits, flow control), `port_is_transparent_8n1`
  and `port_settings_never_changed` state that this is a transparent 8-bit line for as long as the port is open.

  What is NOT a theorem here (DESIGN.md section 8): that pyserial and the kernel tty layer behave like
  this FIFO (raw mode, no translation of control characters, no loss; a write within the write timeout).
  That is measured on a pseudo-terminal by `harness/props/C18.py` on every run (when a pty can be opened;
  `coverage.pty_available` in the evidence says whether).
-/
import NxsModel.Lemmas.Pipe
import NxsModel.Lemmas.R7Pipe
import NxsModel.Lemmas.ReasmRun
import NxsModel.Lemmas.SerialLawful
namespace Nxs.C18
open Nxs Nxs.Pipe

/-! ### other end → client -/

/-- from any state and for every history (every OS chunking, every placement of reads, read errors and
    `drop_all`s, whatever read sizes the port asks for): the bytes the client has taken so far, then the
    bytes waiting, then the bytes in flight, are exactly what was pending at the start followed by
    everything the other end sent — nothing lost, duplicated, altered or reordered -/
theorem reads_conserve (pt : Port) (s : State) (ops : List Op) :
    clientGot (run pt s ops).2 ++ (run pt s ops).1.rxWaiting ++ (run pt s ops).1.rxFlight
      = s.rxWaiting ++ s.rxFlight ++ peerSent ops := run_rx pt s ops

/-- for every history from a fresh port: the concatenation of all reads so far is a prefix of the
    concatenation of everything the other end sent (unchanged, in order), and equals it once everything
    has been delivered and read -/
theorem reads_concat (pt : Port) (p : Nat) (ops : List Op) :
    clientGot (run pt (init p) ops).2 <+: peerSent ops ∧
    ((run pt (init p) ops).1.rxFlight = [] → (run pt (init p) ops).1.rxWaiting = [] →
      clientGot (run pt (init p) ops).2 = peerSent ops) := by
  have h := run_rx pt (init p) ops
  simp only [init, List.append_nil, List.nil_append] at h
  refine ⟨⟨(run pt (init p) ops).1.rxWaiting ++ (run pt (init p) ops).1.rxFlight, ?_⟩, ?_⟩
  · rw [← List.append_assoc]; exact h
  · intro hf hw
    simp only [init] at hf hw
    rw [hf, hw, List.append_nil, List.append_nil] at h
    exact h

/-- when no `drop_all` discards anything, these bytes are the results of the `read()` calls -/
theorem reads_are_chunks (pt : Port) (s : State) (ops : List Op) (h : Op.dropAll ∉ ops) :
    (readChunks (run pt s ops).2).flatten = clientGot (run pt s ops).2 := readChunks_flatten pt s ops h

/-! ### client → other end -/

/-- from any state and for every history: what the other end has taken, then what has arrived, then what
    is in flight, is what was pending followed by the client's writes, each aligned with the padding in
    force at the time of the write, in order -/
theorem writes_conserve (pt : Port) (s : State) (ops : List Op) :
    peerGot (run pt s ops).2 ++ (run pt s ops).1.txWaiting ++ (run pt s ops).1.txFlight
      = s.txWaiting ++ s.txFlight ++ (alignedWrites s.pad ops).flatten := run_tx pt s ops

/-- for every history from a fresh port with padding `p` that is not changed on the way: the bytes
    arriving at the other end are a prefix of the concatenation of `data_align p d` over the writes `d`,
    in order, and equal it once everything has been delivered and taken -/
theorem writes_arrive (pt : Port) (p : Nat) (ops : List Op) (hp : ∀ q, Op.setPad q ∉ ops) :
    peerGot (run pt (init p) ops).2 <+: ((writes ops).map (Pad.dataAlign p)).flatten ∧
    ((run pt (init p) ops).1.txFlight = [] → (run pt (init p) ops).1.txWaiting = [] →
      peerGot (run pt (init p) ops).2 = ((writes ops).map (Pad.dataAlign p)).flatten) := by
  have h := run_tx pt (init p) ops
  simp only [init, List.append_nil, List.nil_append] at h
  rw [alignedWrites_fixed p ops hp] at h
  refine ⟨⟨(run pt (init p) ops).1.txWaiting ++ (run pt (init p) ops).1.txFlight, ?_⟩, ?_⟩
  · rw [← List.append_assoc]; exact h
  · intro hf hw
    simp only [init] at hf hw
    rw [hf, hw, List.append_nil, List.append_nil] at h
    exact h

/-- with C17's `align_spec`: each write reaches the other end as itself followed by fewer than `p` zero
    bytes — padding only appends -/
theorem write_is_padded (pt : Port) (s : State) (d : Bytes) :
    ∃ k, (s.pad = 0 → k = 0) ∧ (s.pad > 0 → k < s.pad) ∧
      (step pt s (.write d)).1.txFlight = s.txFlight ++ d ++ List.replicate k 0 := by
  simp only [step]
  unfold Pad.dataAlign
  by_cases hp : s.pad = 0
  · exact ⟨0, fun _ => rfl, fun h => by omega, by simp [hp]⟩
  · by_cases hm : d.length % s.pad = 0
    · exact ⟨0, fun _ => rfl, fun h => h, by simp [hp, hm]⟩
    · have hlt : d.length % s.pad < s.pad := Nat.mod_lt _ (by omega)
      exact ⟨s.pad - d.length % s.pad, fun h => absurd h hp, fun _ => by omega, by simp [hp, hm]⟩

/-! ### non-blocking reads -/

/-- a read with nothing waiting returns the empty byte string without waiting for the port timeout,
    and changes nothing -/
theorem idle_read_empty (s : State) (h : s.rxWaiting = []) :
    step Port.real s .read = (s, .read [] false) := by
  have h0 : Port.real.readCount 0 = 0 := Nat.le_zero.mp (Port.real_lawful.le 0)
  cases s
  simp only at h
  subst h
  simp [step, h0]

/-- no read of any history ever waits for the port timeout (the size asked for never exceeds what is
    waiting) — reads issued directly and those issued by `drop_all` -/
theorem read_never_blocks (s : State) (ops : List Op) : anyBlocked (run Port.real s ops).2 = false :=
  run_not_blocked _ Port.real_lawful s ops

/-- a read with bytes waiting returns at least one of them, and what it returns is a prefix of what is
    waiting; the rest stays -/
theorem read_progress (s : State) (h : s.rxWaiting ≠ []) :
    ∃ b, (step Port.real s .read).2 = .read b false ∧ b ≠ [] ∧
      b ++ (step Port.real s .read).1.rxWaiting = s.rxWaiting := by
  have hpos := Port.real_lawful.pos s.rxWaiting.length (List.length_pos_iff.mpr h)
  have hle := Port.real_lawful.le s.rxWaiting.length
  refine ⟨s.rxWaiting.take (Port.real.readCount s.rxWaiting.length), ?_, ?_, ?_⟩
  · simp [step, Nat.not_lt.mpr hle]
  · intro he
    have := congrArg List.length he
    simp only [List.length_take, List.length_nil] at this
    omega
  · simp [step]

/-- Reading aid, NOT a result: `rfl` — it restates the definition of `step … .readError`.  The op stands for exactly one
    thing in the code, the `except serial.SerialException` branch of `SerialDevice._read` (its shape — the handler returns
    `b""` — is the translator fact in `source_shape`): when `self._ser.read(self._ser.in_waiting)` raises a
    `SerialException` the caller gets `b""` and the model takes nothing from the OS buffer.  It does not say that a failing
    port yields empty reads: with pyserial 3.5 a hang-up of the other end of a tty makes `in_waiting` raise `OSError(EIO)`,
    a closed port `TypeError`; neither is a `SerialException`, both propagate out of `read()` (measured, not judged:
    evidence `coverage.pty.hangup_probe`).  The C18 sentence says nothing about errors; this is outside the property. -/
theorem read_error_empty (pt : Port) (s : State) : step pt s .readError = (s, .read [] false) := rfl

/-- `drop_all` on a line where nothing arrives meanwhile takes exactly what is waiting, does not wait
    for the timeout, and leaves the bytes in flight alone -/
theorem drop_all_drains (s : State) :
    step Port.real s .dropAll = ({ s with rxWaiting := [] }, .drop s.rxWaiting false) := by
  have hp : Port.real.dropPolls = (Port.real.dropPolls - 1) + 1 := by
    show Gen.SerialIntf.dropAllPolls = (Gen.SerialIntf.dropAllPolls - 1) + 1
    decide
  simp only [step]
  rw [hp, dropLoop_drains _ Port.real_lawful _ _ _ _ _ (by omega)]
  simp

/-! ### a session over the pipe = a session over an ideal link -/

/-- for every codec honouring the frame interface, from any state, for every history without `drop_all`
    in which everything pending and sent is eventually delivered and read: the frames the client receive
    path (`CommHandler._read_hdr/_read_frame/_recv_thread`, C03) extracts from the results of its reads
    over the pipe are the left-to-right scan of the bytes sent, i.e. exactly what it extracts over an
    ideal link that hands over all the bytes in a single read -/
theorem session_same_as_ideal_from (c : Codec) (hc : LawfulCodec c) (pt : Port) (s : State) (ops : List Op)
    (hnd : Op.dropAll ∉ ops)
    (hf : (run pt s ops).1.rxFlight = []) (hw : (run pt s ops).1.rxWaiting = []) :
    Reasm.run c (readChunks (run pt s ops).2) = Reasm.scan c (s.rxWaiting ++ s.rxFlight ++ peerSent ops) ∧
    Reasm.run c (readChunks (run pt s ops).2) = Reasm.run c [s.rxWaiting ++ s.rxFlight ++ peerSent ops] := by
  have h := run_rx pt s ops
  rw [hf, hw, List.append_nil, List.append_nil, ← readChunks_flatten pt s ops hnd] at h
  rw [Reasm.run_eq_scan hc, Reasm.run_eq_scan hc, h]
  simp

/-- the serial codec, a fresh port: the frames extracted over the pipe = `Reasm.scan Serial.codec` of the
    bytes the device sent = the frames extracted over the ideal link, for every history in which
    everything sent is eventually delivered and read -/
theorem session_same_as_ideal (pt : Port) (p : Nat) (ops : List Op) (hnd : Op.dropAll ∉ ops)
    (hf : (run pt (init p) ops).1.rxFlight = []) (hw : (run pt (init p) ops).1.rxWaiting = []) :
    Reasm.run Serial.codec (readChunks (run pt (init p) ops).2) = Reasm.scan Serial.codec (peerSent ops) ∧
    Reasm.run Serial.codec (readChunks (run pt (init p) ops).2) = Reasm.run Serial.codec [peerSent ops] := by
  have h := session_same_as_ideal_from Serial.codec Serial.codec_lawful pt (init p) ops hnd hf hw
  simpa [init] using h

/-- a session that starts with (or contains) `drop_all`s: the frames extracted after the last one are the
    scan of what was still pending then followed by what was sent afterwards -/
theorem session_after_drop (pt : Port) (s : State) (pre post : List Op) (hnd : Op.dropAll ∉ post)
    (hf : (run pt s (pre ++ post)).1.rxFlight = []) (hw : (run pt s (pre ++ post)).1.rxWaiting = []) :
    Reasm.run Serial.codec (readChunks (run pt (run pt s pre).1 post).2)
      = Reasm.scan Serial.codec ((run pt s pre).1.rxWaiting ++ (run pt s pre).1.rxFlight ++ peerSent post) := by
  rw [run_append] at hf hw
  exact (session_same_as_ideal_from Serial.codec Serial.codec_lawful pt _ post hnd hf hw).1

/-! ### what the translator read from the source -/

/-- the statements the model transcribes are present in the current source: `_read` is a single
    `self._ser.read(<size>)`, its `serial.SerialException` handler returns `b""`, `_write` hands its
    argument to `self._ser.write` unchanged, `CommInterfaceCommon.write` is `_fwrite(data_align(data))`,
    `read` is `_fread()`, and `_fread`/`_fwrite` are `self._read`/`self._write` -/
theorem source_shape :
    Gen.SerialIntf.readShape = true ∧ Gen.SerialIntf.readErrorEmpty = true ∧
    Gen.SerialIntf.writePassesData = true ∧ Gen.SerialIntf.writeAligns = true ∧
    Gen.SerialIntf.readIsFread = true ∧ Gen.SerialIntf.wiring = true := by decide

/-- the port is opened with finite read and write timeouts (so even a call the model calls `blocked`
    would return), and `drop_all` polls a positive, bounded number of times -/
theorem port_timeouts_finite :
    Gen.SerialIntf.readTimeout.isSome = true ∧ Gen.SerialIntf.writeTimeout.isSome = true ∧
    0 < Gen.SerialIntf.dropAllPolls := by decide

/-- the port is opened with non-zero read and write timeouts.  NOTHING MORE is stated here; in particular NOT
    that a write blocks until the whole burst is handed to the OS — with the finite `write_timeout` of
    `port_timeouts_finite` pyserial gives up after that time and raises `SerialTimeoutException` (see
    `write_longer_than_timeout_is_cut`).  What the fact excludes is `write_timeout = 0`, with which pyserial
    performs one non-blocking `os.write` and silently returns a partial count that `_write` ignores: bursts
    larger than the free room of the tty buffer would be truncated without any error. -/
theorem write_blocks_until_written :
    Gen.SerialIntf.writeTimeout ≠ some 0 ∧ Gen.SerialIntf.readTimeout ≠ some 0 := by decide

/-! ### how the port is opened: 8 data bits, no parity, one stop bit, no flow control

The FIFO pipe of the model (every value 0..255 passes, bytes move whenever the OS moves them) is a UART line
only under these settings.  A pseudo-terminal cannot tell: it passes 0x80..0xff under 7 data bits and ignores
CRTSCTS.  So this part of the tie is static (translator facts `Gen.SerialIntf.open*`, `serAttrs`,
`serHandleShape`) and the oracle of `harness/props/C18.py` reads the same settings back from the pyserial
object and from `termios.tcgetattr` of a pty opened by the real constructor. -/

/-- a `SerialDevice(port)` with its default arguments opens the port 8N1 without software or hardware flow
    control, and passes pyserial exactly the settings port, baud rate, data bits, parity, stop bits and the two
    timeouts (no `inter_byte_timeout`, `exclusive`, or anything else); such a line hands over every byte value
    0..255 unchanged, and nothing but the sender decides when written bytes move -/
theorem port_is_transparent_8n1 :
    Line.real = ⟨8, "N", 1, false, false, false⟩ ∧
    Gen.SerialIntf.openArgs = ["baudrate", "bytesize", "parity", "port", "stopbits", "timeout", "write_timeout"] ∧
    Line.real.is8N1 = true ∧
    (∀ b, b < 256 → Line.real.carry b = some b) ∧
    Line.real.mayHoldWrites = false :=
  ⟨by decide, by decide, by decide, fun b hb => Line.carry_of_is8N1 _ (by decide) b hb, by decide⟩

/-- the port object is only ever used through `read`, `write`, `in_waiting` and `close`: no statement of the
    class assigns to `self._ser.<attr>` (`self._ser.rtscts = True`, `self._ser.timeout = None`, …), calls a
    reconfiguring method (`apply_settings`, `reset_input_buffer`, `send_break`, …), aliases the object or hands
    it to other code; `self._ser` itself is assigned only in `__init__` (the `serial.Serial(…)` call, or `None`
    when opening failed).  So the settings of `port_is_transparent_8n1` hold for as long as the port is open. -/
theorem port_settings_never_changed :
    Gen.SerialIntf.serHandleShape = true ∧
    Gen.SerialIntf.serAttrs = ["close", "in_waiting", "read", "write"] := by decide

/-- what the settings are needed for — any line, not only the configured one: all 256 byte values pass
    unchanged exactly when there are at least 8 data bits and no XON/XOFF handling -/
theorem line_transparent_iff (l : Line) :
    (∀ b, b < 256 → l.carry b = some b) ↔ (8 ≤ l.dataBits ∧ l.xonxoff = false) := Line.carry_all_iff l

/-- the reviewer's edit (7 data bits, RTS/CTS): 0x80 arrives as 0x00, and the other end can hold writes -/
example : (⟨7, "N", 1, false, true, false⟩ : Line).carry 0x80 = some 0 ∧
    (⟨7, "N", 1, false, true, false⟩ : Line).mayHoldWrites = true := by decide

/-- XON/XOFF (seeded change C18-r2m1): 0x11 and 0x13 never arrive -/
example : (⟨8, "N", 1, true, false, false⟩ : Line).carry 0x13 = none := by decide

/-! ### writes and the write timeout

`writeAccepted room rate t n` (Pipe.lean) is what pyserial's `write` hands to the OS of an `n`-byte burst
within the write timeout `t` when the transmit buffer has `room` free bytes and the line drains `rate` bytes
per tenth of a second.  This is a model of pyserial + the tty layer, measured (C18.py `pty txp`), not proved. -/

/-- every burst the client itself produces — a request frame of at most 263 bytes (the longest: a bulk
    enable / divider request for 255 channels: 4 header + 2 + 255 + 2 footer bytes; measured on the real
    `Parser.frame_enable` / `frame_div`) aligned to a padding of at most 255 (at most 510 bytes on the wire) — is
    handed over whole within the write timeout of the source, even when the transmit buffer
    is completely full at the call, on every line that takes at least 52 bytes per tenth of a second
    (5200 baud at 10 bits per byte: every standard rate from 9600 baud up; the default 115200 baud takes 1152).
    With `port_is_transparent_8n1` (nobody else can hold the line) the write timeout therefore never cuts a
    client request. -/
theorem requests_written_whole (room rate p : Nat) (d : Bytes) (hd : d.length ≤ 263) (hp : p ≤ 255)
    (hr : 52 ≤ rate) :
    writeAccepted room rate Gen.SerialIntf.writeTimeout (Pad.dataAlign p d).length
      = (Pad.dataAlign p d).length := by
  have ht : Gen.SerialIntf.writeTimeout = some 10 := by decide
  rw [ht]
  apply writeAccepted_of_le
  have := dataAlign_length_le p d
  omega

/-- hypotheses satisfiable: a 263-byte request, padding 255 (→ 510 bytes), full buffer, 9600 baud -/
example : writeAccepted 0 96 Gen.SerialIntf.writeTimeout (Pad.dataAlign 255 (List.replicate 263 0x55)).length = 510 := by
  decide +kernel

/-- …but a single write of arbitrary length is NOT delivered whole: a burst longer than the free room plus
    what the line takes within the write timeout is cut there (and `self._ser.write` raises
    `SerialTimeoutException`, which `SerialDevice._write` lets propagate — the loss is not silent).  The client
    never issues such a write (`requests_written_whole`); a caller of `SerialDevice.write` can. -/
theorem write_longer_than_timeout_is_cut (room rate n : Nat) (h : room + rate * 10 < n) :
    writeAccepted room rate Gen.SerialIntf.writeTimeout n = room + rate * 10 ∧
    writeAccepted room rate Gen.SerialIntf.writeTimeout n < n := by
  have ht : Gen.SerialIntf.writeTimeout = some 10 := by decide
  rw [ht, writeAccepted_of_gt room rate 10 n h]
  exact ⟨rfl, h⟩

/-- the reviewer's measurement (a pty drained at about 10 kB/s, `write` of 65536 bytes: 10240 bytes delivered,
    then `SerialTimeoutException`), and a UART at the default 115200 baud with a 4096-byte transmit buffer:
    a single write of more than 15616 bytes is cut -/
example : writeAccepted 0 1024 Gen.SerialIntf.writeTimeout 65536 = 10240 ∧
    writeAccepted 4096 1152 Gen.SerialIntf.writeTimeout 15616 = 15616 ∧
    writeAccepted 4096 1152 Gen.SerialIntf.writeTimeout 15617 = 15616 := by decide

/-! ### non-vacuity -/

/-- a history with padding 4: a write, a send split by the OS into 2 + 1 bytes, reads (one idle, one
    during a port error), delivery and take at the other end -/
example : run Port.real (init 4)
    [.write [1, 2], .peerSend [0xaa, 0x03, 0x11], .read, .osDeliver 2, .read, .readError, .read, .osDeliver 5,
     .read, .osDeliverTx 9, .peerRecv]
    = (⟨4, [], [], [], []⟩,
       [.none, .none, .read [] false, .none, .read [0xaa, 0x03] false, .read [] false, .read [] false, .none,
        .read [0x11] false, .none, .peer [1, 2, 0, 0]]) := by decide

/-- `drop_all` discards what is waiting, not what is still in flight -/
example : run Port.real (init 0) [.peerSend [1, 2, 3], .osDeliver 2, .dropAll, .osDeliver 1, .read]
    = (⟨0, [], [], [], []⟩, [.none, .none, .drop [1, 2] false, .none, .read [3] false]) := by decide

/-- the hypotheses of `session_same_as_ideal` are satisfiable: noise and a frame, delivered in three
    pieces with an idle read and a port error in between, everything read in the end -/
example :
    let ops : List Op := [.peerSend [0x00, 0x55, 0x07, 0x00, 0x05], .osDeliver 2, .read, .read, .readError,
      .peerSend [0x01, 0x88, 0x9c], .osDeliver 4, .read, .osDeliver 100, .read]
    Op.dropAll ∉ ops ∧ (run Port.real (init 0) ops).1.rxFlight = [] ∧ (run Port.real (init 0) ops).1.rxWaiting = [] ∧
      Reasm.run Serial.codec (readChunks (run Port.real (init 0) ops).2) = [⟨5, [0x01]⟩] := by decide +kernel

/-! ## Round 7 additions

New model file `NxsModel/PipeLine.lean` (the line composed with the pipe, constructor arguments as parameters,
the closing history `drainOps`, `stripOs`); helper lemmas in `Lemmas/R7Pipe.lean`. -/

/-! ### every byte sent IS returned by reads (not only "a prefix of") -/

/-- from any state, on any lawful port: the closing history `drainOps s` (the OS hands over what is in flight,
    then as many reads as there can be bytes) leaves nothing in flight or waiting and the client has taken
    exactly what was pending, in order.  So the hypotheses "everything delivered and read" of `reads_concat`,
    `session_same_as_ideal…` can be reached from every state by finitely many ops. -/
theorem everything_eventually_read (pt : Port) (hl : pt.Lawful) (s : State) :
    (run pt s (drainOps s)).1.rxFlight = [] ∧ (run pt s (drainOps s)).1.rxWaiting = [] ∧
    clientGot (run pt s (drainOps s)).2 = s.rxWaiting ++ s.rxFlight := by
  obtain ⟨h1, h2⟩ := run_drainOps pt hl s
  rw [h1]
  exact ⟨rfl, rfl, h2⟩

/-- for EVERY history from a fresh port (any writes, sends of any sizes, OS chunking, reads, read errors,
    `drop_all`s — unbounded), once the line is drained the client has been handed exactly the concatenation of
    everything the other end sent: no byte is withheld for ever -/
theorem reads_complete (pt : Port) (hl : pt.Lawful) (p : Nat) (ops : List Op) :
    clientGot (run pt (init p) (ops ++ drainOps (run pt (init p) ops).1)).2 = peerSent ops := by
  rw [run_append]
  simp only
  rw [clientGot_append, (run_drainOps pt hl _).2, ← List.append_assoc]
  have h := run_rx pt (init p) ops
  simpa [init] using h

/-- the port of the working tree is lawful, so both hold for it; hypotheses satisfiable -/
example : clientGot (run Port.real (init 4)
    ([.peerSend [0x00, 0xff], .osDeliver 1, .read, .peerSend [0x0a, 0x0d, 0x11, 0x13]] ++
      drainOps (run Port.real (init 4) [.peerSend [0x00, 0xff], .osDeliver 1, .read,
        .peerSend [0x0a, 0x0d, 0x11, 0x13]]).1)).2 = [0x00, 0xff, 0x0a, 0x0d, 0x11, 0x13] := by decide

/-! ### histories compose; what was read / has arrived is never taken back -/

/-- a history run in two parts: the second part starts from the state the first left, and what the client
    got / the other end got over the whole is the concatenation over the parts -/
theorem run_compositional (pt : Port) (s : State) (a b : List Op) :
    (run pt s (a ++ b)).1 = (run pt (run pt s a).1 b).1 ∧
    clientGot (run pt s (a ++ b)).2 = clientGot (run pt s a).2 ++ clientGot (run pt (run pt s a).1 b).2 ∧
    peerGot (run pt s (a ++ b)).2 = peerGot (run pt s a).2 ++ peerGot (run pt (run pt s a).1 b).2 ∧
    readChunks (run pt s (a ++ b)).2 = readChunks (run pt s a).2 ++ readChunks (run pt (run pt s a).1 b).2 := by
  rw [run_append]
  exact ⟨rfl, clientGot_append _ _, peerGot_append _ _, readChunks_append _ _⟩

/-- monotonicity: whatever happens later (any continuation `b`), the bytes the client has read so far and the
    bytes that reached the other end so far stay a prefix of the later ones -/
theorem got_monotone (pt : Port) (s : State) (a b : List Op) :
    clientGot (run pt s a).2 <+: clientGot (run pt s (a ++ b)).2 ∧
    peerGot (run pt s a).2 <+: peerGot (run pt s (a ++ b)).2 := by
  obtain ⟨_, h2, h3, _⟩ := run_compositional pt s a b
  exact ⟨⟨_, h2.symm⟩, ⟨_, h3.symm⟩⟩

/-! ### reads that return nothing lose nothing -/

/-- a read during a `SerialException` (the handler branch of `_read`), placed anywhere in any history, is
    invisible to everything else: same final state, same bytes for the client, same bytes at the other end;
    the only trace is one empty chunk in the list of read results -/
theorem read_error_invisible (pt : Port) (s : State) (a b : List Op) :
    (run pt s (a ++ .readError :: b)).1 = (run pt s (a ++ b)).1 ∧
    clientGot (run pt s (a ++ .readError :: b)).2 = clientGot (run pt s (a ++ b)).2 ∧
    peerGot (run pt s (a ++ .readError :: b)).2 = peerGot (run pt s (a ++ b)).2 ∧
    readChunks (run pt s (a ++ .readError :: b)).2
      = readChunks (run pt s a).2 ++ [] :: readChunks (run pt (run pt s a).1 b).2 := by
  rw [run_append, run_append, run_cons]
  refine ⟨rfl, ?_, ?_, ?_⟩
  · simp only [clientGot_append]; rfl
  · simp only [peerGot_append]; rfl
  · simp only [readChunks_append]; rfl

/-- the same for a read on an idle line (nothing waiting at that point), on any lawful port: a zero-length
    read never takes, loses or delays anything, wherever it is placed -/
theorem idle_read_invisible (pt : Port) (hl : pt.Lawful) (s : State) (a b : List Op)
    (h : (run pt s a).1.rxWaiting = []) :
    (run pt s (a ++ .read :: b)).1 = (run pt s (a ++ b)).1 ∧
    clientGot (run pt s (a ++ .read :: b)).2 = clientGot (run pt s (a ++ b)).2 ∧
    peerGot (run pt s (a ++ .read :: b)).2 = peerGot (run pt s (a ++ b)).2 ∧
    anyBlocked (run pt s (a ++ .read :: b)).2 = false := by
  have hb := run_not_blocked pt hl s (a ++ .read :: b)
  rw [run_append, run_append, run_cons, step_read_idle pt hl _ h]
  refine ⟨rfl, ?_, ?_, ?_⟩
  · simp only [clientGot_append]; rfl
  · simp only [peerGot_append]; rfl
  · rw [run_append, run_cons, step_read_idle pt hl _ h] at hb
    exact hb

/-- hypotheses satisfiable: an idle read between a send and its delivery -/
example : (run Port.real (init 0) [.peerSend [1, 2]]).1.rxWaiting = [] ∧
    run Port.real (init 0) ([.peerSend [1, 2]] ++ .read :: [.osDeliver 2, .read])
      = (⟨0, [], [], [], []⟩, [.none, .read [] false, .none, .read [1, 2] false]) := by decide

/-! ### the OS chunking does not matter -/

/-- two histories from a fresh port in which the client and the other end do the same things in the same order
    (`stripOs` equal) but the OS moves the bytes in different pieces at different moments: once both are drained
    the client has read the same bytes, and — without `drop_all` — the receive path of C03 extracts the same
    frames from the two different lists of read results, for every codec honouring the frame interface -/
theorem chunking_irrelevant (c : Codec) (hc : LawfulCodec c) (pt : Port) (p q : Nat) (ops ops' : List Op)
    (hsame : stripOs ops = stripOs ops')
    (hf : (run pt (init p) ops).1.rxFlight = []) (hw : (run pt (init p) ops).1.rxWaiting = [])
    (hf' : (run pt (init q) ops').1.rxFlight = []) (hw' : (run pt (init q) ops').1.rxWaiting = []) :
    clientGot (run pt (init p) ops).2 = clientGot (run pt (init q) ops').2 ∧
    (Op.dropAll ∉ ops → Op.dropAll ∉ ops' →
      Reasm.run c (readChunks (run pt (init p) ops).2) = Reasm.run c (readChunks (run pt (init q) ops').2)) := by
  have hs : peerSent ops = peerSent ops' := by
    rw [← stripOs_peerSent ops, ← stripOs_peerSent ops', hsame]
  refine ⟨?_, ?_⟩
  · rw [(reads_concat pt p ops).2 hf hw, (reads_concat pt q ops').2 hf' hw', hs]
  · intro hnd hnd'
    have h1 := (session_same_as_ideal_from c hc pt (init p) ops hnd hf hw).1
    have h2 := (session_same_as_ideal_from c hc pt (init q) ops' hnd' hf' hw').1
    rw [h1, h2]
    simp only [init, List.append_nil, List.nil_append]
    rw [hs]

/-- hypotheses satisfiable: the same send and two reads, delivered 1 + 2 in one history and 3 at once in the other -/
example :
    let ops : List Op := [.peerSend [0x55, 0x07, 0x00], .osDeliver 1, .read, .osDeliver 2, .read]
    let ops' : List Op := [.peerSend [0x55, 0x07, 0x00], .read, .osDeliver 3, .read]
    stripOs ops = stripOs ops' ∧ readChunks (run Port.real (init 0) ops).2 ≠ readChunks (run Port.real (init 0) ops').2 ∧
    (run Port.real (init 0) ops).1.rxFlight = [] ∧ (run Port.real (init 0) ops').1.rxWaiting = [] := by decide

/-! ### transparency as a statement about the parameters the port is opened with

`Line.opened bytesize parity stopbits` is the line of a `SerialDevice(port, baud, bytesize, parity, stopbits)` for
caller-supplied arguments; the flow-control settings are the translator facts whatever the caller passes. -/

/-- any line: byte STRINGS of any length pass unchanged (nothing dropped, altered) exactly when the line has at
    least 8 data bits and no XON/XOFF handling -/
theorem line_strings_iff (l : Line) : (∀ d : Bytes, l.carryBytes d = d) ↔ l.transparent = true := by
  constructor
  · intro h
    cases ht : l.transparent with
    | true => rfl
    | false =>
      rcases Line.carryBytes_witness l ht with hw | hw
      · exact absurd (h _) hw
      · exact absurd (h _) hw
  · exact fun h d => Line.carryBytes_of_transparent l h d

/-- whatever `bytesize`, `parity`, `stopbits` the caller of `SerialDevice(…)` passes: no flow control of any kind
    is ever enabled (nobody but the sender can hold writes, 0x11 / 0x13 are never eaten), parity and stop bits
    never matter for the bytes, and byte strings of every length pass unchanged iff `bytesize ≥ 8` (pyserial
    accepts 5..8, so: iff it is 8) -/
theorem opened_transparent_iff (bytesize : Nat) (parity : String) (stopbits : Nat) :
    (Line.opened bytesize parity stopbits).mayHoldWrites = false ∧
    (Line.opened bytesize parity stopbits).carry 0x11 = some (0x11 % 2 ^ bytesize) ∧
    (Line.opened bytesize parity stopbits).carry 0x13 = some (0x13 % 2 ^ bytesize) ∧
    ((∀ d : Bytes, (Line.opened bytesize parity stopbits).carryBytes d = d) ↔ 8 ≤ bytesize) := by
  refine ⟨rfl, ?_, ?_, ?_⟩
  · simp [Line.carry, Line.opened, Gen.SerialIntf.openXonXoff]
  · simp [Line.carry, Line.opened, Gen.SerialIntf.openXonXoff]
  · rw [line_strings_iff]
    simp only [Line.transparent, Line.opened, Gen.SerialIntf.openXonXoff, Bool.not_false, Bool.and_true]
    exact decide_eq_true_iff

/-- any line without XON/XOFF handling passes every string whose bytes fit into its data bits — in particular the
    control characters 0x00, 0x0a, 0x0d, 0x11, 0x13 (all below 32) on every line pyserial can open (≥ 5 data bits) -/
theorem small_bytes_pass (l : Line) (hx : l.xonxoff = false) (d : Bytes)
    (hd : ∀ b ∈ d, b.toNat < 2 ^ l.dataBits) : l.carryBytes d = d := by
  induction d with
  | nil => rfl
  | cons b d ih =>
    have hb := hd b List.mem_cons_self
    have ih' := ih (fun x hx' => hd x (List.mem_cons_of_mem _ hx'))
    unfold Line.carryBytes at ih' ⊢
    have hc : l.carryByte b = some b := by
      simp only [Line.carryByte, Line.carry, hx, Bool.false_and, Bool.false_eq_true, if_false, Option.map_some,
        Nat.mod_eq_of_lt hb, BitVec.ofNat_toNat, BitVec.setWidth_eq]
    rw [List.filterMap_cons, hc]
    simp only
    rw [ih']

/-- the control characters and the two extreme values through the line the source opens by default, and the control
    characters through a 5-bit line opened by a caller -/
theorem control_characters_pass :
    Line.real.carryBytes [0x00, 0xff, 0x0a, 0x0d, 0x11, 0x13] = [0x00, 0xff, 0x0a, 0x0d, 0x11, 0x13] ∧
    ∀ bytesize parity stopbits, 5 ≤ bytesize →
      (Line.opened bytesize parity stopbits).carryBytes [0x00, 0x0a, 0x0d, 0x11, 0x13] = [0x00, 0x0a, 0x0d, 0x11, 0x13] := by
  refine ⟨Line.carryBytes_of_transparent _ (by decide) _, ?_⟩
  intro bytesize parity stopbits h5
  apply small_bytes_pass _ rfl
  have hp : 2 ^ 5 ≤ 2 ^ bytesize := Nat.pow_le_pow_right (by decide) h5
  intro b hb
  show b.toNat < 2 ^ bytesize
  simp only [List.mem_cons, List.mem_nil_iff, or_false] at hb
  rcases hb with rfl | rfl | rfl | rfl | rfl <;> simp <;> omega

/-- …and what a caller loses by passing `bytesize=7`: 0xff arrives as 0x7f; with XON/XOFF a string gets shorter -/
example : (Line.opened 7 "E" 2).carryBytes [0x00, 0xff, 0x0a] = [0x00, 0x7f, 0x0a] ∧
    (⟨8, "N", 1, true, false, false⟩ : Line).carryBytes [0x10, 0x11, 0x12, 0x13, 0x14] = [0x10, 0x12, 0x14] := by decide

/-- the FIFO abstraction is justified for the parameters the port is opened with: the pipe in which every write
    and every send first goes through the line (`runLine`) IS the pipe of `Pipe.lean`, op for op, for every
    history from every state — over the default line of the source, and over the line of any caller passing
    8 data bits (any parity, any stop bits) -/
theorem pipe_over_opened_line (pt : Port) (s : State) (ops : List Op) :
    runLine Line.real pt s ops = run pt s ops ∧
    ∀ parity stopbits, runLine (Line.opened 8 parity stopbits) pt s ops = run pt s ops :=
  ⟨runLine_of_transparent _ (by decide) pt s ops,
   fun _ _ => runLine_of_transparent _ rfl pt s ops⟩

/-- over a 7-bit line the same history is NOT the FIFO pipe: 0x80 written arrives as 0x00 -/
example : (runLine (Line.opened 7 "N" 1) Port.real (init 0) [.write [0x80], .osDeliverTx 1, .peerRecv]).2
      = [.none, .none, .peer [0x00]] ∧
    (run Port.real (init 0) [.write [0x80], .osDeliverTx 1, .peerRecv]).2 = [.none, .none, .peer [0x80]] := by decide


/-! ### how many reads can return something; the polling loop of `drop_all` while bytes keep arriving

The op `dropAll` is the loop of `drop_all` on a line on which nothing arrives meanwhile.  With arrivals in between, the
loop is a history of `read`s (results discarded) interleaved with sends and OS steps — already a history of `run`. -/

/-- in every history the number of reads that return something is at most the number of bytes there are (pending at
    the start + sent by the other end): a read never returns a byte twice, and a non-empty read consumes at least one -/
theorem nonempty_reads_bounded (pt : Port) (s : State) (ops : List Op) :
    ((readChunks (run pt s ops).2).filter (fun c => !c.isEmpty)).length
      ≤ (s.rxWaiting ++ s.rxFlight ++ peerSent ops).length := by
  have h1 := nonempty_le_flatten (readChunks (run pt s ops).2)
  have h2 := readChunks_flatten_le (run pt s ops).2
  have h3 := congrArg List.length (run_rx pt s ops)
  simp only [List.length_append] at h3 ⊢
  omega

/-- hence the polling loop of `drop_all` ends on every line on which the other end sends finitely much, whatever the
    interleaving of its polls with sends and OS deliveries: among any `polls + bytes` reads at least `polls` (4 in the
    source) came back empty.  (It does NOT end while every poll finds a new byte — example below.) -/
theorem drop_all_polls_end (pt : Port) (s : State) (ops : List Op)
    (h : Gen.SerialIntf.dropAllPolls + (s.rxWaiting ++ s.rxFlight ++ peerSent ops).length
      ≤ (readChunks (run pt s ops).2).length) :
    Gen.SerialIntf.dropAllPolls ≤ ((readChunks (run pt s ops).2).filter (fun c => c.isEmpty)).length := by
  have h1 := nonempty_reads_bounded pt s ops
  have h2 := filter_split (readChunks (run pt s ops).2)
  omega

/-- hypotheses satisfiable (2 bytes, 6 polls → 4 empty ones); and a line that feeds one byte per poll: no empty read -/
example :
    let ops : List Op := [.peerSend [1, 2], .osDeliver 1, .read, .read, .osDeliver 1, .read, .read, .read, .read]
    Gen.SerialIntf.dropAllPolls + (peerSent ops).length ≤ (readChunks (run Port.real (init 0) ops).2).length ∧
    ((readChunks (run Port.real (init 0) ops).2).filter (fun c => c.isEmpty)).length = 4 ∧
    ((readChunks (run Port.real (init 0)
      [.peerSend [1, 2, 3], .osDeliver 1, .read, .osDeliver 1, .read, .osDeliver 1, .read]).2).filter
        (fun c => c.isEmpty)).length = 0 := by decide

/-! ### what padding is for: every write starts on a multiple of the padding -/

/-- with a padding `p > 0`: in the transmit stream of any sequence of writes of any sizes, every write `d` starts at an
    offset that is a multiple of `p` and occupies a multiple of `p` bytes -/
theorem writes_start_aligned (p : Nat) (hp : 0 < p) (a b : List Op) (d : Bytes) :
    ((writes (a ++ .write d :: b)).map (Pad.dataAlign p)).flatten
      = ((writes a).map (Pad.dataAlign p)).flatten ++ Pad.dataAlign p d ++ ((writes b).map (Pad.dataAlign p)).flatten ∧
    ((writes a).map (Pad.dataAlign p)).flatten.length % p = 0 ∧ (Pad.dataAlign p d).length % p = 0 := by
  refine ⟨?_, aligned_flatten_mod p hp _, dataAlign_length_mod p hp d⟩
  rw [writes_append]
  simp [writes]

/-- and for every history from a fresh port with padding `p > 0` never changed, once everything is delivered and taken,
    the other end has received a whole number of `p`-byte blocks -/
theorem arrived_length_aligned (pt : Port) (p : Nat) (hp0 : 0 < p) (ops : List Op) (hp : ∀ q, Op.setPad q ∉ ops)
    (hf : (run pt (init p) ops).1.txFlight = []) (hw : (run pt (init p) ops).1.txWaiting = []) :
    (peerGot (run pt (init p) ops).2).length % p = 0 := by
  rw [(writes_arrive pt p ops hp).2 hf hw]
  exact aligned_flatten_mod p hp0 _

/-- hypotheses satisfiable: padding 4, writes of 1, 5 and 4 bytes → 4 + 8 + 4 bytes, the second starts at offset 4 -/
example :
    let ops : List Op := [.write [1], .write [2, 3, 4, 5, 6], .osDeliverTx 100, .peerRecv, .write [7, 8, 9, 10],
      .osDeliverTx 4, .peerRecv]
    (∀ q, Op.setPad q ∉ ops) ∧ (run Port.real (init 4) ops).1.txFlight = [] ∧ (run Port.real (init 4) ops).1.txWaiting = [] ∧
    peerGot (run Port.real (init 4) ops).2 = [1, 0, 0, 0, 2, 3, 4, 5, 6, 0, 0, 0, 7, 8, 9, 10] := by
  refine ⟨?_, by decide, by decide, by decide⟩
  intro q hq
  simp at hq

end Nxs.C18
