/-
  Family: a parameterised family of frame codecs honouring `proto/iframe.py: ICommFrame` (C20).

  A member is given by `Params`:
    * `sof`     the start byte (any of the 256 values);
    * `fields`  the header fields that follow the start byte, in wire order: a length field
                (`len n be`: 1 to 4 bytes, little- or big-endian, holding the TOTAL frame length like
                the built-in codec), the frame id (1 byte) and filler bytes (`fill b`: written as `b`,
                ignored when decoding).  The start byte is always the first header byte: `hdr_find`
                returns the index at which the header starts and `comm.py`/`parserecv.py` crop the
                buffer there, so a start marker anywhere else is not expressible in the interface;
    * `foot`    the footer, computed over header ++ payload: XOR of all bytes (1 byte), additive sum
                modulo 2^(8k) (k = 1..4 bytes, LE or BE) or CRC-32 (IEEE 802.3, reflected; 4 bytes,
                LE or BE).
  `Params.valid`: exactly one length field (1..4 bytes), exactly one id field, header length
  3..8, footer length 1..4.

  `hdrDecode` validates like the built-in codec: too short → HDR, wrong start byte → HDR, id not in
  0..8 → HDR.  `frameDecode` has the same three guards (declared length below hdr+foot, beyond the
  data, footer mismatch → FOOT).  `frameCreate` asserts `fid ≤ 255` like the built-in one and refuses
  (struct error) a total length that does not fit the length field.
  Mathlib-free, executable.
-/
import NxsModel.Codec
namespace Nxs
namespace Family
open Serial (Hdr Frame)

inductive Field where
  | len (n : Nat) (be : Bool)
  | fid
  | fill (b : Byte)
  deriving DecidableEq, Repr

inductive Foot where
  | xor
  | sum (k : Nat) (be : Bool)
  | crc32 (be : Bool)
  deriving DecidableEq, Repr

structure Params where
  sof : Byte
  fields : List Field
  foot : Foot
  deriving DecidableEq, Repr

def Field.width : Field → Nat
  | .len n _ => n
  | _ => 1

def Field.isLen : Field → Bool
  | .len _ _ => true
  | _ => false

def Field.isFid : Field → Bool
  | .fid => true
  | _ => false

/-- the length field is 1 to 4 bytes wide -/
def Field.ok : Field → Bool
  | .len n _ => decide (1 ≤ n) && decide (n ≤ 4)
  | _ => true

def widthSum : List Field → Nat
  | [] => 0
  | f :: fs => f.width + widthSum fs

def hasLen : List Field → Bool
  | [] => false
  | f :: fs => f.isLen || hasLen fs

def hasFid : List Field → Bool
  | [] => false
  | f :: fs => f.isFid || hasFid fs

def hdrLen (p : Params) : Nat := 1 + widthSum p.fields

def Foot.len : Foot → Nat
  | .xor => 1
  | .sum k _ => k
  | .crc32 _ => 4

def Foot.ok : Foot → Bool
  | .sum k _ => decide (1 ≤ k) && decide (k ≤ 4)
  | _ => true

/-- well-formed parameter records -/
def Params.valid (p : Params) : Prop :=
  (p.fields.filter Field.isLen).length = 1 ∧ (p.fields.filter Field.isFid).length = 1 ∧
  p.fields.all Field.ok = true ∧ 3 ≤ hdrLen p ∧ hdrLen p ≤ 8 ∧ p.foot.ok = true

instance (p : Params) : Decidable p.valid := by unfold Params.valid; infer_instance

/-! ### checksums -/

def xorAll (d : Bytes) : Byte := d.foldl (· ^^^ ·) 0

def sumAll (d : Bytes) : Nat := d.foldl (fun a b => a + b.toNat) 0

/-- CRC-32 (IEEE 802.3): reflected polynomial 0xEDB88320, init and final xor 0xFFFFFFFF, bit by bit -/
def crc32StepBit (r : BitVec 32) : BitVec 32 :=
  if r.getLsbD 0 then (r >>> 1) ^^^ 0xEDB88320#32 else r >>> 1

def crc32StepByte (r : BitVec 32) (b : Byte) : BitVec 32 :=
  iter8 crc32StepBit (r ^^^ b.zeroExtend 32)

def crc32 (d : Bytes) : BitVec 32 := d.foldl crc32StepByte 0xFFFFFFFF#32 ^^^ 0xFFFFFFFF#32

/-- the footer bytes for `body` = header ++ payload -/
def check : Foot → Bytes → Bytes
  | .xor, d => [xorAll d]
  | .sum k be, d => ordBytes be k (sumAll d)
  | .crc32 be, d => ordBytes be 4 (crc32 d).toNat

/-! ### header fields -/

/-- the header bytes after the start byte, for total length `flen` and id `fid` -/
def encFields : List Field → Nat → Nat → Bytes
  | [], _, _ => []
  | .len n be :: fs, flen, fid => ordBytes be n flen ++ encFields fs flen fid
  | .fid :: fs, flen, fid => BitVec.ofNat 8 fid :: encFields fs flen fid
  | .fill b :: fs, flen, fid => b :: encFields fs flen fid

/-- read the fields off the bytes after the start byte; `a` = (fid, flen) read so far -/
def decFields : List Field → Bytes → Hdr → Hdr
  | [], _, a => a
  | .len n be :: fs, d, a => decFields fs (d.drop n) ⟨a.fid, ordNat be (d.take n)⟩
  | .fid :: fs, d, a => decFields fs (d.drop 1) ⟨(d.headD 0).toNat, a.flen⟩
  | .fill _ :: fs, d, a => decFields fs (d.drop 1) a

/-- the total length fits every length field -/
def fits : List Field → Nat → Bool
  | [], _ => true
  | .len n _ :: fs, v => decide (v < 256 ^ n) && fits fs v
  | _ :: fs, v => fits fs v

/-! ### the codec -/

/-- `hdr_decode` -/
def hdrDecode (p : Params) (d : Bytes) : Except Err Hdr :=
  if d.length < hdrLen p then .error .hdr
  else
    match d with
    | [] => .error .hdr
    | s :: rest =>
      if s ≠ p.sof then .error .hdr
      else
        let a := decFields p.fields rest ⟨0, 0⟩
        if a.fid > 8 then .error .hdr else .ok a

/-- `foot_validate`: the last `foot_len` bytes are the check of everything before them -/
def footValidate (p : Params) (d : Bytes) : Bool :=
  decide (p.foot.len ≤ d.length) &&
    (check p.foot (d.take (d.length - p.foot.len)) == d.drop (d.length - p.foot.len))

/-- `frame_decode` -/
def frameDecode (p : Params) (d : Bytes) : Except Err Frame :=
  match hdrDecode p d with
  | .error e => .error e
  | .ok h =>
    if h.flen < hdrLen p + p.foot.len then .error .foot
    else if h.flen > d.length then .error .foot
    else if !footValidate p (d.take h.flen) then .error .foot
    else .ok ⟨h.fid, slice d (hdrLen p) (h.flen - p.foot.len)⟩

/-- header ++ payload -/
def body (p : Params) (fid : Nat) (pl : Bytes) : Bytes :=
  p.sof :: encFields p.fields (hdrLen p + pl.length + p.foot.len) fid ++ pl

/-- `frame_create`; `none` payload is Python's `None` (adds no bytes) -/
def frameCreate (p : Params) (fid : Nat) (data : Option Bytes) : Except Err Bytes :=
  if fid > 255 then .error .assertion
  else
    let pl := data.getD []
    if !fits p.fields (hdrLen p + pl.length + p.foot.len) then .error .structError
    else .ok (body p fid pl ++ check p.foot (body p fid pl))

def codec (p : Params) : Codec :=
  { sof := p.sof, hdrLen := hdrLen p, footLen := p.foot.len,
    hdrFind := findByte p.sof, hdrDecode := hdrDecode p, footValidate := footValidate p,
    frameDecode := frameDecode p, frameCreate := frameCreate p }

end Family
end Nxs
