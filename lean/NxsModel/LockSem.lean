/-
  LockSem: a small-step semantics of ANY number of threads over non-reentrant locks (C12, round 7).

  `Locks.lean` Part 2 describes ONE snapshot of the threads (`Thr`: locks held + lock waited for) and
  `Deadlocked` is a predicate on a snapshot.  This file adds the dynamics, so that the snapshot
  hypotheses (`Ordered`, `Exclusive`) become INVARIANTS of every schedule instead of assumptions:

    * a thread = the locks it holds + the rest of its lock-level program (`acq l` = entering
      `with l:`, `rel l` = leaving it);
    * `step s i` = thread `i` executes its next instruction; an `acq l` is enabled only when NO thread
      (the acquirer included: `threading.Lock` is not re-entrant) holds `l`; a `rel` is always enabled;
    * `run s sched` = execute a schedule (a list of thread indices); `none` if it asks a blocked,
      finished or non-existent thread to move;
    * `OkProg P h p` = starting with the locks `h` held, program `p` releases only locks it holds,
      ends holding nothing, and every acquisition satisfies `P held acquired`; `okProgB` the
      executable version; `siteOk acqs` = "the acquisition happens at a site of the lock table
      (`Locks.Acq`) holding at most the locks recorded there".

  The theorems are in `Lemmas/R7C12.lean` / `Props/C12.lean` (mutual exclusion along every schedule,
  progress = no stuck state, every schedule has exactly `work s` steps left, completion).

  Mathlib-free, executable.
-/
import NxsModel.Locks
namespace Nxs
namespace LockSem
open Nxs.Locks

/-- a lock-level instruction -/
inductive Instr (L : Type) where
  | acq (l : L)
  | rel (l : L)
  deriving Repr, DecidableEq

/-- a thread: the locks it holds (innermost first) and the rest of its program -/
structure T (L : Type) where
  holds : List L
  prog : List (Instr L)
  deriving Repr, DecidableEq

variable {L : Type} [DecidableEq L]

/-- nobody holds `l` -/
def isFree (s : List (T L)) (l : L) : Bool := s.all fun t => !t.holds.contains l

/-- can thread `t` (a member of `s`) execute its next instruction? -/
def enabled (s : List (T L)) (t : T L) : Bool :=
  match t.prog with
  | [] => false
  | .acq l :: _ => isFree s l
  | .rel _ :: _ => true

/-- the thread after its next instruction -/
def stepT (t : T L) : T L :=
  match t.prog with
  | [] => t
  | .acq l :: p => ⟨l :: t.holds, p⟩
  | .rel l :: p => ⟨t.holds.erase l, p⟩

/-- thread `i` moves -/
def step (s : List (T L)) (i : Nat) : Option (List (T L)) :=
  match s[i]? with
  | none => none
  | some t => if enabled s t then some (s.set i (stepT t)) else none

/-- execute a schedule -/
def run (s : List (T L)) : List Nat → Option (List (T L))
  | [] => some s
  | i :: is =>
    match step s i with
    | none => none
    | some s' => run s' is

/-- instructions still to be executed -/
def work : List (T L) → Nat
  | [] => 0
  | t :: s => t.prog.length + work s

/-- every thread has finished and holds nothing -/
def Finished (s : List (T L)) : Prop := ∀ t ∈ s, t.prog = [] ∧ t.holds = []

/-- mutual exclusion: a lock is held by at most one thread (threads = positions) -/
def Excl (s : List (T L)) : Prop :=
  ∀ (i j : Nat) (ti tj : T L) (l : L), s[i]? = some ti → s[j]? = some tj → l ∈ ti.holds → l ∈ tj.holds → i = j

/-- the well-formed lock-level programs: balanced, and every acquisition satisfies `P held acquired` -/
def OkProg (P : List L → L → Prop) : List L → List (Instr L) → Prop
  | h, [] => h = []
  | h, .acq l :: p => P h l ∧ OkProg P (l :: h) p
  | h, .rel l :: p => l ∈ h ∧ OkProg P (h.erase l) p

def okProgB (P : List L → L → Bool) : List L → List (Instr L) → Bool
  | h, [] => h.isEmpty
  | h, .acq l :: p => P h l && okProgB P (l :: h) p
  | h, .rel l :: p => h.contains l && okProgB P (h.erase l) p

/-- the ordered-acquisition discipline as a property of a thread's program: every lock is acquired
    while holding only locks of strictly smaller rank (and the program is balanced) -/
def Disc (rank : L → Nat) (t : T L) : Prop :=
  OkProg (fun h l => ∀ x ∈ h, rank x < rank l) t.holds t.prog

/-- the snapshot of a thread in the sense of `Locks.Thr`: it waits for `l` iff its next instruction is `acq l` -/
def view (t : T L) : Thr L :=
  ⟨t.holds, match t.prog with | .acq l :: _ => some l | _ => none⟩

/-- the acquisition of `l` while holding `h` is explained by a site of the lock table -/
def siteOk (acqs : List Acq) (h : List Lock) (l : Lock) : Bool :=
  acqs.any fun a => a.acquires == l && h.all fun x => a.held.contains x

/-- a thread whose remaining program acquires locks only at sites of the table (holding at most the locks
    recorded there), releases only what it holds and ends holding nothing -/
def TableThread (tbl : Table) (t : T Lock) : Prop := okProgB (siteOk tbl.acqs) t.holds t.prog = true

/-- initial state of `progs.length` threads -/
def start (progs : List (List (Instr L))) : List (T L) := progs.map fun p => ⟨[], p⟩

end LockSem
end Nxs
