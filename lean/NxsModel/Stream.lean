/-
  Stream: the sample type table semantics (`iparse.dsfmt_get/msfmt_get`), the client stream
  decoder (`Parser.frame_stream_decode/_stream_data_get`) and the device-side stream encoder
  (`ParseRecv._stream_data_encode/_stream_bytes_get`), over `Gen.Types`, `Gen.Fmt`.

  Values are carried at representation level: integers as `Int`, IEEE floats as bit patterns,
  fixed-point as `raw / 2^frac`, char data as the wire bytes (the text conversion is Python's;
  see DESIGN.md section 5/C04 "value glue").
-/
import NxsModel.Struct
import NxsModel.Gen.Types
import NxsModel.Gen.Fmt
import NxsModel.Gen.Ids
import NxsModel.Serial
import NxsModel.Utf8
namespace Nxs
namespace Stream
open Gen.Ids

/-- a user-defined type: `DsfmtItem(1, dsfmt, None, dtype, cdecode, True)` -/
structure UserType where
  ty : Nat
  items : List (Nat × Code)
  dtype : Nat
  deriving DecidableEq, Repr

/-- resolved format of a channel type (`DsfmtItem`) -/
structure Dsfmt where
  slen : Nat
  items : List (Nat × Code)     -- the `dsfmt` string
  hasScale : Bool
  frac : Nat                    -- scale = 2^frac
  dtype : Nat                   -- EParseDataType
  user : Bool
  deriving DecidableEq, Repr

/-- `dsfmt_get(dtype, user)`; KeyError when the type is neither standard nor user-defined -/
def dsfmtGet (ty : Nat) (user : List UserType) : Except Err Dsfmt :=
  match Gen.Types.table.find? (·.ty = ty) with
  | some r => .ok ⟨r.slen, (match r.code with | some cd => [(1, cd)] | none => []), r.hasScale, r.frac, r.dtype, false⟩
  | none =>
    match user.find? (·.ty = ty) with
    | some u => .ok ⟨1, u.items, false, 0, u.dtype, true⟩
    | none => .error .keyError

/-- `msfmt_get(mlen)` as format items -/
def msfmtGet (mlen : Nat) : List (Nat × Code) :=
  match Gen.Types.metaTable.find? (·.1 = mlen) with
  | some (_, some cd) => [(1, cd)]
  | some (_, none) => []
  | none => [(mlen, .B)]

/-- one channel of the device layout as the decoder uses it; the list index is the channel id -/
structure Chan where
  dtype : Nat      -- `chan.data.dtype` (low five bits of the type byte)
  vdim : Nat
  mlen : Nat
  deriving DecidableEq, Repr

/-- a decoded / to-be-encoded sample value -/
inductive SVal where
  | int (v : Int)
  | f32 (w : BitVec 32)
  | f64 (w : BitVec 64)
  | fixed (raw : Int) (frac : Nat)   -- raw / 2^frac
  | text (bs : Bytes)                -- char data, as the UTF-8 bytes on the wire
  | bytes (bs : Bytes)               -- raw bytes value (user `c`/`s` items)
  | bool (b : Bool)
  deriving DecidableEq, Repr

structure Sample where
  chan : Nat
  dtype : Nat      -- EParseDataType on the client side; the channel dtype on the device side
  vdim : Nat
  mlen : Nat
  data : List SVal
  mdata : List Int
  deriving DecidableEq, Repr

def valToS : Val → SVal
  | .int v => .int v
  | .bool b => .bool b
  | .bytes bs => .bytes bs
  | .f32 w => .f32 w
  | .f64 w => .f64 w

/-- `_stream_data_get`, parameterised by how char data is decoded: `replace = true` is
    `bytes.decode(errors="replace")` (never fails; the text is carried as its wire bytes), `replace = false`
    is the strict `bytes.decode()` which raises UnicodeDecodeError on bytes that are not valid UTF-8.

    That the code DIVIDES by the scale (`x / decode.scale`, true division — not `//`, not `round`) is not
    visible at this level: `.fixed x frac` *means* x / 2^frac, and that the Python value is that quotient is
    checked by the correspondence run only (value glue `streamglue.canon_value`: the decoded float must equal
    `float(Fraction(raw, 2**frac))`). -/
def streamDataGetP (replace : Bool) (d : Dsfmt) (unpacked : List Val) : Except Err (List SVal) :=
  if d.dtype = dtNUM ∧ d.hasScale ∧ (¬ Gen.Types.decDividesOnlyScaled ∨ d.frac ≠ 0) then
    .ok (unpacked.map fun v =>
      match v with
      | .int x => .fixed x d.frac          -- x / scale
      | other => valToS other)             -- float / 1.0 is the same float
  else if d.dtype = dtCHAR ∧ unpacked.length = 1 then
    match unpacked with
    | [.bytes bs] => if replace ∨ Utf8.valid bs then .ok [.text bs] else .error .unicodeError
    | _ => .error .attributeError          -- a CHAR user type whose single item is not bytes: no `.decode`
  else .ok (unpacked.map valToS)

/-- `_stream_data_get` as the code has it now: the decoding mode is read from the source by the translator
    (`Gen.Types.decCharReplace`, F4) -/
def streamDataGet (d : Dsfmt) (unpacked : List Val) : Except Err (List SVal) :=
  streamDataGetP Gen.Types.decCharReplace d unpacked

def valsToInts : List Val → List Int
  | [] => []
  | .int v :: r => v :: valsToInts r
  | _ :: r => valsToInts r

/-- sample data format: `"<" + (str(vdim) if vdim and not user) + dsfmt` -/
def dataFmt (d : Dsfmt) (vdim : Nat) : Except Err Fmt :=
  if vdim ≠ 0 ∧ ¬ d.user then
    match d.items with
    | [(1, cd)] => .ok ⟨Gen.Fmt.streamDecBigEndian, [(vdim, cd)]⟩
    | [] => .error .structError          -- "<3": repeat count without a format code
    | _ => .error .structError
  else .ok ⟨Gen.Fmt.streamDecBigEndian, d.items⟩

/-- the decoder's per-sample step on the bytes that follow the flags byte; returns the sample and
    the remaining bytes -/
def decodeOne (layout : List Chan) (user : List UserType) (rest : Bytes) :
    Except Err (Sample × Bytes) :=
  match rest with
  | [] => .error .indexError
  | cid :: r1 =>
    match layout[cid.toNat]? with
    | none => .error .assertion
    | some ch =>
      (dsfmtGet ch.dtype user).bind fun d =>
        if d.user ∧ calcsize ⟨false, d.items⟩ ≠ ch.vdim then .error .assertion
        else
          (dataFmt d ch.vdim).bind fun f =>
            let off := d.slen * ch.vdim
            (unpack f (r1.take off)).bind fun un =>
              (streamDataGet d un).bind fun data =>          -- before the metadata is looked at, as in the code
                let r2 := r1.drop off
                (unpack ⟨Gen.Fmt.streamDecBigEndian, msfmtGet ch.mlen⟩ (r2.take ch.mlen)).bind fun m =>
                  .ok (⟨cid.toNat, d.dtype, ch.vdim, ch.mlen, data, valsToInts m⟩, r2.drop ch.mlen)

/-- the `while i < len(frame.data)` loop; `fuel` bounds the number of samples (each consumes ≥ 1 byte) -/
def decodeLoop (layout : List Chan) (user : List UserType) : Nat → Bytes → Except Err (List Sample)
  | _, [] => .ok []
  | 0, _ :: _ => .error .overflowError      -- unreachable with fuel = length
  | fuel + 1, rest =>
    (decodeOne layout user rest).bind fun (s, rest') =>
      (decodeLoop layout user fuel rest').bind fun ss => .ok (s :: ss)

/-- `frame_stream_decode` on the payload of a STREAM frame: `none` for an empty payload -/
def streamDecode (layout : List Chan) (user : List UserType) (payload : Bytes) :
    Except Err (Option (Nat × List Sample)) :=
  match payload with
  | [] => .ok none
  | flags :: rest =>
    (decodeLoop layout user rest.length rest).bind fun ss => .ok (some (flags.toNat, ss))

/-! ### device-side encoder -/

def sToVal (d : Dsfmt) : SVal → Except Err Val
  | .int v => .ok (.int v)
  | .f32 w => .ok (.f32 w)
  | .f64 w => .ok (.f64 w)
  | .fixed raw frac =>
    -- x * scale is an integer-valued float; packed as int only when the encoder rounds it
    if Gen.Types.encRoundsFixed ∧ frac = d.frac then .ok (.int raw) else .error .structError
  | .text bs => .ok (.bytes bs)
  | .bytes bs => .ok (.bytes bs)
  | .bool b => .ok (.bool b)

def mapM' (f : α → Except Err β) : List α → Except Err (List β)
  | [] => .ok []
  | a :: r => (f a).bind fun b => (mapM' f r).bind fun bs => .ok (b :: bs)

/-- `_stream_bytes_get` -/
def streamBytesGet (d : Dsfmt) (s : Sample) : Except Err Bytes :=
  let chanItems := Gen.Fmt.streamChanEnc.items
  let items :=
    if s.vdim ≠ 0 then
      if ¬ d.user then
        (match d.items with
          | [(1, cd)] => some (chanItems ++ [(s.vdim, cd)])
          | _ => none)                       -- "<B3": repeat count without a code
      else some (chanItems ++ d.items)
    else some chanItems
  match items with
  | none => .error .structError
  | some its =>
    let f : Fmt := ⟨Gen.Fmt.streamChanEnc.be, its⟩
    if d.dtype = dtNUM then
      (mapM' (sToVal d) s.data).bind fun vs => pack f (.int s.chan :: vs)
    else if d.dtype = dtCHAR then
      match s.data with
      | .text bs :: _ => pack f [.int s.chan, .bytes bs]
      | [] => .error .indexError
      | _ => .error .typeError
    else if d.dtype = dtNONE then pack f [.int s.chan]
    else if d.dtype = dtCOMPLEX then
      (mapM' (sToVal d) s.data).bind fun vs => pack f (.int s.chan :: vs)
    else .error .assertion

/-- the per-sample part of `_stream_data_encode` (samples with neither data nor meta are skipped) -/
def encodeSamples (user : List UserType) : List Sample → Except Err (Bytes × Nat)
  | [] => .ok ([], 0)
  | s :: r =>
    if s.data.isEmpty ∧ s.mdata.isEmpty then encodeSamples user r
    else
      (dsfmtGet s.dtype user).bind fun d =>
        (streamBytesGet d s).bind fun b =>
          (if (msfmtGet s.mlen).isEmpty then .ok []
           else pack ⟨false, msfmtGet s.mlen⟩ (s.mdata.map Val.int)).bind fun m =>
            (encodeSamples user r).bind fun (rest, n) => .ok (b ++ m ++ rest, n + 1)

/-- `_stream_data_encode`: `none` when no sample carries data or metadata -/
def streamDataEncode (user : List UserType) (ss : List Sample) : Except Err (Option Bytes) :=
  (pack Gen.Fmt.streamFlagsEnc [.int 0]).bind fun fl =>
    (encodeSamples user ss).bind fun (body, n) =>
      if n = 0 then .ok none else .ok (some (fl ++ body))

/-- `ParseRecv.frame_stream_encode`: the STREAM frame, or `none` when there is nothing to send -/
def frameStreamEncode (user : List UserType) (ss : List Sample) : Except Err (Option Bytes) :=
  (streamDataEncode user ss).bind fun o =>
    match o with
    | none => .ok none
    | some p => (Serial.frameCreate idSTREAM (some p)).bind fun f => .ok (some f)

/-- `Parser.frame_stream_decode` on a decoded frame: `none` unless it is a STREAM frame with data -/
def frameStreamDecode (layout : List Chan) (user : List UserType) (fr : Serial.Frame) :
    Except Err (Option (Nat × List Sample)) :=
  if fr.fid ≠ idSTREAM then .ok none else streamDecode layout user fr.data

end Stream
end Nxs
