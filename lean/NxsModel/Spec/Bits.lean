/-
  Spec/Bits: specification vocabulary for error patterns on byte strings (property C02):
  bytewise xor, the transmitted bit sequence (MSB first), Hamming weight and the positions of
  the first / last set bit.  No Mathlib; core only.
-/
import NxsModel.Bytes
namespace Nxs

/-- bytewise xor of two byte strings (error pattern applied to a frame); lengths are assumed
equal -/
def xorBytes (a b : Bytes) : Bytes := List.zipWith (· ^^^ ·) a b

/-- the bits of a byte in transmission order: most significant bit first -/
def byteBits (b : Byte) : List Bool :=
  [b.getLsbD 7, b.getLsbD 6, b.getLsbD 5, b.getLsbD 4,
   b.getLsbD 3, b.getLsbD 2, b.getLsbD 1, b.getLsbD 0]

/-- the bits of a byte string in transmission order: byte by byte, most significant bit first -/
def bitsOf (bs : Bytes) : List Bool := bs.flatMap byteBits

/-- number of set bits -/
def weight (e : Bytes) : Nat := (bitsOf e).count true

/-- index (in `bitsOf`) of the first set bit -/
def firstSet (e : Bytes) : Nat := (bitsOf e).findIdx (· = true)

/-- index (in `bitsOf`) of the last set bit -/
def lastSet (e : Bytes) : Nat :=
  (bitsOf e).length - 1 - (bitsOf e).reverse.findIdx (· = true)

end Nxs
