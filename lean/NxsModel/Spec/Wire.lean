/-
  Spec.Wire — the NxScope serial frame written out by hand (specification, not model).
  `crc16xmodem` is the textbook bitwise CRC (poly 0x1021, init 0, MSB first, no final xor).
-/
import NxsModel.Crc
namespace Nxs.Spec

def wirePrefix (fid : Nat) (p : Bytes) : Bytes :=
  (0x55 : Byte) :: BitVec.ofNat 8 (p.length + 6) :: BitVec.ofNat 8 ((p.length + 6) / 256)
    :: BitVec.ofNat 8 fid :: p

/-- 0x55, total length LE16 (payload + 6), id, payload, CRC-16/XMODEM of all that, big-endian -/
def wire (fid : Nat) (p : Bytes) : Bytes :=
  let pre := wirePrefix fid p
  let c := crc16xmodem pre
  pre ++ [BitVec.ofNat 8 (c.toNat / 256), BitVec.ofNat 8 c.toNat]

end Nxs.Spec
