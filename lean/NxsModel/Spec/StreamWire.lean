/-
  Spec.StreamWire — the NxScope stream payload written out by hand (specification, not model).

  A stream payload is   flags byte ++ sample ++ sample ++ …   and one sample is

      channel id (1 byte) ++ data ++ metadata

  * data: `vdim` little-endian values of the channel type (integers two's complement, IEEE floats
    as their bit pattern, fixed-point as the raw integer), `vdim` text bytes for CHAR/WCHAR,
    nothing for the data-less type NONE; for a user-defined type the values of its format string.
  * metadata: `mlen` bytes; 1/2/4/8 bytes are one unsigned little-endian integer, any other length
    is that many single bytes.

  The only things taken from the model are the *types* (`Chan`, `Sample`, `SVal`, `UserType`, `Dsfmt`,
  `Atom`) and `itemAtoms` (what a struct item `n code` stands for).  The table of the standard sample
  types (`stdTypes`) is written out here by hand from the NxScope documentation; nothing is read from the
  generated type table `Gen.Types` — that the code's table IS this one is the theorem `table_is_standard`
  (Lemmas/Stream.lean, restated in Props/C04 and Props/C15).  Nothing here calls the struct interpreter or
  the stream codec.  Core Lean only.
-/
import NxsModel.Stream
namespace Nxs.Spec.StreamWire
open Nxs Nxs.Stream Nxs.Gen.Ids

/-! ### the standard sample types (NxScope `enum nxscope_sample_dtype_e`), by hand -/

/-- what a value of a standard type is -/
inductive Kind where
  | nodata    -- the data-less type (metadata only)
  | uint      -- unsigned integer
  | sint      -- two's complement integer
  | float     -- IEEE 754 binary32 / binary64
  | ufixed    -- unsigned fixed point: raw / 2^frac
  | sfixed    -- signed fixed point: raw / 2^frac
  | char      -- text bytes
  deriving DecidableEq, Repr

/-- one standard type: id on the wire, kind, bytes per value, fraction bits -/
structure StdType where
  ty : Nat
  kind : Kind
  width : Nat
  frac : Nat
  deriving DecidableEq, Repr

/-- NONE and the 18 standard types: UINT8 INT8 UINT16 INT16 UINT32 INT32 UINT64 INT64 FLOAT DOUBLE
    UB8 B8 UB16 B16 UB32 B32 CHAR WCHAR (ids 2..19; 0 is "undefined", 20..31 are user-defined) -/
def stdTypes : List StdType := [
  ⟨1, .nodata, 0, 0⟩,
  ⟨2, .uint, 1, 0⟩, ⟨3, .sint, 1, 0⟩, ⟨4, .uint, 2, 0⟩, ⟨5, .sint, 2, 0⟩,
  ⟨6, .uint, 4, 0⟩, ⟨7, .sint, 4, 0⟩, ⟨8, .uint, 8, 0⟩, ⟨9, .sint, 8, 0⟩,
  ⟨10, .float, 4, 0⟩, ⟨11, .float, 8, 0⟩,
  ⟨12, .ufixed, 2, 8⟩, ⟨13, .sfixed, 2, 8⟩, ⟨14, .ufixed, 4, 16⟩, ⟨15, .sfixed, 4, 16⟩,
  ⟨16, .ufixed, 8, 32⟩, ⟨17, .sfixed, 8, 32⟩,
  ⟨18, .char, 1, 0⟩, ⟨19, .char, 1, 0⟩]

/-- the `struct` letter of a value of that kind and width -/
def codeOf : Kind → Nat → Option Code
  | .uint, 1 | .ufixed, 1 => some .B
  | .uint, 2 | .ufixed, 2 => some .H
  | .uint, 4 | .ufixed, 4 => some .I
  | .uint, 8 | .ufixed, 8 => some .Q
  | .sint, 1 | .sfixed, 1 => some .b
  | .sint, 2 | .sfixed, 2 => some .h
  | .sint, 4 | .sfixed, 4 => some .i
  | .sint, 8 | .sfixed, 8 => some .q
  | .float, 4 => some .f
  | .float, 8 => some .d
  | .char, 1 => some .s
  | _, _ => none

/-- numeric kinds are NUM, text is CHAR, the data-less type NONE (nxslib's `EParseDataType`) -/
def dtypeOf : Kind → Nat
  | .nodata => dtNONE
  | .char => dtCHAR
  | _ => dtNUM

/-- numeric kinds carry a scale factor in nxslib's table (1 for integers, 1.0 for floats, 2^frac as a
    float for fixed point); text and the data-less type carry none -/
def hasScaleOf : Kind → Bool
  | .nodata | .char => false
  | _ => true

/-- the scale factor is a Python float for floats and fixed point, the int 1 for integers -/
def scaleIsFloatOf : Kind → Bool
  | .float | .ufixed | .sfixed => true
  | _ => false

/-- the resolved format of a standard type -/
def stdDsfmt (t : StdType) : Dsfmt :=
  ⟨t.width, (match codeOf t.kind t.width with | some cd => [(1, cd)] | none => []), hasScaleOf t.kind, t.frac,
   dtypeOf t.kind, false⟩

/-- the type of a channel: a standard type from the hand-written table, else a user-defined type (one
    "value" = the whole format string, size 1 × vdim), else unknown -/
def typeGet (ty : Nat) (user : List UserType) : Except Err Dsfmt :=
  match stdTypes.find? (·.ty = ty) with
  | some t => .ok (stdDsfmt t)
  | none =>
    match user.find? (·.ty = ty) with
    | some u => .ok ⟨1, u.items, false, 0, u.dtype, true⟩
    | none => .error .keyError

/-- the row of nxslib's type table (`iparse.dsfmt_get`, as generated into `Gen.Types.table`) that a
    standard type must have -/
def rowOf (t : StdType) : Gen.Types.Row :=
  ⟨t.ty, t.width, codeOf t.kind t.width, hasScaleOf t.kind, t.frac, scaleIsFloatOf t.kind, dtypeOf t.kind⟩

/-- what `Gen.Types.table` must be -/
def standardTable : List Gen.Types.Row := stdTypes.map rowOf

/-! ### values on the wire -/

/-- `size` little-endian bytes of `v`; signed = two's complement; `none` when `v` does not fit -/
def encInt (signed : Bool) (size : Nat) (v : Int) : Option Bytes :=
  let m : Int := 256 ^ size
  let lo : Int := if signed then -(m / 2) else 0
  let hi : Int := if signed then m / 2 else m
  if lo ≤ v ∧ v < hi then some (leBytes size (v % m).toNat) else none

def isUnsignedCode : Code → Bool
  | .B | .H | .I | .Q => true
  | _ => false

def isSignedCode : Code → Bool
  | .b | .h | .i | .q => true
  | _ => false

def isIntCode (cd : Code) : Bool := isUnsignedCode cd || isSignedCode cd

/-- the bytes of one value; `a.n` is the byte count of an `s` item -/
def encAtom (a : Atom) (v : SVal) : Option Bytes :=
  match a.code, v with
  | .B, .int x | .B, .fixed x _ => encInt false 1 x
  | .H, .int x | .H, .fixed x _ => encInt false 2 x
  | .I, .int x | .I, .fixed x _ => encInt false 4 x
  | .Q, .int x | .Q, .fixed x _ => encInt false 8 x
  | .b, .int x | .b, .fixed x _ => encInt true 1 x
  | .h, .int x | .h, .fixed x _ => encInt true 2 x
  | .i, .int x | .i, .fixed x _ => encInt true 4 x
  | .q, .int x | .q, .fixed x _ => encInt true 8 x
  | .f, .f32 w => some (leBytes 4 w.toNat)
  | .d, .f64 w => some (leBytes 8 w.toNat)
  | .s, .text bs | .s, .bytes bs => if bs.length = a.n then some bs else none
  | .c, .text bs | .c, .bytes bs => if bs.length = 1 then some bs else none
  | .bool, .bool b => some [if b then 1 else 0]
  | _, _ => none

/-! ### which values a channel carries -/

/-- the values of one sample of a channel of resolved type `d` and dimension `vdim` -/
def dataAtoms (d : Dsfmt) (vdim : Nat) : List Atom :=
  if d.user then d.items.flatMap itemAtoms                -- user type: its format string
  else
    match d.items with
    | [(_, .s)] => [⟨.s, vdim⟩]                           -- CHAR / WCHAR: one text of vdim bytes
    | [(_, cd)] => List.replicate vdim ⟨cd, cd.size⟩      -- vdim values of the type's code
    | _ => []                                             -- NONE: no data

/-- 1/2/4/8 bytes: one unsigned integer; any other length: that many single bytes -/
def metaAtoms (mlen : Nat) : List Atom :=
  if mlen = 1 then [⟨.B, 1⟩] else if mlen = 2 then [⟨.H, 2⟩] else if mlen = 4 then [⟨.I, 4⟩]
  else if mlen = 8 then [⟨.Q, 8⟩] else List.replicate mlen ⟨.B, 1⟩

/-- fixed-point types: NUM types whose table row has fraction bits -/
def isFixed (d : Dsfmt) : Bool := d.dtype = dtNUM && d.hasScale && d.frac ≠ 0

/-- text conversion applies to CHAR types that carry a single value -/
def isText (d : Dsfmt) (natoms : Nat) : Bool := d.dtype = dtCHAR && natoms = 1

/-- the constructor a decoded value must have: fixed-point types give `raw / 2^frac` with `frac` from
    the type table, other integers are plain, a CHAR type with a single value gives text, other
    `s`/`c` items raw bytes, floats and bools themselves.  A CHAR type whose single value is not bytes (a
    user type declared `CHAR` with the format `"B"`, say) has no well-formed samples: there is no text in it
    (the client raises AttributeError on such a configuration). -/
def kindOk (d : Dsfmt) (natoms : Nat) (a : Atom) : SVal → Bool
  | .fixed _ fr => isIntCode a.code && isFixed d && fr = d.frac
  | .int _ => isIntCode a.code && !isFixed d && !isText d natoms
  | .text _ => (a.code = .s || a.code = .c) && isText d natoms
  | .bytes _ => (a.code = .s || a.code = .c) && !isText d natoms
  | .f32 _ => a.code = .f && !isText d natoms
  | .f64 _ => a.code = .d && !isText d natoms
  | .bool _ => a.code = .bool && !isText d natoms

/-- vector dimension allowed for the type: standard types need `vdim ≥ 1`, the data-less type
    `vdim = 0`; a user type's format must be exactly `vdim` bytes long -/
def dimOk (d : Dsfmt) (vdim : Nat) : Bool :=
  if d.user then atomsSize (d.items.flatMap itemAtoms) = vdim
  else if d.items.isEmpty then vdim = 0 else 1 ≤ vdim

/-- one encoded item per atom, concatenated; `none` on an arity mismatch or an unencodable value -/
def encList {α β : Type} (enc : α → β → Option Bytes) : List α → List β → Option Bytes
  | [], [] => some []
  | a :: as, v :: vs =>
    match enc a v, encList enc as vs with
    | some x, some r => some (x ++ r)
    | _, _ => none
  | _, _ => none

/-- a data value: of the right kind for the channel, and encodable -/
def encData (d : Dsfmt) (natoms : Nat) (a : Atom) (v : SVal) : Option Bytes :=
  if kindOk d natoms a v then encAtom a v else none

/-- a metadata value: an unsigned integer of the atom's width -/
def encMeta (a : Atom) (m : Int) : Option Bytes := encInt false a.code.size m

def byteOf (n : Nat) : Byte := BitVec.ofNat 8 n

/-! ### the payload -/

/-- the bytes of one sample, `none` unless the sample is well-formed for the layout -/
def wireSample (layout : List Chan) (user : List UserType) (s : Sample) : Option Bytes :=
  match layout[s.chan]? with
  | none => none                                              -- no such channel
  | some ch =>
    match typeGet ch.dtype user with
    | .error _ => none                                        -- channel type unknown
    | .ok d =>
      if s.chan ≤ 255 ∧ s.vdim = ch.vdim ∧ s.mlen = ch.mlen ∧ s.dtype = d.dtype ∧ dimOk d ch.vdim then
        let atoms := dataAtoms d ch.vdim
        match encList (encData d atoms.length) atoms s.data, encList encMeta (metaAtoms ch.mlen) s.mdata with
        | some x, some m => some (byteOf s.chan :: (x ++ m))
        | _, _ => none
      else none

/-- the samples of a payload one after the other (the flags byte goes in front) -/
def wireOf (layout : List Chan) (user : List UserType) : List Sample → Option Bytes
  | [] => some []
  | s :: ss =>
    match wireSample layout user s, wireOf layout user ss with
    | some x, some r => some (x ++ r)
    | _, _ => none

/-! ### device side (C15): what the simulated device may be asked to stream

  On the device side `Sample.dtype` holds the channel *type id* (not the EParseDataType) and a
  text / `s` value may be shorter than its field: the encoder pads it with NUL bytes. -/

/-- NUL padding to `n` bytes (never truncates) -/
def padNul (n : Nat) (bs : Bytes) : Bytes := bs ++ List.replicate (n - bs.length) 0

/-- what the client sees for a value handed to the device: `s` fields padded, all else unchanged -/
def padVal (a : Atom) : SVal → SVal
  | .text bs => if a.code = .s then .text (padNul a.n bs) else .text bs
  | .bytes bs => if a.code = .s then .bytes (padNul a.n bs) else .bytes bs
  | v => v

def padVals : List Atom → List SVal → List SVal
  | a :: as, v :: vs => padVal a v :: padVals as vs
  | _, vs => vs

/-- a sample carries data or metadata (others are left out of the stream) -/
def carries (s : Sample) : Bool := !(s.data.isEmpty && s.mdata.isEmpty)

/-- the sample the client must decode for a device-side sample: dtype ↦ EParseDataType of the
    type, text padded with NULs to the field length, everything else unchanged -/
def decodedForm (user : List UserType) (s : Sample) : Sample :=
  match typeGet s.dtype user with
  | .ok d => { s with dtype := d.dtype, data := padVals (dataAtoms d s.vdim) s.data }
  | .error _ => s

/-- `raw` is exactly a Python float (IEEE binary64): raw = ± m · 2^e with m < 2^53, i.e. the bits of |raw|
    below its 53 most significant ones are all zero (`floatExact_iff` in Lemmas/Stream.lean).  A sample
    value handed to the device-side encoder is a Python float; for a fixed-point channel that float is
    raw / 2^frac, which is a float exactly when raw is (dividing by 2^frac only moves the exponent, and
    no 64-bit raw with frac ≤ 32 leaves the exponent range). -/
def floatExact (raw : Int) : Bool :=
  raw.natAbs % 2 ^ (raw.natAbs.log2 + 1 - 53) = 0

/-- a float32 signalling NaN: exponent all ones, mantissa non-zero, quiet bit (bit 22) clear -/
def isSNaN32 (w : BitVec 32) : Bool :=
  (w.toNat / 2 ^ 23) % 256 = 255 && w.toNat % 2 ^ 23 ≠ 0 && (w.toNat / 2 ^ 22) % 2 = 0

/-- a float64 signalling NaN: exponent all ones, mantissa non-zero, quiet bit (bit 51) clear -/
def isSNaN64 (w : BitVec 64) : Bool :=
  (w.toNat / 2 ^ 52) % 2048 = 2047 && w.toNat % 2 ^ 52 ≠ 0 && (w.toNat / 2 ^ 51) % 2 = 0

/-- the value exists as a Python object that can be handed to the encoder:
    * a fixed-point value is the float raw / 2^frac, so raw must be exactly a float;
    * text is a `str`, so its bytes are well-formed UTF-8;
    * a float32 value is a Python float (a double) that `struct` narrows to binary32 — every binary32
      pattern is the image of some double except the signalling NaNs (the IEEE narrowing conversion quiets
      them);
    * a float64 value: NaNs are carried through the device-side encoder as a class only — it multiplies
      float samples by the scale 1.0, an arithmetic operation, which turns a signalling NaN into the quiet NaN
      with the same payload; signalling patterns are therefore not values that round-trip bit for bit and are
      excluded (every other pattern, quiet NaNs with any payload included, is unchanged by `x * 1.0`);
    integers, bytes and bools always exist. -/
def pyExact : SVal → Bool
  | .fixed raw _ => floatExact raw
  | .text bs => Utf8.valid bs
  | .f32 w => !isSNaN32 w
  | .f64 w => !isSNaN64 w
  | _ => true

/-- every data value is of the kind of its atom, exists as a Python value and, after NUL padding, is
    encodable (integers in range of the code, text / `s` bytes at most the field length) -/
def dataRep (d : Dsfmt) (natoms : Nat) : List Atom → List SVal → Bool
  | [], [] => true
  | a :: as, v :: vs =>
    kindOk d natoms a v && pyExact v && (encAtom a (padVal a v)).isSome && dataRep d natoms as vs
  | _, _ => false

/-- one in-range unsigned value per metadata atom -/
def metaRep : List Atom → List Int → Bool
  | [], [] => true
  | a :: as, m :: ms => (encMeta a m).isSome && metaRep as ms
  | _, _ => false

/-- what the device-side encoder additionally asks per EParseDataType: NONE types have no data,
    CHAR types a single text, NUM / COMPLEX no text; there is no fifth kind -/
def dtypeRule (d : Dsfmt) (s : Sample) : Bool :=
  if d.dtype = dtNONE then s.data.isEmpty
  else if d.dtype = dtCHAR then (match s.data with | [.text _] => true | _ => false)
  else d.dtype = dtNUM || d.dtype = dtCOMPLEX

/-- a sample that carries data or metadata and is representable in its channel's type -/
def RepFull (d : Dsfmt) (s : Sample) : Bool :=
  s.chan ≤ 255 && dimOk d s.vdim
    && (s.vdim ≠ 0 || (dataAtoms d s.vdim).isEmpty)        -- only matters for user types
    && dtypeRule d s
    && dataRep d (dataAtoms d s.vdim).length (dataAtoms d s.vdim) s.data
    && metaRep (metaAtoms s.mlen) s.mdata

/-- `Representable`: either the sample carries nothing (it is skipped), or its type resolves and
    its values fit the type -/
def Representable (user : List UserType) (s : Sample) : Prop :=
  carries s = false ∨
    match typeGet s.dtype user with
    | .ok d => RepFull d s = true
    | .error _ => False

instance (user : List UserType) (s : Sample) : Decidable (Representable user s) := by
  unfold Representable
  cases typeGet s.dtype user <;> exact inferInstance

/-- the layout agrees with the device-side samples that are streamed -/
def LayoutAgrees (L : List Chan) (ss : List Sample) : Prop :=
  ∀ s ∈ ss, carries s = true → L[s.chan]? = some ⟨s.dtype, s.vdim, s.mlen⟩

end Nxs.Spec.StreamWire
