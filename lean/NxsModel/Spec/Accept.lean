/-
  Spec.Accept — the acceptance predicate of property C02, written by hand from the property text:
  starts with 0x55, known frame id, declared total length ≥ 6 and ≤ the bytes supplied, CRC over
  exactly the declared length verifies, payload = the bytes between header and CRC.
-/
import NxsModel.Crc
namespace Nxs.Spec

/-- the declared total length: bytes 1 and 2, little-endian -/
def flen (d : Bytes) : Nat := (d.getD 1 0).toNat + 256 * (d.getD 2 0).toNat

def Accept (d : Bytes) (fid : Nat) (pl : Bytes) : Prop :=
  4 ≤ d.length ∧ d[0]? = some 0x55 ∧ (d.getD 3 0).toNat = fid ∧ fid ≤ 8 ∧
  6 ≤ flen d ∧ flen d ≤ d.length ∧ crc16xmodem (d.take (flen d)) = 0 ∧
  pl = (d.take (flen d - 2)).drop 4

end Nxs.Spec
