/-
  LockSteps: the configuration machine of `Config` at lock granularity (C12), extended with the
  subscriber side of `NxscopeHandler`.

  One `AOp` is one `with self._channels_lock:` block of comm.py, i.e. what the lock makes atomic
  with respect to the other application threads and the stream thread:
    `ch_enable / ch_disable / ch_divider`      one block each (same as the `Config.Op`),
    `ch_enable_all / ch_disable_all`           NOT one block: `chmax` calls of `ch_enable(c)` /
                                               `ch_disable(c)`, one block each (`enableAllBlock`, …),
    `channels_default_cfg`                     `ch_disable_all` and then ONE block that zeroes the
                                               requested dividers (`defaultCfgBlock`),
    `channels_write`                           on a device without channels NO block at all (F18: it
                                               returns before touching the lock); otherwise TWO blocks on
                                               a device with divider support — `_nxslib_channels_div`
                                               (diff → request → ACK → update) and then
                                               `_nxslib_channels_enable` — and one block (enable only)
                                               without it (`writeBlock`),
    `ch_is_enabled / ch_div_get`               one block that changes nothing (`query`).
  Another thread can therefore run between the two halves of a write; `Config.step (.write a b)` is
  the special case in which nobody does (`astep_write`).

  One `XOp` is one critical section of EITHER lock (channels lock / queue lock); the two locks are never
  nested into each other:
    `cfg a`          a channels-lock block as above,
    `sub ch`         `stream_sub(ch)`: under the queue lock, a fresh queue is appended to `_sub_q[ch]`,
    `unsub q`        `stream_unsub(q)`: under the queue lock, `q` is removed from every channel's list,
    `fanCheck ch`    the stream thread's `ch_is_enabled(ch)` for one sample of the frame it is fanning
                     out (channels lock; the answer stays in the stream thread's local `samples` lists),
    `fanDeliver ss`  the stream thread's `with self._queue_lock:` block: the groups built from the
                     samples `ss` of the frame and the answers collected so far are put on every queue
                     subscribed to their channel.
  Reading a sample (`queue.get` on the queue returned by `stream_sub`) takes no lock of the library and
  touches none of its state; it appears in the wait-for graph of `Locks.lean` only.
  Mathlib-free, executable (driver: `locks run`).
-/
import NxsModel.Config
namespace Nxs
namespace LockSteps
open Config

inductive AOp where
  | enable (cs : List Nat)
  | disable (cs : List Nat)
  | divider (cs : List Nat) (v : Int)
  | wDiv (o : Outcome)       -- divider half of `channels_write` (skipped without divider support)
  | wEn (o : Outcome)        -- enable half of `channels_write`
  | query                    -- `ch_is_enabled` / `ch_div_get`
  deriving Repr

def astep (c : Client) (d : Device) : AOp → Client × Device × StepOut
  | .enable cs => step c d (.enable cs)
  | .disable cs => step c d (.disable cs)
  | .divider cs v => step c d (.divider cs v)
  | .wDiv o => if c.divSupported then writeDiv c d o else (c, d, {})
  | .wEn o => writeEnable c d o
  | .query => (c, d, {})

/-- run a lock-level trace; collects the per-step outputs -/
def arun (c : Client) (d : Device) : List AOp → Client × Device × List StepOut
  | [] => (c, d, [])
  | op :: r =>
    let (c1, d1, o) := astep c d op
    let (c2, d2, os) := arun c1 d1 r
    (c2, d2, o :: os)

/-- the blocks of a `channels_write` call on a device with `n` channels: none for `n = 0` (the call
    returns before it takes the channels lock) -/
def writeBlock (n : Nat) (divSupported : Bool) (oDiv oEn : Outcome) : List AOp :=
  if n = 0 then [] else if divSupported then [.wDiv oDiv, .wEn oEn] else [.wEn oEn]

/-- the blocks of `ch_enable_all()` / `ch_disable_all()`: one per channel, in channel order -/
def enableAllBlock (n : Nat) : List AOp := (List.range n).map fun c => .enable [c]
def disableAllBlock (n : Nat) : List AOp := (List.range n).map fun c => .disable [c]

/-- the blocks of `channels_default_cfg()`: `ch_disable_all()`, then `_ch_divider_default` (one block that
    sets every requested divider to 0) -/
def defaultCfgBlock (n : Nat) : List AOp := disableAllBlock n ++ [.divider (List.range n) 0]

/-- the answer of `ch_is_enabled(ch)` -/
def isEnabled (c : Client) (ch : Nat) : Bool := c.enNow.getD ch false

/-- the answer of `ch_div_get(ch)` -/
def divGet (c : Client) (ch : Nat) : Int := c.divNow.getD ch 0

/-! ## the subscriber side -/

/-- one decoded stream sample: its channel and an identifying number -/
structure Smp where
  chan : Nat
  val : Nat
  deriving DecidableEq, Repr

/-- `NxscopeHandler._sub_q` plus the stream thread's local state while it fans a frame out -/
structure Fan where
  subs : List (List Nat)        -- per channel the subscribed queue ids, in subscription order
  nextQ : Nat                   -- id the next queue created by `stream_sub` gets
  pending : List Bool           -- answers of the enabled checks made so far for the current frame
  deriving DecidableEq, Repr

/-- right after `connect` -/
def Fan.init (n : Nat) : Fan := { subs := List.replicate n [], nextQ := 0, pending := [] }

inductive XOp where
  | cfg (a : AOp)
  | sub (ch : Nat)
  | unsub (q : Nat)
  | fanCheck (ch : Nat)
  | fanDeliver (ss : List Smp)
  deriving Repr

/-- what one critical section shows to the outside -/
structure XOut where
  cfg : Option StepOut := none            -- a configuration block: frames sent, time, error
  err : Option Err := none                -- exception raised by a subscriber-side call
  newQ : Option Nat := none               -- `stream_sub`: the id of the queue returned
  ans : Option Bool := none               -- `fanCheck`: the answer of `ch_is_enabled`
  puts : List (Nat × List Nat) := []      -- `fanDeliver`: (queue id, group put on it), in order
  deriving Repr

structure XState where
  c : Client
  d : Device
  f : Fan
  deriving Repr

/-- the samples of channel `ch` whose enabled check answered True, in frame order
    (`samples[data.chan].append(…)` under `if ch_is_enabled(data.chan) is True`) -/
def group (ss : List Smp) (answers : List Bool) (ch : Nat) : List Nat :=
  ((ss.zip answers).filter fun p => p.1.chan == ch && p.2).map (·.1.val)

/-- `for chan in range(chmax): if len(samples[chan]) > 0: for que in _sub_q[chan]: que.put(samples[chan])` -/
def deliver (subs : List (List Nat)) (ss : List Smp) (answers : List Bool) : List (Nat × List Nat) :=
  (List.range subs.length).flatMap fun ch =>
    let g := group ss answers ch
    if g.isEmpty then [] else (subs.getD ch []).map fun q => (q, g)

def xstep (s : XState) : XOp → XState × XOut
  | .cfg a =>
    let r := astep s.c s.d a
    ({ s with c := r.1, d := r.2.1 }, { cfg := some r.2.2 })
  | .sub ch =>
    if ch < s.f.subs.length then
      ({ s with f := { s.f with subs := s.f.subs.set ch (s.f.subs.getD ch [] ++ [s.f.nextQ]), nextQ := s.f.nextQ + 1 } },
       { newQ := some s.f.nextQ })
    else (s, { err := some .indexError })
  | .unsub q => ({ s with f := { s.f with subs := s.f.subs.map fun l => l.erase q } }, {})
  | .fanCheck ch =>
    ({ s with f := { s.f with pending := s.f.pending ++ [isEnabled s.c ch] } }, { ans := some (isEnabled s.c ch) })
  | .fanDeliver ss =>
    ({ s with f := { s.f with pending := [] } }, { puts := deliver s.f.subs ss s.f.pending })

def xrun (s : XState) : List XOp → XState × List XOut
  | [] => (s, [])
  | op :: r =>
    let (s1, o) := xstep s op
    let (s2, os) := xrun s1 r
    (s2, o :: os)

/-- state right after a successful connect to device `d` -/
def XState.init (d : Device) (flags : Nat) : XState := ⟨Client.init d flags, d, Fan.init d.en.length⟩

/-- the configuration block an `XOp` is, if any (the stream thread's enabled check is a `query`) -/
def cfgOf : XOp → Option AOp
  | .cfg a => some a
  | .fanCheck _ => some .query
  | _ => none

end LockSteps
end Nxs
