/-
  LockSteps: the configuration machine of `Config` at lock granularity (C12).

  One `AOp` is one `with self._channels_lock:` block of comm.py, i.e. what the lock makes atomic
  with respect to the other application threads and the stream thread:
    `ch_enable / ch_disable / ch_divider`      one block each (same as the `Config.Op`),
    `channels_write`                           TWO blocks on a device with divider support —
                                               `_nxslib_channels_div` (diff → request → ACK → update)
                                               and then `_nxslib_channels_enable` — and one block
                                               (enable only) otherwise,
    `ch_is_enabled / ch_div_get`               one block that changes nothing (`query`).
  Another thread can therefore run between the two halves of a write; `Config.step (.write a b)` is
  the special case in which nobody does (`astep_write`).
  Mathlib-free, executable (driver: `locks run`).
-/
import NxsModel.Config
namespace Nxs
namespace LockSteps
open Config

inductive AOp where
  | enable (cs : List Nat)
  | disable (cs : List Nat)
  | divider (cs : List Nat) (v : Int)
  | wDiv (o : Outcome)       -- divider half of `channels_write` (skipped without divider support)
  | wEn (o : Outcome)        -- enable half of `channels_write`
  | query                    -- `ch_is_enabled` / `ch_div_get`
  deriving Repr

def astep (c : Client) (d : Device) : AOp → Client × Device × StepOut
  | .enable cs => step c d (.enable cs)
  | .disable cs => step c d (.disable cs)
  | .divider cs v => step c d (.divider cs v)
  | .wDiv o => if c.divSupported then writeDiv c d o else (c, d, {})
  | .wEn o => writeEnable c d o
  | .query => (c, d, {})

/-- run a lock-level trace; collects the per-step outputs -/
def arun (c : Client) (d : Device) : List AOp → Client × Device × List StepOut
  | [] => (c, d, [])
  | op :: r =>
    let (c1, d1, o) := astep c d op
    let (c2, d2, os) := arun c1 d1 r
    (c2, d2, o :: os)

/-- the two blocks of a `channels_write` call -/
def writeBlock (divSupported : Bool) (oDiv oEn : Outcome) : List AOp :=
  if divSupported then [.wDiv oDiv, .wEn oEn] else [.wEn oEn]

/-- the answer of `ch_is_enabled(ch)` -/
def isEnabled (c : Client) (ch : Nat) : Bool := c.enNow.getD ch false

/-- the answer of `ch_div_get(ch)` -/
def divGet (c : Client) (ch : Nat) : Int := c.divNow.getD ch 0

end LockSteps
end Nxs
