/-
  Utf8: which byte strings are well-formed UTF-8 (Unicode 15, table 3-7), i.e. on which bytes CPython's
  strict `bytes.decode("utf-8")` succeeds and which byte strings are the UTF-8 encoding of a Python `str`
  (surrogates excluded).  Used by the stream model (`Stream.streamDataGetP`: strict vs `errors="replace"`) and by
  the specification of what a text sample value is (`Spec/StreamWire.lean`, `pyExact`).  Core Lean only.
-/
import NxsModel.Bytes
namespace Nxs.Utf8

/-- strict UTF-8 validity: no overlong forms, no surrogates, at most U+10FFFF -/
def valid : Bytes → Bool
  | [] => true
  | a :: r =>
    if a.toNat < 0x80 then valid r
    else if 0xC2 ≤ a.toNat ∧ a.toNat ≤ 0xDF then
      match r with
      | b :: r' => (0x80 ≤ b.toNat ∧ b.toNat ≤ 0xBF) && valid r'
      | _ => false
    else if 0xE0 ≤ a.toNat ∧ a.toNat ≤ 0xEF then
      match r with
      | b :: c :: r' =>
        let lo := if a.toNat = 0xE0 then 0xA0 else 0x80
        let hi := if a.toNat = 0xED then 0x9F else 0xBF
        (lo ≤ b.toNat ∧ b.toNat ≤ hi) && (0x80 ≤ c.toNat ∧ c.toNat ≤ 0xBF) && valid r'
      | _ => false
    else if 0xF0 ≤ a.toNat ∧ a.toNat ≤ 0xF4 then
      match r with
      | b :: c :: d :: r' =>
        let lo := if a.toNat = 0xF0 then 0x90 else 0x80
        let hi := if a.toNat = 0xF4 then 0x8F else 0xBF
        (lo ≤ b.toNat ∧ b.toNat ≤ hi) && (0x80 ≤ c.toNat ∧ c.toNat ≤ 0xBF) && (0x80 ≤ d.toNat ∧ d.toNat ≤ 0xBF)
          && valid r'
      | _ => false
    else false

end Nxs.Utf8
