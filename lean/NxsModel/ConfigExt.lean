/-
  ConfigExt — C07 additions to the configuration machine of `Config.lean` (nothing there is changed):

  1. rx padding.  `Config.devApplyEn/devApplyDiv` let the device react to the payload of the frame the client
     built.  Here the device stands behind its request dispatcher: it receives the bytes of one *write* — the
     frame after `data_align` with the device's rx padding (`Pad.dataAlign`) — and reacts through
     `Dispatch.recvHandle` (the dispatcher of C02/C14/C17) and the C05 decoders (`devReact`).  `writeEnableP`,
     `writeDivP`, `channelsWriteP`, `stepP`, `runP` are `writeEnable` … `run` with exactly that change; the
     per-op output carries the bytes written (padded).  `Lemmas/ConfigExt.lean` proves that for every padding the
     client and device states of `runP` are those of `run`.
  2. Python channel ids.  `self._channels.en_new[chan] = True` accepts every Python index: −len … −1 count from
     the end (`normId`); `True`/`False` are the ints 1/0 (the driver maps them).  `IOp` = ops with signed ids.
  3. The `NxscopeHandler` wrappers (`ch_enable(chans, writenow)` …): the setter, then — if it did not raise and
     `writenow` is set — `channels_write()`.  `Call` = an `IOp` plus the optional write (with the outcomes of its
     two requests), `stepCall`/`runCalls` run them over the padded machine.
-/
import NxsModel.Config
import NxsModel.Dispatch
import NxsModel.Pad
namespace Nxs
namespace Config
open Requests

/-! ## 1. the device behind its request dispatcher; rx padding -/

/-- reaction of a conforming device to the bytes of one write arriving at its receiver: the dispatcher selects
    a callback (2 = enable, 3 = divider: `Dispatch.cbName`); the callback decodes the payload with the device-side
    decoder and stores the result; anything else leaves the channel configuration alone -/
def devReact (d : Device) (w : Bytes) : Device :=
  match Dispatch.recvHandle w with
  | .fired cb pl =>
    if cb = 2 then
      match frameEnableDecode pl d.en.length d.en with
      | .ok v => { d with en := v }
      | .error _ => d
    else if cb = 3 then
      match frameDivDecode pl d.div.length d.div with
      | .ok v => { d with div := v }
      | .error _ => d
    else d
  | _ => d

/-- `_nxslib_channels_enable` writing through an interface with write padding `pad` -/
def writeEnableP (pad : Nat) (c : Client) (d : Device) (o : Outcome) : Client × Device × StepOut :=
  match frameEnable (enRequest c) c.n with
  | .error e => (c, d, { err := some e })
  | .ok f =>
    let w := Pad.dataAlign pad f
    let d' := if applies o then devReact d w else d
    let (seen, t) := ackSeen c o Gen.Comm.ackTimeoutEnable
    if seen then
      ({ c with enResync := false, enNow := c.enNew, copyEn := c.enNew }, d', { sent := [w], time := t })
    else ({ c with enResync := true }, d', { sent := [w], time := t })

def writeDivP (pad : Nat) (c : Client) (d : Device) (o : Outcome) : Client × Device × StepOut :=
  match frameDiv (divRequest c) c.n with
  | .error e => (c, d, { err := some e })
  | .ok f =>
    let w := Pad.dataAlign pad f
    let d' := if applies o then devReact d w else d
    let (seen, t) := ackSeen c o Gen.Comm.ackTimeoutDiv
    if seen then
      ({ c with divResync := false, divNow := c.divNew, copyDiv := c.divNew }, d', { sent := [w], time := t })
    else ({ c with divResync := true }, d', { sent := [w], time := t })

/-- `channels_write` (same statements as `channelsWrite`) -/
def channelsWriteP (pad : Nat) (c : Client) (d : Device) (oDiv oEn : Outcome) : Client × Device × StepOut :=
  if c.n = 0 then (c, d, {})
  else if c.divSupported then
    let r1 := writeDivP pad c d oDiv
    match r1.2.2.err with
    | some _ => r1
    | none =>
      let r2 := writeEnableP pad r1.1 r1.2.1 oEn
      (r2.1, r2.2.1, { sent := r1.2.2.sent ++ r2.2.2.sent, time := r1.2.2.time + r2.2.2.time, err := r2.2.2.err })
  else writeEnableP pad c d oEn

/-- one call; only a write touches the interface -/
def stepP (pad : Nat) (c : Client) (d : Device) (op : Op) : Client × Device × StepOut :=
  match op with
  | .write oDiv oEn => channelsWriteP pad c d oDiv oEn
  | _ => step c d op

def runP (pad : Nat) (c : Client) (d : Device) : List Op → Client × Device × List StepOut
  | [] => (c, d, [])
  | op :: r =>
    let s := stepP pad c d op
    let t := runP pad s.1 s.2.1 r
    (t.1, t.2.1, s.2.2 :: t.2.2)

/-- the per-op output with every frame as it is written with write padding `pad` -/
def padOut (pad : Nat) (o : StepOut) : StepOut := { o with sent := o.sent.map (Pad.dataAlign pad) }

/-! ## 2. Python channel ids -/

/-- the list position a Python index `c` denotes in a list of `len` entries: `c` itself for `c ≥ 0`, `len + c`
    for `−len ≤ c < 0`; every other index is out of range — mapped to `len`, which is out of range too, so that
    `setMany` raises IndexError at the same place of the loop -/
def normId (len : Nat) (c : Int) : Nat :=
  if 0 ≤ c then c.toNat else if -c ≤ (len : Int) then (c + len).toNat else len

/-- the configuration calls with Python channel ids -/
inductive IOp where
  | enable (cs : List Int)
  | disable (cs : List Int)
  | divider (cs : List Int) (v : Int)
  | plain (op : Op)
  deriving Repr

/-- the `Op` an `IOp` amounts to for a client whose requested vectors have the lengths of `c`'s -/
def IOp.toOp (c : Client) : IOp → Op
  | .enable cs => .enable (cs.map (normId c.enNew.length))
  | .disable cs => .disable (cs.map (normId c.enNew.length))
  | .divider cs v => .divider (cs.map (normId c.divNew.length)) v
  | .plain op => op

/-! ## 3. calls: a setter with an optional immediate write -/

/-- one call of the public API: `op`, followed (wrappers with `writenow=True`) by a write whose divider / enable
    requests meet the outcomes `now` -/
structure Call where
  op : IOp
  now : Option (Outcome × Outcome) := none
  deriving Repr

/-- `self._comm.<setter>(…)`, then `if writenow: self.channels_write()`: a raising setter ends the call -/
def stepCall (pad : Nat) (c : Client) (d : Device) (k : Call) : Client × Device × StepOut :=
  let r := stepP pad c d (k.op.toOp c)
  match k.now, r.2.2.err with
  | some (a, b), none => stepP pad r.1 r.2.1 (.write a b)
  | _, _ => r

def runCalls (pad : Nat) (c : Client) (d : Device) : List Call → Client × Device × List StepOut
  | [] => (c, d, [])
  | k :: r =>
    let s := stepCall pad c d k
    let t := runCalls pad s.1 s.2.1 r
    (t.1, t.2.1, s.2.2 :: t.2.2)

end Config
end Nxs
