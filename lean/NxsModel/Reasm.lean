/-
  Reasm: model of the client receive path `CommHandler._read_hdr/_read_frame/_recv_thread`
  (comm.py) over an arbitrary codec, with the link as a script of read results (an exhausted
  script answers `b""`), and the reference specification `scan`: one left-to-right pass over the
  concatenated bytes.
-/
import NxsModel.Codec
namespace Nxs
namespace Reasm
open Serial (Hdr Frame)

/-- `self._intf.read()` against a script: next chunk, or empty when exhausted -/
def readNext : List Bytes → Bytes × List Bytes
  | [] => ([], [])
  | c :: r => (c, r)

/-- result of `_read_hdr`: header and accumulated bytes, or nothing; plus `_prev_read` and the script left -/
structure HdrRes where
  hdr : Option (Hdr × Bytes)
  buf : Bytes
  reads : List Bytes

/-- inner loop of `_read_hdr`: accumulate until at least `hdr_len` bytes; `none` = an empty read
    (buffer stored, return) -/
def fill (n : Nat) : Nat → Bytes → List Bytes → Option Bytes × Bytes × List Bytes
  | 0, b, rs => (none, b, rs)
  | fuel + 1, b, rs =>
    if b.length < n then
      let (r, rs') := readNext rs
      if r.isEmpty then (none, b, rs') else fill n fuel (b ++ r) rs'
    else (some b, b, rs)

/-- `_read_hdr` (the `while True` loop, with fuel; only the "candidate not complete" branch loops) -/
def readHdr (c : Codec) : Nat → Bytes → List Bytes → HdrRes
  | 0, buf, rs => ⟨none, buf, rs⟩
  | fuel + 1, buf, rs =>
    match fill c.hdrLen (fuel + 1) buf rs with
    | (none, b, rs') => ⟨none, b, rs'⟩                      -- nothing more to read now: keep what we have
    | (some b, _, rs') =>
      match c.hdrFind b with
      | none => ⟨none, [], rs'⟩                             -- no start byte: drop everything
      | some i =>
        let b' := b.drop i
        if b'.length < c.hdrLen then readHdr c fuel b' rs'  -- candidate not complete: keep it, read on
        else
          match c.hdrDecode b' with
          | .error _ => ⟨none, b'.drop 1, rs'⟩               -- bad header: drop one byte, back to the thread loop (F20)
          | .ok h => ⟨some (h, b'), buf, rs'⟩

/-- rest-of-frame loop of `_read_frame`: read until `flen` bytes or an empty read -/
def fillFrame (n : Nat) : Nat → Bytes → List Bytes → Bytes × List Bytes
  | 0, b, rs => (b, rs)
  | fuel + 1, b, rs =>
    if b.length < n then
      let (r, rs') := readNext rs
      if r.isEmpty then (b, rs') else fillFrame n fuel (b ++ r) rs'
    else (b, rs)

/-- one invocation of `_read_frame`: (frame?, new `_prev_read`, script left) -/
def readFrame (c : Codec) (fuel : Nat) (buf : Bytes) (rs : List Bytes) : Option Frame × Bytes × List Bytes :=
  match readHdr c fuel buf rs with
  | ⟨none, b, rs'⟩ => (none, b, rs')
  | ⟨some (h, b), _, rs'⟩ =>
    let (b2, rs2) := fillFrame h.flen fuel b rs'
    if b2.length < h.flen then (none, b2, rs2)
    else
      match c.frameDecode (b2.take h.flen) with
      | .error _ => (none, b2.drop 1, rs2)
      | .ok fr => (some fr, b2.drop h.flen, rs2)

def scriptSize (rs : List Bytes) : Nat := (rs.map (·.length + 1)).sum

/-- enough fuel for one invocation -/
def fuelFor (buf : Bytes) (rs : List Bytes) : Nat := buf.length + scriptSize rs + 2

/-- the receive thread: invoke the body until the script is exhausted and an invocation neither
    delivers a frame nor changes the buffer -/
def runLoop (c : Codec) : Nat → Bytes → List Bytes → List Frame
  | 0, _, _ => []
  | fuel + 1, buf, rs =>
    match readFrame c (fuelFor buf rs) buf rs with
    | (some fr, buf', rs') => fr :: runLoop c fuel buf' rs'
    | (none, buf', rs') =>
      if rs'.isEmpty ∧ rs.isEmpty ∧ buf' = buf then [] else runLoop c fuel buf' rs'

/-- frames delivered for a chunk script, starting with an empty buffer -/
def run (c : Codec) (chunks : List Bytes) : List Frame :=
  runLoop c (2 * (scriptSize chunks + 2) + 2) [] chunks

/-- the specification: one left-to-right scan of the received bytes -/
def scanLoop (c : Codec) : Nat → Bytes → List Frame
  | 0, _ => []
  | fuel + 1, d =>
    match c.hdrFind d with
    | none => []
    | some i =>
      let d' := d.drop i
      if d'.length < c.hdrLen then []                      -- header incomplete: wait
      else
        match c.hdrDecode d' with
        | .error _ => scanLoop c fuel (d'.drop 1)           -- not a header: advance one byte
        | .ok h =>
          if d'.length < h.flen then []                    -- frame incomplete: wait
          else
            match c.frameDecode (d'.take h.flen) with
            | .ok fr => fr :: scanLoop c fuel (d'.drop h.flen)
            | .error _ => scanLoop c fuel (d'.drop 1)

def scan (c : Codec) (d : Bytes) : List Frame := scanLoop c (d.length + 1) d

end Reasm
end Nxs
