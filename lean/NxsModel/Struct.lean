/-
  Struct: an interpreter for the part of Python's `struct` mini-language that nxslib uses.

  A format is structured data (`Fmt`): a byte order and a list of (repeat count, code).
  Format *strings* are parsed by the translator (Python) and emitted as `Fmt` terms, so no
  proof reasons about `String`.

  Native-order formats (no prefix) are modelled as little-endian, standard sizes, no padding:
  true on x86-64 for every format in the code (each is a single item or all one-byte items);
  cross-checked against CPython by the correspondence run (`struct` op of the driver).

  Floats are carried as bit patterns (`f32`/`f64`); the IEEE conversion is done by CPython in
  the harness.
-/
import NxsModel.Bytes
namespace Nxs

inductive Code where
  | B | b | H | h | I | i | Q | q | bool | c | s | f | d
  deriving DecidableEq, Repr, Inhabited

structure Fmt where
  be : Bool
  items : List (Nat × Code)
  deriving DecidableEq, Repr, Inhabited

inductive Val where
  | int (v : Int)
  | bool (b : Bool)
  | bytes (bs : Bytes)
  | f32 (w : BitVec 32)
  | f64 (w : BitVec 64)
  deriving DecidableEq, Repr, Inhabited

def Code.size : Code → Nat
  | .B | .b | .bool | .c | .s => 1
  | .H | .h => 2
  | .I | .i | .f => 4
  | .Q | .q | .d => 8

/-- one value on the wire: a code and, for `s`, its byte length -/
structure Atom where
  code : Code
  n : Nat
  deriving DecidableEq, Repr, Inhabited

def Atom.size (a : Atom) : Nat := if a.code = .s then a.n else a.code.size

def itemAtoms : Nat × Code → List Atom
  | (n, .s) => [⟨.s, n⟩]
  | (n, cd) => List.replicate n ⟨cd, cd.size⟩

def Fmt.atoms (f : Fmt) : List Atom := f.items.flatMap itemAtoms

def atomsSize (as : List Atom) : Nat := (as.map Atom.size).sum

def calcsize (f : Fmt) : Nat := atomsSize f.atoms

/-- unsigned integer of `w` bytes -/
def packU (be : Bool) (w : Nat) (v : Int) : Except Err Bytes :=
  if 0 ≤ v ∧ v < 256 ^ w then .ok (ordBytes be w v.toNat) else .error .structError

/-- signed (two's complement) integer of `w` bytes -/
def packS (be : Bool) (w : Nat) (v : Int) : Except Err Bytes :=
  if -(256 ^ w / 2 : Int) ≤ v ∧ v < (256 ^ w / 2 : Int) then
    .ok (ordBytes be w (v % (256 ^ w : Int)).toNat)
  else .error .structError

def unpackU (be : Bool) (bs : Bytes) : Int := (ordNat be bs : Nat)

def unpackS (be : Bool) (bs : Bytes) : Int :=
  let n := ordNat be bs
  if n < 256 ^ bs.length / 2 then (n : Int) else (n : Int) - (256 ^ bs.length : Nat)

/-- Python's `s`: truncate or pad with NUL bytes to exactly `n` -/
def padTo (n : Nat) (bs : Bytes) : Bytes := bs.take n ++ List.replicate (n - bs.length) 0

def Val.asInt? : Val → Option Int
  | .int v => some v
  | .bool b => some (if b then 1 else 0)
  | _ => none

def Val.truthy : Val → Bool
  | .int v => v ≠ 0
  | .bool b => b
  | .bytes bs => !bs.isEmpty
  | .f32 w => w ≠ 0 ∧ w ≠ 0x80000000#32
  | .f64 w => w ≠ 0 ∧ w ≠ 0x8000000000000000#64

def packAtom (be : Bool) (a : Atom) (v : Val) : Except Err Bytes :=
  match a.code with
  | .B | .H | .I | .Q =>
    match v.asInt? with
    | some i => packU be a.code.size i
    | none => .error .structError
  | .b | .h | .i | .q =>
    match v.asInt? with
    | some i => packS be a.code.size i
    | none => .error .structError
  | .bool => .ok [if v.truthy then 1 else 0]
  | .c =>
    match v with
    | .bytes [x] => .ok [x]
    | _ => .error .structError
  | .s =>
    match v with
    | .bytes bs => .ok (padTo a.n bs)
    | _ => .error .structError
  | .f =>
    match v with
    | .f32 w => .ok (ordBytes be 4 w.toNat)
    | _ => .error .structError
  | .d =>
    match v with
    | .f64 w => .ok (ordBytes be 8 w.toNat)
    | _ => .error .structError

def packAtoms (be : Bool) : List Atom → List Val → Except Err Bytes
  | [], [] => .ok []
  | a :: as, v :: vs => do
    let x ← packAtom be a v
    let r ← packAtoms be as vs
    pure (x ++ r)
  | _, _ => .error .structError

/-- decode one atom from exactly `a.size` bytes -/
def unpackAtom (be : Bool) (a : Atom) (bs : Bytes) : Val :=
  match a.code with
  | .B | .H | .I | .Q => .int (unpackU be bs)
  | .b | .h | .i | .q => .int (unpackS be bs)
  | .bool => .bool (bs ≠ [0])
  | .c => .bytes bs
  | .s => .bytes bs
  | .f => .f32 (BitVec.ofNat 32 (ordNat be bs))
  | .d => .f64 (BitVec.ofNat 64 (ordNat be bs))

def unpackAtoms (be : Bool) : List Atom → Bytes → Except Err (List Val)
  | [], [] => .ok []
  | [], _ :: _ => .error .structError
  | a :: as, bs =>
    if bs.length < a.size then .error .structError
    else do
      let r ← unpackAtoms be as (bs.drop a.size)
      pure (unpackAtom be a (bs.take a.size) :: r)

def pack (f : Fmt) (vs : List Val) : Except Err Bytes := packAtoms f.be f.atoms vs

/-- `struct.unpack`: the buffer must have exactly `calcsize` bytes -/
def unpack (f : Fmt) (bs : Bytes) : Except Err (List Val) := unpackAtoms f.be f.atoms bs

/-! ### basic facts -/

theorem packU_length {be w v bs} (h : packU be w v = .ok bs) : bs.length = w := by
  unfold packU at h; split at h
  · cases h; simp
  · cases h

theorem packS_length {be w v bs} (h : packS be w v = .ok bs) : bs.length = w := by
  unfold packS at h; split at h
  · cases h; simp
  · cases h

theorem unpackU_packU {be w v bs} (h : packU be w v = .ok bs) : unpackU be bs = v := by
  unfold packU at h; split at h
  next hv =>
    cases h
    simp only [unpackU, ordNat_ordBytes]
    have h1 : (v.toNat : Int) = v := Int.toNat_of_nonneg hv.1
    have h2 : v.toNat < 256 ^ w := by
      have := hv.2
      have hc : ((256 ^ w : Nat) : Int) = (256 : Int) ^ w := by simp
      omega
    rw [Nat.mod_eq_of_lt h2]; exact h1
  next => cases h

@[simp] theorem padTo_length (n : Nat) (bs : Bytes) : (padTo n bs).length = n := by
  simp [padTo]; omega

end Nxs
