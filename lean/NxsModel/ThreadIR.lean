/-
  ThreadIR — the small instruction set into which `harness/translate_thread.py` translates
  the methods of `/repo/src/nxslib/thread.py` (hand-written, Mathlib-free; `Gen/Thread.lean`,
  which is regenerated on every run, only contains `Prog` literals over this datatype).

  A program is a control-flow graph given as a list of instructions, ONE INSTRUCTION PER SOURCE
  STATEMENT OR TEST, in source order.  Every instruction names its successor(s) explicitly:

    * non-test instructions continue at `a` (`b` is unused and equal to `a`);
    * test instructions continue at `a` when the tested primitive is TRUE and at `b` when it is
      FALSE.  The primitive of each test is fixed (see below); Python-level negations
      (`not x`, `x is None`) are resolved by the translator by swapping `a` and `b`;
    * return instructions have no successor.

  `line` is the source line of the statement (information only: used in counterexample
  print-outs; the semantics never looks at it).

  Helper methods that are one primitive call (`_stop_is_set`, `_stop_clear`, `stop_set`) are
  inlined by the translator after checking that their body has exactly that shape; the call
  `self.thread_is_alive()` inside a test is inlined statement by statement.
-/
namespace Nxs.ThreadIR

inductive Op
  /- worker side -/
  | testInit      -- test   `self._init`                 TRUE = an init callback was given
  | callInit      -- stmt   `self._init()`
  | testStop      -- test   `self._stop_flag.is_set()`   TRUE = the stop flag is set
  | callTarget    -- stmt   `self._target()`
  | testFinal     -- test   `self._final`                TRUE = a final callback was given
  | callFinal     -- stmt   `self._final()`
  /- controller side -/
  | testHandle    -- test   `self._thrd`                 TRUE = the handle is not None
  | setFlag       -- stmt   `self._stop_flag.set()`
  | clearFlag     -- stmt   `self._stop_flag.clear()`
  | testAlive     -- test   `self._thrd.is_alive()`      TRUE = that thread is alive
  | join          -- stmt   `self._thrd.join()`
  | clearHandle   -- stmt   `self._thrd = None`
  | createThread  -- stmt   `self._thrd = threading.Thread(target=self._thread_loop, …)`
  | startThread   -- stmt   `self._thrd.start()`
  /- both -/
  | ret           -- `return` / falling off the end of the function
  | retT          -- `return True`   (also the TRUE exit of `return <test>`)
  | retF          -- `return False`  (also the FALSE exit of `return <test>`)
  deriving DecidableEq, Repr, Inhabited

structure Instr where
  op : Op
  a : Nat
  b : Nat
  line : Nat
  deriving DecidableEq, Repr, Inhabited

abbrev Prog := List Instr

def Op.isTest : Op → Bool
  | .testInit | .testStop | .testFinal | .testHandle | .testAlive => true
  | _ => false

def Op.isRet : Op → Bool
  | .ret | .retT | .retF => true
  | _ => false

/-- short mnemonic, used by the driver and in counterexample print-outs -/
def Op.name : Op → String
  | .testInit => "test-init" | .callInit => "call-init" | .testStop => "test-stop-flag"
  | .callTarget => "call-target" | .testFinal => "test-final" | .callFinal => "call-final"
  | .testHandle => "test-handle" | .setFlag => "set-flag" | .clearFlag => "clear-flag"
  | .testAlive => "test-alive" | .join => "join" | .clearHandle => "clear-handle"
  | .createThread => "create-thread" | .startThread => "start-thread"
  | .ret => "return" | .retT => "return-true" | .retF => "return-false"

/-- well-formedness of a program: every successor index is inside the program -/
def Prog.wf (p : Prog) : Bool :=
  !p.isEmpty && p.all fun i => i.op.isRet || (i.a < p.length && i.b < p.length)

end Nxs.ThreadIR
