/-
  Locks: the lock discipline of nxslib as data, and an abstract model of lock deadlock (C12).

  Part 1 — the record types of the lock-discipline table that `harness/translate_locks.py`
  regenerates from comm.py / nxscope.py / dev.py / intf/dummy.py into `Gen/Locks.lean`, a rank on
  the locks, and decidable predicates over a table:
    `allProtected`        every recorded access to lock-protected state (outside object creation)
                          is made while its lock is syntactically held,
    `nestingRespectsRank` every lock acquisition made while other locks are held goes strictly up
                          in rank (hence the acquired-while-holding relation is acyclic),
    `producersLockFree`   whoever waits on a queue while holding a lock waits for a producer
                          thread that takes no lock at all,
    `blockingBounded`     every queue operation made under a lock is bounded (a `get` has a
                          timeout, a `put` goes to an unbounded queue),
    `exchangesAtomic`     the two request+ACK exchanges (`_nxslib_channels_enable/_div`) read the
                          requested vector, send, wait for the ACK and update the acknowledged
                          vector inside ONE `with channels-lock` block.
  Strings occur only as labels (class / method names, the resolved call); no predicate looks at them.

  Further decidable facts for the extended wait-for graph (Part 3): `joinsLockFree` (nobody joins a
  thread while holding a lock), `joinTargetsAreBodies`, `bodiesNeverWaitForever` (a library thread
  never waits on a queue without a timeout and never joins), `foreverGetsProduced`, `subProduced`.

  Part 2 — a general model for the no-deadlock lemma: any number of threads, each holding a list
  of locks and possibly waiting for one; `Deadlocked S` = a non-empty set of threads each waiting
  for a lock held by a thread of the set.  The lemma itself is `Nxs.C12.no_deadlock`.

  Part 3 — the wait-for graph with the other two ways a thread of this library can block: a queue `get`
  (the writer waiting for the ACK while it holds the channels lock, the stream thread waiting for a
  stream frame, the application waiting for samples on a subscriber queue) and `Thread.join`
  (`thread_stop`, from `stream_stop` / `disconnect`).  `WDeadlocked` = a non-empty set of threads each
  stuck on something only the set can provide; `Fits` ties a thread state to the table.  The theorem is
  `Nxs.C12.waitfor_no_deadlock`.

  Mathlib-free, executable.
-/
namespace Nxs
namespace Locks

/-! ## Part 1: the lock-discipline table -/

/-- the four locks of the library -/
inductive Lock where
  | queue      -- `NxscopeHandler._queue_lock`   (subscriber lists)
  | channels   -- `CommHandler._channels_lock`   (requested / acknowledged configuration vectors)
  | dummydev   -- `DummyDev._dummydev_lock`      (channel state of the simulated device)
  | devinfo    -- `Device._channels_lock`        (channel list of a device description)
  deriving DecidableEq, Repr

/-- the fixed strict order: a thread may only acquire a lock of higher rank than all it holds.
    Layering of the code: nxscope (queue) → comm (channels) → dev (devinfo); dummy (dummydev) → dev. -/
def Lock.rank : Lock → Nat
  | .queue => 0
  | .channels => 1
  | .dummydev => 2
  | .devinfo => 3

def Lock.name : Lock → String
  | .queue => "queue" | .channels => "channels" | .dummydev => "dummydev" | .devinfo => "devinfo"

/-- lock-protected state -/
inductive Res where
  | chanCfg      -- `CommHandler._channels` (en_now / en_new / div_now / div_new / resync flags)
  | subQ         -- `NxscopeHandler._sub_q`
  | devChans     -- `Device._channels` inside `Device`'s own methods
  | dummyChans   -- `DummyDev._dummydev` (the simulated device's channel state) in `DummyDev`'s methods
  deriving DecidableEq, Repr

/-- the lock that protects a piece of state -/
def Res.lock : Res → Lock
  | .chanCfg => .channels
  | .subQ => .queue
  | .devChans => .devinfo
  | .dummyChans => .dummydev

inductive Mode where
  | read | write
  deriving DecidableEq, Repr

/-- which part of the protected object is touched (label-like, but an enum so that predicates can use it) -/
inductive Field where
  | whole | enNow | enNew | divNow | divNew | enResync | divResync | other
  deriving DecidableEq, Repr

/-- why an access needs no lock: the object is not shared yet -/
inductive Exempt where
  | no
  | init       -- inside `__init__`
  | create     -- `NxscopeHandler.connect` creating `_sub_q` (life-cycle call, not concurrent: C09)
  deriving DecidableEq, Repr

/-- one syntactic access to protected state -/
structure Access where
  cls : String
  meth : String
  line : Nat
  res : Res
  field : Field
  mode : Mode
  held : List Lock        -- locks syntactically held at this point, outermost first
  sect : Nat              -- line of the innermost enclosing `with <lock>:` (0 = none)
  exempt : Exempt
  deriving Repr

/-- one lock acquisition site, seen from an entry method: `held` are the locks already held there
    (through enclosing `with` blocks of the entry method and of every caller on the resolved path) -/
structure Acq where
  cls : String            -- entry class / method from which the site is reached
  meth : String
  line : Nat              -- line of the `with` statement that acquires
  held : List Lock
  acquires : Lock
  via : String            -- resolved call path ("" = a `with` in the entry method itself)
  deriving Repr

inductive QueueId where
  | resp        -- `CommHandler._q`        (responses: ACK, info frames)
  | stream      -- `CommHandler._q_stream` (stream frames)
  | sub         -- a subscriber queue created by `stream_sub`
  | devWrite    -- `DummyDev._qwrite`
  | devRead     -- `DummyDev._qread`
  deriving DecidableEq, Repr

inductive BlockKind where
  | get | put | link
  deriving DecidableEq, Repr

/-- a potentially blocking call, seen from an entry method -/
structure Blocking where
  cls : String
  meth : String
  line : Nat
  held : List Lock
  sect : Nat
  kind : BlockKind
  queue : QueueId         -- meaningless for `link`
  bounded : Bool          -- get: a timeout is given on every resolved path; put: the queue is unbounded
  via : String
  deriving Repr

/-- identity of a thread: the library's own threads (the targets of its `ThreadCommon` objects) and the
    application's -/
inductive Tid where
  | recv          -- `CommHandler._recv_thread`
  | stream        -- `NxscopeHandler._stream_thread`
  | dummyStream   -- `DummyDev._thread_stream`
  | dummyRecv     -- `DummyDev._thread_recv`
  | app (k : Nat) -- an application thread
  deriving DecidableEq, Repr

/-- a library thread body (the target of a `ThreadCommon`) with everything it calls -/
structure ThreadBody where
  name : String
  cls : String
  meth : String
  locks : List Lock       -- every lock the body can take
  produces : List QueueId
  consumes : List QueueId
  tid : Tid
  foreverGets : List QueueId   -- queues on which the body can wait WITHOUT a timeout
  joins : List Tid             -- threads the body can join
  deriving Repr

/-- a `ThreadCommon.thread_stop()` (→ `Thread.join()` without timeout) reachable from an entry method -/
structure JoinSite where
  cls : String
  meth : String
  line : Nat
  held : List Lock
  target : Tid
  via : String
  deriving Repr

/-- events of a request+ACK exchange method, in source order -/
inductive ExKind where
  | readNew | readNow | send | ackWait | writeNow | writeResync | devUpdate
  deriving DecidableEq, Repr

structure ExEv where
  kind : ExKind
  line : Nat
  sect : Nat
  held : List Lock
  deriving Repr

structure Table where
  accesses : List Access
  acqs : List Acq
  blocking : List Blocking
  threads : List ThreadBody
  exEnable : List ExEv
  exDiv : List ExEv
  joins : List JoinSite
  deriving Repr

def Access.protected (a : Access) : Bool :=
  a.exempt != .no || a.held.contains a.res.lock

/-- every access to protected state outside object creation holds the protecting lock -/
def allProtected (t : Table) : Bool := t.accesses.all Access.protected

def Acq.ranked (a : Acq) : Bool := a.held.all fun h => decide (h.rank < a.acquires.rank)

/-- every acquisition goes strictly up in rank from every lock already held -/
def nestingRespectsRank (t : Table) : Bool := t.acqs.all Acq.ranked

/-- the acquired-while-holding relation of a table -/
def nestPairs (t : Table) : List (Lock × Lock) :=
  t.acqs.flatMap fun a => a.held.map fun h => (h, a.acquires)

/-- producers of queue `q` exist and none of them takes a lock -/
def producerFree (t : Table) (q : QueueId) : Bool :=
  (t.threads.any fun b => b.produces.contains q) &&
  (t.threads.all fun b => !b.produces.contains q || b.locks.isEmpty)

/-- whoever waits on a queue while holding a lock waits for a lock-free producer -/
def producersLockFree (t : Table) : Bool :=
  t.blocking.all fun b => !(b.kind == .get && !b.held.isEmpty) || producerFree t b.queue

/-- every queue operation under a lock is bounded -/
def blockingBounded (t : Table) : Bool :=
  t.blocking.all fun b => b.held.isEmpty || b.kind == .link || b.bounded

def hasKind (l : List ExEv) (k : ExKind) : Bool := l.any fun e => e.kind == k

/-- one exchange: all its events lie in the same `with channels-lock` block, which contains the
    diff read, the send + ACK wait, and the update of the acknowledged vector and of the device copy -/
def exchangeAtomic (l : List ExEv) : Bool :=
  match l with
  | [] => false
  | e :: _ =>
    decide (e.sect ≠ 0) && (l.all fun x => x.sect == e.sect && x.held.contains .channels) &&
    hasKind l .readNew && hasKind l .readNow && hasKind l .send && hasKind l .ackWait &&
    hasKind l .writeNow && hasKind l .devUpdate

def exchangesAtomic (t : Table) : Bool := exchangeAtomic t.exEnable && exchangeAtomic t.exDiv

/-- nobody joins a thread while holding a lock -/
def joinsLockFree (t : Table) : Bool := t.joins.all fun j => j.held.isEmpty

/-- every joined thread is one of the library's thread bodies -/
def joinTargetsAreBodies (t : Table) : Bool := t.joins.all fun j => t.threads.any fun b => b.tid == j.target

/-- no library thread ever waits on a queue without a timeout, and none joins another thread: every
    blocking call of a thread body other than a lock acquisition is bounded -/
def bodiesNeverWaitForever (t : Table) : Bool := t.threads.all fun b => b.foreverGets.isEmpty && b.joins.isEmpty

/-- a `get` without timeout anywhere in the library is on a queue some thread body puts on -/
def foreverGetsProduced (t : Table) : Bool :=
  t.blocking.all fun b => !(b.kind == .get && !b.bounded) || t.threads.any fun x => x.produces.contains b.queue

/-- the subscriber queues (on which the APPLICATION waits, outside the library) have a producer -/
def subProduced (t : Table) : Bool := t.threads.any fun x => x.produces.contains .sub

/-- the threads that put on queue `q` -/
def producersOf (t : Table) (q : QueueId) : List Tid :=
  (t.threads.filter fun b => b.produces.contains q).map (·.tid)

/-- one line per fact, for the driver / evidence -/
def Table.summary (t : Table) : String :=
  s!"accesses={t.accesses.length} acqs={t.acqs.length} blocking={t.blocking.length} threads={t.threads.length} " ++
  s!"protected={allProtected t} ranked={nestingRespectsRank t} producers={producersLockFree t} " ++
  s!"bounded={blockingBounded t} atomic={exchangesAtomic t} joins={t.joins.length} joinsLockFree={joinsLockFree t} " ++
  s!"bodiesBounded={bodiesNeverWaitForever t} " ++
  "nest=" ++ ",".intercalate ((nestPairs t).eraseDups.map fun p => p.1.name ++ ">" ++ p.2.name)

/-! ## Part 2: abstract threads and deadlock -/

/-- a thread at the lock level: the locks it holds and the lock it is blocked on, if any -/
structure Thr (L : Type) where
  holds : List L
  waits : Option L
  deriving Repr

/-- a set of threads is deadlocked: it is non-empty and each of its threads waits for a lock that
    is held by a thread of the set -/
def Deadlocked {L : Type} (S : List (Thr L)) : Prop :=
  S ≠ [] ∧ ∀ t ∈ S, ∃ l, t.waits = some l ∧ ∃ u ∈ S, l ∈ u.holds

/-- the ordered-acquisition discipline: a thread that waits for `l` holds only locks below `l` -/
def Ordered {L : Type} (rank : L → Nat) (t : Thr L) : Prop :=
  ∀ l, t.waits = some l → ∀ h ∈ t.holds, rank h < rank l

/-- mutual exclusion: a lock is held by at most one thread (threads identified by position) -/
def Exclusive {L : Type} (ts : List (Thr L)) : Prop :=
  ∀ i j (hi : i < ts.length) (hj : j < ts.length) (l : L), l ∈ ts[i].holds → l ∈ ts[j].holds → i = j

/-- a thread state is explained by the table: if it waits for a lock, it does so at a recorded
    acquisition site and holds only locks recorded as held there -/
def Conforms (acqs : List Acq) (t : Thr Lock) : Prop :=
  ∀ l, t.waits = some l → ∃ a ∈ acqs, a.acquires = l ∧ ∀ h ∈ t.holds, h ∈ a.held

/-! ## Part 3: the wait-for graph with queue waits and joins -/

/-- what a thread can be blocked on -/
inductive Wait where
  | lock (l : Lock)                          -- `with <lock>:`
  | queue (q : QueueId) (bounded : Bool)     -- `Queue.get` (`bounded`: a timeout was given)
  | join (t : Tid)                           -- `Thread.join()` without timeout (`thread_stop`)
  deriving DecidableEq, Repr

/-- a thread in the extended wait-for graph -/
structure XThr where
  tid : Tid
  holds : List Lock
  waits : Option Wait
  deriving Repr

/-- `t` can only be released by members of `S`.  A lock: its holder is in `S`.  A join: the joined
    thread is in `S`.  A queue `get`: every producer of the queue is in `S` — and the `get` either has no
    timeout or is made while holding a lock (the timeout of a `get` under a lock is deliberately NOT
    relied upon; a `get` with a timeout made while holding no lock returns by itself and is never stuck). -/
def Stuck (prod : QueueId → List Tid) (S : List XThr) (t : XThr) : Prop :=
  match t.waits with
  | none => False
  | some (.lock l) => ∃ u ∈ S, l ∈ u.holds
  | some (.queue q bounded) => (bounded = false ∨ t.holds ≠ []) ∧ ∀ p ∈ prod q, ∃ u ∈ S, u.tid = p
  | some (.join j) => ∃ u ∈ S, u.tid = j

/-- a non-empty set of threads each of which can only be released by members of the set -/
def WDeadlocked (prod : QueueId → List Tid) (S : List XThr) : Prop :=
  S ≠ [] ∧ ∀ t ∈ S, Stuck prod S t

/-- a thread state is explained by the table: every wait happens at a recorded site holding at most the
    locks recorded there (the application may in addition wait on its own subscriber queue, outside
    the library, holding nothing), and a library thread stays within its recorded body -/
structure Fits (tbl : Table) (t : XThr) : Prop where
  lockSite : ∀ l, t.waits = some (.lock l) → ∃ a ∈ tbl.acqs, a.acquires = l ∧ ∀ h ∈ t.holds, h ∈ a.held
  queueSite : ∀ q b, t.waits = some (.queue q b) →
    (∃ s ∈ tbl.blocking, s.kind = .get ∧ s.queue = q ∧ s.bounded = b ∧ ∀ h ∈ t.holds, h ∈ s.held) ∨
    (q = .sub ∧ t.holds = [] ∧ ∀ x ∈ tbl.threads, x.tid ≠ t.tid)
  joinSite : ∀ j, t.waits = some (.join j) → ∃ s ∈ tbl.joins, s.target = j ∧ ∀ h ∈ t.holds, h ∈ s.held
  body : ∀ x ∈ tbl.threads, x.tid = t.tid →
    (∀ h ∈ t.holds, h ∈ x.locks) ∧ (∀ l, t.waits = some (.lock l) → l ∈ x.locks) ∧
    (∀ q, t.waits = some (.queue q false) → q ∈ x.foreverGets) ∧ (∀ j, t.waits = some (.join j) → j ∈ x.joins)

end Locks
end Nxs
