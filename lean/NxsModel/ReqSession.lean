/-
  ReqSession: client and device together (C05) — a caller's enable / divider requests, built by the client
  builders (`Requests.frameEnable/frameDiv`), padded by the interface (`Pad.dataAlign`) and received, one after
  the other, by ONE device state (`Requests.devRecv`: dispatcher → callback → decoder → per-channel writes).
  (A file of its own because `Pad.lean` imports `Requests.lean`.)
-/
import NxsModel.Requests
import NxsModel.Pad
namespace Nxs
namespace Requests

/-! ### client and device together: a caller's requests, built, padded and received one after the other -/

/-- what a caller can ask for on a device with channel state (`n` = the channel count the client learned) -/
inductive Ask where
  | enOne (c : Nat) (v : Bool)
  | enVec (vs : List Bool)
  | divOne (c v : Nat)
  | divVec (vs : List Nat)
  deriving Repr

/-- the client builder called for it -/
def Ask.build (n : Nat) : Ask → Except Err Bytes
  | .enOne c v => frameEnable (.single c v) n
  | .enVec vs => frameEnable (.vec vs) n
  | .divOne c v => frameDiv (.single c v) n
  | .divVec vs => frameDiv (.vec (vs.map Int.ofNat)) n

/-- the client builds, the interface pads (`data_align`, write padding `pad`), the device receives on its
    ONE state; stops at the first exception on either side -/
def session (n pad : Nat) (s : DevSt) : List Ask → Except Err DevSt
  | [] => .ok s
  | a :: as =>
    (a.build n).bind fun f =>
      match devRecv n s (Pad.dataAlign pad f) with
      | (s', .ok _) => session n pad s' as
      | (_, .error e) => .error e

end Requests
end Nxs
