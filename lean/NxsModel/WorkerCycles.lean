/-
  WorkerCycles — observable traces of the `thread.py` model (`Worker.lean`) over ANY number of
  start/stop cycles, with a monitor that is a pure function of the trace (round 7, property C13).

  `Run c s tr`: `s` is reached from the state after `__init__` by a run whose labelled steps
  (`stepL`, the same steps as `step`) carry the events `tr`, in chronological order.
  `monOf tr` folds the monitor `Mon` over the trace: numbers of init / final / exit events since the
  most recent `threading.Thread(...)` (`Ev.new`), `fresh` (no thread was ever created), `stopped`
  (no `thread_start` call was entered since `__init__` / since the last return of `thread_stop`) and the
  sticky bit `bad` (a worker-side event — a callback, a thread creation / start / exit — occurred while
  `stopped`).  The programs never read the monitor.  The reachable set of the product with the
  monitor cut off at 2 (`RM`) is computed here; `Lemmas/R7C13.lean` has the kernel certificate and the
  lift to all runs with UNSATURATED counters (`List.count`-style totals over the whole trace).
-/
import NxsModel.Worker
namespace Nxs.Worker
open Nxs.ThreadIR

/-- labelled runs from the initial state; the trace is in chronological order -/
inductive Run (c : Cfg) : State → List Ev → Prop
  | init : Run c init []
  | step {s : State} {tr : List Ev} {p : Who × Ev × State} :
      Run c s tr → p ∈ stepL c s → Run c p.2.2 (tr ++ [p.2.1])

/-- worker-side activity: a callback call, the creation / start / exit of a worker thread -/
def Ev.isActivity : Ev → Bool
  | .init | .target | .final | .exit | .new | .start => true
  | _ => false

/-- the "stopped phase" bit: cleared when the controller enters `thread_start`, set when a
    `thread_stop` call returns -/
def nextStopped (st : Bool) : Ev → Bool
  | .call .start => false
  | .ret .stop _ => true
  | _ => st

structure Mon where
  nInit : Nat
  nFin : Nat
  nExit : Nat
  fresh : Bool
  stopped : Bool
  bad : Bool
  deriving DecidableEq, Repr

def Mon.init : Mon := ⟨0, 0, 0, true, true, false⟩

def Mon.upd (ev : Ev) (m : Mon) : Mon :=
  let b := m.bad || (m.stopped && ev.isActivity)
  let st := nextStopped m.stopped ev
  match ev with
  | .new => ⟨0, 0, 0, false, st, b⟩
  | .init => ⟨m.nInit + 1, m.nFin, m.nExit, m.fresh, st, b⟩
  | .final => ⟨m.nInit, m.nFin + 1, m.nExit, m.fresh, st, b⟩
  | .exit => ⟨m.nInit, m.nFin, m.nExit + 1, m.fresh, st, b⟩
  | _ => ⟨m.nInit, m.nFin, m.nExit, m.fresh, st, b⟩

/-- the monitor of a trace -/
def monOf (tr : List Ev) : Mon := tr.foldl (fun m e => m.upd e) Mon.init

/-- counters cut off at 2 -/
def Mon.sat (m : Mon) : Mon := ⟨min m.nInit 2, min m.nFin 2, min m.nExit 2, m.fresh, m.stopped, m.bad⟩

/-- stopped and no start call in progress -/
def quiet (s : State) : Bool := !s.started && !inStart s

/-- a complete run: init and final called exactly once each (zero times if absent), the loop returned once -/
def Mon.full (c : Cfg) (m : Mon) : Bool :=
  decide (m.nInit = expected c.hasInit) && decide (m.nFin = expected c.hasFinal) && decide (m.nExit = 1)

def Mon.zero (m : Mon) : Bool := decide (m.nInit = 0) && decide (m.nFin = 0) && decide (m.nExit = 0)

/-- the invariant of the product -/
def okMon (c : Cfg) (sm : State × Mon) : Bool :=
  decide (sm.2.nInit ≤ expected c.hasInit) && decide (sm.2.nFin ≤ expected c.hasFinal) &&
  decide (sm.2.nExit ≤ 1) && !sm.2.bad &&
  (!sm.2.fresh || sm.2.zero) &&
  (sm.2.fresh || !(quiet sm.1) || sm.2.full c) &&
  (sm.2.fresh || (stepL c sm.1).all fun p => !(decide (p.2.1 = Ev.new)) || sm.2.full c)

def stepM (c : Cfg) (sm : State × Mon) : List (State × Mon) :=
  (stepL c sm.1).map fun p => (p.2.2, (sm.2.upd p.2.1).sat)

def insertNewM (seen : List (State × Mon)) :
    List (State × Mon) → List (State × Mon) → List (State × Mon) × List (State × Mon)
  | [], acc => (seen, acc.reverse)
  | x :: xs, acc =>
    if seen.contains x then insertNewM seen xs acc else insertNewM (seen ++ [x]) xs (x :: acc)

def bfsM (c : Cfg) : Nat → List (State × Mon) → List (State × Mon) → List (State × Mon)
  | 0, _, seen => seen
  | fuel + 1, frontier, seen =>
    let next := (frontier.filter fun sm => okMon c sm).flatMap (stepM c)
    let (seen', new) := insertNewM seen next []
    if new.isEmpty then seen' else bfsM c fuel new seen'

/-- the reachable set of the product, recomputed from the regenerated programs -/
def RM (c : Cfg) : List (State × Mon) := bfsM c bfsFuel [(init, Mon.init)] [(init, Mon.init)]

def certifiedM (c : Cfg) (r : List (State × Mon)) : Bool :=
  r.contains (init, Mon.init) && r.all (okMon c) && r.all fun sm => (stepM c sm).all r.contains

/-- number of occurrences of an event in a trace -/
def cnt (e : Ev) (tr : List Ev) : Nat := tr.countP fun x => decide (x = e)

/-- pure trace predicate: no worker-side activity while in the stopped phase -/
def quietOk : Bool → List Ev → Bool
  | _, [] => true
  | st, e :: es => !(st && e.isActivity) && quietOk (nextStopped st e) es

/-- follow a path of successor indices, collecting the trace (for non-vacuity examples) -/
def runPathL (c : Cfg) : List Nat → State → List Ev → Option (State × List Ev)
  | [], s, tr => some (s, tr)
  | i :: is, s, tr => match (stepL c s)[i]? with
    | some p => runPathL c is p.2.2 (tr ++ [p.2.1])
    | none => none

end Nxs.Worker
