/-
  Crc: parametric bitwise 16-bit CRC, with the rows of crcmod's predefined table that are
  16 bits wide.  `crcmod` semantics: the register starts at `init ^^^ xorout`, the result is
  `register ^^^ xorout` (for xorout = 0 this is the textbook definition).
-/
import NxsModel.Bytes
namespace Nxs

structure CrcParams where
  poly : BitVec 16      -- without the x^16 term
  init : BitVec 16
  refl : Bool           -- reflected (LSB-first) algorithm
  xorout : BitVec 16
  deriving DecidableEq, Repr

/-- one bit, MSB-first -/
def crcStepBit (poly r : BitVec 16) : BitVec 16 :=
  if r.msb then (r <<< 1) ^^^ poly else r <<< 1

def iter8 (f : α → α) (x : α) : α := f (f (f (f (f (f (f (f x)))))))

/-- one byte, MSB-first -/
def crcStepByte (poly r : BitVec 16) (b : Byte) : BitVec 16 :=
  iter8 (crcStepBit poly) (r ^^^ (b.zeroExtend 16 <<< 8))

/-- register after feeding `bs` from register `r` -/
def crcReg (poly r : BitVec 16) (bs : Bytes) : BitVec 16 := bs.foldl (crcStepByte poly) r

/-- reflected polynomial -/
def rev16 (x : BitVec 16) : BitVec 16 := x.reverse

def crcStepBitR (polyR r : BitVec 16) : BitVec 16 :=
  if r.getLsbD 0 then (r >>> 1) ^^^ polyR else r >>> 1

def crcStepByteR (polyR r : BitVec 16) (b : Byte) : BitVec 16 :=
  iter8 (crcStepBitR polyR) (r ^^^ b.zeroExtend 16)

def crcRegR (polyR r : BitVec 16) (bs : Bytes) : BitVec 16 := bs.foldl (crcStepByteR polyR) r

def crc (p : CrcParams) (bs : Bytes) : BitVec 16 :=
  if p.refl then crcRegR (rev16 p.poly) (p.init ^^^ p.xorout) bs ^^^ p.xorout
  else crcReg p.poly (p.init ^^^ p.xorout) bs ^^^ p.xorout

namespace Crc
def xmodem : CrcParams := ⟨0x1021, 0x0000, false, 0x0000⟩
def ccittFalse : CrcParams := ⟨0x1021, 0xFFFF, false, 0x0000⟩
def kermit : CrcParams := ⟨0x1021, 0x0000, true, 0x0000⟩
def crc16 : CrcParams := ⟨0x8005, 0x0000, true, 0x0000⟩
def modbus : CrcParams := ⟨0x8005, 0xFFFF, true, 0x0000⟩
def x25 : CrcParams := ⟨0x1021, 0x0000, true, 0xFFFF⟩
def crc16usb : CrcParams := ⟨0x8005, 0x0000, true, 0xFFFF⟩
def crc16dnp : CrcParams := ⟨0x3D65, 0xFFFF, true, 0xFFFF⟩
def crcAugCcitt : CrcParams := ⟨0x1021, 0x1D0F, false, 0x0000⟩
def crc16buypass : CrcParams := ⟨0x8005, 0x0000, false, 0x0000⟩
def crc16genibus : CrcParams := ⟨0x1021, 0x0000, false, 0xFFFF⟩
end Crc

/-- the textbook CRC-16/XMODEM: poly 0x1021, init 0, MSB first, no final xor -/
def crc16xmodem (bs : Bytes) : BitVec 16 := crcReg 0x1021 0 bs

end Nxs
