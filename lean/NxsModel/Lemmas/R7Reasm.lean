/-
  Round 7 lemmas for C03: the delivered frames as DISJOINT, ORDERED windows of the stream (`Windows`),
  the byte budget that follows, and the carry-over state as a proper streaming state
  (`scanRest_resume`, `scanFold`).
-/
import NxsModel.Lemmas.Reasm
namespace Nxs
namespace Reasm
open Serial (Hdr Frame)

/-- `Windows c d frs`: `d = gap₁ ++ w₁ ++ gap₂ ++ w₂ ++ … ++ gapₙ ++ wₙ ++ tail` with `wᵢ` decoding to the
    i-th frame of `frs` — the frames are decodings of pairwise DISJOINT windows of `d`, in stream order -/
inductive Windows (c : Codec) : Bytes → List Frame → Prop
  | nil (tail : Bytes) : Windows c tail []
  | cons (gap w rest : Bytes) (fr : Frame) (frs : List Frame) :
      c.frameDecode w = .ok fr → Windows c rest frs → Windows c (gap ++ w ++ rest) (fr :: frs)

theorem Windows.prepend {c : Codec} (pre : Bytes) {d : Bytes} {frs : List Frame} (h : Windows c d frs) :
    Windows c (pre ++ d) frs := by
  cases h with
  | nil tail => exact Windows.nil _
  | cons gap w rest fr frs hf hr =>
    have : pre ++ (gap ++ w ++ rest) = (pre ++ gap) ++ w ++ rest := by simp
    rw [this]
    exact Windows.cons _ _ _ _ _ hf hr

section Laws
variable {c : Codec} (hc : LawfulCodec c)
include hc

/-- a window that decodes is exactly header + payload + footer long or longer: the payload plus the
    framing overhead fits in the window -/
theorem frameDecode_length {w : Bytes} {fr : Frame} (h : c.frameDecode w = .ok fr) :
    fr.data.length + c.hdrLen + c.footLen ≤ w.length := by
  obtain ⟨h', _, h1, h2, _, rfl⟩ := (hc.frameDecode_iff _ _).mp h
  simp only [slice, List.length_drop, List.length_take]
  omega

theorem scan_windows_aux : ∀ (n : Nat) (d : Bytes), d.length < n → Windows c d (scan c d) := by
  intro n
  induction n with
  | zero => intro d h; omega
  | succ n ih =>
    intro d hn
    have hpos := hc.hdrLen_pos
    rw [scan_eq hc d]
    cases hfind : c.hdrFind d with
    | none => exact Windows.nil _
    | some i =>
      simp only
      have hlen : (d.drop i).length ≤ d.length := by simp
      by_cases hs : (d.drop i).length < c.hdrLen
      · rw [if_pos hs]; exact Windows.nil _
      · rw [if_neg hs]
        have hstep : Windows c d (scan c ((d.drop i).drop 1)) := by
          have h1 := ih ((d.drop i).drop 1) (by simp at hs hlen ⊢; omega)
          have e1 : d = (d.take i ++ (d.drop i).take 1) ++ (d.drop i).drop 1 := by
            rw [List.append_assoc, List.take_append_drop, List.take_append_drop]
          have h2 := h1.prepend (d.take i ++ (d.drop i).take 1)
          rw [← e1] at h2
          exact h2
        cases hh : c.hdrDecode (d.drop i) with
        | error e => exact hstep
        | ok h =>
          simp only
          by_cases hw : (d.drop i).length < h.flen
          · rw [if_pos hw]; exact Windows.nil _
          · rw [if_neg hw]
            cases hfd : c.frameDecode ((d.drop i).take h.flen) with
            | error e => exact hstep
            | ok fr0 =>
              simp only
              have hfl := frameDecode_take_len hc hfd
              have h1 := ih ((d.drop i).drop h.flen) (by simp at hs hlen ⊢; omega)
              have e1 : d = d.take i ++ (d.drop i).take h.flen ++ (d.drop i).drop h.flen := by
                rw [List.append_assoc, List.take_append_drop, List.take_append_drop]
              have h2 := Windows.cons (d.take i) _ _ fr0 _ hfd h1
              rw [← e1] at h2
              exact h2

/-- the frames `scan` delivers are the decodings of pairwise disjoint windows of the stream, in order -/
theorem scan_windows (d : Bytes) : Windows c d (scan c d) :=
  scan_windows_aux hc (d.length + 1) d (by omega)

/-- byte budget: payloads plus per-frame framing overhead of the frames of disjoint windows fit in the stream -/
theorem Windows.budget {d : Bytes} {frs : List Frame} (h : Windows c d frs) :
    (frs.map (fun fr => fr.data.length + c.hdrLen + c.footLen)).sum ≤ d.length := by
  induction h with
  | nil tail => simp
  | cons gap w rest fr frs hf _ ih =>
    have := frameDecode_length hc hf
    simp only [List.map_cons, List.sum_cons, List.length_append]
    omega

/-- every frame of disjoint windows is, in particular, the decoding of one window (`only_valid`) and a
    frame occurring at two list positions comes from two different windows: position-wise statement -/
theorem Windows.count_le {d : Bytes} {frs : List Frame} (h : Windows c d frs) :
    frs.length * (c.hdrLen + c.footLen) ≤ d.length := by
  induction h with
  | nil tail => simp
  | cons gap w rest fr frs hf _ ih =>
    have := frameDecode_length hc hf
    simp only [List.length_cons, List.length_append, Nat.succ_mul]
    omega

/-- **the carry-over state is a streaming state**: the rest after `d ++ e` is the rest after
    (the rest after `d`) ++ `e` -/
theorem scanRest_resume_aux : ∀ (n : Nat) (d : Bytes), d.length < n → ∀ e : Bytes,
    scanRest c (d ++ e) = scanRest c (scanRest c d ++ e) := by
  intro n
  induction n with
  | zero => intro d h; omega
  | succ n ih =>
    intro d hn e
    have hpos := hc.hdrLen_pos
    cases hfind : findByte c.sof d with
    | none =>
      have hns := findByte_none hfind
      rw [scanRest_skip hc d e hns, scanRest_nosof hc d hns]; rfl
    | some i =>
      obtain ⟨hpre, t, ht⟩ := findByte_some hfind
      have hi := findByte_some_lt hfind
      have hsplit : d = d.take i ++ (c.sof :: t) := by rw [← ht, List.take_append_drop]
      have hlen : (c.sof :: t).length ≤ d.length := by rw [← ht]; simp
      suffices hmain : scanRest c ((c.sof :: t) ++ e) = scanRest c (scanRest c (c.sof :: t) ++ e) by
        have e1 : scanRest c (d ++ e) = scanRest c ((c.sof :: t) ++ e) := by
          conv => lhs; rw [hsplit, List.append_assoc]
          exact scanRest_skip hc _ _ hpre
        have e3 : scanRest c d = scanRest c (c.sof :: t) := by
          conv => lhs; rw [hsplit]
          exact scanRest_skip hc _ _ hpre
        rw [e1, e3]; exact hmain
      generalize hw : c.sof :: t = w at hlen ⊢
      have hhead : w.head? = some c.sof := by rw [← hw]; rfl
      have hf0 : ∀ m, c.hdrFind (w ++ m) = some 0 := by
        intro m; rw [← hw, List.cons_append]; exact hdrFind_cons_sof hc _
      have hf0' : c.hdrFind w = some 0 := by rw [← hw]; exact hdrFind_cons_sof hc _
      have hwne : 1 ≤ w.length := by rw [← hw]; simp
      by_cases hs : w.length < c.hdrLen
      · have hwt : Waiting c w := Or.inr ⟨hhead, Or.inl hs⟩
        rw [scanRest_of_waiting hc hwt]
      · have hdrop1 : ∀ m, (w ++ m).drop 1 = w.drop 1 ++ m := by
          intro m; rw [List.drop_append_of_le_length hwne]
        have hih1 := ih (w.drop 1) (by simp; omega) e
        cases hdec : c.hdrDecode w with
        | error er =>
          have hdec' : c.hdrDecode (w ++ e) = .error er := by
            rw [hdrDecode_append hc _ (by omega)]; exact hdec
          rw [scanRest_badhdr hc _ er (hf0 e) (by simp; omega) hdec', hdrop1,
            scanRest_badhdr hc _ er hf0' (by omega) hdec]
          exact hih1
        | ok h =>
          have hdec' : c.hdrDecode (w ++ e) = .ok h := by
            rw [hdrDecode_append hc _ (by omega)]; exact hdec
          by_cases hl : w.length < h.flen
          · have hwt : Waiting c w := Or.inr ⟨hhead, Or.inr ⟨h, hdec, hl⟩⟩
            rw [scanRest_of_waiting hc hwt]
          · have htake : (w ++ e).take h.flen = w.take h.flen := by
              rw [List.take_append_of_le_length (by omega)]
            cases hfd : c.frameDecode (w.take h.flen) with
            | error er =>
              rw [scanRest_badframe hc _ h er hdec' (by simp; omega) (by rw [htake]; exact hfd), hdrop1,
                scanRest_badframe hc _ h er hdec (by omega) hfd]
              exact hih1
            | ok fr =>
              have hfl := frameDecode_take_len hc hfd
              have hih2 := ih (w.drop h.flen) (by simp; omega) e
              rw [scanRest_frame hc _ h fr hdec' (by simp; omega) (by rw [htake]; exact hfd),
                List.drop_append_of_le_length (by omega),
                scanRest_frame hc _ h fr hdec (by omega) hfd]
              exact hih2

theorem scanRest_resume (d e : Bytes) : scanRest c (d ++ e) = scanRest c (scanRest c d ++ e) :=
  scanRest_resume_aux hc (d.length + 1) d (by omega) e

/-- the rest is a fixed point: scanning what is being waited on changes nothing -/
theorem scanRest_idem (d : Bytes) : scanRest c (scanRest c d) = scanRest c d :=
  scanRest_of_waiting hc (scanRest_waiting hc d)

theorem scan_scanRest (d : Bytes) : scan c (scanRest c d) = [] :=
  scan_of_waiting hc (scanRest_waiting hc d)

end Laws

/-- an incremental receiver: state = (bytes held back, frames delivered so far); one step per read -/
def scanStep (c : Codec) (st : Bytes × List Frame) (chunk : Bytes) : Bytes × List Frame :=
  (scanRest c (st.1 ++ chunk), st.2 ++ scan c (st.1 ++ chunk))

def scanFold (c : Codec) (chunks : List Bytes) : Bytes × List Frame := chunks.foldl (scanStep c) ([], [])

section Laws
variable {c : Codec} (hc : LawfulCodec c)
include hc

theorem scanFold_aux (chunks : List Bytes) : ∀ (d : Bytes) (out : List Frame),
    chunks.foldl (scanStep c) (scanRest c d, out) =
      (scanRest c (d ++ chunks.flatten), out ++ scan c (scanRest c d ++ chunks.flatten)) := by
  induction chunks with
  | nil =>
    intro d out
    simp only [List.foldl_nil, List.flatten_nil, List.append_nil]
    rw [scan_scanRest hc, List.append_nil]
  | cons x xs ih =>
    intro d out
    simp only [List.foldl_cons, List.flatten_cons, scanStep]
    rw [← scanRest_resume hc d x, ih (d ++ x), List.append_assoc, List.append_assoc,
      ← List.append_assoc (scanRest c d) x, scan_resume hc (scanRest c d ++ x) xs.flatten,
      ← scanRest_resume hc d x]

/-- processing read by read, carrying only `scanRest`, gives the scan and the rest of the concatenation -/
theorem scanFold_eq (chunks : List Bytes) :
    scanFold c chunks = (scanRest c chunks.flatten, scan c chunks.flatten) := by
  have h0 : scanRest c ([] : Bytes) = [] := scanRest_nosof hc [] (by simp)
  have := scanFold_aux hc chunks [] []
  rw [h0] at this
  simpa [scanFold] using this

end Laws
/-! ### the receive MACHINE at rest: what `_prev_read` can hold when the link is quiet -/

theorem fill_nil (n fuel : Nat) (b : Bytes) :
    fill n (fuel + 1) b [] = if b.length < n then (none, b, []) else (some b, b, []) := by
  rw [fill]
  by_cases h : b.length < n
  · rw [if_pos h, if_pos h]; rfl
  · rw [if_neg h, if_neg h]

theorem fillFrame_nil (n fuel : Nat) (b : Bytes) : fillFrame n fuel b [] = (b, []) := by
  cases fuel with
  | zero => rfl
  | succ fuel =>
    rw [fillFrame]
    by_cases h : b.length < n
    · rw [if_pos h]; rfl
    · rw [if_neg h]

theorem readHdr_nil_short (c : Codec) (fuel : Nat) (b : Bytes) (h : b.length < c.hdrLen) :
    readHdr c fuel b [] = ⟨none, b, []⟩ := by
  cases fuel with
  | zero => rfl
  | succ fuel => rw [readHdr, fill_nil, if_pos h]

section Laws
variable {c : Codec} (hc : LawfulCodec c)
include hc

/-- the machine at rest: if, on a quiet link (no reads left), one invocation of the receive-thread body
    delivers nothing and leaves `_prev_read` unchanged — the condition on which the receive loop of the model
    stops — then `_prev_read` is shorter than a header, or starts with a decodable header that declares more
    bytes than `_prev_read` holds -/
theorem quiescent_buffer (fuel : Nat) (buf : Bytes)
    (hq : readFrame c (fuel + 1) buf [] = (none, buf, [])) :
    buf.length < c.hdrLen ∨ ∃ h, c.hdrDecode buf = .ok h ∧ buf.length < h.flen := by
  have hpos := hc.hdrLen_pos
  by_cases hs : buf.length < c.hdrLen
  · exact Or.inl hs
  · right
    unfold readFrame at hq
    rw [readHdr, fill_nil, if_neg hs] at hq
    simp only at hq
    cases hfind : c.hdrFind buf with
    | none =>
      rw [hfind] at hq
      simp only at hq
      have : buf = [] := by
        have := congrArg (fun t => t.2.1) hq
        simpa using this.symm
      subst this
      simp at hs; omega
    | some i =>
      rw [hfind] at hq
      simp only at hq
      have hlen : (buf.drop i).length ≤ buf.length := by simp
      by_cases hs2 : (buf.drop i).length < c.hdrLen
      · rw [if_pos hs2, readHdr_nil_short c fuel _ hs2] at hq
        simp only at hq
        have := congrArg (fun t => t.2.1.length) hq
        simp only at this
        omega
      · rw [if_neg hs2] at hq
        cases hdec : c.hdrDecode (buf.drop i) with
        | error e =>
          rw [hdec] at hq
          simp only at hq
          have := congrArg (fun t => t.2.1.length) hq
          simp only [List.length_drop] at this
          simp only [List.length_drop] at hs2
          omega
        | ok h =>
          rw [hdec] at hq
          simp only [fillFrame_nil] at hq
          by_cases hl : (buf.drop i).length < h.flen
          · rw [if_pos hl] at hq
            have hb : buf.drop i = buf := by
              have := congrArg (fun t => t.2.1) hq
              simpa using this
            rw [hb] at hdec hl
            exact ⟨h, hdec, hl⟩
          · rw [if_neg hl] at hq
            cases hfd : c.frameDecode ((buf.drop i).take h.flen) with
            | error e =>
              rw [hfd] at hq
              simp only at hq
              have := congrArg (fun t => t.2.1.length) hq
              simp only [List.length_drop] at this
              simp only [List.length_drop] at hs2
              omega
            | ok fr =>
              rw [hfd] at hq
              simp only at hq
              have := congrArg (fun t => t.1) hq
              simp at this

end Laws

/-! ### full accounting: delivered windows, dropped bytes and the held-back rest partition the stream -/

/-- `WindowsR c d frs rest`: `d = gap₁ ++ w₁ ++ … ++ gapₙ ++ wₙ ++ junk ++ rest`, `wᵢ` decoding to the i-th frame:
    every byte of the stream is in exactly one delivered window, or dropped (a gap / junk), or held back (`rest`) -/
inductive WindowsR (c : Codec) : Bytes → List Frame → Bytes → Prop
  | nil (junk rest : Bytes) : WindowsR c (junk ++ rest) [] rest
  | cons (gap w tail : Bytes) (fr : Frame) (frs : List Frame) (rest : Bytes) :
      c.frameDecode w = .ok fr → WindowsR c tail frs rest → WindowsR c (gap ++ w ++ tail) (fr :: frs) rest

theorem WindowsR.prepend {c : Codec} (pre : Bytes) {d rest : Bytes} {frs : List Frame} (h : WindowsR c d frs rest) :
    WindowsR c (pre ++ d) frs rest := by
  cases h with
  | nil junk rest =>
    rw [← List.append_assoc]; exact WindowsR.nil _ _
  | cons gap w tail fr frs rest hf hr =>
    have : pre ++ (gap ++ w ++ tail) = (pre ++ gap) ++ w ++ tail := by simp
    rw [this]
    exact WindowsR.cons _ _ _ _ _ _ hf hr

section Laws
variable {c : Codec} (hc : LawfulCodec c)
include hc

theorem scan_windowsR_aux : ∀ (n : Nat) (d : Bytes), d.length < n → WindowsR c d (scan c d) (scanRest c d) := by
  intro n
  induction n with
  | zero => intro d h; omega
  | succ n ih =>
    intro d hn
    have hpos := hc.hdrLen_pos
    rw [scan_eq hc d, scanRest_eq hc d]
    cases hfind : c.hdrFind d with
    | none =>
      have := WindowsR.nil (c := c) d []
      rw [List.append_nil] at this
      exact this
    | some i =>
      simp only
      have hlen : (d.drop i).length ≤ d.length := by simp
      have hwait : WindowsR c d [] (d.drop i) := by
        have := WindowsR.nil (c := c) (d.take i) (d.drop i)
        rw [List.take_append_drop] at this
        exact this
      by_cases hs : (d.drop i).length < c.hdrLen
      · rw [if_pos hs, if_pos hs]; exact hwait
      · rw [if_neg hs, if_neg hs]
        have hstep : WindowsR c d (scan c ((d.drop i).drop 1)) (scanRest c ((d.drop i).drop 1)) := by
          have h1 := ih ((d.drop i).drop 1) (by simp at hs hlen ⊢; omega)
          have e1 : d = (d.take i ++ (d.drop i).take 1) ++ (d.drop i).drop 1 := by
            rw [List.append_assoc, List.take_append_drop, List.take_append_drop]
          have h2 := h1.prepend (d.take i ++ (d.drop i).take 1)
          rw [← e1] at h2
          exact h2
        cases hh : c.hdrDecode (d.drop i) with
        | error e => exact hstep
        | ok h =>
          simp only
          by_cases hw : (d.drop i).length < h.flen
          · rw [if_pos hw, if_pos hw]; exact hwait
          · rw [if_neg hw, if_neg hw]
            cases hfd : c.frameDecode ((d.drop i).take h.flen) with
            | error e => exact hstep
            | ok fr0 =>
              simp only
              have hfl := frameDecode_take_len hc hfd
              have h1 := ih ((d.drop i).drop h.flen) (by simp at hs hlen ⊢; omega)
              have e1 : d = d.take i ++ (d.drop i).take h.flen ++ (d.drop i).drop h.flen := by
                rw [List.append_assoc, List.take_append_drop, List.take_append_drop]
              have h2 := WindowsR.cons (d.take i) _ _ fr0 _ _ hfd h1
              rw [← e1] at h2
              exact h2

theorem scan_windowsR (d : Bytes) : WindowsR c d (scan c d) (scanRest c d) :=
  scan_windowsR_aux hc (d.length + 1) d (by omega)

/-- delivered frames (payload + framing each) and the held-back bytes together fit in the stream -/
theorem WindowsR.budget {d rest : Bytes} {frs : List Frame} (h : WindowsR c d frs rest) :
    (frs.map (fun fr => fr.data.length + c.hdrLen + c.footLen)).sum + rest.length ≤ d.length := by
  induction h with
  | nil junk rest => simp
  | cons gap w tail fr frs rest hf _ ih =>
    have := frameDecode_length hc hf
    simp only [List.map_cons, List.sum_cons, List.length_append]
    omega

end Laws

end Reasm
end Nxs
