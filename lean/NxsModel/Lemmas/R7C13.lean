/-
  Round-7 lemmas for C13: kernel certificate of the product "model × trace monitor"
  (`WorkerCycles.lean`) and its lift, by induction over `Run`, to all runs — any number of
  start/stop cycles, any schedule — with unsaturated totals over the whole trace.
-/
import NxsModel.WorkerCycles
import NxsModel.Lemmas.Worker
namespace Nxs.Worker
open Nxs.ThreadIR

theorem certM_tt : certifiedM ⟨true, true⟩ (RM ⟨true, true⟩) = true := by decide +kernel
theorem certM_tf : certifiedM ⟨true, false⟩ (RM ⟨true, false⟩) = true := by decide +kernel
theorem certM_ft : certifiedM ⟨false, true⟩ (RM ⟨false, true⟩) = true := by decide +kernel
theorem certM_ff : certifiedM ⟨false, false⟩ (RM ⟨false, false⟩) = true := by decide +kernel

theorem certM (c : Cfg) : certifiedM c (RM c) = true := by
  match c with
  | ⟨true, true⟩ => exact certM_tt
  | ⟨true, false⟩ => exact certM_tf
  | ⟨false, true⟩ => exact certM_ft
  | ⟨false, false⟩ => exact certM_ff

theorem monOf_snoc (tr : List Ev) (e : Ev) : monOf (tr ++ [e]) = (monOf tr).upd e := by
  simp [monOf, List.foldl_append]

theorem cnt_snoc (e x : Ev) (tr : List Ev) : cnt e (tr ++ [x]) = cnt e tr + (if x = e then 1 else 0) := by
  simp [cnt, List.countP_append, List.countP_cons]

theorem Mon.sat_upd_sat (ev : Ev) (m : Mon) : ((m.sat).upd ev).sat = (m.upd ev).sat := by
  cases ev <;> simp only [Mon.upd, Mon.sat, Mon.mk.injEq, and_true] <;> omega

theorem memM_of_certified {c : Cfg} {r : List (State × Mon)} (hc : certifiedM c r = true)
    {s : State} {tr : List Ev} (h : Run c s tr) : (s, (monOf tr).sat) ∈ r := by
  simp only [certifiedM, Bool.and_eq_true, List.all_eq_true, List.contains_iff_mem] at hc
  induction h with
  | init => exact hc.1.1
  | @step s tr p _ hp ih =>
    have := hc.2 _ ih (p.2.2, (((monOf tr).sat).upd p.2.1).sat)
      (by simp only [stepM, List.mem_map]; exact ⟨p, hp, rfl⟩)
    rwa [Mon.sat_upd_sat, ← monOf_snoc] at this

theorem run_okMon {c : Cfg} {s : State} {tr : List Ev} (h : Run c s tr) :
    okMon c (s, (monOf tr).sat) = true := by
  have hc := certM c
  have hm := memM_of_certified hc h
  simp only [certifiedM, Bool.and_eq_true, List.all_eq_true] at hc
  exact hc.1.2 _ hm

theorem Run.reach {c : Cfg} {s : State} {tr : List Ev} (h : Run c s tr) : Reach c s := by
  induction h with
  | init => exact Reach.init
  | @step s tr p _ hp ih =>
    exact Reach.step ih (by simp only [Nxs.Worker.step, List.mem_map]; exact ⟨p, hp, rfl⟩)

theorem Reach.exists_run {c : Cfg} {s : State} (h : Reach c s) : ∃ tr, Run c s tr := by
  induction h with
  | init => exact ⟨_, Run.init⟩
  | step _ hs ih =>
    obtain ⟨tr, hg⟩ := ih
    simp only [Nxs.Worker.step, List.mem_map] at hs
    obtain ⟨p, hp, rfl⟩ := hs
    exact ⟨_, Run.step hg hp⟩

theorem full_of_sat {c : Cfg} {m : Mon} (h : (Mon.sat m).full c = true) :
    min m.nInit 2 = expected c.hasInit ∧ min m.nFin 2 = expected c.hasFinal ∧ min m.nExit 2 = 1 := by
  unfold Mon.full at h
  rw [Bool.and_eq_true, Bool.and_eq_true] at h
  exact ⟨of_decide_eq_true h.1.1, of_decide_eq_true h.1.2, of_decide_eq_true h.2⟩

theorem zero_of_sat {m : Mon} (h : (Mon.sat m).zero = true) :
    min m.nInit 2 = 0 ∧ min m.nFin 2 = 0 ∧ min m.nExit 2 = 0 := by
  unfold Mon.zero at h
  rw [Bool.and_eq_true, Bool.and_eq_true] at h
  exact ⟨of_decide_eq_true h.1.1, of_decide_eq_true h.1.2, of_decide_eq_true h.2⟩

/-- the facts of `okMon`, for the UNSATURATED monitor of a run -/
theorem run_mon_facts {c : Cfg} {s : State} {tr : List Ev} (h : Run c s tr) :
    (monOf tr).nInit ≤ expected c.hasInit ∧ (monOf tr).nFin ≤ expected c.hasFinal ∧
    (monOf tr).nExit ≤ 1 ∧ (monOf tr).bad = false ∧
    ((monOf tr).fresh = true → (monOf tr).nInit = 0 ∧ (monOf tr).nFin = 0 ∧ (monOf tr).nExit = 0) ∧
    ((monOf tr).fresh = false → quiet s = true ∨ (∃ p ∈ stepL c s, p.2.1 = Ev.new) →
      (monOf tr).nInit = expected c.hasInit ∧ (monOf tr).nFin = expected c.hasFinal ∧
      (monOf tr).nExit = 1) := by
  have h1 := run_okMon h
  have e1 := expected_le_one c.hasInit
  have e2 := expected_le_one c.hasFinal
  generalize monOf tr = m at h1
  unfold okMon at h1
  simp only [Bool.and_eq_true, Bool.or_eq_true, Bool.not_eq_true', List.all_eq_true] at h1
  obtain ⟨⟨⟨⟨⟨⟨a, b⟩, d⟩, e⟩, f⟩, g⟩, k⟩ := h1
  have a := of_decide_eq_true a
  have b := of_decide_eq_true b
  have d := of_decide_eq_true d
  simp only [Mon.sat] at a b d e f g k
  refine ⟨by omega, by omega, by omega, e, ?_, ?_⟩
  · intro hf
    rcases f with f | f
    · rw [hf] at f; cases f
    · have := zero_of_sat f; omega
  · intro hf hq
    rcases hq with hq | ⟨p, hp, hn⟩
    · rcases g with (g | g) | g
      · rw [hf] at g; cases g
      · rw [hq] at g; cases g
      · have := full_of_sat g; omega
    · rcases k with k | k
      · rw [hf] at k; cases k
      · rcases k p hp with k | k
        · simp [hn] at k
        · have := full_of_sat k; omega

theorem upd_fresh (e : Ev) (m : Mon) : (m.upd e).fresh = (m.fresh && !decide (e = Ev.new)) := by
  cases e <;> simp [Mon.upd]

/-- the counting invariant -/
theorem run_counts {c : Cfg} {s : State} {tr : List Ev} (h : Run c s tr) :
    ((monOf tr).fresh = true → cnt .new tr = 0 ∧ cnt .init tr = 0 ∧ cnt .final tr = 0 ∧ cnt .exit tr = 0) ∧
    ((monOf tr).fresh = false → cnt .new tr ≥ 1 ∧
      cnt .init tr = expected c.hasInit * (cnt .new tr - 1) + (monOf tr).nInit ∧
      cnt .final tr = expected c.hasFinal * (cnt .new tr - 1) + (monOf tr).nFin ∧
      cnt .exit tr = (cnt .new tr - 1) + (monOf tr).nExit) := by
  induction h with
  | init => simp [monOf, Mon.init, cnt]
  | @step s tr p hr hp ih =>
    have f0 := run_mon_facts hr
    have f1 := run_mon_facts (Run.step hr hp)
    rw [monOf_snoc] at f1 ⊢
    simp only [cnt_snoc]
    generalize monOf tr = m at *
    obtain ⟨pw, pe, ps⟩ := p
    simp only at *
    have hnew : m.fresh = false → pe = Ev.new → m.nInit = expected c.hasInit ∧
        m.nFin = expected c.hasFinal ∧ m.nExit = 1 :=
      fun hf hn => f0.2.2.2.2.2 hf (Or.inr ⟨_, hp, hn⟩)
    clear hp hr
    have f1a := f1.1
    have f1b := f1.2.1
    have f1c := f1.2.2.1
    have f1d := f1.2.2.2.2.1
    have f0a := f0.1
    have f0b := f0.2.1
    have f0c := f0.2.2.1
    have f0d := f0.2.2.2.2.1
    clear f1 f0
    rcases m with ⟨ni, nf, ne, fr, st, bd⟩
    rcases c with ⟨_ | _, _ | _⟩ <;> cases fr <;> cases pe <;>
      simp [Mon.upd, expected] at f0a f0b f0c f0d f1a f1b f1c f1d hnew ih ⊢ <;> omega

theorem upd_bad (e : Ev) (m : Mon) : (m.upd e).bad = (m.bad || (m.stopped && e.isActivity)) := by
  cases e <;> rfl

theorem upd_stopped (e : Ev) (m : Mon) : (m.upd e).stopped = nextStopped m.stopped e := by
  cases e <;> rfl

/-- the sticky bit of the monitor is the pure trace predicate `quietOk` -/
theorem foldl_bad (tr : List Ev) : ∀ m : Mon,
    (tr.foldl (fun m e => m.upd e) m).bad = (m.bad || !quietOk m.stopped tr) := by
  induction tr with
  | nil => intro m; simp [quietOk]
  | cons e es ih =>
    intro m
    simp only [List.foldl_cons, ih, upd_bad, upd_stopped, quietOk]
    cases m.bad <;> cases m.stopped <;> cases e.isActivity <;> simp

theorem run_quietOk {c : Cfg} {s : State} {tr : List Ev} (h : Run c s tr) : quietOk true tr = true := by
  have hb := (run_mon_facts h).2.2.2.1
  unfold monOf at hb
  rw [foldl_bad] at hb
  simpa [Mon.init] using hb

theorem runPathL_run {c : Cfg} : ∀ (is : List Nat) {s s' : State} {tr tr' : List Ev}, Run c s tr →
    runPathL c is s tr = some (s', tr') → Run c s' tr' := by
  intro is
  induction is with
  | nil => intro s s' tr tr' hs h; simp [runPathL] at h; exact h.1 ▸ h.2 ▸ hs
  | cons i is ih =>
    intro s s' tr tr' hs h
    unfold runPathL at h
    split at h
    · next p heq => exact ih (Run.step hs (List.mem_of_getElem? heq)) h
    · cases h

/-- a concrete path (successor indices from the initial state) exhibits a run and its trace -/
theorem run_of_path {c : Cfg} {is : List Nat} {p : State × List Ev → Bool}
    (h : (runPathL c is init []).any p = true) : ∃ s tr, Run c s tr ∧ p (s, tr) = true := by
  cases hr : runPathL c is init [] with
  | none => simp [hr] at h
  | some q => exact ⟨q.1, q.2, runPathL_run is Run.init hr, by simpa [hr] using h⟩

end Nxs.Worker
