/-
  Lemmas for the small-step lock semantics `LockSem` (C12, round 7): invariants of every schedule.
-/
import NxsModel.LockSem
import NxsModel.Lemmas.Locks
namespace Nxs
namespace R7C12
open Nxs.Locks Nxs.LockSem Nxs.LocksLemmas

set_option linter.unusedSectionVars false
set_option linter.unusedSimpArgs false
variable {L : Type} [DecidableEq L]

/-! ### programs -/

theorem okProg_of_okProgB {P : List L → L → Bool} {Q : List L → L → Prop}
    (hPQ : ∀ h l, P h l = true → Q h l) :
    ∀ (p : List (Instr L)) (h : List L), okProgB P h p = true → OkProg Q h p
  | [], h, hb => by simpa [okProgB, OkProg] using hb
  | .acq l :: p, h, hb => by
      simp only [okProgB, Bool.and_eq_true] at hb
      exact ⟨hPQ h l hb.1, okProg_of_okProgB hPQ p (l :: h) hb.2⟩
  | .rel l :: p, h, hb => by
      simp only [okProgB, Bool.and_eq_true] at hb
      exact ⟨by simpa using hb.1, okProg_of_okProgB hPQ p (h.erase l) hb.2⟩

theorem okProg_mono {P Q : List L → L → Prop} (hPQ : ∀ h l, P h l → Q h l) :
    ∀ (p : List (Instr L)) (h : List L), OkProg P h p → OkProg Q h p
  | [], _, hb => hb
  | .acq l :: p, h, hb => ⟨hPQ h l hb.1, okProg_mono hPQ p (l :: h) hb.2⟩
  | .rel l :: p, h, hb => ⟨hb.1, okProg_mono hPQ p (h.erase l) hb.2⟩

/-- executing the next instruction keeps a thread inside its discipline -/
theorem okProg_stepT {P : List L → L → Prop} (t : T L) (h : OkProg P t.holds t.prog) :
    OkProg P (stepT t).holds (stepT t).prog := by
  rcases t with ⟨hs, p⟩
  cases p with
  | nil => exact h
  | cons a p =>
    cases a with
    | acq l => exact h.2
    | rel l => exact h.2

theorem finished_holds_nothing {P : List L → L → Prop} (t : T L) (h : OkProg P t.holds t.prog)
    (hp : t.prog = []) : t.holds = [] := by
  rcases t with ⟨hs, p⟩
  subst hp
  exact h

/-! ### one step -/

theorem step_eq_some {s s' : List (T L)} {i : Nat} (h : step s i = some s') :
    ∃ t, s[i]? = some t ∧ enabled s t = true ∧ s' = s.set i (stepT t) := by
  unfold step at h
  split at h
  · nomatch h
  · rename_i t ht
    split at h
    · rename_i he
      exact ⟨t, ht, he, by simpa using h.symm⟩
    · nomatch h

theorem enabled_prog_ne {s : List (T L)} {t : T L} (h : enabled s t = true) : t.prog ≠ [] := by
  intro hp
  simp [enabled, hp] at h

theorem step_preserves_all {Q : T L → Prop} (hQ : ∀ t, Q t → Q (stepT t)) {s s' : List (T L)} {i : Nat}
    (h : step s i = some s') (hs : ∀ t ∈ s, Q t) : ∀ t ∈ s', Q t := by
  obtain ⟨t, ht, -, rfl⟩ := step_eq_some h
  intro u hu
  rcases List.mem_or_eq_of_mem_set hu with hu | rfl
  · exact hs u hu
  · exact hQ t (hs t (List.mem_of_getElem? ht))

theorem run_preserves_all {Q : T L → Prop} (hQ : ∀ t, Q t → Q (stepT t)) :
    ∀ (sched : List Nat) (s s' : List (T L)), run s sched = some s' → (∀ t ∈ s, Q t) → ∀ t ∈ s', Q t
  | [], s, s', h, hs => by
      simp only [run, Option.some.injEq] at h
      subst h
      exact hs
  | i :: is, s, s', h, hs => by
      simp only [run] at h
      split at h
      · nomatch h
      · rename_i s1 h1
        exact run_preserves_all hQ is s1 s' h (step_preserves_all hQ h1 hs)

/-! ### mutual exclusion -/

theorem isFree_false_iff {s : List (T L)} {l : L} : isFree s l = false ↔ ∃ u ∈ s, l ∈ u.holds := by
  simp [isFree]

theorem isFree_not_mem {s : List (T L)} {l : L} (h : isFree s l = true) {u : T L} (hu : u ∈ s) :
    l ∉ u.holds := by
  have := List.all_eq_true.mp h u hu
  simpa using this

/-- the locks of the stepped thread: the old ones, or a lock that was free -/
theorem stepT_holds {s : List (T L)} {t : T L} (he : enabled s t = true) {l : L}
    (hl : l ∈ (stepT t).holds) : l ∈ t.holds ∨ isFree s l = true := by
  rcases t with ⟨hs, p⟩
  cases p with
  | nil => exact .inl hl
  | cons a p =>
    cases a with
    | acq l0 =>
      simp only [stepT, List.mem_cons] at hl
      rcases hl with rfl | hl
      · exact .inr (by simpa [enabled] using he)
      · exact .inl hl
    | rel l0 =>
      simp only [stepT] at hl
      exact .inl (List.mem_of_mem_erase hl)

theorem getElem?_set_ne' {s : List (T L)} {i j : Nat} {x : T L} (h : i ≠ j) : (s.set i x)[j]? = s[j]? := by
  simp [List.getElem?_set, h]

theorem getElem?_set_self' {s : List (T L)} {i : Nat} {x u : T L} (h : (s.set i x)[i]? = some u) : u = x := by
  have : i < s.length ∧ x = u := by simpa [List.getElem?_set] using h
  exact this.2.symm

theorem step_excl {s s' : List (T L)} {k : Nat} (h : step s k = some s') (hx : Excl s) : Excl s' := by
  obtain ⟨t, ht, he, rfl⟩ := step_eq_some h
  unfold Excl
  intro i j ti tj l hi hj hli hlj
  by_cases hik : k = i <;> by_cases hjk : k = j
  · omega
  · subst hik
    have := getElem?_set_self' hi
    subst this
    rw [getElem?_set_ne' hjk] at hj
    rcases stepT_holds he hli with h1 | h1
    · exact hx k j t tj l ht hj h1 hlj
    · exact absurd hlj (isFree_not_mem h1 (List.mem_of_getElem? hj))
  · subst hjk
    have := getElem?_set_self' hj
    subst this
    rw [getElem?_set_ne' hik] at hi
    rcases stepT_holds he hlj with h1 | h1
    · exact hx i k ti t l hi ht hli h1
    · exact absurd hli (isFree_not_mem h1 (List.mem_of_getElem? hi))
  · rw [getElem?_set_ne' hik] at hi
    rw [getElem?_set_ne' hjk] at hj
    exact hx i j ti tj l hi hj hli hlj

theorem run_excl : ∀ (sched : List Nat) (s s' : List (T L)), run s sched = some s' → Excl s → Excl s'
  | [], s, s', h, hs => by
      simp only [run, Option.some.injEq] at h
      subst h
      exact hs
  | i :: is, s, s', h, hs => by
      simp only [run] at h
      split at h
      · nomatch h
      · rename_i s1 h1
        exact run_excl is s1 s' h (step_excl h1 hs)

theorem excl_start (progs : List (List (Instr L))) : Excl (start progs) := by
  unfold Excl
  intro i j ti tj l hi _ hli _
  simp only [start, List.getElem?_map, Option.map_eq_some_iff] at hi
  obtain ⟨p, -, rfl⟩ := hi
  nomatch hli

/-! ### progress -/

theorem view_holds (t : T L) : (view t).holds = t.holds := rfl

theorem view_waits {t : T L} {l : L} (h : (view t).waits = some l) : ∃ p, t.prog = .acq l :: p := by
  rcases t with ⟨hs, p⟩
  cases p with
  | nil => simp [view] at h
  | cons a p =>
    cases a with
    | acq l0 =>
      simp only [view, Option.some.injEq] at h
      exact ⟨p, by rw [h]⟩
    | rel l0 => simp [view] at h

theorem disc_ordered (rank : L → Nat) (t : T L) (h : Disc rank t) : Ordered rank (view t) := by
  intro l hl x hx
  obtain ⟨p, hp⟩ := view_waits hl
  unfold Disc at h
  rw [hp] at h
  exact h.1 x hx

/-- a thread that cannot move and has not finished waits for a lock somebody holds -/
theorem blocked_waits {s : List (T L)} {t : T L} (hne : t.prog ≠ []) (he : enabled s t = false) :
    ∃ l, (view t).waits = some l ∧ ∃ u ∈ s, l ∈ u.holds := by
  rcases t with ⟨hs, p⟩
  cases p with
  | nil => exact absurd rfl hne
  | cons a p =>
    cases a with
    | acq l0 =>
      refine ⟨l0, rfl, ?_⟩
      exact isFree_false_iff.mp (by simpa [enabled] using he)
    | rel l0 => simp [enabled] at he

/-- PROGRESS: in a state whose threads all follow the rank discipline, if some thread has not finished then
    some thread can move -/
theorem progress (rank : L → Nat) (s : List (T L)) (hd : ∀ t ∈ s, Disc rank t)
    (hne : ∃ t ∈ s, t.prog ≠ []) : ∃ i s', step s i = some s' := by
  apply Classical.byContradiction
  intro hno
  have hstuck : ∀ t ∈ s, enabled s t = false := by
    intro t ht
    obtain ⟨i, hi, hti⟩ := List.getElem_of_mem ht
    cases he : enabled s t with
    | false => rfl
    | true =>
      exfalso
      apply hno
      refine ⟨i, s.set i (stepT t), ?_⟩
      have : s[i]? = some t := by rw [List.getElem?_eq_getElem hi, hti]
      simp [step, this, he]
  let S := (s.filter fun t => !t.prog.isEmpty).map view
  have hmemS : ∀ t ∈ s, t.prog ≠ [] → view t ∈ S := by
    intro t ht hp
    refine List.mem_map.mpr ⟨t, List.mem_filter.mpr ⟨ht, ?_⟩, rfl⟩
    cases hq : t.prog with
    | nil => exact absurd hq hp
    | cons _ _ => rfl
  have hSmem : ∀ v ∈ S, ∃ t ∈ s, t.prog ≠ [] ∧ view t = v := by
    intro v hv
    obtain ⟨t, ht, rfl⟩ := List.mem_map.mp hv
    obtain ⟨hts, hp⟩ := List.mem_filter.mp ht
    refine ⟨t, hts, ?_, rfl⟩
    intro h0
    simp [h0] at hp
  have hdl : Deadlocked S := by
    refine ⟨?_, ?_⟩
    · obtain ⟨t, ht, hp⟩ := hne
      exact List.ne_nil_of_mem (hmemS t ht hp)
    · intro v hv
      obtain ⟨t, ht, hp, rfl⟩ := hSmem v hv
      obtain ⟨l, hl, u, hu, hlu⟩ := blocked_waits hp (hstuck t ht)
      refine ⟨l, hl, view u, hmemS u hu ?_, hlu⟩
      intro h0
      have := finished_holds_nothing u (hd u hu) h0
      rw [this] at hlu
      nomatch hlu
  refine ordered_not_deadlocked rank S ?_ hdl
  intro v hv
  obtain ⟨t, ht, -, rfl⟩ := hSmem v hv
  exact disc_ordered rank t (hd t ht)

/-! ### termination -/

theorem work_set : ∀ (s : List (T L)) (i : Nat) (t x : T L), s[i]? = some t →
    work (s.set i x) + t.prog.length = work s + x.prog.length
  | [], i, t, x, h => by simp at h
  | u :: s, 0, t, x, h => by
      simp only [List.getElem?_cons_zero, Option.some.injEq] at h
      subst h
      simp only [List.set_cons_zero, work]
      omega
  | u :: s, i + 1, t, x, h => by
      simp only [List.getElem?_cons_succ] at h
      have := work_set s i t x h
      simp only [List.set_cons_succ, work]
      omega

theorem stepT_prog_length {t : T L} (h : t.prog ≠ []) : (stepT t).prog.length + 1 = t.prog.length := by
  rcases t with ⟨hs, p⟩
  cases p with
  | nil => exact absurd rfl h
  | cons a p => cases a <;> simp [stepT]

theorem step_work {s s' : List (T L)} {i : Nat} (h : step s i = some s') : work s' + 1 = work s := by
  obtain ⟨t, ht, he, rfl⟩ := step_eq_some h
  have h1 := work_set s i t (stepT t) ht
  have h2 := stepT_prog_length (enabled_prog_ne he)
  omega

/-- every schedule that can be executed uses up exactly one instruction per step -/
theorem run_work : ∀ (sched : List Nat) (s s' : List (T L)), run s sched = some s' →
    work s' + sched.length = work s
  | [], s, s', h => by
      simp only [run, Option.some.injEq] at h
      subst h
      rfl
  | i :: is, s, s', h => by
      simp only [run] at h
      split at h
      · nomatch h
      · rename_i s1 h1
        have := run_work is s1 s' h
        have := step_work h1
        simp only [List.length_cons]
        omega

theorem run_append : ∀ (a b : List Nat) (s s1 s2 : List (T L)), run s a = some s1 → run s1 b = some s2 →
    run s (a ++ b) = some s2
  | [], b, s, s1, s2, h1, h2 => by
      simp only [run, Option.some.injEq] at h1
      subst h1
      exact h2
  | i :: is, b, s, s1, s2, h1, h2 => by
      simp only [run, List.cons_append] at h1 ⊢
      split at h1
      · nomatch h1
      · rename_i s' hs'
        exact run_append is b s' s1 s2 h1 h2

theorem finished_of_no_work {rank : L → Nat} {s : List (T L)} (hd : ∀ t ∈ s, Disc rank t)
    (h : ¬ ∃ t ∈ s, t.prog ≠ []) : Finished s := by
  intro t ht
  have hp : t.prog = [] := Classical.byContradiction fun hp => h ⟨t, ht, hp⟩
  exact ⟨hp, finished_holds_nothing t (hd t ht) hp⟩

/-- COMPLETION: from every state of disciplined threads some schedule finishes all threads -/
theorem completes (rank : L → Nat) : ∀ (n : Nat) (s : List (T L)), work s ≤ n → (∀ t ∈ s, Disc rank t) →
    ∃ sched s', run s sched = some s' ∧ Finished s'
  | n, s, hn, hd => by
      by_cases hne : ∃ t ∈ s, t.prog ≠ []
      · obtain ⟨i, s1, h1⟩ := progress rank s hd hne
        have hw := step_work h1
        have hd1 := step_preserves_all (Q := Disc rank) (fun t ht => okProg_stepT t ht) h1 hd
        cases n with
        | zero => omega
        | succ n =>
          obtain ⟨sched, s', hr, hf⟩ := completes rank n s1 (by omega) hd1
          exact ⟨i :: sched, s', by simp [run, h1, hr], hf⟩
      · exact ⟨[], s, rfl, finished_of_no_work hd hne⟩

/-! ### the lock table -/

theorem siteOk_rank {tbl : Table} (hr : nestingRespectsRank tbl = true) (h : List Lock) (l : Lock)
    (hs : siteOk tbl.acqs h l = true) : ∀ x ∈ h, x.rank < l.rank := by
  intro x hx
  simp only [siteOk, List.any_eq_true, Bool.and_eq_true, beq_iff_eq, List.all_eq_true,
    List.contains_eq_mem, decide_eq_true_eq] at hs
  obtain ⟨a, ha, hacq, hheld⟩ := hs
  have h1 : Acq.ranked a = true := List.all_eq_true.mp hr a ha
  have h2 := List.all_eq_true.mp h1 x (hheld x hx)
  rw [hacq] at h2
  exact of_decide_eq_true h2

theorem tableThread_disc {tbl : Table} (hr : nestingRespectsRank tbl = true) (t : T Lock)
    (h : TableThread tbl t) : Disc Lock.rank t :=
  okProg_of_okProgB (siteOk_rank hr) t.prog t.holds h

/-! ### conformance to the table is an invariant too -/

/-- Prop form of `siteOk` (the shape used by `Locks.Conforms`) -/
def SiteP (acqs : List Acq) (h : List Lock) (l : Lock) : Prop :=
  ∃ a ∈ acqs, a.acquires = l ∧ ∀ x ∈ h, x ∈ a.held

theorem siteOk_siteP (acqs : List Acq) (h : List Lock) (l : Lock) (hs : siteOk acqs h l = true) :
    SiteP acqs h l := by
  simp only [siteOk, List.any_eq_true, Bool.and_eq_true, beq_iff_eq, List.all_eq_true,
    List.contains_eq_mem, decide_eq_true_eq] at hs
  exact hs

theorem siteP_conforms (acqs : List Acq) (t : T Lock) (h : OkProg (SiteP acqs) t.holds t.prog) :
    Conforms acqs (view t) := by
  intro l hl
  obtain ⟨p, hp⟩ := view_waits hl
  rw [hp] at h
  exact h.1

/-! ### independence: steps of different threads commute unless they race for the same lock -/

theorem enabled_after_other {s : List (T L)} {i : Nat} {ti tj : T L} (hi : s[i]? = some ti)
    (hej : enabled s tj = true) (hdiff : ∀ l, (view ti).waits = some l → (view tj).waits ≠ some l) :
    enabled (s.set i (stepT ti)) tj = true := by
  rcases tj with ⟨hj, pj⟩
  cases pj with
  | nil => simp [enabled] at hej
  | cons a pj =>
    cases a with
    | rel l' => rfl
    | acq l' =>
      have hfree : isFree s l' = true := by simpa [enabled] using hej
      show isFree (s.set i (stepT ti)) l' = true
      apply List.all_eq_true.mpr
      intro u hu
      rcases List.mem_or_eq_of_mem_set hu with hu | rfl
      · exact List.all_eq_true.mp hfree u hu
      · have hti : l' ∉ ti.holds := isFree_not_mem hfree (List.mem_of_getElem? hi)
        rcases ti with ⟨hs, p⟩
        cases p with
        | nil => simpa [stepT] using hti
        | cons b p =>
          cases b with
          | acq l0 =>
            have hne : l0 ≠ l' := fun h => hdiff l0 rfl (by rw [h]; rfl)
            simp only [stepT, List.contains_cons, Bool.not_eq_eq_eq_not, Bool.not_true,
              Bool.or_eq_false_iff, beq_eq_false_iff_ne, ne_eq]
            exact ⟨fun h => hne h.symm, by simpa using hti⟩
          | rel l0 =>
            have : l' ∉ hs.erase l0 := fun h => hti (List.mem_of_mem_erase h)
            simpa [stepT] using this

/-- DIAMOND: two different threads that can both move, and do not both try to acquire the same lock, can
    move in either order and reach the same state -/
theorem step_diamond {s : List (T L)} {i j : Nat} {ti tj : T L} (hij : i ≠ j)
    (hi : s[i]? = some ti) (hj : s[j]? = some tj)
    (hei : enabled s ti = true) (hej : enabled s tj = true)
    (hdiff : ∀ l, (view ti).waits = some l → (view tj).waits ≠ some l) :
    step s i = some (s.set i (stepT ti)) ∧ step s j = some (s.set j (stepT tj)) ∧
    step (s.set i (stepT ti)) j = some ((s.set i (stepT ti)).set j (stepT tj)) ∧
    step (s.set j (stepT tj)) i = some ((s.set i (stepT ti)).set j (stepT tj)) := by
  have h1 := enabled_after_other (tj := tj) hi hej hdiff
  have h2 := enabled_after_other (ti := tj) (tj := ti) hj hei (fun l hl h' => hdiff l h' hl)
  have hj' : (s.set i (stepT ti))[j]? = some tj := by rw [getElem?_set_ne' hij]; exact hj
  have hi' : (s.set j (stepT tj))[i]? = some ti := by rw [getElem?_set_ne' (Ne.symm hij)]; exact hi
  refine ⟨by simp [step, hi, hei], by simp [step, hj, hej], by simp [step, hj', h1], ?_⟩
  rw [List.set_comm _ _ hij]
  simp [step, hi', h2]

end R7C12
end Nxs
