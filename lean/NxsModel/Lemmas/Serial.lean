import NxsModel.Serial
import NxsModel.Spec.Wire
import NxsModel.Lemmas.CrcResidue
import NxsModel.Lemmas.Struct
namespace Nxs.Serial
open Nxs Nxs.Spec Gen.Frame

theorem hdrFmtCreate_atoms : hdrFmtCreate.atoms = [⟨.B, 1⟩, ⟨.H, 2⟩, ⟨.B, 1⟩] := by
  simp [hdrFmtCreate, Fmt.atoms, itemAtoms, Code.size]

theorem footFmt_atoms : footFmt.atoms = [⟨.H, 2⟩] := by
  simp [footFmt, Fmt.atoms, itemAtoms, Code.size]

theorem packHdr (flen fid : Nat) (h1 : flen < 65536) (h2 : fid ≤ 255) :
    pack hdrFmtCreate [.int sof, .int flen, .int fid] =
      .ok [0x55, BitVec.ofNat 8 flen, BitVec.ofNat 8 (flen / 256), BitVec.ofNat 8 fid] := by
  unfold pack
  rw [hdrFmtCreate_atoms]
  have hbe : hdrFmtCreate.be = false := rfl
  rw [hbe]
  exact packAtoms_cons_ok (packAtom_B false 1 sof (by decide))
    (packAtoms_cons_ok (packAtom_H_le 2 flen h1)
      (packAtoms_cons_ok (packAtom_B false 1 fid (by omega)) rfl))

theorem packFoot (c : BitVec 16) :
    pack footFmt [.int c.toNat] = .ok [BitVec.ofNat 8 (c.toNat / 256), BitVec.ofNat 8 c.toNat] := by
  unfold pack
  rw [footFmt_atoms]
  have hbe : footFmt.be = true := rfl
  rw [hbe]
  exact packAtoms_cons_ok (packAtom_H_be 2 c.toNat c.isLt) rfl

theorem frameCreateBody_ok (fid : Nat) (p h f : Bytes)
    (hh : pack hdrFmtCreate [.int sof, .int ((baseLen + p.length : Nat) : Int), .int fid] = .ok h)
    (hf : pack footFmt [.int (crc Gen.Crc.params (h ++ p)).toNat] = .ok f) :
    frameCreateBody fid p = .ok (h ++ p ++ f) := by
  unfold frameCreateBody
  rw [hh, ok_bind, hf, ok_bind]

theorem wire_eq (fid : Nat) (p : Bytes) :
    wire fid p = wirePrefix fid p ++ [BitVec.ofNat 8 ((crc16xmodem (wirePrefix fid p)).toNat / 256),
      BitVec.ofNat 8 (crc16xmodem (wirePrefix fid p)).toNat] := rfl

theorem wirePrefix_eq (fid : Nat) (p : Bytes) :
    wirePrefix fid p = [0x55, BitVec.ofNat 8 (baseLen + p.length), BitVec.ofNat 8 ((baseLen + p.length) / 256),
      BitVec.ofNat 8 fid] ++ p := by
  simp [wirePrefix, baseLen, Nat.add_comm]

theorem frameCreate_eq (fid : Nat) (p : Bytes) (hp : p.length ≤ 65529) (hf : fid ≤ 255) :
    frameCreate fid (some p) = .ok (wire fid p) := by
  have h0 : ¬ fid > fidMax := by simp [fidMax]; omega
  unfold frameCreate
  rw [if_neg h0]
  show frameCreateBody fid p = _
  rw [wire_eq, wirePrefix_eq]
  refine frameCreateBody_ok fid p _ _ (packHdr (baseLen + p.length) fid (by simp [baseLen]; omega) hf) ?_
  have hc : Gen.Crc.params = Crc.xmodem := rfl
  rw [hc, crc_xmodem_eq]
  exact packFoot _

theorem frameCreate_refuses (fid : Nat) (p : Bytes) (hp : p.length > 65529) :
    ∃ e, frameCreate fid (some p) = .error e := by
  unfold frameCreate
  by_cases h0 : fid > fidMax
  · exact ⟨.assertion, by rw [if_pos h0]⟩
  · refine ⟨.structError, ?_⟩
    rw [if_neg h0]
    show frameCreateBody fid p = _
    unfold frameCreateBody
    have : pack hdrFmtCreate [.int sof, .int ((baseLen + p.length : Nat) : Int), .int fid] = .error .structError := by
      unfold pack
      rw [hdrFmtCreate_atoms]
      have hbe : hdrFmtCreate.be = false := rfl
      rw [hbe]
      exact packAtoms_cons_err2 (packAtom_B false 1 sof (by decide))
        (packAtoms_cons_err1 (packAtom_H_err false 2 _ (by simp [baseLen]; omega)))
    rw [this]
    rfl

theorem hdrFmtDecode_atoms : hdrFmtDecode.atoms = [⟨.B, 1⟩, ⟨.H, 2⟩, ⟨.B, 1⟩] := by
  simp [hdrFmtDecode, Fmt.atoms, itemAtoms, Code.size]

theorem unpackHdr (a b c e : Byte) :
    unpack hdrFmtDecode [a, b, c, e] = .ok [.int a.toNat, .int (b.toNat + 256 * c.toNat : Nat), .int e.toNat] := by
  unfold unpack
  rw [hdrFmtDecode_atoms]
  have hbe : hdrFmtDecode.be = false := rfl
  rw [hbe]
  rw [unpackAtoms_cons (by simp [Atom.size, Code.size]), unpackAtoms_cons (by simp [Atom.size, Code.size]),
    unpackAtoms_cons (by simp [Atom.size, Code.size])]
  simp [Atom.size, Code.size, unpackAtoms, unpackAtom_B, unpackAtom_H_le, ok_bind]

theorem sof_ne (a : Byte) : a.toNat ≠ sof ↔ a ≠ 0x55 := by
  constructor
  · intro h h'; subst h'; exact h rfl
  · intro h h'; apply h; apply BitVec.eq_of_toNat_eq
    have : a.toNat = 85 := h'
    simpa using this

theorem ids_contains (e : Byte) : Gen.Ids.parseIds.contains e.toNat = decide (e.toNat ≤ 8) := by
  rw [Bool.eq_iff_iff]
  simp [Gen.Ids.parseIds]
  omega

/-- `hdr_decode` on at least four bytes, written out -/
theorem hdrDecode_cons (a b c e : Byte) (rest : Bytes) :
    hdrDecode (a :: b :: c :: e :: rest) =
      if a ≠ 0x55 then .error .hdr
      else if ¬ e.toNat ≤ 8 then .error .hdr
      else .ok ⟨e.toNat, b.toNat + 256 * c.toNat⟩ := by
  unfold hdrDecode
  have h1 : (a :: b :: c :: e :: rest).take hdrLen = [a, b, c, e] := by simp [hdrLen]
  have h2 : ¬ ((a :: b :: c :: e :: rest).length < hdrLen) := by simp [hdrLen]
  rw [h1, unpackHdr]
  have hs : (((a.toNat : Nat) : Int) ≠ ((sof : Nat) : Int)) ↔ a ≠ 0x55 := by
    rw [← sof_ne]; omega
  simp only [hdrGuardShort, Bool.true_and, decide_eq_true_eq, h2, if_false, hdrGuardSof, hdrGuardId,
    Int.toNat_natCast, hs, ids_contains]
  by_cases ha : a = 0x55 <;> by_cases he : e.toNat ≤ 8 <;> simp [ha, he]

theorem hdrDecode_short (d : Bytes) (h : d.length < 4) : hdrDecode d = .error .hdr := by
  unfold hdrDecode
  simp [hdrGuardShort, hdrLen, h]

theorem footValidate_eq (d : Bytes) : footValidate d = decide (crc16xmodem d = 0) := by
  unfold footValidate
  have hc : Gen.Crc.params = Crc.xmodem := rfl
  rw [hc, crc_xmodem_eq]

/-- `frame_decode` after a successful header decode -/
theorem frameDecode_of_hdr (d : Bytes) (h : Hdr) (hh : hdrDecode d = .ok h) :
    frameDecode d =
      if h.flen < 6 then .error .foot
      else if h.flen > d.length then .error .foot
      else if crc16xmodem (d.take h.flen) ≠ 0 then .error .foot
      else .ok ⟨h.fid, slice d 4 (h.flen - 2)⟩ := by
  unfold frameDecode
  rw [hh]
  simp only [decGuardMin, decGuardMax, decGuardCrc, Bool.true_and, hdrLen, footLen, decPayloadTail,
    footValidate_eq, decide_eq_true_eq, Bool.not_eq_true', decide_eq_false_iff_not, ne_eq,
    Nat.reduceAdd]
  by_cases h6 : h.flen < 6 <;> simp [h6]

theorem frameDecode_of_hdr_err (d : Bytes) (e : Err) (hh : hdrDecode d = .error e) :
    frameDecode d = .error e := by
  unfold frameDecode
  rw [hh]

/-- decoding the wire frame returns the same id and payload -/
theorem frameDecode_wire (fid : Nat) (p : Bytes) (hp : p.length ≤ 65529) (hf : fid ≤ 8) :
    frameDecode (wire fid p) = .ok ⟨fid, p⟩ := by
  have hlen : (wire fid p).length = p.length + 6 := by simp [wire, wirePrefix]
  have hh : hdrDecode (wire fid p) = .ok ⟨fid, p.length + 6⟩ := by
    have : wire fid p = (0x55 : Byte) :: BitVec.ofNat 8 (p.length + 6) :: BitVec.ofNat 8 ((p.length + 6) / 256)
        :: BitVec.ofNat 8 fid :: (p ++ [BitVec.ofNat 8 ((crc16xmodem (wirePrefix fid p)).toNat / 256),
          BitVec.ofNat 8 (crc16xmodem (wirePrefix fid p)).toNat]) := rfl
    rw [this, hdrDecode_cons]
    have h1 : (BitVec.ofNat 8 fid).toNat = fid := by simp; omega
    have h2 : (BitVec.ofNat 8 (p.length + 6)).toNat + 256 * (BitVec.ofNat 8 ((p.length + 6) / 256)).toNat
        = p.length + 6 := by simp; omega
    rw [h1, h2]
    simp [hf]
  rw [frameDecode_of_hdr _ _ hh]
  have h6 : ¬ (p.length + 6 < 6) := by omega
  have hl : ¬ (p.length + 6 > (wire fid p).length) := by omega
  have htake : (wire fid p).take (p.length + 6) = wire fid p := by
    rw [← hlen]; exact List.take_length
  have hcrc : crc16xmodem (wire fid p) = 0 := by
    rw [wire_eq, ← hiByte_eq, ← loByte_eq]
    exact crc16xmodem_residue _
  have hs : slice (wire fid p) 4 (p.length + 6 - 2) = p := by
    simp [slice, wire, wirePrefix]
  simp only [h6, hl, if_false, htake, hcrc, ne_eq, not_true_eq_false, hs]

/-- the wire frame is payload + 6 bytes -/
theorem wire_length (fid : Nat) (p : Bytes) : (wire fid p).length = p.length + 6 := by
  simp [wire, wirePrefix]

end Nxs.Serial
