/-
  ClientReq — `Pad.ClientReq` (Pad.lean: the enumeration of the client's builders, `ClientReq.build`) is the
  uniform description of "every request the client can build" used by the end-to-end
  theorems (Lemmas/Compose.lean for the built-in codec, Lemmas/Generic.lean for every lawful codec):
  the builder that is called, C05's hypotheses, the device-side callback, the NxScope payload, and what
  the device-side decoder must return.  Everything here except `build` / `buildWith` is about PAYLOADS and
  therefore independent of the frame codec.
-/
import NxsModel.Generic
import NxsModel.Pad
import NxsModel.Props.C05
namespace Nxs.Compose
open Nxs Nxs.Spec
open Nxs.Pad (ClientReq)

theorem specVec_length (vs : List Nat) (h : vs ≠ []) :
    (C05.specVec vs).length = 3 ∨ (C05.specVec vs).length = vs.length + 2 := by
  cases vs with
  | nil => exact absurd rfl h
  | cons v vs =>
    have hsv : C05.specVec (v :: vs) =
        if Requests.allSame (v :: vs) then C05.specAll v else C05.specBulk (v :: vs) := rfl
    rw [hsv]
    split
    · left; rfl
    · right; simp [C05.specBulk]

/-! ### the uniform statement -/

/-- the hypotheses of C05 -/
def _root_.Nxs.Pad.ClientReq.Valid : ClientReq → Prop
  | .start _ => True
  | .cmninfo => True
  | .chinfo c => c ≤ 255
  | .enSingle n c _ => c < n ∧ n ≤ 255
  | .enVec n vs => vs.length = n ∧ 1 ≤ n ∧ n ≤ 255
  | .divSingle n c v => c < n ∧ n ≤ 255 ∧ v ≤ 255
  | .divVec n vs => vs.length = n ∧ 1 ≤ n ∧ n ≤ 255 ∧ ∀ v ∈ vs, v ≤ 255

/-- index of the device-side callback (`Dispatch.cbName`) -/
def _root_.Nxs.Pad.ClientReq.cb : ClientReq → Nat
  | .cmninfo => 0
  | .chinfo _ => 1
  | .enSingle .. | .enVec .. => 2
  | .divSingle .. | .divVec .. => 3
  | .start _ => 4

/-- the NxScope payload of the request (hand-written in C05) -/
def _root_.Nxs.Pad.ClientReq.payload : ClientReq → Bytes
  | .start b => [C05.byte (C05.b2n b)]
  | .cmninfo => []
  | .chinfo c => [C05.byte c]
  | .enSingle _ c v => C05.specSingle c (C05.b2n v)
  | .enVec _ vs => C05.specVec (vs.map C05.b2n)
  | .divSingle _ c v => C05.specSingle c v
  | .divVec _ vs => C05.specVec vs


/-- the NxScope frame id of the request (`EParseId`) -/
def _root_.Nxs.Pad.ClientReq.fid : ClientReq → Nat
  | .cmninfo => 2
  | .chinfo _ => 3
  | .start _ => 5
  | .enSingle .. | .enVec .. => 6
  | .divSingle .. | .divVec .. => 7

/-- the client builder called for the request by `Parser(frame=cls)`, `c` standing for `cls()` -/
def _root_.Nxs.Pad.ClientReq.buildWith (c : Codec) : ClientReq → Except Err Bytes
  | .start b => Generic.frameStart c b
  | .cmninfo => Generic.frameCmninfo c
  | .chinfo ch => Generic.frameChinfo c ch
  | .enSingle n ch v => Generic.frameEnable c (.single ch v) n
  | .enVec n vs => Generic.frameEnable c (.vec vs) n
  | .divSingle n ch v => Generic.frameDiv c (.single ch v) n
  | .divVec n vs => Generic.frameDiv c (.vec (vs.map Int.ofNat)) n

/-- with the built-in codec `buildWith` is `build` -/
theorem _root_.Nxs.Pad.ClientReq.buildWith_serial (r : ClientReq) : r.buildWith Serial.codec = r.build := by
  cases r <;> simp only [ClientReq.buildWith, ClientReq.build, Generic.serial_frameStart,
    Generic.serial_frameCmninfo, Generic.serial_frameChinfo, Generic.serial_frameEnable, Generic.serial_frameDiv]

/-! ### … and the callback's decoder recovers what the caller asked for (C05, on the payload fired) -/

theorem enable_vec_decodes (n : Nat) (vs cur : List Bool) (hl : vs.length = n) (h1 : 1 ≤ n) :
    Requests.frameEnableDecode (C05.specVec (vs.map C05.b2n)) n cur = .ok vs := by
  match vs, hl with
  | [], hl => simp at hl; omega
  | v :: vs, hl =>
    have hsv : C05.specVec ((v :: vs).map C05.b2n) =
        if Requests.allSame ((v :: vs).map C05.b2n) then C05.specAll (C05.b2n v)
        else C05.specBulk ((v :: vs).map C05.b2n) := rfl
    rw [hsv, Requests.allSame_map C05.b2n (fun a b h => by cases a <;> cases b <;> first | rfl | cases h)]
    by_cases hs : Requests.allSame (v :: vs) = true
    · rw [if_pos hs, C05.dev_decode_en_all, Requests.allSame_eq_replicate v vs hs, ← hl]; rfl
    · rw [if_neg hs]; exact C05.dev_decode_en_bulk n (v :: vs) cur hl

theorem div_vec_decodes (n : Nat) (vs : List Nat) (cur : List Int) (hl : vs.length = n) (h1 : 1 ≤ n)
    (hv : ∀ v ∈ vs, v ≤ 255) :
    Requests.frameDivDecode (C05.specVec vs) n cur = .ok (vs.map Int.ofNat) := by
  match vs, hl, hv with
  | [], hl, _ => simp at hl; omega
  | v :: vs, hl, hv =>
    have hsv : C05.specVec (v :: vs) =
        if Requests.allSame (v :: vs) then C05.specAll v else C05.specBulk (v :: vs) := rfl
    by_cases hs : Requests.allSame (v :: vs) = true
    · rw [hsv, if_pos hs, C05.dev_decode_div_all n v cur (hv v (by simp)),
        Requests.allSame_eq_replicate v vs hs, ← hl]
      simp
    · rw [hsv, if_neg hs]; exact C05.dev_decode_div_bulk n (v :: vs) cur hl hv

/-- what the device-side decoder of the fired callback must return on the fired payload -/
def _root_.Nxs.Pad.ClientReq.Understood : ClientReq → Prop
  | .start b => Requests.frameStartDecode (ClientReq.start b).payload = .ok b
  | .cmninfo => True
  | .chinfo c => (ClientReq.chinfo c).payload = [BitVec.ofNat 8 c]
  | .enSingle n c v => ∀ cur : List Bool, cur.length = n →
      Requests.frameEnableDecode (ClientReq.enSingle n c v).payload n cur = .ok (cur.set c v)
  | .enVec n vs => ∀ cur : List Bool,
      Requests.frameEnableDecode (ClientReq.enVec n vs).payload n cur = .ok vs
  | .divSingle n c v => ∀ cur : List Int, cur.length = n →
      Requests.frameDivDecode (ClientReq.divSingle n c v).payload n cur = .ok (cur.set c (v : Int))
  | .divVec n vs => ∀ cur : List Int,
      Requests.frameDivDecode (ClientReq.divVec n vs).payload n cur = .ok (vs.map Int.ofNat)

theorem request_understood (r : ClientReq) (hr : r.Valid) : r.Understood := by
  cases r with
  | start b => exact C05.dev_decode_start b
  | cmninfo => trivial
  | chinfo c => rfl
  | enSingle n c v => exact fun cur hcur => C05.dev_decode_en_single n c v cur hcur hr.1 hr.2
  | enVec n vs => exact fun cur => enable_vec_decodes n vs cur hr.1 hr.2.1
  | divSingle n c v => exact fun cur hcur => C05.dev_decode_div_single n c v cur hcur hr.1 hr.2.1 hr.2.2
  | divVec n vs => exact fun cur => div_vec_decodes n vs cur hr.1 hr.2.1 hr.2.2.2

end Nxs.Compose
