/-
  Compose — end-to-end theorems that cross component boundaries, obtained by composing the property
  theorems of Props/C01 … C18 (no model is unfolded here beyond one-step `unfold`s of glue
  definitions; the component theorems are used with `rw`/`exact`).

    1. request_reaches_callback   C05 ∘ C17 ∘ C02 ∘ C01
    2. stream_pipeline            C15 ∘ C01 ∘ C03 (∘ C18 for the serial-port variant)
    3. description_roundtrip      C05 ∘ C17 ∘ C02 ∘ C06 ∘ C01 ∘ C03 (∘ C14 for the machine-level form)
    4. fanout_pipeline            (2) ∘ C08

  The one-line restatements with doc comments and non-vacuity examples are in Props/E2E.lean.
-/
import NxsModel.Props.C01
import NxsModel.Props.C02
import NxsModel.Props.C03
import NxsModel.Props.C04
import NxsModel.Props.C05
import NxsModel.Props.C06
import NxsModel.Props.C08
import NxsModel.Props.C14
import NxsModel.Props.C15
import NxsModel.Props.C17
import NxsModel.Props.C18
import NxsModel.Lemmas.ClientReq
namespace Nxs.Compose
open Nxs Nxs.Spec Nxs.Spec.StreamWire
open Nxs.Stream (Sample Chan UserType)
open Nxs.Pad (ClientReq)

attribute [local irreducible] crc16xmodem

/-! ## 1. request → callback -/

/-- a wire frame starts with the start byte -/
theorem hdrFind_wire (fid : Nat) (pl : Bytes) : Serial.hdrFind (wire fid pl) = some 0 :=
  Dummy.hdrFind_wire fid pl

/-- C02 ∘ C01: the dispatcher, given a wire frame, hands id and payload to the callback table -/
theorem dispatch_wire (fid : Nat) (pl : Bytes) (hp : pl.length ≤ 65529) (hf : fid ≤ 8) :
    Dispatch.recvHandle (wire fid pl) = Dispatch.cbHandle fid pl := by
  rw [C02.dispatch_eq_decode, hdrFind_wire]
  show (match Serial.frameDecode ((wire fid pl).drop 0) with
    | .ok fr => Dispatch.cbHandle fr.fid fr.data
    | .error _ => Dispatch.Disp.ignored) = _
  rw [List.drop_zero, C01.decode_create fid pl hp hf]

/-- C17 ∘ C02 ∘ C01: a wire frame written through the interface with any write padding fires the
    callback the table selects, with exactly the payload -/
theorem wire_reaches_callback (pad fid cb : Nat) (pl : Bytes) (hp : pl.length ≤ 65529) (hf : fid ≤ 8)
    (hcb : Dispatch.cbHandle fid pl = .fired cb pl) :
    Dispatch.recvHandle (Pad.dataAlign pad (wire fid pl)) = .fired cb pl := by
  have h := dispatch_wire fid pl hp hf
  rw [hcb] at h
  rw [C17.aligned_same pad _ (by rw [h]; exact fun h' => nomatch h'), h]

/-- the same for whatever a builder returned, once C05 has identified it as a wire frame -/
theorem built_reaches_callback {build : Except Err Bytes} (pad fid cb : Nat) (pl : Bytes)
    (hb : build = .ok (wire fid pl)) (hp : pl.length ≤ 65529) (hf : fid ≤ 8)
    (hcb : Dispatch.cbHandle fid pl = .fired cb pl) :
    ∃ f, build = .ok f ∧ Dispatch.recvHandle (Pad.dataAlign pad f) = .fired cb pl :=
  ⟨_, hb, wire_reaches_callback pad fid cb pl hp hf hcb⟩

theorem start_reaches_callback (pad : Nat) (b : Bool) :
    ∃ f, Requests.frameStart b = .ok f ∧
      Dispatch.recvHandle (Pad.dataAlign pad f) = .fired 4 [C05.byte (C05.b2n b)] :=
  built_reaches_callback pad 5 4 _ (C05.req_bytes_start b) (by simp) (by omega) (Dummy.cb_start _)

theorem cmninfo_reaches_callback (pad : Nat) :
    ∃ f, Requests.frameCmninfo = .ok f ∧ Dispatch.recvHandle (Pad.dataAlign pad f) = .fired 0 [] :=
  built_reaches_callback pad 2 0 _ C05.req_bytes_cmninfo (by simp) (by omega) Dummy.cb_cmninfo

theorem chinfo_reaches_callback (pad c : Nat) (hc : c ≤ 255) :
    ∃ f, Requests.frameChinfo c = .ok f ∧
      Dispatch.recvHandle (Pad.dataAlign pad f) = .fired 1 [C05.byte c] :=
  built_reaches_callback pad 3 1 _ (C05.req_bytes_chinfo c hc) (by simp) (by omega) (Dummy.cb_chinfo _)

theorem enable_single_reaches_callback (pad n c : Nat) (v : Bool) (hc : c < n) (hn : n ≤ 255) :
    ∃ f, Requests.frameEnable (.single c v) n = .ok f ∧
      Dispatch.recvHandle (Pad.dataAlign pad f) = .fired 2 (C05.specSingle c (C05.b2n v)) :=
  built_reaches_callback pad 6 2 _ (C05.req_bytes_en_single n c v hc hn) (by simp [C05.specSingle])
    (by omega) (Dummy.cb_enable _ (by simp [C05.specSingle]))

theorem enable_vec_reaches_callback (pad n : Nat) (vs : List Bool) (hl : vs.length = n) (h1 : 1 ≤ n)
    (hn : n ≤ 255) :
    ∃ f, Requests.frameEnable (.vec vs) n = .ok f ∧
      Dispatch.recvHandle (Pad.dataAlign pad f) = .fired 2 (C05.specVec (vs.map C05.b2n)) := by
  have hne : vs.map C05.b2n ≠ [] := by
    intro h; rw [List.map_eq_nil_iff] at h; subst h; simp at hl; omega
  have hlen := specVec_length _ hne
  rw [List.length_map] at hlen
  exact built_reaches_callback pad 6 2 _ (C05.req_bytes_en_vec n vs hl h1 hn) (by omega) (by omega)
    (Dummy.cb_enable _ (by intro h; rw [h] at hlen; simp at hlen))

theorem div_single_reaches_callback (pad n c v : Nat) (hc : c < n) (hn : n ≤ 255) (hv : v ≤ 255) :
    ∃ f, Requests.frameDiv (.single c v) n = .ok f ∧
      Dispatch.recvHandle (Pad.dataAlign pad f) = .fired 3 (C05.specSingle c v) :=
  built_reaches_callback pad 7 3 _ (C05.req_bytes_div_single n c v hc hn hv) (by simp [C05.specSingle])
    (by omega) (Dummy.cb_div _ (by simp [C05.specSingle]))

theorem div_vec_reaches_callback (pad n : Nat) (vs : List Nat) (hl : vs.length = n) (h1 : 1 ≤ n)
    (hn : n ≤ 255) (hv : ∀ v ∈ vs, v ≤ 255) :
    ∃ f, Requests.frameDiv (.vec (vs.map Int.ofNat)) n = .ok f ∧
      Dispatch.recvHandle (Pad.dataAlign pad f) = .fired 3 (C05.specVec vs) := by
  have hne : vs ≠ [] := by
    intro h; subst h; simp at hl; omega
  have hlen := specVec_length _ hne
  exact built_reaches_callback pad 7 3 _ (C05.req_bytes_div_vec n vs hl h1 hn hv) (by omega) (by omega)
    (Dummy.cb_div _ (by intro h; rw [h] at hlen; simp at hlen))

theorem request_reaches_callback (r : ClientReq) (hr : r.Valid) (pad : Nat) :
    ∃ f, r.build = .ok f ∧ Dispatch.recvHandle (Pad.dataAlign pad f) = .fired r.cb r.payload := by
  cases r with
  | start b => exact start_reaches_callback pad b
  | cmninfo => exact cmninfo_reaches_callback pad
  | chinfo c => exact chinfo_reaches_callback pad c hr
  | enSingle n c v => exact enable_single_reaches_callback pad n c v hr.1 hr.2
  | enVec n vs => exact enable_vec_reaches_callback pad n vs hr.1 hr.2.1 hr.2.2
  | divSingle n c v => exact div_single_reaches_callback pad n c v hr.1 hr.2.1 hr.2.2
  | divVec n vs => exact div_vec_reaches_callback pad n vs hr.1 hr.2.1 hr.2.2.1 hr.2.2.2


/-! ## 2. device encoder → link → client reassembly → client decoder -/

/-- what the client must obtain for a batch: flags 0 and the samples that carry data or metadata,
    in the client's representation, in device order -/
def expected (user : List UserType) (b : List Sample) : Except Err (Option (Nat × List Sample)) :=
  .ok (some (0, (b.filter carries).map (decodedForm user)))

/-- glue: a frame produced by `frame_stream_encode` is `frame_create STREAM` of a payload -/
theorem encode_inv (user : List UserType) (ss : List Sample) (f : Bytes)
    (h : Stream.frameStreamEncode user ss = .ok (some f)) :
    ∃ p, Stream.streamDataEncode user ss = .ok (some p) ∧ Serial.frameCreate 1 (some p) = .ok f := by
  unfold Stream.frameStreamEncode at h
  cases hd : Stream.streamDataEncode user ss with
  | error e => rw [hd] at h; cases h
  | ok o =>
    rw [hd, ok_bind] at h
    cases o with
    | none => cases h
    | some p =>
      refine ⟨p, rfl, ?_⟩
      have hid : Gen.Ids.idSTREAM = 1 := rfl
      simp only [hid] at h
      cases hc : Serial.frameCreate 1 (some p) with
      | error e => rw [hc] at h; cases h
      | ok f' => rw [hc, ok_bind] at h; cases h; rfl

/-- a created frame is a valid back-to-back frame in the sense of C03 (`LawfulCodec`, stated with
    a variable id so that nothing is evaluated) -/
theorem created_valid (fid : Nat) (p f : Bytes) (hc : Serial.frameCreate fid (some p) = .ok f)
    (h8 : fid ≤ 8) :
    Serial.frameDecode f = .ok ⟨fid, p⟩ ∧ ∃ h, Serial.hdrDecode f = .ok h ∧ h.flen = f.length :=
  Serial.codec_lawful.frameCreate_decode fid p f hc h8

/-- C15 ∘ C01: the frame of one batch is a valid back-to-back frame in the sense of C03, and the
    frame it decodes to yields the batch -/
theorem batch_frame (user : List UserType) (L : List Chan) (b : List Sample) (f : Bytes)
    (hrep : ∀ s ∈ b, Representable user s) (hL : LayoutAgrees L b)
    (hne : ∃ s ∈ b, carries s = true)
    (hfit : ∀ p, Stream.streamDataEncode user b = .ok (some p) → p.length ≤ 65529)
    (he : Stream.frameStreamEncode user b = .ok (some f)) :
    ∃ fr, Serial.frameDecode f = .ok fr ∧
      (∃ h, Serial.hdrDecode f = .ok h ∧ h.flen = f.length) ∧
      Stream.frameStreamDecode L user fr = expected user b := by
  obtain ⟨f', he', hd⟩ := C15.frame_roundtrip user L b hrep hL hne hfit
  have hff : f' = f := by
    have := he'.symm.trans he
    injection this with this
    injection this
  subst hff
  obtain ⟨p, _, hc⟩ := encode_inv user b f' he
  obtain ⟨h1', h2⟩ := created_valid 1 p f' hc (by omega)
  rw [h1', ok_bind] at hd
  exact ⟨⟨1, p⟩, h1', h2, hd⟩

/-- the frames of a list of batches, paired with what they decode to -/
theorem batches_frames (user : List UserType) (L : List Chan) (bs : List (List Sample)) (fs : List Bytes)
    (hrep : ∀ b ∈ bs, ∀ s ∈ b, Representable user s) (hL : ∀ b ∈ bs, LayoutAgrees L b)
    (hne : ∀ b ∈ bs, ∃ s ∈ b, carries s = true)
    (hfit : ∀ b ∈ bs, ∀ p, Stream.streamDataEncode user b = .ok (some p) → p.length ≤ 65529)
    (hfs : bs.map (Stream.frameStreamEncode user) = fs.map fun f => .ok (some f)) :
    ∃ fps : List (Bytes × Serial.Frame), fps.map (·.1) = fs ∧
      (∀ x ∈ fps, Serial.frameDecode x.1 = .ok x.2 ∧
        ∃ h, Serial.hdrDecode x.1 = .ok h ∧ h.flen = x.1.length) ∧
      (fps.map (·.2)).map (Stream.frameStreamDecode L user) = bs.map (expected user) := by
  induction bs generalizing fs with
  | nil =>
    cases fs with
    | nil => exact ⟨[], rfl, by simp, rfl⟩
    | cons _ _ => simp at hfs
  | cons b bs ih =>
    cases fs with
    | nil => simp at hfs
    | cons f fs =>
      simp only [List.map_cons, List.cons.injEq] at hfs
      obtain ⟨fr, h1, h2, h3⟩ := batch_frame user L b f (hrep b (by simp)) (hL b (by simp))
        (hne b (by simp)) (hfit b (by simp)) hfs.1
      obtain ⟨fps, g1, g2, g3⟩ := ih fs (fun b' hb => hrep b' (by simp [hb]))
        (fun b' hb => hL b' (by simp [hb])) (fun b' hb => hne b' (by simp [hb]))
        (fun b' hb => hfit b' (by simp [hb])) hfs.2
      refine ⟨(f, fr) :: fps, by simp [g1], ?_, by simp [h3, g3]⟩
      intro x hx
      rcases List.mem_cons.mp hx with rfl | hx
      · exact ⟨h1, h2⟩
      · exact g2 x hx

/-- **stream_pipeline** -/
theorem stream_pipeline (user : List UserType) (L : List Chan) (bs : List (List Sample)) (fs : List Bytes)
    (chunks : List Bytes)
    (hrep : ∀ b ∈ bs, ∀ s ∈ b, Representable user s) (hL : ∀ b ∈ bs, LayoutAgrees L b)
    (hne : ∀ b ∈ bs, ∃ s ∈ b, carries s = true)
    (hfit : ∀ b ∈ bs, ∀ p, Stream.streamDataEncode user b = .ok (some p) → p.length ≤ 65529)
    (hfs : bs.map (Stream.frameStreamEncode user) = fs.map fun f => .ok (some f))
    (hch : chunks.flatten = fs.flatten) :
    (Reasm.run Serial.codec chunks).map (Stream.frameStreamDecode L user) = bs.map (expected user) := by
  obtain ⟨fps, g1, g2, g3⟩ := batches_frames user L bs fs hrep hL hne hfit hfs
  rw [C03.serial_back_to_back fps chunks g2 (by rw [hch, g1]), g3]

/-- the encoder is total on the batches of the theorem: the frames `fs` exist -/
theorem frames_exist (user : List UserType) (L : List Chan) (bs : List (List Sample))
    (hrep : ∀ b ∈ bs, ∀ s ∈ b, Representable user s) (hL : ∀ b ∈ bs, LayoutAgrees L b)
    (hne : ∀ b ∈ bs, ∃ s ∈ b, carries s = true)
    (hfit : ∀ b ∈ bs, ∀ p, Stream.streamDataEncode user b = .ok (some p) → p.length ≤ 65529) :
    ∃ fs : List Bytes, bs.map (Stream.frameStreamEncode user) = fs.map fun f => .ok (some f) := by
  induction bs with
  | nil => exact ⟨[], rfl⟩
  | cons b bs ih =>
    obtain ⟨f, he, _⟩ := C15.frame_roundtrip user L b (hrep b (by simp)) (hL b (by simp))
      (hne b (by simp)) (hfit b (by simp))
    obtain ⟨fs, hfs⟩ := ih (fun b' hb => hrep b' (by simp [hb])) (fun b' hb => hL b' (by simp [hb]))
      (fun b' hb => hne b' (by simp [hb])) (fun b' hb => hfit b' (by simp [hb]))
    exact ⟨f :: fs, by simp [he, hfs]⟩

/-- existential form: the device does produce one frame per batch, and whatever the chunking of
    their concatenation the client decodes exactly the batches -/
theorem stream_pipeline_total (user : List UserType) (L : List Chan) (bs : List (List Sample))
    (hrep : ∀ b ∈ bs, ∀ s ∈ b, Representable user s) (hL : ∀ b ∈ bs, LayoutAgrees L b)
    (hne : ∀ b ∈ bs, ∃ s ∈ b, carries s = true)
    (hfit : ∀ b ∈ bs, ∀ p, Stream.streamDataEncode user b = .ok (some p) → p.length ≤ 65529) :
    ∃ fs : List Bytes, bs.map (Stream.frameStreamEncode user) = fs.map (fun f => .ok (some f)) ∧
      ∀ chunks : List Bytes, chunks.flatten = fs.flatten →
        (Reasm.run Serial.codec chunks).map (Stream.frameStreamDecode L user) = bs.map (expected user) := by
  obtain ⟨fs, hfs⟩ := frames_exist user L bs hrep hL hne hfit
  exact ⟨fs, hfs, fun chunks hch => stream_pipeline user L bs fs chunks hrep hL hne hfit hfs hch⟩

/-- ∘ C18: the same with the serial-port pipe model as the link — any history of OS deliveries,
    reads, idle reads and port errors (no `drop_all`) in which the device sent the frames and
    everything sent was eventually delivered and read -/
theorem stream_pipeline_serial_port (user : List UserType) (L : List Chan) (bs : List (List Sample))
    (fs : List Bytes) (pt : Pipe.Port) (p : Nat) (ops : List Pipe.Op)
    (hrep : ∀ b ∈ bs, ∀ s ∈ b, Representable user s) (hL : ∀ b ∈ bs, LayoutAgrees L b)
    (hne : ∀ b ∈ bs, ∃ s ∈ b, carries s = true)
    (hfit : ∀ b ∈ bs, ∀ p, Stream.streamDataEncode user b = .ok (some p) → p.length ≤ 65529)
    (hfs : bs.map (Stream.frameStreamEncode user) = fs.map fun f => .ok (some f))
    (hsent : Pipe.peerSent ops = fs.flatten)
    (hnd : Pipe.Op.dropAll ∉ ops)
    (hf : (Pipe.run pt (Pipe.init p) ops).1.rxFlight = [])
    (hw : (Pipe.run pt (Pipe.init p) ops).1.rxWaiting = []) :
    (Reasm.run Serial.codec (Pipe.readChunks (Pipe.run pt (Pipe.init p) ops).2)).map
        (Stream.frameStreamDecode L user) = bs.map (expected user) := by
  rw [(C18.session_same_as_ideal pt p ops hnd hf hw).2]
  exact stream_pipeline user L bs fs [Pipe.peerSent ops] hrep hL hne hfit hfs (by simp [hsent])

/-! ## 3. the device description -/

/-- C03 ∘ C01: a single wire frame, however it is chunked, is reassembled to its id and payload -/
theorem run_wire (fid : Nat) (pl : Bytes) (chunks : List Bytes) (hp : pl.length ≤ 65529) (hid : fid ≤ 8)
    (hch : chunks.flatten = wire fid pl) : Reasm.run Serial.codec chunks = [⟨fid, pl⟩] := by
  rw [C03.serial_resync [] [] fid pl chunks hp hid (by simp) (by simp [hch])]
  rfl

/-- **description_roundtrip**, common info -/
theorem description_roundtrip_cmninfo (pad chmax flags rxp : Nat) (h1 : chmax ≤ 255) (h2 : flags ≤ 255)
    (h3 : rxp ≤ 255) :
    ∃ req ans, Requests.frameCmninfo = .ok req ∧
      Dispatch.recvHandle (Pad.dataAlign pad req) = .fired 0 [] ∧
      Info.cmninfoEncode chmax flags rxp = .ok ans ∧
      ∀ chunks : List Bytes, chunks.flatten = ans →
        (Reasm.run Serial.codec chunks).map Info.cmninfoDecode = [.ok (some (chmax, flags, rxp))] := by
  obtain ⟨req, hreq, hdisp⟩ := cmninfo_reaches_callback pad
  obtain ⟨henc, hdec⟩ := C06.cmninfo_rt chmax flags rxp h1 h2 h3
  refine ⟨req, _, hreq, hdisp, henc, fun chunks hch => ?_⟩
  rw [C01.decode_create 2 _ (by simp) (by omega), ok_bind] at hdec
  rw [run_wire 2 _ chunks (by simp) (by omega) hch, List.map_singleton, hdec]

/-- **description_roundtrip**, channel info -/
theorem description_roundtrip_chinfo (pad c : Nat) (hc : c ≤ 255) (en : Bool) (ty vdim div mlen : Nat)
    (name : Bytes) (ht : ty ≤ 255) (hv : vdim ≤ 255) (hd : div ≤ 255) (hm : mlen ≤ 255)
    (hnul : ∀ b ∈ name, b ≠ 0) (hutf : Info.validUtf8 name = true) (hfit : name.length ≤ 65524) :
    ∃ req ans, Requests.frameChinfo c = .ok req ∧
      Dispatch.recvHandle (Pad.dataAlign pad req) = .fired 1 [BitVec.ofNat 8 c] ∧
      Info.chinfoEncode ⟨en, ty, vdim, div, mlen, name⟩ = .ok ans ∧
      ∀ chunks : List Bytes, chunks.flatten = ans →
        (Reasm.run Serial.codec chunks).map Info.chinfoDecode
          = [.ok (some ⟨en, ty, vdim, div, mlen, name⟩)] := by
  obtain ⟨req, hreq, hdisp⟩ := chinfo_reaches_callback pad c hc
  obtain ⟨henc, hdec⟩ := C06.chinfo_rt en ty vdim div mlen name ht hv hd hm hnul hutf hfit
  refine ⟨req, _, hreq, hdisp, henc, fun chunks hch => ?_⟩
  have hlen : ([C06.byte (C06.b2n en), C06.byte ty, C06.byte vdim, C06.byte div, C06.byte mlen]
      ++ name).length ≤ 65529 := by simp; omega
  rw [C01.decode_create 3 _ hlen (by omega), ok_bind] at hdec
  rw [run_wire 3 _ chunks hlen (by omega) hch, List.map_singleton, hdec]

/-! ### machine level (C14): the simulated device's answer to the client's request bytes -/

/-- one exchange with the simulated device: the client's request `r` is written through the device
    interface (with the device's write padding), the receive thread runs once, the client reads:
    the read returns the single answer frame of the reference device -/
theorem exchange (cs : List Dummy.Chan) (i : Dummy.Inst) (r : C14.Req) (ans : Bytes)
    (hd : C14.DevOk cs i) (hwf : r.WF cs.length) (halive : i.recvThr = .alive)
    (hq : i.qwrite = []) (hqr : i.qread = [])
    (hans : C14.refAnswer cs i.flags i.rxp r = [ans]) :
    (Dummy.run cs i [.write (wire r.fid r.payload), .recvStep, .read]).2.2
      = [.none, .none, .bytes ans] := by
  obtain ⟨h1, h2⟩ := C14.answers_conform_written cs i r hd hwf halive hq
  simp only [Dummy.step] at h1 h2
  simp only [Dummy.run, Dummy.step]
  generalize Dummy.recvStep cs { i with qwrite := i.qwrite ++ [Pad.dataAlign i.wpad (wire r.fid r.payload)] } = R at h1 h2 ⊢
  obtain ⟨cs', i', e⟩ := R
  simp only at h1 h2
  subst h2
  rw [hqr, hans, List.nil_append] at h1
  simp only [h1, Dummy.stepOutObs]

/-- **description_roundtrip**, machine level, common info: the bytes the client builds, written to
    the simulated device, are answered by a frame that — under any chunking of the reads — decodes
    on the client to the device's channel count, flags and rx padding -/
theorem device_describes_cmninfo (cs : List Dummy.Chan) (i : Dummy.Inst) (hd : C14.DevOk cs i)
    (halive : i.recvThr = .alive) (hq : i.qwrite = []) (hqr : i.qread = []) :
    ∃ req ans, Requests.frameCmninfo = .ok req ∧
      (Dummy.run cs i [.write req, .recvStep, .read]).2.2 = [.none, .none, .bytes ans] ∧
      ∀ chunks : List Bytes, chunks.flatten = ans →
        (Reasm.run Serial.codec chunks).map Info.cmninfoDecode
          = [.ok (some (cs.length, i.flags, i.rxp))] := by
  have hn : cs.length ≤ 255 := by rw [hd.len]; exact hd.chmax
  refine ⟨_, _, C05.req_bytes_cmninfo, exchange cs i .cmninfo _ hd trivial halive hq hqr rfl,
    fun chunks hch => ?_⟩
  obtain ⟨_, hdec⟩ := C06.cmninfo_rt cs.length i.flags i.rxp hn hd.flags hd.rxp
  rw [C01.decode_create 2 _ (by simp) (by omega), ok_bind] at hdec
  rw [run_wire 2 _ chunks (by simp) (by omega) hch, List.map_singleton]
  exact congrArg (fun x => [x]) hdec

/-- **description_roundtrip**, machine level, channel info: the client's request for channel `c`
    is answered with the description of the device's channel object `c`, which the client decodes
    to exactly that object's enable flag, type byte, dimension, divider, metadata length and name
    (`ch.div.toNat` is `ch.div`: `DevOk` has `0 ≤ ch.div ≤ 255`) -/
theorem device_describes_chinfo (cs : List Dummy.Chan) (i : Dummy.Inst) (c : Nat) (ch : Dummy.Chan)
    (hd : C14.DevOk cs i) (hch : cs[c]? = some ch) (hnul : ∀ b ∈ ch.name, b ≠ 0)
    (hutf : Info.validUtf8 ch.name = true) (halive : i.recvThr = .alive) (hq : i.qwrite = []) (hqr : i.qread = []) :
    ∃ req ans, Requests.frameChinfo c = .ok req ∧
      (Dummy.run cs i [.write req, .recvStep, .read]).2.2 = [.none, .none, .bytes ans] ∧
      ∀ chunks : List Bytes, chunks.flatten = ans →
        (Reasm.run Serial.codec chunks).map Info.chinfoDecode
          = [.ok (some ⟨ch.en, ch.type, ch.vdim, ch.div.toNat, ch.mlen, ch.name⟩)] := by
  have hc : c < cs.length := (List.getElem?_eq_some_iff.mp hch).1
  have hn : cs.length ≤ 255 := by rw [hd.len]; exact hd.chmax
  have hok := hd.chans ch (List.mem_of_getElem? hch)
  have hans : C14.refAnswer cs i.flags i.rxp (.chinfo c) = [wire 3 ([Dummy.byte (Dummy.b2n ch.en),
      Dummy.byte ch.type, Dummy.byte ch.vdim, Dummy.byte ch.div.toNat, Dummy.byte ch.mlen] ++ ch.name)] := by
    simp only [C14.refAnswer, hch]
  refine ⟨_, _, C05.req_bytes_chinfo c (by omega), exchange cs i (.chinfo c) _ hd hc halive hq hqr hans,
    fun chunks hch' => ?_⟩
  have hdiv : ch.div.toNat ≤ 255 := by have := hok.div; omega
  obtain ⟨_, hdec⟩ := C06.chinfo_rt ch.en ch.type ch.vdim ch.div.toNat ch.mlen ch.name hok.type hok.vdim
    hdiv hok.mlen hnul hutf hok.name
  have hlen : ([C06.byte (C06.b2n ch.en), C06.byte ch.type, C06.byte ch.vdim, C06.byte ch.div.toNat,
      C06.byte ch.mlen] ++ ch.name).length ≤ 65529 := by have := hok.name; simp; omega
  rw [C01.decode_create 3 _ hlen (by omega), ok_bind] at hdec
  rw [run_wire 3 _ chunks hlen (by omega) hch', List.map_singleton]
  exact congrArg (fun x => [x]) hdec

/-! ## 4. fan-out to the subscribers -/

/-- identification of samples: a sample is identified by its position in the sequence of samples
    the device put on the wire (the `k`-th sample gets `val = k`); only its channel matters to the
    fan-out -/
def number (k : Nat) : List Sample → List Fanout.Smp
  | [] => []
  | s :: r => ⟨s.chan, k⟩ :: number (k + 1) r

theorem number_getElem? (k j : Nat) (ss : List Sample) :
    (number k ss)[j]? = ss[j]?.map fun s => ⟨s.chan, k + j⟩ := by
  induction ss generalizing k j with
  | nil => simp [number]
  | cons s r ih =>
    cases j with
    | zero => simp [number]
    | succ j => simp only [number, List.getElem?_cons_succ, ih]; congr; funext s; congr 1; omega

theorem number_length (k : Nat) (ss : List Sample) : (number k ss).length = ss.length := by
  induction ss generalizing k with
  | nil => rfl
  | cons s r ih => simp [number, ih]

theorem number_append (k : Nat) (a b : List Sample) :
    number k (a ++ b) = number k a ++ number (k + a.length) b := by
  induction a generalizing k with
  | nil => simp [number]
  | cons s a ih =>
    simp only [List.cons_append, number, ih, List.length_cons]
    rw [show k + 1 + a.length = k + (a.length + 1) by omega]

theorem decodedForm_chan (user : List UserType) (s : Sample) : (decodedForm user s).chan = s.chan := by
  unfold decodedForm
  split <;> rfl

theorem number_map_decodedForm (user : List UserType) (k : Nat) (ss : List Sample) :
    number k (ss.map (decodedForm user)) = number k ss := by
  induction ss generalizing k with
  | nil => rfl
  | cons s r ih => simp only [List.map_cons, number, ih, decodedForm_chan]

theorem mem_number {k : Nat} {ss : List Sample} {x : Fanout.Smp} (h : x ∈ number k ss) :
    ∃ s ∈ ss, x.chan = s.chan := by
  induction ss generalizing k with
  | nil => simp [number] at h
  | cons s r ih =>
    simp only [number, List.mem_cons] at h
    rcases h with rfl | h
    · exact ⟨s, by simp, rfl⟩
    · obtain ⟨s', hs', he⟩ := ih h
      exact ⟨s', by simp [hs'], he⟩

/-- the input of the client's stream thread: every successfully decoded stream frame becomes one
    `Fanout.Op.frame` carrying its flags and its samples, numbered consecutively across frames;
    anything else (a non-stream frame, a decode error) contributes nothing -/
def frameOps (k : Nat) : List (Except Err (Option (Nat × List Sample))) → List Fanout.Op
  | [] => []
  | .ok (some (fl, ss)) :: r => .frame fl (number k ss) :: frameOps (k + ss.length) r
  | _ :: r => frameOps k r

theorem flatMap_frameOps (c k : Nat) (D : List (List Sample)) :
    ((frameOps k (D.map fun d => .ok (some (0, d)))).flatMap fun op => match op with
        | .frame _ ss => (ss.filter (·.chan = c)).map (·.val)
        | _ => [])
      = ((number k D.flatten).filter (·.chan = c)).map (·.val) := by
  induction D generalizing k with
  | nil => rfl
  | cons d D ih =>
    simp only [List.map_cons, frameOps, List.flatMap_cons, List.flatten_cons, number_append,
      List.filter_append, List.map_append, ih]

theorem frameOps_wf (n k : Nat) (D : List (List Sample)) (h : ∀ d ∈ D, ∀ s ∈ d, s.chan < n) :
    ∀ op ∈ frameOps k (D.map fun d => .ok (some (0, d))),
      ∃ fl ss, op = .frame fl ss ∧ ∀ x ∈ ss, x.chan < n := by
  induction D generalizing k with
  | nil => intro op hop; simp [frameOps] at hop
  | cons d D ih =>
    intro op hop
    simp only [List.map_cons, frameOps, List.mem_cons] at hop
    rcases hop with rfl | hop
    · refine ⟨0, _, rfl, fun x hx => ?_⟩
      obtain ⟨s, hs, he⟩ := mem_number hx
      rw [he]; exact h d (by simp) s hs
    · exact ih (k + d.length) (fun d' hd' => h d' (by simp [hd'])) op hop

theorem flatten_decoded (user : List UserType) (bs : List (List Sample)) :
    (bs.map fun b => (b.filter carries).map (decodedForm user)).flatten
      = (bs.flatten.filter carries).map (decodedForm user) := by
  induction bs with
  | nil => rfl
  | cons b bs ih => simp only [List.map_cons, List.flatten_cons, ih, List.filter_append, List.map_append]

/-- **fanout_pipeline** (`hdead`: the client's stream thread has not been ended by an undecodable frame during
    `pre` — C08's hypothesis since round 3, R-C08-2) -/
theorem fanout_pipeline (user : List UserType) (L : List Chan) (bs : List (List Sample)) (fs : List Bytes)
    (chunks : List Bytes) (n c : Nat) (pre : List Fanout.Op)
    (hrep : ∀ b ∈ bs, ∀ s ∈ b, Representable user s) (hL : ∀ b ∈ bs, LayoutAgrees L b)
    (hne : ∀ b ∈ bs, ∃ s ∈ b, carries s = true)
    (hfit : ∀ b ∈ bs, ∀ p, Stream.streamDataEncode user b = .ok (some p) → p.length ≤ 65529)
    (hfs : bs.map (Stream.frameStreamEncode user) = fs.map fun f => .ok (some f))
    (hch : chunks.flatten = fs.flatten)
    (hc : c < n) (hen : (Fanout.run (Fanout.St.init n) pre).enabled.getD c false = true)
    (hdead : (Fanout.run (Fanout.St.init n) pre).dead = false)
    (hchan : ∀ b ∈ bs, ∀ s ∈ b, s.chan < n) :
    Fanout.received
        (Fanout.run (Fanout.St.init n)
          (pre ++ [.sub c] ++
            frameOps 0 ((Reasm.run Serial.codec chunks).map (Stream.frameStreamDecode L user))))
        (Fanout.run (Fanout.St.init n) pre).nextQ
      = ((number 0 (bs.flatten.filter carries)).filter (·.chan = c)).map (·.val) := by
  rw [stream_pipeline user L bs fs chunks hrep hL hne hfit hfs hch]
  have hD : bs.map (expected user)
      = (bs.map fun b => (b.filter carries).map (decodedForm user)).map fun d => .ok (some (0, d)) := by
    rw [List.map_map]; rfl
  rw [hD]
  have hen' : ((C08.specRun (C08.Spec.init n) (pre ++ [.sub c])).enabled.getD c false) = true := by
    rw [C08.specRun_append, ← hen, (C08.inv_reach n pre).en]
    simp only [C08.specRun, C08.specStep]
    split <;> rfl
  have hwf := frameOps_wf n 0 (bs.map fun b => (b.filter carries).map (decodedForm user)) (by
    intro d hd s hs
    obtain ⟨b, hb, rfl⟩ := List.mem_map.mp hd
    obtain ⟨s', hs', rfl⟩ := List.mem_map.mp hs
    rw [decodedForm_chan]
    exact hchan b hb s' (List.mem_filter.mp hs').1)
  have h := C08.run_since_subscription n pre _ c hc hen' hdead hwf
  simp only at h
  rw [h]
  refine Eq.trans (flatMap_frameOps c 0 _) ?_
  rw [flatten_decoded, number_map_decodedForm]

end Nxs.Compose
