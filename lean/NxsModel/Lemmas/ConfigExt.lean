/-
  Lemmas for ConfigExt (C07 additions): the device behind its dispatcher reacts to a padded request exactly as
  `Config`'s device reacts to the frame (C17 `aligned_same` ∘ dispatcher on a wire frame ∘ callback table ∘ C05
  decoders), hence the padded machine has the states of the unpadded one; calls with Python ids / `writenow`
  keep the invariants of an acknowledged history.
-/
import NxsModel.ConfigExt
import NxsModel.Lemmas.Config
import NxsModel.Lemmas.Dummy
import NxsModel.Props.C17
namespace Nxs.Config
open Nxs Nxs.Spec Nxs.Requests

attribute [local irreducible] crc16xmodem

/-! ### the frames the client builds are wire frames with a non-empty payload -/

theorem specVec_len (vs : List Nat) (h : vs ≠ []) :
    (C05.specVec vs).length = 3 ∨ (C05.specVec vs).length = vs.length + 2 := by
  cases vs with
  | nil => exact absurd rfl h
  | cons v vs =>
    have hsv : C05.specVec (v :: vs) =
        if Requests.allSame (v :: vs) then C05.specAll v else C05.specBulk (v :: vs) := rfl
    rw [hsv]
    split
    · left; rfl
    · right; simp [C05.specBulk]

/-- in a well-formed state with at least one channel the enable request is a wire frame (id 6) whose payload
    has 3 … 257 bytes -/
theorem enFrame_wire {c : Client} {d : Device} (hI : Inv c d) (hn : c.n ≠ 0) :
    ∃ p, frameEnable (enRequest c) c.n = .ok (wire 6 p) ∧ p ≠ [] ∧ p.length ≤ 65529 := by
  by_cases hs : (∃ k, diffIdx c.enNew c.enNow = [k]) ∧ c.enResync = false
  · obtain ⟨⟨k, hk⟩, hr⟩ := hs
    have hd := diffIdx_single c.enNew c.enNow k false (hI.lEnNew.trans hI.lEnNow.symm) hk
    have hkn : k < c.n := hI.lEnNow ▸ hd.1
    refine ⟨C05.specSingle k (C05.b2n (c.enNew.getD k false)), ?_, ?_, ?_⟩
    · rw [enRequest_single c k hk hr]; exact C05.req_bytes_en_single c.n k _ hkn hI.n255
    · simp [C05.specSingle]
    · simp [C05.specSingle]
  · have h1 : 1 ≤ c.n := Nat.pos_of_ne_zero hn
    have hne : c.enNew.map C05.b2n ≠ [] := by
      intro h; rw [List.map_eq_nil_iff] at h
      have := hI.lEnNew; rw [h] at this; simp at this; omega
    have hlen := specVec_len _ hne
    rw [List.length_map, hI.lEnNew] at hlen
    have := hI.n255
    refine ⟨C05.specVec (c.enNew.map C05.b2n), ?_, ?_, by omega⟩
    · rw [enRequest_vec c hs]; exact C05.req_bytes_en_vec c.n c.enNew hI.lEnNew h1 hI.n255
    · intro h; rw [h] at hlen; simp at hlen

theorem divFrame_wire {c : Client} {d : Device} (hI : Inv c d) (hn : c.n ≠ 0) :
    ∃ p, frameDiv (divRequest c) c.n = .ok (wire 7 p) ∧ p ≠ [] ∧ p.length ≤ 65529 := by
  by_cases hs : (∃ k, diffIdx c.divNew c.divNow = [k]) ∧ c.divResync = false
  · obtain ⟨⟨k, hk⟩, hr⟩ := hs
    have hd := diffIdx_single c.divNew c.divNow k 0 (hI.lDivNew.trans hI.lDivNow.symm) hk
    have hkn : k < c.n := hI.lDivNow ▸ hd.1
    have hkl : k < c.divNew.length := hI.lDivNew ▸ hkn
    have hv : 0 ≤ c.divNew.getD k 0 ∧ c.divNew.getD k 0 ≤ 255 := by
      apply hI.rDivNew
      rw [List.getD_eq_getElem?_getD, List.getElem?_eq_getElem hkl]
      exact List.getElem_mem hkl
    have hb := C05.req_bytes_div_single c.n k (c.divNew.getD k 0).toNat hkn hI.n255 (by omega)
    rw [Int.toNat_of_nonneg hv.1] at hb
    refine ⟨C05.specSingle k (c.divNew.getD k 0).toNat, ?_, ?_, ?_⟩
    · rw [divRequest_single c k hk hr]; exact hb
    · simp [C05.specSingle]
    · simp [C05.specSingle]
  · have h1 : 1 ≤ c.n := Nat.pos_of_ne_zero hn
    have hm := map_toNat_ofNat c.divNew hI.rDivNew
    have hne : c.divNew.map Int.toNat ≠ [] := by
      intro h; rw [List.map_eq_nil_iff] at h
      have := hI.lDivNew; rw [h] at this; simp at this; omega
    have hlen := specVec_len _ hne
    rw [List.length_map, hI.lDivNew] at hlen
    have := hI.n255
    have hb := C05.req_bytes_div_vec c.n (c.divNew.map Int.toNat) (by rw [List.length_map]; exact hI.lDivNew) h1
      hI.n255 (by
        intro v hv
        obtain ⟨a, ha, rfl⟩ := List.mem_map.mp hv
        have := hI.rDivNew a ha
        omega)
    rw [hm] at hb
    refine ⟨C05.specVec (c.divNew.map Int.toNat), ?_, ?_, by omega⟩
    · rw [divRequest_vec c hs]; exact hb
    · intro h; rw [h] at hlen; simp at hlen

/-! ### the dispatcher on a padded wire frame -/

/-- C17 `aligned_same` ∘ the dispatcher on a wire frame ∘ the callback table: the padded enable request fires
    callback 2 with exactly the payload -/
theorem recv_padded_en (pad : Nat) (p : Bytes) (h0 : p ≠ []) (hp : p.length ≤ 65529) :
    Dispatch.recvHandle (Pad.dataAlign pad (wire 6 p)) = .fired 2 p := by
  have h := Dummy.recvHandle_wire 6 p hp (by omega)
  rw [Dummy.cb_enable p h0] at h
  rw [C17.aligned_same pad _ (by rw [h]; exact fun h' => nomatch h'), h]

theorem recv_padded_div (pad : Nat) (p : Bytes) (h0 : p ≠ []) (hp : p.length ≤ 65529) :
    Dispatch.recvHandle (Pad.dataAlign pad (wire 7 p)) = .fired 3 p := by
  have h := Dummy.recvHandle_wire 7 p hp (by omega)
  rw [Dummy.cb_div p h0] at h
  rw [C17.aligned_same pad _ (by rw [h]; exact fun h' => nomatch h'), h]

theorem devReact_en (pad : Nat) (d : Device) (p : Bytes) (h0 : p ≠ []) (hp : p.length ≤ 65529) :
    devReact d (Pad.dataAlign pad (wire 6 p)) = devApplyEn d (wire 6 p) := by
  unfold devReact devApplyEn
  rw [recv_padded_en pad p h0 hp, payloadOf_wire]
  rfl

theorem devReact_div (pad : Nat) (d : Device) (p : Bytes) (h0 : p ≠ []) (hp : p.length ≤ 65529) :
    devReact d (Pad.dataAlign pad (wire 7 p)) = devApplyDiv d (wire 7 p) := by
  unfold devReact devApplyDiv
  rw [recv_padded_div pad p h0 hp, payloadOf_wire]
  rfl

/-- the device reacts to the padded enable request of a well-formed client exactly as to the frame itself -/
theorem devReact_enRequest {c : Client} {d : Device} (hI : Inv c d) (pad : Nat) (f : Bytes)
    (hf : frameEnable (enRequest c) c.n = .ok f) (d' : Device) :
    devReact d' (Pad.dataAlign pad f) = devApplyEn d' f := by
  by_cases hn : c.n = 0
  · rw [frameEnable_zero hI hn] at hf; nomatch hf
  obtain ⟨p, hp, h0, hl⟩ := enFrame_wire hI hn
  rw [hp] at hf
  cases hf
  exact devReact_en pad d' p h0 hl

theorem devReact_divRequest {c : Client} {d : Device} (hI : Inv c d) (pad : Nat) (f : Bytes)
    (hf : frameDiv (divRequest c) c.n = .ok f) (d' : Device) :
    devReact d' (Pad.dataAlign pad f) = devApplyDiv d' f := by
  by_cases hn : c.n = 0
  · rw [frameDiv_zero hI hn] at hf; nomatch hf
  obtain ⟨p, hp, h0, hl⟩ := divFrame_wire hI hn
  rw [hp] at hf
  cases hf
  exact devReact_div pad d' p h0 hl

/-! ### the padded machine has the states of the unpadded one -/

theorem padOut_nil (pad : Nat) (o : StepOut) (h : o.sent = []) : padOut pad o = o := by
  cases o; simp_all [padOut]

theorem padOut_err (pad : Nat) (o : StepOut) : (padOut pad o).err = o.err := rfl

theorem writeEnableP_eq {c : Client} {d : Device} (hI : Inv c d) (pad : Nat) (o : Outcome) :
    writeEnableP pad c d o =
      ((writeEnable c d o).1, (writeEnable c d o).2.1, padOut pad (writeEnable c d o).2.2) := by
  cases h : frameEnable (enRequest c) c.n with
  | error e =>
    rw [writeEnable_err c d o e h]
    unfold writeEnableP; rw [h]; rfl
  | ok f =>
    rw [writeEnable_ok c d o f h]
    unfold writeEnableP; rw [h]
    dsimp only
    rw [devReact_enRequest hI pad f h d]
    generalize ackSeen c o Gen.Comm.ackTimeoutEnable = q
    obtain ⟨s, t⟩ := q
    cases s <;> rfl

theorem writeDivP_eq {c : Client} {d : Device} (hI : Inv c d) (pad : Nat) (o : Outcome) :
    writeDivP pad c d o =
      ((writeDiv c d o).1, (writeDiv c d o).2.1, padOut pad (writeDiv c d o).2.2) := by
  cases h : frameDiv (divRequest c) c.n with
  | error e =>
    rw [writeDiv_err c d o e h]
    unfold writeDivP; rw [h]; rfl
  | ok f =>
    rw [writeDiv_ok c d o f h]
    unfold writeDivP; rw [h]
    dsimp only
    rw [devReact_divRequest hI pad f h d]
    generalize ackSeen c o Gen.Comm.ackTimeoutDiv = q
    obtain ⟨s, t⟩ := q
    cases s <;> rfl

theorem channelsWriteP_eq {c : Client} {d : Device} (hI : Inv c d) (pad : Nat) (oDiv oEn : Outcome) :
    channelsWriteP pad c d oDiv oEn =
      ((channelsWrite c d oDiv oEn).1, (channelsWrite c d oDiv oEn).2.1,
        padOut pad (channelsWrite c d oDiv oEn).2.2) := by
  by_cases hn : c.n = 0
  · rw [channelsWrite_zero c d oDiv oEn hn]
    unfold channelsWriteP; rw [if_pos hn]; rfl
  cases hs : c.divSupported with
  | false =>
    rw [channelsWrite_nodiv c d oDiv oEn hn hs]
    unfold channelsWriteP; rw [if_neg hn, hs]
    exact writeEnableP_eq hI pad oEn
  | true =>
    unfold channelsWriteP; rw [if_neg hn, hs, if_pos rfl]
    dsimp only
    rw [writeDivP_eq hI pad oDiv]
    dsimp only
    rw [padOut_err]
    cases he : (writeDiv c d oDiv).2.2.err with
    | some e =>
      rw [channelsWrite_div_err c d oDiv oEn hn hs e he]
    | none =>
      rw [channelsWrite_div_ok c d oDiv oEn hn hs he]
      dsimp only
      rw [writeEnableP_eq (writeDiv_inv hI oDiv) pad oEn]
      simp [padOut]

theorem stepP_setter (pad : Nat) (c : Client) (d : Device) (op : Op) (h : ∀ a b, op ≠ .write a b) :
    stepP pad c d op = step c d op := by
  cases op with
  | write a b => exact absurd rfl (h a b)
  | _ => rfl

/-- for every padding: one call on the padded machine leaves client and device exactly as on the unpadded one, and
    what is written are the same frames, each aligned -/
theorem stepP_eq {c : Client} {d : Device} (hI : Inv c d) (pad : Nat) (op : Op) :
    stepP pad c d op = ((step c d op).1, (step c d op).2.1, padOut pad (step c d op).2.2) := by
  by_cases h : ∀ a b, op ≠ .write a b
  · rw [stepP_setter pad c d op h, padOut_nil pad _ (step_silent c d op h).2]
  · cases op with
    | write a b => exact channelsWriteP_eq hI pad a b
    | _ => exact absurd (fun a b e => nomatch e) h

theorem runP_eq {c : Client} {d : Device} (hI : Inv c d) (pad : Nat) (ops : List Op) :
    runP pad c d ops = ((run c d ops).1, (run c d ops).2.1, (run c d ops).2.2.map (padOut pad)) := by
  induction ops generalizing c d with
  | nil => rfl
  | cons op r ih =>
    rw [run_cons]
    show ((runP pad (stepP pad c d op).1 (stepP pad c d op).2.1 r).1,
      (runP pad (stepP pad c d op).1 (stepP pad c d op).2.1 r).2.1,
      (stepP pad c d op).2.2 :: (runP pad (stepP pad c d op).1 (stepP pad c d op).2.1 r).2.2) = _
    rw [stepP_eq hI pad op]
    dsimp only
    rw [ih (step_inv hI op)]
    rfl

/-- padding 0 is no padding -/
theorem padOut_zero (o : StepOut) : padOut 0 o = o := by
  cases o with
  | mk s t e =>
    show ({ sent := s.map (Pad.dataAlign 0), time := t, err := e } : StepOut) = _
    have : s.map (Pad.dataAlign 0) = s := by
      induction s with
      | nil => rfl
      | cons a r ih => rw [List.map_cons, ih]; rfl
    rw [this]

/-! ### Python channel ids -/

theorem normId_nonneg (len k : Nat) : normId len (k : Int) = k := by
  unfold normId; rw [if_pos (Int.natCast_nonneg k)]; exact Int.toNat_natCast k

theorem normId_neg (len k : Nat) (h1 : 1 ≤ k) (h2 : k ≤ len) : normId len (-(k : Int)) = len - k := by
  unfold normId
  rw [if_neg (by omega), if_pos (by omega)]
  omega

theorem normId_out (len k : Nat) (h : len < k) : ¬ normId len (-(k : Int)) < len := by
  unfold normId
  rw [if_neg (by omega), if_neg (by omega)]
  omega

theorem map_normId_nonneg (len : Nat) (cs : List Nat) : (cs.map Int.ofNat).map (normId len) = cs := by
  induction cs with
  | nil => rfl
  | cons a r ih => rw [List.map_cons, List.map_cons, ih]; exact congrArg (· :: r) (normId_nonneg len a)

/-- ids ≥ 0 mean what they mean in `Config.Op` -/
theorem toOp_nonneg (c : Client) :
    (∀ cs, (IOp.enable (cs.map Int.ofNat)).toOp c = .enable cs) ∧
    (∀ cs, (IOp.disable (cs.map Int.ofNat)).toOp c = .disable cs) ∧
    (∀ cs v, (IOp.divider (cs.map Int.ofNat) v).toOp c = .divider cs v) ∧
    (∀ op, (IOp.plain op).toOp c = op) :=
  ⟨fun cs => congrArg Op.enable (map_normId_nonneg _ cs), fun cs => congrArg Op.disable (map_normId_nonneg _ cs),
   fun cs v => congrArg (Op.divider · v) (map_normId_nonneg _ cs), fun _ => rfl⟩

/-! ### calls -/

/-- a call whose write (if any) is acknowledged -/
def AckCall (k : Call) : Prop :=
  (∀ a b, k.op = .plain (.write a b) → a = .ack ∧ b = .ack) ∧
  (∀ a b, k.now = some (a, b) → a = .ack ∧ b = .ack)

theorem AckCall.op {k : Call} (h : AckCall k) (c : Client) : AckOp (k.op.toOp c) := by
  cases hk : k.op with
  | plain op =>
    cases op with
    | write a b => exact h.1 a b hk
    | _ => trivial
  | _ => trivial

theorem stepCall_plain (pad : Nat) (c : Client) (d : Device) (k : Call) (h : k.now = none) :
    stepCall pad c d k = stepP pad c d (k.op.toOp c) := by
  unfold stepCall; rw [h]

theorem stepCall_raise (pad : Nat) (c : Client) (d : Device) (k : Call) (e : Err)
    (h : (stepP pad c d (k.op.toOp c)).2.2.err = some e) :
    stepCall pad c d k = stepP pad c d (k.op.toOp c) := by
  unfold stepCall; dsimp only; rw [h]
  cases k.now with
  | none => rfl
  | some ab => rfl

theorem stepCall_now (pad : Nat) (c : Client) (d : Device) (k : Call) (a b : Outcome)
    (hn : k.now = some (a, b)) (h : (stepP pad c d (k.op.toOp c)).2.2.err = none) :
    stepCall pad c d k =
      stepP pad (stepP pad c d (k.op.toOp c)).1 (stepP pad c d (k.op.toOp c)).2.1 (.write a b) := by
  unfold stepCall; dsimp only; rw [hn, h]

theorem AckState.stepP {ds : Bool} {dv0 : List Int} {c : Client} {d : Device} (h : AckState ds dv0 c d)
    (pad : Nat) (op : Op) (ha : AckOp op) :
    AckState ds dv0 (Config.stepP pad c d op).1 (Config.stepP pad c d op).2.1 := by
  rw [stepP_eq h.inv pad op]
  exact h.step op ha

theorem AckState.stepCall {ds : Bool} {dv0 : List Int} {c : Client} {d : Device} (h : AckState ds dv0 c d)
    (pad : Nat) (k : Call) (ha : AckCall k) :
    AckState ds dv0 (Config.stepCall pad c d k).1 (Config.stepCall pad c d k).2.1 := by
  have h1 := h.stepP pad (k.op.toOp c) (ha.op c)
  cases hn : k.now with
  | none => rw [stepCall_plain pad c d k hn]; exact h1
  | some ab =>
    obtain ⟨a, b⟩ := ab
    cases he : (Config.stepP pad c d (k.op.toOp c)).2.2.err with
    | some e => rw [stepCall_raise pad c d k e he]; exact h1
    | none =>
      rw [stepCall_now pad c d k a b hn he]
      exact h1.stepP pad (.write a b) (ha.2 a b hn)

theorem runCalls_cons (pad : Nat) (c : Client) (d : Device) (k : Call) (r : List Call) :
    runCalls pad c d (k :: r) =
      ((runCalls pad (stepCall pad c d k).1 (stepCall pad c d k).2.1 r).1,
       (runCalls pad (stepCall pad c d k).1 (stepCall pad c d k).2.1 r).2.1,
       (stepCall pad c d k).2.2 :: (runCalls pad (stepCall pad c d k).1 (stepCall pad c d k).2.1 r).2.2) := rfl

theorem runCalls_snoc (pad : Nat) (c : Client) (d : Device) (ks : List Call) (k : Call) :
    (runCalls pad c d (ks ++ [k])).1 = (stepCall pad (runCalls pad c d ks).1 (runCalls pad c d ks).2.1 k).1 ∧
    (runCalls pad c d (ks ++ [k])).2.1 = (stepCall pad (runCalls pad c d ks).1 (runCalls pad c d ks).2.1 k).2.1 := by
  induction ks generalizing c d with
  | nil => exact ⟨rfl, rfl⟩
  | cons k' r ih => rw [List.cons_append, runCalls_cons, runCalls_cons]; exact ih _ _

theorem runCalls_ackState {ds : Bool} {dv0 : List Int} {c : Client} {d : Device} (h : AckState ds dv0 c d)
    (pad : Nat) (ks : List Call) (ha : ∀ k ∈ ks, AckCall k) :
    AckState ds dv0 (runCalls pad c d ks).1 (runCalls pad c d ks).2.1 := by
  induction ks generalizing c d with
  | nil => exact h
  | cons k r ih =>
    rw [runCalls_cons]
    exact ih (h.stepCall pad k (ha k (List.mem_cons_self ..))) (fun k' hk' => ha k' (List.mem_cons_of_mem _ hk'))

/-- the result of an acknowledged write on the padded machine from a state of an acknowledged history -/
theorem writeP_ack_result {ds : Bool} {dv0 : List Int} {c : Client} {d : Device} (h : AckState ds dv0 c d)
    (pad : Nat) :
    let r := stepP pad c d (.write .ack .ack)
    r.2.1.en = r.1.enNew ∧ r.1.enNow = r.1.enNew ∧ r.1.copyEn = r.1.enNew ∧
    (ds = true → r.2.1.div = r.1.divNew ∧ r.1.divNow = r.1.divNew ∧ r.1.copyDiv = r.1.divNew) ∧
    (ds = false → r.2.1.div = dv0) ∧ r.2.2.err = none := by
  intro r
  have hw := write_ack_result h.inv h.dEn h.dDiv
  have hr : r = ((step c d (.write .ack .ack)).1, (step c d (.write .ack .ack)).2.1,
      padOut pad (step c d (.write .ack .ack)).2.2) := stepP_eq h.inv pad _
  rw [hr]
  exact ⟨hw.1, hw.2.1, hw.2.2.1, fun e => hw.2.2.2.1 (h.divS.trans e),
    fun e => (hw.2.2.2.2 (h.divS.trans e)).trans (h.dev e), channelsWrite_noerr h.inv .ack .ack⟩

theorem toOp_not_write (op : IOp) (hw : ∀ a b, op ≠ .plain (.write a b)) (c : Client) :
    ∀ a b, op.toOp c ≠ .write a b := by
  intro a b h
  cases op with
  | plain o => exact hw a b (congrArg IOp.plain h)
  | enable cs => nomatch h
  | disable cs => nomatch h
  | divider cs v => nomatch h

/-- a setter with `writenow` (acknowledged) that does not raise, from a state of an acknowledged history -/
theorem writenow_result {ds : Bool} {dv0 : List Int} {c : Client} {d : Device} (h : AckState ds dv0 c d)
    (pad : Nat) (op : IOp) (hw : ∀ a b, op ≠ .plain (.write a b))
    (hok : (step c d (op.toOp c)).2.2.err = none) :
    let r := stepCall pad c d { op := op, now := some (.ack, .ack) }
    r.2.1.en = r.1.enNew ∧ r.1.enNow = r.1.enNew ∧ r.1.copyEn = r.1.enNew ∧
    (ds = true → r.2.1.div = r.1.divNew ∧ r.1.divNow = r.1.divNew ∧ r.1.copyDiv = r.1.divNew) ∧
    (ds = false → r.2.1.div = dv0) ∧ r.2.2.err = none := by
  intro r
  have hop := toOp_not_write op hw c
  have hset := stepP_setter pad c d _ hop
  have hS1 := h.stepP pad (op.toOp c) (by
    cases hq : op.toOp c with
    | write a b => exact absurd hq (hop a b)
    | _ => trivial)
  have hcall : r = _ := stepCall_now pad c d { op := op, now := some (.ack, .ack) } .ack .ack rfl
    (by rw [hset]; exact hok)
  rw [hcall]
  exact writeP_ack_result hS1 pad

/-! ### idempotence and the divider-support clause on the extended machine -/

theorem stepCall_write (pad : Nat) (c : Client) (d : Device) (a b : Outcome) :
    stepCall pad c d { op := .plain (.write a b) } = stepP pad c d (.write a b) :=
  stepCall_plain pad c d _ rfl

/-- a second acknowledged write right after an acknowledged one changes nothing -/
theorem writeP_idem {ds : Bool} {dv0 : List Int} {c : Client} {d : Device} (h : AckState ds dv0 c d) (pad : Nat) :
    let r1 := stepP pad c d (.write .ack .ack)
    let r2 := stepP pad r1.1 r1.2.1 (.write .ack .ack)
    r2.2.1 = r1.2.1 ∧ r2.1 = r1.1 := by
  intro r1 r2
  have h1 : AckState ds dv0 r1.1 r1.2.1 := h.stepP pad _ ⟨rfl, rfl⟩
  have hw := writeP_ack_result h pad
  have hr2 : r2 = _ := stepP_eq h1.inv pad (.write .ack .ack)
  rw [hr2]
  exact write_idem h1.inv h1.dEn h1.dDiv h1.sEn hw.1 hw.2.1
    (fun e => ⟨h1.sDiv, (hw.2.2.2.1 (h1.divS.symm.trans e)).1, (hw.2.2.2.1 (h1.divS.symm.trans e)).2.1⟩)

theorem getD3_dataAlign (pad : Nat) (g : Bytes) (h : g.getD 3 0 = 6) : (Pad.dataAlign pad g).getD 3 0 = 6 := by
  obtain ⟨k, -, -, hk⟩ := Pad.dataAlign_spec pad g
  have hl : 3 < g.length := by
    by_cases hl : 3 < g.length
    · exact hl
    · rw [List.getD_eq_getElem?_getD, List.getElem?_eq_none (by omega)] at h
      exact absurd h (by decide)
  rw [hk, List.getD_eq_getElem?_getD, List.getElem?_append_left hl, ← List.getD_eq_getElem?_getD]
  exact h

theorem stepP_sent {c : Client} {d : Device} (hI : Inv c d) (pad : Nat) (op : Op) (hs : c.divSupported = false) :
    ∀ f ∈ (stepP pad c d op).2.2.sent, f.getD 3 0 = 6 := by
  rw [stepP_eq hI pad op]
  intro f hf
  obtain ⟨g, hg, rfl⟩ := List.mem_map.mp hf
  exact getD3_dataAlign pad g (step_sent hI op hs g hg)

theorem stepCall_sent {c : Client} {d : Device} (hI : Inv c d) (pad : Nat) (k : Call) (hs : c.divSupported = false) :
    Inv (stepCall pad c d k).1 (stepCall pad c d k).2.1 ∧ (stepCall pad c d k).1.divSupported = false ∧
    ∀ f ∈ (stepCall pad c d k).2.2.sent, f.getD 3 0 = 6 := by
  have e1 := stepP_eq hI pad (k.op.toOp c)
  have hI1 : Inv (stepP pad c d (k.op.toOp c)).1 (stepP pad c d (k.op.toOp c)).2.1 := by
    rw [e1]; exact step_inv hI _
  have hs1 : (stepP pad c d (k.op.toOp c)).1.divSupported = false := by
    rw [e1]; exact (step_fixed c d _).1.trans hs
  have hf1 := stepP_sent hI pad (k.op.toOp c) hs
  cases hn : k.now with
  | none => rw [stepCall_plain pad c d k hn]; exact ⟨hI1, hs1, hf1⟩
  | some ab =>
    obtain ⟨a, b⟩ := ab
    cases he : (stepP pad c d (k.op.toOp c)).2.2.err with
    | some e => rw [stepCall_raise pad c d k e he]; exact ⟨hI1, hs1, hf1⟩
    | none =>
      rw [stepCall_now pad c d k a b hn he]
      have e2 := stepP_eq hI1 pad (.write a b)
      refine ⟨by rw [e2]; exact step_inv hI1 _, by rw [e2]; exact (step_fixed _ _ _).1.trans hs1,
        stepP_sent hI1 pad _ hs1⟩

theorem runCalls_sent {c : Client} {d : Device} (hI : Inv c d) (pad : Nat) (ks : List Call)
    (hs : c.divSupported = false) :
    ∀ o ∈ (runCalls pad c d ks).2.2, ∀ f ∈ o.sent, f.getD 3 0 = 6 := by
  induction ks generalizing c d with
  | nil => exact fun o ho => nomatch ho
  | cons k r ih =>
    rw [runCalls_cons]
    obtain ⟨h1, h2, h3⟩ := stepCall_sent hI pad k hs
    intro o ho
    rcases List.mem_cons.mp ho with rfl | ho
    · exact h3
    · exact ih h1 h2 o ho

end Nxs.Config
