/-
  CRC-16/XMODEM residue lemma: appending the CRC (big-endian) to a message gives residue 0.
  Structural proof: after xoring the high byte into the register the top byte is zero, so the
  eight steps are pure shifts; same for the low byte.
-/
import NxsModel.Crc
namespace Nxs

/-- eight MSB-first steps on a register whose top byte is zero are a shift by 8 -/
theorem iter8_low (b : BitVec 8) :
    iter8 (crcStepBit 0x1021) (b.zeroExtend 16) = b.zeroExtend 16 <<< 8 := by
  revert b; decide

theorem xor_hi (c : BitVec 16) :
    c ^^^ ((c.extractLsb' 8 8).zeroExtend 16 <<< 8) = (c.extractLsb' 0 8).zeroExtend 16 := by
  ext i hi
  simp
  by_cases h : i < 8
  · simp [h, BitVec.getLsbD_eq_getElem hi]
  · have h3 : 8 + (i - 8) = i := by omega
    have h4 : i - 8 < 8 := by omega
    simp [h, h3, h4, BitVec.getLsbD_eq_getElem hi]

theorem xor_lo (l : BitVec 8) :
    (l.zeroExtend 16 <<< 8) ^^^ (l.zeroExtend 16 <<< 8) = 0 := by
  simp

theorem crcStepByte_zero : crcStepByte 0x1021 0 0 = 0 := by decide

def hiByte (c : BitVec 16) : Byte := c.extractLsb' 8 8
def loByte (c : BitVec 16) : Byte := c.extractLsb' 0 8

theorem crc_residue_reg (c : BitVec 16) :
    crcReg 0x1021 c [hiByte c, loByte c] = 0 := by
  simp only [crcReg, List.foldl, crcStepByte, hiByte, loByte]
  rw [xor_hi, iter8_low]
  simp only [BitVec.xor_self]
  decide

theorem crcReg_append (poly r : BitVec 16) (a b : Bytes) :
    crcReg poly r (a ++ b) = crcReg poly (crcReg poly r a) b := by
  simp [crcReg, List.foldl_append]

theorem crc16xmodem_residue (m : Bytes) :
    crc16xmodem (m ++ [hiByte (crc16xmodem m), loByte (crc16xmodem m)]) = 0 := by
  unfold crc16xmodem
  rw [crcReg_append, crc_residue_reg]

theorem crc_xmodem_eq (m : Bytes) : crc Crc.xmodem m = crc16xmodem m := by
  simp [crc, Crc.xmodem, crc16xmodem]

theorem hiByte_eq (c : BitVec 16) : hiByte c = BitVec.ofNat 8 (c.toNat / 256) := by
  apply BitVec.eq_of_toNat_eq
  simp [hiByte, BitVec.extractLsb'_toNat]
  omega

theorem loByte_eq (c : BitVec 16) : loByte c = BitVec.ofNat 8 c.toNat := by
  apply BitVec.eq_of_toNat_eq
  simp [loByte, BitVec.extractLsb'_toNat]

end Nxs
